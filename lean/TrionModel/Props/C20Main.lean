import TrionModel.Props.C20Asm
import TrionModel.Props.C18Main
/-!
# C20 composed with C18 — from the listing `tridas` prints to the UF2 file `trias` writes

`listing_roundtrip` (Props/C20Asm.lean) ends at the image of the assembler run; `Props/C18Main.lean` models `trias`
from its arguments to the output file. Composed: under the hypotheses of C20 the listing is produced, `trias` run on
its text does NOT fail to assemble, and whenever it writes a file, the independent UF2 reader decodes that file to
blocks whose memory image holds every input byte at 0x20000000 + its offset.

`listing_to_uf2` is the full form (`post_single_ok`: the UF2 writer accepts a single region at 0x20000000 that ends
inside the address space, so a file IS written); `listing_to_uf2_partial` is the earlier form in which the writer's
refusal `refused (post (uf2 e))` was still admitted by the statement.
-/
namespace Trion.Tridas
open Trion Trion.Asm Trion.Trias Trion.Uf2

/-- `writeSegs` stops only with an error of the writer or a panic -/
theorem writeSegs_error_kind : ∀ (st : Uf2.St) (segs : List Seg) (e : Msg), writeSegs st segs = .error e →
    (∃ u, e = .uf2 u) ∨ (∃ s, e = .panic s)
  | _, [], e, h => by simp [writeSegs] at h
  | st, (f, d) :: r, e, h => by
    simp only [writeSegs] at h
    split at h
    · exact writeSegs_error_kind _ r e h
    · cases h; exact .inl ⟨_, rfl⟩
    · cases h; exact .inr ⟨_, rfl⟩

/-- a single region: the byte at offset `i` is found at `base + i` -/
theorem lookup_single (base : Nat) (b : List UInt8) (i : Nat) (hi : i < b.length) :
    Trias.lookup [(base, b)] (base + i) = some b[i] := by
  simp only [Trias.lookup]
  have : base ≤ base + i ∧ base + i < base + b.length := ⟨by omega, by omega⟩
  rw [if_pos this]
  simp [hi]

/-- the image of a listing — one region at 0x20000000 — is neither empty nor a boot sector: the post-processing can only
deliver a file or a UF2 writer error (or the excluded panic) -/
theorem post_single_cases (b : List UInt8) :
    (∃ f, post [(BASE, b)] = .ok f) ∨ (∃ e, post [(BASE, b)] = .error (.uf2 e)) ∨ (∃ s, post [(BASE, b)] = .error (.panic s)) := by
  have h0 : (Trias.lookup [(BASE, b)] 0x10000000).isSome = false := by
    have : ¬ (BASE ≤ 0x10000000 ∧ 0x10000000 < BASE + b.length) := by unfold BASE; omega
    simp only [Trias.lookup, if_neg this]
    rfl
  have hb : bootCrc [(BASE, b)] = .ok [(BASE, b)] := by
    unfold bootCrc
    rw [h0]
    rfl
  unfold post
  simp only [List.isEmpty_cons, Bool.false_eq_true, if_false, hb]
  have hn : newVec (some 0xE48BFF56) 256 256 0 = .ok st0 := rfl
  simp only [hn]
  cases hw : writeSegs st0 (padAll [(BASE, b)]) with
  | error e =>
    simp only
    cases hw2 : writeSegs st0 (padAll [(BASE, b)]) with
    | ok _ => rw [hw2] at hw; cases hw
    | error e2 =>
      rw [hw2] at hw
      cases hw
      -- `writeSegs` fails only with a writer error or a panic
      have := writeSegs_error_kind st0 (padAll [(BASE, b)]) e hw2
      rcases this with ⟨u, rfl⟩ | ⟨s, rfl⟩
      · exact .inr (.inl ⟨u, rfl⟩)
      · exact .inr (.inr ⟨s, rfl⟩)
  | ok st' =>
    simp only
    cases hf : finish st' with
    | ok out => exact .inl ⟨out, rfl⟩
    | err e => exact .inr (.inl ⟨e, rfl⟩)
    | panic s => exact .inr (.inr ⟨s, rfl⟩)

theorem post_single_not_refused (b : List UInt8) :
    post [(BASE, b)] ≠ .error .empty ∧ post [(BASE, b)] ≠ .error .crcOverwrite := by
  rcases post_single_cases b with ⟨f, h⟩ | ⟨e, h⟩ | ⟨s, h⟩ <;> rw [h] <;> simp

/-- the UF2 writer accepts a single region at 0x20000000 that ends inside the address space -/
theorem post_single_ok (b : List UInt8) (hne : b ≠ []) (hsmall : BASE + b.length < 4294967296) :
    ∃ f, post [(BASE, b)] = .ok f := by
  have h0 : (Trias.lookup [(BASE, b)] 0x10000000).isSome = false := by
    have : ¬ (BASE ≤ 0x10000000 ∧ 0x10000000 < BASE + b.length) := by unfold BASE; omega
    simp only [Trias.lookup, if_neg this]
    rfl
  have hb : bootCrc [(BASE, b)] = .ok [(BASE, b)] := by
    unfold bootCrc
    rw [h0]
    rfl
  have hpad : padAll [(BASE, b)] = [(BASE, b)] := by
    simp [padAll, padGo, BASE, zeros]
  have hrej : ¬ WriteAllRejects st0 BASE b := by
    have hR : roundUp b.length 256 ≤ b.length + 255 ∧ roundUp b.length 256 % 256 = 0 := by
      unfold roundUp; split <;> omega
    have hC : ceilDiv (roundUp b.length 256) 256 ≤ roundUp b.length 256 / 256 + 1 := by
      unfold ceilDiv; split <;> omega
    unfold WriteAllRejects
    simp only [st0, BASE, if_true]
    unfold BASE at hsmall
    intro ⟨_, h⟩
    rcases h with h | h | h | h <;> omega
  have hw : ∃ st', writeSegs st0 [(BASE, b)] = .ok st' := by
    rcases writeAll_spec st0 st0_inv BASE (by unfold BASE; omega) b false with ⟨st1, h1, _, _, _⟩ | ⟨e, _, hr⟩
    · exact ⟨st1, by simp [writeSegs, h1]⟩
    · exact absurd hr hrej
  obtain ⟨st', hw⟩ := hw
  have ha2 : Trias.Addr32 [(BASE, b)] := by intro x hx; simp at hx; subst hx; unfold BASE; simp
  obtain ⟨hI, hE⟩ := writeSegs_spec [(BASE, b)] st0 st' st0_inv ha2 hw
  have hout : st'.out = encAll st'.cfg 0 (segsBlks st0 [(BASE, b)]) := by rw [hE.out, hE.cfg]; rfl
  have hlen : (segsBlks st0 [(BASE, b)]).length = st'.count := by rw [hE.count]; simp [st0]
  obtain ⟨f1, _, _⟩ := finish_spec st' hI _ hE.ok hout hlen
  refine ⟨encAll st'.cfg st'.count (segsBlks st0 [(BASE, b)]), ?_⟩
  unfold post
  simp only [List.isEmpty_cons, Bool.false_eq_true, if_false, hb]
  have hn : newVec (some 0xE48BFF56) 256 256 0 = .ok st0 := rfl
  simp only [hn, hpad, hw, f1]

/-- C20∘C18 `listing_to_uf2_partial` -/
theorem listing_to_uf2_partial {decode : Decoder} {b : List UInt8} {es : List Entry}
    (wf : WellFormed decode b es) (hc : Chain es BASE (BASE + b.length)) (hok : ∀ e ∈ es, EntryOk b e)
    (hpc : ∀ e ∈ es, Show.targetOf e.instr e.addr = getBranch e.instr e.addr)
    (hin : ∀ e ∈ es, ∀ d, getBranch e.instr e.addr = some d → inFile b.length d) :
    ∃ ls, listing decode b = .ok ls ∧
      ∀ (fs : Bytes → Option Bytes) (main : Bytes), fs main = some (listingText ls) →
        ((∃ f, mainOut fs main = .written f) ∨ (∃ e, mainOut fs main = .refused (.post (.uf2 e)))) ∧
        ∀ f, mainOut fs main = .written f →
          ∃ bs, read f = some bs ∧ ∀ i (hi : i < b.length), image bs (BASE + i) = some b[i] := by
  obtain ⟨ls, hl, hrun⟩ := listing_roundtrip wf hc hok hpc hin
  refine ⟨ls, hl, fun fs main hfs => ?_⟩
  have hr := hrun fs main hfs
  have hne : b ≠ [] := by
    obtain ⟨e, he, _⟩ := wf.first
    have := wf.size e he
    intro h; subst h; simp at this; omega
  constructor
  · -- the run succeeded; only the post-processing can still refuse
    have hm : mainOut fs main = ofOutcome ⟨true, none, true, [], [(BASE, b)]⟩ := by simp [mainOut, hr]
    rw [hm]
    simp only [ofOutcome, Outcome.success, Option.isNone_none, Bool.and_self, if_true]
    cases hp : post [(BASE, b)] with
    | ok f => exact .inl ⟨f, rfl⟩
    | error e =>
      cases e with
      | uf2 e => exact .inr ⟨e, rfl⟩
      | panic s =>
        have ha : Trias.Addr32 [(BASE, b)] := run_image_addr32 fs main _ hr
        exact absurd hp (post_no_panic _ ha s)
      | empty =>
        exact absurd hp (post_single_not_refused b).1
      | crcOverwrite =>
        exact absurd hp (post_single_not_refused b).2
  · intro f hm
    obtain ⟨o, hro, _, ⟨bs, hread, himg⟩, _⟩ := main_written fs main f hm
    rw [hr] at hro
    cases hro
    exact ⟨bs, hread, fun i hi => himg (BASE + i) b[i] (lookup_single BASE b i hi)⟩

/-- C20∘C18 `listing_to_uf2`  **Full form**: under the hypotheses of C20, `trias` run on the text of the listing WRITES a
file, and the independent UF2 reader decodes that file to an image that holds every input byte at 0x20000000 + offset. -/
theorem listing_to_uf2 {decode : Decoder} {b : List UInt8} {es : List Entry}
    (wf : WellFormed decode b es) (hc : Chain es BASE (BASE + b.length)) (hok : ∀ e ∈ es, EntryOk b e)
    (hpc : ∀ e ∈ es, Show.targetOf e.instr e.addr = getBranch e.instr e.addr)
    (hin : ∀ e ∈ es, ∀ d, getBranch e.instr e.addr = some d → inFile b.length d) :
    ∃ ls, listing decode b = .ok ls ∧
      ∀ (fs : Bytes → Option Bytes) (main : Bytes), fs main = some (listingText ls) →
        ∃ f bs, mainOut fs main = .written f ∧ read f = some bs ∧
          ∀ i (hi : i < b.length), image bs (BASE + i) = some b[i] := by
  obtain ⟨ls, hl, hall⟩ := listing_to_uf2_partial wf hc hok hpc hin
  obtain ⟨_, _, hrun⟩ := listing_roundtrip wf hc hok hpc hin
  refine ⟨ls, hl, fun fs main hfs => ?_⟩
  obtain ⟨hcase, himg⟩ := hall fs main hfs
  have hne : b ≠ [] := by
    obtain ⟨e, he, _⟩ := wf.first
    have := wf.size e he
    intro h; subst h; simp at this; omega
  have hsmall : BASE + b.length < 4294967296 := by have := wf.small; unfold two32 at this; exact this
  obtain ⟨f, hp⟩ := post_single_ok b hne hsmall
  have hw : mainOut fs main = .written f := by
    rcases hcase with ⟨g, hg⟩ | ⟨e, he⟩
    · obtain ⟨o, hro, _, _, hpo⟩ := (main_written_iff fs main g).mp hg
      have hr := (listing_roundtrip wf hc hok hpc hin)
      -- the run's image is the single region, so `g = f`
      obtain ⟨ls2, hl2, hrun2⟩ := hr
      rw [hl] at hl2; cases hl2
      rw [hrun2 fs main hfs] at hro; cases hro
      rw [hp] at hpo; cases hpo
      exact hg
    · exfalso
      obtain ⟨ls2, hl2, hrun2⟩ := listing_roundtrip wf hc hok hpc hin
      rw [hl] at hl2; cases hl2
      have hr := hrun2 fs main hfs
      have hm : mainOut fs main = ofOutcome ⟨true, none, true, [], [(BASE, b)]⟩ := by simp [mainOut, hr]
      rw [hm] at he
      simp [ofOutcome, Outcome.success, hp] at he
  obtain ⟨bs, hread, hi⟩ := himg f hw
  exact ⟨f, bs, hw, hread, hi⟩

end Trion.Tridas
