import TrionModel.Props.C05Asm
import TrionModel.Props.C08Full
/-!
# C05 (pipeline clause, FULL) — `layout_refines_asm` without the side condition `plain`

`layout_refines_asm` (Props/C05Asm.lean) needed `plain` operand trees only through the retry theorem (a deferred
instruction / `.du*` re-run by the task queue gives the bytes of the statement over the final table).  With `evaluate`
idempotent (Props/C08Full.lean: `evaluate_idempotent`, `retry_is_fresh`) the retry theorem holds for every operand tree, so
the statement-by-statement simulation (Lemmas/AsmRefineStmt.lean, AsmRefineRun.lean) no longer carries the hypothesis:

* `layout_refines_asm_full`: for a project consisting of ONE file without `.include / .global / .import / .export`
  (`SingleFileFull`: nothing about the operand trees), a successful run's image IS the two-pass reference layout of the
  program;
* `every_statement_placed_asm_full`: no placeholder survives.

The multi-file theorems `layout_refines_asm_includes_partial`, `every_statement_placed_asm_includes_partial`
(Props/C05Multi.lean) and `layout_refines_asm_global_partial` (Props/C05Multi2.lean) lost the condition in place: their
predicates `Multi.LocalProject` / `GlobalProject` no longer mention `plainEl`.
-/
namespace Trion.Asm
open Trion Trion.SegLayout

/-- a single-file project: no `.include / .global / .import / .export`; operand trees arbitrary -/
def SingleFileFull (els : List Element) : Prop := ∀ el ∈ els, okEl el = true

theorem SingleFile.full {els : List Element} (h : SingleFile els) : SingleFileFull els := fun el hel => (h el hel).1

/-- C05 (pipeline, program level, FULL)  **`layout_refines_asm_full`**: `layout_refines_asm` for every single-file project,
whatever its operand expressions. -/
theorem layout_refines_asm_full {num : Bytes → Nat} (hinj : Function.Injective num) (fs : Bytes → Option Bytes)
    (main data : Bytes) (hfs : fs main = some data) (els : List Element) (perr : Option ParseErr)
    (hparse : parseFile data = .ok (els, perr)) (hsf : SingleFileFull els) (o : Outcome) (h : run fs main = .done o)
    (hs : o.success = true) :
    ∃ t₂ : Table,
      (∀ s ∈ abstract num fs encoder main t₂ none els, s.wf = true) ∧
      (∃ img, Layout.run (abstract num fs encoder main t₂ none els) = .ok img ∧ ∀ a, Map.abs o.image a = img.get a) ∧
      (∃ img', Layout.Ref.pass2 none [] (abstract num fs encoder main t₂ none els) = some img' ∧
        ∀ a, Map.abs o.image a = img'.get a) ∧
      (Layout.NoLabelAtTop (abstract num fs encoder main t₂ none els) →
        ∃ img'' env, Layout.Ref.layout (abstract num fs encoder main t₂ none els) = some img'' ∧
          (∀ a, Map.abs o.image a = img''.get a) ∧
          Layout.Ref.pass1 none [] (abstract num fs encoder main t₂ none els) = some env ∧ EnvRel num t₂ env) := by
  obtain ⟨t₂, img, lst, _, hsteps, henvr, hrun, himg⟩ := run_sim hinj fs main data hfs els perr hparse hsf o h hs
  have hwf := abstract_wf num fs main t₂ els none
  refine ⟨t₂, hwf, ⟨img, hrun, himg⟩, ?_, fun hl => ?_⟩
  · obtain ⟨img', p1, p2⟩ := Layout.run_is_pass2 _ img hrun hwf
    exact ⟨img', p1, fun a => by rw [himg a, p2 a]⟩
  · have hdef := Layout.ref_defined _ img hrun hwf hl
    cases hr : Layout.Ref.layout (abstract num fs encoder main t₂ none els) with
    | none => exact absurd hr hdef
    | some img'' =>
      have heq := Layout.layout_refines _ img img'' hrun hwf hr
      exact ⟨img'', lst.env, rfl, fun a => by rw [himg a, heq a], Layout.symbols_agree _ lst hsteps hwf hl, henvr⟩

/-- C05 (no placeholder survives, program level, FULL) -/
theorem every_statement_placed_asm_full {num : Bytes → Nat} (hinj : Function.Injective num) (fs : Bytes → Option Bytes)
    (main data : Bytes) (hfs : fs main = some data) (els : List Element) (perr : Option ParseErr)
    (hparse : parseFile data = .ok (els, perr)) (hsf : SingleFileFull els) (o : Outcome) (h : run fs main = .done o)
    (hs : o.success = true) :
    ∃ t₂ : Table, ∀ q r s, abstract num fs encoder main t₂ none els = q ++ s :: r → s.emits = true →
      ∃ c, Layout.Ref.cursorAfter none q = some c ∧
        ∀ i, i < (Layout.Ref.bytes c s).length → Map.abs o.image (c + i) = (Layout.Ref.bytes c s)[i]? := by
  obtain ⟨t₂, img, lst, _, _, _, hrun, himg⟩ := run_sim hinj fs main data hfs els perr hparse hsf o h hs
  refine ⟨t₂, fun q r s hp hs' => ?_⟩
  obtain ⟨c, h1, h2⟩ := Layout.every_statement_placed _ q r s img hrun (abstract_wf num fs main t₂ els none) hp hs'
  exact ⟨c, h1, fun i hi => by rw [himg]; exact h2 i hi⟩

/-! ### non-vacuity: a program with a non-`plain` operand -/

/-- `.addr 16; LDR r2, [(0 - ((0 - r0) - r1)) * x]; .const x, 1` — the K5 statement, with `x` defined below -/
def exElsFull : List Element :=
  [⟨1, 1, .directive (bytesOf "addr") (.cons (.const 16) .nil)⟩,
   ⟨2, 1, .instruction [76, 68, 82] (.cons (.ident [114, 50]) (.cons exOrder5 .nil))⟩,
   ⟨3, 1, .directive (bytesOf "const") (.cons (.ident [120]) (.cons (.const 1) .nil))⟩]

example : SingleFileFull exElsFull ∧ ¬ SingleFile exElsFull := by
  refine ⟨fun el hel => ?_, fun h => ?_⟩
  · simp only [exElsFull, List.mem_cons, List.not_mem_nil, or_false] at hel
    rcases hel with rfl | rfl | rfl <;> decide
  · have := (h ⟨2, 1, .instruction [76, 68, 82] (.cons (.ident [114, 50]) (.cons exOrder5 .nil))⟩ (by simp [exElsFull])).2
    revert this
    decide

end Trion.Asm
