import TrionModel.Lemmas.MapPut
import TrionModel.Lemmas.MapRemove
import TrionModel.Lemmas.MapErase
import TrionModel.Lemmas.MapCount
import TrionModel.Lemmas.MapBelow
import TrionModel.Lemmas.MapRuns
import TrionModel.Lemmas.MapOpsPut
import TrionModel.Lemmas.MapOpsRemove
/-!
# C15 — the sparse memory map behaves as an address-to-byte dictionary

Property theorems only (definitions `abs`, `Ok`/`MInv`, `locLin` and helper lemmas live in `Lemmas/Map*.lean`).

Model: `Trion.Map` (Model/Map.lean), mirroring `MemoryMap`. Specification: `Trion.Dict` (Spec/Dict.lean),
`Dict = Nat → Option UInt8`. `abs ps` is the dictionary denoted by the segment list `ps`;
`MInv ps` = segments ascending, non-empty, last address ≤ 0xFFFFFFFF, a gap of at least one address
between neighbours (non-overlapping and maximally merged).

`put` and `remove_range` exist in two forms: the recursive, proof-friendly `put` / `removeRange` of
Model/Map.lean, about which the refinement theorems are stated, and the OPERATIONAL `putOps` /
`removeRangeOps` of Model/MapOps.lean, which mirror the Rust functions statement by statement with an
explicit `.panic` at every index / slice / `splice` / `drain` / `split_at_mut` / `insert` / `assert!` /
overflow-checked arithmetic site (and `.desync` if a written `range.last` disagreed with the data).
`putOps_eq` / `removeRangeOps_eq` show that on every `MInv` state the operational forms return `.ok` of
exactly what the recursive forms compute, so every refinement theorem transfers (`ops_no_panic`,
`ops_history`).
-/
namespace Trion.Map
open Trion.Dict

/-- C15 (put): a fitting put keeps the invariant, overwrites exactly the range in the dictionary, and returns
the number of previously unoccupied addresses it filled. -/
theorem put_refines (ps : Segs) (a : Nat) (d : List UInt8) (inv : MInv ps)
    (h : a + d.length ≤ 4294967296) :
    (put ps a d).1 = .ok (fresh (abs ps) a d.length) ∧
    MInv (put ps a d).2 ∧ abs (put ps a d).2 = Dict.put (abs ps) a d := by
  exact put_refines_aux ps a d inv h

example : put [(2, [9, 9])] 1 [1, 2, 3, 4] = (.ok 2, [(1, [1, 2, 3, 4])]) := by rfl

/-- C15 (overflow clause): data running past 0xFFFFFFFF is rejected and the map is unchanged. -/
theorem put_overflow (ps : Segs) (a : Nat) (d : List UInt8) (ha : a ≤ u32Max)
    (h : a + d.length > 4294967296) :
    put ps a d = (.error (.overflow d.length (4294967296 - a)), ps) := by
  unfold put u32Max at *
  have hd : d.isEmpty = false := by
    cases d with
    | nil => simp at h; omega
    | cons _ _ => rfl
  rw [hd]
  simp only [Bool.false_eq_true, if_false]
  rw [if_pos (by omega)]
  congr 3
  omega

example : put [(4294967295, [1])] 4294967294 [1, 2, 3] = (.error (.overflow 3 2), [(4294967295, [1])]) := by
  rfl

/-- C15 (remove): `remove a` deletes exactly the maximal run of occupied addresses containing `a` and
returns that run (range and bytes); if `a` is unoccupied nothing changes and `None` is returned.
It never panics. -/
theorem remove_refines (ps : Segs) (a : Nat) (inv : MInv ps) :
    MInv (remove ps a).2 ∧ abs (remove ps a).2 = Dict.remove (abs ps) a ∧
    (((remove ps a).1 = .ok none ∧ abs ps a = none) ∨
     (∃ f d, (remove ps a).1 = .ok (some ((f, f + d.length - 1), d)) ∧ d ≠ [] ∧ f ≤ a ∧ a < f + d.length ∧
        (∀ k, f ≤ k → k < f + d.length → abs ps k = d[k - f]?) ∧ abs ps (f + d.length) = none ∧
        (∀ k, k + 1 = f → abs ps k = none))) :=
  remove_spec inv a

example : remove [(1, [1, 2]), (5, [3])] 2 = (.ok (some ((1, 2), [1, 2])), [(5, [3])]) := by rfl

/-- C15 (remove_range) -/
theorem removeRange_refines (ps : Segs) (lo hi : Nat) (inv : MInv ps) (h : lo ≤ hi) :
    MInv (removeRange ps lo hi) ∧ abs (removeRange ps lo hi) = Dict.removeRange (abs ps) lo hi :=
  ⟨(removeRange_spec ps 0 lo hi inv h).1, funext (removeRange_spec ps 0 lo hi inv h).2⟩

example : removeRange [(1, [1, 2, 3, 4])] 2 3 = [(1, [1]), (4, [4])] := by rfl

/-- C15 (clear) -/
theorem clear_refines (ps : Segs) : MInv (clear ps) ∧ abs (clear ps) = Dict.clear (abs ps) :=
  ⟨trivial, rfl⟩

/-- C15 (binary search): on every well-formed map, for every address (including 0 and 0xFFFFFFFF) and all
three modes, the binary search returns what a linear scan returns, and never panics: Exact = index of the
segment containing `a`; Below = that, else the last segment entirely below `a`; Above = that, else the
first segment entirely above `a` (`locLin`, Lemmas/MapLocate.lean). -/
theorem locate_spec (ps : Segs) (a : Nat) (m : Search) (inv : MInv ps) :
    locate ps a m = locLin a m ps 0 ∧ locate ps a m ≠ .panic := by
  have h := locate_eq_locLin inv a m
  refine ⟨h, ?_⟩
  rw [h]
  have key : ∀ (qs : Segs) (i : Nat), locLin a m qs i ≠ .panic := by
    intro qs
    induction qs with
    | nil => intro i; rw [locLin_nil]; cases m <;> simp <;> split <;> simp
    | cons s r ih =>
      intro i
      rw [locLin_cons]
      split
      · cases m <;> simp <;> split <;> simp
      · split
        · exact ih _
        · simp
  exact key ps 0

example : locate [(1, [1, 2]), (5, [3]), (9, [4])] 4 .below = .idx 0 ∧
    locate [(1, [1, 2]), (5, [3]), (9, [4])] 4 .above = .idx 1 ∧
    locate [(1, [1, 2]), (5, [3]), (9, [4])] 4 .exact = .none := by decide

/-- C15 (find, Exact): `None` iff the address is unoccupied; otherwise the maximal run containing it. -/
theorem find_exact_agrees (ps : Segs) (a : Nat) (inv : MInv ps) :
    (find ps a .exact = .ok none ∧ abs ps a = none) ∨
    (∃ f l, find ps a .exact = .ok (some (f, l)) ∧ f ≤ a ∧ a ≤ l ∧ IsRun (abs ps) f l) := by
  rcases find_exact_spec inv a with ⟨_, h1, h2⟩ | ⟨j, s, h1, _, h3, h4, h5⟩
  · exact Or.inl ⟨h1, h2⟩
  · obtain ⟨a1, a2, a3, a4, _⟩ := abs_of_idx inv h1
    have hx : 0 < s.2.length := List.length_pos_iff.mpr a4
    refine Or.inr ⟨s.1, segLast s, h3, h4, by unfold segLast; omega, by unfold segLast; omega, fun k k1 k2 => ?_, a3, ?_⟩
    · unfold segLast at k2
      rw [a1 k k1 (by omega), List.getElem?_eq_getElem (by omega)]; rfl
    · unfold segLast; rw [show s.1 + s.2.length - 1 + 1 = s.1 + s.2.length by omega]; exact a2

/-- C15 (find, Above): the run containing the address, else the nearest run above it (nothing occupied in
between), else `None` when nothing at or above the address is occupied. -/
theorem find_above_agrees (ps : Segs) (a : Nat) (inv : MInv ps) :
    (find ps a .above = .ok none ∧ ∀ k, a ≤ k → abs ps k = none) ∨
    (∃ f l, find ps a .above = .ok (some (f, l)) ∧ IsRun (abs ps) f l ∧
      ((f ≤ a ∧ a ≤ l) ∨ (a < f ∧ ∀ k, a ≤ k → k < f → abs ps k = none))) := by
  rcases find_above_spec inv a with h | ⟨j, s, h1, h3, h4⟩
  · exact Or.inl h
  · obtain ⟨a1, a2, a3, a4, _⟩ := abs_of_idx inv h1
    have hx : 0 < s.2.length := List.length_pos_iff.mpr a4
    refine Or.inr ⟨s.1, segLast s, h3, ⟨by unfold segLast; omega, fun k k1 k2 => ?_, a3, ?_⟩, ?_⟩
    · unfold segLast at k2
      rw [a1 k k1 (by omega), List.getElem?_eq_getElem (by omega)]; rfl
    · unfold segLast; rw [show s.1 + s.2.length - 1 + 1 = s.1 + s.2.length by omega]; exact a2
    · rcases h4 with ⟨h5, h6⟩ | h5
      · exact Or.inl ⟨h5, by unfold segLast; omega⟩
      · exact Or.inr h5

/-- C15 (find, Below): the run containing the address, else the nearest run below it (the maximal run with the
greatest last address `< a`: nothing is occupied between its end and `a`), else `None` when nothing at or below
the address is occupied. -/
theorem find_below_agrees (ps : Segs) (a : Nat) (inv : MInv ps) :
    (find ps a .below = .ok none ∧ ∀ k, k ≤ a → abs ps k = none) ∨
    (∃ f l, find ps a .below = .ok (some (f, l)) ∧ IsRun (abs ps) f l ∧
      ((f ≤ a ∧ a ≤ l) ∨ (l < a ∧ ∀ k, l < k → k ≤ a → abs ps k = none))) :=
  find_below_agrees_aux ps a inv

example : MInv [(10, [1, 2, 3]), (20, [4]), (30, [5, 6])] ∧
    find [(10, [1, 2, 3]), (20, [4]), (30, [5, 6])] 25 .below = .ok (some (20, 20)) ∧
    find [(10, [1, 2, 3]), (20, [4]), (30, [5, 6])] 11 .below = .ok (some (10, 12)) ∧
    find [(10, [1, 2, 3]), (20, [4]), (30, [5, 6])] 5 .below = .ok none := by
  refine ⟨by simp [MInv, Ok], by decide, by decide, by decide⟩

/-- C15 (get, Exact): `None` iff unoccupied; otherwise the run and the bytes from `a` to the end of the run. -/
theorem get_exact_agrees (ps : Segs) (a : Nat) (inv : MInv ps) :
    (get ps a .exact = .ok none ∧ abs ps a = none) ∨
    (∃ f l d, get ps a .exact = .ok (some ((f, l), d)) ∧ f ≤ a ∧ a ≤ l ∧ IsRun (abs ps) f l ∧
      d.length = l + 1 - a ∧ ∀ i, i < d.length → abs ps (a + i) = d[i]?) := by
  rcases find_exact_spec inv a with ⟨hl, _, h2⟩ | ⟨j, s, h1, hl, _, h4, h5⟩
  · left; unfold get; rw [hl]; exact ⟨rfl, h2⟩
  · obtain ⟨a1, a2, a3, a4, _⟩ := abs_of_idx inv h1
    have hx : 0 < s.2.length := List.length_pos_iff.mpr a4
    right
    refine ⟨s.1, segLast s, s.2.drop (a - s.1), ?_, h4, by unfold segLast; omega,
      ⟨by unfold segLast; omega, fun k k1 k2 => ?_, a3, ?_⟩, ?_, fun i hi => ?_⟩
    · unfold get; rw [hl]; simp only [h1]
      rw [if_neg (by omega), if_neg (by omega)]
    · unfold segLast at k2
      rw [a1 k k1 (by omega), List.getElem?_eq_getElem (by omega)]; rfl
    · unfold segLast; rw [show s.1 + s.2.length - 1 + 1 = s.1 + s.2.length by omega]; exact a2
    · rw [List.length_drop]; unfold segLast; omega
    · rw [List.length_drop] at hi
      rw [a1 (a + i) (by omega) (by omega), List.getElem?_drop]
      congr 1; omega

/-- C15 (count): never panics; (number of occupied addresses, saturated at u32::MAX, number of segments —
which by `MInv` are the maximal runs). -/
theorem count_agrees (ps : Segs) (inv : MInv ps) :
    count ps = .ok (min (occupied (abs ps) 0 4294967296) u32Max, ps.length) :=
  count_spec inv

/-- C15 (count_range): never panics; (number of occupied addresses in `lo..=hi`, number of segments meeting
the range). -/
theorem countRange_agrees (ps : Segs) (lo hi : Nat) (inv : MInv ps) (h : lo ≤ hi) (hh : hi ≤ u32Max) :
    countRange ps lo hi =
      .ok (min (occupied (abs ps) lo (hi + 1 - lo)) u32Max, (ps.filter (meets lo hi)).length) :=
  countRange_spec inv lo hi h hh

/-- C15 (iter_range): never panics; exactly the segments meeting `lo..=hi`, in order, each clipped to the
range (range and bytes). -/
theorem iterRange_agrees (ps : Segs) (lo hi : Nat) (inv : MInv ps) (h : lo ≤ hi) (hh : hi ≤ u32Max) :
    iterRange ps lo hi = .ok ((ps.filter (meets lo hi)).map fun s =>
      ((max s.1 lo, min (segLast s) hi),
        (s.2.take (min (segLast s) hi + 1 - s.1)).drop (max s.1 lo - s.1))) :=
  iterRange_spec inv lo hi h hh

example : countRange [(1, [1, 2, 3]), (7, [4])] 2 7 = .ok (3, 2) ∧
    iterRange [(1, [1, 2, 3]), (7, [4])] 2 7 = .ok [((2, 3), [2, 3]), ((7, 7), [4])] := by decide

/-! ### counts at dictionary level -/

/-- C15 (canonical representation): two well-formed segment lists denoting the same dictionary are equal, so
"the segments" of a map are a function of the dictionary alone (its maximal runs). -/
theorem minv_canonical {ps qs : Segs} (hp : MInv ps) (hq : MInv qs) (h : abs ps = abs qs) : ps = qs :=
  minv_canonical_aux hp hq h

/-- the run starts counted by `Dict.runs` are exactly the first addresses of the maximal runs -/
theorem runs_counts_isRun {ps : Segs} (inv : MInv ps) (k : Nat) :
    startsAt (abs ps) 0 k = true ↔ ∃ l, IsRun (abs ps) k l :=
  startsAt_iff_isRun inv k

/-- C15 (count, dictionary level): never panics; (number of occupied u32 addresses saturated at u32::MAX,
number of maximal runs of the dictionary — `Dict.runs`, Spec/DictRuns.lean). -/
theorem count_runs (ps : Segs) (inv : MInv ps) :
    count ps = .ok (min (occupied (abs ps) 0 4294967296) u32Max, runs (abs ps)) :=
  count_runs_aux ps inv

/-- C15 (count_range, dictionary level): never panics; (number of occupied addresses in `lo..=hi` saturated at
u32::MAX, number of maximal runs of the dictionary meeting `lo..=hi` — `Dict.runsIn`). -/
theorem countRange_runs (ps : Segs) (lo hi : Nat) (inv : MInv ps) (h : lo ≤ hi) (hh : hi ≤ u32Max) :
    countRange ps lo hi =
      .ok (min (occupied (abs ps) lo (hi + 1 - lo)) u32Max, runsIn (abs ps) lo (hi + 1 - lo)) :=
  countRange_runs_aux ps lo hi inv h hh

example : runsIn (abs [(1, [1, 2, 3]), (7, [4])]) 2 6 = 2 ∧ countRange [(1, [1, 2, 3]), (7, [4])] 2 7 = .ok (3, 2) := by
  decide

/-! ### histories -/

/-- the dictionary after one operation (a put that would run past 0xFFFFFFFF is rejected) -/
def dictStep (D : Dict) : Op → Dict
  | .put a d => if a + d.length ≤ 4294967296 then Dict.put D a d else D
  | .remove a => Dict.remove D a
  | .removeRange lo hi => Dict.removeRange D lo hi
  | .clear => Dict.clear D

theorem step_refines (ps : Segs) (op : Op) (inv : MInv ps) (wf : op.wf) :
    MInv (step ps op) ∧ abs (step ps op) = dictStep (abs ps) op := by
  cases op with
  | put a d =>
    simp only [step, dictStep]
    by_cases h : a + d.length ≤ 4294967296
    · rw [if_pos h]; exact (put_refines ps a d inv h).2
    · rw [if_neg h, put_overflow ps a d wf (by omega)]; exact ⟨inv, rfl⟩
  | remove a => exact ⟨(remove_refines ps a inv).1, (remove_refines ps a inv).2.1⟩
  | removeRange lo hi => exact removeRange_refines ps lo hi inv wf.1
  | clear => exact clear_refines ps

/-- C15 (history): after ANY finite sequence of put / remove / remove_range / clear on a new map, the
state satisfies the invariant (ascending, non-empty, non-overlapping, maximally merged segments) and holds
exactly the bytes the dictionary holds after the same operations; a further put returns the number of
previously unoccupied addresses it fills. -/
theorem history (ops : List Op) (wf : ∀ op ∈ ops, op.wf) :
    MInv (run ops) ∧ abs (run ops) = ops.foldl dictStep Dict.empty ∧
    ∀ a d, a + d.length ≤ 4294967296 → (put (run ops) a d).1 = .ok (fresh (abs (run ops)) a d.length) := by
  have gen : ∀ (ops : List Op) (ps : Segs), MInv ps → (∀ op ∈ ops, op.wf) →
      MInv (ops.foldl step ps) ∧ abs (ops.foldl step ps) = ops.foldl dictStep (abs ps) := by
    intro ops
    induction ops with
    | nil => intro ps inv _; exact ⟨inv, rfl⟩
    | cons op r ih =>
      intro ps inv wf
      obtain ⟨s1, s2⟩ := step_refines ps op inv (wf op (List.mem_cons_self ..))
      have := ih (step ps op) s1 (fun o ho => wf o (List.mem_cons_of_mem _ ho))
      simp only [List.foldl_cons]
      rw [← s2]; exact this
  obtain ⟨g1, g2⟩ := gen ops [] trivial wf
  exact ⟨g1, g2, fun a d h => (put_refines _ a d g1 h).1⟩

example : run [.put 4294967295 [1], .put 0 [2, 3], .removeRange 1 1, .remove 4294967295] = [(0, [2])] := by
  rfl

/-! ### the operational (statement-by-statement) `put` / `remove_range` -/

/-- C15 (put, operational): on every well-formed map and for every `u32` address, the statement-by-statement
model of `MemoryMap::put` reaches none of its panic sites (index, `splice`, slice, `split_at_mut`, `insert`,
`drain`, `added -= …`, `addr + (len-1) as u32`, …), writes no inconsistent range, and returns exactly the result
and state of the recursive `put`. -/
theorem putOps_refines (ps : Segs) (a : Nat) (d : List UInt8) (inv : MInv ps) (ha : a ≤ u32Max) :
    putOps ps a d = .ok (put ps a d) :=
  putOps_eq inv ha d

/-- C15 (remove_range, operational): likewise for `MemoryMap::remove_range` (`parts[first_idx]`,
`data.drain(..n)`, `range.last + 1`, `range.first - 1`, `parts.insert`, `parts.drain(a..b)`, `parts.remove`,
`assert!(!remove_first)`, the second `locate` on the already modified vector). -/
theorem removeRangeOps_refines (ps : Segs) (lo hi : Nat) (inv : MInv ps) (h : lo ≤ hi) (hh : hi ≤ u32Max) :
    removeRangeOps ps lo hi = .ok (removeRange ps lo hi) :=
  removeRangeOps_eq inv h hh

example : putOps [(2, [9, 9]), (6, [7]), (9, [5, 5])] 1 [1, 2, 3, 4, 5, 6, 7, 8, 9] = .ok (.ok 5, [(1, [1, 2, 3, 4, 5, 6, 7, 8, 9, 5])]) ∧
    removeRangeOps [(1, [1, 2, 3, 4])] 2 3 = .ok [(1, [1]), (4, [4])] ∧
    removeRangeOps [(1, [1, 2]), (5, [3]), (8, [4, 5])] 2 8 = .ok [(1, [1]), (9, [5])] :=
  ⟨rfl, rfl, rfl⟩

/-- one operation through the operational model = the recursive step -/
theorem stepOps_eq (ps : Segs) (op : Op) (inv : MInv ps) (wf : op.wf) : stepOps ps op = .ok (step ps op) := by
  cases op with
  | put a d => simp only [stepOps, step, putOps_eq inv wf d, Out.bind_ok]
  | remove a =>
    have h := (remove_refines ps a inv).2.2
    simp only [stepOps, step]
    generalize remove ps a = r at h
    obtain ⟨r1, r2⟩ := r
    rcases h with ⟨h, _⟩ | ⟨f, d, h, _⟩ <;> (simp only at h; subst h; rfl)
  | removeRange lo hi => exact removeRangeOps_eq inv wf.1 wf.2
  | clear => rfl

/-- a whole history through the operational model = the recursive run -/
theorem runOps_eq (ops : List Op) (wf : ∀ op ∈ ops, op.wf) : runOps ops = .ok (run ops) := by
  have gen : ∀ (ops : List Op) (ps : Segs), MInv ps → (∀ op ∈ ops, op.wf) →
      ops.foldl (fun (st : Out Segs) op => st.bind fun ps => stepOps ps op) (Out.ok ps) =
        Out.ok (ops.foldl step ps) := by
    intro ops
    induction ops with
    | nil => intro ps _ _; rfl
    | cons op r ih =>
      intro ps inv wf
      have w := wf op (List.mem_cons_self ..)
      simp only [List.foldl_cons, Out.bind_ok, stepOps_eq ps op inv w]
      exact ih _ (step_refines ps op inv w).1 (fun o ho => wf o (List.mem_cons_of_mem _ ho))
  exact gen ops [] trivial wf

/-- C15 (no index panic): no finite sequence of put / remove / remove_range / clear on a new map reaches a
panic site of the statement-by-statement models (nor an inconsistent range), whatever the arguments
(`u32` addresses, valid ranges, any data). -/
theorem ops_no_panic (ops : List Op) (wf : ∀ op ∈ ops, op.wf) : ∃ ps, runOps ops = .ok ps :=
  ⟨run ops, runOps_eq ops wf⟩

/-- C15 (history, operational): every state reachable from the empty map THROUGH THE OPERATIONAL FUNCTIONS
satisfies the invariant and equals the dictionary run; a further operational put of data that fits returns the
number of previously unoccupied addresses it fills. -/
theorem ops_history (ops : List Op) (wf : ∀ op ∈ ops, op.wf) :
    ∃ ps, runOps ops = .ok ps ∧ MInv ps ∧ abs ps = ops.foldl dictStep Dict.empty ∧
      ∀ a d, a ≤ u32Max → a + d.length ≤ 4294967296 →
        ∃ ps', putOps ps a d = .ok (.ok (fresh (abs ps) a d.length), ps') ∧ MInv ps' ∧
          abs ps' = Dict.put (abs ps) a d := by
  obtain ⟨g1, g2, _⟩ := history ops wf
  refine ⟨run ops, runOps_eq ops wf, g1, g2, fun a d ha h => ?_⟩
  obtain ⟨p1, p2, p3⟩ := put_refines (run ops) a d g1 h
  refine ⟨(put (run ops) a d).2, ?_, p2, p3⟩
  rw [putOps_eq g1 ha d, ← p1]

example : runOps [.put 4294967295 [1], .put 0 [2, 3], .removeRange 1 1, .remove 4294967295] = .ok [(0, [2])] := by
  rfl

end Trion.Map
