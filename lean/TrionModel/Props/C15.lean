import TrionModel.Lemmas.Map
/-!
# C15 — the sparse memory map behaves as an address-to-byte dictionary

Property theorems only (definitions `abs`, `MInv` and helper lemmas live in `Lemmas/Map*.lean`).

Model: `Trion.Map` (Model/Map.lean), mirroring `MemoryMap`. Specification: `Trion.Dict` (Spec/Dict.lean),
`Dict = Nat → Option UInt8`. `abs ps` is the dictionary denoted by the segment list `ps`;
`MInv ps` = segments ascending, non-empty, last address ≤ 0xFFFFFFFF, a gap of at least one address
between neighbours (non-overlapping and maximally merged).
-/
namespace Trion.Map
open Trion.Dict

/-- C15 (overflow clause): data running past 0xFFFFFFFF is rejected and the map is unchanged. -/
theorem put_overflow (ps : Segs) (a : Nat) (d : List UInt8) (ha : a ≤ u32Max)
    (h : a + d.length > 4294967296) :
    put ps a d = (.error (.overflow d.length (4294967296 - a)), ps) := by
  unfold put u32Max at *
  have hd : d.isEmpty = false := by
    cases d with
    | nil => simp at h; omega
    | cons _ _ => rfl
  rw [hd]
  simp only [Bool.false_eq_true, if_false]
  rw [if_pos (by omega)]
  congr 3
  omega

example : put [(4294967295, [1])] 4294967294 [1, 2, 3] = (.error (.overflow 3 2), [(4294967295, [1])]) := by
  rfl

/-- C15 (put, state part): a fitting put keeps the invariant and overwrites exactly the range in the
dictionary. (The return count is `put_count`.) -/
theorem put_refines_state (ps : Segs) (a : Nat) (d : List UInt8) (inv : MInv ps)
    (h : a + d.length ≤ 4294967296) :
    MInv (put ps a d).2 ∧ abs (put ps a d).2 = Dict.put (abs ps) a d := by
  unfold put
  cases d with
  | nil =>
    refine ⟨inv, ?_⟩
    funext k
    simp [Dict.put]; omega
  | cons b t =>
    have hne : (b :: t) ≠ [] := by simp
    simp only [List.isEmpty_cons, Bool.false_eq_true, if_false]
    rw [if_neg (by unfold u32Max; simp only [List.length_cons] at h ⊢; omega)]
    obtain ⟨i1, i2⟩ := putGo_spec ps 0 a (b :: t) inv (Nat.zero_le _) hne h
    exact ⟨i1, funext i2⟩

/-- C15 (clear) -/
theorem clear_refines (ps : Segs) : MInv (clear ps) ∧ abs (clear ps) = Dict.clear (abs ps) :=
  ⟨trivial, rfl⟩

end Trion.Map
