import TrionModel.Lemmas.AsmFile
import TrionModel.Lemmas.AsmEnc
import TrionModel.Lemmas.AsmLoud
import TrionModel.Lemmas.AsmDiagPos
import TrionModel.Lemmas.AsmNoLoop
/-!
# C06 — every input yields success or diagnostics, never a crash: the whole pipeline

Model: `Trion.Asm.run fs main` (Model/Asm.lean) — `Context::assemble` of the main file (tokenizer, parser, every
directive, the instruction front end and encoder, the output regions, the constant tables, nested `.include`s,
the local task loop), `close_segment`, `finalize` (the global task loop).  Every logic-level panic site of the
Rust code is an explicit `Stop.panic` of the model (list in the header of Model/Asm.lean).

`run_no_panic` is THE theorem of the property: for every file system and every main path the outcome is not
`Result.panic`.  The other non-`done` outcomes are named exclusions, not panics of the code:
  * `Result.fuel`  — more than `maxDepth` nested includes (cyclic includes: known finding K2);
  * `Result.loop`  — the round counter of a task loop ran out: model artefact, proved unreachable (`run_no_loop`);
  * `Result.noMain`— `fs main = none` (the binary reports an I/O error before creating a `Context`).

The proof is the whole-state invariant `Good` (Lemmas/AsmBase.lean) — region invariant of C13, every queued task
refers to a statement placed with the length it is rewritten with (the encoder's output length depends on the
constructor only: `encoder_len`), no register name is a table key, `locals`/`local_tasks` are `Some` exactly
inside a file, no `.global` closure waits in the outermost global queue — preserved by every statement, by both
task loops and across `.include` (Lemmas/AsmPrim, AsmStmt, AsmDir, AsmFile), composed with `Lex.lex_total`,
`Parse.parse_shape`, `Simp.eval_no_panic`, `Front.assemble_no_panic`, `Seg.step_nonrewrite`, `Seg.rewrite_spec`.
-/
namespace Trion.Asm
open Trion

/-- the general form: any encoder whose output length depends only on the instruction's constructor -/
theorem runWith_no_panic (enc : Encoder) (henc : EncLen enc) (fs : Bytes → Option Bytes) (main : Bytes) :
    runWith enc fs main ≠ .panic := by
  unfold runWith
  split
  · simp
  · rename_i data _
    have af := assembleFile_safe henc fs maxDepth false Env.init St.init data main good_init
    split
    · rename_i st res ha
      obtain ⟨g, _⟩ := af.2 _ _ ha
      have hc := Seg.step_nonrewrite g.inv .close trivial (fun _ _ e => by cases e)
      have hclose : Seg.step st.seg .close = Seg.closeSegment st.seg := rfl
      rw [hclose] at hc
      split
      · simp
      · rename_i hcs; rw [hcs] at hc; exact absurd rfl hc.1
      · rename_i s' o _ _ hcs
        rw [hcs] at hc
        have hp : st.seg.pending ⊆ s'.pending := by
          have := pending_close st.seg
          rw [hcs] at this
          exact fun _ x => this ▸ x
        have g' := good_setSeg g hc.2.1 hp
        have fz := finalize_safe henc g'
        split
        · simp
        · rename_i hf; exact absurd hf fz
        · simp
        · simp
    · rename_i ha; exact absurd ha af.1
    · simp
    · simp

/-- C06.run_no_panic  THE theorem: for every file system and every main file, the whole pipeline — tokenizer,
parser, every directive, the instruction front end and encoder, output regions, constant tables, nested
includes, both task loops, `close_segment`, `finalize` — never reaches a panic site of the Rust code. -/
theorem run_no_panic (fs : Bytes → Option Bytes) (main : Bytes) : run fs main ≠ .panic :=
  runWith_no_panic encoder encoder_len fs main

/-- C06.run_no_loop  The round counters of the task loops never run out: a task never queues a local task, and
what it queues globally is a retry with `global = true`, which queues nothing (Lemmas/AsmNoLoop.lean). -/
theorem run_no_loop (fs : Bytes → Option Bytes) (main : Bytes) : run fs main ≠ .loop :=
  runWith_no_loop encoder fs main

/-- C06.run_cases  Every run ends in an outcome (success or diagnostics, `run_outcome`), unless the main file does
not exist or the include depth exceeds the model's bound (cyclic includes, known finding K2). -/
theorem run_cases (fs : Bytes → Option Bytes) (main : Bytes) :
    (∃ o, run fs main = .done o) ∨ run fs main = .noMain ∨ run fs main = .fuel := by
  cases h : run fs main with
  | done o => exact .inl ⟨o, rfl⟩
  | noMain => exact .inr (.inl rfl)
  | fuel => exact .inr (.inr rfl)
  | panic => exact absurd h (run_no_panic fs main)
  | loop => exact absurd h (run_no_loop fs main)

/-- C06.run_outcome  The shape of every outcome: success (close succeeded and `finalize` returned true) means that
`assemble` returned `Ok` and that not a single diagnostic was recorded; a failure always shows as at least one
recorded diagnostic or as the error of `close_segment`.  (Lemmas/AsmLoud.lean: diagnostics are only ever added,
and every `Err` result of a statement, task, file or loop comes with a new diagnostic.) -/
theorem run_outcome (fs : Bytes → Option Bytes) (main : Bytes) (o : Outcome) (h : run fs main = .done o) :
    (o.success = true → o.diags = [] ∧ o.assembleOk = true) ∧
    (o.success = false → o.diags ≠ [] ∨ o.closeErr ≠ none) := by
  unfold run runWith at h
  split at h
  · cases h
  · split at h
    · rename_i st res ha
      have wa := assembleFile_grew fs encoder maxDepth _ _ _ _ _ _ ha
      simp only [Grew, St.init, List.length_nil, Nat.zero_add] at wa
      split at h
      · cases h
        simp [Outcome.success]
      · cases h
      · split at h
        · rename_i st' fin hf
          cases h
          obtain ⟨hm, hfin⟩ := finalize_grew hf
          simp only at hm
          refine ⟨fun hs => ?_, fun hs => ?_⟩
          · have hf' : fin = true := by simpa [Outcome.success] using hs
            have he := hfin.mp hf'
            rw [he] at hm
            simp only [List.length_nil, Nat.le_zero_eq] at hm
            refine ⟨by simp [he], ?_⟩
            cases res with
            | ok => simp
            | err l => simp at wa; omega
          · left
            have hf' : fin = false := by simpa [Outcome.success] using hs
            intro e
            have : st'.errors = [] := by simpa using e
            rw [hfin.mpr this] at hf'
            cases hf'
        all_goals cases h
    all_goals cases h

/-- the earlier, weaker form (kept because props/C06.json lists it): a corollary of `run_outcome` -/
theorem run_outcome_partial (fs : Bytes → Option Bytes) (main : Bytes) (o : Outcome) (h : run fs main = .done o) :
    (o.success = true → o.diags = [] ∧ o.closeErr = none) ∧
    (o.success = false → o.closeErr ≠ none ∨ o.finalize = false) := by
  have ro := run_outcome fs main o h
  refine ⟨fun hs => ⟨(ro.1 hs).1, ?_⟩, fun hs => ?_⟩
  · simp only [Outcome.success, Bool.and_eq_true, Option.isNone_iff_eq_none] at hs
    exact hs.1
  · simp only [Outcome.success, Bool.and_eq_false_iff, Option.isNone_eq_false_iff, Option.isSome_iff_ne_none] at hs
    exact hs

/-- C06.diag_has_pos  Every recorded diagnostic names a file and carries a line ≥ 1 and a column ≥ 1.
Hypothesis (necessary): the empty path is not a file — an `.include ""` next to a file without directory part
would otherwise assemble a file whose name is the empty string; it also makes `main ≠ []` (the main file exists).
(Lemmas/AsmPos.lean: every token, tokenizer error, end position, parser error and element has line, col ≥ 1;
Lemmas/AsmDiagPos.lean: the invariant "all recorded diagnostics and all queued tasks carry proper positions".) -/
theorem diag_has_pos (fs : Bytes → Option Bytes) (main : Bytes) (hfs : fs [] = none)
    (o : Outcome) (h : run fs main = .done o) : ∀ d ∈ o.diags, d.file ≠ [] ∧ 1 ≤ d.line ∧ 1 ≤ d.col := by
  unfold run runWith at h
  split at h
  · cases h
  · rename_i data hdata
    split at h
    · rename_i st res ha
      have hinit : Pok St.init := ⟨fun _ hd => by simp [St.init] at hd, by simp [St.init], trivial⟩
      have w := assembleFile_pok fs hfs encoder maxDepth _ _ _ _ _ _ hdata hinit ha
      split at h
      · cases h
        intro d hd
        exact w.1 d (by simpa using hd)
      · cases h
      · split at h
        · rename_i st' fin hf
          cases h
          have w2 := (fun hp => finalize_pok hp hf) w
          intro d hd
          exact w2.1 d (by simpa using hd)
        all_goals cases h
    all_goals cases h

/-- non-vacuity: the panic outcome is a real outcome of the model's primitives outside the invariant
("no local scope"), the initial state satisfies the invariant, and the main file need not exist -/
example : getConstant St.init [120] .loc = .stop .panic := rfl
example : addTask St.init (.globalCopy [120] 1 1) .loc = .stop .panic := rfl
example : Good false St.init := good_init
example : ∃ fs main, run fs main ≠ .panic ∧ fs main = none := ⟨fun _ => none, [], run_no_panic _ _, rfl⟩

end Trion.Asm
