import TrionModel.Lemmas.AsmFile
/-!
# C06 — every input yields success or diagnostics, never a crash: the whole pipeline

Model: `Trion.Asm.run fs main` (Model/Asm.lean) — `Context::assemble` of the main file (tokenizer, parser, every
directive, the instruction front end and encoder, the output regions, the constant tables, nested `.include`s,
the local task loop), `close_segment`, `finalize` (the global task loop).  Every logic-level panic site of the
Rust code is an explicit `Stop.panic` of the model (list in the header of Model/Asm.lean).

`run_no_panic` is THE theorem of the property: for every file system and every main path the outcome is not
`Result.panic`.  The other non-`done` outcomes are named exclusions, not panics of the code:
  * `Result.fuel`  — more than `maxDepth` nested includes (cyclic includes: known finding K2);
  * `Result.huge`  — a single output region reached 2^32 bytes (4 GiB of output in a region based at 0; from
                     there on `curr_addr` wraps and the code itself can reach `assert_eq!(n, 0)` — `Seg.Small`, C13);
  * `Result.loop`  — the round counter of a task loop ran out (model artefact);
  * `Result.noMain`— `fs main = none` (the binary reports an I/O error before creating a `Context`).

The proof is the whole-state invariant `Good` (Lemmas/AsmBase.lean) — region invariant of C13, every queued task
refers to a statement placed with the length it is rewritten with (the encoder's output length depends on the
constructor only: `encoder_len`), no register name is a table key, `locals`/`local_tasks` are `Some` exactly
inside a file, no `.global` closure waits in the outermost global queue — preserved by every statement, by both
task loops and across `.include` (Lemmas/AsmPrim, AsmStmt, AsmDir, AsmFile), composed with `Lex.lex_total`,
`Parse.parse_shape`, `Simp.eval_no_panic`, `Front.assemble_no_panic`, `Seg.step_nonrewrite`, `Seg.rewrite_spec`.
-/
namespace Trion.Asm
open Trion

/-- the general form: any encoder whose output length depends only on the instruction's constructor -/
theorem runWith_no_panic (enc : Encoder) (henc : EncLen enc) (fs : Bytes → Option Bytes) (main : Bytes) :
    runWith enc fs main ≠ .panic := by
  unfold runWith
  split
  · simp
  · rename_i data _
    have af := assembleFile_safe henc fs maxDepth false Env.init St.init data main good_init
    split
    · rename_i st res ha
      obtain ⟨g, _⟩ := af.2 _ _ ha
      have hc := Seg.step_nonrewrite g.inv .close trivial (fun _ _ e => by cases e)
      have hclose : Seg.step st.seg .close = Seg.closeSegment st.seg := rfl
      rw [hclose] at hc
      split
      · simp
      · rename_i hcs; rw [hcs] at hc; exact absurd rfl hc.1
      · rename_i s' o _ _ hcs
        rw [hcs] at hc
        have hp : st.seg.pending ⊆ s'.pending := by
          have := pending_close st.seg
          rw [hcs] at this
          exact fun _ x => this ▸ x
        have hsm : small s' = true := by
          -- after `close_segment` the region is either unchanged or gone
          have : s' = st.seg ∨ s'.active = none := by
            have e := hcs
            unfold Seg.closeSegment at e
            split at e
            · cases e; exact .inl rfl
            · split at e
              · split at e
                · cases e; exact .inr rfl
                · cases e; exact absurd rfl hc.1
              · cases e; exact .inl rfl
          rcases this with e | e
          · rw [e]; exact g.sm
          · simp [small, e]
        have g' := (good_setSeg g hc.2.1 hsm hp).1
        have fz := finalize_safe henc g'
        split
        · simp
        · rename_i hf; exact absurd hf fz
        · simp
        · simp
        · simp
    · rename_i ha; exact absurd ha af.1
    · simp
    · simp
    · simp

end Trion.Asm
