import TrionModel.Props.C19
import TrionModel.Lemmas.ShowProgFwd
/-!
# C19 (pipeline clause, forward reference) — the disassembly text assembles back when its label is defined LATER

`Props/C19.lean` `show_run` runs `Asm.run` on `.addr a; .const l_X, t; <text>` (label known before use).  Here the
label is defined AFTER the statement: `progTextFwd i a t` = `.addr <a>;` ⏎ `<Show.text i a>` ⏎ `.const l_XXXXXXXX, <t>;`.
The statement takes the DEFERRED path of the assembler: the first pass stops at the unknown label
(`Show.show_defers`), the statement is placed as a 0xBE placeholder of the final length and queued
(`Asm.instr_deferred`, `Show.encode_pre`), the definition is processed, and at the end of the file the task re-runs
`Front.assemble` over the complete table (`Show.show_retry`) and `write_at` replaces the placeholder with the final
bytes (`Asm.instr_task_active`).
-/
namespace Trion.Show
open Trion Trion.Front

/-- C19.m  **Forward reference through the whole pipeline model.** For bytes that decode to an instruction `i` whose
text mentions a label (`targetOf i a = some t`: `ADR`, `B<cond>`, `BL`, literal `LDR`), an address `a` at which the
target lies inside the address space and `a + n ≤ 2^32`: `Asm.run` on the program that defines the label AFTER the
statement succeeds, records no diagnostic, and its image is exactly the canonical encoding of `i` at `a` — no
placeholder byte survives. -/
theorem show_run_forward (bs : List Nat) (hb : Codec.IsBytes bs) (n : Nat) (i : Instr)
    (h : Codec.decode bs = .ok (n, i)) (a t : Nat) (htgt : targetOf i a = some t) (ht : targetInRange i a)
    (hfit : a + n ≤ 4294967296)
    (fs : Bytes → Option Bytes) (main : Bytes) (hfs : fs main = some (progTextFwd i a t)) :
    ∃ hws, Codec.encode i = .ok hws ∧ 2 * hws.length = n ∧ Codec.decode (Codec.toBytes hws) = .ok (n, i) ∧
      Arm.decode hws = some i ∧
      Asm.run fs main = .done ⟨true, none, true, [], [(a, (Codec.toBytes hws).map (·.toUInt8))]⟩ := by
  obtain ⟨wf, hws0, he0⟩ := Codec.decode_wf bs hb n i h
  obtain ⟨hws, he, hn, hd⟩ := Codec.dec_canon bs hb n i h
  have hlen := (Codec.enc_len i hws he wf).1
  have hp : Printable i a := printable_of_encode i a hws0 he0 wf ht
  have hlk : ∀ t', targetOf i a = some t' →
      (fun n => Asm.Table.get [(label t, some (t : Int))] n) (label t') = .found (t' : Int) := by
    intro t' ht'
    rw [htgt] at ht'
    cases ht'
    simp [Asm.Table.get, Asm.Table.find]
  have hev : EvalOK (Asm.frontEval [(label t, some (t : Int))]) i a :=
    evalOK_simp _ _ (frontEval_isSimp _) i a hlk (memNonneg_of_encode i hws0 he0)
  exact ⟨hws, he, hn, hd, Codec.enc_sound i hws he wf,
    run_progFwd i a t htgt (decoded_litOk bs hb n i h) hws he hlen (by omega) hp hev fs main hfs⟩

/-- non-vacuity: `BEQ` forward to the next halfword boundary (`0xFE 0xD0` is `BEQ .-0`; take `BNE +2`: `0x01 0xD1`) -/
example : Codec.decode [0x01, 0xD1] = .ok (2, .b 1 2) ∧ targetOf (.b 1 2) 0x20000000 = some 0x20000006 ∧
    targetInRange (.b 1 2) 0x20000000 := by
  refine ⟨rfl, rfl, ?_⟩
  simp [targetInRange, Front.pcOf]
example : progTextFwd (.b 1 2) 0x20000000 0x20000006 =
    bytesOf ".addr 536870912;\nBNE l_20000006;\n.const l_20000006, 536870918;" := by decide

end Trion.Show
