import TrionModel.Props.C18Layout
import TrionModel.Props.C05Multi3
/-!
# C18 composed with C05, projects with `.global` / `.import` / `.export`

`layout_refines_asm_scope_strong` (Props/C05Multi3.lean) is the layout refinement for projects whose files hand names to
each other (`XferProject`). Composed with `main_written`: whenever `trias` writes a file for such a project, the bytes
the two-pass reference layout places (over the flattened statement list with its alias statements) are the bytes of the
decoded file.
-/
namespace Trion.Trias
open Trion Trion.Asm Trion.Uf2 Trion.Asm.Multi Trion.Asm.Glob Trion.Asm.Xfer

/-- C18∘C05 `trias_file_is_layout_scope` -/
theorem trias_file_is_layout_scope {num : Nat → Bytes → Nat} (hinj : NumInj num) (fs : Bytes → Option Bytes)
    (main data : Bytes) (hfs : fs main = some data) (hglob : XferProject fs maxDepth [] main data)
    (f : List UInt8) (hm : mainOut fs main = .written f) :
    ∃ (p : List Layout.Stmt) (A : List (Bytes × Int)) (im' : Layout.Img),
      Layout.Ref.pass2 none [] (p ++ aliases (num 0) (num 1) A) = some im' ∧
      ∃ bs, read f = some bs ∧ ∀ a v, im'.get a = some v → image bs a = some v := by
  obtain ⟨o, hr, hd, hc, hp⟩ := (main_written_iff fs main f).mp hm
  have hs : o.success = true := (success_iff fs main o hr).mpr ⟨hd, hc⟩
  obtain ⟨els, perr, p, E, t, n, A, im', la, _, _, _, _, _, _, _, _, _, _, hp2, himg, _⟩ :=
    layout_refines_asm_scope_strong hinj fs main data hfs hglob o hr hs
  obtain ⟨⟨bs, hread, hb⟩, _⟩ := trias_of_run fs main o hr f hp
  refine ⟨p, A, im', hp2, bs, hread, fun a v hv => hb a v ?_⟩
  rw [lookup_is_map_abs, himg a]
  exact hv

end Trion.Trias
