import TrionModel.Lemmas.C06Stuck
import TrionModel.Lemmas.C06Absent
import TrionModel.Props.C06Then
import TrionModel.Props.C06Undef
/-!
# C06, third clause — an undefined name in an instruction operand, SYNTACTIC hypothesis

`invalid_instruction_undefined_partial` (Props/C06Then.lean) assumed that the first attempt of the statement is `Deferred`.
Here the hypothesis is about the text of the statement: the operand at an EVALUATING position `j` of the mnemonic's signature
(`(kinds t)[j]? = some k`, `k.evals`: immediate / immReg / address / offset / addrOffset — register, system-register,
register-list and identifier-keyword positions are never evaluated, a name there is a register spelling or a keyword like
`SY`) MENTIONS a name `n` (`Simp.mentions`) that is not a register name and has no entry in the file's table.  Then
(`Front.assemble_completed_evals`, `Simp.evaluateE_mentions`) the front end cannot complete the statement: the first attempt is
`Deferred` — placeholder, retry at the end of the file, the retry reports `NoSuchVariable` — or an error (of an earlier
operand, an operand count, or an evaluation error met before the name) reported at once.  Either way the run is not a
success and every diagnostic is at the statement.

`invalid_instruction_operand_undefined_file_partial` makes the table hypotheses syntactic for files without `.include`:
no statement before defines or declares `n` (`n:`, `.const n, …`, `.global n`, `.import n` — Lemmas/C06Absent.lean proves
these are the only statements that create an entry of the file's own table, each for its operand name), and no statement
before is `.global` / `.import` (so no entry is pending).

`_partial`: the statement is the LAST one of the main file and the statements before returned `Ok` without queueing tasks or
recording diagnostics (`AtLast`): a later Fatal statement, or an earlier queued task that aborts the task loop, would
prevent the retry, and the undefined name would not be reported at all.  The KIND of the diagnostic is not in the
conclusion (it is `NoSuchVariable` only in the `Deferred` sub-case).  Operands must be `plain` (C08 retry theorem).
-/
namespace Trion.C04
open Trion Trion.Front Trion.Asm

/-- an instruction statement whose first attempt ends in a front-end error records a diagnostic at once -/
theorem instr_error_stmt (env : Asm.Env) (st : Asm.St) (tbl : Asm.Table) (henv : env.paths ≠ [])
    (hl : st.locals = some tbl) (map : Map.Segs) (seg : Seg.Active) (pending : List (Nat × Nat))
    (hs : st.seg = ⟨map, some seg, pending⟩) (l c : Nat) (name : Bytes) (args : List Arg) (t : Instr)
    (hm : mnemonic name = some t) (fs1 : Front.St) (d : Front.Diag)
    (herr : Front.assemble ⟨seg.cur, t, 0, args⟩ (Asm.frontEval tbl) true = (fs1, .error d)) :
    ∀ st' r, Asm.instruction Asm.encoder env st l c name args = .ok (st', r) →
      st.errors.length + 1 ≤ st'.errors.length := by
  intro st' r h
  have hpaths : env.paths.isEmpty = false := by cases h : env.paths with | nil => exact absurd h henv | cons => rfl
  unfold Asm.instruction at h
  simp only [Asm.currAddr, hs, Option.map_some, hm, Asm.ArmInstr.assemble, Asm.evalTable, hpaths, hl, Asm.evalPanics_false,
    Bool.false_eq_true, if_false, herr] at h
  cases hw : Asm.ArmInstr.writeInstr Asm.encoder ⟨env.curName, l, c, fs1, false⟩
      (st.pushIn env.curName l c (Asm.frontKind d)) true with
  | stop s => rw [hw] at h; cases h
  | ok q =>
    obtain ⟨i2, st2, r2⟩ := q
    rw [hw] at h
    have hg := Asm.writeInstr_grew _ _ _ hw
    cases r2 with
    | err lv =>
      simp only at h; cases h
      simp [Asm.Grew] at hg; omega
    | ok =>
      simp only at h
      cases hsch : Asm.ArmInstr.schedule i2 st2 false with
      | stop s => rw [hsch] at h; cases h
      | ok st3 =>
        rw [hsch] at h
        cases h
        have := Asm.addTask_errs hsch
        rw [this]
        simp [Asm.Grew] at hg; omega

end Trion.C04

namespace Trion.C06
open Trion Trion.Asm Trion.Front Trion.C04

/-- C06o.1  **Undefined name in an evaluating instruction operand** (table hypotheses: no entry for `n`, no pending entry) -/
theorem invalid_instruction_operand_undefined_partial {fs : Bytes → Option Bytes} {main : Bytes} {S : Asm.St} {l c : Nat}
    {tbl : Asm.Table} (hl : S.locals = some tbl) (hnd : Asm.Table.NoDef tbl)
    {map : Map.Segs} {seg : Seg.Active} {pending : List (Nat × Nat)} (hs : S.seg = ⟨map, some seg, pending⟩)
    {name : Bytes} {args : Args} {t : Instr} (hm : mnemonic name = some t)
    (hp : ∀ a ∈ args.toList, Asm.plainArg a = true) {n : Bytes} (hr : isRegister n = false) (hf : tbl.find n = none)
    {j : Nat} {k : Front.Kind} {a : Arg} (hk : (kinds t)[j]? = some k) (hev : k.evals = true)
    (ha : args.toList[j]? = some a) (hmen : Simp.mentions n a = true)
    (h : AtLast fs main ⟨l, c, .instruction name args⟩ S) : ReportedAt fs main ⟨l, c, .instruction name args⟩ := by
  rcases assemble_mentions tbl n hr hf seg.cur t args.toList j k a hk ha hev hmen with ⟨fs1, m, hdef⟩ | ⟨fs1, d, herr⟩
  · exact invalid_instruction_undefined_partial hl hnd hs hm hp hdef h
  · obtain ⟨data, pre, hfs, hpf, hpre, hq⟩ := h
    have hst : Asm.statement fs Asm.encoder (incOf fs) (envOf main) S ⟨l, c, .instruction name args⟩ =
        Asm.instruction Asm.encoder (envOf main) S l c name args.toList := by simp [Asm.statement, hs]
    refine run_last_diag fs main data hfs pre _ hpf S hpre (by rw [hst]; exact Asm.instruction_nf _ _ _ _ _ _ _) ?_
    intro S1 r1 hX
    rw [hst] at hX
    refine ⟨pat_of_eff (pat_quiet hq _ _ _) (Asm.instruction_eff (env := envOf main) _ _ hX) (Asm.instruction_quiet _ _ hX), .inl ?_⟩
    have h0 : S.errors.length = 0 := by rw [hq.1]; rfl
    have := instr_error_stmt (envOf main) S tbl (by simp) hl map seg pending hs l c name args.toList t hm fs1 d herr S1 r1 hX
    omega

/-- C06o.2  the same with SYNTACTIC hypotheses on the file (no `.include`): no statement before the instruction defines or
declares `n`, none is `.global` / `.import` -/
theorem invalid_instruction_operand_undefined_file_partial {fs : Bytes → Option Bytes} {main data : Bytes}
    (hfs : fs main = some data) {pre : List Element} {l c : Nat} {name : Bytes} {args : Args}
    (hpf : Asm.parseFile data = .ok (pre ++ [⟨l, c, .instruction name args⟩], none))
    {S : Asm.St} (hpre : PrefixOk fs main pre S) (hq : QuietSt S) {tbl : Asm.Table} (hl : S.locals = some tbl)
    {map : Map.Segs} {seg : Seg.Active} {pending : List (Nat × Nat)} (hs : S.seg = ⟨map, some seg, pending⟩)
    {n : Bytes} (hr : isRegister n = false)
    (hsyn : ∀ el ∈ pre, ¬ Asm.isInclude el ∧ ¬ Asm.touches n el ∧ ∀ m, ¬ Asm.writesD m el)
    {t : Instr} (hm : mnemonic name = some t) (hp : ∀ a ∈ args.toList, Asm.plainArg a = true)
    {j : Nat} {k : Front.Kind} {a : Arg} (hk : (kinds t)[j]? = some k) (hev : k.evals = true)
    (ha : args.toList[j]? = some a) (hmen : Simp.mentions n a = true) :
    ReportedAt fs main ⟨l, c, .instruction name args⟩ := by
  have hrun : Asm.doAssemble fs Asm.encoder (Asm.assembleFile fs Asm.encoder (Asm.maxDepth - 1)) ⟨[main], main⟩ pre none init2 =
      .ok (S, .ok) := by
    have := hpre [] none
    simpa [Asm.doAssemble] using this
  have hf : tbl.find n = none :=
    Asm.doAssemble_absent none n pre init2 (fun el hel => ⟨(hsyn el hel).1, (hsyn el hel).2.1⟩)
      (fun C hC => by cases hC; rfl) S .ok hrun tbl hl
  have hnd : Asm.Table.NoDef tbl :=
    Asm.doAssemble_nodef none pre init2 (fun el hel => ⟨(hsyn el hel).1, (hsyn el hel).2.2⟩)
      (fun C hC => by cases hC; intro k; simp [Asm.Table.find]) S .ok hrun tbl hl
  exact invalid_instruction_operand_undefined_partial hl hnd hs hm hp hr hf hk hev ha hmen ⟨data, pre, hfs, hpf, hpre, hq⟩

/-- C06o.3  `.du8/.du16/.du32 e` with `e` mentioning a name that no earlier statement of the (include-free) file defines or
declares — syntactic form of `invalid_du_expr_undefined_partial` for ANY quiet prefix -/
theorem invalid_du_expr_undefined_file_partial {fs : Bytes → Option Bytes} {main data : Bytes}
    (hfs : fs main = some data) {pre : List Element} {l c : Nat} (du : Asm.DU) (dn : Bytes) (hdn : dn = bytesOf du.name)
    {e : Arg} (hpf : Asm.parseFile data = .ok (pre ++ [⟨l, c, .directive dn (Args.ofList [e])⟩], none))
    {S : Asm.St} (hpre : PrefixOk fs main pre S) (hq : QuietSt S) {tbl : Asm.Table} (hl : S.locals = some tbl)
    {n : Bytes} (hr : isRegister n = false) (hsyn : ∀ el ∈ pre, ¬ Asm.isInclude el ∧ ¬ Asm.touches n el)
    (hmen : Simp.mentions n e = true) :
    ReportedAt fs main ⟨l, c, .directive dn (Args.ofList [e])⟩ := by
  have hrun : Asm.doAssemble fs Asm.encoder (Asm.assembleFile fs Asm.encoder (Asm.maxDepth - 1)) ⟨[main], main⟩ pre none init2 =
      .ok (S, .ok) := by
    have := hpre [] none
    simpa [Asm.doAssemble] using this
  have hf : tbl.find n = none :=
    Asm.doAssemble_absent none n pre init2 hsyn (fun C hC => by cases hC; rfl) S .ok hrun tbl hl
  exact invalid_du_expr_undefined_partial hl du dn hdn hr hf hmen ⟨data, pre, hfs, hpf, hpre, hq⟩

-- non-vacuity: the operand of `B` and the second operand of `MOVS` are evaluating positions; `x + 4` mentions `x`
example : ((mnemonic (bytesOf "B")).bind (fun t => (kinds t)[0]?)).map Front.Kind.evals = some true := by decide
example : ((mnemonic (bytesOf "MOVS")).bind (fun t => (kinds t)[1]?)).map Front.Kind.evals = some true := by decide
example : ((mnemonic (bytesOf "MOVS")).bind (fun t => (kinds t)[0]?)).map Front.Kind.evals = some false := by decide
example : Simp.mentions (bytesOf "x") (.bin .add (.ident (bytesOf "x")) (.const 4)) = true := by decide

end Trion.C06
