import TrionModel.Lemmas.LexFrame
import TrionModel.Lemmas.ParseSegs
import TrionModel.Props.C12Parse
/-!
# C12 — exact token positions for every source layout

The specification of layout is in `Lemmas/LexLayoutDef.lean` (definitions only):

* `IsSep d` — separator text: any sequence of white-space bytes, line comments `// … LF` and block comments
  `/* … */`, nested as the code nests them (`Inside`), with arbitrary well-formed UTF-8 inside comments;
  `IsSepEnd d` additionally allows a final line comment that the end of the text terminates.
* `Spell bs t nx` — `bs` is a spelling of the token value `t` when the byte `nx` follows: punctuation and operators
  including `<<` `>>` (`/` not directly followed by `/` or `*`), identifiers, integers in four radices with any
  zero padding / digit case (identifiers and integers not directly followed by an identifier byte), character
  literals (raw scalar value or escape), string literals with escapes and multi-byte characters.
* A layout `L : List LTok` with a `trail` is the text `sep₁ spell₁ sep₂ spell₂ … sepₙ spellₙ trail` (`ltext`);
  `LOk L trail` says every `sepᵢ` is separator text, every `spellᵢ` spells its token given the byte that follows
  it in the text, and `trail` is final separator text. `ltoks [] L` are the tokens the SPECIFICATION assigns:
  token `i` has the value of `spellᵢ` and the position `Pos.of (text before spellᵢ)` — line = 1 + line feeds
  before it, column = 1 + Unicode scalar values since the last line feed (`Spec/Pos.lean`).
* `Exact text start ts` (`Lemmas/LexExact.lean`) says the same without naming the pieces: the tokens `ts` have
  byte extents `[oᵢ, eᵢ)` in `text`, in order and disjoint, each extent is a spelling of its token, each gap and
  the trail is separator text, and token `i` carries `Pos.of (text.take oᵢ)`.

This closes the weakness of `tok_pos` (which only bounded the offsets): here the token's extent IS its text
and everything between extents is separator text, and `exact_determines` shows that such a placement is unique
— it is the tokenizer's output.
-/
namespace Trion.Lex
open Trion.Pos (adv)

/-- C12.L1 `layout_tokens`  **Exact layout theorem.** For every well-formed layout — any separator text
(white space, line comments, nested block comments, multi-byte characters in comments) before each token and
at the end, any accepted spelling of each token — the tokenizer yields exactly the specified tokens: the value
of each spelling at the specified position of the text before that spelling, no error, and its final position
is the specified position of the end of the text. -/
theorem layout_tokens (L : List LTok) (trail : Bytes) (h : LOk L trail) :
    tokens (ltext L trail) =
      .ok ⟨ltoks [] L, none, (Pos.of (ltext L trail)).1, (Pos.of (ltext L trail)).2⟩ :=
  tokens_layout L trail h

/-- C12.L2 `tok_pos_exact`  On every layout, every token of the output sits at `Pos.of` of the byte offset
where ITS spelling starts; the spellings' extents are in order and disjoint, and everything between them (and
after the last) is separator text (`Exact`). -/
theorem tok_pos_exact (L : List LTok) (trail : Bytes) (h : LOk L trail) :
    ∃ out, tokens (ltext L trail) = .ok out ∧ out.err = none ∧ Exact (ltext L trail) 0 out.toks ∧
      (out.endLine, out.endCol) = Pos.of (ltext L trail) := by
  refine ⟨_, tokens_layout L trail h, rfl, ?_, rfl⟩
  have := layout_exact L trail h []
  simpa using this

/-- C12.L3 `exact_determines`  **The placement determines the output** (the description is not satisfiable by a
wrong answer): if tokens `ts` — values AND positions — can be placed in `text` with separator text in the gaps
and spellings in the extents, then `ts` is exactly what the tokenizer yields for `text`. -/
theorem exact_determines (text : Bytes) (ts : List Token) (h : Exact text 0 ts) :
    tokens text = .ok ⟨ts, none, (Pos.of text).1, (Pos.of text).2⟩ := tokens_of_exact text ts h

/-- … hence two placements of tokens in the same text are the same tokens at the same positions. -/
theorem exact_unique (text : Bytes) (ts ts' : List Token) (h : Exact text 0 ts) (h' : Exact text 0 ts') : ts = ts' := by
  have := (tokens_of_exact text ts h).symm.trans (tokens_of_exact text ts' h')
  simpa using this

/-- C12.L4  every token of a placed text, with its extent: `[o, e)` spells the token and the token carries the
specified position of `o`. -/
theorem exact_token (text : Bytes) (ts : List Token) (h : Exact text 0 ts) :
    ∀ t ∈ ts, ∃ o e, o < e ∧ e ≤ text.length ∧ Spell ((text.take e).drop o) t.val text[e]? ∧
      (t.line, t.col) = Pos.of (text.take o) := by
  intro t ht
  obtain ⟨o, e, _, h2, h3, h4, h5⟩ := exact_mem h t ht
  exact ⟨o, e, h2, h3, h4, h5⟩

/-- C12.L5 `stmt_pos_exact`  (WEAK form, kept for compatibility — it does not say WHICH tokens the elements start
at; the exact statement is `stmt_pos_segments` below.) Statements: on every layout, every element the parser produces from the
tokenizer's output carries the specified position `Pos.of (text.take o)` of the offset `o` at which the
spelling of its first token — a `.` or an identifier — starts; the elements follow the order of the tokens. -/
theorem stmt_pos_exact (text : Bytes) (ts : List Token) (h : Exact text 0 ts) (els : List Element)
    (err : Option ParseErr) (hp : Parse.all ⟨ts, none, (Pos.of text).1, (Pos.of text).2⟩ = .done els err) :
    ∃ firsts : List Token, firsts.Sublist ts ∧
      els.map (fun e => (e.line, e.col)) = firsts.map (fun t => (t.line, t.col)) ∧
      (els ≠ [] → firsts.head? = ts.head?) ∧
      ∀ t ∈ firsts, (t.val = .dirMark ∨ ∃ s, t.val = .ident s) ∧
        ∃ o e, o < e ∧ e ≤ text.length ∧ Spell ((text.take e).drop o) t.val text[e]? ∧
          (t.line, t.col) = Pos.of (text.take o) := by
  obtain ⟨firsts, h1, h2, h3, h4⟩ := Parse.stmt_pos_tokens _ els err hp
  refine ⟨firsts, h1, h2, h4, ?_⟩
  intro t ht
  exact ⟨h3 t ht, exact_token text ts h t (h1.subset ht)⟩

/-- … in the form that starts from the text: the tokenizer's output on a layout, fed to the parser. -/
theorem stmt_pos_layout (L : List LTok) (trail : Bytes) (h : LOk L trail) :
    ∃ out, tokens (ltext L trail) = .ok out ∧ Exact (ltext L trail) 0 out.toks ∧
      ∀ els err, Parse.all out = .done els err →
        ∃ firsts : List Token, firsts.Sublist out.toks ∧
          els.map (fun e => (e.line, e.col)) = firsts.map (fun t => (t.line, t.col)) ∧
          ∀ t ∈ firsts, ∃ o e, o < e ∧ e ≤ (ltext L trail).length ∧
            Spell (((ltext L trail).take e).drop o) t.val (ltext L trail)[e]? ∧
            (t.line, t.col) = Pos.of ((ltext L trail).take o) := by
  have hex : Exact (ltext L trail) 0 (ltoks [] L) := by simpa using layout_exact L trail h []
  refine ⟨_, tokens_layout L trail h, hex, ?_⟩
  intro els err hp
  obtain ⟨firsts, h1, h2, _, h4⟩ := stmt_pos_exact _ _ hex els err hp
  exact ⟨firsts, h1, h2, fun t ht => (h4 t ht).2⟩

/-- C12.L6 `layout_frame`  **Framing.** A layout placed in front of another layout (`LOkTo`: the same conditions,
the last token's follow condition referring to the first byte of the back part) is a layout, and the tokens are
those of the front part followed by those of the back part at the positions specified after the front text —
a statement's tokens and positions do not depend on what follows it, and what precedes it only shifts the
positions as `Pos.of` prescribes. -/
theorem layout_frame (L1 L2 : List LTok) (trail : Bytes) (h1 : LOkTo L1 (ltext L2 trail)) (h2 : LOk L2 trail) :
    tokens (ltext L1 [] ++ ltext L2 trail) =
      .ok ⟨ltoks [] L1 ++ ltoks (ltext L1 []) L2, none,
        (Pos.of (ltext L1 [] ++ ltext L2 trail)).1, (Pos.of (ltext L1 [] ++ ltext L2 trail)).2⟩ :=
  tokens_frame L1 L2 trail h1 h2

/-- C12.L7  The piece lists of `Lex.tokens_pieces` (ASCII white space between canonical spellings) are layouts:
same text, same tokens — `layout_tokens` subsumes `tokens_pieces`. -/
theorem pieces_are_layouts (ps : List Piece) (hv : Valid ps none) :
    ∃ L trail, LOk L trail ∧ ltext L trail = pbytes ps ∧ ltoks [] L = lexed (1, 1) ps := by
  refine ⟨(toLayout ps []).1, (toLayout ps []).2, toLayout_ok ps hv [] (by simp), ?_, ?_⟩
  · simpa using toLayout_text ps []
  · exact toLayout_toks ps [] []

/-- C12.L8 `stmt_pos_segments`  **Exact statement positions.** For a text with an exact token placement, the
parser run cuts the token list into consecutive segments, one per element, followed by a leftover that is empty
when the run ends without error (`Parse.StmtsAt`, `Lemmas/ParseSegs.lean`). For the `i`-th element: after the
offset `stopᵢ₋₁` where the previous segment's last token ended (`0` for the first) comes separator text up to
`oᵢ`; `[oᵢ, eᵢ)` spells the first token of segment `i`, a `.` or the name / label identifier; the remaining tokens of
the segment are placed exactly from `eᵢ` to `stopᵢ`; `do_next` reads element `i` from exactly this segment; and
element `i` carries `Pos.of (text.take oᵢ)`. Nothing is left to choose: see `stmt_pos_determined`. -/
theorem stmt_pos_segments (text : Bytes) (ts : List Token) (h : Exact text 0 ts) (els : List Element)
    (err : Option ParseErr) (hp : Parse.all ⟨ts, none, (Pos.of text).1, (Pos.of text).2⟩ = .done els err) :
    ∃ left, Parse.StmtsAt text ⟨ts, none, (Pos.of text).1, (Pos.of text).2⟩ 0 ts els left ∧ (err = none → left = []) := by
  obtain ⟨left, hs, hl⟩ := Parse.allLoop_segs _ _ _ els err hp
  exact ⟨left, Parse.stmtsAt_of_segs hs h, hl⟩

/-- C12.L9 `stmt_pos_determined`  The located segmentation is determined by the text and its tokens: any elements
that satisfy it (as many as the parser produced) ARE the parser's elements, positions included — a wrong position
list has no such segmentation (examples below). -/
theorem stmt_pos_determined (text : Bytes) (lo : LexOut) (ts : List Token) (els els' : List Element)
    (left left' : List Token) (start start' : Nat)
    (h : Parse.StmtsAt text lo start ts els left) (h' : Parse.StmtsAt text lo start' ts els' left')
    (hlen : els'.length = els.length) : els' = els :=
  Parse.stmtsAt_det h' h hlen

/-- C12.L10  The statement offsets: strictly increasing, one per element, each element at the specified position of
its offset. (A corollary of `stmt_pos_segments`; on its own it would not fix the offsets.) -/
theorem stmt_pos_offsets (text : Bytes) (ts : List Token) (h : Exact text 0 ts) (els : List Element)
    (err : Option ParseErr) (hp : Parse.all ⟨ts, none, (Pos.of text).1, (Pos.of text).2⟩ = .done els err) :
    ∃ offs : List Nat, offs.length = els.length ∧ offs.Pairwise (· < ·) ∧ (∀ o ∈ offs, o < text.length) ∧
      els.map (fun e => (e.line, e.col)) = offs.map (fun o => Pos.of (text.take o)) := by
  obtain ⟨left, hs, _⟩ := stmt_pos_segments text ts h els err hp
  obtain ⟨offs, h1, h2, h3, h4⟩ := Parse.stmtsAt_offsets hs
  exact ⟨offs, h1, h2, fun o ho => (h3 o ho).2, h4⟩

/-! ### non-vacuity -/

/-- `Follow none`: nothing follows -/
theorem follow_none : Follow none := by intro b hb; cases hb

/-- the auditor's input `/* m */ mov` as a layout -/
def auditL : List LTok := [⟨bytesOf "/* m */ ", bytesOf "mov", .ident (bytesOf "mov")⟩]

theorem auditL_ok : LOk auditL [] := by
  refine ⟨?_, ?_, Or.inl IsSep.nil⟩
  · exact isSep_append (isSep_block (bytesOf " m */") (inside_of_insideB _ 0 (by decide)) (utf8_of_ascii _ (by decide)))
      (isSep_ws (bytesOf " ") (by decide))
  · exact Spell.ident _ _ (by decide) follow_none

example : ltext auditL [] = bytesOf "/* m */ mov" := by decide

/-- the real output: the identifier at 1:9 … -/
example : tokens (bytesOf "/* m */ mov") = .ok ⟨[⟨1, 9, .ident (bytesOf "mov")⟩], none, 1, 12⟩ :=
  (layout_tokens auditL [] auditL_ok).trans (by decide)

/-- … and the position inside the comment, which the old `tok_pos` conclusion allowed, is refuted: the token
`mov` at 1:4 has no exact placement in this text. -/
example : ¬ Exact (bytesOf "/* m */ mov") 0 [⟨1, 4, .ident (bytesOf "mov")⟩] := by
  intro h
  have h1 := exact_determines _ _ h
  have h2 : tokens (bytesOf "/* m */ mov") = .ok ⟨[⟨1, 9, .ident (bytesOf "mov")⟩], none, 1, 12⟩ :=
    (layout_tokens auditL [] auditL_ok).trans (by decide)
  rw [h2] at h1
  revert h1
  decide

/-- a CRLF file with `é` in a line comment, a nested multi-line block comment with `€`, a trailing comment
without line feed:  `x:␍␊// é␍␊/* a /* € */␊ */␉NOP;␍␊// end` -/
def crlfL : List LTok :=
  [⟨[], bytesOf "x", .ident (bytesOf "x")⟩,
   ⟨[], bytesOf ":", .labelMark⟩,
   ⟨[13, 10] ++ (47 :: 47 :: [32, 0xC3, 0xA9, 13] ++ [10]) ++ (47 :: 42 :: ([32, 97, 32, 47, 42, 32, 0xE2, 0x82, 0xAC, 32, 42, 47, 10, 32, 42, 47])) ++ [9],
      bytesOf "NOP", .ident (bytesOf "NOP")⟩,
   ⟨[], bytesOf ";", .term⟩]

def crlfTrail : Bytes := [13, 10] ++ 47 :: 47 :: bytesOf " end"

theorem utf8_e9 (rest : Bytes) (h : Utf8 rest) : Utf8 (0xC3 :: 0xA9 :: rest) := utf8_encodeChar 0xE9 rfl h
theorem utf8_20ac (rest : Bytes) (h : Utf8 rest) : Utf8 (0xE2 :: 0x82 :: 0xAC :: rest) := utf8_encodeChar 0x20AC rfl h

theorem crlfL_ok : LOk crlfL crlfTrail := by
  refine ⟨IsSep.nil, Spell.ident _ _ (by decide) (by intro b hb; cases hb; decide), IsSep.nil,
    Spell.punct 58 _ _ (by decide) (by decide), ?_, Spell.ident _ _ (by decide) (by intro b hb; cases hb; decide),
    IsSep.nil, Spell.punct 59 _ _ (by decide) (by decide), ?_⟩
  · refine isSep_append (isSep_append (isSep_append (isSep_ws [13, 10] (by decide)) (isSep_line _ (by decide) ?_))
      (isSep_block _ (inside_of_insideB _ 0 (by decide)) ?_)) (isSep_ws [9] (by decide))
    · exact utf8_ascii_cons 32 (by decide) (utf8_e9 _ (utf8_of_ascii [13] (by decide)))
    · exact utf8_ascii_append [32, 97, 32, 47, 42, 32] (by decide)
        (utf8_20ac _ (utf8_of_ascii [32, 42, 47, 10, 32, 42, 47] (by decide)))
  · exact Or.inr ⟨[13, 10], bytesOf " end", rfl, isSep_ws _ (by decide), by decide, utf8_of_ascii _ (by decide)⟩

example : tokens (ltext crlfL crlfTrail) =
    .ok ⟨[⟨1, 1, .ident (bytesOf "x")⟩, ⟨1, 2, .labelMark⟩, ⟨4, 5, .ident (bytesOf "NOP")⟩, ⟨4, 8, .term⟩], none, 5, 7⟩ :=
  (layout_tokens crlfL crlfTrail crlfL_ok).trans (by decide)

/-- a string containing `;` and `*/` (and an escape and `é`), a character literal, `<<`, a division directly
before white space: `.d "a;*/\n` `é" , 'é' << 0x0F / 2 ;` -/
def strL : List LTok :=
  [⟨[], bytesOf ".", .dirMark⟩,
   ⟨[], bytesOf "d", .ident (bytesOf "d")⟩,
   ⟨[32], 34 :: renderAll [.raw 97, .raw 59, .raw 42, .raw 47, .esc 110, .raw 0xE9] ++ [34],
      .str (denoteAll [.raw 97, .raw 59, .raw 42, .raw 47, .esc 110, .raw 0xE9])⟩,
   ⟨[32], bytesOf ",", .sep⟩,
   ⟨[32], 39 :: encodeChar 0xE9 ++ [39], .num 0xE9⟩,
   ⟨[32], [60, 60], .shl⟩,
   ⟨[32], radixPrefix 16 ++ bytesOf "0F", .num 15⟩,
   ⟨[32], [47], .div⟩,
   ⟨[32], radixPrefix 10 ++ bytesOf "2", .num 2⟩,
   ⟨[32], bytesOf ";", .term⟩]

theorem strL_ok : LOk strL [] := by
  have sp : IsSep [32] := isSep_ws [32] (by decide)
  have fsp : Follow (some 32) := by intro b hb; cases hb; decide
  refine ⟨IsSep.nil, Spell.punct 46 _ _ (by decide) (by decide), IsSep.nil, Spell.ident _ _ (by decide) fsp,
    sp, Spell.str _ _ ?_, sp, Spell.punct 44 _ _ (by decide) (by decide), sp, Spell.chr 0xE9 _ ⟨rfl, by omega⟩,
    sp, Spell.shl _, sp, Spell.num 16 _ 15 _ (by omega) (by decide) (by decide) (by decide) fsp,
    sp, Spell.div _ (by intro b hb; cases hb; decide), sp,
    Spell.num 10 _ 2 _ (by omega) (by decide) (by decide) (by decide) fsp,
    sp, Spell.punct 59 _ _ (by decide) (by decide), Or.inl IsSep.nil⟩
  intro it hit
  simp only [List.mem_cons, List.mem_nil_iff, or_false] at hit
  rcases hit with rfl | rfl | rfl | rfl | rfl | rfl
  · exact ⟨rfl, by omega⟩
  · exact ⟨rfl, by omega⟩
  · exact ⟨rfl, by omega⟩
  · exact ⟨rfl, by omega⟩
  · show (escValue 110).isSome = true; decide
  · exact ⟨rfl, by omega⟩

example : ltext strL [] = bytesOf ".d \"a;*/\\n" ++ [0xC3, 0xA9] ++ bytesOf "\" , '" ++ [0xC3, 0xA9] ++ bytesOf "' << 0x0F / 2 ;" := by
  decide

example : tokens (ltext strL []) =
    .ok ⟨[⟨1, 1, .dirMark⟩, ⟨1, 2, .ident (bytesOf "d")⟩, ⟨1, 4, .str [97, 59, 42, 47, 10, 0xC3, 0xA9]⟩, ⟨1, 14, .sep⟩,
      ⟨1, 16, .num 0xE9⟩, ⟨1, 20, .shl⟩, ⟨1, 23, .num 15⟩, ⟨1, 28, .div⟩, ⟨1, 30, .num 2⟩, ⟨1, 32, .term⟩], none, 1, 33⟩ :=
  (layout_tokens strL [] strL_ok).trans (by decide)

/-! ### the second audit's witnesses: wrong element positions are refuted -/

/-- `mov r0; nop;` -/
def movL : List LTok :=
  [⟨[], bytesOf "mov", .ident (bytesOf "mov")⟩, ⟨[32], bytesOf "r0", .ident (bytesOf "r0")⟩, ⟨[], bytesOf ";", .term⟩,
   ⟨[32], bytesOf "nop", .ident (bytesOf "nop")⟩, ⟨[], bytesOf ";", .term⟩]

theorem movL_ok : LOk movL [] := by
  refine ⟨IsSep.nil, Spell.ident _ _ (by decide) (by intro b hb; cases hb; decide), isSep_ws [32] (by decide),
    Spell.ident _ _ (by decide) (by intro b hb; cases hb; decide), IsSep.nil, Spell.punct 59 _ _ (by decide) (by decide),
    isSep_ws [32] (by decide), Spell.ident _ _ (by decide) (by intro b hb; cases hb; decide), IsSep.nil,
    Spell.punct 59 _ _ (by decide) (by decide), Or.inl IsSep.nil⟩

example : ltext movL [] = bytesOf "mov r0; nop;" := by decide

def movLo : LexOut := ⟨ltoks [] movL, none, (Pos.of (ltext movL [])).1, (Pos.of (ltext movL [])).2⟩

theorem mov_all : Parse.all movLo =
    .done [⟨1, 1, .instruction (bytesOf "mov") (.cons (.ident (bytesOf "r0")) .nil)⟩, ⟨1, 9, .instruction (bytesOf "nop") .nil⟩] none := by
  rfl

/-- the true positions are (1,1) and (1,9); the list [(1,1),(1,5)] (1:5 is the operand `r0`), which the weak
`stmt_pos_exact` conclusion allowed, has no located segmentation -/
example : ∀ (els' : List Element) (left' : List Token) (start' : Nat),
    Parse.StmtsAt (ltext movL []) movLo start' movLo.toks els' left' →
    els'.map (fun e => (e.line, e.col)) ≠ [(1, 1), (1, 5)] := by
  intro els' left' start' h' hpos
  have hex : Exact (ltext movL []) 0 (ltoks [] movL) := by simpa using layout_exact movL [] movL_ok []
  obtain ⟨left, hs, _⟩ := stmt_pos_segments _ _ hex _ none mov_all
  have hlen : els'.length = 2 := by simpa using congrArg List.length hpos
  have := stmt_pos_determined _ _ _ _ els' _ _ _ _ hs h' (by simpa using hlen)
  subst this
  revert hpos
  decide

/-- `mov r0;`: the position 1:2 (where the identifier-like substring `ov` starts), which the per-element conjunct
of `parse_text` allowed, is refuted: the only element sits at 1:1 -/
def mov1L : List LTok :=
  [⟨[], bytesOf "mov", .ident (bytesOf "mov")⟩, ⟨[32], bytesOf "r0", .ident (bytesOf "r0")⟩, ⟨[], bytesOf ";", .term⟩]

theorem mov1L_ok : LOk mov1L [] := by
  refine ⟨IsSep.nil, Spell.ident _ _ (by decide) (by intro b hb; cases hb; decide), isSep_ws [32] (by decide),
    Spell.ident _ _ (by decide) (by intro b hb; cases hb; decide), IsSep.nil, Spell.punct 59 _ _ (by decide) (by decide),
    Or.inl IsSep.nil⟩

def mov1Lo : LexOut := ⟨ltoks [] mov1L, none, (Pos.of (ltext mov1L [])).1, (Pos.of (ltext mov1L [])).2⟩

theorem mov1_all : Parse.all mov1Lo = .done [⟨1, 1, .instruction (bytesOf "mov") (.cons (.ident (bytesOf "r0")) .nil)⟩] none := by
  rfl

example : ∀ (els' : List Element) (left' : List Token) (start' : Nat),
    Parse.StmtsAt (ltext mov1L []) mov1Lo start' mov1Lo.toks els' left' →
    els'.map (fun e => (e.line, e.col)) ≠ [(1, 2)] := by
  intro els' left' start' h' hpos
  have hex : Exact (ltext mov1L []) 0 (ltoks [] mov1L) := by simpa using layout_exact mov1L [] mov1L_ok []
  obtain ⟨left, hs, _⟩ := stmt_pos_segments _ _ hex _ none mov1_all
  have hlen : els'.length = 1 := by simpa using congrArg List.length hpos
  have := stmt_pos_determined _ _ _ _ els' _ _ _ _ hs h' (by simpa using hlen)
  subst this
  revert hpos
  decide

end Trion.Lex
