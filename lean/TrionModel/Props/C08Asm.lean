import TrionModel.Lemmas.AsmRetry
/-!
# C08 (statement level) — a statement emits the same bytes whether its constants are defined above or below it

Models: `Trion.Front.assemble` / `Front.build` (`ArmInstr::assemble`, `ArmInstr::new`), `Trion.Asm.frontEval` /
`Asm.evalIn` (= `evaluate(&mut arg, ctx)` over the constant table of the file, `Simp.evaluateE`), i.e. exactly the
functions `Asm.instruction`, `Asm.runInstrTask`, `Asm.duDirective`, `Asm.runDataTask` call.

"Defined below": when the statement is met the table is `t₁`; `assemble` stops at the first operand that needs an
unknown name (`Deferred`), the statement is placed as 0xBE bytes and queued with the front-end state `fs1` — operands
before the stop replaced by their values, the stopping operand partly evaluated and simplified IN PLACE, the
instruction filled in as far as the macro's stores went.  At the end of the file the task re-runs `assemble` from `fs1`
over the final table `t₂ ⊇ t₁`.
"Defined above": the statement is met when the table already is `t₂`.

`stmt_bytes_order_independent`: the re-run IS the fresh run — same outcome, same instruction, same argument list —
for every mnemonic, every operand count, every stop position, provided the operand trees are `plain`
(Lemmas/SimpRetry.lean: every sub-tree that the first attempt completes before it stops is a leaf, register-free
arithmetic or `Rn + c`; this covers `imm`, `label ± expr`, `[Rn + expr]`, `[expr + Rn]`, `[Rn + sym + 4]`,
`[Rn + 4 + sym]`, register lists).
`du_value_order_independent`: the same for the operand of `.du8/.du16/.du32`.
`placeholder_length`: the 0xBE placeholder has the length of the final encoding.

Why `plain` (history): the re-run evaluates the already evaluated sub-trees once more, and `evaluate` was NOT idempotent
on its own output (`0 - (r1 - r0)` ↦ `-(r1 - r0)` ↦ `r0 - r1`; findings K4, K5), so the theorems of this file were proved
for the class where that does not matter.  After the repairs `evaluate` is idempotent and Props/C08Full.lean proves the
same statements for EVERY operand tree (`stmt_bytes_order_independent_full`, `du_value_order_independent_tree`).
-/
namespace Trion.Asm
open Trion

theorem evalArg_ok_loc {e : Arg → Front.EvalOut} {l l' : Bool} {pos done : Nat} {a : Arg} {p : Arg × Nat}
    (h : Front.evalArg e l pos done a = .ok p) : Front.evalArg e l' pos done a = .ok p := by
  unfold Front.evalArg at h ⊢
  split
  · rename_i hd
    simp only [hd, if_true] at h
    cases he : e a with
    | complete x => rw [he] at h; exact h
    | deferred c x => rw [he] at h; cases h
    | noSuchVariable n x => rw [he] at h; simp only at h; split at h <;> cases h
    | error er x => rw [he] at h; cases h
  · rename_i hd
    simp only [hd, if_false] at h; exact h

theorem get_ok_loc {k : Front.Kind} {e : Arg → Front.EvalOut} {l l' : Bool} {pos done : Nat} {a : Arg} {v : Front.Val}
    {a' : Arg} {d' : Nat} (h : Front.get k e l pos done a = .ok v a' d') : Front.get k e l' pos done a = .ok v a' d' := by
  cases hk : k.evals with
  | false =>
    obtain ⟨h1, h2, h3⟩ := (Front.get_nonevals hk).1 _ _ _ h
    subst h1; subst h2; exact h3 _ _ _
  | true =>
    rw [Front.get_eq_post k hk] at h ⊢
    cases he : Front.evalArg e l pos done a with
    | error p => rw [he] at h; cases h
    | ok p => rw [he] at h; rw [evalArg_ok_loc he]; exact h

theorem conv_ok_loc (e : Arg → Front.EvalOut) (l l' : Bool) : ∀ (ks : List Front.Kind) (pos : Nat) (pre rest : List Arg)
    (done : Nat) (instr : Instr) (vals : List Front.Val) (A : List Arg) (D : Nat) (I : Instr) (V : List Front.Val),
    Front.conv e l ks pos pre rest done instr vals = .ok A D I V →
    Front.conv e l' ks pos pre rest done instr vals = .ok A D I V := by
  intro ks
  induction ks with
  | nil => intro pos pre rest done instr vals A D I V h; simpa [Front.conv] using h
  | cons k ks ih =>
    intro pos pre rest done instr vals A D I V h
    cases rest with
    | nil => simp [Front.conv] at h
    | cons a rest =>
      simp only [Front.conv] at h ⊢
      cases hg : Front.get k e l pos done a with
      | ok v a' d' => rw [hg] at h; rw [get_ok_loc hg]; exact ih _ _ _ _ _ _ _ _ _ _ h
      | stop a' d' r => rw [hg] at h; cases h

theorem get_stop_not_completed {k : Front.Kind} {e : Arg → Front.EvalOut} {l : Bool} {pos done : Nat} {a a' : Arg} {d' : Nat}
    (h : Front.get k e l pos done a = .stop a' d' .completed) : False := by
  cases hk : k.evals with
  | false =>
    cases k <;> simp [Front.Kind.evals] at hk
    all_goals
      simp only [Front.get] at h
      repeat' split at h
      all_goals cases h
  | true =>
    rw [Front.get_eq_post k hk] at h
    cases he : Front.evalArg e l pos done a with
    | error p =>
      obtain ⟨x, r⟩ := p
      rw [he] at h
      simp only [Front.GetOut.stop.injEq] at h
      obtain ⟨_, _, h3⟩ := h
      subst h3
      unfold Front.evalArg at he
      split at he
      · repeat' split at he
        all_goals cases he
      · cases he
    | ok p =>
      obtain ⟨x, d⟩ := p
      rw [he] at h
      simp only at h
      cases k <;> simp only [Front.post] at h
      all_goals (repeat' split at h)
      all_goals cases h

theorem conv_stop_not_completed (e : Arg → Front.EvalOut) (l : Bool) : ∀ (ks : List Front.Kind) (pos : Nat) (pre rest : List Arg)
    (done : Nat) (instr : Instr) (vals : List Front.Val) (A : List Arg) (D : Nat) (I : Instr),
    Front.conv e l ks pos pre rest done instr vals ≠ .stop A D I .completed := by
  intro ks
  induction ks with
  | nil => intro pos pre rest done instr vals A D I h; simp [Front.conv] at h
  | cons k ks ih =>
    intro pos pre rest done instr vals A D I h
    cases rest with
    | nil => simp [Front.conv] at h
    | cons a rest =>
      simp only [Front.conv] at h
      cases hg : Front.get k e l pos done a with
      | ok v a' d' => rw [hg] at h; exact ih _ _ _ _ _ _ _ _ _ h
      | stop a' d' r =>
        rw [hg] at h
        simp only [Front.ConvOut.stop.injEq] at h
        obtain ⟨_, _, _, h4⟩ := h
        subst h4
        exact get_stop_not_completed hg

/-- `Completed` does not depend on the `local` flag (it only decides between `Deferred` and a diagnostic) -/
theorem assemble_completed_loc {st fs2 : Front.St} {e : Arg → Front.EvalOut} {l : Bool} (l' : Bool)
    (h : Front.assemble st e l = (fs2, .completed)) : Front.assemble st e l' = (fs2, .completed) := by
  unfold Front.assemble at h ⊢
  simp only at h ⊢
  split
  · rename_i c; rw [if_pos c] at h; cases h
  · rename_i c
    rw [if_neg c] at h
    split
    · rename_i c2; rw [if_pos c2] at h; cases h
    · rename_i c2
      rw [if_neg c2] at h
      cases hc : Front.conv e l (Front.kinds st.instr) 0 [] st.args st.argsDone st.instr [] with
      | stop A D I r =>
        rw [hc] at h; simp only [Prod.mk.injEq] at h
        obtain ⟨_, h2⟩ := h
        subst h2
        exact absurd hc (conv_stop_not_completed e l _ _ _ _ _ _ _ _ _ _)
      | ok A D I V => rw [hc] at h; rw [conv_ok_loc e l l' _ _ _ _ _ _ _ _ _ _ _ hc]; exact h

/-- C08 (statement level)  An instruction statement whose constants are defined BELOW it in the file (first
`assemble` over `t₁` deferred, re-run from the queued state over the final table `t₂`) and the same statement with
the constants defined ABOVE it (one `assemble` over `t₂`) end with the same outcome and the same instruction, hence —
the address being the same — the same bytes. -/
theorem stmt_bytes_order_independent {t₁ t₂ : Table} (hs : Table.Sub t₁ t₂) (hn : Table.NoDef t₁) (addr : Nat)
    (name : Bytes) (args : List Arg) (hp : ∀ a ∈ args, plainArg a = true) (c : Bytes) (fs1 : Front.St)
    (h1 : Front.build addr name args (frontEval t₁) true = .deferred c fs1) :
    (∀ loc, ∃ t, Front.mnemonic name = some t ∧
      Front.assemble fs1 (frontEval t₂) loc = Front.assemble ⟨addr, t, 0, args⟩ (frontEval t₂) loc) ∧
    (∀ fs2, Front.assemble fs1 (frontEval t₂) false = (fs2, .completed) →
      Front.build addr name args (frontEval t₂) true = .completed fs2.instr) := by
  unfold Front.build at h1
  cases hm : Front.mnemonic name with
  | none => rw [hm] at h1; cases h1
  | some t =>
    rw [hm] at h1
    simp only at h1
    cases ha : Front.assemble ⟨addr, t, 0, args⟩ (frontEval t₁) true with
    | mk st r =>
      rw [ha] at h1
      cases r with
      | completed => cases h1
      | error d => cases h1
      | panic => cases h1
      | deferred c' =>
        simp only [Front.BuildOut.deferred.injEq] at h1
        obtain ⟨rfl, rfl⟩ := h1
        have hr := fun loc => assemble_retry_tables hs hn addr t args hp st c' ha loc
        refine ⟨fun loc => ⟨t, rfl, hr loc⟩, fun fs2 h2 => ?_⟩
        have h3 := assemble_completed_loc true h2
        rw [hr true] at h3
        simp only [Front.build, hm, h3]

/-- C08 (statement level, data)  The operand of `.du8/.du16/.du32`: the tree left by a first `evaluate` that stopped
at an unknown name (`DataExpr::apply` keeps it for the task) evaluates over the final table to exactly what the
original operand evaluates to over the final table — outcome, tree, everything `write_data` reads. -/
theorem du_value_order_independent {t₁ t₂ : Table} (hs : Table.Sub t₁ t₂) (hn : Table.NoDef t₁) (a : Arg)
    (hp : plainArg a = true) (n : Bytes) (a₁ : Arg) (h : evalIn t₁ a = .ok (.noSuch n a₁)) :
    evalIn t₂ a₁ = evalIn t₂ a := data_retry hs hn hp h

/-- C08 / C05  The placeholder written for a deferred instruction (0xBE × the length of the encoding of the partly
filled instruction) has the length of the bytes the task writes over it. -/
theorem placeholder_length {enc : Encoder} (henc : EncLen enc) (fs1 fs2 : Front.St) (e : Arg → Front.EvalOut) (loc : Bool)
    (r : Front.Res) (h : Front.assemble fs1 e loc = (fs2, r)) (ph bytes : Bytes) (h1 : enc fs1.instr = .ok ph)
    (h2 : enc fs2.instr = .ok bytes) : ph.length = bytes.length := by
  have := (Front.assemble_keeps fs1 e loc).2
  rw [h] at this
  rw [henc _ _ h1, henc _ _ h2, this]

/-! ### non-vacuity -/

/-- `B x + 2` at address 0 with `x` defined below (`x = 6`): deferred, then the re-run completes with `B +4`;
with `x` defined above the single run gives the same instruction. -/
example :
    Front.build 0 [66] [.bin .add (.ident [120]) (.const 2)] (frontEval []) true =
      .deferred [120] ⟨0, .b 14 0, 0, [.bin .add (.ident [120]) (.const 2)]⟩ ∧
    Front.assemble ⟨0, .b 14 0, 0, [.bin .add (.ident [120]) (.const 2)]⟩ (frontEval [([120], some 6)]) false =
      (⟨0, .b 14 4, 1, [.const 8]⟩, .completed) ∧
    Front.build 0 [66] [.bin .add (.ident [120]) (.const 2)] (frontEval [([120], some 6)]) true = .completed (.b 14 4) ∧
    Table.Sub [] [([120], some 6)] ∧ Table.NoDef [] ∧ plainArg (.bin .add (.ident [120]) (.const 2)) = true :=
  ⟨rfl, rfl, rfl, fun _ _ h => by simp [Table.find] at h, fun _ h => by simp [Table.find] at h, rfl⟩

/-- a three-operand statement that stops at its last operand, with a partly evaluated operand left behind:
`ADDS r1, r2, (2 + 3) * y + x` with `y = 1` known and `x` unknown -/
example :
    (Front.assemble ⟨0, .add true 0 0 (.imm 0), 0,
        [.ident [114, 49], .ident [114, 50], .bin .add (.bin .mul (.bin .add (.const 2) (.const 3)) (.ident [121])) (.ident [120])]⟩
      (frontEval [([121], some 1)]) true).2 = .deferred [120] ∧
    plainArg (.bin .add (.bin .mul (.bin .add (.const 2) (.const 3)) (.ident [121])) (.ident [120])) = true :=
  ⟨rfl, rfl⟩

/-- the class `plain` contains the usual operand shapes: `[r1 + 4 + x]`, `[r1 + x + 4]`, `[x + r1]`, `x - 2 * y` -/
example :
    plainArg (.addr (.bin .add (.bin .add (.ident [114, 49]) (.const 4)) (.ident [120]))) = true ∧
    plainArg (.addr (.bin .add (.bin .add (.ident [114, 49]) (.ident [120])) (.const 4))) = true ∧
    plainArg (.addr (.bin .add (.ident [120]) (.ident [114, 49]))) = true ∧
    plainArg (.bin .sub (.ident [120]) (.bin .mul (.const 2) (.ident [121]))) = true := ⟨rfl, rfl, rfl, rfl⟩

end Trion.Asm
