import TrionModel.Lemmas.C06Stmt
import TrionModel.Lemmas.C06Last
import TrionModel.Props.C04Any
/-!
# C06, third clause — invalid constructs are reported as diagnostics (whole-pipeline model `Asm.run`)

"Invalid constructs — register names used as constants, wrong argument counts or kinds, unknown mnemonics or directives,
out-of-range values, undefined or duplicate symbols, writes before any `.addr` — are reported as diagnostics."

Setting (`At fs main el S`): the main file parses into `pre ++ el :: post` (possibly followed by a parse error); the
statements `pre` ran without an error result and left no diagnostic and no queued task, ending in the pipeline state `S`
(`PrefixOk`, `QuietSt`; `at_start`: the empty prefix; `at_addr_defs`: `.addr A;` and any number of `.const` definitions;
`At.snoc`: any further statement that returns `Ok` quietly extends the prefix); `post` is arbitrary — `do_assemble` stops
at the first error result.  Conclusion (`Reported fs main el k`): `Asm.run` ends in an outcome that is NOT a success and
whose diagnostics are EXACTLY one: file `main`, line and column of the statement `el`, kind `k`.

Statements that go through the placeholder-and-retry path (instruction statements, `.du8/.du16/.du32` with a bad value)
return `Ok` at first and are retried by the task loop; for them see the last section (`…_partial`: the statement is the
last one of the file).
-/
namespace Trion.C06
open Trion Trion.Asm Trion.Front Trion.C04

/-- `el` is a statement of the main file reached in state `S` after a quiet prefix -/
def At (fs : Bytes → Option Bytes) (main : Bytes) (el : Element) (S : Asm.St) : Prop :=
  ∃ data els perr pre post, fs main = some data ∧ Asm.parseFile data = .ok (els, perr) ∧ els = pre ++ el :: post ∧
    PrefixOk fs main pre S ∧ QuietSt S

/-- the run fails with exactly one diagnostic: at `el`, of kind `k` -/
def Reported (fs : Bytes → Option Bytes) (main : Bytes) (el : Element) (k : Asm.Kind) : Prop :=
  ∃ o, Asm.run fs main = .done o ∧ o.success = false ∧ o.diags = [⟨main, el.line, el.col, k⟩]

abbrev envOf (main : Bytes) : Asm.Env := ⟨[main], main⟩
abbrev incOf (fs : Bytes → Option Bytes) : Asm.Inc := Asm.assembleFile fs Asm.encoder (Asm.maxDepth - 1)

/-- C06i.0  the generic statement: a statement whose whole effect is one diagnostic and an error result is reported -/
theorem reported_of {fs : Bytes → Option Bytes} {main : Bytes} {el : Element} {S : Asm.St} (h : At fs main el S)
    {k : Asm.Kind} {lv : Asm.Level}
    (hel : Asm.statement fs Asm.encoder (incOf fs) (envOf main) S el = .ok (S.push (envOf main) el.line el.col k, .err lv)) :
    Reported fs main el k := by
  obtain ⟨data, els, perr, pre, post, hfs, hp, hels, hpre, hq⟩ := h
  exact run_single_diag fs main data hfs els perr hp pre post el hels S hpre hq k lv hel

theorem at_start {fs : Bytes → Option Bytes} {main data : Bytes} (hfs : fs main = some data) {els : List Element}
    {perr : Option ParseErr} (hp : Asm.parseFile data = .ok (els, perr)) {el : Element} {post : List Element}
    (hels : els = el :: post) : At fs main el init2 :=
  ⟨data, els, perr, [], post, hfs, hp, hels, prefixOk_nil fs main, quiet_init2⟩

/-- a further statement that returns `Ok` and stays quiet extends the prefix -/
theorem At.snoc {fs : Bytes → Option Bytes} {main : Bytes} {e el : Element} {S S' : Asm.St}
    (h : ∃ data els perr pre post, fs main = some data ∧ Asm.parseFile data = .ok (els, perr) ∧ els = pre ++ e :: el :: post ∧
      PrefixOk fs main pre S)
    (he : Asm.statement fs Asm.encoder (incOf fs) (envOf main) S e = .ok (S', .ok)) (hq : QuietSt S') : At fs main el S' := by
  obtain ⟨data, els, perr, pre, post, hfs, hp, hels, hpre⟩ := h
  refine ⟨data, els, perr, pre ++ [e], post, hfs, hp, by simp [hels], ?_, hq⟩
  intro rest perr'
  rw [List.append_assoc, hpre]
  simp only [List.cons_append, List.nil_append, Asm.doAssemble, he]

/-- the state after `.addr A;` and definitions that build `tbl` -/
def stateAt (A : Nat) (tbl : Asm.Table) : Asm.St := ⟨⟨[], some ⟨A, [], Map.u32Max - A + 1⟩, []⟩, [], some tbl, [], some [], []⟩

theorem prefixOk_addr_defs (fs : Bytes → Option Bytes) (main : Bytes) (A : Nat) (hA : A < 4294967296)
    (defs : List (Bytes × Arg)) (tbl : Asm.Table) (hdefs : defsTable defs [] = some tbl) {pre : List Element}
    (hpre : pre.map (·.val) = .directive (bytesOf "addr") (Args.ofList [.const A]) :: defs.map constStmt) :
    PrefixOk fs main pre (stateAt A tbl) ∧ Asm.Table.NoDef tbl ∧ tblI64 tbl := by
  obtain ⟨e1, mid, rfl, h1, hmid⟩ := List.map_eq_cons_iff.mp hpre
  obtain ⟨l1, c1, v1⟩ := e1
  simp only at h1
  subst h1
  have haddr : Asm.statement fs Asm.encoder (incOf fs) (envOf main) init2
        ⟨l1, c1, .directive (bytesOf "addr") (Args.ofList [.const A])⟩ =
      .ok (⟨⟨[], some ⟨A, [], Map.u32Max - A + 1⟩, []⟩, [], some [], [], some [], []⟩, .ok) := by
    have := Asm.addr_ok fs (incOf fs) (envOf main) init2 [] (by simp) rfl rfl l1 c1 (A : Int) (by omega) (by omega)
    simp only [Asm.statement, Show.toList_ofList, this]
    simp [init2]
  have hnd0 : Asm.Table.NoDef [] := by intro n; simp [Asm.Table.find]
  have hd := fun rest perr' => doAssemble_defs fs Asm.encoder (incOf fs) (envOf main) (by simp) defs mid rest perr'
    ⟨⟨[], some ⟨A, [], Map.u32Max - A + 1⟩, []⟩, [], some [], [], some [], []⟩ [] tbl hmid rfl hnd0 hdefs
  refine ⟨?_, (hd [] none).2, defsTable_i64 defs [] tbl (by intro n v h; simp [Asm.Table.find] at h) hdefs⟩
  intro rest perr'
  simp only [List.cons_append, Asm.doAssemble, haddr]
  exact (hd rest perr').1

theorem at_addr_defs {fs : Bytes → Option Bytes} {main data : Bytes} (hfs : fs main = some data) {els : List Element}
    {perr : Option ParseErr} (hp : Asm.parseFile data = .ok (els, perr)) (A : Nat) (hA : A < 4294967296)
    (defs : List (Bytes × Arg)) (tbl : Asm.Table) (hdefs : defsTable defs [] = some tbl)
    {pre post : List Element} {el : Element} (hels : els = pre ++ el :: post)
    (hpre : pre.map (·.val) = .directive (bytesOf "addr") (Args.ofList [.const A]) :: defs.map constStmt) :
    At fs main el (stateAt A tbl) ∧ Asm.Table.NoDef tbl :=
  ⟨⟨data, els, perr, pre, post, hfs, hp, hels, (prefixOk_addr_defs fs main A hA defs tbl hdefs hpre).1, ⟨rfl, rfl, rfl⟩⟩,
   (prefixOk_addr_defs fs main A hA defs tbl hdefs hpre).2.1⟩

section
variable {fs : Bytes → Option Bytes} {main : Bytes} {S : Asm.St} {l c : Nat}

/-! ## (a) register names used as constant / label names -/

/-- C06i.a1  `.const R0, 1;` (any register or system-register name, any letter case; any expression with a value) -/
theorem invalid_const_register {tbl : Asm.Table} (hl : S.locals = some tbl) (hn : Asm.Table.NoDef tbl)
    {name : Bytes} (hr : isRegister name = true) {b : Arg} {v : Int} (hv : value (tabOf tbl) b = some v)
    (h : At fs main ⟨l, c, .directive (bytesOf "const") (Args.ofList [.ident name, b])⟩ S) :
    Reported fs main ⟨l, c, .directive (bytesOf "const") (Args.ofList [.ident name, b])⟩ (.dirApply "const" (.constReserved name)) :=
  reported_of h (by simp only [Asm.statement, Show.toList_ofList]; exact const_reserved fs _ _ S tbl (by simp) hl l c hn hr hv)

/-- C06i.a2  `.global sp;` -/
theorem invalid_global_register {name : Bytes} (hr : isRegister name = true)
    (h : At fs main ⟨l, c, .directive (bytesOf "global") (Args.ofList [.ident name])⟩ S) :
    Reported fs main ⟨l, c, .directive (bytesOf "global") (Args.ofList [.ident name])⟩ (.dirApply "global" (.constReserved name)) :=
  reported_of h (by simp only [Asm.statement, Show.toList_ofList]; exact global_reserved fs _ _ S l c hr)

/-- C06i.a3  `pc:` (in an open region) -/
theorem invalid_label_register {name : Bytes} (hr : isRegister name = true) (hact : S.seg.active.isSome = true)
    (h : At fs main ⟨l, c, .label name⟩ S) : Reported fs main ⟨l, c, .label name⟩ (.label (.constReserved name)) :=
  reported_of h (label_reserved fs _ _ _ S l c name hact hr)

/-! ## (b) wrong operand count — every directive -/

/-- C06i.b  any of the thirteen directives with a wrong number of operands (`dirTable`: name, operand count; the
directives that write — `.align .du8 .du16 .du32 .dhex .dstr .dfile` — look at the open region first, see (g)) -/
theorem invalid_directive_count {name : Bytes} {dir : String} {need : Nat} {act : Bool}
    (hd : (name, dir, need, act) ∈ dirTable) {args : Args} (hn : args.toList.length ≠ need)
    (ha : act = true → S.seg.active.isSome = true) (h : At fs main ⟨l, c, .directive name args⟩ S) :
    Reported fs main ⟨l, c, .directive name args⟩ (arityKind dir need args.toList.length) :=
  reported_of h (by simp only [Asm.statement]; exact directive_arity fs _ _ S l c name dir need act hd _ hn ha)

/-! ## (c) wrong operand kind — directives -/

/-- C06i.c1  `.const 5, 1;` — the name operand is not a name -/
theorem invalid_const_kind0 {a b : Arg} (ha : ∀ s, a ≠ .ident s)
    (h : At fs main ⟨l, c, .directive (bytesOf "const") (Args.ofList [a, b])⟩ S) :
    Reported fs main ⟨l, c, .directive (bytesOf "const") (Args.ofList [a, b])⟩ (.dirArgType "const" 0 .ident a.ty) :=
  reported_of h (by simp only [Asm.statement, Show.toList_ofList]; exact const_kind0 fs _ _ S l c a b ha)

/-- C06i.c2  `.addr "x";`, `.const n, "x";`, `.align "x";` — a string where a number is required -/
theorem invalid_addr_kind {tbl : Asm.Table} (hl : S.locals = some tbl) (s : Bytes)
    (h : At fs main ⟨l, c, .directive (bytesOf "addr") (Args.ofList [.str s])⟩ S) :
    Reported fs main ⟨l, c, .directive (bytesOf "addr") (Args.ofList [.str s])⟩ (.dirArgType "addr" 0 .const .str) :=
  reported_of h (by simp only [Asm.statement, Show.toList_ofList]; exact addr_kind fs _ _ S tbl (by simp) hl l c s)

theorem invalid_const_kind1 {tbl : Asm.Table} (hl : S.locals = some tbl) (name s : Bytes)
    (h : At fs main ⟨l, c, .directive (bytesOf "const") (Args.ofList [.ident name, .str s])⟩ S) :
    Reported fs main ⟨l, c, .directive (bytesOf "const") (Args.ofList [.ident name, .str s])⟩ (.dirArgType "const" 1 .const .str) :=
  reported_of h (by simp only [Asm.statement, Show.toList_ofList]; exact const_kind1 fs _ _ S tbl (by simp) hl l c name s)

theorem invalid_align_kind {tbl : Asm.Table} (hl : S.locals = some tbl) (hact : S.seg.active.isSome = true) (s : Bytes)
    (h : At fs main ⟨l, c, .directive (bytesOf "align") (Args.ofList [.str s])⟩ S) :
    Reported fs main ⟨l, c, .directive (bytesOf "align") (Args.ofList [.str s])⟩ (.dirArgType "align" 0 .const .str) :=
  reported_of h (by simp only [Asm.statement, Show.toList_ofList]; exact align_kind fs _ _ S tbl (by simp) hl l c hact s)

/-- C06i.c3  `.global 5;`, `.import "x";`, `.export [r0];` — not a name -/
theorem invalid_global_kind {a : Arg} (ha : ∀ s, a ≠ .ident s)
    (h : At fs main ⟨l, c, .directive (bytesOf "global") (Args.ofList [a])⟩ S) :
    Reported fs main ⟨l, c, .directive (bytesOf "global") (Args.ofList [a])⟩ (.dirArgType "global" 0 .str a.ty) :=
  reported_of h (by simp only [Asm.statement, Show.toList_ofList]; rw [C04.directive_global]; exact gdir_kind _ S l c .global a ha)

theorem invalid_import_kind {a : Arg} (ha : ∀ s, a ≠ .ident s)
    (h : At fs main ⟨l, c, .directive (bytesOf "import") (Args.ofList [a])⟩ S) :
    Reported fs main ⟨l, c, .directive (bytesOf "import") (Args.ofList [a])⟩ (.dirArgType "import" 0 .str a.ty) :=
  reported_of h (by simp only [Asm.statement, Show.toList_ofList]; rw [C04.directive_import]; exact gdir_kind _ S l c .import_ a ha)

theorem invalid_export_kind {a : Arg} (ha : ∀ s, a ≠ .ident s)
    (h : At fs main ⟨l, c, .directive (bytesOf "export") (Args.ofList [a])⟩ S) :
    Reported fs main ⟨l, c, .directive (bytesOf "export") (Args.ofList [a])⟩ (.dirArgType "export" 0 .str a.ty) :=
  reported_of h (by simp only [Asm.statement, Show.toList_ofList]; rw [C04.directive_export]; exact gdir_kind _ S l c .export_ a ha)

/-- C06i.c4  `.include 5;`, `.dstr 5;`, `.dhex x;`, `.dfile 1;` — not a string -/
theorem invalid_include_kind {a : Arg} (ha : ∀ s, a ≠ .str s)
    (h : At fs main ⟨l, c, .directive (bytesOf "include") (Args.ofList [a])⟩ S) :
    Reported fs main ⟨l, c, .directive (bytesOf "include") (Args.ofList [a])⟩ (.dirArgType "include" 0 .str a.ty) :=
  reported_of h (by simp only [Asm.statement, Show.toList_ofList]; exact include_kind fs _ _ S l c a ha)

theorem invalid_dstr_kind {a : Arg} (ha : ∀ s, a ≠ .str s) (hact : S.seg.active.isSome = true)
    (h : At fs main ⟨l, c, .directive (bytesOf "dstr") (Args.ofList [a])⟩ S) :
    Reported fs main ⟨l, c, .directive (bytesOf "dstr") (Args.ofList [a])⟩ (.dirArgType "dstr" 0 .str a.ty) :=
  reported_of h (by simp only [Asm.statement, Show.toList_ofList]; rw [C04.directive_dstr]; exact string_kind fs _ S l c "dstr" hact a ha)

theorem invalid_dhex_kind {a : Arg} (ha : ∀ s, a ≠ .str s) (hact : S.seg.active.isSome = true)
    (h : At fs main ⟨l, c, .directive (bytesOf "dhex") (Args.ofList [a])⟩ S) :
    Reported fs main ⟨l, c, .directive (bytesOf "dhex") (Args.ofList [a])⟩ (.dirArgType "dhex" 0 .str a.ty) :=
  reported_of h (by simp only [Asm.statement, Show.toList_ofList]; rw [C04.directive_dhex]; exact string_kind fs _ S l c "dhex" hact a ha)

theorem invalid_dfile_kind {a : Arg} (ha : ∀ s, a ≠ .str s) (hact : S.seg.active.isSome = true)
    (h : At fs main ⟨l, c, .directive (bytesOf "dfile") (Args.ofList [a])⟩ S) :
    Reported fs main ⟨l, c, .directive (bytesOf "dfile") (Args.ofList [a])⟩ (.dirArgType "dfile" 0 .str a.ty) :=
  reported_of h (by simp only [Asm.statement, Show.toList_ofList]; rw [C04.directive_dfile]; exact string_kind fs _ S l c "dfile" hact a ha)

/-! ## (d) unknown directive, unknown mnemonic -/

/-- C06i.d1  a directive name that is none of the thirteen -/
theorem invalid_unknown_directive {name : Bytes} (hn : ∀ p ∈ dirTable, p.1 ≠ name) {args : Args}
    (h : At fs main ⟨l, c, .directive name args⟩ S) : Reported fs main ⟨l, c, .directive name args⟩ (.dirNotFound name) :=
  reported_of h (by simp only [Asm.statement]; exact directive_unknown fs _ _ S l c name hn _)

/-- C06i.d2  a mnemonic that is not in the table (in an open region; before any `.addr` see (g)) -/
theorem invalid_unknown_mnemonic {name : Bytes} (hm : mnemonic name = none) {args : Args} (hact : S.seg.active.isSome = true)
    (h : At fs main ⟨l, c, .instruction name args⟩ S) :
    Reported fs main ⟨l, c, .instruction name args⟩ (.instrNotFound (foldName name)) :=
  reported_of h (instr_unknown fs _ _ _ S l c name args hact hm)

/-! ## (e) out-of-range values — directives -/

/-- C06i.e1  `.addr 4294967296;`, `.addr -1;` (any expression with such a value) -/
theorem invalid_addr_range {tbl : Asm.Table} (hl : S.locals = some tbl) (hn : Asm.Table.NoDef tbl) {b : Arg} {v : Int}
    (hv : value (tabOf tbl) b = some v) (hr : ¬ (0 ≤ v ∧ v ≤ 4294967295))
    (h : At fs main ⟨l, c, .directive (bytesOf "addr") (Args.ofList [b])⟩ S) :
    Reported fs main ⟨l, c, .directive (bytesOf "addr") (Args.ofList [b])⟩ (.dirApply "addr" (.addrRange v)) :=
  reported_of h (by simp only [Asm.statement, Show.toList_ofList]; exact addr_range fs _ _ S tbl (by simp) hl l c hn hv hr)

/-- C06i.e2  `.align 0;`, `.align 4294967296;` -/
theorem invalid_align_range {tbl : Asm.Table} (hl : S.locals = some tbl) (hn : Asm.Table.NoDef tbl)
    (hact : S.seg.active.isSome = true) {b : Arg} {v : Int}
    (hv : value (tabOf tbl) b = some v) (hr : ¬ (0 < v ∧ v ≤ 4294967295))
    (h : At fs main ⟨l, c, .directive (bytesOf "align") (Args.ofList [b])⟩ S) :
    Reported fs main ⟨l, c, .directive (bytesOf "align") (Args.ofList [b])⟩ (.dirApply "align" (.alignRange v)) :=
  reported_of h (by simp only [Asm.statement, Show.toList_ofList]; exact align_range fs _ _ S tbl (by simp) hl l c hn hact hv hr)

/-! ## (f) undefined and duplicate symbols — directives and labels -/

/-- C06i.f1  `.addr nowhere;`, `.const x, nowhere;`, `.align nowhere;` — a name that is not defined (these directives need
their value at once) -/
theorem invalid_addr_undefined {tbl : Asm.Table} (hl : S.locals = some tbl) {n : Bytes} (hr : isRegister n = false)
    (hf : tbl.find n = none) (h : At fs main ⟨l, c, .directive (bytesOf "addr") (Args.ofList [.ident n])⟩ S) :
    Reported fs main ⟨l, c, .directive (bytesOf "addr") (Args.ofList [.ident n])⟩ (.dirApply "addr" (.eval (.noSuch n))) :=
  reported_of h (by simp only [Asm.statement, Show.toList_ofList]; exact addr_undefined fs _ _ S tbl (by simp) hl l c hr hf)

theorem invalid_const_undefined {tbl : Asm.Table} (hl : S.locals = some tbl) (name : Bytes) {n : Bytes}
    (hr : isRegister n = false) (hf : tbl.find n = none)
    (h : At fs main ⟨l, c, .directive (bytesOf "const") (Args.ofList [.ident name, .ident n])⟩ S) :
    Reported fs main ⟨l, c, .directive (bytesOf "const") (Args.ofList [.ident name, .ident n])⟩ (.dirApply "const" (.eval (.noSuch n))) :=
  reported_of h (by simp only [Asm.statement, Show.toList_ofList]; exact const_undefined fs _ _ S tbl (by simp) hl l c name hr hf)

theorem invalid_align_undefined {tbl : Asm.Table} (hl : S.locals = some tbl) (hact : S.seg.active.isSome = true) {n : Bytes}
    (hr : isRegister n = false) (hf : tbl.find n = none)
    (h : At fs main ⟨l, c, .directive (bytesOf "align") (Args.ofList [.ident n])⟩ S) :
    Reported fs main ⟨l, c, .directive (bytesOf "align") (Args.ofList [.ident n])⟩ (.dirApply "align" (.eval (.noSuch n))) :=
  reported_of h (by simp only [Asm.statement, Show.toList_ofList]; exact align_undefined fs _ _ S tbl (by simp) hl l c hact hr hf)

/-- C06i.f2  `.const x, 1; … .const x, 2;` -/
theorem invalid_const_duplicate {tbl : Asm.Table} (hl : S.locals = some tbl) (hn : Asm.Table.NoDef tbl) {name : Bytes}
    (hr : isRegister name = false) {w : Int} (hf : tbl.find name = some (some w)) {b : Arg} {v : Int}
    (hv : value (tabOf tbl) b = some v)
    (h : At fs main ⟨l, c, .directive (bytesOf "const") (Args.ofList [.ident name, b])⟩ S) :
    Reported fs main ⟨l, c, .directive (bytesOf "const") (Args.ofList [.ident name, b])⟩ (.dirApply "const" (.constDirDuplicate name)) :=
  reported_of h (by simp only [Asm.statement, Show.toList_ofList]; exact const_duplicate fs _ _ S tbl (by simp) hl l c hn hr hf hv)

/-- C06i.f3  `x: … x:` (or a label named like an earlier constant) -/
theorem invalid_label_duplicate {tbl : Asm.Table} (hl : S.locals = some tbl) {name : Bytes} (hact : S.seg.active.isSome = true)
    (hr : isRegister name = false) {w : Int} (hf : tbl.find name = some (some w)) (h : At fs main ⟨l, c, .label name⟩ S) :
    Reported fs main ⟨l, c, .label name⟩ (.label (.constDuplicate name .loc)) :=
  reported_of h (label_duplicate fs _ _ _ S tbl hl l c name hact hr hf)

/-! ## (g) writes before any `.addr` -/

/-- C06i.g1  an instruction (any mnemonic, any operands) with no open region -/
theorem invalid_instruction_inactive {name : Bytes} {args : Args} (hact : S.seg.active = none)
    (h : At fs main ⟨l, c, .instruction name args⟩ S) : Reported fs main ⟨l, c, .instruction name args⟩ .inactive :=
  reported_of h (instr_inactive fs _ _ _ S l c name args hact)

/-- C06i.g2  a label with no open region -/
theorem invalid_label_inactive {name : Bytes} (hact : S.seg.active = none) (h : At fs main ⟨l, c, .label name⟩ S) :
    Reported fs main ⟨l, c, .label name⟩ .inactive :=
  reported_of h (label_inactive fs _ _ _ S l c name hact)

/-- C06i.g3  `.du8 / .du16 / .du32` (any operands) with no open region -/
theorem invalid_du8_inactive {args : Args} (hact : S.seg.active = none) (h : At fs main ⟨l, c, .directive (bytesOf "du8") args⟩ S) :
    Reported fs main ⟨l, c, .directive (bytesOf "du8") args⟩ (.dirApply "du8" .dataInactive) :=
  reported_of h (by simp only [Asm.statement]; rw [C04.directive_du8]; exact du_inactive .u8 _ S l c _ hact)
theorem invalid_du16_inactive {args : Args} (hact : S.seg.active = none) (h : At fs main ⟨l, c, .directive (bytesOf "du16") args⟩ S) :
    Reported fs main ⟨l, c, .directive (bytesOf "du16") args⟩ (.dirApply "du16" .dataInactive) :=
  reported_of h (by simp only [Asm.statement]; rw [C04.directive_du16]; exact du_inactive .u16 _ S l c _ hact)
theorem invalid_du32_inactive {args : Args} (hact : S.seg.active = none) (h : At fs main ⟨l, c, .directive (bytesOf "du32") args⟩ S) :
    Reported fs main ⟨l, c, .directive (bytesOf "du32") args⟩ (.dirApply "du32" .dataInactive) :=
  reported_of h (by simp only [Asm.statement]; rw [C04.directive_du32]; exact du_inactive .u32 _ S l c _ hact)

/-- C06i.g4  `.dstr / .dhex / .dfile` with no open region -/
theorem invalid_dstr_inactive {args : Args} (hact : S.seg.active = none) (h : At fs main ⟨l, c, .directive (bytesOf "dstr") args⟩ S) :
    Reported fs main ⟨l, c, .directive (bytesOf "dstr") args⟩ (.dirApply "dstr" .dataInactive) :=
  reported_of h (by simp only [Asm.statement]; rw [C04.directive_dstr]; exact string_inactive fs "dstr" _ S l c _ hact)
theorem invalid_dhex_inactive {args : Args} (hact : S.seg.active = none) (h : At fs main ⟨l, c, .directive (bytesOf "dhex") args⟩ S) :
    Reported fs main ⟨l, c, .directive (bytesOf "dhex") args⟩ (.dirApply "dhex" .dataInactive) :=
  reported_of h (by simp only [Asm.statement]; rw [C04.directive_dhex]; exact string_inactive fs "dhex" _ S l c _ hact)
theorem invalid_dfile_inactive {args : Args} (hact : S.seg.active = none) (h : At fs main ⟨l, c, .directive (bytesOf "dfile") args⟩ S) :
    Reported fs main ⟨l, c, .directive (bytesOf "dfile") args⟩ (.dirApply "dfile" .dataInactive) :=
  reported_of h (by simp only [Asm.statement]; rw [C04.directive_dfile]; exact string_inactive fs "dfile" _ S l c _ hact)

/-- C06i.g5  `.align` with no open region -/
theorem invalid_align_inactive {args : Args} (hact : S.seg.active = none) (h : At fs main ⟨l, c, .directive (bytesOf "align") args⟩ S) :
    Reported fs main ⟨l, c, .directive (bytesOf "align") args⟩ (.dirApply "align" .alignInactive) :=
  reported_of h (by simp only [Asm.statement]; rw [C04.directive_align]; exact align_inactive _ S l c _ hact)

end

/-! ## the placeholder-and-retry path (`…_partial`: the statement is the LAST statement of the main file)

Instruction statements and `.du8/.du16/.du32` record their diagnostic, still write a placeholder, queue a retry and return
`Ok`; the retry runs at the end of the file.  Conclusion (`ReportedAt`): not a success, at least one diagnostic, and EVERY
diagnostic at the statement (the retry may report a second time).  Restriction: no statement follows (`AtLast`).  Missing
for the full clause: an undefined name used by an instruction or a data statement (it is reported only by the retry; needs
the `local = true → false` replay of the deferred first attempt). -/

def AtLast (fs : Bytes → Option Bytes) (main : Bytes) (el : Element) (S : Asm.St) : Prop :=
  ∃ data pre, fs main = some data ∧ Asm.parseFile data = .ok (pre ++ [el], none) ∧ PrefixOk fs main pre S ∧ QuietSt S

def ReportedAt (fs : Bytes → Option Bytes) (main : Bytes) (el : Element) : Prop :=
  ∃ o, Asm.run fs main = .done o ∧ o.success = false ∧ o.diags ≠ [] ∧
    ∀ d ∈ o.diags, d.file = main ∧ d.line = el.line ∧ d.col = el.col

theorem atLast_addr_defs {fs : Bytes → Option Bytes} {main data : Bytes} (hfs : fs main = some data) {pre : List Element}
    {el : Element} (hp : Asm.parseFile data = .ok (pre ++ [el], none)) (A : Nat) (hA : A < 4294967296)
    (defs : List (Bytes × Arg)) (tbl : Asm.Table) (hdefs : defsTable defs [] = some tbl)
    (hpre : pre.map (·.val) = .directive (bytesOf "addr") (Args.ofList [.const A]) :: defs.map constStmt) :
    AtLast fs main el (stateAt A tbl) :=
  ⟨data, pre, hfs, hp, (prefixOk_addr_defs fs main A hA defs tbl hdefs hpre).1, ⟨rfl, rfl, rfl⟩⟩

/-- C06i.p0  an instruction statement (known mnemonic) that the front end does not complete to an encodable instruction -/
theorem invalid_instruction_of_partial {fs : Bytes → Option Bytes} {main : Bytes} {S : Asm.St} {l c : Nat}
    {tbl : Asm.Table} (hl : S.locals = some tbl) (hnd : Asm.Table.NoDef tbl) (hi64 : tblI64 tbl)
    {map : Map.Segs} {seg : Seg.Active} {pending : List (Nat × Nat)} (hs : S.seg = ⟨map, some seg, pending⟩)
    {name : Bytes} {args : Args} {t : Instr} (hm : mnemonic name = some t)
    (htot : (∃ i, build seg.cur name args.toList (Asm.frontEval tbl) true = .completed i) ∨
      (∃ d st, build seg.cur name args.toList (Asm.frontEval tbl) true = .error d st))
    (henc0 : ∀ i hws, build seg.cur name args.toList (Asm.frontEval tbl) true = .completed i → Codec.encode i ≠ .ok hws)
    (h : AtLast fs main ⟨l, c, .instruction name args⟩ S) : ReportedAt fs main ⟨l, c, .instruction name args⟩ := by
  obtain ⟨data, pre, hfs, hp, hpre, hq⟩ := h
  have hst : Asm.statement fs Asm.encoder (incOf fs) (envOf main) S ⟨l, c, .instruction name args⟩ =
      Asm.instruction Asm.encoder (envOf main) S l c name args.toList := by simp [Asm.statement, hs]
  refine run_last_diag fs main data hfs pre _ hp S hpre (by rw [hst]; exact Asm.instruction_nf _ _ _ _ _ _ _) ?_
  intro S1 r1 hX
  rw [hst] at hX
  refine ⟨pat_of_eff (pat_quiet hq _ _ _) (Asm.instruction_eff (env := envOf main) _ _ hX) (Asm.instruction_quiet _ _ hX), .inl ?_⟩
  have := instr_diag_of (envOf main) S tbl hnd hi64 (by simp) hl map seg pending hs l c name args.toList t hm htot henc0 S1 r1 hX
  omega

/-- C06i.p1  **wrong operand count, instructions** (`TooManyArguments` / `NotEnoughArguments`), any operands -/
theorem invalid_instruction_count_partial {fs : Bytes → Option Bytes} {main : Bytes} {S : Asm.St} {l c : Nat}
    {tbl : Asm.Table} (hl : S.locals = some tbl) (hnd : Asm.Table.NoDef tbl) (hi64 : tblI64 tbl)
    {map : Map.Segs} {seg : Seg.Active} {pending : List (Nat × Nat)} (hs : S.seg = ⟨map, some seg, pending⟩)
    {name : Bytes} {args : Args} {t : Instr} (hm : mnemonic name = some t) (hn : args.toList.length ≠ (kinds t).length)
    (h : AtLast fs main ⟨l, c, .instruction name args⟩ S) : ReportedAt fs main ⟨l, c, .instruction name args⟩ := by
  have hb := arity_rejected_proof seg.cur name args.toList (Asm.frontEval tbl) true t hm hn
  exact invalid_instruction_of_partial hl hnd hi64 hs hm (.inr ⟨_, _, hb⟩) (fun i hws hc => by rw [hb] at hc; cases hc) h

/-- C06i.p2  **wrong operand kind / out-of-range or misaligned value / overflow, instructions**: operands of the documented
forms over defined names, and no encodable meaning (`C04.means`) -/
theorem invalid_instruction_partial {fs : Bytes → Option Bytes} {main : Bytes} {S : Asm.St} {l c : Nat}
    {tbl : Asm.Table} (hl : S.locals = some tbl) (hnd : Asm.Table.NoDef tbl) (hi64 : tblI64 tbl)
    {map : Map.Segs} {seg : Seg.Active} {pending : List (Nat × Nat)} (hs : S.seg = ⟨map, some seg, pending⟩)
    {name : Bytes} {args : Args} {t : Instr} (hm : mnemonic name = some t)
    (hw : wellFormed (tabOf tbl) (sig t) args.toList)
    (hq : ∀ vs, denoteAll (tabOf tbl) (sig t) args.toList = some vs → ¬ svQuirk t vs)
    (hno : ∀ i hws, ¬ (means (tabOf tbl) seg.cur name args.toList = some i ∧ i.wf ∧ Codec.encode i = .ok hws))
    (h : AtLast fs main ⟨l, c, .instruction name args⟩ S) : ReportedAt fs main ⟨l, c, .instruction name args⟩ := by
  have hn := Asm.Table.nodef_get hnd
  have hTk := tableOk_of_tblI64 hi64
  have hE := evalSimp_frontEval tbl
  exact invalid_instruction_of_partial hl hnd hi64 hs hm (stmt_total hn hTk hE true seg.cur name args.toList t hm hw)
    (fun i hws hb he => hno i hws ((stmt_iff hn hTk hE true seg.cur name args.toList t hm hw hq i hws).1 ⟨hb, he⟩)) h

/-- C06i.p3  **`.du8 / .du16 / .du32` with a value outside the type, or with a string** -/
theorem invalid_du_partial {fs : Bytes → Option Bytes} {main : Bytes} {S : Asm.St} {l c : Nat}
    {tbl : Asm.Table} (hl : S.locals = some tbl) (hnd : Asm.Table.NoDef tbl) (hact : S.seg.active.isSome = true)
    (du : Asm.DU) (dn : Bytes) (hdn : dn = bytesOf du.name) {b : Arg}
    (hb : (∃ v, value (tabOf tbl) b = some v ∧ ¬ (0 ≤ v ∧ v ≤ du.max)) ∨ (∃ s, b = .str s))
    (h : AtLast fs main ⟨l, c, .directive dn (Args.ofList [b])⟩ S) :
    ReportedAt fs main ⟨l, c, .directive dn (Args.ofList [b])⟩ := by
  obtain ⟨data, pre, hfs, hp, hpre, hq⟩ := h
  have hst : Asm.statement fs Asm.encoder (incOf fs) (envOf main) S ⟨l, c, .directive dn (Args.ofList [b])⟩ =
      Asm.duDirective du (envOf main) S l c [b] := by
    subst hdn
    simp only [Asm.statement, Show.toList_ofList]
    cases du
    · exact C04.directive_du8 ..
    · exact C04.directive_du16 ..
    · exact C04.directive_du32 ..
  refine run_last_diag fs main data hfs pre _ hp S hpre (by rw [hst]; exact Asm.duDirective_nf _ _ _ _ _ _) ?_
  intro S1 r1 hX
  rw [hst] at hX
  refine ⟨pat_of_eff (pat_quiet hq _ _ _) (Asm.duDirective_eff (env := envOf main) _ _ hX) (Asm.duDirective_quiet _ _ hX), .inl ?_⟩
  obtain ⟨a', hev, hbad⟩ : ∃ a', Asm.evalArg (envOf main) S b = .ok (.complete a') ∧ ∀ v, a' = .const v → ¬ (0 ≤ v ∧ v ≤ du.max) := by
    rcases hb with ⟨v, hv, hr⟩ | ⟨s, rfl⟩
    · exact ⟨.const v, evalArg_value (envOf main) S tbl (by simp) hl hnd hv, fun w hw => by cases hw; exact hr⟩
    · exact ⟨.str s, evalArg_str (envOf main) S tbl (by simp) hl s, fun w hw => by cases hw⟩
  have := du_diag du (envOf main) S l c b a' hact hev hbad S1 r1 hX
  have h0 : S.errors.length = 0 := by rw [hq.1]; rfl
  omega

/-- a task loop that starts with a task which records a diagnostic ends with a diagnostic recorded -/
theorem localLoop_first {env : Asm.Env} {t : Asm.Task} {st0 : Asm.St}
    (ht : ∀ st' r, Asm.runTask Asm.encoder env st0 t = .ok (st', r) → 1 ≤ st'.errors.length) :
    ∀ (k : Nat) (res : Asm.Res) (S2 : Asm.St) (r2 : Asm.Res),
      Asm.localLoop Asm.encoder env (k + 1) [t] st0 res = .ok (S2, r2) → 1 ≤ S2.errors.length := by
  intro k res S2 r2 h
  simp only [Asm.localLoop, List.isEmpty_cons, Bool.false_eq_true, if_false] at h
  cases hr : Asm.localRound Asm.encoder env [t] st0 res with
  | stop s => rw [hr] at h; cases h
  | ok p =>
    obtain ⟨st1, res1⟩ := p
    rw [hr] at h
    have h1 : 1 ≤ st1.errors.length := by
      simp only [Asm.localRound] at hr
      cases hrt : Asm.runTask Asm.encoder env st0 t with
      | stop s => rw [hrt] at hr; cases hr
      | ok q =>
        obtain ⟨st', rr⟩ := q
        have := ht st' rr hrt
        rw [hrt] at hr
        cases rr with
        | ok => simp only at hr; cases hr; exact this
        | err lv =>
          simp only at hr
          split at hr <;> (cases hr; exact this)
    simp only at h
    cases hlt : st1.localTasks with
    | none => rw [hlt] at h; cases h
    | some new =>
      rw [hlt] at h
      simp only at h
      split at h
      · cases h; exact h1
      · have := (Asm.localLoop_grew _ _ _ _ _ _ h).1
        simp only at this
        omega

/-- C06i.p4  **undefined name in a data statement**: `.du8 nowhere;` (likewise `.du16`, `.du32`) where `nowhere` is defined
nowhere — reported (`NoSuchVariable`) when the retry runs at the end of the file -/
theorem invalid_du_undefined_partial {fs : Bytes → Option Bytes} {main : Bytes} {S : Asm.St} {l c : Nat}
    {tbl : Asm.Table} (hl : S.locals = some tbl) (du : Asm.DU) (dn : Bytes) (hdn : dn = bytesOf du.name) {n : Bytes}
    (hr : isRegister n = false) (hf : tbl.find n = none)
    (h : AtLast fs main ⟨l, c, .directive dn (Args.ofList [.ident n])⟩ S) :
    ReportedAt fs main ⟨l, c, .directive dn (Args.ofList [.ident n])⟩ := by
  obtain ⟨data, pre, hfs, hp, hpre, hq⟩ := h
  have hst : Asm.statement fs Asm.encoder (incOf fs) (envOf main) S ⟨l, c, .directive dn (Args.ofList [.ident n])⟩ =
      Asm.duDirective du (envOf main) S l c [.ident n] := by
    subst hdn
    simp only [Asm.statement, Show.toList_ofList]
    cases du
    · exact C04.directive_du8 ..
    · exact C04.directive_du16 ..
    · exact C04.directive_du32 ..
  refine run_last_diag fs main data hfs pre _ hp S hpre (by rw [hst]; exact Asm.duDirective_nf _ _ _ _ _ _) ?_
  intro S1 r1 hX
  rw [hst] at hX
  refine ⟨pat_of_eff (pat_quiet hq _ _ _) (Asm.duDirective_eff (env := envOf main) _ _ hX) (Asm.duDirective_quiet _ _ hX), ?_⟩
  have h0 : S.errors.length = 0 := by rw [hq.1]; rfl
  rcases du_undef_stmt du (envOf main) S tbl (by simp) hl hq.2.2 l c n hr hf S1 r1 hX with hE | ⟨rfl, hl1, _, d, hlt1, hda, _⟩
  · left; omega
  · right
    refine ⟨rfl, ?_⟩
    intro tasks S2 r2 htk hloop
    rw [hlt1] at htk
    cases htk
    have hrounds : Asm.rounds = 7 + 1 := rfl
    rw [hrounds] at hloop
    refine localLoop_first ?_ 7 .ok S2 r2 hloop
    intro st' r hrt
    have := du_undef_task d (envOf main) { S1 with localTasks := some [] } tbl (by simp) hl1 n hda hr hf st' r hrt
    omega

/-! ## non-vacuity -/

/-- the file `.addr 0;⏎FOO R1;`: exactly one diagnostic, `NotFound "FOO"`, at the second statement -/
example : ∃ el, Reported (fun _ => some (bytesOf ".addr 0;\nFOO R1;")) [] el (.instrNotFound (bytesOf "FOO")) ∧
    el.val = .instruction (bytesOf "FOO") (Args.ofList [.ident (bytesOf "R1")]) := by
  have ht : progText 0 [] (bytesOf "FOO") [.ident (bytesOf "R1")] = bytesOf ".addr 0;\nFOO R1;" := by decide
  obtain ⟨els, hp, hels⟩ := parseFile_progText_partial 0 (by decide) [] (by simp) (bytesOf "FOO") (by decide)
    [.ident (bytesOf "R1")] (by intro x hx; simp at hx; subst hx; exact .atom (.ident _ (by decide)))
  rw [ht] at hp
  simp only [progVals, List.map_nil, List.nil_append] at hels
  obtain ⟨e1, r1, rfl, h1, hr1⟩ := List.map_eq_cons_iff.mp hels
  obtain ⟨e2, r2, rfl, h2, hr2⟩ := List.map_eq_cons_iff.mp hr1
  have : r2 = [] := by simpa using hr2
  subst this
  obtain ⟨l2, c2, v2⟩ := e2
  simp only at h2
  subst h2
  refine ⟨⟨l2, c2, .instruction (bytesOf "FOO") (Args.ofList [.ident (bytesOf "R1")])⟩, ?_, rfl⟩
  have hat := (at_addr_defs (fs := fun _ => some (bytesOf ".addr 0;\nFOO R1;")) (main := []) rfl hp 0 (by decide) [] [] rfl
    (pre := [e1]) (post := []) (el := ⟨l2, c2, _⟩) rfl (by simp [h1])).1
  exact invalid_unknown_mnemonic (by decide) (by simp [stateAt]) hat

/-- a register name as a constant name, as the first statement of a file: the statement-level fact behind `invalid_const_register` -/
example (fs : Bytes → Option Bytes) (main : Bytes) :
    Asm.statement fs Asm.encoder (incOf fs) (envOf main) init2
      ⟨1, 1, .directive (bytesOf "const") (Args.ofList [.ident (bytesOf "R0"), .const 1])⟩ =
    .ok (init2.push (envOf main) 1 1 (.dirApply "const" (.constReserved (bytesOf "R0"))), .err .fatal) := by
  simp only [Asm.statement, Show.toList_ofList]
  exact const_reserved fs _ _ init2 [] (by simp) rfl 1 1 (by intro n; simp [Asm.Table.find]) (by decide) (v := 1) (by decide)

end Trion.C06