import TrionModel.Model.Trias
/-! # C18 — trias output file reproduces the assembled image (first theorems) -/
namespace Trion.Trias
open Trion.Uf2

/-- C18 (first clause of `boot_crc`, refusal): a program that occupies 0x10000000 and places data in
0x100000FC..0x100000FF is refused. -/
theorem boot_crc_refuses (m : List Seg) (h0 : (lookup m 0x10000000).isSome)
    (i : Nat) (hi : i < 4) (h : (lookup m (0x100000FC + i)).isSome) (hm : m ≠ []) :
    ∃ e, post m = .error e := by
  unfold post
  cases m with
  | nil => exact absurd rfl hm
  | cons s r =>
    have : bootCrc (s :: r) = .error .crcOverwrite := by
      unfold bootCrc
      rw [if_pos h0, if_pos]
      simp only [List.any_eq_true]
      exact ⟨i, List.mem_range.mpr hi, h⟩
    simp [this]

end Trion.Trias
