import TrionModel.Lemmas.Trias
import TrionModel.Props.C17
/-!
# C18 — the file written by `trias` reproduces the assembled image

Property theorems only (helper lemmas: `Lemmas/Trias.lean`, `Lemmas/Uf2.lean`; model: `Model/Trias.lean`).
`post m` is the byte content of the output file for the normalised segment list `m` of the assembled
program (what `MemoryMap::iter()` yields); `Uf2.read` is the independent reader of C16.
-/
namespace Trion.Trias
open Trion.Uf2

/-- the writer state after `Uf2Write::new_vec(Some(0xE48BFF56), 256, 256, buff)` on the cleared buffer -/
def st0 : St := { cfg := ⟨256, 256, some 0xE48BFF56⟩, out := [], pos := 0, count := 0, len := 0, isVec := true }

theorem st0_inv : Inv st0 :=
  ⟨⟨by decide, by decide, by decide, by decide⟩, by intro f hf; cases hf; decide, Nat.le_refl _, by decide,
    fun _ => rfl, by decide, [], by simp [AllOk], rfl, rfl, by simp⟩

/-- unfolding of a successful `post` -/
theorem post_ok (m : List Seg) (f : List UInt8) (h : post m = .ok f) :
    m ≠ [] ∧ ∃ m1 st', bootCrc m = .ok m1 ∧ writeSegs st0 (padAll m1) = .ok st' ∧ finish st' = .ok f := by
  unfold post at h
  cases m with
  | nil => simp at h
  | cons s r =>
    refine ⟨by simp, ?_⟩
    simp only [List.isEmpty_cons, Bool.false_eq_true, if_false] at h
    cases hb : bootCrc (s :: r) with
    | error e => rw [hb] at h; cases h
    | ok m1 =>
      rw [hb] at h
      have hn : newVec (some 0xE48BFF56) 256 256 0 = .ok st0 := rfl
      simp only [hn] at h
      cases hw : writeSegs st0 (padAll m1) with
      | error e => rw [hw] at h; cases h
      | ok st' =>
        rw [hw] at h
        simp only at h
        cases hf : finish st' with
        | ok out => rw [hf] at h; simp only at h; cases h; exact ⟨m1, st', rfl, hw, hf⟩
        | err e => rw [hf] at h; cases h
        | panic s => rw [hf] at h; cases h

/-- C18.b  **Blocks and pages** (`blocks_pages`, all clauses except "no two blocks target the same page").
Whenever `trias` writes a file, the independent reader decodes it and every block has a 256-byte payload
at a 256-aligned address, is numbered consecutively from 0 with the correct total, and carries the RP2040
family id 0xE48BFF56 with exactly the family-id flag.

Full statement additionally: `∀ j k, j ≠ k → bs[j].addr ≠ bs[k].addr` for `Norm m`.
Missing for that clause: the lemma that `padGo` leaves consecutive segments in different pages
(sortedness of the padded list); it is checked by the correspondence oracle on every run. -/
theorem blocks_pages_partial (m : List Seg) (ha : Addr32 m) (f : List UInt8) (h : post m = .ok f) :
    ∃ bs, read f = some bs ∧ f.length = 512 * bs.length ∧
      ∀ k (hk : k < bs.length), bs[k].psize = 256 ∧ bs[k].addr % 256 = 0 ∧ bs[k].blockNo = k ∧
        bs[k].numBlocks = bs.length ∧ bs[k].fam = 0xE48BFF56 ∧ bs[k].flags = 0x2000 := by
  obtain ⟨_, m1, st', hb, hw, hf⟩ := post_ok m f h
  have ha1 := bootCrc_addr32 m m1 ha hb
  have hps := padAll_starts m1 ha1
  obtain ⟨hI, hE⟩ := writeSegs_spec (padAll m1) st0 st' st0_inv (fun s hs => (hps s hs).2) hw
  have hout : st'.out = encAll st'.cfg 0 (segsBlks st0 (padAll m1)) := by rw [hE.out, hE.cfg]; rfl
  have hlen : (segsBlks st0 (padAll m1)).length = st'.count := by rw [hE.count]; simp [st0]
  obtain ⟨f1, f2, f3⟩ := finish_spec st' hI _ hE.ok hout hlen
  rw [hf] at f1
  cases f1
  refine ⟨_, f2, by rw [f3, List.length_map, hlen], ?_⟩
  intro k hk
  simp only [List.length_map] at hk
  have hno := hE.no k hk
  have h256 := segsBlks_256 (padAll m1) st0 st0_inv rfl rfl hps _ (List.getElem_mem hk)
  simp only [List.getElem_map, toBlock, List.length_map, hE.cfg]
  refine ⟨h256.1, h256.2.1, by rw [hno]; simp [st0], hlen.symm, rfl, ?_⟩
  rw [h256.2.2]; rfl

/-- C18.c (second clause of `boot_crc`)  A program that occupies 0x10000000 and itself places data in
0x100000FC..0x100000FF is refused: no file content is produced. -/
theorem boot_crc_refuses (m : List Seg) (h0 : (lookup m 0x10000000).isSome)
    (i : Nat) (hi : i < 4) (h : (lookup m (0x100000FC + i)).isSome) :
    post m = .error .crcOverwrite := by
  have hm : m ≠ [] := by intro hm; subst hm; simp [lookup] at h0
  unfold post
  cases m with
  | nil => exact absurd rfl hm
  | cons s r =>
    have : bootCrc (s :: r) = .error .crcOverwrite := by
      unfold bootCrc
      rw [if_pos h0, if_pos]
      simp only [List.any_eq_true]
      exact ⟨i, List.mem_range.mpr hi, by simpa using h⟩
    simp [this]

/-- C18.c' (first clause of `boot_crc`, model level)  When the program occupies 0x10000000 and leaves
0x100000FC..0x100000FF free, the segment list that is padded and written is the program's with exactly one
insertion: at 0x100000FC, the four little-endian bytes of the CRC-32/MPEG-2 (the bit-serial specification of
C17) of the 252 bytes 0x10000000..0x100000FB, absent bytes read as zero (`bootBytes`).

Not proved: the read-back of these four bytes through `image (read f)` (needs the dictionary lemma named in
`pad_pages_partial`). -/
theorem boot_crc_partial (m : List Seg) (h0 : (lookup m 0x10000000).isSome)
    (hfree : ∀ i, i < 4 → lookup m (0x100000FC + i) = none) :
    bootCrc m = .ok (insertMerge 0x100000FC
      (le32 (Trion.Crc.Spec.crc ((bootBytes m).map UInt8.toBitVec)).toNat) m) ∧
    (bootBytes m).length = 252 ∧
    ∀ i (hi : i < 252), (bootBytes m)[i]? = some ((lookup m (0x10000000 + i)).getD 0) := by
  refine ⟨?_, by simp [bootBytes], ?_⟩
  · unfold bootCrc
    rw [if_pos h0, if_neg]
    · simp only [crc32, Trion.Crc.crc_eq_spec]
    · simp only [List.any_eq_true, not_exists, not_and]
      intro i hi
      rw [hfree i (List.mem_range.mp hi)]
      simp
  · intro i hi
    simp [bootBytes, hi]

/-- C18.d  An empty image produces no file. -/
theorem empty_refused : post [] = .error .empty := rfl

/-- C18.a  **Image of the file** (`pad_pages`, the UF2 half). The image a loader obtains from the file is
exactly the padded segment list (program bytes, checksum word, zero fill inserted by the padding loop), each
segment followed by zeros up to the end of its last page: `segsImage (padAll m1)`.

Full statement of `pad_pages` additionally identifies `segsImage (padAll m1)` with
"`lookup m1 x` or 0 on every 256-byte page that `m1` touches, nothing elsewhere" for `Norm m`.
Missing: the dictionary lemma for `padGo`/`insertMerge` on sorted lists (gap filling preserves `lookup`
and adds only zeros inside touched pages); that clause is evaluated by the correspondence oracle on
every generated program. -/
theorem pad_pages_partial (m : List Seg) (ha : Addr32 m) (f : List UInt8) (h : post m = .ok f) :
    ∃ m1 bs, bootCrc m = .ok m1 ∧ read f = some bs ∧ ∀ x, image bs x = segsImage (padAll m1) x := by
  obtain ⟨_, m1, st', hb, hw, hf⟩ := post_ok m f h
  have ha1 := bootCrc_addr32 m m1 ha hb
  have hps := padAll_starts m1 ha1
  have ha2 : Trias.Addr32 (padAll m1) := fun s hs => (hps s hs).2
  obtain ⟨hI, hE⟩ := writeSegs_spec (padAll m1) st0 st' st0_inv ha2 hw
  have hout : st'.out = encAll st'.cfg 0 (segsBlks st0 (padAll m1)) := by rw [hE.out, hE.cfg]; rfl
  have hlen : (segsBlks st0 (padAll m1)).length = st'.count := by rw [hE.count]; simp [st0]
  obtain ⟨f1, f2, _⟩ := finish_spec st' hI _ hE.ok hout hlen
  rw [hf] at f1
  cases f1
  refine ⟨m1, _, hb, f2, ?_⟩
  intro x
  rw [hE.cfg]
  exact segsBlks_image (padAll m1) st0 st' st0_inv rfl ha2 hw _ x

/-! ### non-vacuity -/

/-- a boot-sector program and a second region: the file has two blocks -/
example : (match post [(0x10000000, [1, 2, 3]), (0x20000010, [4])] with
    | .ok f => f.length == 1024 | .error _ => false) = true := by decide +kernel
example : post [(0x10000000, [1]), (0x100000FD, [2])] = .error .crcOverwrite :=
  boot_crc_refuses _ rfl 1 (by decide) rfl

end Trion.Trias
