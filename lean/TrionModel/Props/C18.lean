import TrionModel.Lemmas.TriasBoot
import TrionModel.Props.C17
/-!
# C18 — the file written by `trias` reproduces the assembled image

Property theorems only (helper lemmas: `Lemmas/Trias.lean`, `Lemmas/Uf2.lean`; model: `Model/Trias.lean`).
`post m` is the byte content of the output file for the normalised segment list `m` of the assembled
program (what `MemoryMap::iter()` yields); `Uf2.read` is the independent reader of C16.
-/
namespace Trion.Trias
open Trion.Uf2

/-- the writer state after `Uf2Write::new_vec(Some(0xE48BFF56), 256, 256, buff)` on the cleared buffer -/
def st0 : St := { cfg := ⟨256, 256, some 0xE48BFF56⟩, out := [], pos := 0, count := 0, len := 0, isVec := true }

theorem st0_inv : Inv st0 :=
  ⟨⟨by decide, by decide, by decide, by decide⟩, by intro f hf; cases hf; decide, Nat.le_refl _, by decide,
    fun _ => rfl, by decide, [], by simp [AllOk], rfl, rfl, by simp⟩

/-- unfolding of a successful `post` -/
theorem post_ok (m : List Seg) (f : List UInt8) (h : post m = .ok f) :
    m ≠ [] ∧ ∃ m1 st', bootCrc m = .ok m1 ∧ writeSegs st0 (padAll m1) = .ok st' ∧ finish st' = .ok f := by
  unfold post at h
  cases m with
  | nil => simp at h
  | cons s r =>
    refine ⟨by simp, ?_⟩
    simp only [List.isEmpty_cons, Bool.false_eq_true, if_false] at h
    cases hb : bootCrc (s :: r) with
    | error e => rw [hb] at h; cases h
    | ok m1 =>
      rw [hb] at h
      have hn : newVec (some 0xE48BFF56) 256 256 0 = .ok st0 := rfl
      simp only [hn] at h
      cases hw : writeSegs st0 (padAll m1) with
      | error e => rw [hw] at h; cases h
      | ok st' =>
        rw [hw] at h
        simp only at h
        cases hf : finish st' with
        | ok out => rw [hf] at h; simp only at h; cases h; exact ⟨m1, st', rfl, hw, hf⟩
        | err e => rw [hf] at h; cases h
        | panic s => rw [hf] at h; cases h

/-! ### the program with its checksum word -/

/-- the four bytes stored at 0x100000FC: little-endian CRC-32/MPEG-2 (bit-serial specification of C17) of the
252 bytes 0x10000000..0x100000FB, absent bytes read as zero (`bootBytes`) -/
def crcWord (m : List Seg) : List UInt8 :=
  le32 (Trion.Crc.Spec.crc ((bootBytes m).map UInt8.toBitVec)).toNat

/-- the assembled program plus, when it occupies 0x10000000, the checksum word at 0x100000FC..0x100000FF -/
def withCrc (m : List Seg) (x : Nat) : Option UInt8 :=
  if (lookup m 0x10000000).isSome = true ∧ 0x100000FC ≤ x ∧ x < 0x10000100 then (crcWord m)[x - 0x100000FC]?
  else lookup m x

/-- what `bootCrc` hands on is normalised and is, as a dictionary, `withCrc m` -/
theorem bootCrc_lookup (m m1 : List Seg) (hn : NormAbove 0 m) (h : bootCrc m = .ok m1) :
    NormAbove 0 m1 ∧ ∀ x, lookup m1 x = withCrc m x := by
  unfold bootCrc at h
  split at h
  · rename_i h0
    split at h
    · cases h
    · rename_i hany
      cases h
      have hfree : ∀ x, 0x100000FC ≤ x → x < 0x100000FC + (le32 (crc32 (bootBytes m))).length → lookup m x = none := by
        intro x hx1 hx2
        rw [le32_length] at hx2
        simp only [List.any_eq_true, not_exists, not_and, List.mem_range] at hany
        have := hany (x - 0x100000FC) (by omega)
        rw [show 0x100000FC + (x - 0x100000FC) = x by omega] at this
        cases hl : lookup m x with
        | none => rfl
        | some v => rw [hl] at this; exact absurd rfl this
      obtain ⟨i1, i2⟩ := insertMerge_spec m 0 0x100000FC (le32 (crc32 (bootBytes m))) hn (by simp [le32]) hfree
      refine ⟨i1.mono (Nat.zero_le _), ?_⟩
      intro x
      rw [i2 x, le32_length]
      unfold withCrc crcWord
      simp only [crc32, Trion.Crc.crc_eq_spec]
      by_cases hx : 0x100000FC ≤ x ∧ x < 0x100000FC + 4
      · rw [if_pos hx, if_pos ⟨h0, hx.1, by omega⟩]
      · rw [if_neg hx, if_neg (by omega)]
  · rename_i h0
    cases h
    refine ⟨hn, fun x => ?_⟩
    unfold withCrc
    rw [if_neg (fun c => h0 c.1)]

/-- the checksum word lies in a page the program occupies anyway -/
theorem withCrc_touched (m : List Seg) (x : Nat) : TouchedF (withCrc m) x ↔ TouchedF (lookup m) x := by
  constructor
  · rintro ⟨a, ha, hp⟩
    unfold withCrc at ha
    split at ha
    · rename_i hc
      exact ⟨0x10000000, hc.1, by omega⟩
    · exact ⟨a, ha, hp⟩
  · rintro ⟨a, ha, hp⟩
    refine ⟨a, ?_, hp⟩
    unfold withCrc
    split
    · rename_i hc
      have : a - 0x100000FC < (crcWord m).length := by
        show a - 0x100000FC < 4
        omega
      rw [List.getElem?_eq_getElem this]; rfl
    · exact ha

/-- the image of a produced file, in terms of the padded list (UF2 half) -/
theorem post_image (m : List Seg) (ha : Addr32 m) (f : List UInt8) (h : post m = .ok f) :
    ∃ m1, ∃ st' : St, bootCrc m = .ok m1 ∧ read f = some ((segsBlks st0 (padAll m1)).map (toBlock st0.cfg st'.count)) ∧
      f.length = 512 * (segsBlks st0 (padAll m1)).length ∧
      (segsBlks st0 (padAll m1)).length = st'.count ∧
      (∀ k (hk : k < (segsBlks st0 (padAll m1)).length), (segsBlks st0 (padAll m1))[k].no = k) ∧
      ∀ x, image ((segsBlks st0 (padAll m1)).map (toBlock st0.cfg st'.count)) x = segsImage (padAll m1) x := by
  obtain ⟨_, m1, st', hb, hw, hf⟩ := post_ok m f h
  have ha1 := bootCrc_addr32 m m1 ha hb
  have hps := padAll_starts m1 ha1
  have ha2 : Trias.Addr32 (padAll m1) := fun s hs => (hps s hs).2
  obtain ⟨hI, hE⟩ := writeSegs_spec (padAll m1) st0 st' st0_inv ha2 hw
  have hout : st'.out = encAll st'.cfg 0 (segsBlks st0 (padAll m1)) := by rw [hE.out, hE.cfg]; rfl
  have hlen : (segsBlks st0 (padAll m1)).length = st'.count := by rw [hE.count]; simp [st0]
  obtain ⟨f1, f2, f3⟩ := finish_spec st' hI _ hE.ok hout hlen
  rw [hf] at f1
  cases f1
  refine ⟨m1, st', hb, by rw [← hE.cfg]; exact f2, by rw [f3, hlen], hlen, ?_, ?_⟩
  · intro k hk
    rw [hE.no k hk]; simp [st0]
  · intro x
    exact segsBlks_image (padAll m1) st0 st' st0_inv rfl ha2 hw _ x

/-- C18.a  **Image of the file** (`pad_pages`). For every normalised program `m` for which `trias` writes a
file `f`: the independent reader decodes `f`, and the memory image a loader obtains from it is, at every
address `x`,

* when the 256-byte page of `x` contains a program byte: the program byte at `x`, the checksum byte at `x`
  (addresses 0x100000FC..FF of a boot-sector program), and zero for every other `x` of that page
  (`(withCrc m x).getD 0`);
* **nothing** when the program touches no byte of `x`'s page. -/
theorem pad_pages (m : List Seg) (hn : Norm m) (f : List UInt8) (h : post m = .ok f) :
    ∃ bs, read f = some bs ∧ ∀ x,
      (TouchedF (lookup m) x → image bs x = some ((withCrc m x).getD 0)) ∧
      (¬ TouchedF (lookup m) x → image bs x = none) := by
  obtain ⟨m1, st', hb, hr, _, _, _, hi⟩ := post_image m hn.addr32 f h
  obtain ⟨hn1, hl1⟩ := bootCrc_lookup m m1 hn.normAbove hb
  obtain ⟨hp, he⟩ := padAll_spec m1 hn1
  refine ⟨_, hr, fun x => ?_⟩
  obtain ⟨s1, s2⟩ := segsImage_pnorm hp x
  have hfun : lookup m1 = withCrc m := funext hl1
  have ht : TouchedF (lookup (padAll m1)) x ↔ TouchedF (lookup m) x := by
    rw [he.touched x, hfun]; exact withCrc_touched m x
  rw [hi x]
  constructor
  · intro t
    rw [s1 (ht.mpr t), he.getD x, hfun]
  · intro t
    exact s2 (fun c => t (ht.mp c))

/-- C18.a'  Corollary in the words of the property: every program byte is read back at its address. (A program
byte never competes with the checksum word: a file is produced only when 0x100000FC..FF is free, `boot_crc_refuses`.) -/
theorem pad_pages_bytes (m : List Seg) (hn : Norm m) (f : List UInt8) (h : post m = .ok f) :
    ∃ bs, read f = some bs ∧ ∀ x v, lookup m x = some v → image bs x = some v := by
  obtain ⟨bs, hr, hx⟩ := pad_pages m hn f h
  refine ⟨bs, hr, fun x v hv => ?_⟩
  have ht : TouchedF (lookup m) x := ⟨x, by rw [hv]; rfl, rfl⟩
  rw [(hx x).1 ht]
  -- the checksum range is free whenever a file is produced
  obtain ⟨_, m1, _, hb, _, _⟩ := post_ok m f h
  unfold withCrc
  split
  · rename_i hc
    exfalso
    unfold bootCrc at hb
    rw [if_pos hc.1] at hb
    split at hb
    · cases hb
    · rename_i hany
      simp only [List.any_eq_true, not_exists, not_and, List.mem_range] at hany
      have := hany (x - 0x100000FC) (by omega)
      rw [show 0x100000FC + (x - 0x100000FC) = x by omega, hv] at this
      exact this rfl
  · rw [hv]; rfl

/-- C18.b  **Blocks and pages** (`blocks_pages`). Whenever `trias` writes a file, the independent reader
decodes it and every block has a 256-byte payload at a 256-aligned address, is numbered consecutively from 0
with the correct total, carries the RP2040 family id 0xE48BFF56 with exactly the family-id flag, and the
blocks target strictly ascending — in particular pairwise distinct — pages. -/
theorem blocks_pages (m : List Seg) (hn : Norm m) (f : List UInt8) (h : post m = .ok f) :
    ∃ bs, read f = some bs ∧ f.length = 512 * bs.length ∧
      (∀ k (hk : k < bs.length), bs[k].psize = 256 ∧ bs[k].addr % 256 = 0 ∧ bs[k].blockNo = k ∧
        bs[k].numBlocks = bs.length ∧ bs[k].fam = 0xE48BFF56 ∧ bs[k].flags = 0x2000) ∧
      (∀ j k (hj : j < bs.length) (hk : k < bs.length), j < k → bs[j].addr + 256 ≤ bs[k].addr) ∧
      (∀ j k (hj : j < bs.length) (hk : k < bs.length), j ≠ k → bs[j].addr ≠ bs[k].addr) := by
  obtain ⟨m1, st', hb, hr, hlen5, hlen, hno, _⟩ := post_image m hn.addr32 f h
  have ha1 := bootCrc_addr32 m m1 hn.addr32 hb
  have hps := padAll_starts m1 ha1
  obtain ⟨hn1, _⟩ := bootCrc_lookup m m1 hn.normAbove hb
  obtain ⟨hp, _⟩ := padAll_spec m1 hn1
  obtain ⟨hsorted, _⟩ := segsBlks_sorted (padAll m1) 0 st0 st0_inv rfl rfl hp (fun s hs => (hps s hs).2)
  have hlt : ∀ j k (hj : j < (segsBlks st0 (padAll m1)).length) (hk : k < (segsBlks st0 (padAll m1)).length),
      j < k → (segsBlks st0 (padAll m1))[j].addr + 256 ≤ (segsBlks st0 (padAll m1))[k].addr := by
    intro j k hj hk hjk
    exact (List.pairwise_iff_getElem.mp hsorted) j k hj hk hjk
  refine ⟨_, hr, by rw [List.length_map]; exact hlen5, ?_, ?_, ?_⟩
  · intro k hk
    simp only [List.length_map] at hk
    have h256 := segsBlks_256 (padAll m1) st0 st0_inv rfl rfl hps _ (List.getElem_mem hk)
    simp only [List.getElem_map, toBlock, List.length_map]
    refine ⟨h256.1, h256.2.1, hno k hk, hlen.symm, rfl, ?_⟩
    rw [h256.2.2]; rfl
  · intro j k hj hk hjk
    simp only [List.length_map] at hj hk
    simp only [List.getElem_map, toBlock]
    exact hlt j k hj hk hjk
  · intro j k hj hk hjk
    simp only [List.length_map] at hj hk
    simp only [List.getElem_map, toBlock]
    rcases Nat.lt_or_gt_of_ne hjk with h1 | h1
    · have := hlt j k hj hk h1; omega
    · have := hlt k j hk hj h1; omega

/-- C18.c (second clause of `boot_crc`)  A program that occupies 0x10000000 and itself places data in
0x100000FC..0x100000FF is refused: no file content is produced. -/
theorem boot_crc_refuses (m : List Seg) (h0 : (lookup m 0x10000000).isSome)
    (i : Nat) (hi : i < 4) (h : (lookup m (0x100000FC + i)).isSome) :
    post m = .error .crcOverwrite := by
  have hm : m ≠ [] := by intro hm; subst hm; simp [lookup] at h0
  unfold post
  cases m with
  | nil => exact absurd rfl hm
  | cons s r =>
    have : bootCrc (s :: r) = .error .crcOverwrite := by
      unfold bootCrc
      rw [if_pos h0, if_pos]
      simp only [List.any_eq_true]
      exact ⟨i, List.mem_range.mpr hi, by simpa using h⟩
    simp [this]

/-- C18.c (first clause of `boot_crc`)  When the program occupies 0x10000000 and a file is produced, reading
the loader image of the file at 0x100000FC..0x100000FF gives four bytes `b0 b1 b2 b3` whose little-endian
value is the CRC-32/MPEG-2 (`Trion.Crc.Spec.crc`, the bit-serial specification of C17) of the 252 bytes
`bootBytes m` = the program's bytes at 0x10000000..0x100000FB with absent bytes read as zero. -/
theorem boot_crc (m : List Seg) (hn : Norm m) (h0 : (lookup m 0x10000000).isSome) (f : List UInt8)
    (h : post m = .ok f) :
    ∃ bs b0 b1 b2 b3, read f = some bs ∧
      image bs 0x100000FC = some b0 ∧ image bs 0x100000FD = some b1 ∧
      image bs 0x100000FE = some b2 ∧ image bs 0x100000FF = some b3 ∧
      b0.toNat + 256 * b1.toNat + 65536 * b2.toNat + 16777216 * b3.toNat =
        (Trion.Crc.Spec.crc ((bootBytes m).map UInt8.toBitVec)).toNat ∧
      (bootBytes m).length = 252 ∧
      ∀ i (hi : i < 252), (bootBytes m)[i]? = some ((lookup m (0x10000000 + i)).getD 0) := by
  obtain ⟨bs, hr, hx⟩ := pad_pages m hn f h
  have ht : ∀ x, 0x100000FC ≤ x → x < 0x10000100 → TouchedF (lookup m) x :=
    fun x h1 h2 => ⟨0x10000000, h0, by omega⟩
  have hv : ∀ i, i < 4 → image bs (0x100000FC + i) = some (((crcWord m)[i]?).getD 0) := by
    intro i hi
    rw [(hx _).1 (ht _ (by omega) (by omega))]
    unfold withCrc
    rw [if_pos ⟨h0, by omega, by omega⟩, show 0x100000FC + i - 0x100000FC = i by omega]
  let c := (Trion.Crc.Spec.crc ((bootBytes m).map UInt8.toBitVec)).toNat
  have hc : c < 4294967296 := (Trion.Crc.Spec.crc ((bootBytes m).map UInt8.toBitVec)).isLt
  refine ⟨bs, (c % 256).toUInt8, (c / 256 % 256).toUInt8, (c / 65536 % 256).toUInt8,
    (c / 16777216 % 256).toUInt8, hr, hv 0 (by decide), hv 1 (by decide), hv 2 (by decide), hv 3 (by decide),
    ?_, by simp [bootBytes], ?_⟩
  · rw [toUInt8_toNat _ (Nat.mod_lt _ (by decide)), toUInt8_toNat _ (Nat.mod_lt _ (by decide)),
      toUInt8_toNat _ (Nat.mod_lt _ (by decide)), toUInt8_toNat _ (Nat.mod_lt _ (by decide))]
    show c % 256 + 256 * (c / 256 % 256) + 65536 * (c / 65536 % 256) + 16777216 * (c / 16777216 % 256) = c
    omega
  · intro i hi
    simp [bootBytes, hi]

/-! ### the list helpers are the `MemoryMap` model of C15 -/

/-- C18.e  The dictionary view `lookup` is the abstraction function of the memory-map model, and `Norm` is its
representation invariant. -/
theorem lookup_is_map_abs (m : List Seg) : lookup m = Trion.Map.abs m := lookup_eq_abs m
theorem norm_is_map_inv (m : List Seg) : Norm m ↔ Trion.Map.MInv m := norm_iff_minv m

/-- C18.e  `find(a, Search::Exact).is_some()` of the memory-map model (binary search and all) is
`(lookup m a).isSome`, and it does not panic. -/
theorem lookup_is_map_find (m : List Seg) (hn : Norm m) (a : Nat) :
    (Trion.Map.find m a .exact = .ok none ∧ lookup m a = none) ∨
    (∃ r, Trion.Map.find m a .exact = .ok (some r) ∧ (lookup m a).isSome = true) := by
  have inv := (norm_iff_minv m).mp hn
  rw [lookup_eq_abs]
  rcases Trion.Map.find_exact_spec inv a with ⟨_, h1, h2⟩ | ⟨j, s, h1, _, h3, h4, h5⟩
  · exact Or.inl ⟨h1, h2⟩
  · refine Or.inr ⟨_, h3, ?_⟩
    obtain ⟨a1, _⟩ := Trion.Map.abs_of_idx inv h1
    rw [a1 a h4 h5, List.getElem?_eq_getElem (by omega)]; rfl

/-- C18.e  `insertMerge` is `MemoryMap::put` of the C15 model whenever the target range is free, and that put
returns `Ok(d.len())`. In particular the checksum insertion of `bootCrc` is the model's
`put(FLASH_CRC, &crc.to_le_bytes())`, which succeeds with `Ok(4)`. -/
theorem insertMerge_is_map_put (m : List Seg) (hn : Norm m) (a : Nat) (d : List UInt8) (hd : d ≠ [])
    (hb : a + d.length ≤ 4294967296) (hfree : ∀ x, a ≤ x → x < a + d.length → lookup m x = none) :
    Trion.Map.put m a d = (.ok d.length, insertMerge a d m) :=
  insertMerge_eq_put m a d ((norm_iff_minv m).mp hn) hd hb hfree

theorem bootCrc_is_map_put (m : List Seg) (hn : Norm m) (h0 : (lookup m 0x10000000).isSome)
    (hfree : ∀ i, i < 4 → lookup m (0x100000FC + i) = none) :
    ∃ m1, bootCrc m = .ok m1 ∧ Trion.Map.put m 0x100000FC (le32 (crc32 (bootBytes m))) = (.ok 4, m1) := by
  refine ⟨_, ?_, insertMerge_is_map_put m hn _ _ (by simp [le32]) (by rw [le32_length]; decide) ?_⟩
  · unfold bootCrc
    rw [if_pos h0, if_neg]
    simp only [List.any_eq_true, not_exists, not_and]
    intro i hi
    rw [hfree i (List.mem_range.mp hi)]
    simp
  · intro x hx1 hx2
    rw [le32_length] at hx2
    have := hfree (x - 0x100000FC) (by omega)
    rwa [show 0x100000FC + (x - 0x100000FC) = x by omega] at this

/-- C18.e  **The checksum step replayed on the `MemoryMap` model.** `bootMap` (Model/TriasPad.lean) is step 2 of
`assemble()` statement by statement on the C15 model — `find(FLASH_BASE, Exact)`, the loop over
`iter_range(FLASH_BASE ..= FLASH_BASE + 0xFF)` with the refusal test `range.get_last() >= FLASH_CRC` and
`temp[first..=last].copy_from_slice(data)`, the CRC over `temp`, `put(FLASH_CRC, ..)` — with the `u32`
subtractions, slice bounds, `copy_from_slice` length check, index panics of the map and a failing `put` as error
outcomes. On every well-formed map it agrees with `bootCrc` used by `post`: it refuses exactly when `bootCrc`
does, otherwise yields the same segment list, and no other outcome occurs. -/
theorem boot_step_is_map_step (m : List Seg) (hn : Norm m) :
    bootMap m = match bootCrc m with
      | .ok m1 => .ok m1
      | .error _ => .error .refuse :=
  bootMap_eq m ((norm_iff_minv m).mp hn)

/-- C18.e  **The padding loop replayed on the `MemoryMap` model.** `padMap` (Model/TriasPad.lean) is the Rust
loop statement by statement on the C15 model — `find(0, Above)`, `find(prev + 1, Above)` (binary search),
`assert_eq!(put(.., &BLANK_PAGE[..n]), Ok(n))` (merge walk), `prev = range.get_last()` — with the asserts, a
panic of `find` and the model's iteration bound as error outcomes. On every well-formed map it returns exactly
the list recursion `padAll` used by `post`; in particular none of the three `assert_eq!` can fire. -/
theorem pad_loop_is_map_loop (m : List Seg) (hn : Norm m) : padMap m = .ok (padAll m) :=
  padMap_eq m ((norm_iff_minv m).mp hn)

example : padMap [(0x10000005, [1]), (0x10000105, [2]), (0x10000110, [3]), (0x10000205, [4])] =
    .ok [(0x10000000, [0, 0, 0, 0, 0, 1]), (0x10000100, [0, 0, 0, 0, 0, 2, 0, 0, 0, 0, 0, 0, 0, 0, 0, 0, 3]),
      (0x10000200, [0, 0, 0, 0, 0, 4])] := by rfl

/-- C18.d  An empty image produces no file. -/
theorem empty_refused : post [] = .error .empty := rfl

/-! ### non-vacuity -/

/-- a boot-sector program and a second region: the file has two blocks -/
example : (match post [(0x10000000, [1, 2, 3]), (0x20000010, [4])] with
    | .ok f => f.length == 1024 | .error _ => false) = true := by decide +kernel
example : Norm [(0x10000000, [1, 2, 3]), (0x20000010, [4])] := by
  refine ⟨by decide, by decide, by decide, by decide⟩
example : (lookup [(0x10000000, [1, 2, 3]), (0x20000010, [4])] 0x10000000).isSome = true := rfl
example : post [(0x10000000, [1]), (0x100000FD, [2])] = .error .crcOverwrite :=
  boot_crc_refuses _ rfl 1 (by decide) rfl

end Trion.Trias
