import TrionModel.Lemmas.SimpSound7
/-!
# C08 — an expression's value does not depend on when its symbols become known

Property theorems only (helper lemmas: `Lemmas/SimpInv.lean`, `Lemmas/SimpSound*.lean`).

Model: `Trion.Simp.neutralizeRaw / neutralize / simplifyRaw / simplify / evaluate`
(`Model/Simp.lean`), mirroring `src/asm/simplify/mod.rs` and `eval.rs` as they are now (with the
repairs F15 merge arms for `& | ^`, F16 no neutral element for `%`, F17 modulo collapse by magnitude).
-/
namespace Trion.Simp
open Trion

/-! ## never a panic -/

/-- C08.a  `simplify` never panics: neither `assert!(.., "missed simplification ..")` of `search`
can fire, for any tree (all 18 node kinds, any nesting). -/
theorem simp_no_panic (a : Arg) : simplify a ≠ .panic := (simplify_inv_both.1 a).1

/-- C08.a'  `evaluate` never panics, for any constant table and register predicate. -/
theorem eval_no_panic (lk : Bytes → Lookup) (isReg : Bytes → Bool) (a : Arg) :
    evaluate lk isReg a ≠ .panic := ((evaluate_inv_both lk isReg).1 a).1

/-- C08.b  (`chain_one_const`, in the form the `assert!`s need)  Every tree that `simplify` or
`evaluate` returns satisfies `nb`: no binary node has two constant operands and no negation has a
constant operand — at every depth, inside addresses, sequences and function arguments as well.  Hence
in every operator chain `search` walks, the node it stops at holds exactly one constant. -/
theorem chain_one_const (a : Arg) (c : Bool) (a' : Arg) (h : simplify a = .ok (c, a')) : nb a' = true :=
  (simplify_inv_both.1 a).2 c a' h

theorem chain_one_const_eval (lk : Bytes → Lookup) (isReg : Bytes → Bool) (a : Arg) (ev : Ev) (a' : Arg)
    (h : evaluate lk isReg a = .ok (ev, a')) : nb a' = true :=
  ((evaluate_inv_both lk isReg).1 a).2 ev a' h

/-- C08.b'  … and on such a tree `search` cannot hit its `assert!`, whatever family and inversion. -/
theorem search_no_assert (a : Arg) (h : nb a = true) (ty : BinOp) (i : Bool) : findC ty a i ≠ .panic :=
  findC_ne_panic ty a h i

/-- the invariant is what the asserts need and not more: a tree with a two-constant node makes `search`
panic (this is what a missing merge arm or a skipped child simplification would cause) -/
example : findC .add (.bin .add (.bin .add (.const 1) (.const 2)) (.ident [120])) false = .panic := rfl

/-- non-vacuity: a tree on which both `search` calls find a constant and the merge fires -/
example :
    simplify (.bin .sub (.bin .add (.ident [120]) (.const 2)) (.bin .sub (.ident [121]) (.const 3)))
      = .ok (true, .bin .sub (.bin .add (.ident [120]) (.const 5)) (.ident [121])) := rfl

/-! ## the value does not depend on the order

`valZ ρ a` is the value of `a` over the ideal integers (exact `+ - *`, truncating `/ %`, machine
bit operators on `i64` operands); `valC ρ a` is the checked value: what the code computes when every
identifier is replaced by its value first — `none` as soon as a leaf or an intermediate result is not an
`i64`, a divisor is zero or a shift count is outside `0..63` (theorem `evaluate_const_valC` below ties
it to `evaluate`; C07 ties it to the arithmetic specification). -/

/-- C08.c  `simplify` preserves the ideal value of every expression that has one: every rewrite
(neutral elements, `±` normalisation, negation push-down, modulo collapse, direct folding, and the
merge of two constants across an additive, multiplicative, division or bitwise chain followed by the
deep re-neutralisation) is an identity over the integers. -/
theorem simp_sound_ideal (ρ : Env) (a : Arg) (c : Bool) (a' : Arg) (v : Int)
    (h : simplify a = .ok (c, a')) (hv : valZ ρ a = some v) : valZ ρ a' = some v :=
  simplify_val ρ a c a' v h hv

/-- C08.d  (`simp_sound`)  Simplifying first and substituting later gives the same value as substituting
everything first, whenever both produce a value — for every tree, every environment. -/
theorem simp_sound (ρ : Env) (a : Arg) (c : Bool) (a' : Arg) (v w : Int)
    (h : simplify a = .ok (c, a')) (hv : valC ρ a = some v) (hw : valC ρ a' = some w) : v = w := by
  have h1 := simplify_val ρ a c a' v h (valC_sub_valZ ρ a hv)
  have h2 := valC_sub_valZ ρ a' hw
  rw [h1] at h2; exact Option.some.inj h2

/-- C08.e  The same for partial evaluation: `evaluate` with a table that knows only some of the names
(the others deferred or registers) preserves the value under every completion `ρ` of the table. -/
theorem eval_sound (lk : Bytes → Lookup) (isReg : Bytes → Bool) (ρ : Env) (hρ : consistent lk isReg ρ)
    (a : Arg) (ev : Ev) (a' : Arg) (v w : Int)
    (h : evaluate lk isReg a = .ok (ev, a')) (hv : valC ρ a = some v) (hw : valC ρ a' = some w) : v = w := by
  have h1 := evaluate_val lk isReg ρ hρ a ev a' v h (valC_sub_valZ ρ a hv)
  have h2 := valC_sub_valZ ρ a' hw
  rw [h1] at h2; exact Option.some.inj h2

/-- C08.f  (`eval_commutes`)  Evaluate `a` while only the table `lk₁` is known, later evaluate the
residual tree with `lk₂`: if that yields the number `v`, and evaluating `a` directly with a table
`lk` that contains both yields the number `w`, then `v = w`. -/
theorem eval_commutes (lk₁ lk₂ lk : Bytes → Lookup) (isReg : Bytes → Bool)
    (h₁ : ∀ s v, lk₁ s = .found v → lk s = .found v) (h₂ : ∀ s v, lk₂ s = .found v → lk s = .found v)
    (hT : tableOk lk) (a : Arg) (hlit : litsOk a = true)
    (ev₁ ev₂ ev : Ev) (a₁ : Arg) (v w : Int)
    (e₁ : evaluate lk₁ isReg a = .ok (ev₁, a₁))
    (e₂ : evaluate lk₂ isReg a₁ = .ok (ev₂, .const v))
    (e : evaluate lk isReg a = .ok (ev, .const w)) : v = w := by
  have hc := evaluate_const_valC lk isReg (envOf lk) (consistent_of_sub isReg (fun _ _ h => h)) hT a ev w hlit e
  have hz := valC_sub_valZ _ a hc
  have hz1 := evaluate_val lk₁ isReg (envOf lk) (consistent_of_sub isReg h₁) a ev₁ a₁ w e₁ hz
  have hz2 := evaluate_val lk₂ isReg (envOf lk) (consistent_of_sub isReg h₂) a₁ ev₂ (.const v) w e₂ hz1
  simpa [valZ] using hz2

/-- C08.g  The instruction-operand path: `simplify` at parse time (nothing known), `evaluate` later. -/
theorem simp_then_eval (lk : Bytes → Lookup) (isReg : Bytes → Bool) (hT : tableOk lk)
    (a : Arg) (hlit : litsOk a = true) (c : Bool) (ev₂ ev : Ev) (a₁ : Arg) (v w : Int)
    (e₁ : simplify a = .ok (c, a₁))
    (e₂ : evaluate lk isReg a₁ = .ok (ev₂, .const v))
    (e : evaluate lk isReg a = .ok (ev, .const w)) : v = w := by
  have hcons := consistent_of_sub (lk := lk) (lk' := lk) isReg (fun _ _ h => h)
  have hc := evaluate_const_valC lk isReg (envOf lk) hcons hT a ev w hlit e
  have hz := valC_sub_valZ _ a hc
  have hz1 := simplify_val (envOf lk) a c a₁ w e₁ hz
  have hz2 := evaluate_val lk isReg (envOf lk) hcons a₁ ev₂ (.const v) w e₂ hz1
  simpa [valZ] using hz2

/-- C08.h  What "produce a value" means: a constant delivered by `evaluate` is the checked value of the
expression under the table's environment. -/
theorem eval_const_is_value (lk : Bytes → Lookup) (isReg : Bytes → Bool) (hT : tableOk lk)
    (a : Arg) (hlit : litsOk a = true) (ev : Ev) (w : Int)
    (e : evaluate lk isReg a = .ok (ev, .const w)) : valC (envOf lk) a = some w :=
  evaluate_const_valC lk isReg (envOf lk) (consistent_of_sub isReg (fun _ _ h => h)) hT a ev w hlit e

/-- C08.i  Constants defined *below* the statement in the same file: the first `evaluate` stops with
`NoSuchVariable` and leaves a partly evaluated tree behind (`evaluateT … = .nosuch n a₁`; `evaluateT`
is `evaluate` plus that tree, theorem `evaluateT_is_evaluate`); the retry on that tree with the complete
table gives the same number as evaluating the original expression with the complete table. -/
theorem retry_commutes (lk₁ lk : Bytes → Lookup) (isReg : Bytes → Bool)
    (h₁ : ∀ s v, lk₁ s = .found v → lk s = .found v)
    (hT : tableOk lk) (a : Arg) (hlit : litsOk a = true)
    (n : Bytes) (ev₂ ev : Ev) (a₁ : Arg) (v w : Int)
    (e₁ : evaluateT lk₁ isReg a = .nosuch n a₁)
    (e₂ : evaluate lk isReg a₁ = .ok (ev₂, .const v))
    (e : evaluate lk isReg a = .ok (ev, .const w)) : v = w := by
  have hc := evaluate_const_valC lk isReg (envOf lk) (consistent_of_sub isReg (fun _ _ h => h)) hT a ev w hlit e
  have hz := valC_sub_valZ _ a hc
  have hz1 := evaluateT_nosuch_val lk₁ isReg (envOf lk) (consistent_of_sub isReg h₁) a n a₁ w e₁ hz
  have hz2 := evaluate_val lk isReg (envOf lk) (consistent_of_sub isReg (fun _ _ h => h)) a₁ ev₂ (.const v) w e₂ hz1
  simpa [valZ] using hz2

theorem evaluateT_is_evaluate (lk : Bytes → Lookup) (isReg : Bytes → Bool) (a : Arg) :
    (evaluateT lk isReg a).toERes = evaluate lk isReg a := (evaluateT_proj_both lk isReg).1 a

/-! ### non-vacuity and the historic witnesses -/

def exX : Arg := .ident [120]
def exTblX (v : Int) : Bytes → Lookup := fun s => if s = [120] then .found v else .notFound
def exTblDefer : Bytes → Lookup := fun s => if s = [120] then .deferred else .notFound

/-- `eval_commutes` is exercised: `(x + 2) - (x - 3)` deferred, then `x = 10`, against direct evaluation -/
example :
    evaluate exTblDefer (fun _ => false) (.bin .sub (.bin .add exX (.const 2)) (.bin .sub exX (.const 3)))
      = .ok (⟨true, some [120]⟩, .bin .sub (.bin .add exX (.const 5)) exX) ∧
    evaluate (exTblX 10) (fun _ => false) (.bin .sub (.bin .add exX (.const 5)) exX) = .ok (⟨true, none⟩, .const 5) ∧
    evaluate (exTblX 10) (fun _ => false) (.bin .sub (.bin .add exX (.const 2)) (.bin .sub exX (.const 3)))
      = .ok (⟨true, none⟩, .const 5) := ⟨rfl, rfl, rfl⟩

/-- `retry_commutes` is exercised: `(2 + 3) * y + x` with only `y` known stops at `x` with `5 * y ↦ 20` done -/
example :
    evaluateT (fun s => if s = [121] then .found 4 else .notFound) (fun _ => false)
      (.bin .add (.bin .mul (.bin .add (.const 2) (.const 3)) (.ident [121])) exX)
      = .nosuch [120] (.bin .add (.const 20) exX) := rfl

/-- F16 (repaired): `x % 1` is no longer rewritten to `x`; both orders give 0 for `x = 7` -/
example :
    simplify (.bin .mod exX (.const 1)) = .ok (false, .bin .mod exX (.const 1)) ∧
    evaluate (exTblX 7) (fun _ => false) (.bin .mod exX (.const 1)) = .ok (⟨true, none⟩, .const 0) := ⟨rfl, rfl⟩

/-- F17 (repaired): `(x % -5) % 3` is not collapsed (|−5| > |3|), `(x % 10) % 11` still is -/
example :
    simplify (.bin .mod (.bin .mod exX (.const (-5))) (.const 3))
      = .ok (false, .bin .mod (.bin .mod exX (.const (-5))) (.const 3)) ∧
    simplify (.bin .mod (.bin .mod exX (.const 10)) (.const 11)) = .ok (true, .bin .mod exX (.const 10)) ∧
    evaluate (exTblX 4) (fun _ => false) (.bin .mod (.bin .mod exX (.const (-5))) (.const 3))
      = .ok (⟨true, none⟩, .const 1) := ⟨rfl, rfl, rfl⟩

/-- F15 (repaired): the bitwise merge arms exist -/
example :
    simplify (.bin .bor (.bin .bor exX (.const 3)) (.const 4)) = .ok (true, .bin .bor exX (.const 7)) ∧
    simplify (.bin .bxor (.bin .bxor exX (.const 3)) (.const 5)) = .ok (true, .bin .bxor exX (.const 6)) := ⟨rfl, rfl⟩

/-- the division spine: `(x / 3) / -2 ↦ x / -6`, `(100 / x) / 7 ↦ 14 / x` -/
example :
    simplify (.bin .div (.bin .div exX (.const 3)) (.const (-2))) = .ok (true, .bin .div exX (.const (-6))) ∧
    simplify (.bin .div (.bin .div (.const 100) exX) (.const 7)) = .ok (true, .bin .div (.const 14) exX) := ⟨rfl, rfl⟩

end Trion.Simp
