import TrionModel.Lemmas.SimpInv
/-!
# C08 — an expression's value does not depend on when its symbols become known

Property theorems only (helper lemmas: `Lemmas/SimpInv.lean`, `Lemmas/SimpSound*.lean`).

Model: `Trion.Simp.neutralizeRaw / neutralize / simplifyRaw / simplify / evaluate`
(`Model/Simp.lean`), mirroring `src/asm/simplify/mod.rs` and `eval.rs` as they are now (with the
repairs F15 merge arms for `& | ^`, F16 no neutral element for `%`, F17 modulo collapse by magnitude).
-/
namespace Trion.Simp
open Trion

/-! ## never a panic -/

/-- C08.a  `simplify` never panics: neither `assert!(.., "missed simplification ..")` of `search`
can fire, for any tree (all 18 node kinds, any nesting). -/
theorem simp_no_panic (a : Arg) : simplify a ≠ .panic := (simplify_inv_both.1 a).1

/-- C08.a'  `evaluate` never panics, for any constant table and register predicate. -/
theorem eval_no_panic (lk : Bytes → Lookup) (isReg : Bytes → Bool) (a : Arg) :
    evaluate lk isReg a ≠ .panic := ((evaluate_inv_both lk isReg).1 a).1

/-- C08.b  (`chain_one_const`, in the form the `assert!`s need)  Every tree that `simplify` or
`evaluate` returns satisfies `nb`: no binary node has two constant operands and no negation has a
constant operand — at every depth, inside addresses, sequences and function arguments as well.  Hence
in every operator chain `search` walks, the node it stops at holds exactly one constant. -/
theorem chain_one_const (a : Arg) (c : Bool) (a' : Arg) (h : simplify a = .ok (c, a')) : nb a' = true :=
  (simplify_inv_both.1 a).2 c a' h

theorem chain_one_const_eval (lk : Bytes → Lookup) (isReg : Bytes → Bool) (a : Arg) (ev : Ev) (a' : Arg)
    (h : evaluate lk isReg a = .ok (ev, a')) : nb a' = true :=
  ((evaluate_inv_both lk isReg).1 a).2 ev a' h

/-- C08.b'  … and on such a tree `search` cannot hit its `assert!`, whatever family and inversion. -/
theorem search_no_assert (a : Arg) (h : nb a = true) (ty : BinOp) (i : Bool) : findC ty a i ≠ .panic :=
  findC_ne_panic ty a h i

/-- the invariant is what the asserts need and not more: a tree with a two-constant node makes `search`
panic (this is what a missing merge arm or a skipped child simplification would cause) -/
example : findC .add (.bin .add (.bin .add (.const 1) (.const 2)) (.ident [120])) false = .panic := rfl

/-- non-vacuity: a tree on which both `search` calls find a constant and the merge fires -/
example :
    simplify (.bin .sub (.bin .add (.ident [120]) (.const 2)) (.bin .sub (.ident [121]) (.const 3)))
      = .ok (true, .bin .sub (.bin .add (.ident [120]) (.const 5)) (.ident [121])) := rfl

end Trion.Simp
