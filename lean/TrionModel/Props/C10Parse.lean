import TrionModel.Lemmas.ParseAll
import TrionModel.Lemmas.ParseIterAll
import TrionModel.Props.C10
/-!
# C10 (parser clauses) — the parser is total on whatever the tokenizer yields

`Parse.all lo` models iterating `Parser::new(bytes)` to exhaustion, where `lo : LexOut` is what the
tokenizer yields on `bytes` (ok tokens, optional terminating error, final position). These theorems
hold for **every** `lo`, well-formed or not; composed with the lexer theorems (`Lex.tokens bs` is a
`LexOut`) they give the parser half of C10.
-/
namespace Trion.Parse

/-- C10.parse_total  The `panic!("encountered operator … in group …")` of `parse_binary` is never reached,
and the model's fuel never runs out: for every token stream the parser run ends in a list of elements
and at most one error. -/
theorem parse_total (lo : LexOut) : all lo ≠ .panic ∧ all lo ≠ .fuel :=
  ⟨allLoop_ne_panic lo _ _, allLoop_ne_fuel lo _ _ (Nat.lt_succ_self _)⟩

/-- C10.parse_shape  What the parser yields is a finite list of ok elements followed by at most one
error, after which nothing is produced (in the model this is the shape of `Outcome.done`; the
correspondence run checks on the real `Parser` that `next()` keeps returning `None` after the error
and after the end). This is the batch view; the iterator itself — its state after an error included —
is `next_shape` / `next_refines_all` below. -/
theorem parse_shape (lo : LexOut) : ∃ els err, all lo = .done els err := by
  have h := parse_total lo
  cases hall : all lo with
  | done els err => exact ⟨els, err, rfl⟩
  | panic => exact absurd hall h.1
  | fuel => exact absurd hall h.2

/-- C10.parse_sees_lex_error  The parser never reports success for a text the tokenizer rejects: if the
token stream ends in a tokenizer error, the parser run ends in an error. -/
theorem parse_sees_lex_error (lo : LexOut) (e : LexErr) (he : lo.err = some e) :
    ∃ els pe, all lo = .done els (some pe) := by
  obtain ⟨els, err, h⟩ := parse_shape lo
  cases err with
  | some pe => exact ⟨els, pe, h⟩
  | none =>
    have := allLoop_done_none lo _ _ _ h
    rw [he] at this
    cases this

/-- non-vacuity: a stream whose only content is a tokenizer error yields exactly that error -/
example : ∃ pe, all ⟨[], some ⟨1, 1, .badString⟩, 1, 1⟩ = .done [] (some pe) := ⟨_, rfl⟩
/-- non-vacuity: `x :` is a label -/
example : ∃ el, all ⟨[⟨1, 1, .ident [120]⟩, ⟨1, 3, .labelMark⟩], none, 1, 4⟩ = .done [el] none := ⟨_, rfl⟩

/-! ## The iterator, call by call

`Parse.next` (`Model/ParseIter.lean`) is `impl Iterator for Parser { fn next }` on the tokenizer state
with its look-ahead queue and pending error; after an error it does what the code does since fix F23:
`clear()` — which leaves the look-ahead in place — and then the drain loop. `calls n s` are the results of
`n` successive calls (`none` = `None`) and the state afterwards; it is `none` if a call panics. -/

/-- C10.next_refines_all  The items produced by calling `next()` repeatedly on `Parser::new(bytes)` are
exactly `Parse.all`'s elements in order, then its error if there is one, and from then on `None` —
for ANY number `k` of further calls — and the tokenizer inside ends up with nothing left (empty
look-ahead, no pending error, no text). So every theorem about `Parse.all` (C09 round trips, C12
positions, `parse_total`, `parse_sees_lex_error`) is a theorem about the iterator. -/
theorem next_refines_all (lo : LexOut) (els : List Element) (err : Option ParseErr) (h : all lo = .done els err)
    (k : Nat) :
    ∃ sf, sf.finished ∧ calls (els.length + 1 + k) (TState.init lo) =
      some (els.map (fun e => some (.ok e)) ++ [err.map .error] ++ List.replicate k none, sf) :=
  calls_allLoop lo k _ _ _ els err (rel_init lo) h

/-- C10.next_total (no panic)  No call of `next()` panics — neither the operator-group `panic!` nor the
`self.0.next().unwrap().unwrap_err()` sites after a peeked error — and the model's fuel never runs out:
for every token stream and every number of calls, `calls` has a value. -/
theorem next_total (lo : LexOut) (n : Nat) : ∃ items s, calls n (TState.init lo) = some (items, s) := by
  obtain ⟨els, err, h⟩ := parse_shape lo
  obtain ⟨sf, _, hc⟩ := next_refines_all lo els err h n
  rw [show els.length + 1 + n = n + (els.length + 1) by omega] at hc
  obtain ⟨s', hs'⟩ := calls_prefix hc
  exact ⟨_, s', hs'⟩

/-- C10.next_total (termination measure)  From every state a run can reach, one call either yields an
item and strictly decreases the number of items the tokenizer can still produce (`TState.size`), or
yields `None`, on a tokenizer that has nothing left, and changes nothing. It never panics. -/
theorem next_progress_reach (lo : LexOut) (s : TState) (h : Reach lo s) :
    match next s with
    | .item _ s' => Reach lo s' ∧ s'.size < s.size
    | .done s' => s' = s ∧ s.finished
    | .panic => False
    | .fuel => False := next_progress h

/-- … and the initial state of a parser is reachable -/
theorem reach_new (lo : LexOut) : Reach lo (TState.init lo) := reach_init lo

/-- C10.next_total on arbitrary bytes: the tokenizer run on any byte string is a `LexOut` (`lex_total`),
and on it no number of parser calls panics. -/
theorem next_total_bytes (bs : Bytes) :
    ∃ o, Lex.tokens bs = .ok o ∧ ∀ n, ∃ items s, calls n (TState.init o) = some (items, s) := by
  obtain ⟨o, ho⟩ := Lex.lex_total bs
  exact ⟨o, ho, fun n => next_total o n⟩

/-- C10.next_shape  In the sequence of results of any number `n` of `next()` calls: once a call has
returned something other than `Some(Ok(_))` — an error or `None` — every later call returns `None`.
Hence at most one item is an error, it is the last item, and after an error or the end nothing further
is produced. -/
theorem next_shape (lo : LexOut) (n : Nat) (items : List (Option (Except ParseErr Element))) (s : TState)
    (h : calls n (TState.init lo) = some (items, s)) (i j : Nat) (hij : i < j) (hj : j < items.length)
    (hi : ∀ el, items[i]? ≠ some (some (.ok el))) : items[j]? = some none := by
  obtain ⟨els, err, hall⟩ := parse_shape lo
  obtain ⟨sf, _, hc⟩ := next_refines_all lo els err hall n
  rw [show els.length + 1 + n = n + (els.length + 1) by omega] at hc
  obtain ⟨s', hs'⟩ := calls_prefix hc
  rw [h] at hs'
  simp only [Option.some.injEq, Prod.mk.injEq] at hs'
  have hitems := hs'.1
  have hlen : items.length ≤ n := by rw [hitems]; simp [List.length_take]; omega
  -- `i` is not among the ok elements
  have hige : els.length ≤ i := by
    apply Nat.le_of_not_lt
    intro hlt
    apply hi els[i]
    rw [hitems, List.getElem?_take]
    simp only [show i < n by omega, if_true]
    rw [List.append_assoc, List.getElem?_append_left (by simpa using hlt)]
    simp [hlt]
  rw [hitems, List.getElem?_take]
  simp only [show j < n by omega, if_true]
  rw [List.getElem?_append_right (by simp; omega)]
  have hjn : j - (els.length + 1) < n := by omega
  simp [hjn]

/-- C10.next_sees_lex_error  The iterator never reports success for a text the tokenizer rejects: if the
token stream ends in a tokenizer error, the calls yield some elements, then an error, then `None` for
ever. -/
theorem next_sees_lex_error (lo : LexOut) (e : LexErr) (he : lo.err = some e) :
    ∃ (els : List Element) (pe : ParseErr), ∀ k, ∃ sf, sf.finished ∧ calls (els.length + 1 + k) (TState.init lo) =
      some (els.map (fun e => some (.ok e)) ++ [some (.error pe)] ++ List.replicate k none, sf) := by
  obtain ⟨els, pe, h⟩ := parse_sees_lex_error lo e he
  exact ⟨els, pe, fun k => next_refines_all lo els (some pe) h k⟩

/-! ### non-vacuity, and why the shape is not true by construction -/

/-- `a b c ;` — the statement `a b` fails at `c` (`expected <operator>, got identifier`) while `c` sits in
the look-ahead queue: `clear()` alone leaves it there (the defect F23: the next call would have parsed
`c ;` as a statement) … -/
example : ∃ e s2,
    doNextS (.ok ⟨1, 1, .ident [97]⟩)
      ⟨[], none, [⟨1, 3, .ident [98]⟩, ⟨1, 5, .ident [99]⟩, ⟨1, 6, .term⟩], none, 1, 7⟩ = .err e s2 ∧
    s2.clear.queue = [⟨1, 5, .ident [99]⟩] ∧ s2.clear ≠ ⟨[], none, [], none, 1, 7⟩ :=
  ⟨_, _, rfl, rfl, by decide⟩

/-- … and the drain loop is what empties it: three calls yield the error and then `None`, `None`. -/
example : ∃ e, calls 3 (TState.init ⟨[⟨1, 1, .ident [97]⟩, ⟨1, 3, .ident [98]⟩, ⟨1, 5, .ident [99]⟩, ⟨1, 6, .term⟩], none, 1, 7⟩) =
    some ([some (.error e), none, none], ⟨[], none, [], none, 1, 7⟩) := ⟨_, rfl⟩

/-- two statements and the end: `x : N ;` -/
example : ∃ e1 e2, calls 4 (TState.init ⟨[⟨1, 1, .ident [120]⟩, ⟨1, 3, .labelMark⟩, ⟨2, 5, .ident [78]⟩, ⟨2, 6, .term⟩], none, 2, 7⟩) =
    some ([some (.ok e1), some (.ok e2), none, none], ⟨[], none, [], none, 2, 7⟩) := ⟨_, _, rfl⟩

end Trion.Parse
