import TrionModel.Lemmas.ParseAll
/-!
# C10 (parser clauses) — the parser is total on whatever the tokenizer yields

`Parse.all lo` models iterating `Parser::new(bytes)` to exhaustion, where `lo : LexOut` is what the
tokenizer yields on `bytes` (ok tokens, optional terminating error, final position). These theorems
hold for **every** `lo`, well-formed or not; composed with the lexer theorems (`Lex.tokens bs` is a
`LexOut`) they give the parser half of C10.
-/
namespace Trion.Parse

/-- C10.parse_total  The `panic!("encountered operator … in group …")` of `parse_binary` is never reached,
and the model's fuel never runs out: for every token stream the parser run ends in a list of elements
and at most one error. -/
theorem parse_total (lo : LexOut) : all lo ≠ .panic ∧ all lo ≠ .fuel :=
  ⟨allLoop_ne_panic lo _ _, allLoop_ne_fuel lo _ _ (Nat.lt_succ_self _)⟩

/-- C10.parse_shape  What the parser yields is a finite list of ok elements followed by at most one
error, after which nothing is produced (in the model this is the shape of `Outcome.done`; the
correspondence run checks on the real `Parser` that `next()` keeps returning `None` after the error
and after the end). -/
theorem parse_shape (lo : LexOut) : ∃ els err, all lo = .done els err := by
  have h := parse_total lo
  cases hall : all lo with
  | done els err => exact ⟨els, err, rfl⟩
  | panic => exact absurd hall h.1
  | fuel => exact absurd hall h.2

/-- C10.parse_sees_lex_error  The parser never reports success for a text the tokenizer rejects: if the
token stream ends in a tokenizer error, the parser run ends in an error. -/
theorem parse_sees_lex_error (lo : LexOut) (e : LexErr) (he : lo.err = some e) :
    ∃ els pe, all lo = .done els (some pe) := by
  obtain ⟨els, err, h⟩ := parse_shape lo
  cases err with
  | some pe => exact ⟨els, pe, h⟩
  | none =>
    have := allLoop_done_none lo _ _ _ h
    rw [he] at this
    cases this

/-- non-vacuity: a stream whose only content is a tokenizer error yields exactly that error -/
example : ∃ pe, all ⟨[], some ⟨1, 1, .badString⟩, 1, 1⟩ = .done [] (some pe) := ⟨_, rfl⟩
/-- non-vacuity: `x :` is a label -/
example : ∃ el, all ⟨[⟨1, 1, .ident [120]⟩, ⟨1, 3, .labelMark⟩], none, 1, 4⟩ = .done [el] none := ⟨_, rfl⟩

end Trion.Parse
