import TrionModel.Lemmas.AsmHist
import TrionModel.Lemmas.AsmEnc
import TrionModel.Props.C13
import TrionModel.Props.C14Asm
/-!
# C13 on whole programs — every region operation `Asm.run` issues is legal

Props/C13.lean proves the property (regions never overlap or overflow silently; a deferred rewrite lands exactly on its
placeholder) about `Seg.step` on LEGAL histories (`Seg.Legal`: every operation well-formed in the state it is issued in —
addresses `u32`, alignments positive, a rewrite only of a statement that was placed, with the length it was placed with).
The property itself quantifies over PROGRAMS.  This file states the bridge as a theorem about the whole-pipeline model:

* `run_trace`, `bodyStates_traced`, `refused_keeps_image` (below): the legal history tied to the states the run actually passes
  through (after every statement of every file, after the main file, after `close_segment`, after `finalize`), with the
  refused operations accounted for by recorded diagnostics; the model does not log its operations, so between two consecutive
  observable states the history is existential (but compared on the WHOLE region state including the placed-statement list);
* `run_ops_legal` (REACHABILITY only — its `ops` is related to the run through the final map alone): for EVERY project and EVERY finished run (`Asm.run fs main = .done o`, successful or not, any include
  tree, any mix of `.global/.import/.export`), the regions went through a history `ops` of `Seg` operations from the empty
  state with `Seg.Legal Seg.init ops`, no operation panicked, the region invariant holds at the end, and the output image
  is the map of the state the history ends in.  In particular every rewrite the task queues issued targeted a pending
  placeholder of equal length (`Op.wf` of `.rewrite`), so all theorems of Props/C13.lean apply to the regions of every run.
  (The underlying lemmas — `segOp_safe`, `writeStmt_safe`, `Good`, `Ext/Traced` of Lemmas/AsmBase.lean, AsmPrim.lean,
  AsmFile.lean — carry the history through every statement, task, loop and file; `Asm.run_history` is the successful case.)
* `run_close_never_fails`: `close_segment` of a finished run never reports an error (`o.closeErr = none`): under the
  region invariant the buffer of the active region lands on free addresses only.
-/
namespace Trion.Asm
open Trion

/-- a recorded history is a legal sequence of operations, and replaying it gives the final state -/
theorem path_legal {s s' : Seg.State} {tr : List (Seg.Op × Seg.Out)} (hp : Path s tr s') :
    Seg.Legal s (tr.map Prod.fst) ∧ Seg.run s (tr.map Prod.fst) = s' ∧ Seg.outs s (tr.map Prod.fst) = tr.map Prod.snd ∧
      (Seg.Inv s → Seg.Inv s') := by
  induction hp with
  | nil s => exact ⟨trivial, rfl, rfl, fun h => h⟩
  | @cons s s1 s' op o tr inv wf hs hnp _ ih =>
    obtain ⟨i1, i2, i3, i4⟩ := ih
    have e1 : (Seg.step s op).1 = s1 := by rw [hs]
    have e2 : (Seg.step s op).2 = o := by rw [hs]
    refine ⟨⟨wf, by rw [e1]; exact i1⟩, ?_, ?_, fun _ => i4 ?_⟩
    · simp only [List.map_cons, Seg.run_cons, e1]; exact i2
    · simp only [List.map_cons, Seg.outs, e1, e2, i3]
    · have := (Seg.legal_step inv op wf).2
      rw [e1] at this; exact this

/-- the history of ANY finished run (successful or not) -/
theorem run_path {enc : Encoder} (henc : EncLen enc) (fs : Bytes → Option Bytes) (main : Bytes) (o : Outcome)
    (h : runWith enc fs main = .done o) :
    ∃ (tr : List (Seg.Op × Seg.Out)) (s' : Seg.State), Path Seg.init tr s' ∧ s'.map = o.image ∧ o.closeErr = none := by
  unfold runWith at h
  split at h
  · cases h
  · rename_i data _
    have af := assembleFile_safe henc fs maxDepth false Env.init St.init data main good_init
    split at h
    · rename_i st res ha
      obtain ⟨g, e⟩ := af.2 _ _ ha
      obtain ⟨tr1, p1, c1⟩ := e.2.2
      have hcs := Seg.close_spec g.inv
      split at h
      · rename_i s1 e1 hcl
        rw [hcl] at hcs; cases hcs.1
      · rename_i hcl
        rw [hcl] at hcs; cases hcs.1
      · rename_i s1 o1 hnd hnp hcl
        have hclose : Seg.step st.seg .close = (s1, o1) := hcl
        rw [hcl] at hcs
        simp only at hcs
        have g' : Good false { st with seg := s1 } := good_setSeg g hcs.2.1 (by rw [hcs.2.2.2.2]; exact fun _ x => x)
        split at h
        · rename_i st' fin hf
          cases h
          obtain ⟨tr2, p2, c2⟩ := finalize_traced henc g' hf
          have pclose : Path st.seg [(.close, o1)] s1 :=
            .cons g.inv trivial hclose (by rw [hcs.1]; simp) (.nil _)
          exact ⟨tr1 ++ [(Seg.Op.close, o1)] ++ tr2, st'.seg, (show Path Seg.init _ _ from (p1.append pclose).append p2), rfl, rfl⟩
        all_goals cases h
    all_goals cases h

/-! ## the history is tied to the states the run actually passes through

`run_ops_legal` alone says that the image is LEGALLY REACHABLE (its `ops` is existential and related to the run only through
the final map).  What the invariant proofs of C06 carry is more: every function of the model, run from a good state, ends in
a state whose regions are reached FROM ITS OWN START STATE by a legal history (`Traced`), and the whole `Seg.State` is
compared — including the ghost list `pending` of placed statements, so a `place` cannot be traded for an `append` — with
every refused operation accounted for by a recorded diagnostic (none on success).  The model does not log its operations, so
the history between two consecutive OBSERVABLE states stays existential; the theorems below fix the observable states:
the state after every statement of a file (`bodyStates`, a function of the run), after the main file, after
`close_segment`, after `finalize`. -/

theorem refused_state_append (s : Seg.State) (d : List UInt8) (e : Seg.Diag)
    (h : (Seg.step s (.append d)).2 = .diag e) : (Seg.step s (.append d)).1 = s := by
  simp only [Seg.step] at h ⊢
  cases ha : s.active with
  | none => simp [ha]
  | some seg =>
    simp only [ha] at h ⊢
    unfold Seg.Active.write at h ⊢
    cases hr : seg.remaining with
    | none => simp [hr] at h
    | some rem =>
      simp only [hr] at h ⊢
      by_cases hfit : d.length ≤ rem
      · simp [hfit] at h
      · simp only [hfit, if_false]
        cases s; simp_all

theorem refused_state_place (s : Seg.State) (d : List UInt8) (e : Seg.Diag)
    (h : (Seg.step s (.place d)).2 = .diag e) : (Seg.step s (.place d)).1 = s := by
  simp only [Seg.step] at h ⊢
  cases ha : s.active with
  | none => simp [ha]
  | some seg =>
    simp only [ha] at h ⊢
    unfold Seg.Active.write at h ⊢
    cases hr : seg.remaining with
    | none => simp [hr] at h
    | some rem =>
      simp only [hr] at h ⊢
      by_cases hfit : d.length ≤ rem
      · simp [hfit] at h
      · simp only [hfit, if_false]
        cases s; simp_all

theorem refused_state_align (s : Seg.State) (n : Nat) (e : Seg.Diag)
    (h : (Seg.step s (.align n)).2 = .diag e) : (Seg.step s (.align n)).1 = s := by
  simp only [Seg.step] at h ⊢
  cases ha : s.active with
  | none => simp [ha]
  | some seg =>
    simp only [ha] at h ⊢
    by_cases hoff : (seg.base + seg.buf.length) % n = 0
    · simp [hoff] at h
    · simp only [hoff, if_false] at h ⊢
      cases hr : seg.remaining with
      | none => simp [hr] at h
      | some rem =>
        simp only [hr] at h ⊢
        by_cases hfit : n - (seg.base + seg.buf.length) % n ≤ rem
        · simp only [hfit, if_true] at h ⊢
          unfold Seg.Active.write at h
          simp [hr, hfit] at h
        · simp [hfit]
/-- C13 (whole programs)  A refused operation changes nothing one can observe: the image (closed map and active buffer) and
the list of placed statements are as before.  (An append / place / align that does not fit leaves the whole state as it
was; `.addr` onto an occupied address does close the previous region first, as `change_segment` does — the image is the
same; `close` and a legal `rewrite` are never refused.) -/
theorem refused_keeps_image (s : Seg.State) (op : Seg.Op) (inv : Seg.Inv s) (wf : Seg.Op.wf s op) (e : Seg.Diag)
    (h : (Seg.step s op).2 = .diag e) : Seg.image (Seg.step s op).1 = Seg.image s ∧ (Seg.step s op).1.pending = s.pending := by
  cases op with
  | select a =>
    obtain ⟨_, h2, h3, _⟩ := Seg.select_spec inv a wf
    exact ⟨h2, h3⟩
  | close =>
    have := (Seg.close_spec inv).1
    have e' : (Seg.step s .close).2 = (Seg.closeSegment s).2 := rfl
    rw [e', this] at h; cases h
  | rewrite addr d =>
    have := (Seg.rewrite_spec inv addr d wf).1
    have e' : (Seg.step s (.rewrite addr d)).2 = (Seg.rewrite s addr d).2 := rfl
    rw [e', this] at h; cases h
  | append d => rw [refused_state_append s d e h]; exact ⟨rfl, rfl⟩
  | place d => rw [refused_state_place s d e h]; exact ⟨rfl, rfl⟩
  | align n => rw [refused_state_align s n e h]; exact ⟨rfl, rfl⟩

/-- C13 (whole programs)  The states a file passes through between its statements are linked by legal histories: for ANY file
activation (main file or included, any depth) started in a good state, each two consecutive entries of `bodyStates` — the
state before a statement and the state after it, whatever the statement did, a complete `.include` with everything the
included tree does included — are related by `Traced`: a legal history from the regions of the first to the regions of the
second (whole `Seg.State`), whose refused operations are covered by newly recorded diagnostics. -/
theorem bodyStates_traced_from {enc : Encoder} (henc : EncLen enc) {inc : Inc} (hinc : IncOk inc) {env : Env}
    (hb : env.paths.isEmpty = false) (fs : Bytes → Option Bytes) :
    ∀ (els : List Element) (st : St), Good true st → ∀ b ∈ bodyStates fs enc inc env els st, Traced st b := by
  intro els
  induction els with
  | nil => intro st _ b hb'; simp only [bodyStates, List.mem_singleton] at hb'; subst hb'; exact Traced.refl _
  | cons el els ih =>
    intro st g b hb'
    have safe := statement_safe henc hinc g hb fs el
    simp only [bodyStates, List.mem_cons] at hb'
    rcases hb' with rfl | hb'
    · exact Traced.refl _
    · cases hs : statement fs enc inc env st el with
      | stop r => rw [hs] at hb'; cases hb'
      | ok q =>
        obtain ⟨st1, r⟩ := q
        obtain ⟨g1, e1⟩ := safe.2 _ _ hs
        rw [hs] at hb'
        cases r with
        | ok => exact e1.2.2.trans (ih st1 g1 b hb')
        | err lv => simp only [List.mem_singleton] at hb'; subst hb'; exact e1.2.2

theorem bodyStates_traced {enc : Encoder} (henc : EncLen enc) {inc : Inc} (hinc : IncOk inc) {env : Env}
    (hb : env.paths.isEmpty = false) (fs : Bytes → Option Bytes) :
    ∀ (els : List Element) (st : St), Good true st → List.Pairwise Traced (bodyStates fs enc inc env els st) := by
  intro els
  induction els with
  | nil => intro st _; simp [bodyStates]
  | cons el els ih =>
    intro st g
    have hfrom := bodyStates_traced_from henc hinc hb fs (el :: els) st g
    simp only [bodyStates] at hfrom ⊢
    refine List.Pairwise.cons (fun b hb' => hfrom b (List.mem_cons_of_mem _ hb')) ?_
    have safe := statement_safe henc hinc g hb fs el
    cases hs : statement fs enc inc env st el with
    | stop r => simp
    | ok q =>
      obtain ⟨st1, r⟩ := q
      obtain ⟨g1, _⟩ := safe.2 _ _ hs
      cases r with
      | ok => exact ih st1 g1
      | err lv => simp

/-- C13 (whole programs)  **`run_trace`**: the history of a finished run, tied to the model's own intermediate states.  There are
the state `st` in which `Context::assemble` of the main file returned, a legal history `tr1` from the empty regions to
`st.seg` (whole state) whose refused operations number at most the diagnostics recorded; `close_segment` succeeded giving
`s1`; `finalize` ended in `st'` reached from `s1` by a legal history `tr2` with the same accounting; and the outcome `o` is
read off `st'`.  On a successful run NO operation of `tr1`, `tr2` was refused (`diags = 0`). -/
theorem run_trace (fs : Bytes → Option Bytes) (main data : Bytes) (hfs : fs main = some data) (o : Outcome)
    (h : run fs main = .done o) :
    ∃ (st st' : St) (res : Res) (fin : Bool) (s1 : Seg.State) (tr1 tr2 : List (Seg.Op × Seg.Out)),
      assembleFile fs encoder maxDepth Env.init St.init data main = .ok (st, res) ∧
      Path Seg.init tr1 st.seg ∧ diags tr1 ≤ st.errors.length ∧
      Seg.closeSegment st.seg = (s1, .ok) ∧
      finalize encoder Env.init { st with seg := s1 } = .ok (st', fin) ∧
      Path s1 tr2 st'.seg ∧ st.errors.length + diags tr2 ≤ st'.errors.length ∧
      o = ⟨res = .ok, none, fin, st'.errors.reverse, st'.seg.map⟩ ∧
      (o.success = true → diags tr1 = 0 ∧ diags tr2 = 0) := by
  have henc := encoder_len
  unfold run runWith at h
  rw [hfs] at h
  simp only at h
  have af := assembleFile_safe henc fs maxDepth false Env.init St.init data main good_init
  cases ha : assembleFile fs encoder maxDepth Env.init St.init data main with
  | stop r => rw [ha] at h; cases r <;> cases h
  | ok q =>
    obtain ⟨st, res⟩ := q
    rw [ha] at h
    simp only at h
    obtain ⟨g, e⟩ := af.2 _ _ ha
    obtain ⟨tr1, p1, c1⟩ := e.2.2
    have hcs := Seg.close_spec g.inv
    cases hcl : Seg.closeSegment st.seg with
    | mk s1 o1 =>
      rw [hcl] at hcs h
      simp only at hcs
      have ho1 : o1 = .ok := hcs.1
      subst ho1
      simp only at h
      have g' : Good false { st with seg := s1 } := good_setSeg g hcs.2.1 (by rw [hcs.2.2.2.2]; exact fun _ x => x)
      cases hf : finalize encoder Env.init { st with seg := s1 } with
      | stop r => rw [hf] at h; cases r <;> cases h
      | ok z =>
        obtain ⟨st', fin⟩ := z
        rw [hf] at h
        simp only [Result.done.injEq] at h
        obtain ⟨tr2, p2, c2⟩ := finalize_traced henc g' hf
        have c1' : diags tr1 ≤ st.errors.length := by simpa [St.init] using c1
        refine ⟨st, st', res, fin, s1, tr1, tr2, rfl, p1, c1', hcl, hf, p2, c2, h.symm, fun hs => ?_⟩
        subst h
        have hfin : fin = true := by simpa [Outcome.success] using hs
        have herr : st'.errors = [] := (finalize_grew hf).2.mp hfin
        rw [herr] at c2
        simp only [List.length_nil] at c2
        omega

/-- C13 (whole programs)  **`run_ops_legal`**: every region operation a finished run of the whole pipeline issued was legal.
There is a history `ops` with `Seg.Legal Seg.init ops` (in particular: every `.rewrite addr d` in it found `(addr, |d|)` among
the placed statements — a deferred value overwrites exactly its own placeholder), none of its outcomes is a panic, the
region invariant holds in the end state, and the output image is that state's map. -/
theorem run_ops_legal (fs : Bytes → Option Bytes) (main : Bytes) (o : Outcome) (h : run fs main = .done o) :
    ∃ ops : List Seg.Op, Seg.Legal Seg.init ops ∧ (∀ out ∈ Seg.outs Seg.init ops, out ≠ .panic) ∧
      Seg.Inv (Seg.run Seg.init ops) ∧ (Seg.run Seg.init ops).map = o.image := by
  obtain ⟨tr, s', hp, hm, _⟩ := run_path encoder_len fs main o h
  obtain ⟨l1, l2, _, l4⟩ := path_legal hp
  refine ⟨tr.map Prod.fst, l1, Seg.history_no_panic _ l1, ?_, ?_⟩
  · rw [l2]; exact l4 Seg.inv_init
  · rw [l2]; exact hm

/-- C13 (whole programs)  `close_segment` at the end of a finished run never fails -/
theorem run_close_never_fails (fs : Bytes → Option Bytes) (main : Bytes) (o : Outcome) (h : run fs main = .done o) :
    o.closeErr = none := by
  obtain ⟨_, _, _, _, hc⟩ := run_path encoder_len fs main o h
  exact hc

end Trion.Asm
