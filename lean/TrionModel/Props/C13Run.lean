import TrionModel.Lemmas.AsmHist
import TrionModel.Lemmas.AsmEnc
import TrionModel.Props.C13
/-!
# C13 on whole programs — every region operation `Asm.run` issues is legal

Props/C13.lean proves the property (regions never overlap or overflow silently; a deferred rewrite lands exactly on its
placeholder) about `Seg.step` on LEGAL histories (`Seg.Legal`: every operation well-formed in the state it is issued in —
addresses `u32`, alignments positive, a rewrite only of a statement that was placed, with the length it was placed with).
The property itself quantifies over PROGRAMS.  This file states the bridge as a theorem about the whole-pipeline model:

* `run_ops_legal`: for EVERY project and EVERY finished run (`Asm.run fs main = .done o`, successful or not, any include
  tree, any mix of `.global/.import/.export`), the regions went through a history `ops` of `Seg` operations from the empty
  state with `Seg.Legal Seg.init ops`, no operation panicked, the region invariant holds at the end, and the output image
  is the map of the state the history ends in.  In particular every rewrite the task queues issued targeted a pending
  placeholder of equal length (`Op.wf` of `.rewrite`), so all theorems of Props/C13.lean apply to the regions of every run.
  (The underlying lemmas — `segOp_safe`, `writeStmt_safe`, `Good`, `Ext/Traced` of Lemmas/AsmBase.lean, AsmPrim.lean,
  AsmFile.lean — carry the history through every statement, task, loop and file; `Asm.run_history` is the successful case.)
* `run_close_never_fails`: `close_segment` of a finished run never reports an error (`o.closeErr = none`): under the
  region invariant the buffer of the active region lands on free addresses only.
-/
namespace Trion.Asm
open Trion

/-- a recorded history is a legal sequence of operations, and replaying it gives the final state -/
theorem path_legal {s s' : Seg.State} {tr : List (Seg.Op × Seg.Out)} (hp : Path s tr s') :
    Seg.Legal s (tr.map Prod.fst) ∧ Seg.run s (tr.map Prod.fst) = s' ∧ Seg.outs s (tr.map Prod.fst) = tr.map Prod.snd ∧
      (Seg.Inv s → Seg.Inv s') := by
  induction hp with
  | nil s => exact ⟨trivial, rfl, rfl, fun h => h⟩
  | @cons s s1 s' op o tr inv wf hs hnp _ ih =>
    obtain ⟨i1, i2, i3, i4⟩ := ih
    have e1 : (Seg.step s op).1 = s1 := by rw [hs]
    have e2 : (Seg.step s op).2 = o := by rw [hs]
    refine ⟨⟨wf, by rw [e1]; exact i1⟩, ?_, ?_, fun _ => i4 ?_⟩
    · simp only [List.map_cons, Seg.run_cons, e1]; exact i2
    · simp only [List.map_cons, Seg.outs, e1, e2, i3]
    · have := (Seg.legal_step inv op wf).2
      rw [e1] at this; exact this

/-- the history of ANY finished run (successful or not) -/
theorem run_path {enc : Encoder} (henc : EncLen enc) (fs : Bytes → Option Bytes) (main : Bytes) (o : Outcome)
    (h : runWith enc fs main = .done o) :
    ∃ (tr : List (Seg.Op × Seg.Out)) (s' : Seg.State), Path Seg.init tr s' ∧ s'.map = o.image ∧ o.closeErr = none := by
  unfold runWith at h
  split at h
  · cases h
  · rename_i data _
    have af := assembleFile_safe henc fs maxDepth false Env.init St.init data main good_init
    split at h
    · rename_i st res ha
      obtain ⟨g, e⟩ := af.2 _ _ ha
      obtain ⟨tr1, p1, c1⟩ := e.2.2
      have hcs := Seg.close_spec g.inv
      split at h
      · rename_i s1 e1 hcl
        rw [hcl] at hcs; cases hcs.1
      · rename_i hcl
        rw [hcl] at hcs; cases hcs.1
      · rename_i s1 o1 hnd hnp hcl
        have hclose : Seg.step st.seg .close = (s1, o1) := hcl
        rw [hcl] at hcs
        simp only at hcs
        have g' : Good false { st with seg := s1 } := good_setSeg g hcs.2.1 (by rw [hcs.2.2.2.2]; exact fun _ x => x)
        split at h
        · rename_i st' fin hf
          cases h
          obtain ⟨tr2, p2, c2⟩ := finalize_traced henc g' hf
          have pclose : Path st.seg [(.close, o1)] s1 :=
            .cons g.inv trivial hclose (by rw [hcs.1]; simp) (.nil _)
          exact ⟨tr1 ++ [(Seg.Op.close, o1)] ++ tr2, st'.seg, (show Path Seg.init _ _ from (p1.append pclose).append p2), rfl, rfl⟩
        all_goals cases h
    all_goals cases h

/-- C13 (whole programs)  **`run_ops_legal`**: every region operation a finished run of the whole pipeline issued was legal.
There is a history `ops` with `Seg.Legal Seg.init ops` (in particular: every `.rewrite addr d` in it found `(addr, |d|)` among
the placed statements — a deferred value overwrites exactly its own placeholder), none of its outcomes is a panic, the
region invariant holds in the end state, and the output image is that state's map. -/
theorem run_ops_legal (fs : Bytes → Option Bytes) (main : Bytes) (o : Outcome) (h : run fs main = .done o) :
    ∃ ops : List Seg.Op, Seg.Legal Seg.init ops ∧ (∀ out ∈ Seg.outs Seg.init ops, out ≠ .panic) ∧
      Seg.Inv (Seg.run Seg.init ops) ∧ (Seg.run Seg.init ops).map = o.image := by
  obtain ⟨tr, s', hp, hm, _⟩ := run_path encoder_len fs main o h
  obtain ⟨l1, l2, _, l4⟩ := path_legal hp
  refine ⟨tr.map Prod.fst, l1, Seg.history_no_panic _ l1, ?_, ?_⟩
  · rw [l2]; exact l4 Seg.inv_init
  · rw [l2]; exact hm

/-- C13 (whole programs)  `close_segment` at the end of a finished run never fails -/
theorem run_close_never_fails (fs : Bytes → Option Bytes) (main : Bytes) (o : Outcome) (h : run fs main = .done o) :
    o.closeErr = none := by
  obtain ⟨_, _, _, _, hc⟩ := run_path encoder_len fs main o h
  exact hc

end Trion.Asm
