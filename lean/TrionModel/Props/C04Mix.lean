import TrionModel.Lemmas.C04Mix2
import TrionModel.Lemmas.C04Dich
import TrionModel.Props.C04Closed
/-!
# C04 closed, extension — operands that mix one register name with numbers (`R1 + 0`, `[R1 + 2 + 3]`, `[4 + R1 + 4]`)

`Spec/C04Mix.lean`: `sumForm`, `mem2`, `denote2`, `means2`, `doc2`: an address `[x]` where `x` is a sum of ONE register
name and register-free expressions (by `+`, and `−` of register-free expressions) means "base register + the integer
value of the rest" (exact integer arithmetic over the checked values of the register-free parts); a register-or-integer
operand of that form with rest 0 means the register.  The proof is semantic (C08): `evaluate` preserves the ideal value
under every assignment of integers to the register names.

Soundness (`stmt_sound2`) holds for every operand of the extended forms the operand readers accept.  Completeness is NOT
claimed for the new forms: the simplifier folds constants in its own association order with checked `i64` arithmetic, so
`[R1 + 9223372036854775807 + 1 - 9223372036854775807]` is diagnosed (overflow) although its exact meaning is `[R1 + 1]`
(example below); `stmt_complete` (Props/C04Closed) remains the completeness statement, on `doc`.
-/
namespace Trion.C04
open Trion Trion.Front Trion.Simp

/-- C04m.a  **Extended soundness.**  As `stmt_sound`, with `wellFormed2` (operands of the documented forms OR sums with
one register name) and the extended meaning `means2`. -/
theorem stmt_sound2 {lk : Bytes → Lookup} (hn : NoDef lk) (hT : Simp.tableOk lk) {eval : Arg → EvalOut} (hE : EvalSimp eval lk)
    (loc : Bool) (A : Nat) (name : Bytes) (args : List Arg) (t : Instr) (hm : mnemonic name = some t)
    (hw : wellFormed2 (tab lk) (sig t) args)
    (hq : ∀ vs, denoteAll2 (tab lk) (sig t) args = some vs → ¬ svQuirk t vs)
    (i : Instr) (hb : build A name args eval loc = .completed i) (hws : List Nat) (he : Codec.encode i = .ok hws) :
    means2 (tab lk) A name args = some i ∧ i.wf ∧ Arm.decode hws = some i ∧
      ∀ rest, Codec.decode (Codec.toBytes hws ++ rest) = .ok (2 * hws.length, i) := by
  obtain ⟨h1, h2⟩ := build_sound2 hn hT hE loc A name args t hm hw i hb hq
  exact ⟨h1, h2, Codec.enc_sound i hws he h2, fun rest => Codec.dec_enc i hws rest he h2⟩

/-- C04m.b  The extension is conservative: a documented operand is an extended one, and where the meaning of
Props/C04Closed is defined the extended meaning is the same. -/
theorem doc_doc2 (a : Arg) (h : doc a = true) : doc2 a = true := by
  cases a with
  | addr x => simp only [doc] at h; simp [doc2, h]
  | bin op l r => simp only [doc] at h; simp [doc2, h]
  | _ => exact h

theorem denoteAll2_of_denoteAll {T : SymTable} : ∀ {ks : List Kind} {as : List Arg} {vs : List Val},
    denoteAll T ks as = some vs → denoteAll2 T ks as = some vs := by
  intro ks
  induction ks with
  | nil => intro as vs h; cases as <;> simp [denoteAll] at h; subst h; rfl
  | cons k ks ih =>
    intro as vs h
    cases as with
    | nil => simp [denoteAll] at h
    | cons a as =>
      simp only [denoteAll] at h
      cases h1 : denote T k a with
      | none => simp [h1] at h
      | some v =>
        cases h2 : denoteAll T ks as with
        | none => simp [h1, h2] at h
        | some vs' =>
          simp only [h1, h2, Option.some.injEq] at h
          subst h
          simp [denoteAll2, denote2_of_denote h1, ih h2]

theorem means2_of_means {T : SymTable} {A : Nat} {name : Bytes} {args : List Arg} {i : Instr}
    (h : means T A name args = some i) : means2 T A name args = some i := by
  unfold means at h
  unfold means2
  cases hm : mnemonic name with
  | none => simp [hm] at h
  | some t =>
    simp only [hm] at h ⊢
    cases hd : denoteAll T (sig t) args with
    | none => simp [hd] at h
    | some vs => simp only [hd] at h; simp only [denoteAll2_of_denoteAll hd]; exact h

/-! ## non-vacuity -/

/-- `LDR R0, [R1 + 2 + 3]`, `LDR R0, [4 + R1 + 4]`, `LDR R0, [R1 + (2 * 4)]`, `MOVS R0, R1 + 0` -/
example :
    doc2 (.addr (.bin .add (.bin .add (.ident (bytesOf "R1")) (.const 2)) (.const 3))) = true ∧
    doc (.addr (.bin .add (.bin .add (.ident (bytesOf "R1")) (.const 2)) (.const 3))) = false ∧
    means2 (tab exLk) 0 (bytesOf "LDR") [.ident (bytesOf "R0"), .addr (.bin .add (.bin .add (.ident (bytesOf "R1")) (.const 2)) (.const 3))]
      = some (.ldr 0 1 (.imm 5)) ∧
    means2 (tab exLk) 0 (bytesOf "LDR") [.ident (bytesOf "R0"), .addr (.bin .add (.bin .add (.const 4) (.ident (bytesOf "R1"))) (.const 4))]
      = some (.ldr 0 1 (.imm 8)) ∧
    means2 (tab exLk) 0 (bytesOf "LDR") [.ident (bytesOf "R0"), .addr (.bin .add (.ident (bytesOf "R1")) (.bin .mul (.const 2) (.const 4)))]
      = some (.ldr 0 1 (.imm 8)) ∧
    means2 (tab exLk) 0 (bytesOf "MOVS") [.ident (bytesOf "R0"), .bin .add (.ident (bytesOf "R1")) (.const 0)]
      = some (.mov true 0 (.reg 1)) := by
  refine ⟨by decide, by decide, by decide, by decide, by decide, by decide⟩

/-- … and the assembler accepts them with exactly these meanings -/
example :
    build 0 (bytesOf "LDR") [.ident (bytesOf "R0"), .addr (.bin .add (.bin .add (.ident (bytesOf "R1")) (.const 2)) (.const 3))]
      (Show.simpEval exLk) true = .completed (.ldr 0 1 (.imm 5)) ∧
    build 0 (bytesOf "LDR") [.ident (bytesOf "R0"), .addr (.bin .add (.bin .add (.const 4) (.ident (bytesOf "R1"))) (.const 4))]
      (Show.simpEval exLk) true = .completed (.ldr 0 1 (.imm 8)) ∧
    build 0 (bytesOf "MOVS") [.ident (bytesOf "R0"), .bin .add (.ident (bytesOf "R1")) (.const 0)]
      (Show.simpEval exLk) true = .completed (.mov true 0 (.reg 1)) := ⟨rfl, rfl, rfl⟩

/-- why completeness is not claimed for the sums: exact meaning `[R1 + 1]`, but the assembler's own folding order overflows -/
example :
    means2 (tab exLk) 0 (bytesOf "LDRB") [.ident (bytesOf "R0"),
      .addr (.bin .sub (.bin .add (.bin .add (.ident (bytesOf "R1")) (.const 9223372036854775807)) (.const 1)) (.const 9223372036854775807))]
      = some (.ldrb 0 1 (.imm 1)) ∧
    ∃ d st, build 0 (bytesOf "LDRB") [.ident (bytesOf "R0"),
      .addr (.bin .sub (.bin .add (.bin .add (.ident (bytesOf "R1")) (.const 9223372036854775807)) (.const 1)) (.const 9223372036854775807))]
      (Show.simpEval exLk) true = .error d st := ⟨by decide, _, _, rfl⟩

/-! ## run level: the dichotomy on the extended operand class -/

/-- C04m.c  **Through the whole pipeline model, extended operands: assembled to the meaning, or diagnosed at the statement.**
For every program text read as `.addr A;`, definitions building `tbl`, and ONE instruction statement `name args` with a
known mnemonic whose evaluated operands are of the documented forms OR sums with one register name (`wellFormed2`):
EITHER the statement has the extended meaning `i` (`means2`), `i` fits its field types, the encoder accepts it (`hws`, the
ARMv6-M table's encoding of `i`), and — if the bytes fit below 2^32 — `Asm.run` succeeds without a diagnostic with exactly
those bytes at `A`; OR `Asm.run` does not succeed, records at least one diagnostic, and every diagnostic is at the
statement.  Never a third case: no wrong, wrapped or neighbouring encoding is placed. -/
theorem run_defs_stmt2 (fs : Bytes → Option Bytes) (main data : Bytes) (hfs : fs main = some data)
    (els : List Element) (hp : Asm.parseFile data = .ok (els, none)) (A : Nat) (hA : A < 4294967296)
    (defs : List (Bytes × Arg)) (name : Bytes) (args : Args) (hels : els.map (·.val) = progVals A defs name args)
    (tbl : Asm.Table) (hdefs : defsTable defs [] = some tbl)
    (t : Instr) (hm : mnemonic name = some t) (hw : wellFormed2 (tabOf tbl) (sig t) args.toList)
    (hq : ∀ vs, denoteAll2 (tabOf tbl) (sig t) args.toList = some vs → ¬ svQuirk t vs) :
    (∃ i hws, means2 (tabOf tbl) A name args.toList = some i ∧ i.wf ∧ Codec.encode i = .ok hws ∧ Arm.decode hws = some i ∧
      (A + 2 * hws.length ≤ 4294967296 →
        Asm.run fs main = .done ⟨true, none, true, [], [(A, (Codec.toBytes hws).map (·.toUInt8))]⟩)) ∨
    (∃ el o, el ∈ els ∧ el.val = .instruction name args ∧ Asm.run fs main = .done o ∧ o.success = false ∧ o.diags ≠ [] ∧
      ∀ d ∈ o.diags, d.file = main ∧ d.line = el.line ∧ d.col = el.col) := by
  have hnd : Asm.Table.NoDef tbl := defsTable_nodef defs [] tbl (by intro n; simp [Asm.Table.find]) hdefs
  have hi64 : tblI64 tbl := defsTable_i64 defs [] tbl (by intro n v h; simp [Asm.Table.find] at h) hdefs
  have hn := Asm.Table.nodef_get hnd
  have hTk := tableOk_of_tblI64 hi64
  have hE := evalSimp_frontEval tbl
  have hdiag : ((∃ i, build A name args.toList (Asm.frontEval tbl) true = .completed i) ∨
        (∃ d st, build A name args.toList (Asm.frontEval tbl) true = .error d st)) →
      (∀ i hws, build A name args.toList (Asm.frontEval tbl) true = .completed i → Codec.encode i ≠ .ok hws) →
      ∃ el o, el ∈ els ∧ el.val = .instruction name args ∧ Asm.run fs main = .done o ∧ o.success = false ∧ o.diags ≠ [] ∧
        ∀ d ∈ o.diags, d.file = main ∧ d.line = el.line ∧ d.col = el.col := by
    intro htot henc0
    refine run_defs_stmt_diag_of fs main data hfs els hp A hA defs name args hels tbl hdefs ?_
    intro l c st' r hnd' hi64' hX
    have := instr_diag_of ⟨[main], main⟩ ⟨⟨[], some ⟨A, [], Map.u32Max - A + 1⟩, []⟩, [], some tbl, [], some [], []⟩ tbl hnd' hi64'
      (by simp) rfl [] ⟨A, [], Map.u32Max - A + 1⟩ [] rfl l c name args.toList t hm
      (by rw [Show.cur_empty A _ hA]; exact htot) (by rw [Show.cur_empty A _ hA]; exact henc0) st' r hX
    simpa using this
  rcases build_total2 hn hTk hE true A name args.toList t hm hw with ⟨i, hb⟩ | ⟨d, st, hb⟩
  · cases he : Codec.encode i with
    | ok hws =>
      left
      obtain ⟨h1, h2, h3, _⟩ := stmt_sound2 hn hTk hE true A name args.toList t hm hw hq i hb hws he
      exact ⟨i, hws, h1, h2, he, h3, fun hfit =>
        (run_defs_stmt_of_build fs main data hfs els hp A defs name args hels tbl hdefs i hb hws he hfit).1⟩
    | error e =>
      right
      refine hdiag (.inl ⟨i, hb⟩) ?_
      intro i' hws hb' he'
      rw [hb] at hb'
      cases hb'
      rw [he] at he'
      cases he'
  · right
    refine hdiag (.inr ⟨d, st, hb⟩) ?_
    intro i' hws hb'
    rw [hb] at hb'
    cases hb'

end Trion.C04