import TrionModel.Props.C08Full
import TrionModel.Lemmas.SimpDeferred
import TrionModel.Lemmas.SimpArithFwd
import TrionModel.Lemmas.AsmRetryAgree
/-!
# C08 (statement level) with `Deferred` names in the table of the first attempt

`Table.NoDef t₁` is the one hypothesis Props/C08Full.lean keeps.  Without it — a name declared by `.global` (or imported
while unvalued) is `Lookup::Deferred` — the first attempt does not stop at the name: `evaluate` SIMPLIFIES AROUND it
(merges constants across it, removes neutral elements, swaps negated differences) and the statement is deferred with the
simplified tree.  The re-run then substitutes the value into that tree, the fresh assembly substitutes first.

What is true and proved here:
* `du_number_order_independent`: if both routes deliver a NUMBER it is the same number; `du_bytes_order_independent_deferred`:
  hence `DataExpr::apply` writes the same bytes whenever both routes complete;
* `du_retry_of_fresh`, `du_fresh_of_retry`: for a number operand the two routes differ in ACCEPTANCE at most by an arithmetic
  overflow: if one delivers the number `w`, the other delivers `w` or is diagnosed with `EvalError::Overflow`.
* `stmt_order_independent_deferred_partial`, `stmt_order_independent_deferred_number`: an instruction statement deferred by
  an unknown or a Deferred name: if the re-run and the fresh assembly both complete, same instruction — no condition at
  number positions, operands free of Deferred names at the register / address positions.
History (finding K6): before the rule `-(-v) ↦ v` acceptance could differ WITHOUT any overflow — `.global x; ADDS r1, r2,
-(x - r0); .const x, 0` assembled (`11 18`): with `x` Deferred the operand was swapped to `r0 - x`, which is `r0` once
`x = 0`; with `.const x, 0` ABOVE the statement `0 - r0` became `-r0` first and `-(-r0)` was left as it was — refused.  The
model follows the repair (`neutralize_raw` strips double negations); both orders agree now (`deferred_below6/above6`).
-/
namespace Trion.Asm
open Trion

/-- the table has only `i64` values -/
def Table.Ok (t : Table) : Prop := Simp.tableOk (fun n => t.get n)

/-- what a first `evaluate` over `t₁` leaves in place of the operand `a` -/
def LeftByT (t₁ : Table) (a a₁ : Arg) : Prop := Simp.LeftBy (fun n => t₁.get n) Front.isRegister a a₁

/-- C08 (numbers, Deferred names allowed in `t₁`)  The operand of `.du*` / an immediate / a branch target: whatever the
first attempt over `t₁` did to the tree (simplified around Deferred names, or stopped at an unknown name), if the
re-evaluation over `t₂ ⊇ t₁` and the fresh evaluation over `t₂` both deliver a number, it is the same number. -/
theorem du_number_order_independent {t₁ t₂ : Table} (hs : Table.Sub t₁ t₂) (hT : Table.Ok t₂) (a : Arg)
    (hlit : Simp.litsOk a = true) (a₁ : Arg) (hl : LeftByT t₁ a a₁) (v w : Int)
    (h₂ : evalIn t₂ a₁ = .ok (.complete (.const v))) (h : evalIn t₂ a = .ok (.complete (.const w))) : v = w := by
  obtain ⟨ev₂, e₂, _⟩ := (evalIn_complete_const t₂ a₁ v).1 h₂
  obtain ⟨ev, e, _⟩ := (evalIn_complete_const t₂ a w).1 h
  exact Simp.number_order_independent (Table.sub_get hs) hT hlit hl e₂ e

theorem evalIn_overflow (t : Table) (x : Arg) (k : Simp.OvKind) (y : Arg)
    (h : Simp.evaluateE (fun n => t.get n) Front.isRegister x = .err (.overflow k) y) :
    evalIn t x = .ok (.err (.overflow k) y) := by
  unfold evalIn; rw [h]; rfl

/-- C08 (numbers, acceptance)  If the FRESH evaluation over `t₂` delivers the number `w`, the re-evaluation of what the
first attempt left delivers `w` as well, or it is diagnosed with an ARITHMETIC OVERFLOW (`EvalError::Overflow`) — nothing
else can happen.  (`.global x; .du32 x + MAX - MAX; x:` is the other direction: the first attempt cancels `MAX - MAX`.) -/
theorem du_retry_of_fresh {t₁ t₂ : Table} (hs : Table.Sub t₁ t₂) (hT : Table.Ok t₂) (a : Arg)
    (hlit : Simp.litsOk a = true) (a₁ : Arg) (hl : LeftByT t₁ a a₁) (w : Int)
    (h : evalIn t₂ a = .ok (.complete (.const w))) :
    evalIn t₂ a₁ = .ok (.complete (.const w)) ∨ ∃ k y, evalIn t₂ a₁ = .ok (.err (.overflow k) y) := by
  obtain ⟨ev, e, hc⟩ := (evalIn_complete_const t₂ a w).1 h
  rcases Simp.retry_of_fresh_number (Table.sub_get hs) hT hlit hl e hc with ⟨ev₂, e₂, c₂⟩ | ⟨k, y, e₂⟩
  · exact .inl ((evalIn_complete_const t₂ a₁ w).2 ⟨ev₂, e₂, c₂⟩)
  · exact .inr ⟨k, y, evalIn_overflow t₂ a₁ k y e₂⟩

/-- C08 (numbers, acceptance, the other direction)  If the RE-EVALUATION delivers the number `v`, the fresh evaluation over
`t₂` delivers `v` as well or is diagnosed with an arithmetic overflow. -/
theorem du_fresh_of_retry {t₁ t₂ : Table} (hs : Table.Sub t₁ t₂) (hT : Table.Ok t₂) (a : Arg)
    (hlit : Simp.litsOk a = true) (a₁ : Arg) (hl : LeftByT t₁ a a₁) (v : Int)
    (h : evalIn t₂ a₁ = .ok (.complete (.const v))) :
    evalIn t₂ a = .ok (.complete (.const v)) ∨ ∃ k y, evalIn t₂ a = .ok (.err (.overflow k) y) := by
  obtain ⟨ev, e, hc⟩ := (evalIn_complete_const t₂ a₁ v).1 h
  rcases Simp.fresh_of_retry_number (Table.sub_get hs) hT hlit hl e hc with ⟨ev₂, e₂, c₂⟩ | ⟨k, y, e₂⟩
  · exact .inl ((evalIn_complete_const t₂ a v).2 ⟨ev₂, e₂, c₂⟩)
  · exact .inr ⟨k, y, evalIn_overflow t₂ a k y e₂⟩

/-- C08 (data, bytes, Deferred names allowed)  `DataExpr::apply` on the tree the first attempt left and on the original
operand, over `t₂`: if BOTH complete, they return the same data expression and the same assembler state — the same bytes
at the same address. -/
theorem du_bytes_order_independent_deferred {t₁ t₂ : Table} (hs : Table.Sub t₁ t₂) (hT : Table.Ok t₂) (a : Arg)
    (hlit : Simp.litsOk a = true) (a₁ : Arg) (hl : LeftByT t₁ a a₁) (d : DataExpr) (env : Env) (st : St)
    (ht : evalTable env st = .ok t₂) (loc : Bool) (d₁ d₂ : DataExpr) (st₁ st₂ : St)
    (h₁ : ({ d with arg := a₁ } : DataExpr).apply env st loc = .ok (d₁, st₁, .completed))
    (h₂ : ({ d with arg := a } : DataExpr).apply env st loc = .ok (d₂, st₂, .completed)) : d₁ = d₂ ∧ st₁ = st₂ := by
  rw [DataExpr.apply_completed_iff] at h₁ h₂
  simp only [evalArg, ht] at h₁ h₂
  obtain ⟨x₁, e₁, w₁⟩ := h₁
  obtain ⟨x₂, e₂, w₂⟩ := h₂
  obtain ⟨v₁, hv₁⟩ := DataExpr.writer_ok_const w₁
  obtain ⟨v₂, hv₂⟩ := DataExpr.writer_ok_const w₂
  simp only at hv₁ hv₂
  subst hv₁; subst hv₂
  have := du_number_order_independent hs hT a hlit a₁ hl v₁ v₂ e₁ e₂
  subst this
  rw [w₁] at w₂
  simp only [Out.ok.injEq, Prod.mk.injEq] at w₂
  exact ⟨w₂.1, w₂.2.1⟩

/-- C08 (instructions, Deferred names allowed in `t₁`)  First `assemble` over `t₁` deferred — by an unknown name or by a
name declared `.global` and not yet valued — and queued `fs1`.  If the re-run from `fs1` over `t₂ ⊇ t₁` AND the fresh
assembly over `t₂` both complete, they give the same instruction (same address: the same bytes).
No condition at the operand positions that need a number (`Immediate`, `Offset`: branch / `BL` / `ADR` targets, `SVC`,
`BKPT`, `UDF`, `RSBS`'s `#0`), whatever the operand mentions.  At the `ImmReg / Address / AddrOffset` positions the operand
must not MENTION a Deferred name of `t₁` (`noDeferredIn`).

FULL-STRENGTH STATEMENT, not proved: the same without `hp`.  What is missing is "both accepted ⇒ same register / address
shape" for a register-mixed operand that was simplified around a Deferred name; no counter-example was found (650k
statements over `{r0, r1, x, ±1, 5}`), and for such operands ACCEPTANCE itself is order dependent (K6 below). -/
theorem stmt_order_independent_deferred_partial {t₁ t₂ : Table} (hs : Table.Sub t₁ t₂) (hT : Table.Ok t₂) (addr : Nat)
    (name : Bytes) (args : List Arg) (hlit : ∀ a ∈ args, Simp.litsOk a = true) (c : Bytes) (fs1 : Front.St)
    (h1 : Front.build addr name args (frontEval t₁) true = .deferred c fs1)
    (hp : ∀ t, Front.mnemonic name = some t → ∀ p ∈ List.zip (Front.kinds t) args, p.1.shape = true →
      noDeferredIn t₁ p.2 = true)
    (fs2 : Front.St) (i : Instr) (h2 : Front.assemble fs1 (frontEval t₂) false = (fs2, .completed))
    (h3 : Front.build addr name args (frontEval t₂) true = .completed i) : fs2.instr = i := by
  unfold Front.build at h1
  cases hm : Front.mnemonic name with
  | none => rw [hm] at h1; cases h1
  | some t =>
    rw [hm] at h1
    simp only at h1
    cases ha : Front.assemble ⟨addr, t, 0, args⟩ (frontEval t₁) true with
    | mk st r =>
      rw [ha] at h1
      cases r with
      | completed => cases h1
      | error d => cases h1
      | panic => cases h1
      | deferred c' =>
        simp only [Front.BuildOut.deferred.injEq] at h1
        obtain ⟨rfl, rfl⟩ := h1
        have agree := Front.assemble_retry_agree (frontEval t₁) (frontEval t₂) addr t args
          (fun p hpz => growsA_any hs hT p.1 p.2 (hlit p.2 (List.of_mem_zip hpz).2) (hp t hm p hpz)) st c' ha false
        simp only [Front.build, hm] at h3
        cases hg : Front.assemble ⟨addr, t, 0, args⟩ (frontEval t₂) true with
        | mk fsT rT =>
          rw [hg] at h3
          cases rT with
          | deferred x => cases h3
          | error x => cases h3
          | panic => cases h3
          | completed =>
            simp only [Front.BuildOut.completed.injEq] at h3
            have hf := assemble_completed_loc false hg
            have := agree (by rw [h2]) (by rw [hf])
            rw [h2, hf] at this
            exact this.trans h3

/-- an arithmetic-overflow stop does not depend on the `local` flag -/
theorem evalArg_overflow_loc {e : Arg → Front.EvalOut} {l : Bool} (l' : Bool) {pos done : Nat} {a x : Arg} {r : Front.Res}
    (h : Front.evalArg e l pos done a = .error (x, r)) (ho : r.isOverflow) :
    Front.evalArg e l' pos done a = .error (x, r) := by
  unfold Front.evalArg at h ⊢
  split
  · rename_i hd
    simp only [hd, if_true] at h
    cases he : e a with
    | complete y => rw [he] at h; cases h
    | deferred c y => rw [he] at h; exact h
    | noSuchVariable n y =>
      rw [he] at h; simp only at h
      split at h <;> (cases h; simp [Front.Res.isOverflow] at ho)
    | error er y => rw [he] at h; exact h
  · rename_i hd
    simp only [hd, if_false] at h; cases h

theorem get_overflow_loc {k : Front.Kind} {e : Arg → Front.EvalOut} {l : Bool} (l' : Bool) {pos done : Nat} {a a' : Arg}
    {d' : Nat} {r : Front.Res} (h : Front.get k e l pos done a = .stop a' d' r) (ho : r.isOverflow) :
    Front.get k e l' pos done a = .stop a' d' r := by
  cases hk : k.evals with
  | false =>
    cases k <;> simp [Front.Kind.evals] at hk
    all_goals (simp only [Front.get] at h ⊢; exact h)
  | true =>
    rw [Front.get_eq_post k hk] at h ⊢
    cases he : Front.evalArg e l pos done a with
    | error p =>
      obtain ⟨x, r'⟩ := p
      rw [he] at h
      simp only [Front.GetOut.stop.injEq] at h
      obtain ⟨h1, h2, h3⟩ := h
      subst h1; subst h2; subst h3
      rw [evalArg_overflow_loc l' he ho]
    | ok p => rw [he] at h; rw [evalArg_ok_loc he]; exact h

theorem conv_overflow_loc (e : Arg → Front.EvalOut) (l l' : Bool) : ∀ (ks : List Front.Kind) (pos : Nat) (pre rest : List Arg)
    (done : Nat) (instr : Instr) (vals : List Front.Val) (A : List Arg) (D : Nat) (I : Instr) (r : Front.Res),
    Front.conv e l ks pos pre rest done instr vals = .stop A D I r → r.isOverflow →
    Front.conv e l' ks pos pre rest done instr vals = .stop A D I r := by
  intro ks
  induction ks with
  | nil => intro pos pre rest done instr vals A D I r h _; simpa [Front.conv] using h
  | cons k ks ih =>
    intro pos pre rest done instr vals A D I r h ho
    cases rest with
    | nil => simpa [Front.conv] using h
    | cons a rest =>
      simp only [Front.conv] at h ⊢
      cases hg : Front.get k e l pos done a with
      | ok v a' d' => rw [hg] at h; rw [get_ok_loc hg]; exact ih _ _ _ _ _ _ _ _ _ _ h ho
      | stop a' d' r' =>
        rw [hg] at h
        simp only [Front.ConvOut.stop.injEq] at h
        obtain ⟨h1, h2, h3, h4⟩ := h
        subst h4
        rw [get_overflow_loc l' hg ho]
        simp only [Front.ConvOut.stop.injEq]
        exact ⟨h1, h2, h3, trivial⟩

theorem literal_not_evalErr {addr : Nat} {tgt : Int} {ee : Front.EvalErr} : Front.literal addr tgt ≠ .error (.evalErr ee) := by
  unfold Front.literal
  simp only
  intro h
  repeat' split at h
  all_goals cases h

theorem branch_not_evalErr {addr : Nat} {tgt mn mx : Int} {ee : Front.EvalErr} : Front.branch addr tgt mn mx ≠ .error (.evalErr ee) := by
  unfold Front.branch
  simp only
  intro h
  repeat' split at h
  all_goals cases h

theorem finish_not_evalErr {addr n : Nat} {i : Instr} {vals : List Front.Val} {ee : Front.EvalErr} :
    Front.finish addr i vals n ≠ .error (.evalErr ee) := by
  intro h
  unfold Front.finish at h
  split at h
  all_goals first
    | (cases h; done)
    | (split at h <;> first
        | (cases h; done)
        | (rename_i hh; cases h; first | exact literal_not_evalErr hh | exact branch_not_evalErr hh | skip))
  all_goals (rename_i hh; split at hh <;> exact branch_not_evalErr hh)

/-- an `EvalError::Overflow` outcome of `assemble` does not depend on the `local` flag -/
theorem assemble_overflow_loc {st fs : Front.St} {e : Arg → Front.EvalOut} {l : Bool} (l' : Bool) {r : Front.Res}
    (h : Front.assemble st e l = (fs, r)) (ho : r.isOverflow) : Front.assemble st e l' = (fs, r) := by
  unfold Front.assemble at h ⊢
  simp only at h ⊢
  split
  · rename_i c; rw [if_pos c] at h; cases h; simp [Front.Res.isOverflow] at ho
  · rename_i c
    rw [if_neg c] at h
    split
    · rename_i c2; rw [if_pos c2] at h; cases h; simp [Front.Res.isOverflow] at ho
    · rename_i c2
      rw [if_neg c2] at h
      cases hc : Front.conv e l (Front.kinds st.instr) 0 [] st.args st.argsDone st.instr [] with
      | stop A D I r' =>
        rw [hc] at h; simp only [Prod.mk.injEq] at h
        obtain ⟨h1, h2⟩ := h
        subst h2
        rw [conv_overflow_loc e l l' _ _ _ _ _ _ _ _ _ _ _ hc ho]
        simp only [h1]
      | ok A D I V =>
        rw [hc] at h
        simp only at h
        cases hfin : Front.finish st.addr I V (Front.kinds st.instr).length with
        | ok i => rw [hfin] at h; cases h; simp [Front.Res.isOverflow] at ho
        | error d =>
          rw [hfin] at h
          simp only [Prod.mk.injEq] at h
          obtain ⟨_, h2⟩ := h
          subst h2
          cases d <;> simp only [Front.Res.isOverflow] at ho
          exact absurd hfin finish_not_evalErr

/-- C08 (instructions whose evaluated operands are all numbers, Deferred names allowed): no condition on the operands -/
theorem stmt_order_independent_deferred_number {t₁ t₂ : Table} (hs : Table.Sub t₁ t₂) (hT : Table.Ok t₂) (addr : Nat)
    (name : Bytes) (args : List Arg) (hlit : ∀ a ∈ args, Simp.litsOk a = true) (c : Bytes) (fs1 : Front.St)
    (h1 : Front.build addr name args (frontEval t₁) true = .deferred c fs1)
    (hk : ∀ t, Front.mnemonic name = some t → ∀ k ∈ Front.kinds t, k.shape = false)
    (fs2 : Front.St) (i : Instr) (h2 : Front.assemble fs1 (frontEval t₂) false = (fs2, .completed))
    (h3 : Front.build addr name args (frontEval t₂) true = .completed i) : fs2.instr = i := by
  refine stmt_order_independent_deferred_partial hs hT addr name args hlit c fs1 h1 ?_ fs2 i h2 h3
  intro t hm p hpz hsh
  have := hk t hm p.1 (List.of_mem_zip hpz).1
  rw [this] at hsh
  cases hsh

/-- C08 (instructions whose evaluated operands are all numbers — `B`, `B<cond>`, `BL`, `ADR`, `BKPT`, `SVC`, `UDF`, `RSBS` —,
Deferred names allowed in `t₁`, ACCEPTANCE)  First `assemble` over `t₁` deferred.  Over `t₂ ⊇ t₁`:
* if the FRESH assembly completes with `i`, the re-run completes with `i` or ends with an arithmetic-overflow diagnostic;
* if the RE-RUN completes with `i`, the fresh assembly completes with `i` or ends with an arithmetic-overflow diagnostic.
So the two orders give the same bytes or one of them reports `EvalError::Overflow` — nothing else. -/
theorem stmt_number_acceptance_deferred {t₁ t₂ : Table} (hs : Table.Sub t₁ t₂) (hT : Table.Ok t₂) (addr : Nat)
    (name : Bytes) (args : List Arg) (hlit : ∀ a ∈ args, Simp.litsOk a = true) (c : Bytes) (fs1 : Front.St)
    (h1 : Front.build addr name args (frontEval t₁) true = .deferred c fs1)
    (hk : ∀ t, Front.mnemonic name = some t → ∀ k ∈ Front.kinds t, k.shape = false) :
    (∀ i, Front.build addr name args (frontEval t₂) true = .completed i →
      (∃ fs2, Front.assemble fs1 (frontEval t₂) false = (fs2, .completed) ∧ fs2.instr = i) ∨
      (Front.assemble fs1 (frontEval t₂) false).2.isOverflow) ∧
    (∀ fs2, Front.assemble fs1 (frontEval t₂) false = (fs2, .completed) →
      Front.build addr name args (frontEval t₂) true = .completed fs2.instr ∨
      ∃ st w, Front.build addr name args (frontEval t₂) true = .error (.evalErr (.overflow w)) st) := by
  unfold Front.build at h1
  cases hm : Front.mnemonic name with
  | none => rw [hm] at h1; cases h1
  | some t =>
    rw [hm] at h1
    simp only at h1
    cases ha : Front.assemble ⟨addr, t, 0, args⟩ (frontEval t₁) true with
    | mk st r =>
      rw [ha] at h1
      cases r with
      | completed => cases h1
      | error d => cases h1
      | panic => cases h1
      | deferred c' =>
        simp only [Front.BuildOut.deferred.injEq] at h1
        obtain ⟨rfl, rfl⟩ := h1
        have hgr : ∀ p ∈ List.zip (Front.kinds t) args, Front.GrowsO p.1 (frontEval t₁) (frontEval t₂) p.2 := by
          intro p hpz
          have hsh := hk t hm p.1 (List.of_mem_zip hpz).1
          cases hnum : p.1.number with
          | true => exact growsO_number hs hT hnum p.2 (hlit p.2 (List.of_mem_zip hpz).2)
          | false =>
            refine growsO_nonevals hs ?_ p.2
            cases hp : p.1 <;> simp_all [Front.Kind.shape, Front.Kind.number, Front.Kind.evals]
        refine ⟨fun i hb => ?_, fun fs2 h2 => ?_⟩
        · -- fresh completed
          simp only [Front.build, hm] at hb
          cases hg : Front.assemble ⟨addr, t, 0, args⟩ (frontEval t₂) true with
          | mk fsT rT =>
            rw [hg] at hb
            cases rT with
            | deferred x => cases hb
            | error x => cases hb
            | panic => cases hb
            | completed =>
              simp only [Front.BuildOut.completed.injEq] at hb
              have hf := assemble_completed_loc false hg
              have ov := (Front.assemble_retry_ov (frontEval t₁) (frontEval t₂) addr t args hgr st c' ha false).1
              rcases ov (by rw [hf]) with ⟨q1, q2⟩ | q
              · left
                cases hr : Front.assemble st (frontEval t₂) false with
                | mk fs2 r2 =>
                  rw [hr] at q1 q2
                  simp only at q1
                  subst q1
                  rw [hf] at q2
                  exact ⟨fs2, rfl, q2.trans hb⟩
              · exact .inr q
        · -- retry completed
          have ov := (Front.assemble_retry_ov (frontEval t₁) (frontEval t₂) addr t args hgr st c' ha false).2
          rcases ov (by rw [h2]) with ⟨q1, q2⟩ | q
          · left
            cases hf : Front.assemble ⟨addr, t, 0, args⟩ (frontEval t₂) false with
            | mk fsF rF =>
              rw [hf] at q1 q2
              simp only at q1
              subst q1
              have h3 := assemble_completed_loc true hf
              simp only [Front.build, hm, h3]
              rw [h2] at q2
              rw [q2]
          · right
            -- an overflow diagnostic does not depend on `local` either
            cases hf : Front.assemble ⟨addr, t, 0, args⟩ (frontEval t₂) false with
            | mk fsF rF =>
              rw [hf] at q
              simp only at q
              have h3 := assemble_overflow_loc true hf q
              simp only [Front.build, hm, h3]
              cases rF <;> first | exact False.elim q | skip
              rename_i d
              cases d <;> first | exact False.elim q | skip
              rename_i ee
              cases ee <;> first | exact False.elim q | skip
              exact ⟨_, _, rfl⟩

/-- non-vacuity: `B x + 2` at address 0 with `x` declared `.global` (Deferred) at the statement, `x = 6` later: deferred with
the operand unchanged, the re-run completes with `B +4`, as does the fresh assembly -/
example :
    Front.build 0 [66] [.bin .add (.ident [120]) (.const 2)] (frontEval [([120], none)]) true =
      .deferred [120] ⟨0, .b 14 0, 0, [.bin .add (.ident [120]) (.const 2)]⟩ ∧
    Front.assemble ⟨0, .b 14 0, 0, [.bin .add (.ident [120]) (.const 2)]⟩ (frontEval [([120], some 6)]) false =
      (⟨0, .b 14 4, 1, [.const 8]⟩, .completed) ∧
    Front.build 0 [66] [.bin .add (.ident [120]) (.const 2)] (frontEval [([120], some 6)]) true = .completed (.b 14 4) :=
  ⟨rfl, rfl, rfl⟩

/-- non-vacuity, and the known acceptance difference by overflow: `.du32 (x + MAX) - MAX` with `x` Deferred is simplified
to `x`; over `x = 5` the re-run gives 5, the fresh evaluation overflows in `5 + MAX` -/
example :
    evalIn [([120], none)] (.bin .sub (.bin .add (.ident [120]) (.const 9223372036854775807)) (.const 9223372036854775807)) =
      .ok (.deferred [120] (.ident [120])) ∧
    evalIn [([120], some 5)] (.ident [120]) = .ok (.complete (.const 5)) ∧
    evalIn [([120], some 5)]
      (.bin .sub (.bin .add (.ident [120]) (.const 9223372036854775807)) (.const 9223372036854775807)) =
      .ok (.err (.overflow .add) (.bin .sub (.bin .add (.const 5) (.const 9223372036854775807)) (.const 9223372036854775807))) :=
  ⟨rfl, rfl, rfl⟩

/-! ### K6 (repaired): acceptance used to differ without any overflow -/

/-- the operand `-(x - r0)` -/
def exNegNeg : Arg := .neg (.bin .sub (.ident [120]) (.ident [114, 48]))

/-- K6, before the rule `-(-v) ↦ v`: `ADDS r1, r2, -(x - r0)` with `x` declared `.global` (Deferred) at the statement and `x = 0`
later was deferred with the operand simplified to `r0 - x`, and the re-run completed with `ADDS r1, r2, r0` (`11 18`); with
`x = 0` known at the statement the fresh assembly ended with `-(-r0)` and was refused (`ArgumentType`, no overflow involved).
With the rule both routes end in `r0`. -/
example :
    (∃ fs1, Front.build 0 (bytesOf "ADDS") [.ident [114, 49], .ident [114, 50], exNegNeg] (frontEval [([120], none)]) true =
        .deferred [120] fs1 ∧
      fs1.args = [.ident [114, 49], .ident [114, 50], .bin .sub (.ident [114, 48]) (.ident [120])] ∧
      ∃ fs2, Front.assemble fs1 (frontEval [([120], some 0)]) false = (fs2, .completed) ∧
        fs2.instr = .add true 1 2 (.reg 0)) ∧
    Front.build 0 (bytesOf "ADDS") [.ident [114, 49], .ident [114, 50], exNegNeg] (frontEval [([120], some 0)]) true =
      .completed (.add true 1 2 (.reg 0)) :=
  ⟨⟨_, rfl, rfl, _, rfl, rfl⟩, rfl⟩

def exBelow6 : Bytes := bytesOf ".global x;\n.addr 0x20000000;\nADDS r1, r2, -(x - r0);\n.const x, 0;\n"
def exAbove6 : Bytes := bytesOf ".global x;\n.addr 0x20000000;\n.const x, 0;\nADDS r1, r2, -(x - r0);\n"

/-- K6 on the whole-pipeline model: declared, used, then defined — `11 18` -/
theorem deferred_below6 : exSummary (run (exOrdFs exBelow6) [109]) = some (true, 0, [(536870912, [17, 24])]) := by
  decide +kernel

/-- K6: declared, defined, then used — the same image (before the repair: refused twice, placeholder left) -/
theorem deferred_above6 : exSummary (run (exOrdFs exAbove6) [109]) = some (true, 0, [(536870912, [17, 24])]) := by
  decide +kernel

/-! ## the remaining difference: arithmetic overflow only

`stmt_number_acceptance_deferred` allows exactly one difference between the two orders, an `EvalError::Overflow`; it does
occur: with `x` Deferred the simplifier folds `(x + MAX) - MAX` to `x` without ever adding, with `x = 1` known it adds
first.  Replayed on `trias`: BELOW assembles `01 DF`, ABOVE reports `overflow in 1 plus 9223372036854775807`. -/

def exOvB : Bytes :=
  bytesOf ".global x;\n.addr 0x20000000;\nSVC (x + 9223372036854775807) - 9223372036854775807;\n.const x, 1;\n"
def exOvA : Bytes :=
  bytesOf ".global x;\n.addr 0x20000000;\n.const x, 1;\nSVC (x + 9223372036854775807) - 9223372036854775807;\n"

/-- declared, used, then defined: `SVC 1` (`01 DF`) -/
theorem overflow_only_below : exSummary (run (exOrdFs exOvB) [109]) = some (true, 0, [(536870912, [1, 223])]) := by
  decide +kernel

/-- declared, defined, then used: arithmetic overflow, diagnosed (twice), the placeholder stays -/
theorem overflow_only_above : exSummary (run (exOrdFs exOvA) [109]) = some (false, 2, [(536870912, [190, 190])]) := by
  decide +kernel

end Trion.Asm
