import TrionModel.Lemmas.ParseVals
import TrionModel.Props.C09
import TrionModel.Props.C12Layout
/-!
# C09 at TEXT level — every layout of a rendered tree parses to the tree

`Props/C09.lean` proves the parser theorems on token lists whose VALUES are the rendering of a tree. Here they
are composed with the exact layout theorem of the tokenizer (`Lex.layout_tokens`, `Props/C12Layout.lean`):
the input is a TEXT — any well-formed layout `L`/`trail` (`Lex.LOk`: any separator text incl. line comments and
nested block comments between the tokens, any accepted spelling of each token: zero-padded / any-radix numbers,
character literals for numbers, strings with escapes …) whose token values are the rendering — and the result
is `Parse.all (Lex.tokens text)`.
-/
namespace Trion.Parse
open Trion.Lex (LTok LOk ltext ltoks Spell Exact)

/-- C09.T1 `parse_text`  **Every token spacing.** For every list of well-formed statements `evs` and EVERY
layout of their rendered token values, tokenizing the text and parsing the result yields exactly those statements
in order, without error. (The last conjunct is a WEAK position statement, kept for compatibility: it only says that
each element sits at some offset where a `.`/identifier spelling starts; the exact statement is `parse_text_exact`.) -/
theorem parse_text (evs : List ElemVal) (hwf : ∀ ev ∈ evs, ev.wf) (L : List LTok) (trail : Bytes) (hL : LOk L trail)
    (hv : L.map (·.tok) = (evs.map Render.elemVal).flatten) :
    ∃ out els, Lex.tokens (ltext L trail) = .ok out ∧ all out = .done els none ∧ els.map (·.val) = evs ∧
      ∀ el ∈ els, ∃ o e, o < e ∧ e ≤ (ltext L trail).length ∧
        (∃ t, Spell (((ltext L trail).take e).drop o) t (ltext L trail)[e]? ∧ (t = .dirMark ∨ ∃ s, t = .ident s)) ∧
        (el.line, el.col) = Pos.of ((ltext L trail).take o) := by
  have hlex := Lex.layout_tokens L trail hL
  have hvals : (ltoks [] L).map (·.val) = (evs.map Render.elemVal).flatten := by rw [Lex.ltoks_vals, hv]
  obtain ⟨els, hall, hels⟩ := all_of_vals evs hwf (ltoks [] L) hvals (Pos.of (ltext L trail)).1 (Pos.of (ltext L trail)).2
  refine ⟨_, els, hlex, hall, hels, ?_⟩
  have hex : Exact (ltext L trail) 0 (ltoks [] L) := by simpa using Lex.layout_exact L trail hL []
  obtain ⟨firsts, _, h2, _, h4⟩ := Lex.stmt_pos_exact _ _ hex els none hall
  intro el hel
  have : (el.line, el.col) ∈ els.map (fun e => (e.line, e.col)) := List.mem_map.mpr ⟨el, hel, rfl⟩
  rw [h2] at this
  obtain ⟨t, ht, hpos⟩ := List.mem_map.mp this
  obtain ⟨hkind, o, e, h5, h6, h7, h8⟩ := h4 t ht
  exact ⟨o, e, h5, h6, ⟨t.val, h7, hkind⟩, by rw [← hpos]; exact h8⟩

/-- C09.T1' `parse_text_exact`  **Every token spacing, exact positions.** As `parse_text`, and the elements are
located exactly (`Parse.StmtsAt`, `Lemmas/ParseSegs.lean`; see `Lex.stmt_pos_segments`): the run cuts the tokens into
consecutive segments that cover ALL tokens of the layout (leftover `[]`), element `i` is read from segment `i`, whose
first token — the `.` or the name / label identifier — is spelled by `text[oᵢ, eᵢ)` after separator text, and element
`i` carries `Pos.of (text.take oᵢ)`; this segmentation is unique (`Lex.stmt_pos_determined`). -/
theorem parse_text_exact (evs : List ElemVal) (hwf : ∀ ev ∈ evs, ev.wf) (L : List LTok) (trail : Bytes) (hL : LOk L trail)
    (hv : L.map (·.tok) = (evs.map Render.elemVal).flatten) :
    ∃ out els, Lex.tokens (ltext L trail) = .ok out ∧ all out = .done els none ∧ els.map (·.val) = evs ∧
      StmtsAt (ltext L trail) out 0 out.toks els [] := by
  have hlex := Lex.layout_tokens L trail hL
  have hvals : (ltoks [] L).map (·.val) = (evs.map Render.elemVal).flatten := by rw [Lex.ltoks_vals, hv]
  obtain ⟨els, hall, hels⟩ := all_of_vals evs hwf (ltoks [] L) hvals (Pos.of (ltext L trail)).1 (Pos.of (ltext L trail)).2
  have hex : Exact (ltext L trail) 0 (ltoks [] L) := by simpa using Lex.layout_exact L trail hL []
  obtain ⟨left, hs, hl⟩ := Lex.stmt_pos_segments _ _ hex els none hall
  rw [hl rfl] at hs
  exact ⟨_, els, hlex, hall, hels, hs⟩

/-- C09.T2 `parens_text`  **Redundant parentheses, at text level.** For every way `p` of adding parentheses to an
expression and every layout of `Render.parg 0 p` followed by a token that ends an expression and anything else,
`parse_binary(BitOr)` on the tokenizer's output reads back the tree without the redundant parentheses and stops
at that token. -/
theorem parens_text (p : PArg) (hwf : p.wf) (stopv : Tok) (hstop : stopv.isStop = true) (restv : List Tok)
    (L : List LTok) (trail : Bytes) (hL : LOk L trail) (hv : L.map (·.tok) = Render.parg 0 p ++ stopv :: restv)
    (st : Nat × Nat) :
    ∃ out ts stop rest, Lex.tokens (ltext L trail) = .ok out ∧ out.toks = ts ++ stop :: rest ∧
      ts.map (·.val) = Render.parg 0 p ∧ stop.val = stopv ∧ rest.map (·.val) = restv ∧
      binary out .bitOr st out.toks = .ok (p.erase, stop :: rest) := by
  have hlex := Lex.layout_tokens L trail hL
  have hvals : (ltoks [] L).map (·.val) = Render.parg 0 p ++ stopv :: restv := by rw [Lex.ltoks_vals, hv]
  obtain ⟨ts, tb, hsplit, hts, htb⟩ := exists_of_map_eq_append hvals
  cases tb with
  | nil => simp at htb
  | cons stop rest =>
    simp only [List.map_cons, List.cons.injEq] at htb
    refine ⟨_, ts, stop, rest, hlex, hsplit, hts, htb.1, htb.2, ?_⟩
    show binary _ .bitOr st (ltoks [] L) = _
    rw [hsplit]
    exact parens_redundant _ st p hwf ts hts stop (by rw [htb.1]; exact hstop) rest

/-- C09.T3  the minimal rendering is the special case without redundant parentheses -/
theorem expr_text (t : Arg) (hwf : t.wf) (stopv : Tok) (hstop : stopv.isStop = true) (restv : List Tok)
    (L : List LTok) (trail : Bytes) (hL : LOk L trail) (hv : L.map (·.tok) = Render.arg 0 t ++ stopv :: restv)
    (st : Nat × Nat) :
    ∃ out ts stop rest, Lex.tokens (ltext L trail) = .ok out ∧ out.toks = ts ++ stop :: rest ∧
      binary out .bitOr st out.toks = .ok (t, stop :: rest) := by
  have hlex := Lex.layout_tokens L trail hL
  have hvals : (ltoks [] L).map (·.val) = Render.arg 0 t ++ stopv :: restv := by rw [Lex.ltoks_vals, hv]
  obtain ⟨ts, tb, hsplit, hts, htb⟩ := exists_of_map_eq_append hvals
  cases tb with
  | nil => simp at htb
  | cons stop rest =>
    simp only [List.map_cons, List.cons.injEq] at htb
    refine ⟨_, ts, stop, rest, hlex, hsplit, ?_⟩
    show binary _ .bitOr st (ltoks [] L) = _
    rw [hsplit]
    exact parse_render _ st t hwf ts hts stop (by rw [htb.1]; exact hstop) rest

/-- C09.T4 `instruction_text_parens`  An instruction statement written with redundant parentheses anywhere in
its arguments, in any layout: `do_next` on the tokenizer's output reads the instruction with the parentheses
erased, positioned at the specified position of its name. -/
theorem instruction_text_parens (name : Bytes) (as : PArgs) (hwf : as.wf) (x : LTok) (r : List LTok) (trail : Bytes)
    (hL : LOk (x :: r) trail) (hx : x.tok = .ident name) (hv : r.map (·.tok) = Render.pargs as ++ [.term]) :
    ∃ out first rest, Lex.tokens (ltext (x :: r) trail) = .ok out ∧ out.toks = first :: rest ∧
      (first.line, first.col) = Pos.of x.sep ∧
      element out first rest = .ok (⟨first.line, first.col, .instruction name as.erase⟩, []) := by
  have hlex := Lex.layout_tokens (x :: r) trail hL
  have hvals : (ltoks ([] ++ x.sep ++ x.spell) r).map (·.val) = Render.pargs as ++ [.term] := by rw [Lex.ltoks_vals, hv]
  obtain ⟨ta, tb, hsplit, hta, htb⟩ := exists_of_map_eq_append hvals
  match tb, htb with
  | [tt], htb =>
    simp only [List.map_cons, List.map_nil, List.cons.injEq, and_true] at htb
    refine ⟨_, ⟨(Pos.of ([] ++ x.sep)).1, (Pos.of ([] ++ x.sep)).2, x.tok⟩, ltoks ([] ++ x.sep ++ x.spell) r, hlex, rfl,
      by simp, ?_⟩
    rw [hsplit]
    exact stmt_roundtrip_parens _ name as hwf _ tt ta [] hx hta htb
  | [], htb => simp at htb
  | _ :: _ :: _, htb => simp at htb

/-! ### non-vacuity: `ADD R0, (1 + 2) * 3;` with comments, zero-padded / hexadecimal / character-literal numbers -/

def addL : List LTok :=
  [⟨47 :: 42 :: ([32, 0xC3, 0xA9, 32, 42, 47] : Bytes) ++ [32], bytesOf "ADD", .ident (bytesOf "ADD")⟩,
   ⟨[32], bytesOf "R0", .ident (bytesOf "R0")⟩,
   ⟨[], bytesOf ",", .sep⟩,
   ⟨47 :: 47 :: bytesOf " x" ++ [10], bytesOf "(", .lparen⟩,
   ⟨[], Lex.radixPrefix 10 ++ bytesOf "001", .num 1⟩,
   ⟨[], bytesOf "+", .plus⟩,
   ⟨[], Lex.radixPrefix 16 ++ bytesOf "2", .num 2⟩,
   ⟨[], bytesOf ")", .rparen⟩,
   ⟨[], bytesOf "*", .mul⟩,
   ⟨47 :: 42 :: bytesOf "*/", [39, 92, 39, 39], .num 39⟩,
   ⟨[], bytesOf ";", .term⟩]

example : addL.map (·.tok) = (.ident (bytesOf "ADD")) ::
    Render.pargs (.cons (.ident (bytesOf "R0")) (.cons (.bin .mul (.paren (.bin .add (.const 1) (.const 2))) (.const 39)) .nil))
      ++ [.term] := by decide

theorem addL_ok : LOk addL [] := by
  have fsp : Lex.Follow (some 32) := by intro b hb; cases hb; decide
  refine ⟨?_, Spell.ident _ _ (by decide) fsp, Lex.isSep_ws [32] (by decide),
    Spell.ident _ _ (by decide) (by intro b hb; cases hb; decide), Lex.IsSep.nil,
    Spell.punct 44 _ _ (by decide) (by decide), Lex.isSep_line _ (by decide) (Lex.utf8_of_ascii _ (by decide)),
    Spell.punct 40 _ _ (by decide) (by decide), Lex.IsSep.nil,
    Spell.num 10 _ 1 _ (by omega) (by decide) (by decide) (by decide) (by intro b hb; cases hb; decide), Lex.IsSep.nil,
    Spell.punct 43 _ _ (by decide) (by decide), Lex.IsSep.nil,
    Spell.num 16 _ 2 _ (by omega) (by decide) (by decide) (by decide) (by intro b hb; cases hb; decide), Lex.IsSep.nil,
    Spell.punct 41 _ _ (by decide) (by decide), Lex.IsSep.nil,
    Spell.punct 42 _ _ (by decide) (by decide),
    Lex.isSep_block _ (Lex.inside_of_insideB _ 0 (by decide)) (Lex.utf8_of_ascii _ (by decide)),
    Spell.chrEsc 39 39 _ (by decide), Lex.IsSep.nil, Spell.punct 59 _ _ (by decide) (by decide), Or.inl Lex.IsSep.nil⟩
  exact Lex.isSep_append (Lex.isSep_block [32, 0xC3, 0xA9, 32, 42, 47] (Lex.inside_of_insideB _ 0 (by decide))
    (Lex.utf8_ascii_cons 32 (by decide) (Lex.utf8_e9 [32, 42, 47] (Lex.utf8_of_ascii [32, 42, 47] (by decide)))))
    (Lex.isSep_ws [32] (by decide))

/-- the text `/* é */ ADD R0,// x␊(001+0x2)*/**/'\'';` is read as `ADD R0, (1 + 2) * 39` at 1:9 -/
example : ∃ out first rest, Lex.tokens (ltext addL []) = .ok out ∧ out.toks = first :: rest ∧
    (first.line, first.col) = (1, 9) ∧
    element out first rest = .ok (⟨first.line, first.col, .instruction (bytesOf "ADD")
      (.cons (.ident (bytesOf "R0")) (.cons (.bin .mul (.bin .add (.const 1) (.const 2)) (.const 39)) .nil))⟩, []) := by
  obtain ⟨out, first, rest, h1, h2, h3, h4⟩ := instruction_text_parens (bytesOf "ADD")
    (.cons (.ident (bytesOf "R0")) (.cons (.bin .mul (.paren (.bin .add (.const 1) (.const 2))) (.const 39)) .nil))
    (by simp [PArgs.wf, PArg.wf, i64Max]; decide) _ _ [] addL_ok rfl (by decide)
  exact ⟨out, first, rest, h1, h2, by rw [h3]; decide, h4⟩

end Trion.Parse
