import TrionModel.Lemmas.AsmGlobRun
import TrionModel.Props.C05Multi
/-!
# C05 (pipeline clause, projects with `.include` and `.global`) — stage 2, partial

Models as in Props/C05Multi.lean.  New here: `.global x`.  In the model (and the code) `.global x` in a file publishes
the file's `x` to the table of its INCLUDER — to the real global table only for the main file (`enterFile`: inside an
included file `globals` IS the includer's table).  The flattened program (`Glob.GFlat`, Lemmas/AsmGlobRun.lean) is the
flattening of Props/C05Multi.lean in which
* a `.global` statement emits nothing at its place, and
* behind the statements of every included file stand the ALIAS statements `.const (includer's x) [file's x] v`, one for
  every `.global x` of that file in source order (`Glob.aliases`; `v` is the file's final value of `x`): from there on `x`
  in the includer denotes the symbol of the included file — for includer statements above the `.include` (forward
  reference: placeholder, rewritten at the includer's end) and below it alike.  The aliases of the main file define the
  real global table (name space `num 0`; the main file is instance 1, included files are numbered in preorder from 2).

Proved: `layout_refines_asm_global_partial` — for a project whose include tree is free of `.import/.export`, with arbitrary (no longer `plain`)
operands, and in which every `.global x` stands below a label / `.const` of the same file defining `x` or below an
`.include` of a file that itself declares `x` global (re-publication up the include chain to the real global table;
`Glob.GlobalProject`, `Glob.declOk`): a successful run's image is the `pass2` image of the reference on the flattened program with
aliases; every emitting statement of that program stands with its reference bytes at its reference address; if no
label stands at 2^32, `Ref.layout` is defined, equals the image, and its pass-1 table is `E`, which restricts to every
file instance's final table AND to the final global table (`pub [] A`).

PARTIAL, what is missing for the full `.global` stage:
(a) DECLARED-THEN-DEFINED (`.global x` above the definition of `x`): between declaration and definition the file's
    table holds `x` unvalued (`Lookup::Deferred`), an operand that mentions `x` is then SIMPLIFIED AROUND `x` instead of
    being left alone, and the retry evaluates the simplified tree.  The statement "bytes = the operand evaluated in the
    final table" is FALSE there: `.addr 16; .global x; .du32 x + 9223372036854775807 - 9223372036854775807; x:`
    assembles to `14 00 00 00` (model and `trias`), while the operand evaluated in the final table overflows — and the
    same file without `.global x`, or with `x:` moved to the top, is rejected with "arithmetic overflow".  A correct
    statement needs the hypothesis that the direct evaluation succeeds (then C08 `simp_sound` gives equal values) and a
    retry theorem for `Deferred` lookups, which Lemmas/SimpRetry.lean does not have (`NoDef` is assumed throughout);
(b) `.import` / `.export` (stage 3), in particular statements handed to the includer's queue and the `finalize` queue.
-/
namespace Trion.Asm
open Trion Trion.SegLayout Trion.Asm.Multi Trion.Asm.Glob
open Trion.Layout (MRun withTasks)

/-- C05 (pipeline, program level, `.include` + `.global` declared below the definition) -/
theorem layout_refines_asm_global_partial {num : Nat → Bytes → Nat} (hinj : NumInj num) (fs : Bytes → Option Bytes)
    (main data : Bytes) (hfs : fs main = some data) (hglob : GlobalProject fs maxDepth main data) (o : Outcome)
    (h : run fs main = .done o) (hs : o.success = true) :
    ∃ (els : List Element) (perr : Option ParseErr) (p : List Layout.Stmt) (E : Layout.Env) (t : Table) (n : Nat)
      (A : List (Bytes × Int)) (im' : Layout.Img),
      parseFile data = .ok (els, perr) ∧
      EnvRel (num 1) t E ∧ GFlat num fs encoder E 1 main t 2 none els p n ∧
      A.map Prod.fst = els.filterMap globalName ∧ (∀ xv ∈ A, t.val xv.1 = some xv.2) ∧
      EnvRel (num 0) (pub [] A) E ∧
      (∀ s ∈ p ++ aliases (num 0) (num 1) A, s.wf = true) ∧
      Layout.Ref.pass2 none [] (p ++ aliases (num 0) (num 1) A) = some im' ∧ (∀ a, Map.abs o.image a = im'.get a) ∧
      (∀ q s r, p ++ aliases (num 0) (num 1) A = q ++ s :: r → s.emits = true →
        ∃ x, Layout.Ref.cursorAfter none q = some x ∧
          ∀ i, i < (Layout.Ref.bytes x s).length → im'.get (x + i) = (Layout.Ref.bytes x s)[i]?) ∧
      (Layout.NoLabelAtTop (p ++ aliases (num 0) (num 1) A) →
        Layout.Ref.pass1 none [] (p ++ aliases (num 0) (num 1) A) = some E) := by
  have henc := encoder_len
  unfold run runWith at h
  rw [hfs] at h
  simp only at h
  cases haf : assembleFile fs encoder maxDepth Env.init St.init data main with
  | stop r => rw [haf] at h; cases r <;> cases h
  | ok pr =>
    obtain ⟨st, res⟩ := pr
    rw [haf] at h
    simp only at h
    have hmd : maxDepth = 63 + 1 := rfl
    rw [hmd] at hglob
    rw [hmd, assembleFile] at haf
    simp only [Env.init, List.length_cons, List.length_nil, Nat.zero_add, Nat.add_one_ne_zero, if_false,
      enterFile_false good_init, ne_eq, not_true_eq_false] at haf
    have hinc : IncOk (assembleFile fs encoder 63) := fun env st data path g => assembleFile_safe henc fs 63 true env st data path g
    cases hfb : fileBody fs encoder (assembleFile fs encoder 63) ⟨[main], main⟩ data st2 with
    | stop r => simp only [st2] at hfb; rw [hfb] at haf; cases haf
    | ok q =>
      obtain ⟨st4, res4⟩ := q
      have hfb0 := hfb
      simp only [st2] at hfb
      rw [hfb] at haf
      simp only [Out.ok.injEq, Prod.mk.injEq] at haf
      obtain ⟨hst, _⟩ := haf
      have hseg : st.seg = st4.seg := by rw [← hst]; rfl
      have herrs : st.errors = st4.errors := by rw [← hst]; rfl
      have hglob' : st.globalTasks = st4.globalTasks := by rw [← hst]; rfl
      cases hcl : Seg.closeSegment st.seg with
      | mk s' oc =>
        rw [hcl] at h
        cases oc with
        | diag e => simp only at h; cases h; simp [Outcome.success] at hs
        | panic => cases h
        | placed x =>
          exfalso
          have g4 := ((fileBody_safe henc hinc (env := ⟨[main], main⟩) rfl fs data good_st2).2 _ _ hfb0).1
          have := (Seg.close_spec (s := st.seg) (by rw [hseg]; exact g4.inv)).1
          rw [hcl] at this; cases this
        | ok =>
          simp only at h
          cases hfz : finalize encoder Env.init { st with seg := s' } with
          | stop r => rw [hfz] at h; cases r <;> cases h
          | ok z =>
            obtain ⟨st', fin⟩ := z
            rw [hfz] at h
            simp only [Result.done.injEq] at h
            subst h
            have hfin : fin = true := by simpa [Outcome.success] using hs
            have hfg := finalize_grew hfz
            have herr' : st'.errors = [] := hfg.2.mp hfin
            have herr0 : st.errors = [] := by
              have := hfg.1; rw [herr'] at this
              exact List.eq_nil_of_length_eq_zero (by simpa using this)
            have herr4 : st4.errors = [] := by rw [← herrs]; exact herr0
            -- the main file against the layout core
            obtain ⟨els, perr, tt, p, l3, l4, A, id', hparse, _, _, hm, hrt, g4, e1, _, e2, _, _, _, hwf, hAn, hAv, hal⟩ :=
              Glob.fileBody_sim (num := num) hinj henc fs (assembleFile fs encoder 63) (GlobalProject fs 63)
                (Glob.assembleFile_sim hinj henc fs 63) hinc (assembleFile_grew fs encoder 63) (assembleFile_rel fs encoder 63)
                ⟨[main], main⟩ main [] rfl data 0 1 (by omega) st2 st4 res4 {} hglob good_st2 ⟨fun _ => rfl, rfl⟩ rfl rfl rfl
                (fun _ _ _ => rfl) (fun n hh => by simp [st2, St.init, Table.find] at hh) (fun n => rfl) hfb0 herr4
            obtain ⟨la, a1, a2, a3, a4, _, a6⟩ := hal []
            -- close
            obtain ⟨l5, c1, c2, _, _⟩ := close_sim g4.inv a3
            rw [← hseg, hcl] at c2
            simp only at c2
            -- finalize with an empty global queue
            have hgl : st.globalTasks = [] := by rw [hglob', e2]; rfl
            have hst' : st'.seg = s' := by
              unfold finalize at hfz
              simp only [hgl, rounds, globalLoop, List.isEmpty_nil, if_true] at hfz
              cases hfz
              rfl
            -- the reference
            have hwhole : MRun ({} : Layout.State) (p ++ aliases (num 0) (num 1) A) la := .file hm hrt a1
            have hwfall : ∀ s ∈ p ++ aliases (num 0) (num 1) A, s.wf = true := by
              intro s hs'
              rcases List.mem_append.mp hs' with hs' | hs'
              · exact hwf s hs'
              · exact aliases_wf _ _ _ s hs'
            have rel0 : Layout.Rel ({} : Layout.State) ([] ++ ({} : Layout.State).tasks) none [] := Layout.rel_init
            obtain ⟨im', p2, rel3, _, hpl⟩ := Layout.mrun_placed hwhole [] none [] rel0 hwfall
            obtain ⟨_, _, _, p1⟩ := Layout.mrun_rel hwhole [] none [] rel0 hwfall
            obtain ⟨l5', c1', _, _, _, _, hg, _⟩ := Layout.closeSeg_spec la rel3.core
            rw [c1] at c1'; cases c1'
            have himg : ∀ a, Map.abs st'.seg.map a = im'.get a := by
              intro a
              rw [hst', c2.1 a, hg a]
              exact rel3.agree a (fun _ ht => by rw [a2] at ht; cases ht)
            have hp2 : Layout.Ref.pass2 none [] (p ++ aliases (num 0) (num 1) A) = some im' := by
              have := p2 []
              simp only [List.append_nil, Layout.Ref.pass2] at this
              exact this
            obtain ⟨hE, hF⟩ := a6 la.env (fun _ _ _ _ => rfl)
            refine ⟨els, perr, p, la.env, tt, id', A, im', hparse, hE, hF, hAn, hAv, a4, hwfall, hp2, himg, hpl, fun hl => ?_⟩
            have := p1 hl []
            simp only [List.append_nil, Layout.Ref.pass1] at this
            exact this

/-! ### non-vacuity -/

/-- a decidable form of `GlobalProject` -/
def globalProjectB (fs : Bytes → Option Bytes) : Nat → Bytes → Bytes → Bool
  | 0, _, _ => true
  | fuel + 1, path, data =>
    match parseFile data with
    | .ok (els, _) => declOk fs path [] els && els.all fun el => okGlob el &&
        match incTarget fs path el with
        | some (p', d') => globalProjectB fs fuel p' d'
        | none => true
    | .stop _ => true

theorem globalProject_of_B (fs : Bytes → Option Bytes) : ∀ (fuel : Nat) (path data : Bytes),
    globalProjectB fs fuel path data = true → GlobalProject fs fuel path data := by
  intro fuel
  induction fuel with
  | zero => intro _ _ _; trivial
  | succ fuel ih =>
    intro path data h els perr hp
    simp only [globalProjectB, hp, List.all_eq_true, Bool.and_eq_true] at h
    refine ⟨h.1, fun el hel => ?_⟩
    obtain ⟨h1, h3⟩ := h.2 el hel
    refine ⟨h1, fun p' d' ht => ih p' d' ?_⟩
    rw [ht] at h3
    exact h3

/-- the project: `m` = `.addr 16; .du16 y; .include "i"; .du16 y; x: ; .global x` and `i` = `y: ; .du16 y + 1; .global y` — the
main file uses the included file's global `y` ABOVE the `.include` (forward reference to a name defined in another
file) and BELOW it, and publishes its own `x` to the global table -/
def exGMainText : Bytes := bytesOf ".addr 16;\n.du16 y;\n.include \"i\";\n.du16 y;\nx:\n.global x;\n"
def exGIncText : Bytes := bytesOf "y:\n.du16 y + 1;\n.global y;\n"
def exGFs : Bytes → Option Bytes := fun p =>
  if p = bytesOf "m" then some exGMainText else if p = bytesOf "i" then some exGIncText else none

set_option maxRecDepth 100000 in
theorem exGProject_global : GlobalProject exGFs maxDepth (bytesOf "m") exGMainText :=
  globalProject_of_B _ _ _ _ (by decide +kernel)

set_option maxRecDepth 100000 in
/-- `Asm.run` on the project: success, no diagnostic; `y` = 18 above and below the `.include`, `y + 1` = 19 inside -/
theorem exGProject_run : (match run exGFs (bytesOf "m") with
    | .done o => o.success && o.diags.isEmpty && o.image == [(16, [0x12, 0x00, 0x13, 0x00, 0x12, 0x00])]
    | _ => false) = true := by decide +kernel

/-- the hypotheses of `layout_refines_asm_global_partial` hold of the project, so its conclusion does -/
example : ∃ o, run exGFs (bytesOf "m") = .done o ∧ o.success = true ∧
    ∃ (els : List Element) (perr : Option ParseErr) (p : List Layout.Stmt) (E : Layout.Env) (t : Table) (n : Nat)
      (A : List (Bytes × Int)) (im' : Layout.Img),
      parseFile exGMainText = .ok (els, perr) ∧ GFlat exNum2 exGFs encoder E 1 (bytesOf "m") t 2 none els p n ∧
      Layout.Ref.pass2 none [] (p ++ aliases (exNum2 0) (exNum2 1) A) = some im' ∧ ∀ a, Map.abs o.image a = im'.get a := by
  have hr := exGProject_run
  cases hrun : run exGFs (bytesOf "m") with
  | done o =>
    rw [hrun] at hr
    simp only [Bool.and_eq_true] at hr
    obtain ⟨els, perr, p, E, t, n, A, im', h1, _, h3, _, _, _, _, h8, h9, _⟩ :=
      layout_refines_asm_global_partial exNum2_inj exGFs (bytesOf "m") exGMainText rfl exGProject_global o hrun hr.1.1
    exact ⟨o, rfl, hr.1.1, els, perr, p, E, t, n, A, im', h1, h3, h8, h9⟩
  | noMain => rw [hrun] at hr; cases hr
  | panic => rw [hrun] at hr; cases hr
  | fuel => rw [hrun] at hr; cases hr
  | loop => rw [hrun] at hr; cases hr

/-- the flattened program of the project with its alias statements (main file: `y` = 10, `x` = 11; included file: `y` = 20;
global table: `x` = 1) and its reference layout: the image `Asm.run` produces; `y` of the main file IS `y` of the
included file -/
example : Layout.Ref.layout [.addr 16, .emit 2 [10] [0x12, 0x00], .label 20, .raw [0x13, 0x00], .const 10 [20] 18,
        .raw [0x12, 0x00], .label 11, .const 1 [11] 22] =
      some [(20, 0x12), (21, 0x00), (18, 0x13), (19, 0x00), (16, 0x12), (17, 0x00)] ∧
    Layout.Ref.pass1 none [] [.addr 16, .emit 2 [10] [0x12, 0x00], .label 20, .raw [0x13, 0x00], .const 10 [20] 18,
        .raw [0x12, 0x00], .label 11, .const 1 [11] 22] =
      some [(1, 22), (11, 22), (10, 18), (20, 18)] := ⟨by rfl, by rfl⟩

/-- a chain: `j` defines and publishes `z`, `i` includes `j` and publishes `z` again, `m` uses `z` ABOVE its `.include "i"` and
publishes it to the global table -/
def exCMain : Bytes := bytesOf ".addr 16;\n.du16 z;\n.include \"i\";\n.global z;\n"
def exCMid : Bytes := bytesOf ".include \"j\";\n.global z;\n"
def exCLeaf : Bytes := bytesOf "z:\n.du16 z + 1;\n.global z;\n"
def exCFs : Bytes → Option Bytes := fun p =>
  if p = bytesOf "m" then some exCMain else if p = bytesOf "i" then some exCMid
  else if p = bytesOf "j" then some exCLeaf else none

set_option maxRecDepth 100000 in
example : GlobalProject exCFs maxDepth (bytesOf "m") exCMain ∧
    (match run exCFs (bytesOf "m") with
      | .done o => o.success && o.diags.isEmpty && o.image == [(16, [0x12, 0x00, 0x13, 0x00])]
      | _ => false) = true :=
  ⟨globalProject_of_B _ _ _ _ (by decide +kernel), by decide +kernel⟩

end Trion.Asm
