import TrionModel.Lemmas.C06MentionDu
import TrionModel.Props.C06Then
/-!
# C06, third clause — undefined names, SYNTACTIC criterion

`Simp.mentions n e`: the identifier `n` occurs somewhere in the expression tree `e` (Lemmas/C06Mention.lean).  If `n` is
not a register name and the file's table has no entry for it, `evaluate` of `e` never returns `Ok`
(`Simp.evaluateE_mentions`): it is `NoSuchVariable` — leaving a tree that still mentions `n`, so the end-of-file retry
fails the same way — or an evaluation error met earlier in the tree (also reported).

* `invalid_du_expr_undefined_partial`: `.du8/.du16/.du32 e` with `e` ANY expression mentioning such a name (`x + 1`,
  `(2 * x) << 3`, `-x` …), generalising `invalid_du_undefined_partial` (`e = x`).
* `invalid_du_expr_undefined_prog_partial`: the same for the program `.addr A; .const n₁, e₁; …; .const nₖ, eₖ; .duN e` under
  purely syntactic hypotheses on the name: `n` is not a register name and is none of `n₁ … nₖ`.

`_partial`: the statement is the LAST one of the main file (see `invalid_instruction_undefined_partial` for why the
position claim needs it: a later Fatal statement skips the task loop).  Not proved: the hypothesis "no statement of the
include tree defines or declares `n`" for arbitrary programs (the table-absence invariant over `.include` / `.global` /
`.import` / `.export` is missing; `Asm.nodef_file` gives only `Unvalued`, and a name declared `.global` but never defined is
`Deferred`, not `NoSuchVariable`, and may even cancel: `x - x`).
-/
namespace Trion.C06
open Trion Trion.Asm Trion.Front Trion.C04

/-- C06u.1  **undefined name inside a larger data expression** -/
theorem invalid_du_expr_undefined_partial {fs : Bytes → Option Bytes} {main : Bytes} {S : Asm.St} {l c : Nat}
    {tbl : Asm.Table} (hl : S.locals = some tbl) (du : Asm.DU) (dn : Bytes) (hdn : dn = bytesOf du.name) {n : Bytes}
    (hr : isRegister n = false) (hf : tbl.find n = none) {e : Arg} (hm : Simp.mentions n e = true)
    (h : AtLast fs main ⟨l, c, .directive dn (Args.ofList [e])⟩ S) :
    ReportedAt fs main ⟨l, c, .directive dn (Args.ofList [e])⟩ := by
  obtain ⟨data, pre, hfs, hp, hpre, hq⟩ := h
  have hst : Asm.statement fs Asm.encoder (incOf fs) (envOf main) S ⟨l, c, .directive dn (Args.ofList [e])⟩ =
      Asm.duDirective du (envOf main) S l c [e] := by
    subst hdn
    simp only [Asm.statement, Show.toList_ofList]
    cases du
    · exact C04.directive_du8 ..
    · exact C04.directive_du16 ..
    · exact C04.directive_du32 ..
  refine run_last_diag fs main data hfs pre _ hp S hpre (by rw [hst]; exact Asm.duDirective_nf _ _ _ _ _ _) ?_
  intro S1 r1 hX
  rw [hst] at hX
  refine ⟨pat_of_eff (pat_quiet hq _ _ _) (Asm.duDirective_eff (env := envOf main) _ _ hX) (Asm.duDirective_quiet _ _ hX), ?_⟩
  have h0 : S.errors.length = 0 := by rw [hq.1]; rfl
  rcases du_mentions_stmt du (envOf main) S tbl (by simp) hl hq.2.2 l c n e hr hf hm S1 r1 hX with
    hE | ⟨rfl, hl1, _, d, hlt1, hda, _⟩
  · left; omega
  · right
    refine ⟨rfl, ?_⟩
    intro tasks S2 r2 htk hloop
    rw [hlt1] at htk
    cases htk
    have hrounds : Asm.rounds = 7 + 1 := rfl
    rw [hrounds] at hloop
    refine localLoop_first ?_ 7 .ok S2 r2 hloop
    intro st' r hrt
    have := du_mentions_task d (envOf main) { S1 with localTasks := some [] } tbl (by simp) hl1 n hda hr hf st' r hrt
    omega

/-- a name that is none of the defined names has no entry in the table the definitions build -/
theorem defsTable_find_none (n : Bytes) : ∀ (defs : List (Bytes × Arg)) (t t' : Asm.Table), t.find n = none →
    n ∉ defs.map Prod.fst → defsTable defs t = some t' → t'.find n = none := by
  intro defs
  induction defs with
  | nil => intro t t' h _ hd; simp only [defsTable, Option.some.injEq] at hd; subst hd; exact h
  | cons d ds ih =>
    intro t t' h hn hd
    obtain ⟨m, e⟩ := d
    simp only [List.map_cons, List.mem_cons, not_or] at hn
    simp only [defsTable] at hd
    split at hd
    · cases hd
    · split at hd
      · cases hd
      · split at hd
        · refine ih _ _ ?_ hn.2 hd
          rw [Asm.find_set, if_neg (fun e => hn.1 e.symm)]
          exact h
        · cases hd

/-- C06u.2  the program `.addr A; .const n₁, e₁; …; .duN e` where `e` mentions a name that is not a register name and
none of the defined names: not a success, every diagnostic at the `.duN` statement -/
theorem invalid_du_expr_undefined_prog_partial {fs : Bytes → Option Bytes} {main data : Bytes} (hfs : fs main = some data)
    {pre : List Element} {l c : Nat} (du : Asm.DU) (dn : Bytes) (hdn : dn = bytesOf du.name) {e : Arg}
    (hp : Asm.parseFile data = .ok (pre ++ [⟨l, c, .directive dn (Args.ofList [e])⟩], none))
    (A : Nat) (hA : A < 4294967296) (defs : List (Bytes × Arg)) (tbl : Asm.Table) (hdefs : defsTable defs [] = some tbl)
    (hpre : pre.map (·.val) = .directive (bytesOf "addr") (Args.ofList [.const A]) :: defs.map constStmt)
    {n : Bytes} (hr : isRegister n = false) (hn : n ∉ defs.map Prod.fst) (hm : Simp.mentions n e = true) :
    ReportedAt fs main ⟨l, c, .directive dn (Args.ofList [e])⟩ :=
  invalid_du_expr_undefined_partial (S := stateAt A tbl) rfl du dn hdn hr
    (defsTable_find_none n defs [] tbl rfl hn hdefs) hm (atLast_addr_defs hfs hp A hA defs tbl hdefs hpre)

-- non-vacuity: `(2 * x) << 3` and `-(1 + x)` mention `x`; `1 + 2` does not
example : Simp.mentions (bytesOf "x") (.bin .shl (.bin .mul (.const 2) (.ident (bytesOf "x"))) (.const 3)) = true := by decide
example : Simp.mentions (bytesOf "x") (.neg (.bin .add (.const 1) (.ident (bytesOf "x")))) = true := by decide
example : Simp.mentions (bytesOf "x") (.bin .add (.const 1) (.const 2)) = false := by decide

end Trion.C06
