import TrionModel.Lemmas.ParseSuffix
/-!
# C12 (parser clause) — a parsed statement carries the position of its first token

`Parse.all lo` models iterating `Parser::new(bytes)`; `lo.toks` are the tokens with the positions the
tokenizer gave them (C12's `tok_pos` says these are the positions in the text).
-/
namespace Trion.Parse

/-- C12.stmt_pos (one statement)  `do_next(first)`: a successfully parsed statement has the line and
column of its first token, which is a directive mark or an identifier. -/
theorem stmt_pos_element (lo : LexOut) (t : Token) (r : List Token) (el : Element) (r' : List Token)
    (h : element lo t r = .ok (el, r')) :
    el.line = t.line ∧ el.col = t.col ∧ (t.val = .dirMark ∨ ∃ s, t.val = .ident s) :=
  ⟨(element_ok h).2.1, (element_ok h).2.2.1, (element_ok h).2.2.2⟩

/-- C12.stmt_pos  Every element of a parser run is a statement read by `do_next` from the token where
the previous statement ended (the first one from the first token of the file), and carries the line
and column of that token (`Stmts`, see `Lemmas/ParseSuffix.lean`). -/
theorem stmt_pos (lo : LexOut) (els : List Element) (err : Option ParseErr) (h : all lo = .done els err) :
    Stmts lo lo.toks els := allLoop_stmts lo _ _ els err h

/-- … hence the element positions are the positions of tokens of the input, in input order, each a
directive mark or an identifier, the first one being the first token. -/
theorem stmt_pos_tokens (lo : LexOut) (els : List Element) (err : Option ParseErr) (h : all lo = .done els err) :
    ∃ firsts : List Token, firsts.Sublist lo.toks ∧
      els.map (fun e => (e.line, e.col)) = firsts.map (fun t => (t.line, t.col)) ∧
      (∀ t ∈ firsts, t.val = .dirMark ∨ ∃ s, t.val = .ident s) ∧
      (els ≠ [] → firsts.head? = lo.toks.head?) := allLoop_pos lo _ _ els err h

/-- non-vacuity: `N ;` at 3:4 -/
example : element ⟨[], none, 3, 9⟩ ⟨3, 4, .ident [78]⟩ [⟨3, 8, .term⟩] =
    .ok (⟨3, 4, .instruction [78] .nil⟩, []) := rfl

/-- non-vacuity: two statements `x : N ;` -/
example : ∃ e1 e2, all ⟨[⟨1, 1, .ident [120]⟩, ⟨1, 3, .labelMark⟩, ⟨2, 5, .ident [78]⟩, ⟨2, 6, .term⟩], none, 2, 7⟩ =
    .done [e1, e2] none ∧ (e1.line, e1.col) = (1, 1) ∧ (e2.line, e2.col) = (2, 5) := ⟨_, _, rfl, rfl, rfl⟩

end Trion.Parse
