import TrionModel.Lemmas.ParseAll
/-!
# C12 (parser clause) — a parsed statement carries the position of its first token
-/
namespace Trion.Parse

/-- C12.stmt_pos (one statement)  `do_next(first)`: a successfully parsed statement has the line and
column of its first token, which is a directive mark or an identifier. -/
theorem stmt_pos_element (lo : LexOut) (t : Token) (r : List Token) (el : Element) (r' : List Token)
    (h : element lo t r = .ok (el, r')) :
    el.line = t.line ∧ el.col = t.col ∧ (t.val = .dirMark ∨ ∃ s, t.val = .ident s) :=
  ⟨(element_ok h).2.1, (element_ok h).2.2.1, (element_ok h).2.2.2⟩

/-- C12.stmt_pos (first statement of a file) -/
theorem stmt_pos_first (lo : LexOut) (el : Element) (els : List Element) (err : Option ParseErr)
    (h : all lo = .done (el :: els) err) :
    ∃ t r, lo.toks = t :: r ∧ el.line = t.line ∧ el.col = t.col :=
  allLoop_first lo _ _ el els err h

/-- non-vacuity -/
example : element ⟨[], none, 3, 9⟩ ⟨3, 4, .ident [78]⟩ [⟨3, 8, .term⟩] =
    .ok (⟨3, 4, .instruction [78] .nil⟩, []) := rfl

end Trion.Parse
