//! C07 / C08 — correspondence of `trion::asm::simplify::{simplify, evaluate}` with the Lean model
//! `Trion.Simp`, and the property oracles evaluated directly on the implementation.
//!
//! Tree text form (shared with `Driver/Simp.lean`): prefix notation, one blank-separated token per node:
//! `c<int>` `i<hex>` `s<hex>` `+ - * / % & | ^ < >` `n` `!` `@` `q<k>` `f<k>:<hex>`.
//!
//! Replay inputs:
//!   `S <tree>`                          simplify (+ C07 oracle when the tree is closed)
//!   `E <binding>* T <tree>`             evaluate / the C08 two-order oracle; bindings `k:<hex>=<v>` known now,
//!                                       `l:<hex>=<v>` declared now and valued later, `r:<hex>` register
//!   `A <binding>* T <tree>`             end-to-end: `.du32` of the expression, `.const` before vs after
//!   `X <statement text>`                C07 text stream: parse the statement with the real parser, evaluate its argument,
//!                                       compare with the value under the DOCUMENTED precedence (+ `.du32` bytes)
// catch-all arms keep the harness compiling when the crate adds a variant to one of its error enums (the outcome is then `unknown:<Debug>`)
#![allow(unreachable_patterns)]
use std::collections::BTreeMap;
use std::path::PathBuf;
use std::sync::Arc;

use trion::arm6m::Arm6M;
use trion::asm::arcob::Arcob;
use trion::asm::constant::Realm;
use trion::asm::directive::DirectiveList;
use trion::asm::instr::InstructionSet;
use trion::asm::simplify::{evaluate, neutralize, simplify, EvalError, Evaluation, OverflowError, SimplifyError};
use trion::asm::Context;
use trion::text::parse::{Argument, ArgumentType, ElementValue, Parser};
use trion::text::token::Number;

use crate::common::*;
use std::fmt::Write as _;

// ---------------------------------------------------------------------------------------------------------
// trees

#[derive(Clone, Debug, PartialEq, Eq)]
enum T
{
	C(i64),
	I(String),
	S(String),
	Bin(u8, Box<T>, Box<T>),
	Neg(Box<T>),
	Not(Box<T>),
	Addr(Box<T>),
	Seq(Vec<T>),
	Func(String, Vec<T>),
}

const OPS: [&str; 10] = ["+", "-", "*", "/", "%", "&", "|", "^", "<", ">"];
const OP_NAMES: [&str; 10] = ["add", "sub", "mul", "div", "mod", "and", "or", "xor", "shl", "shr"];
const ADD: u8 = 0;
const SUB: u8 = 1;
const MUL: u8 = 2;
const DIV: u8 = 3;
const MOD: u8 = 4;
const AND: u8 = 5;
const OR: u8 = 6;
const XOR: u8 = 7;
const SHL: u8 = 8;
const SHR: u8 = 9;

fn bin(op: u8, l: T, r: T) -> T {T::Bin(op, Box::new(l), Box::new(r))}
fn id(s: &str) -> T {T::I(s.to_owned())}

impl T
{
	fn tokens_into(&self, out: &mut Vec<String>)
	{
		match self
		{
			T::C(v) => out.push(format!("c{v}")),
			T::I(s) => out.push(format!("i{}", hex(s.as_bytes()))),
			T::S(s) => out.push(format!("s{}", hex(s.as_bytes()))),
			T::Bin(op, l, r) =>
			{
				out.push(OPS[*op as usize].to_owned());
				l.tokens_into(out);
				r.tokens_into(out);
			},
			T::Neg(a) => {out.push("n".to_owned()); a.tokens_into(out);},
			T::Not(a) => {out.push("!".to_owned()); a.tokens_into(out);},
			T::Addr(a) => {out.push("@".to_owned()); a.tokens_into(out);},
			T::Seq(v) =>
			{
				out.push(format!("q{}", v.len()));
				for a in v {a.tokens_into(out);}
			},
			T::Func(n, v) =>
			{
				out.push(format!("f{}:{}", v.len(), hex(n.as_bytes())));
				for a in v {a.tokens_into(out);}
			},
		}
	}

	fn text(&self) -> String
	{
		let mut v = Vec::new();
		self.tokens_into(&mut v);
		v.join(" ")
	}

	fn parse(toks: &mut std::slice::Iter<&str>) -> Option<T>
	{
		let t = *toks.next()?;
		if let Some(op) = OPS.iter().position(|o| *o == t)
		{
			let l = T::parse(toks)?;
			let r = T::parse(toks)?;
			return Some(bin(op as u8, l, r));
		}
		match t
		{
			"n" => return Some(T::Neg(Box::new(T::parse(toks)?))),
			"!" => return Some(T::Not(Box::new(T::parse(toks)?))),
			"@" => return Some(T::Addr(Box::new(T::parse(toks)?))),
			_ => (),
		}
		let (head, body) = t.split_at(1);
		let name = |h: &str| unhex(h).and_then(|b| String::from_utf8(b).ok());
		match head
		{
			"c" => body.parse::<i64>().ok().map(T::C),
			"i" => name(body).map(T::I),
			"s" => name(body).map(T::S),
			"q" =>
			{
				let k: usize = body.parse().ok()?;
				let mut v = Vec::new();
				for _ in 0..k {v.push(T::parse(toks)?);}
				Some(T::Seq(v))
			},
			"f" =>
			{
				let (k, n) = body.split_once(':')?;
				let k: usize = k.parse().ok()?;
				let n = name(n)?;
				let mut v = Vec::new();
				for _ in 0..k {v.push(T::parse(toks)?);}
				Some(T::Func(n, v))
			},
			_ => None,
		}
	}

	fn parse_text(s: &str) -> Option<T>
	{
		let toks: Vec<&str> = s.split(' ').filter(|w| !w.is_empty()).collect();
		let mut it = toks.iter();
		let t = T::parse(&mut it)?;
		if it.next().is_some() {None} else {Some(t)}
	}

	fn to_arg(&self) -> Argument<'static>
	{
		let arc = |s: &str| -> Arcob<'static, str> {Arcob::Arced(Arc::from(s))};
		let b = |t: &T| Box::new(t.to_arg());
		match self
		{
			T::C(v) => Argument::Constant(Number::Integer(*v)),
			T::I(s) => Argument::Identifier(arc(s)),
			T::S(s) => Argument::String(arc(s)),
			T::Bin(op, l, r) =>
			{
				let (lhs, rhs) = (b(l), b(r));
				match *op
				{
					ADD => Argument::Add{lhs, rhs},
					SUB => Argument::Subtract{lhs, rhs},
					MUL => Argument::Multiply{lhs, rhs},
					DIV => Argument::Divide{lhs, rhs},
					MOD => Argument::Modulo{lhs, rhs},
					AND => Argument::BitAnd{lhs, rhs},
					OR => Argument::BitOr{lhs, rhs},
					XOR => Argument::BitXor{lhs, rhs},
					SHL => Argument::LeftShift{lhs, rhs},
					_ => Argument::RightShift{lhs, rhs},
				}
			},
			T::Neg(a) => Argument::Negate(b(a)),
			T::Not(a) => Argument::Not(b(a)),
			T::Addr(a) => Argument::Address(b(a)),
			T::Seq(v) => Argument::Sequence(v.iter().map(T::to_arg).collect()),
			T::Func(n, v) => Argument::Function{name: arc(n), args: v.iter().map(T::to_arg).collect()},
		}
	}

	fn from_arg(a: &Argument) -> T
	{
		let f = |x: &Argument| Box::new(T::from_arg(x));
		match a
		{
			Argument::Constant(Number::Integer(v)) => T::C(*v),
			Argument::Identifier(s) => T::I(s.as_ref().to_owned()),
			Argument::String(s) => T::S(s.as_ref().to_owned()),
			Argument::Add{lhs, rhs} => T::Bin(ADD, f(lhs), f(rhs)),
			Argument::Subtract{lhs, rhs} => T::Bin(SUB, f(lhs), f(rhs)),
			Argument::Multiply{lhs, rhs} => T::Bin(MUL, f(lhs), f(rhs)),
			Argument::Divide{lhs, rhs} => T::Bin(DIV, f(lhs), f(rhs)),
			Argument::Modulo{lhs, rhs} => T::Bin(MOD, f(lhs), f(rhs)),
			Argument::BitAnd{lhs, rhs} => T::Bin(AND, f(lhs), f(rhs)),
			Argument::BitOr{lhs, rhs} => T::Bin(OR, f(lhs), f(rhs)),
			Argument::BitXor{lhs, rhs} => T::Bin(XOR, f(lhs), f(rhs)),
			Argument::LeftShift{lhs, rhs} => T::Bin(SHL, f(lhs), f(rhs)),
			Argument::RightShift{lhs, rhs} => T::Bin(SHR, f(lhs), f(rhs)),
			Argument::Negate(v) => T::Neg(f(v)),
			Argument::Not(v) => T::Not(f(v)),
			Argument::Address(v) => T::Addr(f(v)),
			Argument::Sequence(v) => T::Seq(v.iter().map(T::from_arg).collect()),
			Argument::Function{name, args} => T::Func(name.as_ref().to_owned(), args.iter().map(T::from_arg).collect()),
		}
	}

	fn walk(&self, f: &mut dyn FnMut(&T))
	{
		f(self);
		match self
		{
			T::Bin(_, l, r) => {l.walk(f); r.walk(f);},
			T::Neg(a) | T::Not(a) | T::Addr(a) => a.walk(f),
			T::Seq(v) | T::Func(_, v) => for a in v {a.walk(f);},
			_ => (),
		}
	}

	fn consts(&self) -> usize
	{
		let mut n = 0;
		self.walk(&mut |t| if matches!(t, T::C(_)) {n += 1;});
		n
	}

	fn idents(&self) -> Vec<String>
	{
		let mut v: Vec<String> = Vec::new();
		self.walk(&mut |t| if let T::I(s) = t {if !v.contains(s) {v.push(s.clone());}});
		v
	}

	fn arithmetic(&self) -> bool
	{
		let mut ok = true;
		self.walk(&mut |t| if matches!(t, T::S(_) | T::Addr(_) | T::Seq(_) | T::Func(..)) {ok = false;});
		ok
	}

	fn subst(&self, env: &BTreeMap<String, i64>) -> T
	{
		let b = |t: &T| Box::new(t.subst(env));
		match self
		{
			T::I(s) => match env.get(s) {Some(v) => T::C(*v), None => self.clone()},
			T::Bin(op, l, r) => T::Bin(*op, b(l), b(r)),
			T::Neg(a) => T::Neg(b(a)),
			T::Not(a) => T::Not(b(a)),
			T::Addr(a) => T::Addr(b(a)),
			T::Seq(v) => T::Seq(v.iter().map(|t| t.subst(env)).collect()),
			T::Func(n, v) => T::Func(n.clone(), v.iter().map(|t| t.subst(env)).collect()),
			_ => self.clone(),
		}
	}

	/// source text, fully parenthesised; negative literals are written through unary minus
	fn source(&self) -> String
	{
		match self
		{
			T::C(v) =>
			{
				if *v >= 0 {format!("{v}")}
				else if *v == i64::MIN {"(-9223372036854775807 - 1)".to_owned()}
				else {format!("(-{})", -*v)}
			},
			T::I(s) => s.clone(),
			T::S(s) => format!("\"{s}\""),
			T::Bin(op, l, r) =>
			{
				let o = match *op {SHL => "<<", SHR => ">>", o => OPS[o as usize]};
				format!("({} {} {})", l.source(), o, r.source())
			},
			T::Neg(a) => format!("(-{})", a.source()),
			T::Not(a) => format!("(!{})", a.source()),
			T::Addr(a) => format!("[{}]", a.source()),
			T::Seq(v) => format!("{{{}}}", v.iter().map(T::source).collect::<Vec<_>>().join(", ")),
			T::Func(n, v) => format!("{n}({})", v.iter().map(T::source).collect::<Vec<_>>().join(", ")),
		}
	}
}

// ---------------------------------------------------------------------------------------------------------
// the real code, canonicalised

fn ty_name(t: ArgumentType) -> String {format!("{t:?}").to_lowercase()}

fn ov_name(e: &OverflowError) -> &'static str
{
	match e
	{
		OverflowError::Add{..} => "add",
		OverflowError::Negate => "negate",
		OverflowError::Subtract{..} => "subtract",
		OverflowError::Multiply{..} => "multiply",
		OverflowError::DivideByZero(..) => "dividebyzero",
		OverflowError::Divide{..} => "divide",
		OverflowError::ModuloByZero(..) => "modulobyzero",
		OverflowError::Modulo{..} => "modulo",
		OverflowError::LeftShift{..} => "leftshift",
		OverflowError::RightShift{..} => "rightshift",
		_ => "unknown",
	}
}

/// outcome of one real call
#[derive(Clone, Debug, PartialEq)]
enum Out
{
	Ok{changed: bool, cause: Option<String>, tree: T},
	Err(String),
	Panic(String),
}

impl Out
{
	fn simp_text(&self) -> String
	{
		match self
		{
			Out::Ok{changed, tree, ..} => format!("ok {} {}", *changed as u8, tree.text()),
			Out::Err(e) => format!("err {e}"),
			Out::Panic(_) => "panic".to_owned(),
		}
	}
	fn eval_text(&self) -> String
	{
		match self
		{
			Out::Ok{changed, cause, tree} => format!("ok {} {} {}", *changed as u8,
				cause.as_ref().map(|c| hex(c.as_bytes())).unwrap_or_else(|| "none".to_owned()), tree.text()),
			Out::Err(e) => format!("err {e}"),
			Out::Panic(_) => "panic".to_owned(),
		}
	}
	fn value(&self) -> Option<i64>
	{
		match self
		{
			Out::Ok{tree: T::C(v), cause: None, ..} => Some(*v),
			_ => None,
		}
	}
	fn tree(&self) -> Option<&T>
	{
		match self {Out::Ok{tree, ..} => Some(tree), _ => None}
	}
}

fn real_simplify(t: &T) -> Out
{
	let mut a = t.to_arg();
	match guarded(|| {let r = simplify(&mut a); (r, T::from_arg(&a))})
	{
		Ok((Ok(changed), tree)) => Out::Ok{changed, cause: None, tree},
		Ok((Err(SimplifyError::BadType{kind, op}), _)) => Out::Err(format!("badtype {} {}", ty_name(kind), ty_name(op))),
		Ok((Err(SimplifyError::Overflow(e)), _)) => Out::Err(format!("overflow {}", ov_name(&e))),
		Ok((Err(e), _)) => Out::Err(format!("unknown:{e:?}")),
		Err(p) => Out::Panic(p),
	}
}

/// `neutralize` called directly (public; inside the crate it only runs on trees `simplify_raw` has type-checked, so its own
/// operand-type refusals are reached only here)
fn real_neutralize(t: &T) -> Out
{
	let mut a = t.to_arg();
	match guarded(|| {let r = neutralize(&mut a); (r, T::from_arg(&a))})
	{
		Ok((Ok(changed), tree)) => Out::Ok{changed, cause: None, tree},
		Ok((Err(SimplifyError::BadType{kind, op}), _)) => Out::Err(format!("badtype {} {}", ty_name(kind), ty_name(op))),
		Ok((Err(SimplifyError::Overflow(e)), _)) => Out::Err(format!("overflow {}", ov_name(&e))),
		Ok((Err(e), _)) => Out::Err(format!("unknown:{e:?}")),
		Err(p) => Out::Panic(p),
	}
}

/// what the harness knows about an identifier
#[derive(Clone, Debug, PartialEq)]
enum Bind
{
	Known(i64),
	Later(i64),
	Reg,
}

type Binds = BTreeMap<String, Bind>;

/// `evaluate` in the global realm of a fresh `Context` whose table holds `known` as values and `deferred` as declared
fn real_evaluate(t: &T, known: &BTreeMap<String, i64>, deferred: &[String]) -> Out
{
	let directives = DirectiveList::generate();
	let mut a = t.to_arg();
	let r = guarded(||
	{
		let mut ctx = Context::new(&Arm6M, &directives);
		for (n, v) in known {ctx.insert_constant(n, *v, Realm::Global).expect("insert_constant");}
		for n in deferred {ctx.defer_constant(n, Realm::Global).expect("defer_constant");}
		assert!(!ctx.has_curr_file());
		let r = evaluate(&mut a, &ctx);
		(r, T::from_arg(&a))
	});
	match r
	{
		Ok((Ok(Evaluation::Complete{changed}), tree)) => Out::Ok{changed, cause: None, tree},
		Ok((Ok(Evaluation::Deferred{changed, cause}), tree)) => Out::Ok{changed, cause: Some(cause.as_ref().to_owned()), tree},
		Ok((Err(EvalError::NoSuchVariable{name, ..}), tree)) => Out::Err(format!("nosuch {} {}", hex(name.as_ref().as_bytes()), tree.text())),
		Ok((Err(EvalError::BadType{kind, op}), _)) => Out::Err(format!("badtype {} {}", ty_name(kind), ty_name(op))),
		Ok((Err(EvalError::Overflow(e)), _)) => Out::Err(format!("overflow {}", ov_name(&e))),
		Ok((Err(e), _)) => Out::Err(format!("unknown:{e:?}")),
		Err(p) => Out::Panic(p),
	}
}

fn is_reg(name: &str) -> bool {Arm6M.is_register(name)}

// ---------------------------------------------------------------------------------------------------------
// oracles

/// C07: the value the property text demands, by `i128` arithmetic
#[derive(Clone, Copy, Debug, PartialEq)]
enum Spec
{
	Val(i64),
	Error,
	/// one of the corners the property leaves open (or not an expression over literals)
	Open,
}

fn fit(v: i128) -> Spec {if v >= i64::MIN as i128 && v <= i64::MAX as i128 {Spec::Val(v as i64)} else {Spec::Error}}

fn spec(t: &T) -> Spec
{
	match t
	{
		T::C(v) => Spec::Val(*v),
		T::Bin(op, l, r) =>
		{
			// an open corner anywhere takes the whole tree out of the property's scope
			let (sl, sr) = (spec(l), spec(r));
			if sl == Spec::Open || sr == Spec::Open {return Spec::Open;}
			let a = match sl {Spec::Val(a) => a as i128, o => return o};
			let b = match sr {Spec::Val(b) => b as i128, o => return o};
			match *op
			{
				ADD => fit(a + b),
				SUB => fit(a - b),
				MUL => fit(a * b),
				DIV => if b == 0 {Spec::Error} else {fit(a / b)},
				MOD =>
				{
					if b == 0 {Spec::Error}
					else if a == i64::MIN as i128 && b == -1 {Spec::Open}
					else {fit(a % b)}
				},
				AND => Spec::Val((a as i64) & (b as i64)),
				OR => Spec::Val((a as i64) | (b as i64)),
				XOR => Spec::Val((a as i64) ^ (b as i64)),
				SHL =>
				{
					if b < 0 || b >= 64 {Spec::Error}
					else if a < 0 {Spec::Open}
					else
					{
						let r = a * (1i128 << b);
						if r >= (1i128 << 63) {Spec::Open} else {Spec::Val(r as i64)}
					}
				},
				_ =>
				{
					if b < 0 || b >= 64 {Spec::Error}
					else if a < 0 {Spec::Open}
					else {Spec::Val((a / (1i128 << b)) as i64)}
				},
			}
		},
		T::Neg(a) => match spec(a) {Spec::Val(a) => fit(-(a as i128)), o => o},
		T::Not(a) => match spec(a) {Spec::Val(a) => Spec::Val(!a), o => o},
		_ => Spec::Open,
	}
}

/// C08: the value of a fully substituted expression by the machine rules (None = no value)
fn refval(t: &T, env: &BTreeMap<String, i64>) -> Option<i64>
{
	match t
	{
		T::C(v) => Some(*v),
		T::I(s) => env.get(s).copied(),
		T::Bin(op, l, r) =>
		{
			let a = refval(l, env)?;
			let b = refval(r, env)?;
			match *op
			{
				ADD => a.checked_add(b),
				SUB => a.checked_sub(b),
				MUL => a.checked_mul(b),
				DIV => if b == 0 {None} else {a.checked_div(b)},
				MOD => if b == 0 {None} else {a.checked_rem(b)},
				AND => Some(a & b),
				OR => Some(a | b),
				XOR => Some(a ^ b),
				SHL => if (0..64).contains(&b) {Some(((a as i128) << b) as i64)} else {None},
				_ => if (0..64).contains(&b) {Some(a >> b)} else {None},
			}
		},
		T::Neg(a) => refval(a, env)?.checked_neg(),
		T::Not(a) => Some(!refval(a, env)?),
		_ => None,
	}
}

// ---------------------------------------------------------------------------------------------------------
// checks

fn model_binding_tokens(binds: &Binds, later_known: bool) -> String
{
	let mut v = Vec::new();
	for (n, b) in binds
	{
		let h = hex(n.as_bytes());
		v.push(match b
		{
			Bind::Known(x) => format!("k:{h}={x}"),
			Bind::Later(x) => if later_known {format!("k:{h}={x}")} else {format!("d:{h}")},
			Bind::Reg => format!("r:{h}"),
		});
	}
	v.join(" ")
}

fn replay_binding_tokens(binds: &Binds) -> String
{
	binds.iter().map(|(n, b)|
	{
		let h = hex(n.as_bytes());
		match b
		{
			Bind::Known(x) => format!("k:{h}={x}"),
			Bind::Later(x) => format!("l:{h}={x}"),
			Bind::Reg => format!("r:{h}"),
		}
	}).collect::<Vec<_>>().join(" ")
}

fn parse_bindings(words: &[&str]) -> Option<Binds>
{
	let mut m = Binds::new();
	for w in words
	{
		let (kind, rest) = w.split_once(':')?;
		let name = |h: &str| unhex(h).and_then(|b| String::from_utf8(b).ok());
		match kind
		{
			"k" | "l" =>
			{
				let (n, v) = rest.split_once('=')?;
				let v: i64 = v.parse().ok()?;
				m.insert(name(n)?, if kind == "k" {Bind::Known(v)} else {Bind::Later(v)});
			},
			"r" => {m.insert(name(rest)?, Bind::Reg);},
			_ => return None,
		}
	}
	Some(m)
}

fn env_now(binds: &Binds) -> (BTreeMap<String, i64>, Vec<String>)
{
	let mut known = BTreeMap::new();
	let mut deferred = Vec::new();
	for (n, b) in binds
	{
		match b
		{
			Bind::Known(v) => {known.insert(n.clone(), *v);},
			Bind::Later(_) => deferred.push(n.clone()),
			Bind::Reg => (),
		}
	}
	(known, deferred)
}

fn env_all(binds: &Binds) -> BTreeMap<String, i64>
{
	binds.iter().filter_map(|(n, b)| match b {Bind::Known(v) | Bind::Later(v) => Some((n.clone(), *v)), Bind::Reg => None}).collect()
}

/// S-case: `simplify` correspondence, and for closed trees the C07 oracle on `simplify` and `evaluate`
fn check_simplify(cx: &mut Cx, t: &T, replies: &[String])
{
	let input = format!("S {}", t.text());
	let out = real_simplify(t);
	let txt = out.simp_text();
	cx.report.case(if matches!(out, Out::Ok{changed: true, ..}) {Some(&txt)} else {None});
	cx.report.compare("model.simp.simplify", &input, &replies[0], &txt);
	if let Out::Panic(p) = &out
	{
		cx.report.oracle_fail(input.clone(), format!("simplify panicked: {p}"));
	}
	match &out
	{
		Out::Ok{..} => cx.report.hit("simplify:ok"),
		Out::Err(e) => cx.report.hit(&format!("simplify:err {}", e.split(' ').next().unwrap_or(""))),
		Out::Panic(_) => cx.report.hit("simplify:panic"),
	}
	// `neutralize` on the same tree (the last reply): correspondence, no panic, and on closed arithmetic trees the value is kept
	let neu = real_neutralize(t);
	cx.report.compare("model.simp.neutralize", &format!("N {}", t.text()), replies.last().unwrap(), &neu.simp_text());
	match &neu
	{
		Out::Ok{tree, ..} =>
		{
			cx.report.hit("neutralize:ok");
			if t.arithmetic() && t.idents().is_empty() && tree.arithmetic()
			{
				if let (Spec::Val(a), Spec::Val(b)) = (spec(t), spec(tree))
				{
					if a != b {cx.report.oracle_fail(format!("N {}", t.text()), format!("neutralize changes the value of the expression from {a} to {b}: {}", tree.text()));}
				}
			}
		},
		Out::Err(e) => cx.report.hit(&format!("neutralize:err {}", e.split(' ').take(2).collect::<Vec<_>>().join(" "))),
		Out::Panic(p) => {cx.report.hit("neutralize:panic"); cx.report.oracle_fail(format!("N {}", t.text()), format!("neutralize panicked: {p}"));},
	}
	if t.arithmetic() && t.idents().is_empty()
	{
		// C07 oracle, on simplify and on evaluate with an empty table
		let ev = real_evaluate(t, &BTreeMap::new(), &[]);
		cx.report.compare("model.simp.evaluate", &input, &replies[1], &ev.eval_text());
		let want = spec(t);
		let want_txt = match want
		{
			Spec::Val(v) => format!("ok {v}"),
			Spec::Error => "err".to_owned(),
			Spec::Open => "open".to_owned(),
		};
		// the Lean specification agrees with the harness oracle
		let lean_spec = &replies[2];
		let lean_scope = &replies[3];
		let lean_txt = if lean_scope == "0" {"open".to_owned()}
			else if let Some(v) = lean_spec.strip_prefix("ok ") {format!("ok {v}")}
			else {"err".to_owned()};
		// a tree is out of scope for the harness as soon as the first corner is met; Lean's inScope looks at
		// every node whose operands have values, so "open" must coincide
		cx.report.compare("spec.arith.eval", &input, &lean_txt, &want_txt);
		for (which, o) in [("simplify", &out), ("evaluate", &ev)]
		{
			match (want, o)
			{
				(Spec::Open, _) => cx.report.hit("c07:open-corner"),
				(Spec::Val(v), Out::Ok{tree: T::C(w), cause: None, ..}) if *w == v => cx.report.hit("c07:value"),
				(Spec::Error, Out::Err(e)) if e.starts_with("overflow") => cx.report.hit("c07:error"),
				(w, o) => cx.report.oracle_fail(input.clone(), format!("{which}: checked 64-bit arithmetic demands {w:?}, implementation gives {}", o.eval_text())),
			}
		}
	}
}

fn simplify_requests(t: &T) -> Vec<String>
{
	let txt = t.text();
	let mut v = vec![format!("simp simplify {txt}")];
	if t.arithmetic() && t.idents().is_empty()
	{
		v.push(format!("simp evaluate T {txt}"));
		v.push(format!("simp spec {txt}"));
		v.push(format!("simp inscope {txt}"));
	}
	v.push(format!("simp neutralize {txt}"));
	v
}

/// E-case: evaluate correspondence and the two-order oracle of C08
fn check_orders(cx: &mut Cx, t: &T, binds: &Binds)
{
	let input = format!("E {} T {}", replay_binding_tokens(binds), t.text());
	let (known, deferred) = env_now(binds);
	let all = env_all(binds);
	let btok_now = model_binding_tokens(binds, false);
	let btok_all = model_binding_tokens(binds, true);

	// order 1: simplify first (nothing known), then evaluate with what is known now, then with everything
	let s1 = real_simplify(t);
	let m = cx.model.ask(&format!("simp simplify {}", t.text()));
	cx.report.compare("model.simp.simplify", &input, &m, &s1.simp_text());
	// order 2: evaluate now directly
	let e_now = real_evaluate(t, &known, &deferred);
	let m = cx.model.ask(&format!("simp evaluatet {btok_now} T {}", t.text()));
	cx.report.compare("model.simp.evaluate", &input, &m, &e_now.eval_text());
	// order 3: everything known from the start
	let e_all = real_evaluate(t, &all, &[]);
	let m = cx.model.ask(&format!("simp evaluatet {btok_all} T {}", t.text()));
	cx.report.compare("model.simp.evaluate", &input, &m, &e_all.eval_text());
	// substitute everything first, then simplify: the same tree as order 3
	let sub = real_simplify(&t.subst(&all));

	let mut finals: Vec<(&str, Out)> = Vec::new();
	// simplify → evaluate(now) → evaluate(all)
	if let Some(t1) = s1.tree()
	{
		let e1 = real_evaluate(t1, &known, &deferred);
		let m = cx.model.ask(&format!("simp evaluatet {btok_now} T {}", t1.text()));
		cx.report.compare("model.simp.evaluate", &format!("E {} T {}", replay_binding_tokens(binds), t1.text()), &m, &e1.eval_text());
		match e1.tree()
		{
			Some(t2) =>
			{
				let e2 = real_evaluate(t2, &all, &[]);
				let m = cx.model.ask(&format!("simp evaluatet {btok_all} T {}", t2.text()));
				cx.report.compare("model.simp.evaluate", &format!("E {} T {}", replay_binding_tokens(binds), t2.text()), &m, &e2.eval_text());
				finals.push(("simplify;evaluate(now);evaluate(all)", e2));
			},
			None => finals.push(("simplify;evaluate(now)", e1)),
		}
		// simplify → evaluate(all)
		finals.push(("simplify;evaluate(all)", real_evaluate(t1, &all, &[])));
	}
	else {finals.push(("simplify", s1.clone()));}
	// evaluate(now) → evaluate(all)
	match e_now.tree()
	{
		Some(t1) => finals.push(("evaluate(now);evaluate(all)", real_evaluate(t1, &all, &[]))),
		None => finals.push(("evaluate(now)", e_now.clone())),
	}
	// inside a file an unknown name is NoSuchVariable: the statement keeps the partly evaluated tree and retries later
	{
		let e_local = real_evaluate(t, &known, &[]);
		let btok_local: String = binds.iter().filter_map(|(n, b)| match b
		{
			Bind::Known(x) => Some(format!("k:{}={x}", hex(n.as_bytes()))),
			Bind::Reg => Some(format!("r:{}", hex(n.as_bytes()))),
			Bind::Later(_) => None,
		}).collect::<Vec<_>>().join(" ");
		let m = cx.model.ask(&format!("simp evaluatet {btok_local} T {}", t.text()));
		cx.report.compare("model.simp.evaluateT", &input, &m, &e_local.eval_text());
		match &e_local
		{
			Out::Err(e) if e.starts_with("nosuch ") =>
			{
				cx.report.hit("retry:nosuch");
				let tree_txt = e.splitn(3, ' ').nth(2).unwrap_or("");
				match T::parse_text(tree_txt)
				{
					Some(tp) => finals.push(("evaluate(now, unknown names);retry evaluate(all)", real_evaluate(&tp, &all, &[]))),
					None => cx.report.oracle_fail(input.clone(), format!("cannot re-read the tree left by NoSuchVariable: {tree_txt}")),
				}
			},
			Out::Ok{tree, ..} => finals.push(("evaluate(now, unknown names);evaluate(all)", real_evaluate(tree, &all, &[]))),
			_ => (),
		}
	}
	finals.push(("evaluate(all)", e_all.clone()));
	finals.push(("substitute;simplify", sub.clone()));

	// never a panic
	for (name, o) in finals.iter()
	{
		if let Out::Panic(p) = o {cx.report.oracle_fail(input.clone(), format!("{name} panicked: {p}"));}
	}
	// all orders that produce a value produce the same value, and it is the value of the expression
	let truth = if t.arithmetic() {refval(t, &all)} else {None};
	let mut values: Vec<(&str, i64)> = finals.iter().filter_map(|(n, o)| o.value().map(|v| (*n, v))).collect();
	if let Some(v) = truth {values.push(("direct checked evaluation", v));}
	if let Some((n0, v0)) = values.first().copied()
	{
		for (n, v) in values.iter().skip(1)
		{
			if *v != v0
			{
				cx.report.oracle_fail(input.clone(), format!("order \"{n0}\" gives {v0} but \"{n}\" gives {v}"));
				break;
			}
		}
	}
	// with everything known the direct order must deliver the value whenever there is one (C07 on substituted trees)
	if let Some(v) = truth
	{
		if e_all.value() != Some(v) || sub.value() != Some(v)
		{
			cx.report.oracle_fail(input.clone(), format!("the expression has the value {v}; evaluate gives {}, substitute;simplify gives {}", e_all.eval_text(), sub.simp_text()));
		}
	}
	else if t.arithmetic() && binds.values().all(|b| *b != Bind::Reg) && t.idents().iter().all(|n| binds.contains_key(n))
	{
		// no value: the direct order must report an error, not a number
		if let Some(w) = e_all.value()
		{
			cx.report.oracle_fail(input.clone(), format!("the expression overflows / divides by zero but evaluate gives {w}"));
		}
	}
	// statistics
	let n_val = finals.iter().filter(|(_, o)| o.value().is_some()).count();
	cx.report.hit(if n_val == finals.len() {"orders:all-value"} else if n_val == 0 {"orders:no-value"} else {"orders:some-value"});
	match &e_all
	{
		Out::Ok{tree: T::C(_), ..} => cx.report.hit("final:constant"),
		Out::Ok{..} => cx.report.hit("final:symbolic"),
		Out::Err(e) => cx.report.hit(&format!("final:err {}", e.split(' ').next().unwrap_or(""))),
		Out::Panic(_) => cx.report.hit("final:panic"),
	}
	match &s1
	{
		Out::Ok{tree: T::C(_), ..} => cx.report.hit("simplified:constant"),
		Out::Ok{changed: true, ..} => cx.report.hit("simplified:changed"),
		Out::Ok{..} => cx.report.hit("simplified:unchanged"),
		Out::Err(e) => cx.report.hit(&format!("simplified:err {}", e.split(' ').next().unwrap_or(""))),
		Out::Panic(_) => cx.report.hit("simplified:panic"),
	}
	let key = e_now.eval_text();
	cx.report.case(if matches!(e_now, Out::Ok{changed: true, ..}) {Some(&key)} else {None});
}

/// which rewrites fire: re-run the real simplifier bottom-up on every sub-tree (sampled cases only)
fn rewrite_stats(cx: &mut Cx, t: &T) -> Option<T>
{
	let simp = |x: &T| match real_simplify(x) {Out::Ok{tree, ..} => Some(tree), _ => None};
	match t
	{
		T::Bin(op, l, r) =>
		{
			cx.report.hit(&format!("op:{}", OP_NAMES[*op as usize]));
			let l1 = rewrite_stats(cx, l)?;
			let r1 = rewrite_stats(cx, r)?;
			let node = bin(*op, l1.clone(), r1.clone());
			let out = simp(&node)?;
			let both_const = matches!((&l1, &r1), (T::C(_), T::C(_)));
			if both_const {cx.report.hit("rw:fold");}
			else if *op == MOD && out == l1 && node != out {cx.report.hit("rw:mod-collapse");}
			else if l1.consts() >= 1 && r1.consts() >= 1 && out.consts() < l1.consts() + r1.consts()
				&& !matches!(*op, MOD | SHL | SHR)
			{
				let direct_l = matches!(l1, T::C(_));
				let direct_r = matches!(r1, T::C(_));
				let shape = match (direct_l, direct_r) {(true, _) => "const-lhs", (_, true) => "const-rhs", _ => "deep-both"};
				cx.report.hit(&format!("rw:merge {} {shape}", OP_NAMES[*op as usize]));
			}
			else if out != node {cx.report.hit("rw:neutral");}
			Some(out)
		},
		T::Neg(a) =>
		{
			cx.report.hit("op:neg");
			let a1 = rewrite_stats(cx, a)?;
			let node = T::Neg(Box::new(a1.clone()));
			let out = simp(&node)?;
			if matches!(a1, T::Bin(SUB, ..)) {cx.report.hit("rw:neg-pushdown");}
			Some(out)
		},
		T::Not(a) =>
		{
			cx.report.hit("op:not");
			let a1 = rewrite_stats(cx, a)?;
			simp(&T::Not(Box::new(a1)))
		},
		_ => simp(t),
	}
}

/// A-case: the same `.du32` statements with the `.const` definitions above, below, and below a `.global` declaration
fn check_e2e(cx: &mut Cx, t: &T, binds: &Binds)
{
	let input = format!("A {} T {}", replay_binding_tokens(binds), t.text());
	let src = t.source();
	let stmts = format!(".du32 ({src}) & 0xFFFFFFFF;\n.du32 (({src}) >> 32) & 0xFFFFFFFF;\n");
	let mut defs_now = String::new();
	let mut defs_later = String::new();
	let mut globals = String::new();
	for (n, b) in binds
	{
		match b
		{
			Bind::Known(v) => defs_now.push_str(&format!(".const {n}, {};\n", T::C(*v).source())),
			Bind::Later(v) =>
			{
				defs_later.push_str(&format!(".const {n}, {};\n", T::C(*v).source()));
				globals.push_str(&format!(".global {n};\n"));
			},
			Bind::Reg => (),
		}
	}
	let programs = [
		("definitions above", format!(".addr 0;\n{defs_now}{defs_later}{stmts}")),
		("definitions below", format!(".addr 0;\n{defs_now}{stmts}{defs_later}")),
		("all definitions below", format!(".addr 0;\n{stmts}{defs_now}{defs_later}")),
		("declared global, defined below", format!("{globals}.addr 0;\n{defs_now}{stmts}{defs_later}")),
	];
	let mut results: Vec<(&str, Result<Vec<u8>, String>)> = Vec::new();
	for (name, text) in programs.iter()
	{
		let r = guarded(|| assemble(text));
		match r
		{
			Ok(r) => results.push((name, r)),
			Err(p) =>
			{
				cx.report.oracle_fail(input.clone(), format!("assembling with {name} panicked: {p}"));
				results.push((name, Err("panic".to_owned())));
			},
		}
	}
	let oks: Vec<(&str, &Vec<u8>)> = results.iter().filter_map(|(n, r)| r.as_ref().ok().map(|b| (*n, b))).collect();
	if let Some((n0, b0)) = oks.first()
	{
		for (n, b) in oks.iter().skip(1)
		{
			if b != b0
			{
				cx.report.oracle_fail(input.clone(), format!("{n0}: {} but {n}: {}", hex(b0), hex(b)));
				break;
			}
		}
		// and the bytes are the value of the expression
		if let Some(v) = refval(t, &env_all(binds))
		{
			let want = (v as u64).to_le_bytes().to_vec();
			if **b0 != want
			{
				cx.report.oracle_fail(input.clone(), format!("the expression has the value {v} but {n0} emits {}", hex(b0)));
			}
		}
	}
	cx.report.hit(&format!("e2e:{} of {} orders assemble", oks.len(), results.len()));
	let key = format!("{:?}", results.iter().map(|(_, r)| r.clone().ok()).collect::<Vec<_>>());
	cx.report.case(if oks.is_empty() {None} else {Some(&key)});

	// "... or in another file": the statement and ALL its definitions live in an included file; the includer (and a sibling file
	// included before it) may own constants of the same names with OTHER values. Nothing is imported, so every order that
	// assembles emits the value of the expression over the included file's own definitions — the same bytes as the single file.
	let names: Vec<(&String, i64)> = binds.iter().filter_map(|(n, b)| match b {Bind::Known(v) | Bind::Later(v) => Some((n, *v)), Bind::Reg => None}).collect();
	if names.is_empty() || oks.is_empty() {return;}
	let single = oks[0].1.clone();
	let dir = cx.work.join("e2e");
	std::fs::create_dir_all(&dir).unwrap();
	let other = |v: i64, k: i64| -> String {T::C(if v == k {k + 1} else {k}).source()};
	let clash: String = names.iter().map(|(n, v)| format!(".const {n}, {};\n", other(*v, 0x11))).collect();
	let sibling: String = names.iter().map(|(n, v)| format!(".const {n}, {};\n.du8 {n} & 1;\n", other(*v, 0x22))).collect();
	let orders = [
		("definitions above", format!("{defs_now}{defs_later}{stmts}")),
		("definitions below", format!("{defs_now}{stmts}{defs_later}")),
		("all definitions below", format!("{stmts}{defs_now}{defs_later}")),
	];
	// (name, text of main.asm before the include, whether a sibling is included first)
	let includers = [("includer without such names", String::new(), false), ("includer owning the names with other values", clash.clone(), false),
		("sibling and includer owning the names with other values", clash.clone(), true), ("sibling owning the names", String::new(), true)];
	let mut multi_ok = 0;
	for (iname, pre, sib) in includers.iter()
	{
		for (oname, inc) in orders.iter()
		{
			// the region of the included statements starts at 0x100 so that the sibling's bytes (at 0) do not mix with them
			let main = format!(".addr 0;\n{pre}{}.addr 0x100;\n.include \"inc.asm\";\n", if *sib {".include \"sib.asm\";\n"} else {""});
			std::fs::write(dir.join("main.asm"), &main).unwrap();
			std::fs::write(dir.join("inc.asm"), inc).unwrap();
			if *sib {std::fs::write(dir.join("sib.asm"), &sibling).unwrap();}
			let path = dir.join("main.asm");
			let r = guarded(||
			{
				let directives = DirectiveList::generate();
				let mut ctx = Context::new(&Arm6M, &directives);
				drop(ctx.assemble(main.as_bytes(), path.clone()));
				if ctx.close_segment().is_err() || !ctx.finalize() {return None;}
				let mut out = Vec::new();
				for (range, data) in ctx.output().iter() {if range.get_first() == 0x100 {out.extend_from_slice(data);}}
				Some(out)
			});
			match r
			{
				Err(p) => cx.report.oracle_fail(input.clone(), format!("included file, {oname}, {iname}: panic: {p}")),
				Ok(None) => cx.report.hit("e2e included file: diagnosed"),
				Ok(Some(b)) =>
				{
					multi_ok += 1;
					if b != single
					{
						cx.report.oracle_fail(input.clone(), format!("in an included file with {oname} ({iname}) the statements emit {}, in a single file {}; main.asm = {main:?}, inc.asm = {inc:?}", hex(&b), hex(&single)));
						return;
					}
				},
			}
		}
	}
	cx.report.hit(&format!("e2e included file: {multi_ok} of 12 variants assemble"));

	// the names come from the INCLUDER: it declares them `.global`, the included file `.import`s them and holds the statements; the
	// definitions stand above or below the `.include` (and one level further up, through a file in between)
	let decls: String = names.iter().map(|(n, _)| format!(".global {n};\n")).collect();
	let imports: String = names.iter().map(|(n, _)| format!(".import {n};\n")).collect();
	let defs = format!("{defs_now}{defs_later}");
	let single_declared_ok = results[3].1.is_ok();
	// an imported name that is defined ABOVE the include is known at once in the included file: the variant corresponds to the
	// single-file order "definitions above" and must assemble exactly when THAT order does (another single-file order may assemble
	// although this one overflows: with the names still unvalued the simplifier can cancel, e.g. `(k9 * …) * 0`, where full constant
	// folding overflows — C08 compares values only "whenever both produce a value")
	let single_above_ok = results[0].1.is_ok();
	let variants: [(&str, String, Option<String>, bool); 5] = [
		("imported, defined above the include", format!(".addr 0x100;\n{defs}{decls}.include \"inc.asm\";\n"), None, single_above_ok),
		// here EVERY name is unvalued while the included statements are read; the single-file order "declared global, defined below"
		// has the known-now names valued above the statements — the same partition only when there is no known-now name (with another
		// partition the simplifier takes another route and may overflow where the other does not, which C08 tolerates)
		("imported, declared above and defined below the include", format!(".addr 0x100;\n{decls}.include \"inc.asm\";\n{defs}"), None, single_declared_ok && defs_now.is_empty()),
		("imported, declared above, some defined above and some below the include", format!(".addr 0x100;\n{decls}{defs_now}.include \"inc.asm\";\n{defs_later}"), None, single_declared_ok),
		("imported through a file in between, defined above", format!(".addr 0x100;\n{defs}{decls}.include \"mid.asm\";\n"), Some(format!("{imports}.include \"inc.asm\";\n")), single_above_ok),
		("imported through a file in between, defined below", format!(".addr 0x100;\n{decls}.include \"mid.asm\";\n{defs}"), Some(format!("{imports}.include \"inc.asm\";\n")), false),
	];
	for (vname, main, mid, must) in variants.iter()
	{
		std::fs::write(dir.join("main.asm"), main).unwrap();
		std::fs::write(dir.join("inc.asm"), format!("{imports}{stmts}")).unwrap();
		if let Some(m) = mid {std::fs::write(dir.join("mid.asm"), m).unwrap();}
		let path = dir.join("main.asm");
		let r = guarded(||
		{
			let directives = DirectiveList::generate();
			let mut ctx = Context::new(&Arm6M, &directives);
			drop(ctx.assemble(main.as_bytes(), path.clone()));
			if ctx.close_segment().is_err() || !ctx.finalize()
			{
				return Err(ctx.get_errors().iter().take(3).map(|e| format!("{}:{}:{}", e.name.rsplit('/').next().unwrap_or(""), e.line, crate::errkind::diag_kind(&e.value))).collect::<Vec<_>>().join("; "));
			}
			let mut out = Vec::new();
			for (range, data) in ctx.output().iter() {if range.get_first() == 0x100 {out.extend_from_slice(data);}}
			Ok(out)
		});
		match r
		{
			Err(p) => cx.report.oracle_fail(input.clone(), format!("{vname}: panic: {p}")),
			Ok(Err(why)) =>
			{
				cx.report.hit(&format!("e2e {vname}: diagnosed"));
				if *must {cx.report.oracle_fail(input.clone(), format!("{vname}: refused ({why}) although the single file with the same definitions assembles; main.asm = {main:?}"));}
			},
			Ok(Ok(b)) =>
			{
				cx.report.hit(&format!("e2e {vname}: assembles"));
				if b != single {cx.report.oracle_fail(input.clone(), format!("{vname}: the statements emit {}, in a single file {}; main.asm = {main:?}", hex(&b), hex(&single)));}
			},
		}
	}
}

fn assemble(text: &str) -> Result<Vec<u8>, String>
{
	let directives = DirectiveList::generate();
	let mut ctx = Context::new(&Arm6M, &directives);
	drop(ctx.assemble(text.as_bytes(), PathBuf::from("t.asm")));
	if let Err(e) = ctx.close_segment() {return Err(format!("close: {}", crate::errkind::seg_kind(&e)));}
	if !ctx.finalize()
	{
		return Err(ctx.get_errors().iter().map(|e| format!("{}:{}:{}", e.line, e.col, crate::errkind::diag_kind(&e.value))).collect::<Vec<_>>().join("; "));
	}
	let mut out = Vec::new();
	for (_, data) in ctx.output().iter() {out.extend_from_slice(data);}
	Ok(out)
}

// ---------------------------------------------------------------------------------------------------------
// C07 text stream: expressions as SOURCE TEXT, grouped by the precedence table of the README
// (highest first: unary - !  |  * / %  |  + -  |  << >>  |  &  |  ^  |  |   — all binary operators left associative).
// Nothing here looks at the crate's operator.rs: the table below is the documentation's.

#[derive(Clone, Copy, Debug, PartialEq)]
enum Form {Dec, Hex, HexUp, Bin, Oct, Chr}

/// an expression as it is WRITTEN: literal spellings and redundant parentheses are part of it
#[derive(Clone, Debug)]
enum X
{
	Lit(i64, Form),
	Neg(Box<X>),
	Not(Box<X>),
	Bin(u8, Box<X>, Box<X>),
	/// parentheses that the precedence table does not require
	Par(Box<X>),
}

/// README: "in order of highest precedence first"
fn doc_prec(op: u8) -> u8
{
	match op
	{
		MUL | DIV | MOD => 6,
		ADD | SUB => 5,
		SHL | SHR => 4,
		AND => 3,
		XOR => 2,
		_ => 1, // OR
	}
}

const CHARS: [char; 6] = ['A', 'z', '0', '~', '#', 'é'];

impl X
{
	/// the tree the text denotes under the documented precedence
	fn tree(&self) -> T
	{
		match self
		{
			X::Lit(v, _) => T::C(*v),
			X::Neg(a) => T::Neg(Box::new(a.tree())),
			X::Not(a) => T::Not(Box::new(a.tree())),
			X::Bin(op, l, r) => bin(*op, l.tree(), r.tree()),
			X::Par(a) => a.tree(),
		}
	}

	/// binding strength of the outermost construct (atoms and unary operators bind tightest)
	fn prec(&self) -> u8
	{
		match self
		{
			X::Bin(op, ..) => doc_prec(*op),
			_ => 7,
		}
	}

	/// text with exactly the parentheses the documented table requires (plus the explicit `Par` ones);
	/// `sp` selects the spacing style
	fn render(&self, sp: u8, out: &mut String)
	{
		match self
		{
			X::Lit(v, form) => match form
			{
				Form::Dec => out.push_str(&format!("{v}")),
				Form::Hex => out.push_str(&format!("0x{v:x}")),
				Form::HexUp => out.push_str(&format!("0x{v:X}")),
				Form::Bin => out.push_str(&format!("0b{v:b}")),
				Form::Oct => out.push_str(&format!("0o{v:o}")),
				Form::Chr => {out.push('\''); out.push(char::from_u32(*v as u32).unwrap()); out.push('\'');},
			},
			X::Neg(a) | X::Not(a) =>
			{
				out.push(if matches!(self, X::Neg(_)) {'-'} else {'!'});
				if sp == 2 {out.push(' ');}
				// the operand of a unary operator needs parentheses exactly when it is a binary operation
				if a.prec() < 7 {out.push('('); a.render(sp, out); out.push(')');} else {a.render(sp, out);}
			},
			X::Bin(op, l, r) =>
			{
				let p = doc_prec(*op);
				// left associative: the left operand may be of the same level, the right one must bind tighter
				if l.prec() < p {out.push('('); l.render(sp, out); out.push(')');} else {l.render(sp, out);}
				let o = match *op {SHL => "<<", SHR => ">>", o => OPS[o as usize]};
				if sp != 1 {out.push(' ');}
				out.push_str(o);
				if sp != 1 {out.push(' ');}
				if r.prec() <= p {out.push('('); r.render(sp, out); out.push(')');} else {r.render(sp, out);}
			},
			X::Par(a) => {out.push('('); if sp == 2 {out.push(' ');} a.render(sp, out); out.push(')');},
		}
	}

	fn text(&self, sp: u8) -> String
	{
		let mut s = String::new();
		self.render(sp, &mut s);
		s
	}
}

fn xlit(rng: &mut Rng, v: i64) -> X
{
	debug_assert!(v >= 0);
	X::Lit(v, *rng.pick(&[Form::Dec, Form::Dec, Form::Hex, Form::HexUp, Form::Bin, Form::Oct]))
}

fn gen_xlit(rng: &mut Rng) -> X
{
	if rng.chance(1, 10)
	{
		return X::Lit(*rng.pick(&CHARS) as i64, Form::Chr);
	}
	let v = match rng.below(10)
	{
		0 => 0,
		1 => 1,
		2 | 3 => {let p = 1i64 << rng.below(63); (p + rng.range(-1, 1)).max(0)},
		4 => if rng.chance(1, 3) {*rng.pick(&[i64::MAX, i64::MAX - 1])} else {rng.range(0, 66)},
		_ => rng.range(0, 12),
	};
	xlit(rng, v)
}

/// boundary operands for the unary operators, as they can be WRITTEN: i64::MIN only exists as an expression
/// (none of these touches an open corner)
fn unary_operands() -> Vec<X>
{
	let lit = |v: i64| X::Lit(v, Form::Dec);
	let b = |x: X| Box::new(x);
	let max = i64::MAX;
	vec![
		// exactly i64::MIN
		X::Bin(SUB, b(X::Neg(b(lit(max)))), b(lit(1))),
		X::Bin(SUB, b(X::Bin(SUB, b(lit(0)), b(lit(max)))), b(lit(1))),
		X::Bin(MUL, b(X::Neg(b(X::Lit(1 << 62, Form::Hex)))), b(lit(2))),
		X::Par(b(X::Bin(SUB, b(X::Neg(b(X::Lit(max, Form::Hex)))), b(lit(1))))),
		// MIN + 1, MAX, MAX - 1, 0, 1, -1
		X::Neg(b(lit(max))),
		X::Par(b(X::Neg(b(lit(max))))),
		lit(max),
		X::Lit(max, Form::Oct),
		X::Bin(SUB, b(lit(max)), b(lit(1))),
		lit(0),
		lit(1),
		X::Neg(b(lit(1))),
		X::Par(b(X::Neg(b(lit(1))))),
		lit(5),
	]
}

/// `ops` (outermost first; true = `-`, false = `!`) stacked on `x`, each unary operator its own node
fn stack_unary(ops: &[bool], x: X) -> X
{
	let mut e = x;
	for &neg in ops.iter().rev()
	{
		e = if neg {X::Neg(Box::new(e))} else {X::Not(Box::new(e))};
	}
	e
}

fn gen_x(rng: &mut Rng, depth: u32) -> X
{
	if depth == 0 || rng.chance(1, 6) {return gen_xlit(rng);}
	match rng.below(16)
	{
		0 | 1 => X::Neg(Box::new(gen_x(rng, depth - 1))),
		2 => X::Not(Box::new(gen_x(rng, depth - 1))),
		3 => X::Par(Box::new(gen_x(rng, depth - 1))),
		6 =>
		{
			let n = 2 + rng.below(2) as usize;
			let ops: Vec<bool> = (0..n).map(|_| rng.chance(2, 3)).collect();
			let operands = unary_operands();
			let x = if rng.chance(2, 3) {rng.pick(&operands).clone()} else {gen_x(rng, depth - 1)};
			stack_unary(&ops, x)
		},
		4 | 5 =>
		{
			let op = if rng.chance(1, 2) {SHL} else {SHR};
			let k = rng.range(0, 20);
			let count = xlit(rng, k);
			X::Bin(op, Box::new(gen_x(rng, depth - 1)), Box::new(count))
		},
		_ => X::Bin(rng.below(10) as u8, Box::new(gen_x(rng, depth - 1)), Box::new(gen_x(rng, depth - 1))),
	}
}

/// what the real front end + evaluator make of one statement text
struct Parsed
{
	/// the argument tree as the real parser built it
	tree: Option<T>,
	simp: Out,
	eval: Out,
}

fn eval_error_out(e: EvalError) -> Out
{
	match e
	{
		EvalError::NoSuchVariable{name, ..} => Out::Err(format!("nosuch {}", hex(name.as_ref().as_bytes()))),
		EvalError::BadType{kind, op} => Out::Err(format!("badtype {} {}", ty_name(kind), ty_name(op))),
		EvalError::Overflow(e) => Out::Err(format!("overflow {}", ov_name(&e))),
		e => Out::Err(format!("unknown:{e:?}")),
	}
}

/// parse `stmt` (one directive or instruction with one argument) with the real `Parser` and run the real
/// `simplify` and `evaluate` on the parsed argument itself
fn run_text(stmt: &str) -> Result<Parsed, String>
{
	let directives = DirectiveList::generate();
	let r = guarded(||
	{
		let mut parser = Parser::new(stmt.as_bytes());
		let element = match parser.next()
		{
			Some(Ok(e)) => e,
			Some(Err(e)) => return Err(format!("parse error {}:{}: {:?}", e.line, e.col, e.value)),
			None => return Err("no statement".to_owned()),
		};
		let mut args = match element.value
		{
			ElementValue::Directive{args, ..} | ElementValue::Instruction{args, ..} => args,
			ElementValue::Label(..) => return Err("parsed as a label".to_owned()),
		};
		if args.len() != 1 {return Err(format!("{} arguments", args.len()));}
		let mut arg = args.pop().unwrap();
		let tree = T::from_arg(&arg);
		let mut arg2 = arg.clone();
		let simp = match guarded(|| {let r = simplify(&mut arg2); (r, T::from_arg(&arg2))})
		{
			Ok((Ok(changed), tree)) => Out::Ok{changed, cause: None, tree},
			Ok((Err(SimplifyError::BadType{kind, op}), _)) => Out::Err(format!("badtype {} {}", ty_name(kind), ty_name(op))),
			Ok((Err(SimplifyError::Overflow(e)), _)) => Out::Err(format!("overflow {}", ov_name(&e))),
		Ok((Err(e), _)) => Out::Err(format!("unknown:{e:?}")),
			Err(p) => Out::Panic(p),
		};
		let ctx = Context::new(&Arm6M, &directives);
		let eval = match guarded(|| {let r = evaluate(&mut arg, &ctx); (r, T::from_arg(&arg))})
		{
			Ok((Ok(Evaluation::Complete{changed}), tree)) => Out::Ok{changed, cause: None, tree},
			Ok((Ok(Evaluation::Deferred{changed, cause}), tree)) => Out::Ok{changed, cause: Some(cause.as_ref().to_owned()), tree},
			Ok((Err(e), _)) => eval_error_out(e),
			Err(p) => Out::Panic(p),
		};
		Ok(Parsed{tree: Some(tree), simp, eval})
	});
	match r
	{
		Ok(r) => r,
		Err(p) => Err(format!("PANIC: {p}")),
	}
}

/// X-case. `want` = value demanded by the documented precedence (None on replay: then only the byte-level and
/// simplify/evaluate agreement can be checked, plus the value re-derived from the harness's own reading of the text)
fn check_text(cx: &mut Cx, stmt: &str, expr: &X, e2e: bool, collect: &mut Vec<T>)
{
	let input = format!("X {stmt}");
	let doc_tree = expr.tree();
	let want = spec(&doc_tree);
	let parsed = match run_text(stmt)
	{
		Ok(p) => p,
		Err(e) =>
		{
			cx.report.oracle_fail(input, format!("a documented expression is not accepted: {e}"));
			cx.report.case(None);
			return;
		},
	};
	let ptree = parsed.tree.clone().unwrap();
	cx.report.hit(if ptree == doc_tree {"text:grouping as documented"} else {"text:grouping differs from the documentation"});
	for (which, o) in [("simplify", &parsed.simp), ("evaluate", &parsed.eval)]
	{
		match (want, o)
		{
			(Spec::Open, _) => cx.report.hit("text:open-corner"),
			(Spec::Val(v), Out::Ok{tree: T::C(w), cause: None, ..}) if *w == v => cx.report.hit("text:value"),
			(Spec::Error, Out::Err(e)) if e.starts_with("overflow") => cx.report.hit("text:error"),
			(w, o) => cx.report.oracle_fail(input.clone(), format!(
				"{which}: by the documented precedence `{}` denotes {} = {w:?}, the implementation parses it as {} and gives {}",
				expr.text(0), doc_tree.text(), ptree.text(), o.eval_text())),
		}
	}
	// end to end: the statement as the data of a `.du32`
	if e2e
	{
		if let Spec::Val(v) = want
		{
			if (0..=u32::MAX as i64).contains(&v)
			{
				let body = stmt.splitn(2, ' ').nth(1).unwrap_or("");
				let prog = format!(".addr 0;\n.du32 {body}\n");
				match guarded(|| assemble(&prog))
				{
					Ok(Ok(bytes)) if bytes == (v as u32).to_le_bytes() => cx.report.hit("text:e2e bytes"),
					Ok(r) => cx.report.oracle_fail(input.clone(), format!("`.du32` of the expression must emit {} (value {v}), assembling gives {:?}",
						hex(&(v as u32).to_le_bytes()), r.map(|b| hex(&b)))),
					Err(p) => cx.report.oracle_fail(input.clone(), format!("assembling panicked: {p}")),
				}
			}
		}
		else if want == Spec::Error
		{
			let body = stmt.splitn(2, ' ').nth(1).unwrap_or("");
			let prog = format!(".addr 0;\n.du32 {body}\n");
			match guarded(|| assemble(&prog))
			{
				Ok(Err(_)) => cx.report.hit("text:e2e diagnostic"),
				Ok(Ok(bytes)) => cx.report.oracle_fail(input.clone(), format!("the expression is an arithmetic error but `.du32` emits {}", hex(&bytes))),
				Err(p) => cx.report.oracle_fail(input.clone(), format!("assembling panicked: {p}")),
			}
		}
	}
	let key = parsed.eval.eval_text();
	cx.report.case(Some(&key));
	collect.push(ptree);
}

fn statement(i: u64, expr_text: &str) -> String
{
	match i % 3
	{
		0 => format!(".du32 {expr_text};"),
		1 => format!("X {expr_text};"),
		_ => format!(".dhex {expr_text};"),
	}
}

/// every ordered (parent, child) operator pair on either side, unary operators above / below every binary one,
/// then random deeper expressions
fn run_text_stream(cx: &mut Cx)
{
	let mut parsed_trees: Vec<T> = Vec::new();
	let triples: [(i64, i64, i64); 6] = [(7, 4, 2), (1, 7, 4), (100, 3, 5), (6, 2, 1), (13, 5, 3), (2, 9, 6)];
	let mut n = 0u64;
	let mut cases: Vec<X> = Vec::new();
	for parent in 0..10u8
	{
		for child in 0..10u8
		{
			for &(a, b, c) in triples.iter()
			{
				let (la, lb, lc) = (xlit(&mut cx.rng, a), xlit(&mut cx.rng, b), xlit(&mut cx.rng, c));
				// child on the left / on the right of the parent
				cases.push(X::Bin(parent, Box::new(X::Bin(child, Box::new(la.clone()), Box::new(lb.clone()))), Box::new(lc.clone())));
				cases.push(X::Bin(parent, Box::new(la), Box::new(X::Bin(child, Box::new(lb), Box::new(lc)))));
			}
		}
		for &(a, b, _) in triples.iter()
		{
			let (la, lb) = (xlit(&mut cx.rng, a), xlit(&mut cx.rng, b));
			let un = |neg: bool, x: X| if neg {X::Neg(Box::new(x))} else {X::Not(Box::new(x))};
			for neg in [true, false]
			{
				cases.push(X::Bin(parent, Box::new(un(neg, la.clone())), Box::new(lb.clone())));
				cases.push(X::Bin(parent, Box::new(la.clone()), Box::new(un(neg, lb.clone()))));
				cases.push(un(neg, X::Bin(parent, Box::new(la.clone()), Box::new(lb.clone()))));
				cases.push(un(neg, un(!neg, la.clone())));
			}
		}
	}
	cx.report.hit_n("text: operator pair cases (all ordered pairs, both sides, unary above/below)", cases.len() as u64);
	// stacked unary operators (every sequence of 2 and 3 of `-` `!`) over boundary operands incl. i64::MIN, bare and
	// inside larger expressions; each unary operator is its own node of the documented grammar, so `--MIN` is an error
	let mut stacked: Vec<X> = Vec::new();
	{
		let lit = |v: i64| X::Lit(v, Form::Dec);
		let b = |x: X| Box::new(x);
		let mut seqs: Vec<Vec<bool>> = Vec::new();
		for n in 2..=3usize
		{
			for m in 0..(1u32 << n) {seqs.push((0..n).map(|k| m >> k & 1 == 1).collect());}
		}
		for x in unary_operands()
		{
			for ops in seqs.iter()
			{
				let u = stack_unary(ops, x.clone());
				stacked.push(u.clone());
				stacked.push(X::Bin(ADD, b(lit(1)), b(u.clone())));
				stacked.push(X::Bin(MUL, b(u.clone()), b(lit(2))));
				stacked.push(X::Bin(SUB, b(lit(0)), b(u.clone())));
				stacked.push(X::Bin(SUB, b(u.clone()), b(lit(1))));
				stacked.push(X::Bin(DIV, b(u.clone()), b(lit(1))));
				stacked.push(X::Bin(OR, b(lit(0)), b(X::Bin(AND, b(u.clone()), b(X::Neg(b(lit(1))))))));
				stacked.push(X::Par(b(u)));
			}
		}
	}
	cx.report.hit_n("text: stacked unary cases (all sequences of 2-3 of - !, boundary operands incl. i64::MIN, 8 contexts)", stacked.len() as u64);
	for x in stacked.iter()
	{
		let is_min_neg = spec(&x.tree()) == Spec::Error;
		if is_min_neg {cx.report.hit("text: stacked unary case that must be an error");}
		for sp in 0..3u8
		{
			let stmt = statement(n, &x.text(sp));
			check_text(cx, &stmt, x, true, &mut parsed_trees);
			n += 1;
		}
	}
	for x in cases.iter()
	{
		for sp in 0..2u8
		{
			let stmt = statement(n, &x.text(sp));
			check_text(cx, &stmt, x, true, &mut parsed_trees);
			n += 1;
		}
	}
	let nrand = if cx.thorough() {300_000} else {25_000};
	for i in 0..nrand
	{
		let depth = 1 + (i % 6) as u32;
		let x = gen_x(&mut cx.rng, depth);
		let sp = (cx.rng.below(3)) as u8;
		let stmt = statement(n, &x.text(sp));
		check_text(cx, &stmt, &x, i % 8 == 0, &mut parsed_trees);
		if i % 5000 == 3 {cx.report.sample(format!("text `{stmt}` -> {}", run_text(&stmt).map(|p| p.eval.eval_text()).unwrap_or_else(|e| e)));}
		n += 1;
	}
	cx.report.hit_n("text: random expressions", nrand);
	// the parsed trees also go through the model correspondence
	parsed_trees.sort_by_key(|t| t.text());
	parsed_trees.dedup();
	run_simplify_batch(cx, &parsed_trees);
}

/// replay of an X-case: the harness re-reads the text with its own reader for the documented grammar
fn doc_read(text: &str) -> Option<X>
{
	struct P<'a> {s: &'a [u8], i: usize}
	impl<'a> P<'a>
	{
		fn ws(&mut self) {while self.i < self.s.len() && (self.s[self.i] as char).is_ascii_whitespace() {self.i += 1;}}
		fn eat(&mut self, t: &str) -> bool
		{
			self.ws();
			if self.s[self.i..].starts_with(t.as_bytes()) {self.i += t.len(); true} else {false}
		}
		fn atom(&mut self) -> Option<X>
		{
			self.ws();
			if self.eat("-") {return Some(X::Neg(Box::new(self.atom()?)));}
			if self.eat("!") {return Some(X::Not(Box::new(self.atom()?)));}
			if self.eat("(")
			{
				let x = self.level(1)?;
				if !self.eat(")") {return None;}
				return Some(X::Par(Box::new(x)));
			}
			if self.eat("'")
			{
				let rest = std::str::from_utf8(&self.s[self.i..]).ok()?;
				let c = rest.chars().next()?;
				self.i += c.len_utf8();
				if !self.eat("'") {return None;}
				return Some(X::Lit(c as i64, Form::Chr));
			}
			let (radix, form, skip) = if self.s[self.i..].starts_with(b"0x") {(16, Form::Hex, 2)}
				else if self.s[self.i..].starts_with(b"0b") {(2, Form::Bin, 2)}
				else if self.s[self.i..].starts_with(b"0o") {(8, Form::Oct, 2)}
				else {(10, Form::Dec, 0)};
			self.i += skip;
			let start = self.i;
			while self.i < self.s.len() && (self.s[self.i] as char).is_digit(radix) {self.i += 1;}
			let v = i64::from_str_radix(std::str::from_utf8(&self.s[start..self.i]).ok()?, radix).ok()?;
			Some(X::Lit(v, form))
		}
		/// binary operators of documented level >= `min`, left associative
		fn level(&mut self, min: u8) -> Option<X>
		{
			if min > 6 {return self.atom();}
			let mut lhs = self.level(min + 1)?;
			loop
			{
				self.ws();
				let ops: &[(&str, u8)] = match min
				{
					6 => &[("*", MUL), ("/", DIV), ("%", MOD)],
					5 => &[("+", ADD), ("-", SUB)],
					4 => &[("<<", SHL), (">>", SHR)],
					3 => &[("&", AND)],
					2 => &[("^", XOR)],
					_ => &[("|", OR)],
				};
				let mut found = None;
				for (t, op) in ops {if self.eat(t) {found = Some(*op); break;}}
				match found
				{
					Some(op) => {let rhs = self.level(min + 1)?; lhs = X::Bin(op, Box::new(lhs), Box::new(rhs));},
					None => return Some(lhs),
				}
			}
		}
	}
	let mut p = P{s: text.as_bytes(), i: 0};
	let x = p.level(1)?;
	p.ws();
	if p.i == p.s.len() {Some(x)} else {None}
}

// ---------------------------------------------------------------------------------------------------------
// generators

/// the 40 boundary operands of C07
fn boundary() -> Vec<i64>
{
	let v: Vec<i64> = vec![
		0, 1, -1, 2, -2, 3, 5, 7, -7, 10,
		62, 63, 64, 65, -63, -64, 127, 128, -128, 255,
		1 << 31, -(1 << 31), (1 << 32) - 1, 1 << 32, (1 << 32) + 1, -(1 << 32),
		3037000499, 3037000500, -3037000500,
		1 << 61, (1 << 62) - 1, 1 << 62, (1 << 62) + 1, -(1 << 62), -(1 << 62) - 1,
		i64::MAX, i64::MAX - 1, i64::MIN, i64::MIN + 1,
		0x5555_5555_5555_5555,
	];
	assert_eq!(v.len(), 40);
	v
}

fn literal(rng: &mut Rng) -> i64
{
	match rng.below(20)
	{
		0 => 0,
		1 => if rng.chance(1, 2) {1} else {-1},
		2 | 3 | 4 =>
		{
			let k = rng.below(63);
			let p = 1i64 << k;
			let d = rng.range(-1, 1);
			let v = p + d;
			if rng.chance(1, 3) {-v} else {v}
		},
		5 => *rng.pick(&[i64::MAX, i64::MIN, i64::MAX - 1, i64::MIN + 1]),
		6 | 7 => rng.range(0, 66),
		_ => rng.range(-9, 9),
	}
}

/// closed tree over literals
fn gen_closed(rng: &mut Rng, depth: u32) -> T
{
	if depth == 0 || rng.chance(1, 5) {return T::C(literal(rng));}
	match rng.below(14)
	{
		0 => T::Neg(Box::new(gen_closed(rng, depth - 1))),
		1 => T::Not(Box::new(gen_closed(rng, depth - 1))),
		2 | 3 =>
		{
			// shift by a literal count
			let op = if rng.chance(1, 2) {SHL} else {SHR};
			let operand = if rng.chance(1, 2) {T::C(rng.range(0, 1 << 20))} else {gen_closed(rng, depth - 1)};
			bin(op, operand, T::C(if rng.chance(1, 8) {literal(rng)} else {rng.range(0, 40)}))
		},
		_ =>
		{
			let op = rng.below(10) as u8;
			bin(op, gen_closed(rng, depth - 1), gen_closed(rng, depth - 1))
		},
	}
}

const NAMES: [&str; 8] = ["x", "y", "z", "w", "alpha", "beta", "k9", "_t"];
const REGS: [&str; 4] = ["r0", "SP", "pc", "R12"];

struct Gen<'a>
{
	rng: &'a mut Rng,
	/// allow strings / addresses / sequences / functions
	exotic: bool,
	regs: bool,
}

impl<'a> Gen<'a>
{
	fn small(&mut self) -> i64
	{
		match self.rng.below(12)
		{
			0 => 0,
			1 => 1,
			2 => -1,
			3 => literal(self.rng),
			4 => 1 << self.rng.below(12),
			_ => self.rng.range(-12, 12),
		}
	}

	fn leaf(&mut self) -> T
	{
		match self.rng.below(20)
		{
			0..=10 => id(*self.rng.pick(&NAMES)),
			11 if self.regs => id(*self.rng.pick(&REGS)),
			12 if self.exotic => match self.rng.below(4)
			{
				0 => T::S("str".to_owned()),
				1 => T::Addr(Box::new(self.expr(1))),
				2 => T::Seq(vec![self.expr(1), self.expr(1)]),
				_ => T::Func("fn".to_owned(), vec![self.expr(1)]),
			},
			_ => T::C(self.small()),
		}
	}

	fn nonzero(&mut self) -> i64
	{
		loop
		{
			let v = self.small();
			if v != 0 {return v;}
		}
	}

	/// a chain of one operator family with constants sprinkled on both sides
	fn chain(&mut self, fam: u8, n: u32, depth: u32) -> T
	{
		if n <= 1
		{
			return match self.rng.below(10)
			{
				0..=3 => T::C(self.small()),
				4..=7 => id(*self.rng.pick(&NAMES)),
				_ => if depth > 0 {self.expr(depth - 1)} else {self.leaf()},
			};
		}
		let nl = 1 + self.rng.below(n as u64 - 1) as u32;
		let l = self.chain(fam, nl, depth);
		let r = self.chain(fam, n - nl, depth);
		match fam
		{
			0 =>
			{
				let t = bin(if self.rng.chance(1, 2) {ADD} else {SUB}, l, r);
				if self.rng.chance(1, 6) {T::Neg(Box::new(t))} else {t}
			},
			1 => bin(MUL, l, r),
			2 => bin(AND, l, r),
			3 => bin(OR, l, r),
			_ => bin(XOR, l, r),
		}
	}

	fn expr(&mut self, depth: u32) -> T
	{
		if depth == 0 {return self.leaf();}
		match self.rng.below(24)
		{
			0..=6 =>
			{
				let fam = self.rng.below(5) as u8;
				let n = 2 + self.rng.below(5) as u32;
				self.chain(fam, n, depth - 1)
			},
			7 =>
			{
				// (x / a) / b, (a / x) / b, a / (x / b), deeper spines
				let x = self.expr(depth - 1);
				let (a, b) = (T::C(self.nonzero()), T::C(self.nonzero()));
				match self.rng.below(5)
				{
					0 => bin(DIV, bin(DIV, x, a), b),
					1 => bin(DIV, bin(DIV, a, x), b),
					2 => bin(DIV, a, bin(DIV, x, b)),
					3 => bin(DIV, bin(DIV, bin(DIV, x, a), self.leaf()), b),
					_ => bin(DIV, bin(DIV, bin(DIV, a, x), self.leaf()), b),
				}
			},
			8 =>
			{
				// modulo chains, negative and unit divisors included
				let x = self.expr(depth - 1);
				let a = T::C(*self.rng.pick(&[1, -1, 2, -2, 3, -3, 5, -5, 7, 10, -10, 0, i64::MIN, i64::MAX]));
				let b = T::C(*self.rng.pick(&[1, -1, 2, -2, 3, -3, 5, -5, 7, 10, -10, 0, i64::MIN, i64::MAX]));
				match self.rng.below(3)
				{
					0 => bin(MOD, bin(MOD, x, a), b),
					1 => bin(MOD, bin(MOD, bin(MOD, x, a), b), T::C(self.nonzero())),
					_ => bin(MOD, x, a),
				}
			},
			9 | 10 =>
			{
				let op = if self.rng.chance(1, 2) {SHL} else {SHR};
				let count = if self.rng.chance(1, 5) {self.expr(depth - 1)} else {T::C(self.rng.range(0, 8))};
				bin(op, self.expr(depth - 1), count)
			},
			11 => T::Neg(Box::new(self.expr(depth - 1))),
			12 => T::Not(Box::new(self.expr(depth - 1))),
			13 =>
			{
				// neutral elements on either side
				let op = self.rng.below(10) as u8;
				let c = T::C(*self.rng.pick(&[0, 1, -1]));
				if self.rng.chance(1, 2) {bin(op, c, self.expr(depth - 1))} else {bin(op, self.expr(depth - 1), c)}
			},
			14 => self.leaf(),
			_ =>
			{
				let op = self.rng.below(10) as u8;
				bin(op, self.expr(depth - 1), self.expr(depth - 1))
			},
		}
	}
}

fn gen_binds(rng: &mut Rng, t: &T) -> Binds
{
	let mut m = Binds::new();
	let big = rng.chance(1, 10);
	for n in t.idents()
	{
		if is_reg(&n) {m.insert(n, Bind::Reg); continue;}
		let v = if big {literal(rng)} else if rng.chance(1, 12) {literal(rng)} else {rng.range(-20, 20)};
		match rng.below(36)
		{
			0 => (), // undefined
			1..=15 => {m.insert(n, Bind::Known(v));},
			_ => {m.insert(n, Bind::Later(v));},
		}
	}
	m
}

// ---------------------------------------------------------------------------------------------------------

fn run_simplify_batch(cx: &mut Cx, trees: &[T])
{
	for chunk in trees.chunks(4096)
	{
		let mut lines = Vec::new();
		let mut spans = Vec::new();
		for t in chunk
		{
			let reqs = simplify_requests(t);
			spans.push((lines.len(), reqs.len()));
			lines.extend(reqs);
		}
		let replies = cx.model.ask_many(&lines);
		for (t, (at, n)) in chunk.iter().zip(spans) {check_simplify(cx, t, &replies[at..at + n]);}
	}
}

fn replay(cx: &mut Cx, input: &str)
{
	if let Some(e) = input.strip_prefix("U ") {check_unwritable(cx, e); return;}
	if input.starts_with("H ") {evaluate_history(cx); return;}
	if let Some(rest) = input.strip_prefix("W ")
	{
		let w: Vec<&str> = rest.split(' ').collect();
		match (w.first().and_then(|x| x.parse::<usize>().ok()), w.get(1).and_then(|x| x.parse::<i64>().ok()))
		{
			(Some(t), Some(v)) => check_e2e_statement(cx, t, v),
			_ => cx.report.oracle_fail(input.to_owned(), "unrecognised replay input"),
		}
		return;
	}
	if let Some(stmt) = input.strip_prefix("X ")
	{
		// statement text: `<.name | name> <expr>;`
		let body = stmt.trim_start().splitn(2, ' ').nth(1).unwrap_or("").trim_end();
		match body.strip_suffix(';').and_then(doc_read)
		{
			Some(x) =>
			{
				let mut trees = Vec::new();
				check_text(cx, stmt, &x, true, &mut trees);
				run_simplify_batch(cx, &trees);
			},
			None => cx.report.oracle_fail(input.to_owned(), "cannot read the statement text"),
		}
		return;
	}
	let words: Vec<&str> = input.split(' ').filter(|w| !w.is_empty()).collect();
	let bad = |cx: &mut Cx| cx.report.oracle_fail(input.to_owned(), "unrecognised replay input");
	if words.first() == Some(&"TBL")
	{
		match (words.get(1).and_then(|h| unhex(h)).and_then(|b| String::from_utf8(b).ok()), words.get(2).and_then(|h| unhex(h)))
		{
			(Some(text), Some(want)) => check_table(cx, &text, &want),
			_ => bad(cx),
		}
		return;
	}
	if words.first() == Some(&"O")
	{
		// O <class> <form> <x> T <tree>
		let parsed = (|| Some((words.get(2)?.parse::<usize>().ok()?, words.get(3)?.parse::<i64>().ok()?, T::parse_text(&words.get(5..)?.join(" "))?)))();
		match parsed
		{
			Some((f, xv, t)) => check_stmt_order(cx, f, xv, &t),
			None => bad(cx),
		}
		return;
	}
	match words.first().copied()
	{
		Some("S" | "N") =>
		{
			match T::parse_text(&words[1..].join(" "))
			{
				Some(t) => run_simplify_batch(cx, &[t]),
				None => bad(cx),
			}
		},
		Some(k @ ("E" | "A")) =>
		{
			let Some(at) = words.iter().position(|w| *w == "T") else {return bad(cx);};
			match (parse_bindings(&words[1..at]), T::parse_text(&words[at + 1..].join(" ")))
			{
				(Some(b), Some(t)) => if k == "E" {check_orders(cx, &t, &b)} else {check_e2e(cx, &t, &b)},
				_ => bad(cx),
			}
		},
		_ => bad(cx),
	}
}

/// C07 through ONE parser: a long table of small statements (many unary operators, brackets and literals in one file).
/// Each `.du8 (<expr>) & 0xFF;` must emit the low byte of the documented value — whatever was parsed before it.
fn check_table(cx: &mut Cx, text: &str, want: &[u8])
{
	let input = format!("TBL {} {}", hex(text.as_bytes()), hex(want));
	cx.report.cases(1);
	match guarded(|| assemble(text))
	{
		Err(p) => cx.report.oracle_fail(input, format!("assembling a table of {} statements panicked: {p}", want.len())),
		Ok(Err(e)) => cx.report.oracle_fail(input, format!("a table of {} valid statements was refused: {}", want.len(), &e[..e.len().min(300)])),
		Ok(Ok(bytes)) =>
		{
			if bytes != want
			{
				let k = bytes.iter().zip(want.iter()).position(|(a, b)| a != b).unwrap_or(bytes.len().min(want.len()));
				cx.report.oracle_fail(input, format!("statement {k} of the table emits {:?}, the documented value gives {:?} ({} of {} bytes)", bytes.get(k), want.get(k), bytes.len(), want.len()));
			}
		},
	}
}

fn run_table_stream(cx: &mut Cx)
{
	let tables = if cx.thorough() {40} else {6};
	for t in 0..tables
	{
		let mut rng = cx.rng.fork();
		let n = [300usize, 520, 1100, 260, 700, 2100][t % 6];
		let mut text = String::from(".addr 0;\n");
		let mut want = Vec::new();
		let mut made = 0;
		while made < n
		{
			let x = match made % 4
			{
				// flat statements with unary operators: the shape of a hand-written table
				0 => X::Bin(SUB, Box::new(gen_xlit(&mut rng)), Box::new(X::Neg(Box::new(X::Lit(rng.range(0, 9), Form::Dec))))),
				1 => X::Not(Box::new(X::Neg(Box::new(gen_xlit(&mut rng))))),
				_ => gen_x(&mut rng, 1 + (made % 3) as u32),
			};
			let Spec::Val(v) = spec(&x.tree()) else {continue};
			let _ = write!(text, ".du8 ({}) & 0xFF;{}", x.text((made % 3) as u8), if made % 5 == 0 {"\n"} else {" "});
			want.push((v & 0xFF) as u8);
			made += 1;
		}
		cx.report.hit_n("table statements (one parser)", n as u64);
		check_table(cx, &text, &want);
	}
	// tables whose first ~1100 statements wait for a name defined at the very end (a forward reference BELOW an operator), followed by
	// ordinary expression statements: what an expression evaluates to does not depend on how many statements waited before it
	for variant in 0..if cx.thorough() {8} else {2}
	{
		let mut rng = cx.rng.fork();
		let nfwd = 1050 + rng.below(200) as usize;
		let nord = 150 + rng.below(100) as usize;
		let mut text = String::from(".addr 0;\n");
		let mut want = Vec::new();
		// the name is a constant (variant even) or a label behind everything (odd)
		let fwd_value: i64 = if variant % 2 == 0 {rng.range(0, 5000)} else {(nfwd + nord) as i64};
		for k in 0..nfwd
		{
			let k = k as i64;
			match k % 3
			{
				0 => {let _ = write!(text, ".du8 ((fwd + {k}) & 0xFF);{}", if k % 7 == 0 {"\n"} else {" "}); want.push(((fwd_value + k) & 0xFF) as u8);},
				1 => {let _ = write!(text, ".du8 (-(fwd - {k})) & 0xFF; "); want.push(((-(fwd_value - k)) & 0xFF) as u8);},
				_ => {let _ = write!(text, ".du8 ((fwd * 3 + {k}) >> 1) & 0xFF; "); want.push((((fwd_value * 3 + k) >> 1) & 0xFF) as u8);},
			}
		}
		let mut made = 0;
		while made < nord
		{
			let x = if made % 5 == 0 {X::Bin(ADD, Box::new(X::Lit(1, Form::Dec)), Box::new(X::Lit(2, Form::Dec)))} else {gen_x(&mut rng, 1 + (made % 3) as u32)};
			let Spec::Val(v) = spec(&x.tree()) else {continue};
			let _ = write!(text, ".du8 ({}) & 0xFF;{}", x.text((made % 3) as u8), if made % 5 == 0 {"\n"} else {" "});
			want.push((v & 0xFF) as u8);
			made += 1;
		}
		if variant % 2 == 0 {let _ = write!(text, "\n.const fwd, {fwd_value};\n");} else {text.push_str("\nfwd:\n");}
		cx.report.hit_n("table statements behind > 1024 waiting statements", (nfwd + nord) as u64);
		check_table(cx, &text, &want);
	}
	evaluate_history(cx);
}

/// library level (`H <rounds>`): one `Context`, alternating failing and succeeding `evaluate` calls; every call gives what a fresh Context gives
fn evaluate_history(cx: &mut Cx)
{
	let rounds = 1500usize;
	let input = format!("H {rounds}");
	let fails: [(T, &str); 5] = [
		(bin(ADD, bin(DIV, T::C(1), T::C(0)), T::C(1)), "overflow dividebyzero"),
		(T::Neg(Box::new(bin(ADD, T::C(i64::MAX), T::C(1)))), "overflow add"),
		(bin(SUB, bin(MUL, bin(DIV, T::C(1), T::C(0)), T::C(2)), T::C(3)), "overflow dividebyzero"),
		(bin(MUL, bin(ADD, T::I("nosuch".to_owned()), T::C(1)), T::C(2)), "nosuch"),
		(T::Not(Box::new(bin(SUB, T::C(i64::MIN), T::C(1)))), "overflow subtract"),
	];
	let oks: [(T, i64); 4] = [(bin(ADD, T::C(1), T::C(2)), 3), (bin(SUB, bin(MUL, T::C(7), T::C(6)), T::C(2)), 40), (T::Neg(Box::new(T::Not(Box::new(T::C(0))))), 1), (bin(DIV, T::C(-9), T::C(2)), -4)];
	let r = guarded(||
	{
		let directives = DirectiveList::generate();
		let ctx = Context::new(&Arm6M, &directives);
		for i in 0..rounds
		{
			let (t, want) = &fails[i % fails.len()];
			let mut a = t.to_arg();
			let got = match evaluate(&mut a, &ctx)
			{
				Ok(_) => format!("ok {}", T::from_arg(&a).text()),
				Err(EvalError::NoSuchVariable{..}) => "nosuch".to_owned(),
				Err(EvalError::Overflow(e)) => format!("overflow {}", ov_name(&e)),
				Err(e) => format!("unknown:{e:?}"),
			};
			if got != *want {return Some(format!("call {} (`{}`, must fail with {want}) gives {got}", 2 * i + 1, t.text()));}
			let (t, want) = &oks[i % oks.len()];
			let mut a = t.to_arg();
			match evaluate(&mut a, &ctx)
			{
				Ok(Evaluation::Complete{..}) if T::from_arg(&a) == T::C(*want) => (),
				other => return Some(format!("call {} (`{}` = {want}) after {} failing evaluations on the same Context gives {:?} / {}", 2 * i + 2, t.text(), i + 1, other.map(|_| ()).map_err(|e| format!("{e:?}")), T::from_arg(&a).text())),
			}
		}
		None
	});
	cx.report.cases(2 * rounds as u64);
	cx.report.hit_n("evaluate calls on one Context (failing / succeeding alternately)", 2 * rounds as u64);
	match r
	{
		Err(p) => cx.report.oracle_fail(input, format!("panic: {p}")),
		Ok(Some(what)) => cx.report.oracle_fail(input, what),
		Ok(None) => (),
	}
}

/// expressions that contain the magnitude 2^63 as a LITERAL (`U <expression>`): it does not fit a signed 64-bit integer, so no
/// value may come out of any of them — in particular not the wrapped `x - (-2^63)` behind a binary minus; a diagnostic is required
fn check_unwritable(cx: &mut Cx, expr: &str)
{
	let input = format!("U {expr}");
	cx.report.case(None);
	cx.report.hit("text: literal 2^63 in an expression");
	match guarded(|| run_text(&format!(".du32 {expr};")))
	{
		Err(p) => cx.report.oracle_fail(input.clone(), format!("panic: {p}")),
		Ok(Err(_)) => (),   // not even parsed: fine
		Ok(Ok(parsed)) =>
		{
			for (which, o) in [("simplify", &parsed.simp), ("evaluate", &parsed.eval)]
			{
				if let Out::Ok{tree: T::C(v), ..} = o
				{
					cx.report.oracle_fail(input.clone(), format!("{which} turns an expression containing the literal 2^63 (not a signed 64-bit integer) into the value {v}"));
				}
				if let Out::Panic(p) = o {cx.report.oracle_fail(input.clone(), format!("{which} panicked: {p}"));}
			}
		},
	}
	for stmt in [format!(".du32 (({expr}) >> 32) & 0xFFFFFFFF;"), format!(".du32 ({expr}) & 0xFFFFFFFF;"), format!(".const c, {expr};\n.du8 1;")]
	{
		match guarded(|| assemble(&format!(".addr 0;\n{stmt}\n")))
		{
			Err(p) => cx.report.oracle_fail(input.clone(), format!("assembling `{stmt}` panicked: {p}")),
			Ok(Ok(bytes)) => cx.report.oracle_fail(input.clone(), format!("`{stmt}` assembles without a diagnostic and emits {}", hex(&bytes))),
			Ok(Err(_)) => (),
		}
	}
}

fn run_unwritable(cx: &mut Cx)
{
	let lits = ["9223372036854775808", "0x8000000000000000", "0X8000000000000000", "0o1000000000000000000000", "0b1000000000000000000000000000000000000000000000000000000000000000",
		"0009223372036854775808", "0x0008000000000000000"];
	let lefts = ["-1", "-5", "-9223372036854775807", "0", "1", "5", "x", "(-1)", "(0 - 1)", "-(1)", "!0", "-1 * 1", "(-1 - 0)"];
	let mut n = 0u64;
	for lit in lits
	{
		let mut forms: Vec<String> = vec![lit.to_owned(), format!("-{lit}"), format!("- {lit}"), format!("-/* c */{lit}"), format!("--{lit}"), format!("-(-{lit})"), format!("(-{lit})"), format!("-({lit})"),
			format!("!-{lit}"), format!("-{lit} % 10"), format!("-{lit} + 1"), format!("1 + -{lit}"), format!("0 - -{lit}"), format!("-1 * -{lit}"), format!("-{lit} / -1"),
			format!("({lit})"), format!("1 + {lit}"), format!("1 * {lit}"), format!("0 & {lit}"), format!("1 << {lit}"), format!("f({lit})"), format!("f(1, -{lit})")];
		for l in lefts
		{
			forms.push(format!("{l} - {lit}"));
			forms.push(format!("{l}-{lit}"));
			forms.push(format!("{l} -\t{lit}"));
			forms.push(format!("({l} - {lit}) >> 32"));
			forms.push(format!("{l} - {lit} - 1"));
			forms.push(format!("{l} - -{lit}"));
			forms.push(format!("{l} + -{lit}"));
		}
		for f in forms
		{
			let with_x = f.contains('x');
			let text = if with_x {f.replace('x', "(-3)")} else {f};
			check_unwritable(cx, &text);
			n += 1;
		}
	}
	cx.report.hit_n("text: expressions with the literal 2^63", n);
}

fn run_c07(cx: &mut Cx)
{
	cx.report.rule = "every binary operator at every pair of 40 boundary operands (40x40x10, exhaustive) and negate / not at each; \
random closed trees over literals {0, +-1, 2^k, 2^k+-1, i64 extremes, small} of depth <= 8. Each tree: real simplify and evaluate vs the model \
(exact tree, changed flag, error kind), the Lean specification Arith.eval vs the harness oracle, and the oracle (i128 arithmetic per the property \
text: value, error, or open corner) vs the implementation. TEXT stream: expressions written as source text with exactly the parentheses the README \
precedence table requires (unary - ! > * / % > + - > << >> > & > ^ > |, left associative) - every ordered (parent, child) operator pair on either \
side, unary operators above and below every binary operator, every stacked sequence of 2-3 unary operators over boundary operands including expressions equal to i64::MIN (bare and inside larger expressions; each unary operator is its own node, so `--MIN` must be an error), random deeper expressions, literals in decimal / hex / binary / octal / character \
form, three spacing styles - parsed by the real Parser as the argument of a directive or instruction, then real simplify / evaluate on the parsed \
argument vs the i128 value of the tree the DOCUMENTED table assigns to the text; for a sample `.addr 0; .du32 <expr>;` through the real Context \
must emit the little-endian value (or a diagnostic when the value is an error); tables of 260-2100 such statements in ONE file (one parser): every byte is the low byte of the documented value. non-trivial = the tree was rewritten; distinct = distinct results".to_owned();
	let b = boundary();
	let mut trees = Vec::new();
	for op in 0..10u8
	{
		for &x in &b {for &y in &b {trees.push(bin(op, T::C(x), T::C(y)));}}
	}
	for &x in &b
	{
		trees.push(T::Neg(Box::new(T::C(x))));
		trees.push(T::Not(Box::new(T::C(x))));
		trees.push(T::C(x));
	}
	cx.report.hit_n("boundary operand pairs (exhaustive)", trees.len() as u64);
	cx.report.exhaustive = true;
	let n = if cx.thorough() {2_000_000} else {200_000};
	for i in 0..n
	{
		let depth = 1 + (i % 8) as u32;
		trees.push(gen_closed(&mut cx.rng, depth));
	}
	cx.report.hit_n("random closed trees", n);
	for t in trees.iter().skip(16000).step_by(20011).take(8) {cx.report.sample(format!("{} -> {}", t.text(), real_simplify(t).simp_text()));}
	run_simplify_batch(cx, &trees);
	run_text_stream(cx);
	run_unwritable(cx);
	run_table_stream(cx);
}

// ---------------------------------------------------------------------------------------------------------
// end-to-end stream over STATEMENT kinds (`W <template index> <value>`): every instruction mnemonic that takes a value (2- and 4-byte
// encodings, PC-relative ones) and the data directives, with a WITNESS statement directly behind; the constant is defined above, below,
// declared and defined below, imported from the includer (defined above / below the include) and imported at include depth 2 from a
// middle file that defines it above / below its own include. Every order gives the bytes of the first.

const E2E_TEMPLATES: [(&str, i64, i64, i64); 22] = [
	// (statement with {e}, lowest value, highest value, step)
	(".du32 {e};", 0, 0xFFFF, 1), (".du16 {e};", 0, 0xFFFF, 1), (".du8 {e};", 0, 255, 1), (".du32 ({e} + K) * 2 - K;", 0, 0xFFFF, 1),
	("MOVS R1, {e};", 0, 255, 1), ("ADDS R2, R2, {e};", 0, 255, 1), ("SUBS R3, R3, {e};", 0, 255, 1), ("CMP R4, {e};", 0, 255, 1), ("SVC {e};", 0, 255, 1),
	("BKPT {e};", 0, 255, 1), ("UDF.N {e};", 0, 255, 1), ("UDF.W {e};", 0, 65535, 1), ("LSLS R0, R1, {e};", 1, 31, 1), ("LDR R0, [R1 + {e}];", 0, 124, 4),
	("STRB R0, [R1 + {e}];", 0, 31, 1), ("STRH R0, [{e} + R1];", 0, 62, 2), ("ADD SP, SP, {e};", 0, 508, 4),
	// PC-relative: the statement stands at 0x100
	("B {e};", 0, 0x104 + 2046, 2), ("BNE {e};", 0x104 - 256, 0x104 + 254, 2), ("BL {e};", 0x104 - 0x100, 0x104 + 0x40000, 2), ("ADR R0, {e};", 0x104, 0x104 + 1020, 4), ("LDR R5, {e};", 0x104, 0x104 + 1020, 4),
];

fn check_e2e_statement(cx: &mut Cx, t: usize, v: i64)
{
	let Some((tpl, ..)) = E2E_TEMPLATES.get(t) else {cx.report.oracle_fail(format!("W {t} {v}"), "unrecognised replay input"); return;};
	let input = format!("W {t} {v}");
	let k = 3 + v.rem_euclid(5);
	let stmt = format!("{}\n.du16 0xA55A;\n", tpl.replace("{e}", &format!("((X + {k}) - {k})")));
	let kdef = if tpl.contains('K') {"K: .const K2, 1;\n".replace("K: .const K2, 1;", ".const K, 5;")} else {String::new()};
	let def = format!(".const X, {v};\n");
	let dir = cx.work.join("e2e-stmt");
	// (name, files: main first, must assemble when the first order does)
	let orders: Vec<(&str, Vec<(&str, String)>, bool)> = vec![
		("defined above", vec![("main.asm", format!(".addr 0x100;\n{kdef}{def}{stmt}"))], true),
		("defined below", vec![("main.asm", format!(".addr 0x100;\n{kdef}{stmt}{def}"))], true),
		("declared global, defined below", vec![("main.asm", format!(".global X;\n.addr 0x100;\n{kdef}{stmt}{def}"))], true),
		("imported, defined above the include", vec![("main.asm", format!(".addr 0x100;\n{def}.global X;\n.include \"leaf.asm\";\n")), ("leaf.asm", format!(".import X;\n{kdef}{stmt}"))], true),
		("imported, defined below the include", vec![("main.asm", format!(".addr 0x100;\n.global X;\n.include \"leaf.asm\";\n{def}")), ("leaf.asm", format!(".import X;\n{kdef}{stmt}"))], true),
		("depth 2, the middle file defines it above its include", vec![("main.asm", ".addr 0x100;\n.include \"mid.asm\";\n".to_owned()), ("mid.asm", format!("{def}.global X;\n.include \"leaf.asm\";\n")), ("leaf.asm", format!(".import X;\n{kdef}{stmt}"))], true),
		("depth 2, the middle file defines it below its include", vec![("main.asm", ".addr 0x100;\n.include \"mid.asm\";\n".to_owned()), ("mid.asm", format!(".global X;\n.include \"leaf.asm\";\n{def}")), ("leaf.asm", format!(".import X;\n{kdef}{stmt}"))], true),
		("depth 2, defined below as a constant behind other statements of the middle file", vec![("main.asm", ".addr 0x100;\n.include \"mid.asm\";\nNOP;\n".to_owned()), ("mid.asm", format!(".global X;\n.include \"leaf.asm\";\n.du8 7;\n{def}.du8 X & 0xFF;\n")), ("leaf.asm", format!(".import X;\n{kdef}{stmt}"))], true),
	];
	let mut first: Option<Vec<u8>> = None;
	for (oname, files, must) in &orders
	{
		let _ = std::fs::remove_dir_all(&dir);
		std::fs::create_dir_all(&dir).unwrap();
		for (n, t) in files {std::fs::write(dir.join(n), t).unwrap();}
		let path = dir.join("main.asm");
		let main = files[0].1.clone();
		let r = guarded(||
		{
			let directives = DirectiveList::generate();
			let mut ctx = Context::new(&Arm6M, &directives);
			drop(ctx.assemble(main.as_bytes(), path.clone()));
			if ctx.close_segment().is_err() || !ctx.finalize()
			{
				return Err(ctx.get_errors().iter().take(3).map(|e| format!("{}:{}:{}", e.name.rsplit('/').next().unwrap_or(""), e.line, crate::errkind::diag_kind(&e.value))).collect::<Vec<_>>().join("; "));
			}
			let mut out = Vec::new();
			for (range, data) in ctx.output().iter() {if range.get_first() == 0x100 {out.extend_from_slice(data);}}
			Ok(out)
		});
		cx.report.cases(1);
		match (r, &first)
		{
			(Err(p), _) => cx.report.oracle_fail(input.clone(), format!("{oname}: panic: {p}")),
			(Ok(Err(why)), None) => {cx.report.oracle_fail(input.clone(), format!("`{stmt}` with X = {v} defined above is refused: {why}")); return;},
			(Ok(Ok(b)), None) =>
			{
				// the witness stands directly behind the statement
				if b.len() < 3 || b[b.len() - 2..] != [0x5A, 0xA5] {cx.report.oracle_fail(input.clone(), format!("{oname}: the witness `.du16 0xA55A` is not behind the statement: {}", hex(&b)));}
				first = Some(b);
			},
			(Ok(Err(why)), Some(_)) => {cx.report.hit(&format!("e2e statement, {oname}: diagnosed")); if *must {cx.report.oracle_fail(input.clone(), format!("{oname}: `{}` (X = {v}) is refused ({why}) although it assembles with the definition above", stmt.lines().next().unwrap_or("")));}},
			(Ok(Ok(b)), Some(f)) =>
			{
				cx.report.hit(&format!("e2e statement, {oname}: assembles"));
				// the depth-2 order with other statements of the middle file emits a few more bytes behind: compare the common prefix
				let cmp = if b.len() > f.len() {&b[..f.len()]} else {&b[..]};
				if cmp != &f[..] {cx.report.oracle_fail(input.clone(), format!("{oname}: `{}` and its witness (X = {v}) emit {}, with the definition above {}", stmt.lines().next().unwrap_or(""), hex(&b), hex(f)));}
			},
		}
	}
}

fn e2e_statements(cx: &mut Cx)
{
	let per = if cx.thorough() {40} else {4};
	for (t, (_, lo, hi, step)) in E2E_TEMPLATES.iter().enumerate()
	{
		let n = (hi - lo) / step;
		let mut vals = vec![*lo, *hi, lo + step * (n / 2)];
		for _ in 0..per {vals.push(lo + step * cx.rng.below(n as u64 + 1) as i64);}
		for v in vals {check_e2e_statement(cx, t, v);}
	}
	cx.report.hit_n("e2e statement kinds", E2E_TEMPLATES.len() as u64);
}

fn run_c08(cx: &mut Cx)
{
	cx.report.rule = "random expression trees (operator-family chains with constants on both sides, +/-/negate sign tracking, division spines, \
modulo chains with negative and unit divisors, bitwise chains, shifts, neutral elements, a few strings/addresses/sequences/functions and registers) \
x random partition of the identifiers into known-now / declared-later / register / undefined x random values. Correspondence: real simplify and \
evaluate vs the model on the exact resulting tree, changed flag, deferred cause and error kind, at every stage. Oracle: every order of \
simplify / evaluate(now) / evaluate(all) / substitute-first that yields a number yields the same number, equal to a direct checked evaluation of \
the expression; no order panics. End-to-end: two .du32 statements of the expression with the .const definitions above / below / below a .global \
declaration assemble to the same bytes whenever they assemble. Statement level: instructions whose address or register-or-immediate operand mixes a register, \
constants and a symbol x (value-preserving wrappers around Rn, Rn +- k, Rn + Rm: * x, / x, << x, | x, ^ x, & x, + x, negated subtractions) assembled with \
x defined above / below / further below / declared .global and defined below: the orders that assemble give the same bytes, and they agree on acceptance unless the refusing order reports an \
arithmetic overflow. non-trivial = evaluation changed the tree".to_owned();
	e2e_statements(cx);
	// fixed shapes first
	let fixed: Vec<(T, Binds)> = fixed_cases();
	for (t, b) in fixed.iter()
	{
		check_orders(cx, t, b);
		check_e2e(cx, t, b);
	}
	// constant merges at the ends of i64 around an unvalued name
	{
		let corners = merge_corner_cases();
		for (k, (t, b)) in corners.iter().enumerate()
		{
			check_orders(cx, t, b);
			if k % 8 == 0 {check_e2e(cx, t, b);}
		}
		cx.report.hit_n("constant merges at the ends of i64 around an unvalued name", corners.len() as u64);
	}
	let n = if cx.thorough() {300_000} else {30_000};
	for i in 0..n
	{
		let depth = 1 + (i % 4) as u32;
		let exotic = i % 16 == 0;
		let regs = i % 8 == 1;
		let mut fork = cx.rng.fork();
		let t = Gen{rng: &mut fork, exotic, regs}.expr(depth);
		let binds = gen_binds(&mut cx.rng, &t);
		check_orders(cx, &t, &binds);
		if i % 10 == 0 {let _ = rewrite_stats(cx, &t);}
		if i % 10 == 3 && t.arithmetic() {check_e2e(cx, &t, &binds);}
		if i % 3000 == 7 {cx.report.sample(format!("{} -> {}", t.text(), real_simplify(&t).simp_text()));}
	}
	// plain simplify correspondence on a larger batch (cheap: one request per tree)
	let n2 = if cx.thorough() {1_000_000} else {100_000};
	let mut trees = Vec::new();
	for i in 0..n2
	{
		let mut fork = cx.rng.fork();
		trees.push(Gen{rng: &mut fork, exotic: i % 16 == 0, regs: i % 8 == 1}.expr(1 + (i % 5) as u32));
	}
	cx.report.hit_n("simplify-only trees", n2);
	run_simplify_batch(cx, &trees);
	run_stmt_order(cx);
}

// ---------------------------------------------------------------------------------------------------------
// C08, statement level: operands that mix a register with constants (address and register-or-immediate operands).
// "a statement emits the same bytes whether the constants it uses are defined above it or below it"

const ORDER_FORMS: [(&str, bool); 7] = [("LDRB r2, {}", true), ("LDR r3, {}", true), ("STRH r1, {}", true), ("STR r0, {}", true),
	("MOVS r4, {}", false), ("ADDS r1, r2, {}", false), ("CMP r1, {}", false)];

/// as `assemble`, with the diagnostics in their `Debug` form (variant names, not wording)
fn assemble_dbg(text: &str) -> Result<Vec<u8>, String>
{
	let directives = DirectiveList::generate();
	let mut ctx = Context::new(&Arm6M, &directives);
	drop(ctx.assemble(text.as_bytes(), PathBuf::from("t.asm")));
	if let Err(e) = ctx.close_segment() {return Err(format!("close: {e:?}"));}
	if !ctx.finalize()
	{
		return Err(ctx.get_errors().iter().map(|e| format!("{e:?}")).collect::<Vec<_>>().join("; "));
	}
	let mut out = Vec::new();
	for (_, data) in ctx.output().iter() {out.extend_from_slice(data);}
	Ok(out)
}

fn has_negsub(t: &T) -> bool
{
	match t
	{
		T::Bin(op, l, r) => (*op == SUB && matches!(**r, T::C(v) if v < 0)) || has_negsub(l) || has_negsub(r),
		T::Neg(a) | T::Not(a) | T::Addr(a) => has_negsub(a),
		T::Seq(v) | T::Func(_, v) => v.iter().any(has_negsub),
		_ => false,
	}
}

fn order_input(form: usize, xv: i64, t: &T) -> String
{
	// class of the case: is the result of the real `evaluate`, given every value at once, a fixed point of `evaluate`?
	// (a retried statement evaluates the tree a second time; where the first result is not a fixed point the two
	// orders can hand different trees to the operand readers) — `negsub` is the sub-class repaired by F29
	let env: BTreeMap<String, i64> = [("x".to_owned(), xv)].into_iter().collect();
	let fresh = real_evaluate(t, &env, &[]);
	let class = match fresh.tree()
	{
		Some(t1) if has_negsub(t1) => "negsub",
		Some(t1) if real_evaluate(t1, &env, &[]).tree().is_some_and(|t2| t2 != t1) => "nonfix",
		_ => "plain",
	};
	format!("O {class} {form} {xv} T {}", t.text())
}

fn check_stmt_order(cx: &mut Cx, form: usize, xv: i64, t: &T)
{
	let input = order_input(form, xv, t);
	let (tmpl, addr) = ORDER_FORMS[form % ORDER_FORMS.len()];
	let operand = if addr {format!("[{}]", t.source())} else {t.source()};
	let stmt = tmpl.replace("{}", &operand);
	let def = format!(".const x, {};", T::C(xv).source());
	let programs = [
		("defined above", format!(".addr 0x20000000;\n{def}\n{stmt};\n")),
		("defined below", format!(".addr 0x20000000;\n{stmt};\n{def}\n")),
		("defined below, more code between", format!(".addr 0x20000000;\n{stmt};\nNOP;\n.du8 x & 0xFF;\n{def}\n")),
		("declared .global above, defined below", format!(".global x;\n.addr 0x20000000;\n{stmt};\n{def}\n")),
	];
	let mut results: Vec<(&str, Result<Vec<u8>, String>)> = Vec::new();
	for (name, text) in programs.iter()
	{
		match guarded(|| assemble_dbg(text))
		{
			Ok(r) => results.push((name, r)),
			Err(p) => {cx.report.oracle_fail(input.clone(), format!("assembling {stmt:?} with x {name} panicked: {p}")); return;},
		}
	}
	let first: Vec<Option<Vec<u8>>> = results.iter().map(|(_, r)| r.as_ref().ok().map(|b| b[..b.len().min(2)].to_vec())).collect();
	let accepted = first.iter().filter(|r| r.is_some()).count();
	cx.report.hit(&format!("stmt order: {accepted} of 4 orders assemble"));
	let key = format!("{first:?}");
	cx.report.case(if accepted == 0 {None} else {Some(&key)});
	// every order that assembles gives the same statement bytes
	let oks: Vec<&Vec<u8>> = first.iter().flatten().collect();
	if oks.windows(2).any(|w| w[0] != w[1])
	{
		cx.report.oracle_fail(input.clone(), format!("{stmt:?} assembles to different bytes depending on where x is defined: {first:?}"));
		return;
	}
	// and the orders agree on acceptance, unless the refusing order reports an arithmetic overflow which the other
	// order's association avoided (C08 claims equal values only "whenever both produce a value")
	if accepted != 0 && accepted != 4
	{
		let refused: Vec<&(&str, Result<Vec<u8>, String>)> = results.iter().filter(|(_, r)| r.is_err()).collect();
		if !refused.iter().all(|(_, r)| r.as_ref().err().is_some_and(|e| e.contains("Overflow")))
		{
			let (n, e) = refused.iter().find(|(_, r)| !r.as_ref().err().is_some_and(|e| e.contains("Overflow"))).map(|(n, r)| (*n, r.clone().err().unwrap_or_default())).unwrap();
			let okn = results.iter().find(|(_, r)| r.is_ok()).map(|(n, _)| *n).unwrap_or("");
			cx.report.oracle_fail(input, format!("{stmt:?} (x = {xv}) assembles to {} with x {okn} but is refused with x {n}: {}", hex(oks[0]), &e[..e.len().min(300)]));
		}
		else {cx.report.hit("stmt order: acceptance differs by an overflow only (tolerated)");}
	}
}

fn gen_order_tree(rng: &mut Rng) -> T
{
	let r = id(*rng.pick(&["r0", "r1", "r5", "r7", "R3", "sp"]));
	let k = |rng: &mut Rng| T::C(*rng.pick(&[0i64, 1, -1, 2, -2, 3, 4, -4, 7, 8, 31, 32, 124, -124]));
	let x = || id("x");
	let neg = |t: T| T::Neg(Box::new(t));
	let mut t = match rng.below(8)
	{
		0 => r,
		1 => bin(ADD, r, k(rng)),
		2 => bin(SUB, r, k(rng)),
		3 => bin(ADD, k(rng), r),
		4 => neg(bin(SUB, k(rng), r)),
		5 => bin(SUB, bin(SUB, T::C(0), r), id(*rng.pick(&["r2", "r6", "R4"]))),
		6 => bin(SUB, neg(r), id(*rng.pick(&["r2", "r6", "R4"]))),
		_ => bin(ADD, r, id(*rng.pick(&["r2", "r6", "R4"]))),
	};
	for _ in 0..rng.below(5)
	{
		t = match rng.below(18)
		{
			0 => bin(MUL, t, x()),
			1 => bin(MUL, x(), t),
			2 => bin(DIV, t, x()),
			3 => bin(SHL, t, x()),
			4 => bin(SHR, t, x()),
			5 => bin(OR, t, x()),
			6 => bin(XOR, x(), t),
			7 => bin(AND, t, x()),
			8 => bin(ADD, t, x()),
			9 => bin(SUB, t, x()),
			10 => neg(neg(t)),
			11 => neg(bin(SUB, k(rng), t)),
			12 => bin(SUB, k(rng), neg(t)),
			13 => bin(ADD, t, k(rng)),
			14 => bin(SUB, t, k(rng)),
			15 => bin(SUB, T::C(0), t),
			16 => neg(t),
			_ => bin(ADD, bin(MUL, x(), k(rng)), t),
		};
	}
	t
}

fn run_stmt_order(cx: &mut Cx)
{
	// fixed: the shapes whose evaluation swaps a negated subtraction
	let x = || id("x");
	let r0 = || id("r0");
	let fixed: Vec<(usize, i64, T)> = vec![
		(0, 1, bin(MUL, T::Neg(Box::new(bin(SUB, T::C(-1), r0()))), x())),
		(1, 1, bin(DIV, T::Neg(Box::new(bin(SUB, T::C(-4), r0()))), x())),
		(2, 0, bin(SHL, T::Neg(Box::new(bin(SUB, T::C(-2), r0()))), x())),
		(0, 1, bin(MUL, bin(ADD, r0(), T::C(1)), x())),
		(4, 1, bin(MUL, T::Neg(Box::new(bin(SUB, T::C(0), id("r1")))), x())),
		(0, 0, bin(ADD, bin(ADD, r0(), T::C(1)), x())),
		(0, 2, bin(ADD, T::Neg(T::Neg(Box::new(r0())).into()), x())),
		(1, 1, bin(MUL, bin(SUB, T::C(0), bin(SUB, bin(SUB, T::C(0), r0()), id("r1"))), x())),
		(1, 1, bin(MUL, bin(SUB, T::C(0), bin(SUB, T::Neg(Box::new(r0())), id("r1"))), x())),
	];
	for (f, xv, t) in fixed.iter() {check_stmt_order(cx, *f, *xv, t);}
	let n = if cx.thorough() {60_000} else {6_000};
	for i in 0..n
	{
		let mut rng = cx.rng.fork();
		let t = gen_order_tree(&mut rng);
		let xv = *rng.pick(&[0i64, 1, 1, -1, 2, 4]);
		check_stmt_order(cx, (i % ORDER_FORMS.len() as u64) as usize, xv, &t);
		if cx.report.oracle_failures_total >= 40 {break;}
	}
}

fn fixed_cases() -> Vec<(T, Binds)>
{
	let later = |pairs: &[(&str, i64)]| -> Binds {pairs.iter().map(|(n, v)| ((*n).to_owned(), Bind::Later(*v))).collect()};
	let x = || id("x");
	let y = || id("y");
	let c = T::C;
	vec![
		// the witnesses of F15, F16, F17
		(bin(AND, bin(AND, x(), c(3)), c(5)), later(&[("x", 7)])),
		(bin(OR, bin(OR, x(), c(3)), c(4)), later(&[("x", 8)])),
		(bin(XOR, bin(XOR, x(), c(3)), c(5)), later(&[("x", 9)])),
		(bin(MOD, x(), c(1)), later(&[("x", 7)])),
		(bin(MOD, bin(MOD, x(), c(-5)), c(3)), later(&[("x", 4)])),
		(bin(MOD, bin(MOD, x(), c(10)), c(11)), later(&[("x", 123)])),
		// sign tracking
		(bin(SUB, bin(ADD, x(), c(2)), bin(SUB, y(), c(3))), later(&[("x", 10), ("y", 4)])),
		(bin(ADD, T::Neg(Box::new(bin(ADD, x(), c(2)))), c(3)), later(&[("x", 10)])),
		(bin(SUB, c(2), bin(SUB, c(5), x())), later(&[("x", 10)])),
		(bin(SUB, bin(SUB, c(2), x()), c(2)), later(&[("x", 10)])),
		// division spines
		(bin(DIV, bin(DIV, x(), c(3)), c(-2)), later(&[("x", -100)])),
		(bin(DIV, bin(DIV, c(100), x()), c(7)), later(&[("x", -3)])),
		(bin(DIV, c(100), bin(DIV, x(), c(7))), later(&[("x", 30)])),
		(bin(DIV, bin(DIV, bin(DIV, x(), c(3)), y()), c(5)), later(&[("x", 1000), ("y", -7)])),
		(bin(MUL, bin(MUL, x(), c(3)), bin(MUL, c(5), y())), later(&[("x", 11), ("y", -7)])),
	]
}

/// chains in which the simplifier merges two constants around a still unvalued name, with constants whose merge (product, sum,
/// shift total) leaves i64 or lands exactly on its ends, and values of the name at the ends of i64: `(x / 2^32) / 2^32`,
/// `(x * a) * b`, `(x + MAX) + 1`, `(x << 40) << 30`, `(x % a) % b` …
fn merge_corner_cases() -> Vec<(T, Binds)>
{
	let big: [i64; 13] = [1 << 31, 1 << 32, 1 << 33, 1 << 62, i64::MAX, i64::MIN + 1, -(1 << 32), -(1 << 31), 3037000500, -3037000500, -1, 2, i64::MIN];
	let sh: [i64; 8] = [1, 31, 32, 33, 40, 62, 63, 64];
	let xs: [i64; 9] = [i64::MAX, i64::MIN, -i64::MAX, 0, 1, -1, 1 << 32, (1 << 62) + 12345, -(1 << 62) - 54321];
	let c = T::C;
	let mut out = Vec::new();
	for &xv in &xs
	{
		let b1 = |v: i64| -> Binds {vec![("x".to_owned(), Bind::Later(v))].into_iter().collect()};
		for op in [DIV, MUL, ADD, SUB, MOD]
		{
			for &a in &big
			{
				for &b in &big
				{
					out.push((bin(op, bin(op, id("x"), c(a)), c(b)), b1(xv)));
				}
			}
		}
		for (o1, o2) in [(ADD, SUB), (SUB, ADD), (MUL, DIV), (DIV, MUL)]
		{
			for &a in &big[..8]
			{
				for &b in &big[..8]
				{
					out.push((bin(o2, bin(o1, id("x"), c(a)), c(b)), b1(xv)));
				}
			}
		}
		for (o1, o2) in [(SHL, SHL), (SHR, SHR), (SHL, SHR), (SHR, SHL)]
		{
			for &a in &sh
			{
				for &b in &sh
				{
					out.push((bin(o2, bin(o1, id("x"), c(a)), c(b)), b1(xv)));
				}
			}
		}
	}
	out
}

pub fn run(id: &str, cx: &mut Cx)
{
	if let Some(input) = cx.replay.clone()
	{
		replay(cx, &input);
		return;
	}
	match id
	{
		"C07" => run_c07(cx),
		_ => run_c08(cx),
	}
}
