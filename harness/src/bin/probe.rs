use trion::text::parse::Parser;
fn main()
{
	for src in ["a b c;", "a b c d;", "NOP; a b c; NOP;", "a (1 2); NOP;", ".du8 1 2; NOP;"]
	{
		println!("== {src:?}");
		for (i, e) in Parser::new(src.as_bytes()).enumerate().take(10)
		{
			match e
			{
				Ok(el) => println!("  {i}: ok {}:{} {:?}", el.line, el.col, el.value),
				Err(e) => println!("  {i}: ERR {e}"),
			}
		}
	}
}
