//! C12 (diagnostic clause) — a diagnostic raised for a directive, instruction or label statement names the file,
//! line and column of that statement's first token. Real `Context` pipeline; oracle computed from the byte offset
//! at which the harness placed the offending statement (line = 1 + #LF before, column = 1 + #scalar values since
//! the last LF).
use crate::asm::{run_real, Project};
use crate::common::*;

/// (text, byte offset of the statement that must be blamed, needs an active region before it)
const BAD: &[(&str, usize, bool)] = &[
	(".const R0, 1;", 0, false), (".global sp;", 0, false), ("pc:", 0, true),
	(".du8;", 0, true), (".du8 1, 2;", 0, true), ("NOP 1;", 0, true), ("ADCS R0;", 0, true), ("ADCS R0, R1, R2;", 0, true),
	(".addr;", 0, false), (".const x9;", 0, false), (".include;", 0, false), (".global;", 0, false), (".align;", 0, true),
	(".du8 \"s\";", 0, true), (".dstr 5;", 0, true), (".dhex 5;", 0, true), (".dfile 5;", 0, true), ("MOVS R0, \"x\";", 0, true),
	("MOVS 5, R0;", 0, true), (".addr \"x\";", 0, false), (".include 5;", 0, false), (".const 5, 5;", 0, false), (".global 5;", 0, false),
	("PUSH R0;", 0, true), ("LDR R0, {R1};", 0, true), (".du8 [R0];", 0, true),
	("FOO R0;", 0, true), (".bar 1;", 0, false), ("ADC R0, R1;", 0, true),
	(".du8 256;", 0, true), (".du16 65536;", 0, true), (".du32 0x100000000;", 0, true), ("MOVS R0, 256;", 0, true), ("MOVS R8, 1;", 0, true),
	(".addr 0x100000000;", 0, false), (".align 0;", 0, true), ("LDR R0, [R1 + 3];", 0, true), ("SVC 256;", 0, true), ("LSLS R0, R1, 32;", 0, true),
	("BX PC;", 0, true), (".du8 1 << 64;", 0, true), (".du8 1 / 0;", 0, true), (".du32 0x7FFFFFFFFFFFFFFF + 1;", 0, true),
	("B 0x10000;", 0, true), ("BEQ 0x1001;", 0, true), ("ADR R0, 2;", 0, true), ("CPSIE x;", 0, true), ("DMB ZZ;", 0, true), ("RSBS R0, R1, 1;", 0, true),
	(".du8 nope;", 0, true), ("MOVS R0, nope;", 0, true), ("B nope;", 0, true), (".const c9, nope;", 0, false), (".addr nope;", 0, false),
	(".export nope;", 0, false), (".import nope;", 0, false), (".global never_defined;", 0, false), (".align nope;", 0, true),
	(".const dup, 1; .const dup, 2;", 15, false), ("dupl: dupl:", 6, true), (".global g9; .global g9;", 12, false),
	(".dhex \"0g\";", 0, true), (".dhex \"abc\";", 0, true), (".dfile \"missing.bin\";", 0, true), (".include \"missing.asm\";", 0, false),
	(".addr 0x100;", 0, true), // occupied: re-selecting a region that holds output
];

/// statements that are fine and leave an active region at 0x100 with one byte in it
const GOOD: &[&str] = &["NOP;", ".du8 1;", "lbl_{n}:", ".dstr \"x;y\";", "MOVS R0, 1;", ".const k_{n}, 3;", ".align 1;", "/* not a statement; */"];
const SEPS: &[&str] = &[" ", "\n", "\t", "\r\n", "\r", "\n\r", " \r ", "\n\n", "  \t ", " // c\n", " /* \u{e9}\u{20ac} */ ", "/* a\n b */", "\n/*\n/* n */\n*/\t", " //\u{1F600}\n\t", " /* \u{BF}\u{FF}\u{FFFD} */ ", "/* \u{80}\u{7FF}\u{800}\u{10FFFF} */"];

fn pos_of(text: &str, off: usize) -> (u32, u32)
{
	let pre = &text[..off];
	let line = 1 + pre.bytes().filter(|&b| b == b'\n').count() as u32;
	let col = 1 + pre[pre.rfind('\n').map_or(0, |i| i + 1)..].chars().count() as u32;
	(line, col)
}

/// `files[0]` is main.asm; `blame` = for each file name the byte offset of the statement that every diagnostic
/// naming that file must point at
thread_local! {static EXE_RUNS: std::cell::Cell<u32> = std::cell::Cell::new(0);}

fn check_files(cx: &mut Cx, files: &[(String, String)], blame: &[(String, usize)], dir: &std::path::Path)
{
	let input = format!("diagp {} ; {}", files.iter().map(|(n, t)| format!("{n}={}", hex(t.as_bytes()))).collect::<Vec<_>>().join(" "),
		blame.iter().map(|(n, o)| format!("{n}@{o}")).collect::<Vec<_>>().join(" "));
	let want: Vec<(String, (u32, u32))> = blame.iter().map(|(n, o)| (n.clone(), pos_of(&files.iter().find(|(f, _)| f == n).unwrap().1, *o))).collect();
	Project{files: files.iter().map(|(n, t)| (n.clone(), t.clone().into_bytes())).collect()}.write(dir);
	match run_real(dir)
	{
		Err(p) => cx.report.oracle_fail(input, format!("panic: {p}")),
		Ok(o) =>
		{
			cx.report.case(Some(&format!("{:?}:{}", want, o.errors.first().map(|e| e.3.chars().take(30).collect::<String>()).unwrap_or_default())));
			if o.errors.is_empty()
			{
				if o.close_err.is_none() {cx.report.oracle_fail(input, "the ill-formed statement produced no diagnostic");}
				return;
			}
			// the EXECUTABLE on the same main file (a sample of the cases with a carriage return): every `(main.asm:line:col)` it prints on
			// stderr is the position of a statement at fault
			if files.len() == 1 && files[0].1.contains('\r') && EXE_RUNS.with(|c| {let n = c.get(); c.set(n + 1); n < 300})
			{
				let exe = repo_bin("trias");
				if exe.exists()
				{
					if let Ok(out) = std::process::Command::new(&exe).arg("main.asm").current_dir(dir).output()
					{
						cx.report.hit("diagnostic positions printed by the executable (files with a CR)");
						let err = String::from_utf8_lossy(&out.stderr).into_owned();
						for l in err.lines().filter(|l| l.starts_with("Error"))
						{
							let Some(at) = l.rfind("(main.asm:") else {continue};
							let nums: Vec<u32> = l[at + 10..].trim_end_matches(')').split(':').filter_map(|x| x.parse().ok()).collect();
							if nums.len() == 2 && !want.iter().any(|(n, w)| n == "main.asm" && *w == (nums[0], nums[1]))
							{
								cx.report.oracle_fail(input.clone(), format!("the executable prints {l:?}; the statement at fault starts at {:?}", want.iter().map(|(_, w)| *w).collect::<Vec<_>>()));
								break;
							}
						}
						if err.trim().is_empty() {cx.report.oracle_fail(input.clone(), "the executable prints no diagnostic for the ill-formed program");}
					}
				}
				else if !cx.report.notes.iter().any(|n| n.starts_with("trias is not built")) {cx.report.notes.push("trias is not built for this check (props/C12.json needs_bins): positions printed by the executable are not compared".to_owned());}
			}
			// what the executable prints for a diagnostic ends with "(file:line:col)" of that same position
			for ((file, line, col, _), text) in o.errors.iter().zip(o.printed.iter())
			{
				if !text.ends_with(&format!("({file}:{line}:{col})"))
				{
					cx.report.oracle_fail(input, format!("the diagnostic at {file}:{line}:{col} is printed as {text:?}"));
					return;
				}
			}
			for (file, line, col, msg) in &o.errors
			{
				let base = file.rsplit('/').next().unwrap_or(file);
				// several statements of one file may be at fault (e.g. a `.global` never defined and its use)
				let cands: Vec<&(u32, u32)> = want.iter().filter(|(n, _)| n == base).map(|(_, w)| w).collect();
				match cands.first()
				{
					Some(_) if cands.iter().any(|w| **w == (*line, *col)) => (),
					Some(w) =>
					{
						cx.report.oracle_fail(input, format!("diagnostic {msg:?} names {file}:{line}:{col}, the statement's first token is at {}:{}", w.0, w.1));
						return;
					},
					None =>
					{
						cx.report.oracle_fail(input, format!("diagnostic {msg:?} names {file}:{line}:{col}, but no statement of that file is at fault (expected {want:?})"));
						return;
					},
				}
			}
		},
	}
}

fn check(cx: &mut Cx, text: &str, off: usize, dir: &std::path::Path)
{
	check_files(cx, &[("main.asm".to_owned(), text.to_owned())], &[("main.asm".to_owned(), off)], dir);
}

/// an include through a SYMLINKED directory (`symlink <k>`): `link/../lib/util.asm` is, for the operating system, the file next to the
/// link's TARGET, not next to the link. Whatever name a diagnostic carries: that file must exist and must have the blamed statement
/// at the line and column the diagnostic names.
fn symlink_scenario(cx: &mut Cx, k: usize, dir: &std::path::Path)
{
	let input = format!("symlink {k}");
	let _ = std::fs::remove_dir_all(dir);
	std::fs::create_dir_all(dir.join("deep/real")).unwrap();
	std::fs::create_dir_all(dir.join("deep/lib")).unwrap();
	std::fs::create_dir_all(dir.join("lib")).unwrap();
	if std::os::unix::fs::symlink(dir.join("deep/real"), dir.join("link")).is_err() {cx.report.notes.push("symbolic links cannot be created here: `symlink` scenario skipped".to_owned()); return;}
	let bad = [".du8 256;", "MOVS R0, nope9;", ".du8 1, 2;", "B 0x40000001;"][k % 4];
	// the file the operating system reaches, and a decoy where a lexical `dir/..` would look
	let reached = format!("// reached\n\n\tNOP;\n  {bad}\nNOP;\n");
	let decoy = format!("{bad}\n// decoy: the same statement elsewhere\nNOP;\nNOP;\nNOP;\n");
	std::fs::write(dir.join("deep/lib/util.asm"), &reached).unwrap();
	std::fs::write(dir.join("lib/util.asm"), &decoy).unwrap();
	let inc = ["link/../lib/util.asm", "./link/../lib/util.asm", "link/./../lib/util.asm", "deep/real/../lib/util.asm"][k / 4 % 4];
	std::fs::write(dir.join("main.asm"), format!(".addr 0x100;\n.du8 7;\n.include \"{inc}\";\n")).unwrap();
	cx.report.hit("diagnostic inside a file included through a symbolic link");
	match run_real(dir)
	{
		Err(p) => cx.report.oracle_fail(input, format!("panic: {p}")),
		Ok(o) =>
		{
			cx.report.case(Some(&format!("symlink {k} {}", o.errors.len())));
			if o.errors.is_empty() {cx.report.oracle_fail(input, "the ill-formed statement of the included file produced no diagnostic"); return;}
			let mut blamed_bad = false;
			for (file, line, col, kind) in &o.errors
			{
				let Ok(text) = std::fs::read_to_string(file) else {cx.report.oracle_fail(input.clone(), format!("diagnostic {kind} names {file}, which cannot be read")); return;};
				let at: Option<&str> = text.split('\n').nth(*line as usize - 1).and_then(|l| l.char_indices().nth(*col as usize - 1).map(|(i, _)| &l[i..]));
				let is_include = at.is_some_and(|a| a.starts_with(".include"));
				let is_bad = at.is_some_and(|a| a.starts_with(bad));
				if !is_include && !is_bad
				{
					cx.report.oracle_fail(input.clone(), format!("diagnostic {kind} names {file}:{line}:{col}; that file has {:?} there, the statement at fault is `{bad}`", at.map(|a| a.chars().take(30).collect::<String>())));
					return;
				}
				blamed_bad |= is_bad;
			}
			if !blamed_bad {cx.report.oracle_fail(input, format!("no diagnostic names the statement `{bad}` of the included file: {:?}", o.errors));}
		},
	}
}

pub fn run(cx: &mut Cx)
{
	let dir = cx.work.join("diag");
	if let Some(input) = cx.replay.clone()
	{
		if let Some(k) = input.strip_prefix("symlink ").and_then(|x| x.trim().parse::<usize>().ok()) {symlink_scenario(cx, k, &dir); return;}
		if let Some(rest) = input.strip_prefix("diagp ")
		{
			if let Some((fs, bl)) = rest.split_once(" ; ")
			{
				let files: Vec<(String, String)> = fs.split(' ').filter_map(|p| p.split_once('=')).map(|(n, h)| (n.to_owned(), String::from_utf8(unhex(h).unwrap_or_default()).unwrap_or_default())).collect();
				let blame: Vec<(String, usize)> = bl.split(' ').filter_map(|p| p.split_once('@')).map(|(n, o)| (n.to_owned(), o.parse().unwrap_or(0))).collect();
				check_files(cx, &files, &blame, &dir);
			}
		}
		return;
	}
	cx.report.rule.push_str(" | diagnostics: every ill-formed statement of a catalogue (register names, arity, kind, unknown, range, undefined, duplicate, hex, file, occupied, \
before any .addr) placed after random well-formed statements and separators (tabs, CRLF, multi-byte characters in comments, nested and multi-line block comments); \
every recorded diagnostic must name main.asm and the line/column of the statement's first token; also at columns and lines beyond 2^16");
	for k in 0..16 {symlink_scenario(cx, k, &dir);}
	let n = if cx.thorough() {60_000} else {6_000};
	for i in 0..n
	{
		let mut rng = cx.rng.fork();
		let (bad, boff, needs_active) = if i < BAD.len() as u64 * 4 {BAD[(i as usize) % BAD.len()]} else {*rng.pick(BAD)};
		let mut text = String::new();
		// leading separators (the F13 shape: an instruction before any .addr, indented on a later line)
		for _ in 0..rng.below(3) {text.push_str(*rng.pick(SEPS));}
		// statements that need a region get one (except in the F13 shape: an instruction / data statement before any .addr,
		// which must then be blamed itself); the others get one half of the time
		let mut counter = 0;
		let active = if needs_active {!rng.chance(1, 6) || bad.ends_with(':') || bad.starts_with(".addr 0x100;")} else {rng.chance(1, 2)};
		if active
		{
			text.push_str(".addr 0x100;");
			text.push_str(*rng.pick(SEPS));
			text.push_str(".du8 7;");
			text.push_str(*rng.pick(SEPS));
			for _ in 0..rng.below(4)
			{
				counter += 1;
				text.push_str(&rng.pick(GOOD).replace("{n}", &counter.to_string()));
				text.push_str(*rng.pick(SEPS));
			}
		}
		let off = text.len() + boff;
		// separator text between the directive mark and the directive name: the statement still starts at the mark
		let spaced;
		let bad = if bad.starts_with('.') && boff == 0 && !bad[1..].contains(". ") && rng.chance(1, 3)
		{
			spaced = format!(".{}{}", *rng.pick(&[" ", "\t", "  ", "/* c */", " /* \u{e9}\u{20ac} */ ", "\r\n", "\n", "\n\n\t", "/*\n*/", " // c\n"]), &bad[1..]);
			cx.report.hit("diagnostic position cases with separator text between `.` and the directive name");
			spaced.as_str()
		}
		else {bad};
		text.push_str(bad);
		if active
		{
			for _ in 0..rng.below(3)
			{
				counter += 1;
				text.push_str(*rng.pick(SEPS));
				text.push_str(&rng.pick(GOOD).replace("{n}", &counter.to_string()));
			}
		}
		cx.report.hit("diagnostic position cases");
		if i < 3 {cx.report.sample(format!("diag at {:?}: {}", pos_of(&text, off), text.replace('\n', "\\n").chars().take(120).collect::<String>()));}
		check(cx, &text, off, &dir);
		// the same statement around an `.include`: after a clean include the blame stays with main.asm; inside the
		// included file the blame is that file's statement, and the includer reports the failed include at its own statement
		if i % 3 == 0
		{
			let child_ok = "// child\n.du8 0x21;\n\tNOP;\n";
			let pre = format!("{}.addr 0x100;{}.du8 7;{}", *rng.pick(SEPS), *rng.pick(SEPS), *rng.pick(SEPS));
			let inc_off = pre.len();
			let sep = *rng.pick(SEPS);
			// (a) bad statement in main after a clean include
			let main_a = format!("{pre}.include \"inc.asm\";{sep}{bad}");
			let off_a = pre.len() + ".include \"inc.asm\";".len() + sep.len() + boff;
			check_files(cx, &[("main.asm".to_owned(), main_a), ("inc.asm".to_owned(), child_ok.to_owned())], &[("main.asm".to_owned(), off_a)], &dir);
			// (b) bad statement inside the included file
			let lead = format!("{}// c\n{}", *rng.pick(SEPS), *rng.pick(SEPS));
			let child_b = format!("{lead}{bad}{}", *rng.pick(SEPS));
			let main_b = format!("{pre}.include \"inc.asm\";{sep}NOP;");
			check_files(cx, &[("main.asm".to_owned(), main_b), ("inc.asm".to_owned(), child_b)],
				&[("inc.asm".to_owned(), lead.len() + boff), ("main.asm".to_owned(), inc_off)], &dir);
			cx.report.hit_n("diagnostic position cases around .include", 2);
		}
		// diagnostics of statements that were deferred twice (end of their file, then the includer's end / finalize):
		// they must still name the file and position of the statement itself
		if i % 5 == 0
		{
			let (s1, s2, s3) = (*rng.pick(SEPS), *rng.pick(SEPS), *rng.pick(SEPS));
			// (c) single file: a name declared .global and never defined, used by a data statement
			let pre = format!("{s1}.addr 0x100;{s2}.global g_never{i};{s3}");
			let goff = pre.find(".global").unwrap();
			let uoff = pre.len();
			// the user: a data statement or an INSTRUCTION of any operand kind (immediate, register-or-immediate, address offset, label)
			let users = [".du16 X;", "BL X;", "MOVS R0, X;", "LDR R1, [R2 + X];", "B X;", "ADDS R0, R0, X;", "SVC X;", "ADR R0, X;", "LDR R0, X;", "CMP R1, X;"];
			let user = users[(i / 5) as usize % users.len()].replace('X', &format!("g_never{i}"));
			cx.report.hit(&format!("twice-deferred user: {}", users[(i / 5) as usize % users.len()]));
			let main_c = format!("{pre}{user}{s1}NOP;");
			check_files(cx, &[("main.asm".to_owned(), main_c)], &[("main.asm".to_owned(), goff), ("main.asm".to_owned(), uoff)], &dir);
			// (d) include: the child imports a name the includer defines only after the include; the value does not fit
			let lead = format!("{s2}.import g_far{i};{s3}");
			// the value (0x204 or, for the branch, an address 7.5 KiB away) does not fit the operand of the using statement
			let far_users = [".du8 X;", "MOVS R0, X;", "ADDS R0, R0, X;", "SVC X;", "LDR R1, [R2 + X];", "B X;", "CMP R1, X;", "LDRB R1, [R2 + X];"];
			let fu = far_users[(i / 5) as usize % far_users.len()];
			let child_d = format!("{lead}{}{s1}", fu.replace('X', &format!("g_far{i}")));
			let place = if fu.starts_with("B ") {".addr 0x2000;"} else {".dstr \"0123456789abcdef0123\";"};
			let main_d = format!("{s1}.addr 0x1F0;{s2}.global g_far{i};{s3}.include \"inc.asm\";{s2}{place}{s3}g_far{i}:{s1}NOP;");
			check_files(cx, &[("main.asm".to_owned(), main_d), ("inc.asm".to_owned(), child_d)], &[("inc.asm".to_owned(), lead.len())], &dir);
			cx.report.hit_n("diagnostic position cases of twice-deferred statements", 2);
		}
		if cx.report.oracle_failures_total >= 20 {break;}
	}
	// far positions: columns and lines beyond 2^16 (a long one-line file, a long comment, many empty lines)
	{
		let head = ".addr 0x100; .du8 7;";
		let picks: Vec<&(&str, usize, bool)> = if cx.thorough() {BAD.iter().collect()} else {(0..16).map(|_| cx.rng.pick(BAD)).collect()};
		for (k, (bad, boff, _)) in picks.into_iter().enumerate()
		{
			if bad.starts_with(".addr 0x100;") {continue;}
			let far = [65_535usize, 65_536, 65_537, 70_001, 131_072, 200_003][k % 6] - 1;   // wanted column/line - 1
			let fill = far - head.len();
			let pad = match k % 3 {0 => " ".repeat(fill), 1 => format!("/*{}*/", "c".repeat(fill - 4)), _ => format!("/*{}*/\t", "\u{e9}".repeat(fill - 5))};
			let text = format!("{head}{pad}{bad}");
			check(cx, &text, head.len() + pad.len() + boff, &dir);
			let text = format!("{head}{}{bad} NOP;", "\n".repeat(far));
			check(cx, &text, head.len() + far + boff, &dir);
			cx.report.hit_n("diagnostic position cases at columns / lines beyond 2^16", 2);
		}
	}
	let _ = std::fs::remove_dir_all(&dir);
}
