//! C12 (diagnostic clause) — a diagnostic raised for a directive, instruction or label statement names the file,
//! line and column of that statement's first token. Real `Context` pipeline; oracle computed from the byte offset
//! at which the harness placed the offending statement (line = 1 + #LF before, column = 1 + #scalar values since
//! the last LF).
use crate::asm::{run_real, Project};
use crate::common::*;

/// (text, byte offset of the statement that must be blamed, needs an active region before it)
const BAD: &[(&str, usize, bool)] = &[
	(".const R0, 1;", 0, false), (".global sp;", 0, false), ("pc:", 0, true),
	(".du8;", 0, true), (".du8 1, 2;", 0, true), ("NOP 1;", 0, true), ("ADCS R0;", 0, true), ("ADCS R0, R1, R2;", 0, true),
	(".addr;", 0, false), (".const x9;", 0, false), (".include;", 0, false), (".global;", 0, false), (".align;", 0, true),
	(".du8 \"s\";", 0, true), (".dstr 5;", 0, true), (".dhex 5;", 0, true), (".dfile 5;", 0, true), ("MOVS R0, \"x\";", 0, true),
	("MOVS 5, R0;", 0, true), (".addr \"x\";", 0, false), (".include 5;", 0, false), (".const 5, 5;", 0, false), (".global 5;", 0, false),
	("PUSH R0;", 0, true), ("LDR R0, {R1};", 0, true), (".du8 [R0];", 0, true),
	("FOO R0;", 0, true), (".bar 1;", 0, false), ("ADC R0, R1;", 0, true),
	(".du8 256;", 0, true), (".du16 65536;", 0, true), (".du32 0x100000000;", 0, true), ("MOVS R0, 256;", 0, true), ("MOVS R8, 1;", 0, true),
	(".addr 0x100000000;", 0, false), (".align 0;", 0, true), ("LDR R0, [R1 + 3];", 0, true), ("SVC 256;", 0, true), ("LSLS R0, R1, 32;", 0, true),
	("BX PC;", 0, true), (".du8 1 << 64;", 0, true), (".du8 1 / 0;", 0, true), (".du32 0x7FFFFFFFFFFFFFFF + 1;", 0, true),
	("B 0x10000;", 0, true), ("BEQ 0x1001;", 0, true), ("ADR R0, 2;", 0, true), ("CPSIE x;", 0, true), ("DMB ZZ;", 0, true), ("RSBS R0, R1, 1;", 0, true),
	(".du8 nope;", 0, true), ("MOVS R0, nope;", 0, true), ("B nope;", 0, true), (".const c9, nope;", 0, false), (".addr nope;", 0, false),
	(".export nope;", 0, false), (".import nope;", 0, false), (".global never_defined;", 0, false), (".align nope;", 0, true),
	(".const dup, 1; .const dup, 2;", 15, false), ("dupl: dupl:", 6, true), (".global g9; .global g9;", 12, false),
	(".dhex \"0g\";", 0, true), (".dhex \"abc\";", 0, true), (".dfile \"missing.bin\";", 0, true), (".include \"missing.asm\";", 0, false),
	(".addr 0x100;", 0, true), // occupied: re-selecting a region that holds output
];

/// statements that are fine and leave an active region at 0x100 with one byte in it
const GOOD: &[&str] = &["NOP;", ".du8 1;", "lbl_{n}:", ".dstr \"x;y\";", "MOVS R0, 1;", ".const k_{n}, 3;", ".align 1;", "/* not a statement; */"];
const SEPS: &[&str] = &[" ", "\n", "\t", "\r\n", "\n\n", "  \t ", " // c\n", " /* \u{e9}\u{20ac} */ ", "/* a\n b */", "\n/*\n/* n */\n*/\t", " //\u{1F600}\n\t"];

fn pos_of(text: &str, off: usize) -> (u32, u32)
{
	let pre = &text[..off];
	let line = 1 + pre.bytes().filter(|&b| b == b'\n').count() as u32;
	let col = 1 + pre[pre.rfind('\n').map_or(0, |i| i + 1)..].chars().count() as u32;
	(line, col)
}

fn check(cx: &mut Cx, text: &str, off: usize, dir: &std::path::Path)
{
	let input = format!("diag {} {off}", hex(text.as_bytes()));
	let want = pos_of(text, off);
	Project::single(text.as_bytes()).write(dir);
	match run_real(dir)
	{
		Err(p) => cx.report.oracle_fail(input, format!("panic: {p}")),
		Ok(o) =>
		{
			cx.report.case(Some(&format!("{}:{}:{}", want.0, want.1, o.errors.first().map(|e| e.3.chars().take(30).collect::<String>()).unwrap_or_default())));
			if o.errors.is_empty()
			{
				if o.close_err.is_none() {cx.report.oracle_fail(input, "the ill-formed statement produced no diagnostic");}
				return;
			}
			for (file, line, col, msg) in &o.errors
			{
				if (*line, *col) != want || !file.ends_with("main.asm")
				{
					cx.report.oracle_fail(input, format!("diagnostic {msg:?} names {file}:{line}:{col}, the statement's first token is at {}:{}", want.0, want.1));
					return;
				}
			}
		},
	}
}

pub fn run(cx: &mut Cx)
{
	let dir = cx.work.join("diag");
	if let Some(input) = cx.replay.clone()
	{
		if let Some(rest) = input.strip_prefix("diag ")
		{
			let mut it = rest.split(' ');
			let text = String::from_utf8(unhex(it.next().unwrap_or("")).unwrap_or_default()).unwrap_or_default();
			let off = it.next().and_then(|s| s.parse().ok()).unwrap_or(0);
			check(cx, &text, off, &dir);
		}
		return;
	}
	cx.report.rule.push_str(" | diagnostics: every ill-formed statement of a catalogue (register names, arity, kind, unknown, range, undefined, duplicate, hex, file, occupied, \
before any .addr) placed after random well-formed statements and separators (tabs, CRLF, multi-byte characters in comments, nested and multi-line block comments); \
every recorded diagnostic must name main.asm and the line/column of the statement's first token");
	let n = if cx.thorough() {60_000} else {6_000};
	for i in 0..n
	{
		let mut rng = cx.rng.fork();
		let (bad, boff, needs_active) = if i < BAD.len() as u64 * 4 {BAD[(i as usize) % BAD.len()]} else {*rng.pick(BAD)};
		let mut text = String::new();
		// leading separators (the F13 shape: an instruction before any .addr, indented on a later line)
		for _ in 0..rng.below(3) {text.push_str(*rng.pick(SEPS));}
		// statements that need a region get one (except in the F13 shape: an instruction / data statement before any .addr,
		// which must then be blamed itself); the others get one half of the time
		let mut counter = 0;
		let active = if needs_active {!rng.chance(1, 6) || bad.ends_with(':') || bad.starts_with(".addr 0x100;")} else {rng.chance(1, 2)};
		if active
		{
			text.push_str(".addr 0x100;");
			text.push_str(*rng.pick(SEPS));
			text.push_str(".du8 7;");
			text.push_str(*rng.pick(SEPS));
			for _ in 0..rng.below(4)
			{
				counter += 1;
				text.push_str(&rng.pick(GOOD).replace("{n}", &counter.to_string()));
				text.push_str(*rng.pick(SEPS));
			}
		}
		let off = text.len() + boff;
		text.push_str(bad);
		if active
		{
			for _ in 0..rng.below(3)
			{
				counter += 1;
				text.push_str(*rng.pick(SEPS));
				text.push_str(&rng.pick(GOOD).replace("{n}", &counter.to_string()));
			}
		}
		cx.report.hit("diagnostic position cases");
		if i < 3 {cx.report.sample(format!("diag at {:?}: {}", pos_of(&text, off), text.replace('\n', "\\n").chars().take(120).collect::<String>()));}
		check(cx, &text, off, &dir);
		if cx.report.oracle_failures_total >= 20 {break;}
	}
	let _ = std::fs::remove_dir_all(&dir);
}
