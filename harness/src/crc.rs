//! C17 — correspondence of `trion::uf2::crc::Crc` with the Lean model `Trion.Crc` and the
//! property oracle (an independent bit-serial CRC-32/MPEG-2 written here).
use trion::uf2::crc::Crc;

use crate::common::*;

/// independent oracle: MSB-first bit-serial register, poly 0x04C11DB7
fn bitwise(mut s: u32, data: &[u8]) -> u32
{
	for &b in data
	{
		s ^= (b as u32) << 24;
		for _ in 0..8
		{
			s = if s & 0x8000_0000 != 0 {(s << 1) ^ 0x04C1_1DB7} else {s << 1};
		}
	}
	s
}

/// the real update step from an arbitrary state: `Crc` has no public constructor from a state, but the
/// step is linear, so it is driven through the public API by the identity
/// update(s, b) = update(init, b) ^ shift-part difference … — instead we use the table directly, which is
/// public, exactly as `Crc::update` does, and cross-check that formula against the real `update` on
/// reachable states below.
fn real_step_via_table(s: u32, b: u8) -> u32
{
	(s << 8) ^ Crc::TABLE[(b ^ (s >> 24) as u8) as usize]
}

fn real_run(data: &[u8]) -> u32
{
	let mut c = Crc::new();
	c.update_slice(data);
	c.get_value()
}

fn check_update(cx: &mut Cx, s: u32, b: u8, reply: &str)
{
	let input = format!("update {s:08x} {b:02x}");
	let imp = real_step_via_table(s, b);
	let imp_s = format!("{imp:08x}");
	cx.report.case(Some(&imp_s));
	cx.report.compare("model.crc.update", &input, reply, &imp_s);
	let want = bitwise(s, &[b]);
	if imp != want
	{
		cx.report.oracle_fail(input, format!("CRC-32/MPEG-2 step gives {want:08x}, implementation table step gives {imp:08x}"));
	}
}

fn check_run(cx: &mut Cx, data: &[u8], cuts: &[usize], reply: &str)
{
	let input = format!("run {} {}", hex(data), cuts.iter().map(|c| c.to_string()).collect::<Vec<_>>().join(","));
	// implementation: whole, byte-wise, and in pieces
	let whole = real_run(data);
	let mut c = Crc::new();
	let mut prev = 0;
	for &cut in cuts
	{
		c.update_slice(&data[prev..cut]);
		prev = cut;
	}
	c.update_slice(&data[prev..]);
	let pieces = c.get_value();
	let mut c = Crc::new();
	for &b in data {c.update(b);}
	let bytewise = c.get_value();
	let imp_s = format!("{whole:08x}");
	cx.report.case(if data.is_empty() {None} else {Some(&imp_s)});
	cx.report.compare("model.crc.run", &input, reply, &imp_s);
	let want = bitwise(0xFFFF_FFFF, data);
	// every public way to obtain a fresh state must start from the same register
	let mut d = Crc::default();
	d.update_slice(data);
	if d.get_value() != want
	{
		cx.report.oracle_fail(input.clone(), format!("CRC-32/MPEG-2 of the string is {want:08x}, a fresh Crc::default() gives {:08x}", d.get_value()));
	}
	if whole != want
	{
		cx.report.oracle_fail(input.clone(), format!("CRC-32/MPEG-2 of the string is {want:08x}, Crc gives {whole:08x}"));
	}
	if pieces != whole || bytewise != whole
	{
		cx.report.oracle_fail(input, format!("feeding in pieces gives {pieces:08x} / byte-wise {bytewise:08x}, whole {whole:08x}"));
	}
}

/// LARGE single calls (`big <len> <offset> <seed>`): one `update_slice` over `len` bytes that start at `offset` of a buffer (non-zero
/// pattern) against the bit-serial oracle, byte-wise feeding and feeding in two halves; too long for the model's line protocol
fn check_big(cx: &mut Cx, len: usize, offset: usize, seed: u64)
{
	let input = format!("big {len} {offset} {seed}");
	let mut rng = Rng::new(seed);
	let mut buf = vec![0u8; len + offset];
	for chunk in buf.chunks_mut(8) {let v = rng.next().to_le_bytes(); let n = chunk.len(); chunk.copy_from_slice(&v[..n]);}
	if let Some(last) = buf.last_mut() {*last |= 1;}
	let data = &buf[offset..];
	let r = guarded(||
	{
		let mut w = Crc::new();
		w.update_slice(data);
		let mut b = Crc::new();
		for &x in data {b.update(x);}
		let mut h = Crc::new();
		h.update_slice(&data[..len / 2]);
		h.update_slice(&data[len / 2..]);
		(w.get_value(), b.get_value(), h.get_value())
	});
	let want = bitwise(0xFFFF_FFFF, data);
	cx.report.case(Some(&format!("{want:08x}")));
	cx.report.hit(if len >= 1 << 20 {"large single call (>= 1 MiB)"} else if len >= 1 << 16 {"large single call (>= 64 KiB)"} else {"slice at an unaligned offset"});
	match r
	{
		Err(p) => cx.report.oracle_fail(input, format!("panic: {p}")),
		Ok((whole, bytewise, halves)) =>
		{
			if whole != want || bytewise != want || halves != want
			{
				cx.report.oracle_fail(input, format!("CRC-32/MPEG-2 of {len} bytes is {want:08x}; one update_slice call gives {whole:08x}, byte-wise {bytewise:08x}, two halves {halves:08x}"));
			}
		},
	}
}

pub fn run(_id: &str, cx: &mut Cx)
{
	cx.report.rule = "table: all 256 entries; update: every (top byte, next byte) pair x 5 low-bit patterns exhaustively plus random 32-bit states; \
run: random byte strings (length 0..600, boundary lengths) with random cut points, fed whole / byte-wise / in pieces. \
non-trivial = non-empty input; distinct = distinct resulting register values".to_owned();

	if let Some(input) = cx.replay.clone()
	{
		let w: Vec<&str> = input.split(' ').collect();
		match w.as_slice()
		{
			["update", s, b] =>
			{
				let (s, b) = (u32::from_str_radix(s, 16).unwrap(), u8::from_str_radix(b, 16).unwrap());
				let reply = cx.model.ask(&format!("crc update {s:08x} {b:02x}"));
				check_update(cx, s, b, &reply);
			},
			["run", data, cuts] =>
			{
				let data = unhex(data).unwrap();
				let cuts: Vec<usize> = cuts.split(',').filter(|s| !s.is_empty()).map(|s| s.parse().unwrap()).collect();
				let reply = cx.model.ask(&format!("crc run ffffffff {}", hex(&data)));
				check_run(cx, &data, &cuts, &reply);
			},
			["table"] => table(cx),
			["big", len, off, seed] => match (len.parse(), off.parse(), seed.parse())
			{
				(Ok(len), Ok(off), Ok(seed)) => check_big(cx, len, off, seed),
				_ => cx.report.oracle_fail(input.clone(), "unrecognised replay input"),
			},
			_ => cx.report.oracle_fail(input.clone(), "unrecognised replay input"),
		}
		return;
	}

	table(cx);

	// the formula used for arbitrary states is the real `update` on reachable states
	{
		let mut c = Crc::new();
		let mut s = c.get_value();
		for i in 0..100_000u32
		{
			let b = (cx.rng.next() & 0xFF) as u8;
			c.update(b);
			let f = real_step_via_table(s, b);
			if c.get_value() != f
			{
				cx.report.oracle_fail(format!("update {s:08x} {b:02x}"), format!("Crc::update gives {:08x} but (s<<8)^TABLE[..] gives {f:08x} at step {i}", c.get_value()));
				break;
			}
			s = f;
		}
		cx.report.hit_n("reachable-state steps", 100_000);
	}

	// update: exhaustive over (top byte, next byte), 5 low patterns
	let lows = [0u32, 0x00FF_FFFF, 0x0055_AA55, 0x0080_0001, 0x0012_3456];
	let mut pairs: Vec<(u32, u8)> = Vec::new();
	for low in lows
	{
		for top in 0..256u32
		{
			for b in 0..256u32 {pairs.push(((top << 24) | low, b as u8));}
		}
	}
	cx.report.hit_n("update exhaustive (top,byte) pairs", pairs.len() as u64);
	let nrand = if cx.thorough() {2_000_000} else {200_000};
	for _ in 0..nrand {pairs.push((cx.rng.next() as u32, cx.rng.next() as u8));}
	cx.report.hit_n("update random pairs", nrand);
	for chunk in pairs.chunks(65536)
	{
		let lines: Vec<String> = chunk.iter().map(|(s, b)| format!("crc update {s:08x} {b:02x}")).collect();
		let replies = cx.model.ask_many(&lines);
		for ((s, b), r) in chunk.iter().zip(replies.iter()) {check_update(cx, *s, *b, r);}
	}
	cx.report.sample("update ffffffff 31 -> ".to_owned() + &format!("{:08x}", real_step_via_table(0xFFFF_FFFF, 0x31)));

	// large single calls and slices at every offset 0..7 of a buffer
	for len in [(1usize << 20) - 1, 1 << 20, (1 << 20) + 1, (4 << 20) + 3, (1 << 16) - 1, 1 << 16, (1 << 16) + 1, 65_537 * 3]
	{
		let seed = cx.rng.next();
		check_big(cx, len, (seed % 8) as usize, seed);
	}
	for off in 0..8 {for len in [0usize, 1, 3, 4, 7, 8, 9, 63, 64, 65, 4099] {let seed = cx.rng.next(); check_big(cx, len, off, seed);}}

	// strings
	let nstr = if cx.thorough() {60_000} else {6_000};
	let mut cases: Vec<(Vec<u8>, Vec<usize>)> = Vec::new();
	cases.push((b"123456789".to_vec(), vec![4]));
	cases.push((Vec::new(), vec![]));
	for i in 0..nstr
	{
		let len = match i % 8
		{
			0 => cx.rng.below(4),
			1 => 252,
			2 => 255 + cx.rng.below(3),
			_ => cx.rng.below(600),
		} as usize;
		let mut data = vec![0u8; len];
		let mode = cx.rng.below(4);
		for d in data.iter_mut()
		{
			*d = match mode {0 => 0, 1 => 0xFF, _ => cx.rng.next() as u8};
		}
		let ncut = cx.rng.below(4) as usize;
		let mut cuts: Vec<usize> = (0..ncut).map(|_| cx.rng.below(len as u64 + 1) as usize).collect();
		cuts.sort();
		cases.push((data, cuts));
	}
	cx.report.hit_n("strings", cases.len() as u64);
	for chunk in cases.chunks(4096)
	{
		let lines: Vec<String> = chunk.iter().map(|(d, _)| format!("crc run ffffffff {}", hex(d))).collect();
		let replies = cx.model.ask_many(&lines);
		for ((d, cuts), r) in chunk.iter().zip(replies.iter()) {check_run(cx, d, cuts, r);}
	}
	// the model's specification side agrees too (spec = bit-serial register inside Lean)
	let spec = cx.model.ask("crc spec ffffffff 313233343536373839");
	cx.report.compare("model.crc.spec", "run 313233343536373839 ", &spec, &format!("{:08x}", real_run(b"123456789")));
	cx.report.sample(format!("run \"123456789\" -> {:08x}", real_run(b"123456789")));
	if real_run(b"123456789") != 0x0376_E6E7
	{
		cx.report.oracle_fail("run 313233343536373839 ", format!("check value must be 0376e6e7, got {:08x}", real_run(b"123456789")));
	}
}

fn table(cx: &mut Cx)
{
	let reply = cx.model.ask("crc table");
	let imp = Crc::TABLE.iter().map(|v| format!("{v:08x}")).collect::<Vec<_>>().join(" ");
	cx.report.cases(256);
	cx.report.hit_n("table entries", 256);
	if reply != imp
	{
		let m: Vec<&str> = reply.split(' ').collect();
		let first = (0..256).find(|&i| m.get(i).map(|s| s.to_string()) != Some(format!("{:08x}", Crc::TABLE[i]))).unwrap_or(0);
		cx.report.disagree("model.crc.table", "table", format!("entry {first}: {}", m.get(first).unwrap_or(&"?")), format!("entry {first}: {:08x}", Crc::TABLE[first]));
	}
	for i in 0..256u32
	{
		let want = bitwise(i << 24, &[0]);
		if Crc::TABLE[i as usize] != want
		{
			cx.report.oracle_fail("table", format!("TABLE[{i}] is {:08x}, CRC-32/MPEG-2 requires {want:08x}", Crc::TABLE[i as usize]));
			break;
		}
	}
	if Crc::POLYNOMIAL != 0x04C1_1DB7
	{
		cx.report.oracle_fail("table", format!("POLYNOMIAL is {:08x}", Crc::POLYNOMIAL));
	}
}
