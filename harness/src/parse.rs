//! C09 — correspondence of `trion::text::parse::Parser` with the Lean model `Trion.Parse` and the property
//! oracle: an argument tree rendered (here, independently of the model) with only the parentheses that
//! precedence and left associativity require, with arbitrary spacing/comments, parses back to the
//! identical tree; redundant parentheses change nothing; statement kind, names and argument order are
//! preserved; an element carries the position of its first token.
//!
//! The model is always run on the REAL token stream (real `Tokenizer`, positions included), so this tie
//! does not depend on the lexer model.
// catch-all arms keep the harness compiling when the crate adds a variant to one of its error enums (the outcome is then `unknown:<Debug>`)
#![allow(unreachable_patterns)]
use trion::text::parse::{Argument, ElementValue, ParseErrorKind, Parser};
use trion::text::token::{Number, TokenErrorKind, TokenValue, Tokenizer};

use crate::common::*;

// ---------------------------------------------------------------------------------------------------
// trees

#[derive(Clone, Debug, PartialEq)]
enum T
{
	Const(i64),
	Ident(String),
	Str(String),
	Bin(usize, Box<T>, Box<T>),
	Neg(Box<T>),
	Not(Box<T>),
	Addr(Box<T>),
	Seq(Vec<T>),
	Func(String, Vec<T>),
}

/// same order as `BinOp` in operator.rs
const OP_NAMES: [&str; 10] = ["add", "sub", "mul", "div", "mod", "band", "bor", "bxor", "shl", "shr"];
const OP_CODES: [&str; 10] = ["plus", "minus", "mul", "div", "mod", "band", "bor", "bxor", "shl", "shr"];
const OP_TEXT: [&str; 10] = ["+", "-", "*", "/", "%", "&", "|", "^", "<<", ">>"];
/// the documented precedence table (README): `|` < `^` < `&` < shifts < `+ -` < `* / %`
const OP_GROUP: [u8; 10] = [4, 4, 5, 5, 5, 2, 0, 1, 3, 3];

fn prec(t: &T) -> u8
{
	match t {T::Bin(op, ..) => OP_GROUP[*op], _ => 6}
}

fn sexpr(t: &T) -> String
{
	match t
	{
		T::Const(v) => format!("#{v}"),
		T::Ident(s) => format!("i{}", hexs(s.as_bytes())),
		T::Str(s) => format!("s{}", hexs(s.as_bytes())),
		T::Bin(op, l, r) => format!("({} {} {})", OP_NAMES[*op], sexpr(l), sexpr(r)),
		T::Neg(a) => format!("(neg {})", sexpr(a)),
		T::Not(a) => format!("(not {})", sexpr(a)),
		T::Addr(a) => format!("(addr {})", sexpr(a)),
		T::Seq(xs) => format!("(seq{})", sexprs(xs)),
		T::Func(n, xs) => format!("(fn {}{})", hexs(n.as_bytes()), sexprs(xs)),
	}
}

fn sexprs(xs: &[T]) -> String
{
	xs.iter().map(|x| format!(" {}", sexpr(x))).collect()
}

/// hex without the "-" convention of `common::hex` (empty = empty)
fn hexs(b: &[u8]) -> String
{
	b.iter().map(|b| format!("{b:02x}")).collect()
}

#[derive(Clone, Debug)]
enum Stmt
{
	Label(String),
	Directive(String, Vec<T>),
	Instruction(String, Vec<T>),
}

fn stmt_canon(s: &Stmt) -> String
{
	match s
	{
		Stmt::Label(n) => format!("L {}", hexs(n.as_bytes())),
		Stmt::Directive(n, xs) => format!("D {} (args{})", hexs(n.as_bytes()), sexprs(xs)),
		Stmt::Instruction(n, xs) => format!("I {} (args{})", hexs(n.as_bytes()), sexprs(xs)),
	}
}

// ---------------------------------------------------------------------------------------------------
// s-expression reader (replay of `render` inputs)

fn read_tree(s: &[u8], i: &mut usize) -> Option<T>
{
	while *i < s.len() && s[*i] == b' ' {*i += 1;}
	let word = |i: &mut usize| -> String
	{
		let st = *i;
		while *i < s.len() && !matches!(s[*i], b' ' | b'(' | b')') {*i += 1;}
		String::from_utf8_lossy(&s[st..*i]).into_owned()
	};
	let close = |i: &mut usize| -> Option<()>
	{
		while *i < s.len() && s[*i] == b' ' {*i += 1;}
		if *i < s.len() && s[*i] == b')' {*i += 1; Some(())} else {None}
	};
	match *s.get(*i)?
	{
		b'(' =>
		{
			*i += 1;
			let w = word(i);
			match w.as_str()
			{
				"neg" | "not" | "addr" =>
				{
					let a = Box::new(read_tree(s, i)?);
					close(i)?;
					Some(match w.as_str() {"neg" => T::Neg(a), "not" => T::Not(a), _ => T::Addr(a)})
				},
				"seq" => Some(T::Seq(read_trees(s, i)?)),
				"fn" =>
				{
					while *i < s.len() && s[*i] == b' ' {*i += 1;}
					let n = String::from_utf8(unhex(&word(i))?).ok()?;
					Some(T::Func(n, read_trees(s, i)?))
				},
				_ =>
				{
					let op = OP_NAMES.iter().position(|n| *n == w)?;
					let a = Box::new(read_tree(s, i)?);
					let b = Box::new(read_tree(s, i)?);
					close(i)?;
					Some(T::Bin(op, a, b))
				},
			}
		},
		b'#' => {*i += 1; Some(T::Const(word(i).parse().ok()?))},
		b'i' => {*i += 1; Some(T::Ident(String::from_utf8(unhex(&word(i))?).ok()?))},
		b's' => {*i += 1; Some(T::Str(String::from_utf8(unhex(&word(i))?).ok()?))},
		_ => None,
	}
}

/// trees up to and including the closing parenthesis
fn read_trees(s: &[u8], i: &mut usize) -> Option<Vec<T>>
{
	let mut out = Vec::new();
	loop
	{
		while *i < s.len() && s[*i] == b' ' {*i += 1;}
		if *i >= s.len() {return None;}
		if s[*i] == b')' {*i += 1; return Some(out);}
		out.push(read_tree(s, i)?);
	}
}

// ---------------------------------------------------------------------------------------------------
// rendering to tokens (the property's "only the parentheses required"), independent of the Lean spec

#[derive(Clone, Debug, PartialEq)]
enum Tk
{
	P(&'static str, &'static str), // (code, text)
	Num(i64),
	Ident(String),
	Str(String),
}

const LP: Tk = Tk::P("lp", "(");
const RP: Tk = Tk::P("rp", ")");

fn tk_code(t: &Tk) -> String
{
	match t
	{
		Tk::P(c, _) => (*c).to_owned(),
		Tk::Num(v) => format!("n{v}"),
		Tk::Ident(s) => format!("i{}", hexs(s.as_bytes())),
		Tk::Str(s) => format!("s{}", hexs(s.as_bytes())),
	}
}

/// `extra`: probability (in 1/64) of wrapping any sub-expression in redundant parentheses
fn render(t: &T, min: u8, extra: u64, rng: &mut Rng, out: &mut Vec<Tk>)
{
	let mut layers = 0;
	while extra > 0 && layers < 3 && rng.below(64) < extra {layers += 1;}
	for _ in 0..layers {out.push(LP);}
	let min = if layers > 0 {0} else {min};
	let need = prec(t) < min;
	if need {out.push(LP);}
	match t
	{
		T::Const(v) => out.push(Tk::Num(*v)),
		T::Ident(s) => out.push(Tk::Ident(s.clone())),
		T::Str(s) => out.push(Tk::Str(s.clone())),
		T::Bin(op, l, r) =>
		{
			let g = OP_GROUP[*op];
			// left associative: the left operand may be of the same group, the right one must bind tighter
			render(l, g, extra, rng, out);
			out.push(Tk::P(OP_CODES[*op], OP_TEXT[*op]));
			render(r, g + 1, extra, rng, out);
		},
		T::Neg(a) => {out.push(Tk::P("minus", "-")); render(a, 6, extra, rng, out);},
		T::Not(a) => {out.push(Tk::P("not", "!")); render(a, 6, extra, rng, out);},
		T::Addr(a) => {out.push(Tk::P("lb", "[")); render(a, 0, extra, rng, out); out.push(Tk::P("rb", "]"));},
		T::Seq(xs) => {out.push(Tk::P("lc", "{")); render_list(xs, extra, rng, out); out.push(Tk::P("rc", "}"));},
		T::Func(n, xs) => {out.push(Tk::Ident(n.clone())); out.push(LP); render_list(xs, extra, rng, out); out.push(RP);},
	}
	if need {out.push(RP);}
	for _ in 0..layers {out.push(RP);}
}

fn render_list(xs: &[T], extra: u64, rng: &mut Rng, out: &mut Vec<Tk>)
{
	for (i, x) in xs.iter().enumerate()
	{
		if i > 0 {out.push(Tk::P("sep", ","));}
		render(x, 0, extra, rng, out);
	}
}

fn render_stmt(s: &Stmt, extra: u64, rng: &mut Rng, out: &mut Vec<Tk>)
{
	match s
	{
		Stmt::Label(n) => {out.push(Tk::Ident(n.clone())); out.push(Tk::P("lm", ":"));},
		Stmt::Directive(n, xs) =>
		{
			out.push(Tk::P("dm", "."));
			out.push(Tk::Ident(n.clone()));
			render_list(xs, extra, rng, out);
			out.push(Tk::P("term", ";"));
		},
		Stmt::Instruction(n, xs) =>
		{
			out.push(Tk::Ident(n.clone()));
			render_list(xs, extra, rng, out);
			out.push(Tk::P("term", ";"));
		},
	}
}

// ---------------------------------------------------------------------------------------------------
// tokens to text

fn num_text(v: i64, rng: &mut Rng) -> String
{
	if v < 0 {return format!("{v}");} // only reachable from token soup; lexes as '-' number
	match rng.below(8)
	{
		0 => format!("0x{v:x}"),
		1 => format!("0x{v:X}"),
		2 => format!("0o{v:o}"),
		3 if v < 1 << 20 => format!("0b{v:b}"),
		4 => format!("00{v}"),
		5 if (32..127).contains(&v) =>
		{
			match v as u8
			{
				b'\'' => "'\\''".to_owned(),
				b'\\' => "'\\\\'".to_owned(),
				c => format!("'{}'", c as char),
			}
		},
		5 if v == 9 => "'\\t'".to_owned(),
		5 if v == 10 => "'\\n'".to_owned(),
		5 if v == 0xE9 => "'é'".to_owned(),
		_ => format!("{v}"),
	}
}

fn str_text(s: &str, rng: &mut Rng) -> String
{
	let mut o = String::from("\"");
	for c in s.chars()
	{
		match c
		{
			'"' => o.push_str("\\\""),
			'\\' => o.push_str("\\\\"),
			'\n' => o.push_str("\\n"),
			'\r' => o.push_str("\\r"),
			'\0' => o.push_str("\\0"),
			'\t' => o.push_str(if rng.chance(1, 2) {"\\t"} else {"\t"}),
			'\'' => o.push_str(if rng.chance(1, 2) {"\\'"} else {"'"}),
			c if (c as u32) < 0x20 || c as u32 == 0x7F => o.push_str(&format!("\\u{{{:x}}}", c as u32)),
			c => if rng.chance(1, 8) {o.push_str(&format!("\\u{{{:X}}}", c as u32))} else {o.push(c)},
		}
	}
	o.push('"');
	o
}

fn tk_text(t: &Tk, rng: &mut Rng) -> String
{
	match t
	{
		Tk::P(_, s) => (*s).to_owned(),
		Tk::Num(v) => num_text(*v, rng),
		Tk::Ident(s) => s.clone(),
		Tk::Str(s) => str_text(s, rng),
	}
}

fn ident_char(c: u8) -> bool
{
	matches!(c, b'$' | b'.' | b'0'..=b'9' | b'@' | b'A'..=b'Z' | b'_' | b'a'..=b'z')
}

const SEPS: [&str; 14] = [" ", "  ", "\t", "\n", "\r\n", " \n  ", "// c ; , ( \"\n", "//\n", "/* c */", "/**/", "/* a /* b */ c */",
	"/*é漢*/", "/* \n\n */", "\n//é\n\t"];

/// spacing: 0 = one blank where needed and nothing elsewhere, 1 = single blanks everywhere, 2 = random
fn to_text(toks: &[Tk], spacing: u8, rng: &mut Rng) -> Vec<u8>
{
	let mut o: Vec<u8> = Vec::new();
	let pending = |o: &mut Vec<u8>, next: Option<&str>, rng: &mut Rng|
	{
		let mut sep = String::new();
		match spacing
		{
			0 => (),
			1 => if !o.is_empty() && next.is_some() {sep.push(' ');},
			_ =>
			{
				let n = match rng.below(8) {0..=2 => 0, 3..=6 => 1, _ => 2};
				for _ in 0..n {sep.push_str(*rng.pick(&SEPS[..]));}
			},
		}
		let last = o.last().copied();
		let first = sep.bytes().next().or_else(|| next.and_then(|n| n.bytes().next()));
		if let (Some(a), Some(b)) = (last, first)
		{
			// identifier/number neighbours need a separator; '/' must not be followed by '/' or '*'
			if (sep.is_empty() && ident_char(a) && ident_char(b) && !(a == b'.' && o.len() >= 1 && is_dir_mark(o)))
				|| (a == b'/' && (b == b'/' || b == b'*'))
			{
				sep.insert(0, ' ');
			}
		}
		o.extend_from_slice(sep.as_bytes());
	};
	for t in toks
	{
		let text = tk_text(t, rng);
		pending(&mut o, Some(&text), rng);
		o.extend_from_slice(text.as_bytes());
	}
	pending(&mut o, None, rng);
	o
}

/// the last byte written is a '.' that was emitted as a directive mark token (not part of an identifier):
/// true iff the byte before it is not an identifier character
fn is_dir_mark(o: &[u8]) -> bool
{
	o.len() < 2 || !ident_char(o[o.len() - 2])
}

// ---------------------------------------------------------------------------------------------------
// the real code

fn kind_code(k: &TokenErrorKind) -> String
{
	match k
	{
		TokenErrorKind::BadUnicode => "bu".to_owned(),
		TokenErrorKind::Invalid => "inv".to_owned(),
		TokenErrorKind::BlockComment => "bc".to_owned(),
		TokenErrorKind::BadNumber => "bn".to_owned(),
		TokenErrorKind::BadCharacter => "bh".to_owned(),
		TokenErrorKind::BadString => "bs".to_owned(),
		TokenErrorKind::Unexpected(c) => format!("ux{}", *c as u32),
		k => format!("unknown:{k:?}"),
	}
}

fn value_code(v: &TokenValue) -> String
{
	match v
	{
		TokenValue::Separator => "sep".to_owned(),
		TokenValue::Terminator => "term".to_owned(),
		TokenValue::LabelMark => "lm".to_owned(),
		TokenValue::DirectiveMark => "dm".to_owned(),
		TokenValue::Plus => "plus".to_owned(),
		TokenValue::Minus => "minus".to_owned(),
		TokenValue::Multiply => "mul".to_owned(),
		TokenValue::Divide => "div".to_owned(),
		TokenValue::Modulo => "mod".to_owned(),
		TokenValue::Not => "not".to_owned(),
		TokenValue::BitAnd => "band".to_owned(),
		TokenValue::BitOr => "bor".to_owned(),
		TokenValue::BitXor => "bxor".to_owned(),
		TokenValue::LeftShift => "shl".to_owned(),
		TokenValue::RightShift => "shr".to_owned(),
		TokenValue::Number(Number::Integer(v)) => format!("n{v}"),
		TokenValue::Identifier(s) => format!("i{}", hexs(s.as_bytes())),
		TokenValue::String(s) => format!("s{}", hexs(s.as_bytes())),
		TokenValue::BeginGroup => "lp".to_owned(),
		TokenValue::EndGroup => "rp".to_owned(),
		TokenValue::BeginAddr => "lb".to_owned(),
		TokenValue::EndAddr => "rb".to_owned(),
		TokenValue::BeginSeq => "lc".to_owned(),
		TokenValue::EndSeq => "rc".to_owned(),
	}
}

/// what the real tokenizer yields when iterated to exhaustion: the model's `LexOut`
struct RealLex
{
	toks: Vec<(u32, u32, String)>,
	err: Option<String>,
	end: (u32, u32),
}

fn real_lex(text: &[u8]) -> Result<RealLex, String>
{
	guarded(||
	{
		let mut tz = Tokenizer::new(text);
		let mut toks = Vec::new();
		let mut err = None;
		while let Some(item) = tz.next()
		{
			match item
			{
				Ok(t) => toks.push((t.line, t.col, value_code(&t.value))),
				Err(e) => {err = Some(format!("{}:{}:{}", kind_code(&e.value), e.line, e.col)); break;},
			}
		}
		// drain (nothing may follow an error; the parser model relies on the stream being finished)
		while tz.next().is_some() {}
		RealLex{toks, err, end: (tz.get_line(), tz.get_column())}
	})
}

fn model_request(lx: &RealLex) -> String
{
	let mut s = format!("parse toks {} {} {}", lx.end.0, lx.end.1, lx.err.as_deref().unwrap_or("-"));
	for (l, c, code) in &lx.toks
	{
		s.push_str(&format!(" {l}:{c}:{code}"));
	}
	s
}

fn canon_arg(a: &Argument, o: &mut String)
{
	let bin = |name: &str, l: &Argument, r: &Argument, o: &mut String|
	{
		o.push('(');
		o.push_str(name);
		o.push(' ');
		canon_arg(l, o);
		o.push(' ');
		canon_arg(r, o);
		o.push(')');
	};
	let un = |name: &str, x: &Argument, o: &mut String|
	{
		o.push('(');
		o.push_str(name);
		o.push(' ');
		canon_arg(x, o);
		o.push(')');
	};
	match a
	{
		Argument::Constant(Number::Integer(v)) => o.push_str(&format!("#{v}")),
		Argument::Identifier(s) => {o.push('i'); o.push_str(&hexs(s.as_bytes()));},
		Argument::String(s) => {o.push('s'); o.push_str(&hexs(s.as_bytes()));},
		Argument::Add{lhs, rhs} => bin("add", lhs, rhs, o),
		Argument::Subtract{lhs, rhs} => bin("sub", lhs, rhs, o),
		Argument::Multiply{lhs, rhs} => bin("mul", lhs, rhs, o),
		Argument::Divide{lhs, rhs} => bin("div", lhs, rhs, o),
		Argument::Modulo{lhs, rhs} => bin("mod", lhs, rhs, o),
		Argument::BitAnd{lhs, rhs} => bin("band", lhs, rhs, o),
		Argument::BitOr{lhs, rhs} => bin("bor", lhs, rhs, o),
		Argument::BitXor{lhs, rhs} => bin("bxor", lhs, rhs, o),
		Argument::LeftShift{lhs, rhs} => bin("shl", lhs, rhs, o),
		Argument::RightShift{lhs, rhs} => bin("shr", lhs, rhs, o),
		Argument::Negate(x) => un("neg", x, o),
		Argument::Not(x) => un("not", x, o),
		Argument::Address(x) => un("addr", x, o),
		Argument::Sequence(xs) =>
		{
			o.push_str("(seq");
			for x in xs {o.push(' '); canon_arg(x, o);}
			o.push(')');
		},
		Argument::Function{name, args} =>
		{
			o.push_str("(fn ");
			o.push_str(&hexs(name.as_bytes()));
			for x in args {o.push(' '); canon_arg(x, o);}
			o.push(')');
		},
	}
}

fn canon_args(xs: &[Argument]) -> String
{
	let mut o = String::from("(args");
	for x in xs {o.push(' '); canon_arg(x, &mut o);}
	o.push(')');
	o
}

struct RealParse
{
	/// canonical text with positions (compared with the model)
	with_pos: String,
	/// elements without positions (compared with the generated statements)
	no_pos: String,
	/// positions of the ok elements
	pos: Vec<(u32, u32)>,
	panic: Option<String>,
}

fn real_parse(text: &[u8]) -> RealParse
{
	let r = guarded(||
	{
		let mut with_pos: Vec<String> = Vec::new();
		let mut no_pos: Vec<String> = Vec::new();
		let mut pos = Vec::new();
		let mut p = Parser::new(text);
		loop
		{
			match p.next()
			{
				None => break,
				Some(Ok(e)) =>
				{
					let body = match &e.value
					{
						ElementValue::Label(n) => format!("L@{}", hexs(n.as_bytes())),
						ElementValue::Directive{name, args} => format!("D@{} {}", hexs(name.as_bytes()), canon_args(args)),
						ElementValue::Instruction{name, args} => format!("I@{} {}", hexs(name.as_bytes()), canon_args(args)),
					};
					with_pos.push(body.replacen('@', &format!(" {} {} ", e.line, e.col), 1));
					no_pos.push(body.replacen('@', " ", 1));
					pos.push((e.line, e.col));
				},
				Some(Err(e)) =>
				{
					let s = match &e.value
					{
						ParseErrorKind::Token(t) => format!("E {} {} tok {} {} {}", e.line, e.col, kind_code(&t.value), t.line, t.col),
						ParseErrorKind::Expected{have, expect} => format!("E {} {} exp {} {}", e.line, e.col, expect, have),
						k => format!("E {} {} unknown:{k:?}", e.line, e.col),
					};
					with_pos.push(s.clone());
					no_pos.push(s);
					// the iterator is finished after its first error
					for _ in 0..3
					{
						if p.next().is_some() {with_pos.push("AFTER".to_owned()); break;}
					}
					break;
				},
			}
		}
		if p.next().is_some() {with_pos.push("AFTER-END".to_owned());}
		let j = |v: &Vec<String>| if v.is_empty() {"-".to_owned()} else {v.join(" | ")};
		(j(&with_pos), j(&no_pos), pos)
	});
	match r
	{
		Ok((with_pos, no_pos, pos)) => RealParse{with_pos, no_pos, pos, panic: None},
		Err(msg) => RealParse{with_pos: "PANIC".to_owned(), no_pos: "PANIC".to_owned(), pos: Vec::new(), panic: Some(msg)},
	}
}

/// The real iterator call by call: `next()` until it returns `None`, then two more calls — i.e. (number of
/// items) + 3 calls in all — each result in canonical form (`none` for `None`). Returns the text and the
/// number of calls made.
fn real_calls(text: &[u8]) -> (String, usize)
{
	let r = guarded(||
	{
		let mut out: Vec<String> = Vec::new();
		let mut p = Parser::new(text);
		let mut extra = 0;
		while extra < 3 && out.len() < 100_000
		{
			match p.next()
			{
				None => {out.push("none".to_owned()); extra += 1;},
				Some(Ok(e)) =>
				{
					// an item after a `None` is recorded like any other; the count of trailing calls restarts
					extra = 0;
					out.push(match &e.value
					{
						ElementValue::Label(n) => format!("L {} {} {}", e.line, e.col, hexs(n.as_bytes())),
						ElementValue::Directive{name, args} => format!("D {} {} {} {}", e.line, e.col, hexs(name.as_bytes()), canon_args(args)),
						ElementValue::Instruction{name, args} => format!("I {} {} {} {}", e.line, e.col, hexs(name.as_bytes()), canon_args(args)),
					});
				},
				Some(Err(e)) =>
				{
					extra = 0;
					out.push(match &e.value
					{
						ParseErrorKind::Token(t) => format!("E {} {} tok {} {} {}", e.line, e.col, kind_code(&t.value), t.line, t.col),
						ParseErrorKind::Expected{have, expect} => format!("E {} {} exp {} {}", e.line, e.col, expect, have),
						k => format!("E {} {} unknown:{k:?}", e.line, e.col),
					});
				},
			}
		}
		out
	});
	match r
	{
		Ok(out) => {let n = out.len(); (out.join(" | "), n)},
		Err(_) => ("PANIC".to_owned(), 0),
	}
}

/// `model.parse.next`: the call-by-call model (`Parse.next`, with the tokenizer's look-ahead and the drain
/// after an error) against the real iterator, for (items + 3) calls
pub fn check_calls(cx: &mut Cx, texts: &[&[u8]])
{
	let mut lines: Vec<String> = Vec::new();
	let mut reals: Vec<(String, String)> = Vec::new();
	for text in texts
	{
		let lx = match real_lex(text) {Ok(l) => l, Err(_) => continue};
		let (real, n) = real_calls(text);
		if n == 0 {continue;}   // a panic of the real parser is reported by the `model.parse.all` comparison
		let req = model_request(&lx);
		lines.push(format!("parse calls {n} {}", &req["parse toks ".len()..]));
		reals.push((format!("calls {}", hex(text)), real));
	}
	let replies = cx.model.ask_many(&lines);
	for ((input, real), reply) in reals.iter().zip(replies.iter())
	{
		cx.report.cases(1);
		cx.report.hit("calls: real iterator vs call-by-call model, items + 3 calls");
		cx.report.compare("model.parse.next", input, reply, real);
		// the shape itself, on the implementation: after the first non-element nothing but `none`
		let items: Vec<&str> = real.split(" | ").collect();
		if let Some(first) = items.iter().position(|x| !(x.starts_with("L ") || x.starts_with("D ") || x.starts_with("I ")))
		{
			if items[first + 1..].iter().any(|x| *x != "none")
			{
				cx.report.oracle_fail(input.clone(), format!("the iterator yields something after an error or after None: [{real}]"));
			}
		}
	}
}

// ---------------------------------------------------------------------------------------------------
// cases

/// one input of the `model.parse.all` correspondence
struct Case
{
	text: Vec<u8>,
	/// round-trip cases: expected statements (canonical, without positions) and the number of tokens of each
	expect: Option<(String, Vec<usize>)>,
	bucket: &'static str,
}

impl Case
{
	fn input(&self) -> String
	{
		match &self.expect
		{
			Some((e, counts)) => format!("rt {} {} {}", hex(&self.text), counts.iter().map(|c| c.to_string()).collect::<Vec<_>>().join(","), e),
			None => format!("ill {}", hex(&self.text)),
		}
	}
}

fn stmts_case(stmts: &[Stmt], extra: u64, spacing: u8, bucket: &'static str, rng: &mut Rng) -> Case
{
	let mut toks = Vec::new();
	let mut counts = Vec::new();
	for s in stmts
	{
		let before = toks.len();
		render_stmt(s, extra, rng, &mut toks);
		counts.push(toks.len() - before);
	}
	let text = to_text(&toks, spacing, rng);
	let expect = if stmts.is_empty() {"-".to_owned()} else {stmts.iter().map(stmt_canon).collect::<Vec<_>>().join(" | ")};
	Case{text, expect: Some((expect, counts)), bucket}
}

fn run_cases(cx: &mut Cx, cases: &[Case])
{
	for chunk in cases.chunks(8192)
	{
		let lexed: Vec<Result<RealLex, String>> = chunk.iter().map(|c| real_lex(&c.text)).collect();
		let lines: Vec<String> = lexed.iter().map(|l| match l {Ok(l) => model_request(l), Err(_) => "ping".to_owned()}).collect();
		let replies = cx.model.ask_many(&lines);
		for ((c, lx), reply) in chunk.iter().zip(lexed.iter()).zip(replies.iter())
		{
			check_case(cx, c, lx, reply);
		}
		// a sample goes through the call-by-call model as well (every 4th case, and every hand-picked error site / replay)
		let sample: Vec<&[u8]> = chunk.iter().enumerate().filter(|(i, c)| i % 4 == 0 || c.bucket.starts_with("ill: hand") || c.bucket == "replay").map(|(_, c)| &c.text[..]).collect();
		check_calls(cx, &sample);
	}
}

fn check_case(cx: &mut Cx, c: &Case, lx: &Result<RealLex, String>, reply: &str)
{
	let input = c.input();
	cx.report.hit(c.bucket);
	let lx = match lx
	{
		Ok(l) => l,
		Err(msg) =>
		{
			// a tokenizer panic is C10's finding; the parser tie cannot be evaluated on this input
			cx.report.case(None);
			cx.report.oracle_fail(input, format!("the real Tokenizer panicked: {msg}"));
			return;
		},
	};
	let real = real_parse(&c.text);
	let trivial = real.with_pos == "-" || (real.pos.is_empty() && real.panic.is_none() && lx.toks.len() <= 1);
	cx.report.case(if trivial {None} else {Some(&real.with_pos)});
	cx.report.compare("model.parse.all", &input, reply, &real.with_pos);
	if let Some(msg) = &real.panic
	{
		cx.report.oracle_fail(input.clone(), format!("the real Parser panicked: {msg}"));
		cx.report.hit("outcome: panic");
		return;
	}
	let last = real.no_pos.rsplit(" | ").next().unwrap_or("").to_owned();
	if last.starts_with("E ")
	{
		if let Some(p) = last.find(" exp ") {cx.report.hit(&format!("error:{}", &last[p + 4..]));}
		else {cx.report.hit("error: token error");}
	}
	else {cx.report.hit("outcome: ok");}
	if let Some((expect, counts)) = &c.expect
	{
		// (a)/(b): the tree written down is the tree read back; kinds, names and argument order are preserved
		if &real.no_pos != expect
		{
			cx.report.oracle_fail(input.clone(), format!("text {:?} was rendered from [{}] but parses as [{}]", String::from_utf8_lossy(&c.text), expect, real.no_pos));
		}
		// an element carries the position of its first token (C12 stmt_pos, evaluated on the implementation)
		let mut idx = 0;
		for (i, n) in counts.iter().enumerate()
		{
			if let (Some(p), Some(t)) = (real.pos.get(i), lx.toks.get(idx))
			{
				if *p != (t.0, t.1)
				{
					cx.report.oracle_fail(input.clone(), format!("statement {i} is reported at {}:{} but its first token is at {}:{}", p.0, p.1, t.0, t.1));
				}
			}
			idx += n;
		}
	}
}

/// tie of the Lean rendering specification with the renderer of this harness
fn check_render(cx: &mut Cx, trees: &[T])
{
	for chunk in trees.chunks(8192)
	{
		let lines: Vec<String> = chunk.iter().map(|t| format!("parse render {}", sexpr(t))).collect();
		let replies = cx.model.ask_many(&lines);
		for (t, reply) in chunk.iter().zip(replies.iter())
		{
			let mut toks = Vec::new();
			let mut rng = Rng::new(0);
			render(t, 0, 0, &mut rng, &mut toks);
			let mine = if toks.is_empty() {"-".to_owned()} else {toks.iter().map(tk_code).collect::<Vec<_>>().join(" ")};
			cx.report.cases(1);
			cx.report.hit("render spec = harness renderer");
			cx.report.compare("model.parse.render", &format!("render {}", sexpr(t)), reply, &mine);
		}
	}
}

fn check_render_stmts(cx: &mut Cx, stmts: &[Stmt])
{
	let lines: Vec<String> = stmts.iter().map(|s| match s
	{
		Stmt::Label(n) => format!("parse rstmt L {}", hexs(n.as_bytes())),
		Stmt::Directive(n, xs) => format!("parse rstmt D {}{}", hexs(n.as_bytes()), sexprs(xs)),
		Stmt::Instruction(n, xs) => format!("parse rstmt I {}{}", hexs(n.as_bytes()), sexprs(xs)),
	}).collect();
	let replies = cx.model.ask_many(&lines);
	for ((s, line), reply) in stmts.iter().zip(lines.iter()).zip(replies.iter())
	{
		let mut toks = Vec::new();
		let mut rng = Rng::new(0);
		render_stmt(s, 0, &mut rng, &mut toks);
		let mine = toks.iter().map(tk_code).collect::<Vec<_>>().join(" ");
		cx.report.cases(1);
		cx.report.hit("render spec = harness renderer (statements)");
		cx.report.compare("model.parse.render", &line["parse ".len()..], reply, &mine);
	}
}

// ---------------------------------------------------------------------------------------------------
// generators

fn gen_ident(rng: &mut Rng) -> String
{
	const FIRST: &[u8] = b"ABCDEFGHIJKLMNOPQRSTUVWXYZabcdefghijklmnopqrstuvwxyz_";
	const REST: &[u8] = b"ABCXYZabcxyz_0123456789$.@";
	if rng.chance(1, 4)
	{
		return (*rng.pick(&["R0", "r7", "SP", "PC", "LR", "x", "MOVS", "du8", "a.b", "_", "l$1", "f@2", "R10."])).to_owned();
	}
	let mut s = String::new();
	s.push(*rng.pick(FIRST) as char);
	for _ in 0..rng.below(6) {s.push(*rng.pick(REST) as char);}
	s
}

fn gen_const(rng: &mut Rng) -> i64
{
	match rng.below(8)
	{
		0 => 0,
		1 => *rng.pick(&[1, 2, 9, 10, 39, 92, 255, 256, 0xE9, 65535, 1 << 31, 1 << 32, i64::MAX, i64::MAX - 1]),
		2 => rng.below(128) as i64,
		3 => (rng.next() >> 1) as i64,
		_ => rng.below(1 << 16) as i64,
	}
}

fn gen_string(rng: &mut Rng) -> String
{
	const CH: &[char] = &['a', 'b', 'Z', '0', ' ', ';', ',', '(', ')', '/', '*', '"', '\\', '\'', '\n', '\t', '\r', '\0', '\u{1}', '\u{7f}', 'é', '漢', '😀', '{', '}', 'u'];
	let n = match rng.below(4) {0 => 0, 1 => 1, _ => rng.below(8)};
	(0..n).map(|_| *rng.pick(CH)).collect()
}

fn gen_leaf(rng: &mut Rng) -> T
{
	match rng.below(5)
	{
		0 | 1 => T::Const(gen_const(rng)),
		2 | 3 => T::Ident(gen_ident(rng)),
		_ => T::Str(gen_string(rng)),
	}
}

fn gen_list(rng: &mut Rng, depth: u32) -> Vec<T>
{
	let n = match rng.below(6) {0 => 0, 1 | 2 => 1, 3 | 4 => 2, _ => 3};
	(0..n).map(|_| gen_tree(rng, depth)).collect()
}

fn gen_tree(rng: &mut Rng, depth: u32) -> T
{
	if depth == 0 || rng.chance(1, 6) {return gen_leaf(rng);}
	match rng.below(16)
	{
		0..=9 =>
		{
			let op = rng.below(10) as usize;
			let l = Box::new(gen_tree(rng, depth - 1));
			let r = Box::new(gen_tree(rng, depth - 1));
			T::Bin(op, l, r)
		},
		10 | 11 => T::Neg(Box::new(gen_tree(rng, depth - 1))),
		12 => T::Not(Box::new(gen_tree(rng, depth - 1))),
		13 => T::Addr(Box::new(gen_tree(rng, depth - 1))),
		14 => T::Seq(gen_list(rng, depth - 1)),
		_ => T::Func(gen_ident(rng), gen_list(rng, depth - 1)),
	}
}

fn gen_stmt(rng: &mut Rng, depth: u32) -> Stmt
{
	match rng.below(6)
	{
		0 => Stmt::Label(gen_ident(rng)),
		1 | 2 => Stmt::Directive(gen_ident(rng), gen_list(rng, depth)),
		_ => Stmt::Instruction(gen_ident(rng), gen_list(rng, depth)),
	}
}

fn count_kinds(cx: &mut Cx, t: &T)
{
	match t
	{
		T::Const(..) => cx.report.hit("node: const"),
		T::Ident(..) => cx.report.hit("node: ident"),
		T::Str(..) => cx.report.hit("node: str"),
		T::Bin(op, l, r) => {cx.report.hit(&format!("node: {}", OP_NAMES[*op])); count_kinds(cx, l); count_kinds(cx, r);},
		T::Neg(a) => {cx.report.hit("node: neg"); count_kinds(cx, a);},
		T::Not(a) => {cx.report.hit("node: not"); count_kinds(cx, a);},
		T::Addr(a) => {cx.report.hit("node: addr"); count_kinds(cx, a);},
		T::Seq(xs) => {cx.report.hit("node: seq"); for x in xs {count_kinds(cx, x);}},
		T::Func(_, xs) => {cx.report.hit("node: func"); for x in xs {count_kinds(cx, x);}},
	}
}

fn leaf(i: usize) -> T
{
	match i % 3
	{
		0 => T::Ident(format!("v{i}")),
		1 => T::Const(i as i64),
		_ => T::Str(format!("s{i}")),
	}
}

/// the 18 node kinds with leaf children (index `k`), leaves numbered from `base`
fn kind_node(k: usize, base: usize) -> T
{
	match k
	{
		0..=9 => T::Bin(k, Box::new(leaf(base)), Box::new(leaf(base + 1))),
		10 => T::Neg(Box::new(leaf(base))),
		11 => T::Not(Box::new(leaf(base))),
		12 => T::Addr(Box::new(leaf(base))),
		13 => T::Seq(vec![leaf(base), leaf(base + 1)]),
		14 => T::Func(format!("f{base}"), vec![leaf(base), leaf(base + 1)]),
		15 => T::Const(base as i64),
		16 => T::Ident(format!("w{base}")),
		_ => T::Str(format!("t{base}")),
	}
}

/// every parent kind over every ordered pair of child kinds (all 18 kinds), depth 2
fn depth2_all() -> Vec<T>
{
	let mut out = Vec::new();
	for a in 0..18
	{
		for p in 10..13
		{
			let c = Box::new(kind_node(a, 0));
			out.push(match p {10 => T::Neg(c), 11 => T::Not(c), _ => T::Addr(c)});
		}
		for b in 0..18
		{
			for op in 0..10 {out.push(T::Bin(op, Box::new(kind_node(a, 0)), Box::new(kind_node(b, 4))));}
			out.push(T::Seq(vec![kind_node(a, 0), kind_node(b, 4)]));
			out.push(T::Func("g".to_owned(), vec![kind_node(a, 0), kind_node(b, 4)]));
		}
	}
	out
}

/// all shapes of binary trees with `n` inner nodes; leaves are `None`
#[derive(Clone)]
enum Shape {Leaf, Node(Box<Shape>, Box<Shape>)}

fn shapes(n: usize) -> Vec<Shape>
{
	if n == 0 {return vec![Shape::Leaf];}
	let mut out = Vec::new();
	for l in 0..n
	{
		for a in shapes(l)
		{
			for b in shapes(n - 1 - l) {out.push(Shape::Node(Box::new(a.clone()), Box::new(b)));}
		}
	}
	out
}

/// fill a shape with the operators `ops` (pre-order) and numbered leaves; `unary`: wrap the node with
/// pre-order index `.0` (inner nodes and leaves counted together) in neg (0) / not (1) / addr (2)
fn fill(s: &Shape, ops: &[usize], next_op: &mut usize, next_leaf: &mut usize, next_node: &mut usize, unary: Option<(usize, usize)>) -> T
{
	let me = *next_node;
	*next_node += 1;
	let t = match s
	{
		Shape::Leaf => {let l = leaf(*next_leaf); *next_leaf += 1; l},
		Shape::Node(a, b) =>
		{
			let op = ops[*next_op];
			*next_op += 1;
			let l = fill(a, ops, next_op, next_leaf, next_node, unary);
			let r = fill(b, ops, next_op, next_leaf, next_node, unary);
			T::Bin(op, Box::new(l), Box::new(r))
		},
	};
	match unary
	{
		Some((at, 0)) if at == me => T::Neg(Box::new(t)),
		Some((at, 1)) if at == me => T::Not(Box::new(t)),
		Some((at, _)) if at == me => T::Addr(Box::new(t)),
		_ => t,
	}
}

/// all binary-operator trees with exactly `n` operators (every shape, every operator assignment);
/// `stride`/`offset` select a slice
fn op_trees(n: usize, stride: usize, offset: usize, with_unary: bool) -> Vec<T>
{
	let mut out = Vec::new();
	let total = 10usize.pow(n as u32);
	let mut idx = 0usize;
	for s in shapes(n)
	{
		for code in 0..total
		{
			let ops: Vec<usize> = (0..n).map(|i| (code / 10usize.pow(i as u32)) % 10).collect();
			if with_unary
			{
				for at in 0..(2 * n + 1)
				{
					for u in 0..3
					{
						idx += 1;
						if idx % stride != offset % stride {continue;}
						out.push(fill(&s, &ops, &mut 0, &mut 0, &mut 0, Some((at, u))));
					}
				}
			}
			else
			{
				idx += 1;
				if idx % stride != offset % stride {continue;}
				out.push(fill(&s, &ops, &mut 0, &mut 0, &mut 0, None));
			}
		}
	}
	out
}

// --- ill-formed inputs

fn soup_token(rng: &mut Rng) -> Tk
{
	const PUNCT: [(&str, &str); 21] = [("sep", ","), ("term", ";"), ("lm", ":"), ("dm", "."), ("plus", "+"), ("minus", "-"), ("mul", "*"),
		("div", "/"), ("mod", "%"), ("not", "!"), ("band", "&"), ("bor", "|"), ("bxor", "^"), ("shl", "<<"), ("shr", ">>"),
		("lp", "("), ("rp", ")"), ("lb", "["), ("rb", "]"), ("lc", "{"), ("rc", "}")];
	match rng.below(30)
	{
		0..=20 => {let (c, t) = PUNCT[rng.below(21) as usize]; Tk::P(c, t)},
		21..=23 => Tk::Num(rng.below(100) as i64),
		24..=27 => Tk::Ident(gen_ident(rng)),
		_ => Tk::Str(gen_string(rng)),
	}
}

fn gen_ill(rng: &mut Rng) -> (Vec<u8>, &'static str)
{
	match rng.below(10)
	{
		0 | 1 =>
		{
			// token soup
			let n = rng.below(13);
			let toks: Vec<Tk> = (0..n).map(|_| soup_token(rng)).collect();
			(to_text(&toks, if rng.chance(1, 2) {1} else {2}, rng), "ill: token soup")
		},
		2 | 3 =>
		{
			// statement-shaped soup: more likely to get deep into the grammar
			let mut toks = Vec::new();
			if rng.chance(1, 3) {toks.push(Tk::P("dm", "."));}
			toks.push(Tk::Ident(gen_ident(rng)));
			for _ in 0..rng.below(10)
			{
				toks.push(match rng.below(6)
				{
					0 | 1 => Tk::Num(rng.below(10) as i64),
					2 => Tk::Ident(gen_ident(rng)),
					_ => soup_token(rng),
				});
			}
			if rng.chance(2, 3) {toks.push(Tk::P("term", ";"));}
			(to_text(&toks, if rng.chance(1, 2) {1} else {2}, rng), "ill: statement-shaped soup")
		},
		4 | 5 =>
		{
			// valid program with one token deleted / replaced / inserted / swapped
			let stmts: Vec<Stmt> = (0..1 + rng.below(3)).map(|_| gen_stmt(rng, 3)).collect();
			let mut toks = Vec::new();
			for s in &stmts {render_stmt(s, 4, rng, &mut toks);}
			if !toks.is_empty()
			{
				let at = rng.below(toks.len() as u64) as usize;
				match rng.below(4)
				{
					0 => {toks.remove(at);},
					1 => toks[at] = soup_token(rng),
					2 => toks.insert(at, soup_token(rng)),
					_ => {let b = rng.below(toks.len() as u64) as usize; toks.swap(at, b);},
				}
			}
			(to_text(&toks, 2, rng), "ill: token mutation of a valid program")
		},
		6 | 7 =>
		{
			// truncation at a random byte (may end inside a string, a comment or a multi-byte character)
			let stmts: Vec<Stmt> = (0..1 + rng.below(3)).map(|_| gen_stmt(rng, 3)).collect();
			let mut toks = Vec::new();
			for s in &stmts {render_stmt(s, 2, rng, &mut toks);}
			let mut text = to_text(&toks, 2, rng);
			let at = rng.below(text.len() as u64 + 1) as usize;
			text.truncate(at);
			(text, "ill: truncation")
		},
		_ =>
		{
			// byte mutation
			let stmts: Vec<Stmt> = (0..1 + rng.below(3)).map(|_| gen_stmt(rng, 3)).collect();
			let mut toks = Vec::new();
			for s in &stmts {render_stmt(s, 2, rng, &mut toks);}
			let mut text = to_text(&toks, 2, rng);
			const B: &[u8] = b"\"'\\/*(){}[],;:.<>#~`\x00\x01\x7f\xff\xc3\xa9\n 0aZ-+!";
			for _ in 0..1 + rng.below(2)
			{
				if text.is_empty() {break;}
				let at = rng.below(text.len() as u64) as usize;
				match rng.below(3)
				{
					0 => text[at] = *rng.pick(B),
					1 => text.insert(at, *rng.pick(B)),
					_ => {text.remove(at);},
				}
			}
			(text, "ill: byte mutation")
		},
	}
}

// ---------------------------------------------------------------------------------------------------

pub fn run(_id: &str, cx: &mut Cx)
{
	cx.report.rule = "model.parse.all: the real Parser and the Lean model (fed with the REAL Tokenizer's tokens, error and final position) on \
(1) every depth-2 tree over all 18 node kinds as parent and as either child, (2) every binary-operator tree (all shapes, all operator assignments) \
with up to 3 operators [quick: plus a 1/14 slice of the 4-operator trees; thorough: all 140000], (3) the same with neg/not/[..] inserted above any node, \
(4) random programs (labels, directives, instructions; trees to depth 8) with minimal parentheses and random spacing/comments, (4') large inputs: nesting 40..520 deep \
[thorough: ..1100] of each bracket kind and of unary operators, 40..520 calls/brackets side by side in one list, programs of 40..520 statements read by one parser, (5) the same with redundant \
parentheses around random sub-expressions, (6) ill-formed inputs: token soup, token mutations, truncations, byte mutations. Oracle on the implementation \
for (1)-(5): the parsed statements equal the generated ones (kind, name, argument trees in order) and each element's position is its first token's. \
model.parse.next: for every 4th input of each group and every hand-picked error site, the real iterator called (items + 3) times against the call-by-call model \
(Parse.next with the tokenizer's look-ahead and the drain after an error); oracle: nothing but None after the first error or None. \
model.parse.render: the Lean rendering specification equals the harness renderer on every generated tree. \
non-trivial = at least one element or an error after more than one token; distinct = distinct canonical outcomes (positions included)".to_owned();

	if let Some(input) = cx.replay.clone()
	{
		replay(cx, &input);
		return;
	}
	let thorough = cx.thorough();
	let mut rng = cx.rng.fork();

	// (1) depth 2, all kinds
	let d2 = depth2_all();
	// (2) operator trees
	let mut ops: Vec<T> = Vec::new();
	for n in 0..=3 {ops.extend(op_trees(n, 1, 0, false));}
	let full3 = ops.len();
	if thorough {ops.extend(op_trees(4, 1, 0, false));}
	else {let off = rng.below(14) as usize; ops.extend(op_trees(4, 14, off, false));}
	// (3) with a unary operator / address bracket above any node
	let mut un: Vec<T> = Vec::new();
	for n in 0..=2 {un.extend(op_trees(n, 1, 0, true));}
	if thorough {un.extend(op_trees(3, 1, 0, true));}
	else {let off = rng.below(16) as usize; un.extend(op_trees(3, 16, off, true));}
	cx.report.hit_n("exhaustive: depth-2 trees over all 18 kinds", d2.len() as u64);
	cx.report.hit_n("exhaustive: operator trees with <= 3 operators", full3 as u64);
	cx.report.hit_n(if thorough {"exhaustive: operator trees with 4 operators"} else {"slice: operator trees with 4 operators"}, (ops.len() - full3) as u64);
	cx.report.hit_n("operator trees with a unary/address node inserted", un.len() as u64);
	cx.report.exhaustive = true;

	// (1') operands that LOOK related — numbered names with a common stem (register ranges, table entries), the same name twice,
	// descending pairs, mixed case — under every binary operator, directly inside every container and beside other items:
	// `{r4 - r7}` is a sequence of ONE subtraction, whatever the names suggest
	let mut rel: Vec<T> = Vec::new();
	{
		let pairs: [(&str, &str); 12] = [("r4", "r7"), ("R0", "R12"), ("r1", "R3"), ("tab0", "tab2"), ("x1", "x3"), ("l_10", "l_20"), ("r7", "r4"), ("r4", "r4"),
			("a", "b"), ("r9", "r10"), ("v00", "v03"), ("SP", "PC")];
		for op in 0..10usize
		{
			for (a, b) in pairs
			{
				let e = T::Bin(op, Box::new(T::Ident(a.to_owned())), Box::new(T::Ident(b.to_owned())));
				rel.push(e.clone());
				rel.push(T::Seq(vec![e.clone()]));
				rel.push(T::Seq(vec![T::Ident("r1".to_owned()), e.clone(), T::Const(3)]));
				rel.push(T::Seq(vec![e.clone(), e.clone()]));
				rel.push(T::Addr(Box::new(e.clone())));
				rel.push(T::Func("f".to_owned(), vec![e.clone(), T::Ident(b.to_owned())]));
				rel.push(T::Seq(vec![T::Neg(Box::new(e.clone()))]));
				rel.push(T::Seq(vec![T::Bin(0, Box::new(e.clone()), Box::new(T::Const(1)))]));
			}
		}
	}
	cx.report.hit_n("related-looking names under every operator in every container", rel.len() as u64);
	let mut cases: Vec<Case> = Vec::new();
	let mut trees: Vec<T> = Vec::new();
	for (set, bucket) in [(&d2, "rt: depth-2 all kinds"), (&ops, "rt: operator trees"), (&un, "rt: operator trees + unary"), (&rel, "rt: related-looking names")]
	{
		for (i, t) in set.iter().enumerate()
		{
			let st = Stmt::Instruction("X".to_owned(), vec![t.clone()]);
			let spacing = if i % 2 == 0 {1} else {2};
			cases.push(stmts_case(&[st], 0, spacing, bucket, &mut rng));
		}
		trees.extend(set.iter().cloned());
	}
	cx.report.sample(format!("{} -> {}", String::from_utf8_lossy(&cases[d2.len() + 700].text), cases[d2.len() + 700].expect.as_ref().unwrap().0));
	run_cases(cx, &cases);
	check_render(cx, &trees);

	// (4) random programs, minimal parentheses; (5) redundant parentheses
	let nrand = if thorough {120_000} else {8_000};
	let mut cases: Vec<Case> = Vec::new();
	let mut trees: Vec<T> = Vec::new();
	let mut all_stmts: Vec<Stmt> = Vec::new();
	for i in 0..nrand
	{
		let depth = 1 + (i % 8) as u32;
		let stmts: Vec<Stmt> = (0..match rng.below(4) {0 => 1, 1 => 2, 2 => 3, _ => 1}).map(|_| gen_stmt(&mut rng, depth)).collect();
		for s in &stmts
		{
			match s
			{
				Stmt::Label(..) => cx.report.hit("stmt: label"),
				Stmt::Directive(_, xs) => {cx.report.hit("stmt: directive"); for x in xs {count_kinds(cx, x); trees.push(x.clone());}},
				Stmt::Instruction(_, xs) => {cx.report.hit("stmt: instruction"); for x in xs {count_kinds(cx, x); trees.push(x.clone());}},
			}
		}
		cases.push(stmts_case(&stmts, 0, 2, "rt: random program, minimal parentheses", &mut rng));
		cases.push(stmts_case(&stmts, 6, 2, "rt: random program, redundant parentheses", &mut rng));
		if i % 16 == 0 {all_stmts.extend(stmts.iter().cloned());}
		if i < 3 {cx.report.sample(format!("{:?} -> {}", String::from_utf8_lossy(&cases[cases.len() - 1].text), cases[cases.len() - 1].expect.as_ref().unwrap().0));}
	}
	// the empty program and pure spacing
	cases.push(stmts_case(&[], 0, 2, "rt: empty program", &mut rng));
	cases.push(Case{text: Vec::new(), expect: Some(("-".to_owned(), vec![])), bucket: "rt: empty program"});
	run_cases(cx, &cases);
	check_render(cx, &trees);
	check_render_stmts(cx, &all_stmts);

	// (4') large inputs: deep nesting of every bracket kind, wide argument lists, long programs parsed by ONE parser
	{
		let mut cases: Vec<Case> = Vec::new();
		let mut trees: Vec<T> = Vec::new();
		let leaf_of = |k: usize| -> T {if k % 3 == 0 {T::Const(k as i64)} else {T::Ident(format!("n{k}"))}};
		let sizes: &[usize] = if thorough {&[40, 130, 255, 256, 257, 300, 520, 1100]} else {&[40, 255, 256, 257, 300, 520]};
		for &n in sizes
		{
			// deep: one chain per wrapping node kind, and a mixed chain
			for kind in 0..6
			{
				let mut t = leaf_of(n);
				for d in 0..n
				{
					t = match if kind == 5 {d % 5} else {kind}
					{
						0 => T::Bin(1, Box::new(leaf_of(d)), Box::new(t)),          // a - (b - (c - …)): parentheses at every level
						1 => T::Addr(Box::new(t)),
						2 => T::Seq(vec![leaf_of(d), t]),
						3 => T::Func(format!("f{}", d % 7), vec![t, leaf_of(d)]),
						_ => if d % 2 == 0 {T::Neg(Box::new(t))} else {T::Not(Box::new(t))},
					};
				}
				trees.push(t.clone());
				cases.push(stmts_case(&[Stmt::Instruction("X".to_owned(), vec![t])], 0, 1 + (n % 2) as u8, "rt: deep nesting", &mut rng));
			}
			// wide: n calls / brackets side by side in one argument list, in one sequence, in one call
			let many: Vec<T> = (0..n).map(|k| match k % 4
			{
				0 => T::Func(format!("g{}", k % 5), vec![leaf_of(k)]),
				1 => T::Addr(Box::new(leaf_of(k))),
				2 => T::Seq(vec![leaf_of(k)]),
				_ => T::Bin(2, Box::new(T::Bin(0, Box::new(leaf_of(k)), Box::new(leaf_of(k + 1)))), Box::new(leaf_of(k + 2))),   // (a + b) * c
			}).collect();
			let calls: Vec<T> = (0..n).map(|k| T::Func(format!("h{}", k % 3), if k % 2 == 0 {vec![]} else {vec![leaf_of(k)]})).collect();
			for t in [T::Seq(many.clone()), T::Func("wide".to_owned(), many.clone()), T::Seq(calls.clone())] {trees.push(t);}
			cases.push(stmts_case(&[Stmt::Instruction("X".to_owned(), many.clone())], 0, 2, "rt: wide argument list", &mut rng));
			cases.push(stmts_case(&[Stmt::Directive("d".to_owned(), vec![T::Seq(many.clone()), T::Func("wide".to_owned(), many)])], 0, 1, "rt: wide argument list", &mut rng));
			cases.push(stmts_case(&[Stmt::Instruction("X".to_owned(), vec![T::Seq(calls.clone())]), Stmt::Instruction("Y".to_owned(), vec![T::Addr(Box::new(leaf_of(1)))])], 0, 2, "rt: wide argument list", &mut rng));
			// long: n small statements, each with a call and a bracket, read by one parser
			let stmts: Vec<Stmt> = (0..n).map(|k| match k % 5
			{
				0 => Stmt::Label(format!("l{k}")),
				1 => Stmt::Directive(format!("d{}", k % 3), vec![T::Func("f".to_owned(), vec![leaf_of(k)]), T::Addr(Box::new(leaf_of(k)))]),
				2 => Stmt::Instruction("X".to_owned(), vec![T::Func("g".to_owned(), vec![]), T::Seq(vec![leaf_of(k)])]),
				3 => Stmt::Instruction("Y".to_owned(), vec![T::Bin(2, Box::new(T::Bin(0, Box::new(leaf_of(k)), Box::new(T::Func("h".to_owned(), vec![leaf_of(k)])))), Box::new(leaf_of(k)))]),
				_ => Stmt::Instruction("Z".to_owned(), vec![]),
			}).collect();
			cases.push(stmts_case(&stmts, 0, 2, "rt: long program", &mut rng));
		}
		run_cases(cx, &cases);
		check_render(cx, &trees);
	}

	// (6) ill-formed
	let nill = if thorough {400_000} else {30_000};
	let mut cases: Vec<Case> = Vec::new();
	for _ in 0..nill
	{
		let (text, bucket) = gen_ill(&mut rng);
		cases.push(Case{text, expect: None, bucket});
	}
	// hand-picked: each error site of the parser, end-of-input and tokenizer-error variants
	for s in ["X", "X ", ".", ". ", ".x", ".x 1", ".1", "X 1", "X 1,", "X 1 2;", "X (", "X (1", "X (1;", "X [1", "X [1)", "X {1", "X {1]", "X f(", "X f(1",
		"X f(1;", "X 1 +", "X 1 + ;", "X 1 \"", "X \"", "X 1 '", ". \"", "X: Y", "X:", ":", "1", "X 1 : 2;", "X 1 . 2;", "X a b;", "X -", "X !", "X - ;",
		"X /* ", "X 1 /* ", "X (/* ", "X (1 /*", "X 1, /*", "X 1 \u{7f}", "X \u{7f}", "\u{7f}", "X 1 #", "X (#", "X f(#", "X f #", "X f \"", "X {#", "X 1,#",
		"X;)", "X);", "X 1);", "X 1];", "X 1}", "X 1} Y;", "X ; ; Y;", "X 1 ! 2;", "X 1 ( 2;", "X 1 [ 2;", "X 1 { 2;", "X 1 \"s\";", "X \"s\" 1;"]
	{
		cases.push(Case{text: s.as_bytes().to_vec(), expect: None, bucket: "ill: hand-picked error sites"});
	}
	for s in [&b"X 1 \xff"[..], b"X \xff", b"X (\xff", b"X f\xff", b"X f \xff", b"X 1 + \xff", b"X 1, \xff", b".\xff", b". x\xff", b"X 1 //\xff", b"X 12\xff", b"\xff"]
	{
		cases.push(Case{text: s.to_vec(), expect: None, bucket: "ill: hand-picked error sites"});
	}
	cx.report.sample(format!("{:?} -> {}", String::from_utf8_lossy(&cases[0].text), real_parse(&cases[0].text).with_pos));
	cx.report.sample(format!("{:?} -> {}", "X (1", real_parse(b"X (1").with_pos));
	run_cases(cx, &cases);
}

fn replay(cx: &mut Cx, input: &str)
{
	let w: Vec<&str> = input.splitn(2, ' ').collect();
	match w.as_slice()
	{
		["rt", rest] =>
		{
			let p: Vec<&str> = rest.splitn(3, ' ').collect();
			if let [text, counts, expect] = p.as_slice()
			{
				let text = unhex(text).unwrap_or_default();
				let counts: Vec<usize> = counts.split(',').filter(|s| !s.is_empty()).filter_map(|s| s.parse().ok()).collect();
				run_cases(cx, &[Case{text, expect: Some(((*expect).to_owned(), counts)), bucket: "replay"}]);
			}
			else {cx.report.oracle_fail(input, "unrecognised replay input");}
		},
		["ill", text] | ["calls", text] =>
		{
			let text = unhex(text).unwrap_or_default();
			run_cases(cx, &[Case{text, expect: None, bucket: "replay"}]);
		},
		["render", tree] =>
		{
			match read_tree(tree.as_bytes(), &mut 0)
			{
				Some(t) =>
				{
					check_render(cx, &[t.clone()]);
					// and the round trip of that tree with minimal spacing
					let mut rng = Rng::new(0);
					let c = stmts_case(&[Stmt::Instruction("X".to_owned(), vec![t])], 0, 1, "replay", &mut rng);
					run_cases(cx, &[c]);
				},
				None => cx.report.oracle_fail(input, "unrecognised replay input"),
			}
		},
		["rstmt", _] =>
		{
			let reply = cx.model.ask(&format!("parse {input}"));
			cx.report.notes.push(format!("model renders: {reply}"));
		},
		_ => cx.report.oracle_fail(input, "unrecognised replay input"),
	}
}
