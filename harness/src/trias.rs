//! C18 — the real `trias` executable on generated projects, its `.uf2` output read back by the independent
//! reader of `uf2.rs` (oracle: exactly the statement of C18, expected image computed from the generated
//! program), and compared with the Lean model `Trion.Trias.post` applied to the expected segment list.
use std::collections::BTreeMap;
use std::path::{Path, PathBuf};
use std::process::Command;

use crate::common::*;
use crate::uf2::read_uf2;

const INSTRS: [(&str, &[u8]); 10] = [
	("NOP;", &[0x00, 0xBF]),
	("MOVS R1, 0x42;", &[0x42, 0x21]),
	("BX LR;", &[0x70, 0x47]),
	("PUSH {R0, LR};", &[0x01, 0xB5]),
	("BKPT 1;", &[0x01, 0xBE]),
	("ADD R0, R0, R1;", &[0x08, 0x44]),
	("SEV;", &[0x40, 0xBF]),
	("WFI;", &[0x30, 0xBF]),
	("DMB SY;", &[0xBF, 0xF3, 0x5F, 0x8F]),
	("UDF.W 0x1234;", &[0xF1, 0xF7, 0x34, 0xA2]),
];

#[derive(Clone, Debug)]
enum It
{
	/// a statement with the bytes it emits
	Stmt(String, Vec<u8>),
	/// `.dfile "<name>";`
	File(String, Vec<u8>),
	/// `.include "<name>";` of a file holding these items
	Include(String, Vec<It>),
	/// `.du32 r<k>;` — the start address of region `k` (possibly a forward reference)
	Ref(usize),
}

impl It
{
	fn size(&self) -> usize
	{
		match self
		{
			It::Stmt(_, b) | It::File(_, b) => b.len(),
			It::Include(_, v) => v.iter().map(|i| i.size()).sum(),
			It::Ref(..) => 4,
		}
	}
}

#[derive(Clone, Debug)]
struct Region
{
	addr: u64,
	items: Vec<It>,
}

impl Region
{
	fn size(&self) -> usize {self.items.iter().map(|i| i.size()).sum()}
}

#[derive(Clone, Debug, PartialEq)]
enum Expect
{
	/// assembles; the output is determined by the image
	Image,
	/// assembly itself fails (diagnostics), no output
	AsmFails(&'static str),
}

struct Gen
{
	rng: Rng,
	nfile: usize,
}

impl Gen
{
	fn name(&mut self, ext: &str) -> String
	{
		self.nfile += 1;
		// the path as it is WRITTEN in the source: relative to the directory of the file that mentions it; often in another directory
		let dir = *self.rng.pick(&["", "", "", "sub/", "sub/", "x/y/", "a.d/", "./"]);
		format!("{dir}f{}.{}", self.nfile, ext)
	}

	fn bytes(&mut self, n: usize) -> Vec<u8>
	{
		let mode = self.rng.below(5);
		(0..n).map(|_| match mode {0 => 0, 1 => 0xFF, _ => self.rng.next() as u8}).collect()
	}

	/// one item of at most `max` bytes (`max ≥ 1`)
	fn item(&mut self, max: usize, depth: usize, nregions: usize, top: bool) -> It
	{
		loop
		{
			match self.rng.below(11)
			{
				0 => {let v = self.rng.next() as u8; return It::Stmt(format!(".du8 {};", v), vec![v]);},
				1 if max >= 2 => {let v = self.rng.next() as u16; return It::Stmt(format!(".du16 0x{:X};", v), v.to_le_bytes().to_vec());},
				2 if max >= 4 => {let v = self.rng.next() as u32; return It::Stmt(format!(".du32 {};", v), v.to_le_bytes().to_vec());},
				3 =>
				{
					let n = 1 + self.rng.below(max.min(40) as u64) as usize;
					let b = self.bytes(n);
					let mut s = String::new();
					for (i, x) in b.iter().enumerate()
					{
						if i > 0 && self.rng.chance(1, 6) {s.push(' ');}
						if self.rng.chance(1, 2) {s.push_str(&format!("{x:02x}"));} else {s.push_str(&format!("{x:02X}"));}
					}
					return It::Stmt(format!(".dhex \"{s}\";"), b);
				},
				4 =>
				{
					let n = 1 + self.rng.below(max.min(24) as u64) as usize;
					let alphabet = b"abcxyzABC 0123456789_-+*/.,:;!?()[]{}<>=#$%&@^~|";
					let b: Vec<u8> = (0..n).map(|_| *self.rng.pick(alphabet)).collect();
					return It::Stmt(format!(".dstr \"{}\";", String::from_utf8(b.clone()).unwrap()), b);
				},
				5 =>
				{
					let lim = if self.rng.chance(1, 4) {700} else {30};
					let n = 1 + self.rng.below(max.min(lim) as u64) as usize;
					let b = self.bytes(n);
					return It::File(self.name("bin"), b);
				},
				6 if depth < 2 =>
				{
					let k = 1 + self.rng.below(3) as usize;
					let mut v = Vec::new();
					let mut left = max;
					for _ in 0..k
					{
						if left == 0 {break;}
						let it = self.item(left, depth + 1, nregions, false);
						left -= it.size();
						v.push(it);
					}
					return It::Include(self.name("asm"), v);
				},
				7 | 8 =>
				{
					let (t, b) = *self.rng.pick(&INSTRS);
					if b.len() <= max {return It::Stmt(t.to_owned(), b.to_vec());}
				},
				9 if top && max >= 4 && nregions > 0 => return It::Ref(self.rng.below(nregions as u64) as usize),
				_ => (),
			}
		}
	}

	/// items emitting exactly `len` bytes
	fn items_exact(&mut self, len: usize, nregions: usize) -> Vec<It>
	{
		let mut v = Vec::new();
		let mut left = len;
		while left > 0
		{
			let it = self.item(left, 0, nregions, true);
			left -= it.size();
			v.push(it);
		}
		v
	}
}

struct Case
{
	regions: Vec<Region>,
	/// order of the regions in the source file
	order: Vec<usize>,
	expect: Expect,
	/// extra text appended to the main file (used by failing programs)
	tail: String,
	sentinel: Option<Vec<u8>>,
	shape: &'static str,
}

/// directory part (with trailing '/') of `dir` + the written path `name`, lexically normalised (`./`, `d/../`)
fn join_rel(dir: &str, name: &str) -> String
{
	let mut comps: Vec<&str> = Vec::new();
	let full = format!("{dir}{name}");
	for c in full.split('/')
	{
		match c {"" | "." => (), ".." => {comps.pop();}, c => comps.push(c)}
	}
	comps.iter().map(|c| c.to_string()).collect::<Vec<_>>().join("/")
}

/// `dir` = directory (relative to the project root, with trailing '/' or empty) of the file the items are rendered into: paths in
/// `.dfile` / `.include` are relative to the file that mentions them, before as well as after an include from another directory
fn render_items(items: &[It], addrs: &[u64], files: &mut Vec<(String, Vec<u8>)>, sep: &str) -> String {render_items_in(items, addrs, files, sep, "")}

fn render_items_in(items: &[It], addrs: &[u64], files: &mut Vec<(String, Vec<u8>)>, sep: &str, dir: &str) -> String
{
	let mut s = String::new();
	for it in items
	{
		match it
		{
			It::Stmt(t, _) => s.push_str(t),
			It::File(name, b) => {files.push((join_rel(dir, name), b.clone())); s.push_str(&format!(".dfile \"{name}\";"));},
			It::Include(name, v) =>
			{
				let path = join_rel(dir, name);
				let sub = match path.rfind('/') {Some(i) => path[..=i].to_owned(), None => String::new()};
				let inner = render_items_in(v, addrs, files, sep, &sub);
				files.push((path, inner.into_bytes()));
				s.push_str(&format!(".include \"{name}\";"));
			},
			It::Ref(k) => s.push_str(&format!(".du32 rgn_{k};")),
		}
		s.push_str(sep);
	}
	s
}

fn emit_bytes(items: &[It], addrs: &[u64], out: &mut Vec<u8>)
{
	for it in items
	{
		match it
		{
			It::Stmt(_, b) | It::File(_, b) => out.extend_from_slice(b),
			It::Include(_, v) => emit_bytes(v, addrs, out),
			It::Ref(k) => out.extend_from_slice(&(addrs[*k] as u32).to_le_bytes()),
		}
	}
}

/// independent bit-serial CRC-32/MPEG-2
fn crc_mpeg2(data: &[u8]) -> u32
{
	let mut s = 0xFFFF_FFFFu32;
	for &b in data
	{
		s ^= (b as u32) << 24;
		for _ in 0..8 {s = if s & 0x8000_0000 != 0 {(s << 1) ^ 0x04C1_1DB7} else {s << 1};}
	}
	s
}

fn gen_case(seed: u64) -> Case
{
	let mut g = Gen{rng: Rng(seed), nfile: 0};
	let shape_id = g.rng.below(16);
	let mut expect = Expect::Image;
	let mut tail = String::new();
	let mut regions: Vec<Region> = Vec::new();
	let shape: &'static str;
	// region lengths are chosen first, then the layout places them
	let small = |g: &mut Gen| 1 + g.rng.below(60) as usize;
	match shape_id
	{
		0 | 1 =>
		{
			shape = "same page";
			let page = (g.rng.below(1 << 24) << 8).min(0xFFFF_FF00);
			let l1 = small(&mut g).min(100);
			let o1 = g.rng.below(256 - l1 as u64 - 2);
			let end1 = o1 + l1 as u64;
			let gap = 1 + g.rng.below((256 - end1 - 1).max(1));
			let o2 = (end1 + gap).min(255);
			let lim2 = if g.rng.chance(1, 3) {400} else {60};
			let l2 = 1 + g.rng.below((256 - o2).min(lim2)) as usize;
			regions.push(Region{addr: page + o1, items: Vec::new()});
			regions.push(Region{addr: page + o2, items: Vec::new()});
			let n = regions.len();
			regions[0].items = g.items_exact(l1, n);
			regions[1].items = g.items_exact(l2.min((0x1_0000_0000u64 - (page + o2)) as usize), n);
		},
		2 | 3 =>
		{
			shape = "adjacent pages";
			let page = (g.rng.below((1 << 24) - 4) << 8).min(0xFFFF_FD00);
			// first region ends at offset e (exclusive) of page, second starts at offset o of the next page
			let e = match g.rng.below(4) {0 => 256, 1 => 255, _ => 1 + g.rng.below(256)};
			let lim1 = if g.rng.chance(1, 4) {e} else {40};
			let l1 = 1 + g.rng.below(e.min(lim1)) as usize;
			let o = match g.rng.below(4) {0 => 0, 1 => 1, 2 => 255, _ => g.rng.below(256)};
			let l2 = small(&mut g) + if g.rng.chance(1, 4) {300} else {0};
			regions.push(Region{addr: page + e - l1 as u64, items: Vec::new()});
			regions.push(Region{addr: page + 256 + o, items: Vec::new()});
			regions[0].items = g.items_exact(l1, 2);
			regions[1].items = g.items_exact(l2, 2);
		},
		4 | 5 =>
		{
			shape = "far apart";
			let n = 2 + g.rng.below(4) as usize;
			let mut a = g.rng.below(1 << 20);
			for _ in 0..n
			{
				let l = small(&mut g);
				regions.push(Region{addr: a, items: Vec::new()});
				a += l as u64 + (1 << 12) + g.rng.below(1 << 29);
				if a + 4096 > 0xFFFF_FFFF {break;}
			}
			let n = regions.len();
			let mut end = 0;
			for k in 0..n
			{
				let l = small(&mut g);
				regions[k].addr = regions[k].addr.max(end);
				regions[k].items = g.items_exact(l, n);
				end = regions[k].addr + l as u64 + 300;
			}
		},
		6 | 7 | 8 =>
		{
			shape = "flash boot sector";
			if g.rng.chance(1, 4)
			{
				// the first flash page is touched but 0x10000000 itself is NOT occupied: not a boot sector — no checksum word is
				// inserted (the padding zeros at 0x10000000 are not program bytes) and data at 0x100000FC..FF is no reason to refuse
				let off = 1 + g.rng.below(0xFF);
				let room = (0x100 - off) as usize;
				let l2 = match g.rng.below(5) {0 => room, 1 => 1, 2 => room + 1 + g.rng.below(300) as usize, 3 => room.min(4), _ => 1 + g.rng.below(room as u64) as usize};
				let a2 = if g.rng.chance(1, 3) {0x1000_00FC + g.rng.below(4)} else {0x1000_0000 + off};
				let l2 = if a2 >= 0x1000_00FC && g.rng.chance(1, 2) {1 + g.rng.below(3) as usize} else {l2};
				regions.push(Region{addr: a2, items: Vec::new()});
				regions[0].items = g.items_exact(l2, 1);
			}
			else
			{
			let l = match g.rng.below(10)
			{
				0 => 1, 1 => 251, 2 | 3 => 252, 4 => 253, 5 => 256, 6 => 257 + g.rng.below(300) as usize,
				_ => 1 + g.rng.below(252) as usize,
			};
			let before = if g.rng.chance(1, 5) {1 + g.rng.below(40)} else {0};
			regions.push(Region{addr: 0x1000_0000 - before, items: Vec::new()});
			let mut lens = vec![l + before as usize];
			match g.rng.below(8)
			{
				0 =>
				{
					// data inside the checksum word
					let a = 0x1000_00FCu64 + g.rng.below(4);
					if a >= 0x1000_0000 + l as u64 {regions.push(Region{addr: a, items: Vec::new()}); lens.push(1 + g.rng.below(3) as usize);}
				},
				1 | 2 =>
				{
					let a = 0x1000_0100u64 + match g.rng.below(3) {0 => 0, 1 => 1, _ => g.rng.below(256)};
					if a > 0x1000_0000 + l as u64 {regions.push(Region{addr: a, items: Vec::new()}); lens.push(small(&mut g));}
				},
				3 =>
				{
					// a second region between the code and the checksum word
					let a = 0x1000_0000u64 + l as u64 + 1 + g.rng.below(8);
					if a < 0x1000_00FA {regions.push(Region{addr: a, items: Vec::new()}); lens.push(1 + g.rng.below(0x1000_00FC - a) as usize);}
				},
				_ => (),
			}
			if g.rng.chance(1, 4) {regions.push(Region{addr: 0x2000_0000 + g.rng.below(512), items: Vec::new()}); lens.push(small(&mut g));}
			let n = regions.len();
			for k in 0..n {regions[k].items = g.items_exact(lens[k], n);}
			}
		},
		9 | 10 =>
		{
			shape = "top of the address space";
			let lim = if g.rng.chance(1, 3) {600} else {255};
			let l = 1 + g.rng.below(lim) as usize;
			let slack = match g.rng.below(3) {0 => 0, 1 => 1, _ => g.rng.below(200)};
			let a = 0x1_0000_0000u64 - l as u64 - slack;
			if g.rng.chance(1, 2) {regions.push(Region{addr: g.rng.below(1 << 30), items: Vec::new()});}
			regions.push(Region{addr: a, items: Vec::new()});
			let n = regions.len();
			if n == 2 {let l0 = small(&mut g); regions[0].items = g.items_exact(l0, n);}
			regions[n - 1].items = g.items_exact(l, n);
		},
		11 | 12 | 13 =>
		{
			shape = "mixed regions";
			let n = 1 + g.rng.below(6) as usize;
			let mut a = match g.rng.below(4)
			{
				0 => g.rng.below(600),
				1 => 0x1000_0000 + g.rng.below(3) * 0x100,
				2 => 0x2000_0000 + g.rng.below(1 << 12),
				_ => g.rng.below(0xFFFF_0000),
			};
			let mut lens = Vec::new();
			for _ in 0..n
			{
				let l = if g.rng.chance(1, 6) {200 + g.rng.below(500) as usize} else {small(&mut g)};
				if a + l as u64 > 0x1_0000_0000 {break;}
				regions.push(Region{addr: a, items: Vec::new()});
				lens.push(l);
				let end = a + l as u64;
				let gap = match g.rng.below(8)
				{
					0 => 0,                                  // touching
					1 => 1,
					2 => (256 - end % 256) % 256,             // next starts on the page boundary
					3 => (256 - end % 256) % 256 + 1,
					4 => g.rng.below(256),
					5 => 256 + g.rng.below(512),
					6 => (256 - end % 256) % 256 + 255,
					_ => g.rng.below(1 << 16),
				};
				a = end + gap;
			}
			let n = regions.len();
			for k in 0..n {regions[k].items = g.items_exact(lens[k], n);}
		},
		_ =>
		{
			shape = "failing program";
			let l = small(&mut g);
			let a = g.rng.below(0xFFFF_0000);
			regions.push(Region{addr: a, items: Vec::new()});
			regions[0].items = g.items_exact(l, 1);
			match g.rng.below(8)
			{
				0 => {tail = format!(".addr 0x{:X}; .du8 1;", a + g.rng.below(l as u64)); expect = Expect::AsmFails("region placed on occupied addresses");},
				1 => {tail = ".du32 nowhere_defined;".to_owned(); expect = Expect::AsmFails("undefined constant");},
				2 => {tail = ".du8 1 2;".to_owned(); expect = Expect::AsmFails("syntax error");},
				3 => {tail = ".include \"missing_file.asm\";".to_owned(); expect = Expect::AsmFails("missing include file");},
				4 => {tail = ".du8 256;".to_owned(); expect = Expect::AsmFails("value out of range");},
				5 => {tail = ".addr 0xFFFFFFFE; .du32 1;".to_owned(); expect = Expect::AsmFails("write past the end of the address space");},
				6 => {tail = ".dfile \"missing_file.bin\";".to_owned(); expect = Expect::AsmFails("missing data file");},
				_ => {regions.clear(); tail = if g.rng.chance(1, 2) {String::new()} else {".const unused, 5;".to_owned()};},   // no output at all
			}
		},
	}
	let n = regions.len();
	let mut order: Vec<usize> = (0..n).collect();
	for i in (1..n).rev() {let j = g.rng.below(i as u64 + 1) as usize; order.swap(i, j);}
	let sentinel = if g.rng.chance(2, 5) {let n = g.rng.below(3000) as usize; Some(g.bytes(n).into_iter().map(|b| b | 1).collect())} else {None};
	Case{regions, order, expect, tail, sentinel, shape}
}

/// the program's own bytes, address → value
fn program_image(c: &Case) -> BTreeMap<u64, u8>
{
	let addrs: Vec<u64> = c.regions.iter().map(|r| r.addr).collect();
	let mut img = BTreeMap::new();
	for r in &c.regions
	{
		let mut b = Vec::new();
		emit_bytes(&r.items, &addrs, &mut b);
		for (i, x) in b.iter().enumerate() {img.insert(r.addr + i as u64, *x);}
	}
	img
}

fn segments(img: &BTreeMap<u64, u8>) -> Vec<(u64, Vec<u8>)>
{
	let mut v: Vec<(u64, Vec<u8>)> = Vec::new();
	for (&a, &b) in img
	{
		match v.last_mut()
		{
			Some((f, d)) if *f + d.len() as u64 == a => d.push(b),
			_ => v.push((a, vec![b])),
		}
	}
	v
}

struct RunOut
{
	/// the project as written to disk: main file first, then every other file (path relative to the main file's directory)
	project: Vec<(String, Vec<u8>)>,
	file: Option<Vec<u8>>,
	stderr: String,
	status: String,
}

fn run_trias(dir: &Path, c: &Case) -> RunOut
{
	let _ = std::fs::remove_dir_all(dir);
	std::fs::create_dir_all(dir).unwrap();
	let addrs: Vec<u64> = c.regions.iter().map(|r| r.addr).collect();
	let mut files = Vec::new();
	let mut main = String::new();
	for &k in &c.order
	{
		let r = &c.regions[k];
		main.push_str(&format!(".addr 0x{:X};\nrgn_{k}:\n", r.addr));
		main.push_str(&render_items(&r.items, &addrs, &mut files, "\n"));
	}
	main.push_str(&c.tail);
	main.push('\n');
	// decoys: a file of the same NAME but other content in the other directories of the project, so that a path resolved against
	// the wrong directory silently picks up other bytes (without a decoy it is "file not found"); both happen
	let mut dirs: Vec<String> = vec![String::new()];
	for (name, _) in &files {let d = match name.rfind('/') {Some(i) => name[..=i].to_owned(), None => String::new()}; if !dirs.contains(&d) {dirs.push(d);}}
	let mut decoys: Vec<(String, Vec<u8>)> = Vec::new();
	for (name, data) in &files
	{
		let base = name.rsplit('/').next().unwrap();
		if fnv(FNV_INIT, name.as_bytes()) % 3 == 0 {continue;}
		for d in &dirs
		{
			let p = format!("{d}{base}");
			if files.iter().any(|(n, _)| *n == p) || decoys.iter().any(|(n, _)| *n == p) {continue;}
			let other: Vec<u8> = if base.ends_with(".asm") {b".du8 0xEE; .du8 0xEE; .du8 0xEE;\n".to_vec()} else {data.iter().map(|b| !b).collect()};
			decoys.push((p, other));
		}
	}
	for (name, data) in files.iter().chain(decoys.iter())
	{
		let p = dir.join(name);
		if let Some(parent) = p.parent() {std::fs::create_dir_all(parent).unwrap();}
		std::fs::write(p, data).unwrap();
	}
	std::fs::write(dir.join("main.asm"), &main).unwrap();
	let out_path: PathBuf = dir.join("out.uf2");
	if let Some(s) = &c.sentinel {std::fs::write(&out_path, s).unwrap();}
	let out = Command::new(repo_bin("trias")).arg("main.asm").arg("out.uf2").current_dir(dir).output().expect("cannot run trias (./check builds it when needs_bins is true)");
	let file = std::fs::read(&out_path).ok();
	let mut project: Vec<(String, Vec<u8>)> = vec![("main.asm".to_owned(), main.clone().into_bytes())];
	project.extend(files.iter().chain(decoys.iter()).cloned());
	RunOut{project, file, stderr: String::from_utf8_lossy(&out.stderr).into_owned(), status: format!("{:?}", out.status.code())}
}

/// the statement of C18 on the observed outcome
fn oracle(c: &Case, img: &BTreeMap<u64, u8>, run: &RunOut) -> Result<(), String>
{
	let boot = img.contains_key(&0x1000_0000);
	let crc_hit = boot && (0x1000_00FCu64..=0x1000_00FF).any(|a| img.contains_key(&a));
	let must_fail = c.expect != Expect::Image || img.is_empty() || crc_hit;
	if must_fail
	{
		// no output file created or modified
		return match (&c.sentinel, &run.file)
		{
			(None, None) => Ok(()),
			(None, Some(f)) => Err(format!("the program must be refused ({}) but an output file of {} bytes was created", if crc_hit {"data in the checksum word"} else if img.is_empty() {"no output"} else {"assembly fails"}, f.len())),
			(Some(s), Some(f)) if s == f => Ok(()),
			(Some(..), Some(..)) => Err("the program must be refused but the existing output file was modified".to_owned()),
			(Some(..), None) => Err("the program must be refused but the existing output file was removed".to_owned()),
		};
	}
	let file = match &run.file
	{
		None => return Err(format!("generated program was expected to assemble but no output file exists; stderr: {}", run.stderr.lines().next().unwrap_or(""))),
		Some(f) => f,
	};
	if let Some(s) = &c.sentinel
	{
		if s == file {return Err(format!("generated program was expected to assemble but the pre-existing file is unchanged; stderr: {}", run.stderr.lines().next().unwrap_or("")));}
	}
	let blocks = read_uf2(file)?;
	let n = blocks.len();
	let mut pages: BTreeMap<u64, &crate::uf2::RBlock> = BTreeMap::new();
	for (k, b) in blocks.iter().enumerate()
	{
		if b.psize != 256 {return Err(format!("block {k}: payload size {}", b.psize));}
		if b.addr % 256 != 0 {return Err(format!("block {k}: address {:08x} is not 256-aligned", b.addr));}
		if b.no as usize != k || b.total as usize != n {return Err(format!("block {k}: numbered {} of {}, file has {n} blocks", b.no, b.total));}
		if b.fam != 0xE48B_FF56 || b.flags != 0x2000 {return Err(format!("block {k}: flags {:08x} family {:08x}", b.flags, b.fam));}
		if pages.insert(b.addr as u64, b).is_some() {return Err(format!("two blocks target page {:08x}", b.addr));}
		if b.data[256..].iter().any(|&x| x != 0) {return Err(format!("block {k}: data area beyond the payload is not zero"));}
	}
	// expected image: program bytes, the checksum word, zero elsewhere in touched pages, nothing else
	let mut want: BTreeMap<u64, u8> = img.clone();
	if boot
	{
		let temp: Vec<u8> = (0..252u64).map(|i| *img.get(&(0x1000_0000 + i)).unwrap_or(&0)).collect();
		let crc = crc_mpeg2(&temp);
		for (i, x) in crc.to_le_bytes().iter().enumerate() {want.insert(0x1000_00FC + i as u64, *x);}
	}
	let mut touched: Vec<u64> = want.keys().map(|a| a & !0xFF).collect();
	touched.dedup();
	let got_pages: Vec<u64> = pages.keys().copied().collect();
	if touched != got_pages
	{
		let missing: Vec<String> = touched.iter().filter(|p| !pages.contains_key(p)).map(|p| format!("{p:08x}")).collect();
		let extra: Vec<String> = got_pages.iter().filter(|p| !touched.contains(p)).map(|p| format!("{p:08x}")).collect();
		return Err(format!("pages in the file differ from the pages the program touches: missing [{}], extra [{}]", missing.join(","), extra.join(",")));
	}
	for (&p, b) in &pages
	{
		for j in 0..256u64
		{
			let w = *want.get(&(p + j)).unwrap_or(&0);
			if b.data[j as usize] != w
			{
				let what = if img.contains_key(&(p + j)) {"program byte"} else if want.contains_key(&(p + j)) {"checksum byte"} else {"padding byte"};
				return Err(format!("address {:08x} ({what}) reads {:02x}, expected {:02x}", p + j, b.data[j as usize], w));
			}
		}
	}
	Ok(())
}

fn check_case(cx: &mut Cx, seed: u64)
{
	let input = format!("gen {seed:016x}");
	let c = gen_case(seed);
	let img = program_image(&c);
	let dir = cx.work.join("trias");
	let run = run_trias(&dir, &c);
	cx.report.hit(&format!("shape: {}", c.shape));
	cx.report.hit(&format!("exit status {}", run.status));
	if c.sentinel.is_some() {cx.report.hit("pre-existing output file");}
	// canonical outcome of the implementation
	let produced = match (&run.file, &c.sentinel) {(Some(f), Some(s)) => f != s, (Some(..), None) => true, (None, _) => false};
	let imp = if produced
	{
		let f = run.file.as_ref().unwrap();
		format!("ok len={} fnv={:016x}", f.len(), fnv(FNV_INIT, f))
	}
	// no file: the wording on stderr is not looked at; whether the PROGRAM assembles is established in-process with the crate
	// (same directory); a program that assembles and is still refused was refused by the post-processing (checksum word occupied)
	else if run.stderr.is_empty() {"err:empty".to_owned()}
	else if matches!(crate::asm::run_real(&dir), Ok(o) if o.close_err.is_none() && o.finalize) {"err:crc-overwrite".to_owned()}
	else {"asm-failed".to_owned()};
	cx.report.hit(&format!("outcome: {}", if produced {"file written"} else {&imp}));
	cx.report.case(if produced {Some(&imp)} else {None});
	// the executable from its arguments to the output file against `Trias.mainOut` (Model/TriasMain.lean): whole project in,
	// "file written with these bytes" / "refused, nothing created or modified" out — for failing programs as well
	{
		let total: usize = run.project.iter().map(|(n, d)| n.len() + d.len()).sum();
		let odd_name = run.project.iter().any(|(n, _)| n.is_empty() || n.contains(|ch: char| ch == ' ' || ch == '=' || !ch.is_ascii_graphic()));
		if total > 200_000 || img.len() > 65536 || odd_name {cx.report.hit("trias main model: skipped (project > 200 kB, image > 64 KiB or a file name the protocol cannot carry)");}
		else
		{
			let req = format!("trias main {}", run.project.iter().map(|(n, d)| format!("{n}={}", if d.is_empty() {"-".to_owned()} else {hex(d)})).collect::<Vec<_>>().join(" "));
			let reply = cx.model.ask(&req);
			// an existing output file that is left alone and a file that is not created are the same outcome
			let unchanged = match (&run.file, &c.sentinel) {(None, None) => true, (Some(f), Some(s)) => f == s, _ => false};
			let imp_main = if produced {imp.clone()} else if !unchanged {"output file removed or created empty".to_owned()} else {imp.clone()};
			cx.report.hit(&format!("trias main model: {}", reply.split(' ').next().unwrap_or("")));
			if !cx.report.compare("model.trias.main", &input, &reply, &imp_main) && cx.report.disagreements.len() <= 3
			{
				cx.report.notes.push(format!("{input}: stderr {}", run.stderr.lines().take(3).collect::<Vec<_>>().join(" / ")));
			}
		}
	}
	if c.expect == Expect::Image
	{
		let segs = segments(&img);
		let mut req = "trias post".to_owned();
		for (f, d) in &segs {req.push_str(&format!(" {:x}:{}", f, hex(d)));}
		let reply = cx.model.ask(&req);
		if !cx.report.compare("model.trias.post", &input, &reply, &imp) && cx.report.disagreements.len() <= 3
		{
			cx.report.notes.push(format!("{input}: segments {}", segs.iter().map(|(f, d)| format!("{f:08x}+{}", d.len())).collect::<Vec<_>>().join(" ")));
			cx.report.notes.push(format!("{input}: stderr {}", run.stderr.lines().take(3).collect::<Vec<_>>().join(" / ")));
		}
		// the Lean reader decodes the real file to the same blocks as the harness reader
		if produced && seed % 8 == 0
		{
			let f = run.file.as_ref().unwrap();
			if f.len() <= 4096
			{
				let lean = cx.model.ask(&format!("uf2 read {}", hex(f)));
				let mine = match read_uf2(f)
				{
					Ok(bl) =>
					{
						let mut s = format!("n={}", bl.len());
						for b in &bl {s.push_str(&format!(" | {:08x} {:08x} {} {} {} {:08x} {}", b.flags, b.addr, b.psize, b.no, b.total, b.fam, hex(&b.data)));}
						s
					},
					Err(..) => "none".to_owned(),
				};
				cx.report.compare("model.uf2.read", &input, &lean, &mine);
			}
		}
	}
	if let Err(what) = oracle(&c, &img, &run) {cx.report.oracle_fail(input, what);}
	if cx.report.samples.len() < 6 && produced
	{
		cx.report.sample(format!("{} [{}; {} regions, {} program bytes] -> {}", format!("gen {seed:016x}"), c.shape, c.regions.len(), img.len(), imp));
	}
}

/// every entry of `dir` with its content (sub-directories are not used by these cases)
fn dir_snapshot(dir: &Path) -> BTreeMap<String, Vec<u8>>
{
	let mut m = BTreeMap::new();
	if let Ok(rd) = std::fs::read_dir(dir)
	{
		for e in rd.flatten().filter(|e| !e.file_name().to_string_lossy().ends_with(".profraw")) {m.insert(e.file_name().to_string_lossy().into_owned(), std::fs::read(e.path()).unwrap_or_default());}
	}
	m
}

/// command lines the generated cases do not use: no argument at all, no output argument (valid and failing program),
/// an input file that does not exist. What C18 cares about: nothing is created or modified unless a program assembled AND an
/// output file was named; a failure is announced on stderr. Input: `cli <name>`.
fn cli_case(cx: &mut Cx, name: &str)
{
	let input = format!("cli {name}");
	let dir = cx.work.join("trias-cli");
	let _ = std::fs::remove_dir_all(&dir);
	std::fs::create_dir_all(&dir).unwrap();
	let good = ".addr 0x20000000;\nstart: MOVS R0, 1;\n.du32 start;\nBX LR;\n";
	let bad = ".addr 0x20000000;\nMOVS R0, 256;\n";
	// (arguments, main.asm, pre-existing out.uf2, must say something on stderr, stdout text)
	let (args, main, want_stderr, want_stdout): (Vec<&str>, Option<&str>, bool, Option<&str>) = match name
	{
		"noargs" => (vec![], Some(good), true, None),
		"noout-ok" => (vec!["main.asm"], Some(good), false, Some("Assembled successfully")),
		"noout-fail" => (vec!["main.asm"], Some(bad), true, None),
		"noout-empty" => (vec!["main.asm"], Some("// nothing\n"), false, None),
		"missing-input" => (vec!["nosuch.asm", "out.uf2"], Some(good), true, None),
		"fail-with-out" => (vec!["main.asm", "out.uf2"], Some(bad), true, None),
		_ => {cx.report.oracle_fail(input, "unrecognised replay input"); return;},
	};
	if let Some(m) = main {std::fs::write(dir.join("main.asm"), m).unwrap();}
	let sentinel = b"previous output".to_vec();
	std::fs::write(dir.join("out.uf2"), &sentinel).unwrap();
	let before = dir_snapshot(&dir);
	let out = Command::new(repo_bin("trias")).args(&args).current_dir(&dir).output().expect("cannot run trias");
	let after = dir_snapshot(&dir);
	let (stdout, stderr) = (String::from_utf8_lossy(&out.stdout).into_owned(), String::from_utf8_lossy(&out.stderr).into_owned());
	cx.report.case(Some(&format!("{name} {:?} {}", out.status.code(), !stdout.trim().is_empty())));
	cx.report.hit(&format!("cli {name}: exit status {:?}", out.status.code()));
	{
		use std::os::unix::process::ExitStatusExt;
		if let Some(sig) = out.status.signal() {cx.report.oracle_fail(input.clone(), format!("trias {args:?} was killed by signal {sig}"));}
	}
	if after != before
	{
		let changed: Vec<&String> = after.keys().filter(|k| before.get(*k) != after.get(*k)).chain(before.keys().filter(|k| !after.contains_key(*k))).collect();
		cx.report.oracle_fail(input.clone(), format!("trias {args:?} created, modified or removed {changed:?} although no program was assembled into a named output file"));
	}
	if want_stderr && stderr.trim().is_empty() {cx.report.oracle_fail(input.clone(), format!("trias {args:?} failed silently (status {:?}, nothing on stderr)", out.status.code()));}
	match want_stdout
	{
		// the wording is free; success must be announced and the exit status must say so
		Some(_) => if stdout.trim().is_empty() || !out.status.success() {cx.report.oracle_fail(input.clone(), format!("trias {args:?}: status {:?}, stdout {stdout:?}; expected success and an announcement of it", out.status.code()));},
		None => if !stdout.trim().is_empty() {cx.report.oracle_fail(input.clone(), format!("trias {args:?} reports on stdout although nothing was assembled: {stdout:?}"));},
	}
	let _ = std::fs::remove_dir_all(&dir);
}

const CLI_CASES: [&str; 6] = ["noargs", "noout-ok", "noout-fail", "noout-empty", "missing-input", "fail-with-out"];

/// programs that must be REFUSED by the executable (`refuse <name> <seed>`): the boot sector's own bytes at 0x100000FC..FF — even when
/// they happen to equal the checksum of the 252 bytes before them; `.addr` to an address that already holds output — even when it is
/// the cursor of the region being written. No output file is created, an existing one is not modified, the failure is announced.
fn refuse_case(cx: &mut Cx, name: &str, seed: u64)
{
	let input = format!("refuse {name} {seed}");
	let mut rng = Rng::new(seed);
	let dir = cx.work.join("trias-refuse");
	let _ = std::fs::remove_dir_all(&dir);
	std::fs::create_dir_all(&dir).unwrap();
	let code: Vec<u8> = (0..252).map(|_| rng.next() as u8).collect();
	let hexs = |b: &[u8]| b.iter().map(|x| format!("{x:02x}")).collect::<String>();
	let crc = crc_mpeg2(&code).to_le_bytes();
	let n = 1 + rng.below(200) as usize;
	let mut short = code[..n].to_vec();
	short.resize(252, 0);
	let crc_short = crc_mpeg2(&short).to_le_bytes();
	let main: String = match name
	{
		"crc-du32" => format!(".addr 0x10000000;\n.dhex \"{}\";\n.du32 0x{:08X};\n", hexs(&code), u32::from_le_bytes(crc)),
		"crc-dhex" => format!(".addr 0x10000000;\n.dhex \"{}{}\";\nNOP;\n", hexs(&code), hexs(&crc)),
		"crc-dfile" => {let mut blob = code.clone(); blob.extend_from_slice(&crc); std::fs::write(dir.join("boot2.bin"), &blob).unwrap(); ".addr 0x10000000;\n.dfile \"boot2.bin\";\n".to_owned()},
		"crc-two-regions" => format!(".addr 0x100000FE;\n.dhex \"{}\";\n.addr 0x10000000;\n.dhex \"{}{}\";\n", hexs(&crc[2..]), hexs(&code), hexs(&crc[..2])),
		"crc-short-program" => format!(".addr 0x100000FC;\n.du32 0x{:08X};\n.addr 0x10000000;\n.dhex \"{}\";\n", u32::from_le_bytes(crc_short), hexs(&code[..n])),
		"crc-one-byte" => format!(".addr 0x10000000;\n.dhex \"{}\";\n.addr 0x100000FF;\n.du8 0x{:02X};\n", hexs(&code), crc[3]),
		"cursor-gap" => format!(".addr 0x20000010;\n.du32 1;\n.addr 0x20000008;\n.du32 2;\n.du32 3;\n.addr 0x20000010;\n{}", *rng.pick(&["", "x:\n", ".addr 0x20000100;\nNOP;\n", "x:\n.addr 0x20000020;\n.du32 x;\n"])),
		"cursor-gap-include" => {std::fs::write(dir.join("fill.asm"), ".du32 2;\n.du16 3;\n").unwrap(); std::fs::write(dir.join("fill.bin"), [9u8, 9]).unwrap();
			".addr 0x20000010;\nNOP;\n.addr 0x20000008;\n.include \"fill.asm\";\n.dfile \"fill.bin\";\n.addr 0x20000010;\n.addr 0x20000040;\nNOP;\n".to_owned()},
		"cursor-top" => format!(".addr 0xFFFFFFF{:X};\n.dhex \"{}\";\n.addr 0xFFFFFFFF;\n", 16 - n.min(15), "5a".repeat(n.min(15))),
		"cursor-top-label" => ".addr 0xFFFFFFFE;\nNOP;\n.addr 0xFFFFFFFF;\nx:\n".to_owned(),
		// a file longer than the gap below a closed region (or below the end of the address space)
		n if n.starts_with("dfile-gap-") =>
		{
			let w: Vec<usize> = n["dfile-gap-".len()..].split('-').filter_map(|x| x.parse().ok()).collect();
			let (len, gap) = (w[0], w[1] as u32);
			std::fs::write(dir.join("blob.bin"), (0..len).map(|i| (i as u8).wrapping_mul(7).wrapping_add(seed as u8) | 1).collect::<Vec<u8>>()).unwrap();
			if seed % 3 == 0 {format!(".addr 0x{:X};\n.dfile \"blob.bin\";\n", 0xFFFF_FFFFu32 - gap + 1)}
			else {format!(".addr 0x20001000;\n.du32 0xAABBCCDD;\n.addr 0x{:X};\n{}.dfile \"blob.bin\";\n", 0x2000_1000u32 - gap, if seed % 3 == 1 {""} else {"NOP;\n"})}
		},
		_ => {cx.report.oracle_fail(input, "unrecognised replay input"); return;},
	};
	std::fs::write(dir.join("main.asm"), &main).unwrap();
	let sentinel = seed % 2 == 0;
	if sentinel {std::fs::write(dir.join("out.uf2"), b"previous output").unwrap();}
	let before = dir_snapshot(&dir);
	let out = Command::new(repo_bin("trias")).arg("main.asm").arg("out.uf2").current_dir(&dir).output().expect("cannot run trias");
	let after = dir_snapshot(&dir);
	cx.report.case(Some(&format!("refuse {name} {}", after == before)));
	cx.report.hit(&format!("must be refused: {name}"));
	{
		use std::os::unix::process::ExitStatusExt;
		if let Some(sig) = out.status.signal() {cx.report.oracle_fail(input.clone(), format!("trias was killed by signal {sig}"));}
	}
	if after != before
	{
		cx.report.oracle_fail(input.clone(), format!("a program that must be refused ({name}) {} the output file ({} bytes); program {main:?}", if sentinel {"overwrote"} else {"created"}, after.get("out.uf2").map(|f| f.len()).unwrap_or(0)));
	}
	if out.stderr.is_empty() {cx.report.oracle_fail(input.clone(), format!("a program that must be refused ({name}) was refused silently or accepted; program {main:?}"));}
	let _ = std::fs::remove_dir_all(&dir);
}

/// the fitting controls of the `.dfile`-into-a-gap cases (`fits <len> <gap> <seed>`): the file fills the gap partly or exactly; the
/// output holds every byte of the file at its address and the region above it
fn fits_case(cx: &mut Cx, len: usize, gap: u32, seed: u64)
{
	let input = format!("fits {len} {gap} {seed}");
	let dir = cx.work.join("trias-fits");
	let _ = std::fs::remove_dir_all(&dir);
	std::fs::create_dir_all(&dir).unwrap();
	let blob: Vec<u8> = (0..len).map(|i| (i as u8).wrapping_mul(7).wrapping_add(seed as u8) | 1).collect();
	std::fs::write(dir.join("blob.bin"), &blob).unwrap();
	let upper = 0x2000_1000u32;
	std::fs::write(dir.join("main.asm"), format!(".addr 0x{upper:X};\n.du32 0xAABBCCDD;\n.addr 0x{:X};\n.dfile \"blob.bin\";\n", upper - gap)).unwrap();
	let out = Command::new(repo_bin("trias")).arg("main.asm").arg("out.uf2").current_dir(&dir).output().expect("cannot run trias");
	cx.report.case(Some(&input));
	cx.report.hit("dfile that fits its gap (control)");
	match std::fs::read(dir.join("out.uf2")).ok().and_then(|f| read_uf2(&f).ok())
	{
		None => cx.report.oracle_fail(input, format!("a {len}-byte file in a gap of {gap} bytes is refused or the output is unreadable: {}", String::from_utf8_lossy(&out.stderr).lines().next().unwrap_or(""))),
		Some(blocks) =>
		{
			let mut img: BTreeMap<u64, u8> = BTreeMap::new();
			for b in &blocks {for (k, x) in b.data[..b.psize as usize].iter().enumerate() {img.insert(b.addr as u64 + k as u64, *x);}}
			let ok = blob.iter().enumerate().all(|(k, x)| img.get(&((upper - gap) as u64 + k as u64)) == Some(x)) && [0xDD, 0xCC, 0xBB, 0xAA].iter().enumerate().all(|(k, x)| img.get(&(upper as u64 + k as u64)) == Some(x));
			if !ok {cx.report.oracle_fail(input, "the output does not hold every byte of the file and of the region above it");}
		},
	}
	let _ = std::fs::remove_dir_all(&dir);
}

const REFUSE_CASES: [&str; 19] = ["dfile-gap-10-4", "dfile-gap-100-4", "dfile-gap-5000-4", "dfile-gap-100-12", "dfile-gap-13-12", "dfile-gap-5000-12", "dfile-gap-257-256", "dfile-gap-5000-256", "dfile-gap-1025-1024", "crc-du32", "crc-dhex", "crc-dfile", "crc-two-regions", "crc-short-program", "crc-one-byte", "cursor-gap", "cursor-gap-include", "cursor-top", "cursor-top-label"];

pub fn run(_id: &str, cx: &mut Cx)
{
	cx.report.rule = "generated projects on disk (main file with .addr regions in shuffled source order, region labels referenced by .du32 — also forward —, .du8/.du16/.du32/.dhex/.dstr, instructions, \
.dfile and nested .include inputs) assembled by the real trias executable; region shapes forced: same page, adjacent pages (incl. ending on / starting at a page boundary), far apart, flash boot sector \
(code lengths 1..252, 253+, data inside or next to the checksum word, region starting below 0x10000000), top of the address space (ending at 0xFFFFFFFF), mixed (touching, 1-byte gaps, page-boundary gaps), \
failing programs (occupied address, undefined constant, syntax error, missing files, range error, address-space overflow, no output) with and without a pre-existing output file. \
non-trivial = an output file was written; distinct = distinct output files".to_owned();
	if !repo_bin("trias").exists()
	{
		cx.report.oracle_fail("-", format!("{} not built (props/C18.json needs_bins)", repo_bin("trias").display()));
		return;
	}
	if let Some(input) = cx.replay.clone()
	{
		if let Some(name) = input.strip_prefix("cli ") {cli_case(cx, name); return;}
		if let Some(rest) = input.strip_prefix("fits ")
		{
			let w: Vec<u64> = rest.split(' ').filter_map(|x| x.parse().ok()).collect();
			if w.len() == 3 {fits_case(cx, w[0] as usize, w[1] as u32, w[2]);} else {cx.report.oracle_fail(input, "unrecognised replay input");}
			return;
		}
		if let Some(rest) = input.strip_prefix("refuse ")
		{
			let w: Vec<&str> = rest.split(' ').collect();
			refuse_case(cx, w[0], w.get(1).and_then(|x| x.parse().ok()).unwrap_or(0));
			return;
		}
		match input.strip_prefix("gen ").and_then(|s| u64::from_str_radix(s, 16).ok())
		{
			Some(seed) => check_case(cx, seed),
			None => cx.report.oracle_fail(input, "unrecognised replay input"),
		}
		return;
	}
	for name in CLI_CASES {cli_case(cx, name);}
	for name in REFUSE_CASES {for _ in 0..if cx.thorough() {40} else {6} {let seed = cx.rng.next(); refuse_case(cx, name, seed);}}
	for (len, gap) in [(4usize, 4u32), (3, 4), (12, 12), (10, 12), (256, 256), (100, 256), (5000, 5000), (1024, 1024), (1025, 2000)] {let seed = cx.rng.next(); fits_case(cx, len, gap, seed);}
	let n = if cx.thorough() {20_000} else {1_500};
	for _ in 0..n
	{
		let seed = cx.rng.next();
		check_case(cx, seed);
	}
	let _ = std::fs::remove_dir_all(cx.work.join("trias"));
}
