//! C14 — constant visibility follows file scope.
//!
//! Generated multi-file projects are written to disk and assembled with the REAL `Context` exactly as
//! `src/bin/assembler.rs` does (`assemble`, `close_segment`, `finalize`, `output().iter()`, `get_errors()`).
//! Observation: the bytes of every statement that USES a name and the diagnostics (kind + file + line).  A use is spelled
//! `.du32 <name>;` or as an instruction whose operand goes through one of the evaluator arms of `convert!` in
//! `src/arm6m/mod.rs` (Immediate: SVC / UDF.N / UDF.W / RSBS; ImmReg: MOVS / CMP; Offset: B / BKPT; Address: LDRB;
//! AddrOffset: LDR literal / LDR register+offset); the instruction's bytes are decoded back to the operand value.  Every
//! name of a project belongs to a value class, so that each of its definitions is encodable in each spelling used for it;
//! visibility semantics are those of `.du32`, so every spelling maps onto the `use` op of the model.
//!  * correspondence: the project is flattened into the op sequence of the Lean model `Trion.Scope`
//!    (`enter/exit/label/const/global/import/export/use/finalize`) and the model's log is compared with the
//!    observation (values per statement, diagnostics in order, result of `finalize`, final global table);
//!  * oracle: a reference interpretation of the scope RULES (README "Constants"/directive list and the
//!    property text) written over dictionaries per file — no table swapping, no task queues — decides which
//!    definition each use must see and which statement must be diagnosed; an independent declarative check
//!    verifies that every value seen in another file travelled along `.export/.global` (upwards) and
//!    `.import` (downwards) edges of the include tree, and that no value differs from a defining statement.
use std::collections::{BTreeMap, HashMap, HashSet};
use std::path::PathBuf;

use trion::arm6m::Arm6M;
use trion::arm6m::asm::{ImmReg, Instruction};
use trion::arm6m::reg::Register;
use trion::asm::constant::{Lookup, Realm};
use trion::asm::directive::DirectiveList;
use trion::asm::Context;

use crate::common::*;

const BASE: u32 = 0x2000_0000;
const REGS: [&str; 30] = ["R0", "R1", "R2", "R3", "R4", "R5", "R6", "R7", "R8", "R9", "R10", "R11", "R12", "R13", "SP", "R14", "LR",
	"R15", "PC", "APSR", "IAPSR", "EAPSR", "XPSR", "IPSR", "EPSR", "IEPSR", "MSP", "PSP", "PRIMASK", "CONTROL"];

fn is_reg(n: &str) -> bool {REGS.iter().any(|r| r.eq_ignore_ascii_case(n))}

/// how a use is written
#[derive(Clone, Copy, Debug, PartialEq, Eq)]
enum Sp
{
	Du32,
	// Immediate arm
	Svc, UdfN, UdfW, Rsbs,
	// ImmReg arm
	Movs, Cmp,
	// Offset arm
	B, Bkpt,
	// Address arm
	Ldrb,
	// AddrOffset arm
	LdrLit, LdrOff,
}

const ALL_SP: [Sp; 12] = [Sp::Du32, Sp::Svc, Sp::UdfN, Sp::UdfW, Sp::Rsbs, Sp::Movs, Sp::Cmp, Sp::B, Sp::Bkpt, Sp::Ldrb, Sp::LdrLit, Sp::LdrOff];

impl Sp
{
	fn code(self) -> &'static str
	{
		match self
		{
			Sp::Du32 => "du32", Sp::Svc => "svc", Sp::UdfN => "udfn", Sp::UdfW => "udfw", Sp::Rsbs => "rsbs", Sp::Movs => "movs", Sp::Cmp => "cmp",
			Sp::B => "b", Sp::Bkpt => "bkpt", Sp::Ldrb => "ldrb", Sp::LdrLit => "ldrlit", Sp::LdrOff => "ldroff",
		}
	}
	fn of_code(c: &str) -> Option<Sp> {ALL_SP.iter().copied().find(|s| s.code() == c)}
	fn arm(self) -> &'static str
	{
		match self
		{
			Sp::Du32 => ".du32", Sp::Svc | Sp::UdfN | Sp::UdfW | Sp::Rsbs => "Immediate", Sp::Movs | Sp::Cmp => "ImmReg", Sp::B | Sp::Bkpt => "Offset",
			Sp::Ldrb => "Address", Sp::LdrLit | Sp::LdrOff => "AddrOffset",
		}
	}
	fn size(self) -> u32 {match self {Sp::Du32 | Sp::UdfW => 4, _ => 2}}
	fn text(self, n: &str) -> String
	{
		match self
		{
			Sp::Du32 => format!(".du32 {n};"), Sp::Svc => format!("SVC {n};"), Sp::UdfN => format!("UDF.N {n};"), Sp::UdfW => format!("UDF.W {n};"),
			Sp::Rsbs => format!("RSBS R0, R1, {n};"), Sp::Movs => format!("MOVS R0, {n};"), Sp::Cmp => format!("CMP R0, {n};"), Sp::B => format!("B {n};"),
			Sp::Bkpt => format!("BKPT {n};"), Sp::Ldrb => format!("LDRB R0, [R1 + {n}];"), Sp::LdrLit => format!("LDR R0, {n};"), Sp::LdrOff => format!("LDR R0, [R1 + {n}];"),
		}
	}
	/// can the statement at `addr` hold the value?
	fn encodable(self, v: i64, addr: u32) -> bool
	{
		match self
		{
			Sp::Du32 => v >= 0 && v <= u32::MAX as i64,
			Sp::Svc | Sp::UdfN | Sp::Movs | Sp::Cmp => (0..=255).contains(&v),
			Sp::Bkpt => (0..=255).contains(&v) && v != 0xBE, // BKPT 0xBE is the padding pattern
			Sp::UdfW => (0..=65535).contains(&v),
			Sp::Rsbs => v == 0,
			Sp::B => {let off = v - (addr as i64 + 4); (0..=u32::MAX as i64).contains(&v) && (-2048..=2046).contains(&off) && off % 2 == 0},
			Sp::Ldrb => (0..=31).contains(&v),
			Sp::LdrLit => {let off = v - ((addr & !3) as i64 + 4); (0..=u32::MAX as i64).contains(&v) && (0..=1020).contains(&off) && off % 4 == 0},
			Sp::LdrOff => (0..=124).contains(&v) && v % 4 == 0,
		}
	}
	/// the operand value held by the bytes of the statement at `addr`
	fn read_back(self, bytes: &[u8], addr: u32) -> Option<u32>
	{
		if self == Sp::Du32 {return Some(u32::from_le_bytes([bytes[0], bytes[1], bytes[2], bytes[3]]));}
		let (n, i) = match guarded(|| Instruction::decode(bytes)) {Ok(Ok(r)) => r, _ => return None};
		if n != bytes.len() {return None;}
		match (self, i)
		{
			(Sp::Svc, Instruction::Svc{info}) => Some(info as u32),
			(Sp::UdfN, Instruction::Udf{info}) => Some(info as u32),
			(Sp::UdfW, Instruction::Udfw{info}) => Some(info as u32),
			(Sp::Rsbs, Instruction::Rsb{dst: Register::R0, lhs: Register::R1}) => Some(0),
			(Sp::Movs, Instruction::Mov{flags: true, dst: Register::R0, src: ImmReg::Immediate(v)}) => u32::try_from(v).ok(),
			(Sp::Cmp, Instruction::Cmp{lhs: Register::R0, rhs: ImmReg::Immediate(v)}) => u32::try_from(v).ok(),
			(Sp::B, Instruction::B{off, ..}) => u32::try_from(addr as i64 + 4 + off as i64).ok(),
			(Sp::Bkpt, Instruction::Bkpt{info}) => Some(info as u32),
			(Sp::Ldrb, Instruction::Ldrb{dst: Register::R0, addr: Register::R1, off: ImmReg::Immediate(v)}) => u32::try_from(v).ok(),
			(Sp::LdrLit, Instruction::Ldr{dst: Register::R0, addr: Register::PC, off: ImmReg::Immediate(v)}) => u32::try_from((addr & !3) as i64 + 4 + v as i64).ok(),
			(Sp::LdrOff, Instruction::Ldr{dst: Register::R0, addr: Register::R1, off: ImmReg::Immediate(v)}) => u32::try_from(v).ok(),
			_ => None,
		}
	}
}

/// value class of a name: every definition of the name takes a value of the class, every use a spelling of the class
#[derive(Clone, Copy, Debug, PartialEq, Eq)]
enum Class
{
	/// any value, labels allowed; `.du32` only
	Word,
	/// 0..=255 without 0xBE
	Byte,
	/// 0..=31
	Off5,
	/// multiples of 4 up to 124
	Off4,
	/// 0
	Zero,
	/// code addresses (labels allowed)
	Addr,
	/// word-aligned addresses shortly after the code
	Lit,
}

const CLASSES: [Class; 7] = [Class::Word, Class::Byte, Class::Off5, Class::Off4, Class::Zero, Class::Addr, Class::Lit];
/// no project's code is longer than this (checked when generating), which keeps class `Lit` in reach of every `LDR` literal
const MAX_CODE: u32 = 600;

impl Class
{
	fn spellings(self) -> &'static [Sp]
	{
		match self
		{
			Class::Word => &[Sp::Du32],
			Class::Byte => &[Sp::Du32, Sp::Svc, Sp::UdfN, Sp::UdfW, Sp::Movs, Sp::Cmp, Sp::Bkpt],
			Class::Off5 => &[Sp::Ldrb, Sp::Svc, Sp::Movs, Sp::Bkpt, Sp::Du32, Sp::Ldrb],
			Class::Off4 => &[Sp::LdrOff, Sp::UdfN, Sp::Cmp, Sp::UdfW, Sp::LdrOff],
			Class::Zero => &[Sp::Rsbs, Sp::Rsbs, Sp::Svc, Sp::Ldrb, Sp::LdrOff, Sp::Movs, Sp::Du32],
			Class::Addr => &[Sp::B, Sp::Du32, Sp::B],
			Class::Lit => &[Sp::LdrLit, Sp::B, Sp::Du32, Sp::LdrLit],
		}
	}
	fn labels(self) -> bool {matches!(self, Class::Word | Class::Addr)}
	/// the `k`-th definition value of a name of this class
	fn value(self, k: u64, tag: u64, rng: &mut Rng) -> i64
	{
		match self
		{
			Class::Word => value_for(tag, rng),
			Class::Byte => {let v = ((7 + 13 * k) % 251) as i64; if v == 0xBE {251} else {v}},
			Class::Off5 => ((3 + 5 * k) % 32) as i64,
			Class::Off4 => (4 * ((1 + 3 * k) % 32)) as i64,
			Class::Zero => 0,
			Class::Addr => BASE as i64 + 2 * ((5 + 7 * k) % 300) as i64,
			Class::Lit => BASE as i64 + (MAX_CODE as i64 + 4) + 4 * ((k * 5) % 105) as i64,
		}
	}
}

#[derive(Clone, Debug, PartialEq)]
enum St
{
	Const(String, i64),
	Label(String),
	Global(String),
	Import(String),
	Export(String),
	Use(String, Sp),
	Include(usize),
}

/// file 0 is the root; every other file is included exactly once
#[derive(Clone, Debug, PartialEq)]
struct Project
{
	files: Vec<Vec<St>>,
}

fn tag_of(file: usize, idx: usize) -> u64
{
	// root has the `.addr` line first
	(file as u64) * 1000 + idx as u64 + if file == 0 {2} else {1}
}
fn file_of_tag(tag: u64) -> usize {(tag / 1000) as usize}
fn line_of_tag(tag: u64) -> u32 {(tag % 1000) as u32}

impl Project
{
	fn encode(&self) -> String
	{
		self.files.iter().map(|f| f.iter().map(|s| match s
		{
			St::Const(n, v) => format!("c:{n}:{v}"),
			St::Label(n) => format!("l:{n}"),
			St::Global(n) => format!("g:{n}"),
			St::Import(n) => format!("m:{n}"),
			St::Export(n) => format!("e:{n}"),
			St::Use(n, Sp::Du32) => format!("u:{n}"),
			St::Use(n, sp) => format!("u:{n}:{}", sp.code()),
			St::Include(i) => format!("i:{i}"),
		}).collect::<Vec<_>>().join(",")).collect::<Vec<_>>().join("/")
	}

	fn decode(s: &str) -> Option<Project>
	{
		let mut files = Vec::new();
		for f in s.split('/')
		{
			let mut sts = Vec::new();
			for st in f.split(',').filter(|x| !x.is_empty())
			{
				let w: Vec<&str> = st.split(':').collect();
				sts.push(match w.as_slice()
				{
					["c", n, v] => St::Const((*n).to_owned(), v.parse().ok()?),
					["l", n] => St::Label((*n).to_owned()),
					["g", n] => St::Global((*n).to_owned()),
					["m", n] => St::Import((*n).to_owned()),
					["e", n] => St::Export((*n).to_owned()),
					["u", n] => St::Use((*n).to_owned(), Sp::Du32),
					["u", n, sp] => St::Use((*n).to_owned(), Sp::of_code(sp)?),
					["i", i] => St::Include(i.parse().ok()?),
					_ => return None,
				});
			}
			files.push(sts);
		}
		Some(Project{files})
	}

	fn text(&self, file: usize) -> String
	{
		let mut o = String::new();
		if file == 0 {o.push_str(&format!(".addr 0x{BASE:08X};\n"));}
		for s in &self.files[file]
		{
			match s
			{
				St::Const(n, v) => o.push_str(&format!(".const {n}, {v};\n")),
				St::Label(n) => o.push_str(&format!("{n}:\n")),
				St::Global(n) => o.push_str(&format!(".global {n};\n")),
				St::Import(n) => o.push_str(&format!(".import {n};\n")),
				St::Export(n) => o.push_str(&format!(".export {n};\n")),
				St::Use(n, sp) => {o.push_str(&sp.text(n)); o.push('\n');},
				St::Include(i) => o.push_str(&format!(".include \"f{i}.asm\";\n")),
			}
		}
		o
	}

	fn parent_map(&self) -> Vec<Option<usize>>
	{
		let mut p = vec![None; self.files.len()];
		for (fi, f) in self.files.iter().enumerate()
		{
			for s in f {if let St::Include(c) = s {if *c < p.len() {p[*c] = Some(fi);}}}
		}
		p
	}

	/// well-formed: an include tree (every file but the root included exactly once, from a lower-numbered file)
	fn is_tree(&self) -> bool
	{
		let mut seen = vec![0usize; self.files.len()];
		for (fi, f) in self.files.iter().enumerate()
		{
			for s in f
			{
				if let St::Include(c) = s
				{
					if *c >= self.files.len() || *c <= fi {return false;}
					seen[*c] += 1;
				}
			}
		}
		seen[0] == 0 && seen[1..].iter().all(|&n| n == 1)
	}
}

/// statement in processing order, with everything that is static about it
#[derive(Clone, Debug)]
struct Flat
{
	ops: Vec<String>,
	/// (tag, address, spelling) of the using statements in processing order
	uses: Vec<(u64, u32, Sp)>,
	/// value of each defining statement: tag -> (name, value)
	defs: BTreeMap<u64, (String, i64)>,
}

fn flatten(p: &Project) -> Flat
{
	fn go(p: &Project, file: usize, inc_tag: u64, fl: &mut Flat, addr: &mut u32)
	{
		fl.ops.push(format!("en:{inc_tag}"));
		for (i, s) in p.files[file].iter().enumerate()
		{
			let tag = tag_of(file, i);
			match s
			{
				St::Const(n, v) => {fl.ops.push(format!("co:{n}:{v}:{tag}")); fl.defs.insert(tag, (n.clone(), *v));},
				St::Label(n) => {fl.ops.push(format!("la:{n}:{}:{tag}", *addr)); fl.defs.insert(tag, (n.clone(), *addr as i64));},
				St::Global(n) => fl.ops.push(format!("gl:{n}:{tag}")),
				St::Import(n) => fl.ops.push(format!("im:{n}:{tag}")),
				St::Export(n) => fl.ops.push(format!("xp:{n}:{tag}")),
				St::Use(n, sp) => {fl.ops.push(format!("us:{n}:{tag}")); fl.uses.push((tag, *addr, *sp)); *addr += sp.size();},
				St::Include(c) => go(p, *c, tag, fl, addr),
			}
		}
		fl.ops.push("ex".to_owned());
	}
	let mut fl = Flat{ops: Vec::new(), uses: Vec::new(), defs: BTreeMap::new()};
	let mut addr = BASE;
	go(p, 0, 0, &mut fl, &mut addr);
	fl.ops.push("fi".to_owned());
	fl
}

// ---------------------------------------------------------------------------------------------------------
// observation of the real code

#[derive(Clone, Debug, Default, PartialEq)]
struct Observed
{
	panic: Option<String>,
	/// tag -> value for every `.du32` whose bytes are not the padding
	values: BTreeMap<u64, u32>,
	/// number of using statements that were executed (their bytes are in the image)
	executed: usize,
	/// (tag, kind) in the order of `get_errors()`
	diags: Vec<(u64, String)>,
	final_ok: bool,
	globals: Vec<String>,
	has_file: bool,
}

/// kind of a diagnostic from the STRUCTURE of the error value (errkind.rs: downcasts, no message text): the innermost error decides
fn kind_of(e: &(dyn std::error::Error + 'static)) -> String
{
	use crate::errkind::{diag_kind, inner_kind, innermost};
	let top = diag_kind(e);
	if top.starts_with("dir.argtype.") || top.starts_with("instr.argtype.") {return "argType".to_owned();}
	let k = inner_kind(innermost(e));
	let table: [(&str, &str); 14] = [("const.reserved", "reserved"), ("duplicate.global", "dupGlobal"), ("duplicate.local", "dupLocal"),
		("constdir.duplicate", "dupConst"), ("nosuch.global", "nfGlobal"), ("nosuch.local", "nfLocal"),
		("global.deferred.global", "defGlobal"), ("global.deferred.local", "defLocal"), ("data.range.", "range"),
		("asm.valuerange.", "valueRange"), ("const.range.", "labelRange"), ("const.alignment.", "labelAlign"), ("include.failed", "asmFailed"), ("include.nosuchfile", "noFile")];
	for (pre, name) in table {if k.starts_with(pre) {return name.to_owned();}}
	format!("other[{top}]")
}

fn observe(p: &Project, dir: &PathBuf, fl: &Flat, names: &[String]) -> Observed {observe_roots(p, dir, fl, names, &[0])}

/// `roots`: the files handed to `Context::assemble` at top level, one after the other, on ONE Context
fn observe_roots(p: &Project, dir: &PathBuf, fl: &Flat, names: &[String], roots: &[usize]) -> Observed {observe_texts(p, dir, fl, names, roots, None)}

/// `texts`: the source of each file when it is not the canonical rendering (list forms)
fn observe_texts(p: &Project, dir: &PathBuf, fl: &Flat, names: &[String], roots: &[usize], texts: Option<&[String]>) -> Observed
{
	std::fs::create_dir_all(dir).unwrap();
	for i in 0..p.files.len() {std::fs::write(dir.join(format!("f{i}.asm")), match texts {Some(t) => t[i].clone(), None => p.text(i)}).unwrap();}
	let res = guarded(||
	{
		let directives = DirectiveList::generate();
		let mut ctx = Context::new(&Arm6M, &directives);
		let mut between_ok = true;
		for r in roots
		{
			let root = dir.join(format!("f{r}.asm"));
			let data = std::fs::read(&root).unwrap();
			drop(ctx.assemble(data.as_ref(), root.clone()));
			// between two top-level files no file is current
			between_ok &= !ctx.has_curr_file();
		}
		let mut o = Observed::default();
		if !between_ok {o.diags.push((0, "file-current-between-top-level-files".to_owned()));}
		if let Err(e) = ctx.close_segment()
		{
			o.diags.push((0, format!("close[{e}]")));
		}
		o.final_ok = ctx.finalize();
		let mut image: HashMap<u32, u8> = HashMap::new();
		for (range, seg) in ctx.output().iter()
		{
			for (k, b) in seg.iter().enumerate() {image.insert(range.get_first() + k as u32, *b);}
		}
		for (tag, addr, sp) in &fl.uses
		{
			let bytes: Vec<u8> = (0..sp.size()).filter_map(|k| image.get(&(addr + k)).copied()).collect();
			if bytes.len() as u32 != sp.size() {continue;}
			o.executed += 1;
			if bytes.iter().all(|b| *b == 0xBE) {continue;}
			match sp.read_back(&bytes, *addr)
			{
				Some(v) => {o.values.insert(*tag, v);},
				None => o.diags.push((*tag, format!("bytes[{}]", hex(&bytes)))),
			}
		}
		if image.len() as u32 != fl.uses.iter().take(o.executed).map(|u| u.2.size()).sum::<u32>()
		{
			o.diags.push((0, format!("image[{}-bytes]", image.len())));
		}
		for err in ctx.get_errors()
		{
			let name = err.name.as_str();
			let file = name.rsplit('/').next().and_then(|f| f.strip_prefix('f')).and_then(|f| f.strip_suffix(".asm")).and_then(|f| f.parse::<u64>().ok());
			let tag = match file {Some(f) => f * 1000 + err.line as u64, None => 999_999};
			o.diags.push((tag, kind_of(&err.value)));
		}
		for n in names
		{
			match ctx.get_constant(n, Realm::Global)
			{
				Lookup::NotFound => (),
				Lookup::Deferred => o.globals.push(format!("{n}=?")),
				Lookup::Found(v) => o.globals.push(format!("{n}={v}")),
			}
		}
		o.globals.sort();
		o.has_file = ctx.has_curr_file();
		o
	});
	match res
	{
		Ok(o) => o,
		Err(msg) => Observed{panic: Some(msg), ..Observed::default()},
	}
}

fn canon_obs(o: &Observed) -> String
{
	if let Some(p) = &o.panic {return format!("PANIC: {p}");}
	format!("V[{}] D[{}] F:{} G[{}] depth0:{}",
		o.values.iter().map(|(t, v)| format!("{t}:{v}")).collect::<Vec<_>>().join(" "),
		o.diags.iter().map(|(t, k)| format!("{t}:{k}")).collect::<Vec<_>>().join(" "),
		if o.final_ok {"ok"} else {"fail"}, o.globals.join(" "), !o.has_file)
}

/// the model's reply in the same canonical form; also returns the stage histogram (immediate, local, global)
fn canon_model(reply: &str) -> (String, [u64; 3])
{
	let mut stages = [0u64; 3];
	if reply.starts_with("PANIC") {return (format!("PANIC: {}", &reply[5..].trim()), stages);}
	let parts: Vec<&str> = reply.split('|').collect();
	if parts.len() != 3 {return (format!("unparsed[{reply}]"), stages);}
	let mut values: BTreeMap<u64, String> = BTreeMap::new();
	let mut diags = Vec::new();
	let mut fin = "none".to_owned();
	for w in parts[0].split(' ').filter(|w| !w.is_empty())
	{
		let f: Vec<&str> = w.split(':').collect();
		match f.as_slice()
		{
			["V", t, v, st] =>
			{
				values.insert(t.parse().unwrap_or(0), (*v).to_owned());
				if let Ok(i) = st.parse::<usize>() {if i < 3 {stages[i] += 1;}}
			},
			["D", t, k] => diags.push(format!("{t}:{k}")),
			["F", r] => fin = (*r).to_owned(),
			_ => diags.push(format!("?{w}")),
		}
	}
	let mut globals: Vec<String> = parts[1].split(' ').filter(|w| !w.is_empty()).map(str::to_owned).collect();
	globals.sort();
	let st: Vec<&str> = parts[2].split(' ').filter(|w| !w.is_empty()).collect();
	let depth0 = st.as_slice() == ["0", "none", "0", "running"];
	(format!("V[{}] D[{}] F:{} G[{}] depth0:{}",
		values.iter().map(|(t, v)| format!("{t}:{v}")).collect::<Vec<_>>().join(" "), diags.join(" "), fin, globals.join(" "), depth0), stages)
}

// ---------------------------------------------------------------------------------------------------------
// reference interpretation of the scope rules

#[derive(Clone, Debug, PartialEq)]
enum Entry
{
	/// announced (by `.global`, or imported while the includer only announced it) but no value yet
	Declared,
	/// value and the tag of the defining statement
	Valued(i64, u64),
}

type Scope = HashMap<String, Entry>;

#[derive(Clone, Debug, PartialEq)]
enum Verdict
{
	/// every use resolved: use tag -> (value, defining tag)
	Clean(BTreeMap<u64, (i64, u64)>),
	/// the statement that the rules require to be diagnosed, and the rule
	Violation(u64, &'static str),
	/// a construct about which the rules are silent (kept out of the verdict, counted)
	Unspecified(&'static str),
}

struct RefInt<'p>
{
	p: &'p Project,
	fl: &'p Flat,
	resolved: BTreeMap<u64, (i64, u64)>,
}

enum Stop {Violation(u64, &'static str), Unspecified(&'static str)}

impl<'p> RefInt<'p>
{
	/// returns the uses that this file hands to its includer (name announced but never valued here)
	fn file(&mut self, file: usize, parent: &mut Scope) -> Result<Vec<(u64, String)>, Stop>
	{
		let mut scope: Scope = HashMap::new();
		let mut pending_uses: Vec<(u64, String)> = Vec::new();
		let mut pending_globals: Vec<(u64, String)> = Vec::new();
		let mut escalated_in: Vec<(u64, String)> = Vec::new();
		let mut imported_declared: HashSet<String> = HashSet::new();
		for (i, s) in self.p.files[file].iter().enumerate()
		{
			let tag = tag_of(file, i);
			match s
			{
				St::Const(n, _) | St::Label(n) =>
				{
					let v = self.fl.defs[&tag].1;
					if is_reg(n) {return Err(Stop::Violation(tag, "register name"));}
					if let Some(Entry::Valued(..)) = scope.get(n) {return Err(Stop::Violation(tag, "second definition in one scope"));}
					if imported_declared.contains(n) {return Err(Stop::Unspecified("definition of a name imported while still unvalued"));}
					scope.insert(n.clone(), Entry::Valued(v, tag));
				},
				St::Global(n) =>
				{
					if is_reg(n) {return Err(Stop::Violation(tag, "register name"));}
					if parent.contains_key(n) {return Err(Stop::Violation(tag, "export over an existing name"));}
					match scope.get(n)
					{
						Some(Entry::Valued(v, d)) => {parent.insert(n.clone(), Entry::Valued(*v, *d));},
						_ =>
						{
							parent.insert(n.clone(), Entry::Declared);
							scope.entry(n.clone()).or_insert(Entry::Declared);
							pending_globals.push((tag, n.clone()));
						},
					}
				},
				St::Import(n) =>
				{
					match parent.get(n).cloned()
					{
						None => return Err(Stop::Violation(tag, "import of a missing name")),
						Some(Entry::Declared) =>
						{
							if scope.contains_key(n) {return Err(Stop::Violation(tag, "second definition in one scope"));}
							scope.insert(n.clone(), Entry::Declared);
							imported_declared.insert(n.clone());
						},
						Some(Entry::Valued(v, d)) =>
						{
							if let Some(Entry::Valued(..)) = scope.get(n) {return Err(Stop::Violation(tag, "second definition in one scope"));}
							if imported_declared.contains(n) {return Err(Stop::Unspecified("definition of a name imported while still unvalued"));}
							scope.insert(n.clone(), Entry::Valued(v, d));
						},
					}
				},
				St::Export(n) =>
				{
					match scope.get(n).cloned()
					{
						None | Some(Entry::Declared) => return Err(Stop::Violation(tag, "export of an unvalued name")),
						Some(Entry::Valued(v, d)) =>
						{
							if let Some(Entry::Valued(..)) = parent.get(n) {return Err(Stop::Violation(tag, "export over an existing name"));}
							parent.insert(n.clone(), Entry::Valued(v, d));
						},
					}
				},
				St::Use(n, sp) =>
				{
					if is_reg(n)
					{
						// a register is a legitimate operand of some instructions: not a use of a constant at all
						if *sp != Sp::Du32 {return Err(Stop::Unspecified("register name as an instruction operand"));}
						return Err(Stop::Violation(tag, "use of a register as a value"));
					}
					pending_uses.push((tag, n.clone()));
				},
				St::Include(c) =>
				{
					let up = self.file(*c, &mut scope)?;
					escalated_in.extend(up);
				},
			}
		}
		// end of the file: announced globals must have received a value; uses see the final scope
		let mut order: Vec<(u64, bool, String)> = Vec::new();
		for (t, n) in pending_globals {order.push((t, true, n));}
		for (t, n) in pending_uses {order.push((t, false, n));}
		order.sort();
		let mut up = Vec::new();
		for (tag, is_global, n) in order
		{
			if is_global
			{
				match scope.get(&n).cloned()
				{
					Some(Entry::Valued(v, d)) =>
					{
						if let Some(Entry::Valued(..)) = parent.get(&n) {return Err(Stop::Violation(tag, "export over an existing name"));}
						parent.insert(n.clone(), Entry::Valued(v, d));
					},
					_ => return Err(Stop::Violation(tag, "export of an unvalued name")),
				}
			}
			else
			{
				match scope.get(&n).cloned()
				{
					Some(Entry::Valued(v, d)) => self.use_value(tag, v, d)?,
					Some(Entry::Declared) => up.push((tag, n)),
					None => return Err(Stop::Violation(tag, "use of a name that is not visible")),
				}
			}
		}
		// uses handed up by included files see this file's final scope
		for (tag, n) in escalated_in
		{
			match scope.get(&n).cloned()
			{
				Some(Entry::Valued(v, d)) => self.use_value(tag, v, d)?,
				_ => return Err(Stop::Violation(tag, "use of a name that is not visible")),
			}
		}
		Ok(up)
	}

	fn use_value(&mut self, tag: u64, v: i64, d: u64) -> Result<(), Stop>
	{
		let (_, addr, sp) = *self.fl.uses.iter().find(|u| u.0 == tag).expect("use tag");
		if !sp.encodable(v, addr)
		{
			return Err(Stop::Violation(tag, if sp == Sp::Du32 {"value out of the .du32 range"} else {"value not encodable in the instruction"}));
		}
		self.resolved.insert(tag, (v, d));
		Ok(())
	}
}

fn reference(p: &Project, fl: &Flat) -> Verdict
{
	let mut r = RefInt{p, fl, resolved: BTreeMap::new()};
	let mut top: Scope = HashMap::new();
	match r.file(0, &mut top)
	{
		Err(Stop::Violation(t, w)) => Verdict::Violation(t, w),
		Err(Stop::Unspecified(w)) => Verdict::Unspecified(w),
		Ok(up) =>
		{
			// uses handed to the top level see the global table, which nothing can give a value after the root file ended
			if let Some((tag, n)) = up.first()
			{
				match top.get(n)
				{
					Some(Entry::Valued(..)) => Verdict::Unspecified("top-level resolution of a root-file use"),
					_ => Verdict::Violation(*tag, "use of a name that is not visible"),
				}
			}
			else {Verdict::Clean(r.resolved)}
		},
	}
}

/// declarative isolation check: the value of use `tag` (file G, name n) comes from a definition of n in some file F
/// such that every upward edge X -> parent(X) on the tree path F..G is licensed by `.export n` / `.global n` in X and every
/// downward edge parent(Y) -> Y by `.import n` in Y
fn licensed(p: &Project, parents: &[Option<usize>], name: &str, from: usize, to: usize) -> bool
{
	let chain = |mut f: usize| {let mut c = vec![f]; while let Some(q) = parents[f] {c.push(q); f = q;} c};
	let (cf, ct) = (chain(from), chain(to));
	let lca = match cf.iter().find(|x| ct.contains(x)) {Some(l) => *l, None => return false};
	let has = |file: usize, f: &dyn Fn(&St) -> bool| p.files[file].iter().any(|s| f(s));
	for x in cf.iter().take_while(|x| **x != lca)
	{
		if !has(*x, &|s| matches!(s, St::Export(n) | St::Global(n) if n == name)) {return false;}
	}
	for y in ct.iter().take_while(|y| **y != lca)
	{
		if !has(*y, &|s| matches!(s, St::Import(n) if n == name)) {return false;}
	}
	true
}

// ---------------------------------------------------------------------------------------------------------
// generators

const NAMES: [&str; 4] = ["a", "b", "c", "d"];
const REG_NAMES: [&str; 8] = ["R0", "sp", "Lr", "pc", "APSR", "r13", "control", "R12"];

fn value_for(tag: u64, rng: &mut Rng) -> i64
{
	match rng.below(40)
	{
		0 => (1i64 << 32) + tag as i64,
		1 => -(tag as i64) - 1,
		2 => 0,
		3 => u32::MAX as i64,
		_ => 100_000 + tag as i64,
	}
}

/// value classes of the names of one generated project, and how many definitions each name has received
struct Gen
{
	class: HashMap<String, Class>,
	count: HashMap<String, u64>,
}

impl Gen
{
	fn new(rng: &mut Rng) -> Gen
	{
		let mut class = HashMap::new();
		let all_word = rng.chance(1, 5);
		for n in NAMES {class.insert(n.to_owned(), if all_word {Class::Word} else {*rng.pick(&CLASSES)});}
		Gen{class, count: HashMap::new()}
	}
	fn class_of(&self, n: &str) -> Class {self.class.get(n).copied().unwrap_or(Class::Word)}
	fn def(&mut self, n: String, tag: u64, rng: &mut Rng) -> St
	{
		let c = self.class_of(&n);
		let k = {let e = self.count.entry(n.clone()).or_insert(0); *e += 1; *e - 1};
		if c.labels() && rng.chance(1, 3) {St::Label(n)} else {let v = c.value(k, tag, rng); St::Const(n, v)}
	}
	fn use_(&self, n: String, rng: &mut Rng) -> St
	{
		let sp = if is_reg(&n) {Sp::Du32} else {*rng.pick(self.class_of(&n).spellings())};
		St::Use(n, sp)
	}
}

fn code_size(p: &Project) -> u32
{
	p.files.iter().flatten().map(|s| match s {St::Use(_, sp) => sp.size(), _ => 0}).sum()
}

/// random project guided by the reference rules: most statements are chosen so that they are legal where they stand
fn gen_random(rng: &mut Rng) -> Project
{
	loop
	{
		let p = gen_random_once(rng);
		if code_size(&p) <= MAX_CODE {return p;}
	}
}

fn gen_random_once(rng: &mut Rng) -> Project
{
	let mut g = Gen::new(rng);
	let max_files = 1 + rng.below(9) as usize;
	let max_depth = 1 + rng.below(4) as usize;
	let legal_pct = *rng.pick(&[100u64, 100, 95, 90, 70, 30]);
	let mut p = Project{files: vec![Vec::new()]};
	// scopes[k] = what the generator believes about the names of the file at nesting level k (level 0 = top-level table)
	fn gen_file(p: &mut Project, g: &mut Gen, file: usize, depth: usize, max_depth: usize, max_files: usize, legal_pct: u64, scopes: &mut Vec<HashMap<String, bool>>, rng: &mut Rng)
	{
		scopes.push(HashMap::new());
		let n_st = rng.below(7) as usize + if file == 0 {1} else {0};
		let mut announced: Vec<String> = Vec::new();
		let mut used: Vec<String> = Vec::new();
		for _ in 0..n_st
		{
			let idx = p.files[file].len();
			if idx > 900 {break;}
			let tag = tag_of(file, idx);
			let lvl = scopes.len() - 1;
			let legal = rng.below(100) < legal_pct;
			let any_name = |rng: &mut Rng| if rng.chance(1, 12) {(*rng.pick(&REG_NAMES)).to_owned()} else {(*rng.pick(&NAMES)).to_owned()};
			let kind = rng.below(16);
			let st = match kind
			{
				0..=2 =>
				{
					// definition
					let free: Vec<&str> = NAMES.iter().copied().filter(|n| scopes[lvl].get(*n) != Some(&true)).collect();
					let n = if legal && !free.is_empty() {(*rng.pick(&free)).to_owned()} else {any_name(rng)};
					scopes[lvl].insert(n.clone(), true);
					g.def(n, tag, rng)
				},
				3..=4 =>
				{
					let free: Vec<&str> = NAMES.iter().copied().filter(|n| !scopes[lvl - 1].contains_key(*n)).collect();
					let n = if legal && !free.is_empty() {(*rng.pick(&free)).to_owned()} else {any_name(rng)};
					let valued = scopes[lvl].get(&n) == Some(&true);
					scopes[lvl - 1].insert(n.clone(), valued);
					if !valued {scopes[lvl].entry(n.clone()).or_insert(false); announced.push(n.clone());}
					St::Global(n)
				},
				5..=6 =>
				{
					let ok: Vec<&str> = NAMES.iter().copied().filter(|n| scopes[lvl - 1].contains_key(*n) && !scopes[lvl].contains_key(*n)).collect();
					let n = if legal && !ok.is_empty() {(*rng.pick(&ok)).to_owned()} else if legal {continue} else {any_name(rng)};
					let v = scopes[lvl - 1].get(&n).copied().unwrap_or(false);
					scopes[lvl].insert(n.clone(), v);
					St::Import(n)
				},
				7..=8 =>
				{
					let ok: Vec<&str> = NAMES.iter().copied().filter(|n| scopes[lvl].get(*n) == Some(&true) && scopes[lvl - 1].get(*n) != Some(&true)).collect();
					let n = if legal && !ok.is_empty() {(*rng.pick(&ok)).to_owned()} else if legal {continue} else {any_name(rng)};
					scopes[lvl - 1].insert(n.clone(), true);
					St::Export(n)
				},
				9..=12 =>
				{
					let n = if legal {(*rng.pick(&NAMES)).to_owned()} else {any_name(rng)};
					used.push(n.clone());
					g.use_(n, rng)
				},
				_ =>
				{
					if depth < max_depth && p.files.len() < max_files && p.files[file].iter().filter(|s| matches!(s, St::Include(..))).count() < 3
					{
						let c = p.files.len();
						p.files.push(Vec::new());
						p.files[file].push(St::Include(c));
						gen_file(p, g, c, depth + 1, max_depth, max_files, legal_pct, scopes, rng);
						continue;
					}
					else {continue}
				},
			};
			p.files[file].push(st);
		}
		// close the file legally: announced names and used names get a definition (mostly)
		let lvl = scopes.len() - 1;
		let mut need: Vec<String> = announced;
		need.extend(used);
		for n in need
		{
			if scopes[lvl].get(&n) != Some(&true) && rng.below(100) < legal_pct.max(50) && !is_reg(&n)
			{
				let idx = p.files[file].len();
				let tag = tag_of(file, idx);
				scopes[lvl].insert(n.clone(), true);
				if scopes[lvl - 1].get(&n) == Some(&false) {scopes[lvl - 1].insert(n.clone(), true);}
				let st = g.def(n, tag, rng);
				p.files[file].push(st);
			}
		}
		scopes.pop();
	}
	let mut scopes = vec![HashMap::new()];
	gen_file(&mut p, &mut g, 0, 1, max_depth, max_files, legal_pct, &mut scopes, rng);
	p
}

/// projects built around names that are announced by the includer (`.global`) before the `.include`, imported by the
/// child while still unvalued, used there, and defined by the includer afterwards (the use is resolved by the task that
/// runs in the includer); with random variations that break the pattern
fn gen_deferred(rng: &mut Rng) -> Project
{
	let depth = 1 + rng.below(3) as usize;
	let mut files: Vec<Vec<St>> = vec![Vec::new(); depth + 1];
	let n = (*rng.pick(&NAMES)).to_owned();
	let mut g = Gen::new(rng);
	for k in 0..=depth
	{
		let f = &mut files[k];
		if k == 0 || rng.chance(1, 3) {f.push(St::Global(n.clone()));} else {f.push(St::Import(n.clone()));}
		if rng.chance(1, 2) {f.push(g.use_(n.clone(), rng));}
		if k < depth {f.push(St::Include(k + 1));}
		if rng.chance(1, 3) {f.push(g.use_(n.clone(), rng));}
		let define = if k == 0 {rng.chance(9, 10)} else {rng.chance(1, 2)};
		if define
		{
			let tag = tag_of(k, f.len());
			f.push(g.def(n.clone(), tag, rng));
		}
		if rng.chance(1, 3) {f.push(g.use_(n.clone(), rng));}
		if rng.chance(1, 8) {f.push(St::Export(n.clone()));}
	}
	Project{files}
}

/// all two-file projects `pre ++ [include] ++ post` / `child` over one name
fn enumerate_two_files(max_child: usize, max_pre: usize, max_post: usize, sp: Sp, vals: [i64; 3], labels: bool) -> Vec<Project>
{
	fn seqs(alpha: &[St], max: usize) -> Vec<Vec<St>>
	{
		let mut out = vec![Vec::new()];
		let mut last = vec![Vec::new()];
		for _ in 0..max
		{
			let mut next = Vec::new();
			for s in &last {for a in alpha {let mut t: Vec<St> = s.clone(); t.push(a.clone()); next.push(t);}}
			out.extend(next.iter().cloned());
			last = next;
		}
		out
	}
	let x = || "x".to_owned();
	let mut child_alpha = vec![St::Const(x(), vals[0]), St::Global(x()), St::Import(x()), St::Export(x()), St::Use(x(), sp)];
	let pre_alpha = [St::Const(x(), vals[1]), St::Global(x()), St::Use(x(), sp), St::Export(x())];
	let mut post_alpha = vec![St::Const(x(), vals[2]), St::Use(x(), sp)];
	if labels {child_alpha.push(St::Label(x())); post_alpha.push(St::Label(x()));}
	let mut out = Vec::new();
	for pre in seqs(&pre_alpha, max_pre)
	{
		for post in seqs(&post_alpha, max_post)
		{
			for child in seqs(&child_alpha, max_child)
			{
				let mut root = pre.clone();
				root.push(St::Include(1));
				root.extend(post.iter().cloned());
				out.push(Project{files: vec![root, child]});
			}
		}
	}
	out
}

/// hand-written projects for the collision patterns and placements named by the property
fn scenarios() -> Vec<Project>
{
	let texts = [
		// same name in siblings (free reuse)
		"i:1,i:2,u:a,c:a:3/c:a:1,u:a/c:a:2,u:a",
		// same name in parent and child
		"c:a:1,i:1,u:a/c:a:2,u:a",
		// double definition
		"c:a:1,c:a:2", "l:a,l:a", "c:a:1,l:a", "i:1/c:a:1,u:a,c:a:2",
		// export over existing
		"c:a:1,i:1/c:a:2,e:a", "i:1,i:2/c:a:1,e:a/c:a:2,e:a", "i:1/c:a:1,e:a,e:a", "i:1/c:a:1,g:a,e:a", "i:1/g:a,c:a:1,e:a", "i:1/c:a:1,e:a,g:a",
		"c:a:1,i:1/g:a,c:a:2", "g:a,i:1,c:a:5/g:a,c:a:2",
		// import of missing
		"i:1/m:a", "i:1,c:a:1/m:a,u:a", "i:1/i:2/c:a:1,i:3/m:a,u:a",
		// import found / chain down
		"c:a:1,i:1/m:a,u:a,i:2/m:a,u:a,i:3/m:a,u:a", "c:a:1,i:1/u:a,i:2/m:a",
		// export of deferred / unvalued
		"i:1/g:a,e:a,c:a:1", "i:1/e:a", "i:1/g:a", "g:a", "g:a,c:a:1,u:a", "c:a:1,g:a,u:a", "g:a,u:a",
		// global chains up
		"i:1,u:a/i:2,g:a,u:a/i:3,g:a/g:a,c:a:9", "i:1,u:a/i:2,u:a/g:a,l:a", "u:a,i:1/u:a,i:2,e:a/u:a,c:a:4,e:a",
		// deferred import resolved by the includer later (global stage)
		"g:a,i:1,c:a:5/m:a,u:a", "g:a,i:1,c:a:5/m:a,u:a,i:2/m:a,u:a", "g:a,i:1/m:a,u:a",
		// definition of a name imported while unvalued
		"g:a,i:1,c:a:5/m:a,c:a:7,u:a",
		// register names
		"c:R0:1", "l:sp", "g:pc", "m:lr", "e:R12", "u:R0", "i:1/c:control:1", "i:1/g:APSR",
		// uses before / after definitions, labels
		"u:a,l:a,u:a,l:b,u:b", "u:a", "i:1/u:a", "i:1,c:a:1/u:a",
		// range
		"c:a:4294967296,u:a", "c:a:-1,u:a", "u:a,c:a:-1", "c:a:4294967295,u:a",
		// a name only the includer defines, used in the child through every evaluator arm (never visible there)
		"c:a:7,i:1/u:a:svc", "c:a:7,i:1/u:a:udfn", "c:a:7,i:1/u:a:udfw", "c:a:0,i:1/u:a:rsbs", "c:a:7,i:1/u:a:movs", "c:a:7,i:1/u:a:cmp",
		"c:a:536870920,i:1/u:a:b", "c:a:7,i:1/u:a:bkpt", "c:a:7,i:1/u:a:ldrb", "c:a:536871520,i:1/u:a:ldrlit", "c:a:8,i:1/u:a:ldroff",
		"i:1,c:a:7/u:a:svc", "i:1,c:a:0/u:a:rsbs,u:a:udfw",
		// … imported, defined later, exported upwards, deferred through the includer
		"c:a:7,i:1/m:a,u:a:svc,u:a:movs,u:a:bkpt,u:a:ldrb", "u:a:udfw,i:1,u:a:cmp/u:a:svc,c:a:9,e:a", "g:a,i:1,c:a:8/m:a,u:a:ldroff,u:a:udfn",
		"u:a:b,l:a,u:a:b,i:1/m:a,u:a:b", "i:1,u:a:ldrlit/c:a:536871520,g:a,u:a:ldrlit",
	];
	texts.iter().map(|t| Project::decode(t).unwrap()).collect()
}

// ---------------------------------------------------------------------------------------------------------

fn names_of(p: &Project) -> Vec<String>
{
	let mut s: HashSet<String> = HashSet::new();
	for f in &p.files
	{
		for st in f
		{
			match st
			{
				St::Const(n, _) | St::Label(n) | St::Global(n) | St::Import(n) | St::Export(n) | St::Use(n, _) => {s.insert(n.clone());},
				St::Include(..) => (),
			}
		}
	}
	let mut v: Vec<String> = s.into_iter().collect();
	v.sort();
	v
}

fn check_one(cx: &mut Cx, p: &Project, fl: &Flat, reply: &str, serial: u64)
{
	let input = p.encode();
	let dir = cx.work.join(format!("p{}", serial % 64));
	let names = names_of(p);
	let obs = observe(p, &dir, fl, &names);
	let imp = canon_obs(&obs);
	let (model, stages) = canon_model(reply);
	cx.report.case(if obs.values.is_empty() && obs.diags.is_empty() {None} else {Some(&imp)});
	cx.report.compare("model.scope.run", &input, &model, &imp);
	cx.report.hit_n("use resolved immediately", stages[0]);
	cx.report.hit_n("use resolved by local task", stages[1]);
	cx.report.hit_n("use resolved by global task", stages[2]);
	cx.report.hit_n("files", p.files.len() as u64);
	for (tag, _, sp) in &fl.uses
	{
		let what = if obs.values.contains_key(tag) {"value"} else if obs.diags.iter().any(|d| d.0 == *tag) {"diagnostic"} else {"not reached"};
		cx.report.hit(&format!("use via {} arm: {what}", sp.arm()));
	}
	if let Some(msg) = &obs.panic
	{
		cx.report.hit("outcome: PANIC");
		cx.report.oracle_fail(input, format!("the real Context panicked: {msg}"));
		return;
	}
	match obs.diags.first()
	{
		None => cx.report.hit(if obs.final_ok {"outcome: assembled"} else {"outcome: failed without diagnostic"}),
		Some((_, k)) => cx.report.hit(&format!("outcome: first diagnostic {k}")),
	}
	if obs.has_file {cx.report.oracle_fail(input.clone(), "a file is still current after the root file ended (scope stack not restored)");}
	// (a) no value differs from a defining statement of that name
	let use_name = |tag: u64| match &p.files[file_of_tag(tag)][line_of_tag(tag) as usize - if file_of_tag(tag) == 0 {2} else {1}] {St::Use(n, _) => n.clone(), _ => String::new()};
	let parents = p.parent_map();
	for (tag, v) in &obs.values
	{
		let n = use_name(*tag);
		let defs: Vec<u64> = fl.defs.iter().filter(|(_, (dn, dv))| *dn == n && *dv == *v as i64).map(|(t, _)| *t).collect();
		if defs.is_empty()
		{
			cx.report.oracle_fail(input.clone(), format!("the use of {n} at f{}.asm:{} holds {v}, which is the value of no definition of {n}", file_of_tag(*tag), line_of_tag(*tag)));
			continue;
		}
		// (b) isolation: visible only along licensed edges
		if obs.final_ok && !defs.iter().any(|d| licensed(p, &parents, &n, file_of_tag(*d), file_of_tag(*tag)))
		{
			cx.report.oracle_fail(input.clone(), format!("the use of {n} at f{}.asm:{} sees the definition at f{}.asm:{} although no chain of .export/.global (up) and .import (down) connects the two files",
				file_of_tag(*tag), line_of_tag(*tag), file_of_tag(defs[0]), line_of_tag(defs[0])));
		}
	}
	// (c) the reference interpretation of the rules
	match reference(p, fl)
	{
		Verdict::Clean(res) =>
		{
			cx.report.hit("rules: clean project");
			if !obs.diags.is_empty() || !obs.final_ok
			{
				cx.report.oracle_fail(input.clone(), format!("the scope rules accept the project, the assembler reports {:?}", obs.diags));
			}
			for (tag, (v, d)) in &res
			{
				if obs.values.get(tag).map(|x| *x as i64) != Some(*v)
				{
					cx.report.oracle_fail(input.clone(), format!("the use at f{}.asm:{} must see the definition at f{}.asm:{} (value {v}), the image holds {:?}",
						file_of_tag(*tag), line_of_tag(*tag), file_of_tag(*d), line_of_tag(*d), obs.values.get(tag)));
				}
			}
			if obs.values.len() != res.len() || obs.executed != fl.uses.len()
			{
				cx.report.oracle_fail(input.clone(), format!("{} using statements, {} executed, {} hold a value", fl.uses.len(), obs.executed, obs.values.len()));
			}
		},
		Verdict::Violation(tag, what) =>
		{
			cx.report.hit(&format!("rules: must diagnose — {what}"));
			if obs.final_ok || !obs.diags.iter().any(|(t, _)| *t == tag)
			{
				cx.report.oracle_fail(input.clone(), format!("{what} at f{}.asm:{} must be diagnosed; diagnostics: {:?}, finalize ok: {}", file_of_tag(tag), line_of_tag(tag), obs.diags, obs.final_ok));
			}
		},
		Verdict::Unspecified(what) =>
		{
			cx.report.hit(&format!("rules: silent — {what}"));
		},
	}
}

fn run_batch(cx: &mut Cx, projects: &[Project], serial: &mut u64)
{
	for chunk in projects.chunks(2048)
	{
		let flats: Vec<Flat> = chunk.iter().map(flatten).collect();
		let lines: Vec<String> = flats.iter().map(|f| format!("scope run {}", f.ops.join(" "))).collect();
		let replies = cx.model.ask_many(&lines);
		for ((p, fl), r) in chunk.iter().zip(flats.iter()).zip(replies.iter())
		{
			check_one(cx, p, fl, r, *serial);
			*serial += 1;
		}
	}
}

// ------------------------------------------------------------------------------------------------
// the constant table through the public API (`insert_constant` / `replace_constant` / `defer_constant` /
// `get_constant` and the `Lookup` accessors), driven INSIDE a real assembly by probe directives registered in the
// directive list next to the crate's own, so that both realms exist. `replace_constant` is the one operation that may
// change a value: nothing in the crate calls it; its contract (returns the previous state, later uses see the new value,
// register names stay reserved, the other realm is untouched) is checked against a dictionary.

thread_local! {static PROBE_LOG: std::cell::RefCell<Vec<String>> = std::cell::RefCell::new(Vec::new());}

#[derive(Clone, Copy, Debug)]
enum Probe {Replace(Realm), Insert(Realm), Defer(Realm), Get(Realm)}

fn realm_code(r: Realm) -> &'static str {match r {Realm::Local => "l", Realm::Global => "g"}}

fn lookup_text(l: Lookup) -> String
{
	// through the accessors (exists / value / is_deferred / unwrap) as well as the variant
	let by_variant = match l {Lookup::NotFound => "none".to_owned(), Lookup::Deferred => "deferred".to_owned(), Lookup::Found(v) => format!("{v}")};
	let by_access = if !l.exists() {"none".to_owned()} else if l.is_deferred() {"deferred".to_owned()} else {match l.value() {Some(v) if v == l.unwrap() => format!("{v}"), _ => "?".to_owned()}};
	if by_variant == by_access && l.value().is_some() == matches!(l, Lookup::Found(..)) {by_variant} else {format!("accessors-disagree({by_variant}/{by_access})")}
}

impl trion::asm::directive::Directive for Probe
{
	fn get_name(&self) -> &str
	{
		match self
		{
			Probe::Replace(Realm::Local) => "xreplace", Probe::Replace(Realm::Global) => "xgreplace",
			Probe::Insert(Realm::Local) => "xinsert", Probe::Insert(Realm::Global) => "xginsert",
			Probe::Defer(Realm::Local) => "xdefer", Probe::Defer(Realm::Global) => "xgdefer",
			Probe::Get(Realm::Local) => "xget", Probe::Get(Realm::Global) => "xgget",
		}
	}

	fn apply(&self, ctx: &mut Context, args: trion::text::Positioned<Vec<trion::text::parse::Argument>>) -> Result<(), trion::asm::ErrorLevel>
	{
		use trion::text::parse::Argument;
		use trion::text::token::Number;
		let name = match args.value.first() {Some(Argument::Identifier(n)) => n.as_ref().to_owned(), _ => panic!("probe: name expected")};
		let value = match args.value.get(1) {Some(Argument::Constant(Number::Integer(v))) => *v, Some(Argument::Negate(b)) => match b.as_ref() {Argument::Constant(Number::Integer(v)) => -*v, _ => 0}, _ => 0};
		let out = match *self
		{
			Probe::Replace(r) => match ctx.replace_constant(&name, value, r) {Ok(prev) => format!("ok {}", lookup_text(prev)), Err(e) => format!("err {}", crate::errkind::inner_kind(&e))},
			Probe::Insert(r) => match ctx.insert_constant(&name, value, r) {Ok(fresh) => format!("ok {fresh}"), Err(e) => format!("err {}", crate::errkind::inner_kind(&e))},
			Probe::Defer(r) => match ctx.defer_constant(&name, r) {Ok(()) => "ok".to_owned(), Err(e) => format!("err {}", crate::errkind::inner_kind(&e))},
			Probe::Get(r) => lookup_text(ctx.get_constant(&name, r)),
		};
		PROBE_LOG.with(|l| l.borrow_mut().push(out));
		Ok(())
	}
}

#[derive(Clone, Debug)]
enum TOp {Replace(Realm, String, i64), Insert(Realm, String, i64), Defer(Realm, String), Get(Realm, String), Use(String)}

impl TOp
{
	fn text(&self) -> String
	{
		let g = |r: &Realm| if *r == Realm::Global {"g"} else {""};
		match self
		{
			TOp::Replace(r, n, v) => format!(".x{}replace {n}, {v};", g(r)),
			TOp::Insert(r, n, v) => format!(".x{}insert {n}, {v};", g(r)),
			TOp::Defer(r, n) => format!(".x{}defer {n};", g(r)),
			TOp::Get(r, n) => format!(".x{}get {n};", g(r)),
			TOp::Use(n) => format!(".du32 {n};"),
		}
	}

	fn code(&self) -> String
	{
		match self
		{
			TOp::Replace(r, n, v) => format!("r{}:{n}:{v}", realm_code(*r)),
			TOp::Insert(r, n, v) => format!("i{}:{n}:{v}", realm_code(*r)),
			TOp::Defer(r, n) => format!("d{}:{n}", realm_code(*r)),
			TOp::Get(r, n) => format!("g{}:{n}", realm_code(*r)),
			TOp::Use(n) => format!("u:{n}"),
		}
	}

	fn parse(s: &str) -> Option<TOp>
	{
		let w: Vec<&str> = s.split(':').collect();
		let realm = |c: &str| match &c[1..] {"l" => Some(Realm::Local), "g" => Some(Realm::Global), _ => None};
		Some(match (w.first()?.chars().next()?, w.len())
		{
			('r', 3) => TOp::Replace(realm(w[0])?, w[1].to_owned(), w[2].parse().ok()?),
			('i', 3) => TOp::Insert(realm(w[0])?, w[1].to_owned(), w[2].parse().ok()?),
			('d', 2) => TOp::Defer(realm(w[0])?, w[1].to_owned()),
			('g', 2) => TOp::Get(realm(w[0])?, w[1].to_owned()),
			('u', 2) => TOp::Use(w[1].to_owned()),
			_ => return None,
		})
	}
}

/// dictionary semantics of the table operations; `uses` = (value the `.du32` must emit) in order
fn table_reference(ops: &[TOp]) -> (Vec<String>, Vec<i64>)
{
	let mut tabs: [HashMap<String, Option<i64>>; 2] = [HashMap::new(), HashMap::new()];
	let idx = |r: &Realm| if *r == Realm::Local {0} else {1};
	let realm_name = |r: &Realm| if *r == Realm::Local {"local"} else {"global"};
	let show = |e: Option<&Option<i64>>| match e {None => "none".to_owned(), Some(None) => "deferred".to_owned(), Some(Some(v)) => format!("{v}")};
	let (mut log, mut uses) = (Vec::new(), Vec::new());
	for op in ops
	{
		match op
		{
			TOp::Replace(r, n, v) =>
			{
				if is_reg(n) {log.push("err const.reserved".to_owned()); continue;}
				let prev = show(tabs[idx(r)].get(n));
				tabs[idx(r)].insert(n.clone(), Some(*v));
				log.push(format!("ok {prev}"));
			},
			TOp::Insert(r, n, v) =>
			{
				if is_reg(n) {log.push("err const.reserved".to_owned()); continue;}
				match tabs[idx(r)].get(n).copied()
				{
					None => {tabs[idx(r)].insert(n.clone(), Some(*v)); log.push("ok true".to_owned());},
					Some(None) => {tabs[idx(r)].insert(n.clone(), Some(*v)); log.push("ok false".to_owned());},
					Some(Some(_)) => log.push(format!("err duplicate.{}", realm_name(r))),
				}
			},
			TOp::Defer(r, n) =>
			{
				if is_reg(n) {log.push("err const.reserved".to_owned()); continue;}
				if tabs[idx(r)].contains_key(n) {log.push(format!("err duplicate.{}", realm_name(r)));}
				else {tabs[idx(r)].insert(n.clone(), None); log.push("ok".to_owned());}
			},
			TOp::Get(r, n) => log.push(show(tabs[idx(r)].get(n))),
			TOp::Use(n) => uses.push(tabs[0].get(n).copied().flatten().expect("generator: uses only valued local names")),
		}
	}
	(log, uses)
}

fn check_table(cx: &mut Cx, ops: &[TOp])
{
	let input = format!("table {}", ops.iter().map(|o| o.code()).collect::<Vec<_>>().join(" "));
	let (want_log, want_uses) = table_reference(ops);
	let text = format!(".addr {BASE};\n{}\n", ops.iter().map(|o| o.text()).collect::<Vec<_>>().join("\n"));
	let path = cx.work.join("table.asm");
	PROBE_LOG.with(|l| l.borrow_mut().clear());
	let res = guarded(||
	{
		let mut directives = DirectiveList::generate();
		let mut clash = 0;
		for r in [Realm::Local, Realm::Global]
		{
			for p in [Probe::Replace(r), Probe::Insert(r), Probe::Defer(r), Probe::Get(r)] {directives.register(Box::new(p)).expect("fresh name");}
		}
		// a second registration under a used name is refused and hands the previous directive back
		if let Err(prev) = directives.register(Box::new(Probe::Get(Realm::Local))) {if prev.get_name() == "xget" {clash += 1;}}
		let mut ctx = Context::new(&Arm6M, &directives);
		let (r, _) = ctx.assemble(text.as_bytes(), path.clone());
		let closed = ctx.close_segment().is_ok();
		let fin = ctx.finalize();
		let mut image = Vec::new();
		for (range, seg) in ctx.output().iter() {if range.get_first() == BASE {image = seg.to_vec();}}
		let errs: Vec<String> = ctx.get_errors().iter().map(|e| format!("{}:{}:{}", e.line, e.col, crate::errkind::diag_kind(&e.value))).collect();
		(r.is_ok(), closed, fin, image, errs, clash)
	});
	let log = PROBE_LOG.with(|l| l.borrow().clone());
	cx.report.case(Some(&log.join(",")));
	match res
	{
		Err(p) => cx.report.oracle_fail(input, format!("panic: {p}")),
		Ok((ok, closed, fin, image, errs, clash)) =>
		{
			let uses: Vec<i64> = image.chunks(4).map(|c| c.iter().enumerate().map(|(i, b)| (*b as i64) << (8 * i)).sum()).collect();
			if clash != 1 {cx.report.oracle_fail(input.clone(), "registering a second directive under a used name was not refused with the previous one");}
			if !(ok && closed && fin && errs.is_empty()) {cx.report.oracle_fail(input.clone(), format!("table operations made the assembly fail: {errs:?}"));}
			if log != want_log {cx.report.oracle_fail(input.clone(), format!("table operations returned {log:?}, a dictionary gives {want_log:?}"));}
			if uses != want_uses {cx.report.oracle_fail(input.clone(), format!("uses emitted {uses:?}, the values current at each use are {want_uses:?}"));}
		},
	}
}

fn table_api(cx: &mut Cx)
{
	let l = Realm::Local;
	let g = Realm::Global;
	let s = |x: &str| x.to_owned();
	let fixed: Vec<Vec<TOp>> = vec![
		vec![TOp::Insert(l, s("a"), 1), TOp::Use(s("a")), TOp::Replace(l, s("a"), 2), TOp::Use(s("a")), TOp::Get(l, s("a")), TOp::Get(g, s("a"))],
		vec![TOp::Replace(l, s("a"), 5), TOp::Replace(l, s("a"), 6), TOp::Use(s("a")), TOp::Insert(l, s("a"), 7), TOp::Use(s("a"))],
		vec![TOp::Defer(l, s("a")), TOp::Get(l, s("a")), TOp::Replace(l, s("a"), 9), TOp::Use(s("a")), TOp::Defer(l, s("a"))],
		vec![TOp::Replace(g, s("a"), 3), TOp::Get(l, s("a")), TOp::Replace(g, s("a"), 4), TOp::Get(g, s("a")), TOp::Defer(g, s("b")), TOp::Replace(g, s("b"), -1), TOp::Get(g, s("b"))],
		vec![TOp::Replace(l, s("R0"), 1), TOp::Replace(g, s("sp"), 1), TOp::Get(l, s("R0")), TOp::Get(g, s("sp")), TOp::Insert(l, s("Lr"), 1), TOp::Defer(g, s("control"))],
		vec![TOp::Replace(l, s("a"), i64::MIN + 1), TOp::Get(l, s("a")), TOp::Replace(l, s("a"), i64::MAX), TOp::Get(l, s("a")), TOp::Replace(l, s("a"), 0), TOp::Use(s("a"))],
	];
	for ops in &fixed {check_table(cx, ops);}
	cx.report.hit_n("constant-table API: fixed sequences", fixed.len() as u64);
	let n = if cx.thorough() {4000} else {600};
	for _ in 0..n
	{
		let mut rng = cx.rng.fork();
		let mut ops = Vec::new();
		let mut valued: Vec<String> = Vec::new();
		for _ in 0..1 + rng.below(12)
		{
			let name = if rng.chance(1, 8) {rng.pick(&REG_NAMES).to_string()} else {rng.pick(&NAMES).to_string()};
			let r = if rng.chance(2, 3) {l} else {g};
			let v = *rng.pick(&[0i64, 1, 2, 0xFFFF_FFFF, 77]);
			let op = match rng.below(10)
			{
				0..=3 => TOp::Replace(r, name, v),
				4 | 5 => TOp::Insert(r, name, v),
				6 => TOp::Defer(r, name),
				7 => TOp::Get(r, name),
				_ => if valued.is_empty() {TOp::Get(r, name)} else {TOp::Use(rng.pick(&valued).clone())},
			};
			ops.push(op);
			// which local names hold a value now
			let (_, _) = (0, 0);
			valued = {
				let mut t: HashMap<String, Option<i64>> = HashMap::new();
				for o in &ops
				{
					match o
					{
						TOp::Replace(Realm::Local, n, v) if !is_reg(n) => {t.insert(n.clone(), Some(*v));},
						TOp::Insert(Realm::Local, n, v) if !is_reg(n) => {if t.get(n).copied().flatten().is_none() {t.insert(n.clone(), Some(*v));}},
						TOp::Defer(Realm::Local, n) if !is_reg(n) => {t.entry(n.clone()).or_insert(None);},
						_ => (),
					}
				}
				let mut v: Vec<String> = t.into_iter().filter(|(_, v)| v.is_some()).map(|(n, _)| n).collect();
				v.sort();
				v
			};
		}
		check_table(cx, &ops);
	}
	cx.report.hit_n("constant-table API: random sequences", n as u64);
}

// ------------------------------------------------------------------------------------------------
// HISTORIES: several top-level files assembled one after the other on one Context (public API; `trias` only ever makes one
// call). By the scope rules a top-level file has no includer: it starts from an empty local table; what earlier files made
// global (`.export`, `.global`) is reachable — through `.import` only; their never-exported locals are gone, so importing one
// is an error and exporting / declaring such a name again is fine. Input: `hist <project encoding>` (every file is a root).

fn flatten_hist(p: &Project) -> Flat
{
	let mut fl = Flat{ops: Vec::new(), uses: Vec::new(), defs: BTreeMap::new()};
	let mut addr = BASE;
	for (file, f) in p.files.iter().enumerate()
	{
		fl.ops.push("en:0".to_owned());
		for (i, s) in f.iter().enumerate()
		{
			let tag = tag_of(file, i);
			match s
			{
				St::Const(n, v) => {fl.ops.push(format!("co:{n}:{v}:{tag}")); fl.defs.insert(tag, (n.clone(), *v));},
				St::Global(n) => fl.ops.push(format!("gl:{n}:{tag}")),
				St::Import(n) => fl.ops.push(format!("im:{n}:{tag}")),
				St::Export(n) => fl.ops.push(format!("xp:{n}:{tag}")),
				St::Use(n, sp) => {fl.ops.push(format!("us:{n}:{tag}")); fl.uses.push((tag, addr, *sp)); addr += sp.size();},
				St::Label(..) | St::Include(..) => unreachable!("histories hold neither labels nor includes"),
			}
		}
		fl.ops.push("ex".to_owned());
	}
	fl.ops.push("fi".to_owned());
	fl
}

/// what the rules demand of a history: values of the uses (tag -> value), the final global table, and the first statement that
/// must be diagnosed (if any; the generator puts it into the last file, nothing after it is judged)
struct HistRef {values: BTreeMap<u64, i64>, globals: BTreeMap<String, Option<i64>>, violation: Option<(u64, &'static str)>}

fn reference_hist(p: &Project) -> HistRef
{
	let mut globals: BTreeMap<String, Option<i64>> = BTreeMap::new();
	let mut values = BTreeMap::new();
	let mut at_finalize: Vec<(u64, String)> = Vec::new();
	let mut violation = None;
	'files: for (file, f) in p.files.iter().enumerate()
	{
		let mut locals: HashMap<String, Option<i64>> = HashMap::new();
		// end-of-file work in statement order: (tag, name, is the `.global` copy)
		let mut tasks: Vec<(u64, String, bool)> = Vec::new();
		for (i, s) in f.iter().enumerate()
		{
			let tag = tag_of(file, i);
			let bad = |w: &'static str| Some((tag, w));
			match s
			{
				St::Const(n, v) => match locals.get(n) {Some(Some(_)) => {violation = bad("defining a name twice in one file"); break 'files;}, _ => {locals.insert(n.clone(), Some(*v));}},
				St::Export(n) => match (locals.get(n), globals.get(n))
				{
					(Some(Some(_)), Some(Some(_))) => {violation = bad("exporting a name that is already global"); break 'files;},
					(Some(Some(v)), _) => {globals.insert(n.clone(), Some(*v));},
					_ => {violation = bad("exporting a name without a value in this file"); break 'files;},
				},
				St::Import(n) => match globals.get(n)
				{
					None => {violation = bad("importing a name no earlier file made global"); break 'files;},
					Some(g) => {if locals.contains_key(n) {violation = bad("importing a name the file already has"); break 'files;} locals.insert(n.clone(), *g);},
				},
				St::Global(n) =>
				{
					if globals.contains_key(n) {violation = bad("declaring a name global twice"); break 'files;}
					match locals.get(n).copied()
					{
						Some(Some(v)) => {globals.insert(n.clone(), Some(v));},
						_ => {globals.insert(n.clone(), None); locals.entry(n.clone()).or_insert(None); tasks.push((tag, n.clone(), true));},
					}
				},
				St::Use(n, _) => match locals.get(n) {Some(Some(v)) => {values.insert(tag, *v);}, _ => tasks.push((tag, n.clone(), false))},
				St::Label(..) | St::Include(..) => unreachable!(),
			}
		}
		for (tag, n, copy) in tasks
		{
			match (locals.get(&n).copied(), copy)
			{
				(Some(Some(v)), true) => {globals.insert(n, Some(v));},
				(Some(Some(v)), false) => {values.insert(tag, v);},
				(Some(None), false) => at_finalize.push((tag, n)),
				(_, true) => {if violation.is_none() {violation = Some((tag, "declaring a name global that never gets a value"));}},
				(None, false) => {if violation.is_none() {violation = Some((tag, "using a name that is defined nowhere in the file"));}},
			}
		}
		if violation.is_some() {break;}
	}
	if violation.is_none()
	{
		for (tag, n) in at_finalize
		{
			match globals.get(&n) {Some(Some(v)) => {values.insert(tag, *v);}, _ => {violation = Some((tag, "using a declared name that never gets a value")); break;}}
		}
	}
	HistRef{values, globals, violation}
}

/// distinct, in range of `.du32`, never the placeholder pattern
fn hist_value(serial: u64, rng: &mut Rng) -> i64
{
	match rng.below(12) {0 => 0, 1 => u32::MAX as i64, _ => 100_000 + serial as i64}
}

fn gen_history(rng: &mut Rng) -> Project
{
	let nfiles = 2 + rng.below(2) as usize;
	let mut files: Vec<Vec<St>> = Vec::new();
	// what the generator knows: globals with a value, names that earlier files kept local
	let mut global: Vec<String> = Vec::new();
	let mut gone_local: Vec<String> = Vec::new();
	let pool = ["a", "b", "c", "d", "e", "tmp", "secret"];
	let mut serial = 0u64;
	for k in 0..nfiles
	{
		let last = k + 1 == nfiles;
		let mut f: Vec<St> = Vec::new();
		let mut local: Vec<String> = Vec::new();      // valued here
		let mut declared: Vec<String> = Vec::new();
		let mut declared_here: Vec<String> = Vec::new();   // made global by `.global` in this file (the copy happens at the end of the file)
		for _ in 0..2 + rng.below(6)
		{
			serial += 1;
			let fresh: Vec<&str> = pool.iter().copied().filter(|n| !local.iter().any(|l| l == n) && !declared.iter().any(|l| l == n)).collect();
			match rng.below(12)
			{
				0 | 1 | 2 => if let Some(n) = fresh.first().map(|_| *rng.pick(&fresh)) {f.push(St::Const(n.to_owned(), hist_value(serial, rng))); local.push(n.to_owned());},
				3 | 4 => if !local.is_empty() {let n = rng.pick(&local).clone(); f.push(St::Use(n, Sp::Du32));},
				5 =>
				{
					// export: a local that is not global yet — also one whose name an earlier file kept to itself
					let cands: Vec<String> = local.iter().filter(|n| !global.contains(n)).cloned().collect();
					if !cands.is_empty() {let n = rng.pick(&cands).clone(); f.push(St::Export(n.clone())); global.push(n);}
				},
				6 =>
				{
					// import what an earlier file made global
					let cands: Vec<String> = global.iter().filter(|n| !local.contains(n) && !declared.contains(n)).cloned().collect();
					if !cands.is_empty() {let n = rng.pick(&cands).clone(); f.push(St::Import(n.clone())); local.push(n);}
				},
				7 =>
				{
					// `.global` + definition (before or after), possibly of a name an earlier file kept to itself
					let cands: Vec<&str> = fresh.iter().copied().filter(|n| !global.iter().any(|g| g == n)).collect();
					if !cands.is_empty()
					{
						let n = if rng.chance(1, 2) && cands.iter().any(|c| gone_local.iter().any(|g| g == c)) {*cands.iter().find(|c| gone_local.iter().any(|g| g == *c)).unwrap()} else {*rng.pick(&cands)};
						let v = hist_value(serial + 500_000, rng);
						if rng.chance(1, 2) {f.push(St::Const(n.to_owned(), v)); f.push(St::Global(n.to_owned()));}
						else {f.push(St::Global(n.to_owned())); if rng.chance(1, 2) {f.push(St::Use(n.to_owned(), Sp::Du32));} f.push(St::Const(n.to_owned(), v));}
						local.push(n.to_owned());
						global.push(n.to_owned());
						declared_here.push(n.to_owned());
					}
				},
				8 =>
				{
					// forward use of a constant of this file
					if let Some(n) = fresh.first().map(|_| *rng.pick(&fresh)) {f.push(St::Use(n.to_owned(), Sp::Du32)); f.push(St::Const(n.to_owned(), hist_value(serial + 900_000, rng))); local.push(n.to_owned());}
				},
				9 if last && k > 0 =>
				{
					// the isolation breach itself: import of a name an earlier top-level file never exported (must be diagnosed);
					// the file ends there
					let cands: Vec<String> = gone_local.iter().filter(|n| !global.contains(n) && !local.contains(n) && !declared.contains(n)).cloned().collect();
					if !cands.is_empty() {f.push(St::Import(rng.pick(&cands).clone())); break;}
				},
				10 if last =>
				{
					// other rule violations, last statement of the history
					match rng.below(3)
					{
						0 if local.iter().any(|l| global.contains(l) && !declared_here.contains(l)) => {let n = local.iter().find(|l| global.contains(l) && !declared_here.contains(l)).unwrap().clone(); f.push(St::Export(n)); break;},
						1 if !fresh.is_empty() => {f.push(St::Export(rng.pick(&fresh).to_string())); break;},
						_ => if let Some(n) = local.first().cloned() {f.push(St::Const(n, 5)); break;},
					}
				},
				_ => (),
			}
			let _ = &declared;
			declared.clear();
		}
		if f.is_empty() {f.push(St::Const("a".to_owned(), 1)); local.push("a".to_owned());}
		for n in &local {if !global.contains(n) && !gone_local.contains(n) {gone_local.push(n.clone());}}
		files.push(f);
	}
	Project{files}
}

fn check_history(cx: &mut Cx, p: &Project, reply: Option<&str>, serial: u64)
{
	let input = format!("hist {}", p.encode());
	let fl = flatten_hist(p);
	let names = names_of(p);
	let roots: Vec<usize> = (0..p.files.len()).collect();
	let obs = observe_roots(p, &cx.work.join(format!("h{}", serial % 16)), &fl, &names, &roots);
	let imp = canon_obs(&obs);
	cx.report.case(Some(&imp));
	cx.report.hit_n("history: top-level files", p.files.len() as u64);
	if let Some(reply) = reply
	{
		let (model, _) = canon_model(reply);
		cx.report.compare("model.scope.history", &input, &model, &imp);
	}
	if let Some(msg) = &obs.panic {cx.report.oracle_fail(input, format!("the real Context panicked: {msg}")); return;}
	if obs.has_file || obs.diags.iter().any(|d| d.1 == "file-current-between-top-level-files") {cx.report.oracle_fail(input.clone(), "a file is still current after a top-level file ended");}
	let r = reference_hist(p);
	let where_ = |tag: u64| format!("f{}.asm:{}", file_of_tag(tag), line_of_tag(tag));
	match r.violation
	{
		None =>
		{
			cx.report.hit("history: clean by the rules");
			let real_diags: Vec<&(u64, String)> = obs.diags.iter().collect();
			if !real_diags.is_empty() || !obs.final_ok {cx.report.oracle_fail(input.clone(), format!("the scope rules accept the history, the assembler reports {:?} (finalize {})", obs.diags.iter().map(|(t, k)| format!("{} {k}", where_(*t))).collect::<Vec<_>>(), obs.final_ok));}
			for (tag, v) in &r.values
			{
				if obs.values.get(tag).map(|x| *x as i64) != Some(*v) {cx.report.oracle_fail(input.clone(), format!("the use at {} must hold {v}, the image holds {:?}", where_(*tag), obs.values.get(tag)));}
			}
			let want: Vec<String> = r.globals.iter().map(|(n, v)| match v {Some(v) => format!("{n}={v}"), None => format!("{n}=?")}).collect();
			if obs.globals != want {cx.report.oracle_fail(input.clone(), format!("global table after the history is {:?}, the rules give {want:?}", obs.globals));}
		},
		Some((tag, what)) =>
		{
			cx.report.hit(&format!("history: must diagnose — {what}"));
			if obs.final_ok || !obs.diags.iter().any(|(t, _)| *t == tag)
			{
				cx.report.oracle_fail(input.clone(), format!("{what} at {} must be diagnosed; diagnostics {:?}, finalize ok: {}", where_(tag), obs.diags.iter().map(|(t, k)| format!("{} {k}", where_(*t))).collect::<Vec<_>>(), obs.final_ok));
			}
			// what was resolved in earlier files stands
			for (t, v) in r.values.iter().filter(|(t, _)| file_of_tag(**t) < file_of_tag(tag))
			{
				if obs.values.get(t).map(|x| *x as i64) != Some(*v) {cx.report.oracle_fail(input.clone(), format!("the use at {} must hold {v}, the image holds {:?}", where_(*t), obs.values.get(t)));}
			}
		},
	}
}

fn histories(cx: &mut Cx)
{
	let fixed = [
		// file 1 keeps `secret` to itself and exports `pubv`; file 2 may import `pubv` only
		"c:secret:7,c:pubv:9,e:pubv,u:secret/m:pubv,u:pubv,c:secret:11,u:secret",
		"c:secret:7,c:pubv:9,e:pubv/m:secret",
		// a later file may export / declare a name an earlier file had locally
		"c:tmp:1,u:tmp/c:tmp:2,e:tmp,u:tmp/m:tmp,u:tmp",
		"c:tmp:1,u:tmp/g:tmp,u:tmp,c:tmp:2/m:tmp,u:tmp",
		// a global declared and defined in different statements; used by a later file through import; forward uses
		"g:a,u:a,c:a:5/u:b,c:b:6,m:a,u:a/c:a:8,u:a",
		"c:a:1,e:a/c:a:2,e:a",
		"c:a:1/u:a",
	];
	let mut hs: Vec<Project> = fixed.iter().map(|f| Project::decode(f).expect("fixed history")).collect();
	let n = if cx.thorough() {40_000} else {4_000};
	for _ in 0..n {let mut r = cx.rng.fork(); hs.push(gen_history(&mut r));}
	cx.report.hit_n("histories", hs.len() as u64);
	let mut serial = 0u64;
	for chunk in hs.chunks(1024)
	{
		let lines: Vec<String> = chunk.iter().map(|p| format!("scope run {}", flatten_hist(p).ops.join(" "))).collect();
		let replies = cx.model.ask_many(&lines);
		for (p, r) in chunk.iter().zip(replies.iter()) {check_history(cx, p, Some(r), serial); serial += 1;}
	}
}

// ------------------------------------------------------------------------------------------------
// uses that MIX names of different origin in one expression: an imported name (valued, or only declared so far by the includer)
// together with constants / labels of the using file itself. Every name is resolved independently by the scope rules, the
// statement emits the value of the expression over those values — also when the statement has to wait for the imported name and
// the includer (or a file between) owns other constants with the same names as the using file's own. Templates x random names,
// values, placements; oracle = expected bytes; correspondence = whole-pipeline model (`asm run`). Input: `proj …` (as C06).

fn multi_name_project(rng: &mut Rng) -> (crate::asm::Project, Vec<u8>, String)
{
	let pool = ["base", "step", "size", "off", "loop", "done", "k", "v"];
	let mut names: Vec<&str> = pool.to_vec();
	let mut take = |rng: &mut Rng| -> String {let i = rng.below(names.len() as u64) as usize; names.remove(i).to_owned()};
	let (base, step, third) = (take(rng), take(rng), take(rng));
	let b = 0x1000 + rng.below(0xE000) as i64;
	let si = 1 + rng.below(0xFF) as i64;
	let so = si + 1 + rng.below(0x700) as i64;      // the includer's unrelated value of the same name
	let sm = so + 1 + rng.below(0x700) as i64;      // and that of a file in between
	let t = 1 + rng.below(0xFFF) as i64;
	let three_files = rng.chance(1, 3);
	// the includer has only DECLARED `base` when the include is processed; with a file in between the import is always valued (a statement
	// waits one level up only: a declared-only name passed through two levels is diagnosed by the implementation and by the model)
	let deferred_import = !three_files && rng.chance(3, 4);
	let clash = rng.below(4);                         // 0: none, 1: constant, 2: label, 3: constant after the include
	let third_kind = rng.below(4);                    // 0: unused, 1: own constant, 2: own label, 3: second import (valued)
	let step_below = rng.chance(1, 2);                // own constant defined below the use (forward reference)
	let form = rng.below(7);

	// the using file
	let mut inner = String::new();
	let mut image: Vec<u8> = Vec::new();
	inner.push_str(&format!(".import {base};\n"));
	if third_kind == 3 {inner.push_str(&format!(".import {third};\n"));}
	if third_kind == 2 {inner.push_str(&format!("{third}:\n"));}
	let tv = match third_kind {0 => 0, 2 => BASE as i64, _ => t};
	if third_kind == 1 && !step_below {inner.push_str(&format!(".const {third}, {t};\n"));}
	if !step_below {inner.push_str(&format!(".const {step}, {si};\n"));}
	let sum = b + si;
	let (text, bytes): (String, Vec<u8>) = match (form, third_kind)
	{
		(0, _) => (format!(".du32 {base} + {step};"), (sum as u32).to_le_bytes().to_vec()),
		(1, _) => (format!(".du16 ({base} + {step}) & 0xFFFF;"), ((sum & 0xFFFF) as u16).to_le_bytes().to_vec()),
		(2, _) => (format!(".du8 ({step} + {base}) & 0xFF;"), vec![(sum & 0xFF) as u8]),
		(3, _) => (format!("MOVS R0, ({base} + {step}) & 0xFF;"), vec![(sum & 0xFF) as u8, 0x20]),
		(4, 0) => (format!(".du32 {step} * 2 + {base};"), ((b + 2 * si) as u32).to_le_bytes().to_vec()),
		(4, _) => (format!(".du32 {base} + {step} + {third};"), ((sum + tv) as u32).to_le_bytes().to_vec()),
		(5, 0) => (format!(".du32 {base} - {step};"), ((b - si) as u32).to_le_bytes().to_vec()),
		(5, _) => (format!(".du32 {step} + {base} * 2 - ({third} & 0xFF);"), ((si + 2 * b - (tv & 0xFF)) as u32).to_le_bytes().to_vec()),
		(_, _) => (format!(".du32 {base} | ({step} << 16);"), ((b | si << 16) as u32).to_le_bytes().to_vec()),
	};
	inner.push_str(&text);
	inner.push('\n');
	image.extend_from_slice(&bytes);
	// a neighbouring statement that uses the own name alone: same value
	inner.push_str(&format!(".du16 {step};\n"));
	image.extend_from_slice(&(si as u16).to_le_bytes());
	if step_below {inner.push_str(&format!(".const {step}, {si};\n"));}
	if third_kind == 1 && step_below {inner.push_str(&format!(".const {third}, {t};\n"));}

	// the includer(s)
	let mut outer = format!(".addr 0x{BASE:08X};\n");
	if third_kind == 3 {outer.push_str(&format!(".const {third}, {t};\n.export {third};\n"));}
	if deferred_import {outer.push_str(&format!(".global {base};\n"));} else {outer.push_str(&format!(".const {base}, {b};\n.global {base};\n"));}
	match clash {1 => outer.push_str(&format!(".const {step}, {so};\n")), 2 => outer.push_str(&format!("{step}:\n")), _ => ()}
	if clash != 0 && third_kind == 1 {outer.push_str(&format!(".const {third}, {};\n", t + 77));}
	let mut files: Vec<(String, Vec<u8>)> = Vec::new();
	if three_files
	{
		// a file in between: passes `base` (and the second import) on, owns its own `step`
		let mut mid = format!(".import {base};\n");
		if third_kind == 3 {mid.push_str(&format!(".import {third};\n"));}
		if clash != 0 {mid.push_str(&format!(".const {step}, {sm};\n"));}
		mid.push_str(".include \"inner.asm\";\n");
		if clash == 0 && rng.chance(1, 2) {mid.push_str(&format!(".const {step}, {sm};\n"));}
		outer.push_str(".include \"mid.asm\";\n");
		files.push(("mid.asm".to_owned(), mid.into_bytes()));
	}
	else {outer.push_str(".include \"inner.asm\";\n");}
	if clash == 3 {outer.push_str(&format!(".const {step}, {so};\n"));}
	if deferred_import {outer.push_str(&format!(".const {base}, {b};\n"));}
	files.insert(0, ("main.asm".to_owned(), outer.into_bytes()));
	files.push(("inner.asm".to_owned(), inner.into_bytes()));
	let shape = format!("{} files, import {}, includer's same-named {}, third name {}, own constant {}, form {form}", if three_files {3} else {2},
		if deferred_import {"declared only"} else {"valued"}, ["none", "constant", "label", "constant below the include"][clash as usize],
		["none", "own constant", "own label", "second import"][third_kind as usize], if step_below {"below the use"} else {"above the use"});
	(crate::asm::Project{files}, image, shape)
}

fn check_multi_name(cx: &mut Cx, p: &crate::asm::Project, want: Option<&[u8]>, shape: &str)
{
	let dir = cx.work.join("mixed");
	p.write(&dir);
	let input = p.to_input();
	match crate::asm::run_real(&dir)
	{
		Err(e) => cx.report.oracle_fail(input.clone(), format!("panic: {e}")),
		Ok(o) =>
		{
			let got: Vec<u8> = o.image.iter().filter(|(a, _)| **a >= BASE).map(|(_, b)| *b).collect();
			cx.report.case(Some(&hex(&got)));
			if !(o.assemble_ok && o.close_err.is_none() && o.finalize && o.errors.is_empty())
			{
				cx.report.oracle_fail(input.clone(), format!("a valid project ({shape}) is refused: {:?}", o.errors.iter().take(3).collect::<Vec<_>>()));
			}
			else if let Some(w) = want
			{
				if got != w {cx.report.oracle_fail(input.clone(), format!("{shape}: every name resolved by the scope rules gives {}, the image holds {}", hex(w), hex(&got)));}
			}
		},
	}
	crate::asm::check_asm_model(cx, p, &dir);
}

fn multi_name(cx: &mut Cx)
{
	let n = if cx.thorough() {30_000} else {2_500};
	for _ in 0..n
	{
		let mut rng = cx.rng.fork();
		let (p, image, shape) = multi_name_project(&mut rng);
		cx.report.hit(&format!("mixed-name use: {}", shape.split(", ").take(3).collect::<Vec<_>>().join(", ")));
		check_multi_name(cx, &p, Some(&image), &shape);
	}
	cx.report.hit_n("mixed-name projects", n as u64);
}

// ------------------------------------------------------------------------------------------------
// LIST forms: `.global a, b;` `.import a, b, c;` `.export a, b;`. Today a directive with two names is an arity diagnostic. Should
// the crate accept lists, the statement must behave exactly as the one-name directives in sequence (the project as it is held
// here is that expansion; the merged text keeps its line numbers by leaving the absorbed lines empty). Input: `list <project> <merges>`,
// merges = `file.index.count` joined by `,`.

fn merged_texts(p: &Project, merges: &[(usize, usize, usize)]) -> Vec<String>
{
	(0..p.files.len()).map(|file|
	{
		let mut o = String::new();
		if file == 0 {o.push_str(&format!(".addr 0x{BASE:08X};\n"));}
		let single = Project{files: vec![Vec::new()]};
		let _ = single;
		let mut i = 0;
		while i < p.files[file].len()
		{
			if let Some((_, _, count)) = merges.iter().find(|(f, at, _)| *f == file && *at == i)
			{
				let names: Vec<&String> = p.files[file][i..i + count].iter().map(|s| match s {St::Global(n) | St::Import(n) | St::Export(n) => n, _ => unreachable!("only scope directives are merged")}).collect();
				let dir = match &p.files[file][i] {St::Global(..) => "global", St::Import(..) => "import", _ => "export"};
				o.push_str(&format!(".{dir} {};\n", names.iter().map(|n| n.as_str()).collect::<Vec<_>>().join(", ")));
				for _ in 1..*count {o.push('\n');}
				i += count;
			}
			else
			{
				let one = Project{files: vec![vec![p.files[file][i].clone()]]};
				// a non-root rendering of the single statement (no `.addr` line)
				let t = Project{files: vec![Vec::new(), one.files[0].clone()]}.text(1);
				o.push_str(&t);
				i += 1;
			}
		}
		o
	}).collect()
}

fn check_list(cx: &mut Cx, p: &Project, merges: &[(usize, usize, usize)], serial: u64)
{
	let input = format!("list {} {}", p.encode(), merges.iter().map(|(f, i, c)| format!("{f}.{i}.{c}")).collect::<Vec<_>>().join(","));
	let fl = flatten(p);
	let names = names_of(p);
	let texts = merged_texts(p, merges);
	let dir = cx.work.join(format!("l{}", serial % 16));
	let obs = observe_texts(p, &dir, &fl, &names, &[0], Some(&texts));
	// the tag (line) of a statement inside a merged run is the line of the run
	let map_tag = |t: u64| -> u64
	{
		for (f, at, count) in merges
		{
			let first = tag_of(*f, *at);
			if file_of_tag(t) == *f && t > first && t < first + *count as u64 {return first;}
		}
		t
	};
	cx.report.case(Some(&canon_obs(&obs)));
	if let Some(msg) = &obs.panic {cx.report.oracle_fail(input, format!("the real Context panicked: {msg}")); return;}
	let merged_tags: Vec<u64> = merges.iter().map(|(f, at, _)| tag_of(*f, *at)).collect();
	if let Some((t, k)) = obs.diags.iter().find(|(_, k)| k.contains("dir.toomany."))
	{
		cx.report.hit("list form: arity diagnostic");
		if !merged_tags.contains(t) || obs.final_ok {cx.report.oracle_fail(input, format!("arity diagnostic {k} at f{}.asm:{}, finalize ok {}: not at a list statement {merged_tags:?}", file_of_tag(*t), line_of_tag(*t), obs.final_ok));}
		return;
	}
	// accepted: exactly the one-name directives in sequence
	cx.report.hit("list form: accepted");
	let expanded = observe(p, &cx.work.join(format!("x{}", serial % 16)), &fl, &names);
	let exp_diags: Vec<(u64, String)> = expanded.diags.iter().map(|(t, k)| (map_tag(*t), k.clone())).collect();
	if obs.values != expanded.values || obs.diags != exp_diags || obs.final_ok != expanded.final_ok || obs.globals != expanded.globals
	{
		cx.report.oracle_fail(input.clone(), format!("the list form behaves differently from its one-name directives in sequence: list form {} | in sequence {}", canon_obs(&obs), canon_obs(&Observed{diags: exp_diags.clone(), ..expanded.clone()})));
	}
	match reference(p, &fl)
	{
		Verdict::Clean(res) =>
		{
			if !obs.diags.is_empty() || !obs.final_ok {cx.report.oracle_fail(input.clone(), format!("the scope rules accept the expanded project, the list form reports {:?}", obs.diags));}
			for (tag, (v, _)) in &res
			{
				if obs.values.get(tag).map(|x| *x as i64) != Some(*v) {cx.report.oracle_fail(input.clone(), format!("the use at f{}.asm:{} must hold {v}, the image holds {:?}", file_of_tag(*tag), line_of_tag(*tag), obs.values.get(tag)));}
			}
		},
		Verdict::Violation(tag, what) =>
		{
			let t = map_tag(tag);
			if obs.final_ok || !obs.diags.iter().any(|(d, _)| *d == t)
			{
				cx.report.oracle_fail(input.clone(), format!("{what} (name {} of the list at f{}.asm:{}) must be diagnosed; diagnostics: {:?}, finalize ok: {}", tag - t + 1, file_of_tag(t), line_of_tag(t), obs.diags, obs.final_ok));
			}
		},
		Verdict::Unspecified(..) => (),
	}
}

fn list_candidates(p: &Project) -> Vec<(usize, usize, usize)>
{
	let mut out = Vec::new();
	for (f, sts) in p.files.iter().enumerate()
	{
		let mut i = 0;
		while i < sts.len()
		{
			let kind = |s: &St| match s {St::Global(..) => 1, St::Import(..) => 2, St::Export(..) => 3, _ => 0};
			let k = kind(&sts[i]);
			let mut j = i + 1;
			while k != 0 && j < sts.len() && kind(&sts[j]) == k && j - i < 3 {j += 1;}
			if k != 0 && j - i >= 2 {out.push((f, i, j - i));}
			i = j.max(i + 1);
		}
	}
	out
}

fn list_forms(cx: &mut Cx)
{
	let fixed = [
		// the includer has `late` declared only; the child imports it together with a name the includer lacks
		("g:late,i:1,c:late:5/m:late,m:nosuch", "1.0.2"),
		("g:late,i:1,c:late:5/m:nosuch,m:late", "1.0.2"),
		("g:late,c:here:7,g:here,i:1,c:late:5/m:late,m:here,u:here,u:late", "1.0.2"),
		("c:a:1,c:b:2,g:a,g:b,i:1/m:a,m:b,u:a,u:b", "0.2.2,1.0.2"),
		("c:a:1,c:b:2,e:a,e:b,u:a", "0.2.2"),
		("i:1,u:a,u:b/c:a:1,c:b:2,c:c:3,e:a,e:b,e:c", "1.3.3"),
		("g:a,g:b,g:a,c:a:1,c:b:2", "0.0.3"),
	];
	let mut serial = 0u64;
	for (proj, m) in fixed
	{
		let p = Project::decode(proj).expect("fixed list project");
		let merges: Vec<(usize, usize, usize)> = m.split(',').map(|x| {let w: Vec<usize> = x.split('.').map(|y| y.parse().unwrap()).collect(); (w[0], w[1], w[2])}).collect();
		check_list(cx, &p, &merges, serial);
		serial += 1;
	}
	let n = if cx.thorough() {20_000} else {2_000};
	let mut made = 0;
	while made < n
	{
		let mut rng = cx.rng.fork();
		let mut p = if rng.chance(1, 2) {gen_deferred(&mut rng)} else {gen_random(&mut rng)};
		// make runs: behind a scope directive put one or two more of its kind, over names of the project or a name nobody has
		for _ in 0..1 + rng.below(2)
		{
			let f = rng.below(p.files.len() as u64) as usize;
			let spots: Vec<usize> = p.files[f].iter().enumerate().filter(|(_, s)| matches!(s, St::Global(..) | St::Import(..) | St::Export(..))).map(|(i, _)| i).collect();
			if spots.is_empty() {continue;}
			let at = *rng.pick(&spots);
			let n2 = if rng.chance(1, 4) {"nosuch".to_owned()} else {rng.pick(&NAMES).to_string()};
			let extra = match &p.files[f][at] {St::Global(..) => St::Global(n2), St::Import(..) => St::Import(n2), _ => St::Export(n2)};
			let pos = if rng.chance(1, 2) {at + 1} else {at};
			p.files[f].insert(pos, extra);
		}
		if !p.is_tree() {continue;}
		let cands = list_candidates(&p);
		if cands.is_empty() {continue;}
		let merges: Vec<(usize, usize, usize)> = cands.into_iter().filter(|_| rng.chance(3, 4)).collect();
		if merges.is_empty() {continue;}
		made += 1;
		check_list(cx, &p, &merges, serial);
		serial += 1;
	}
	cx.report.hit_n("list-form projects", n as u64 + 7);
}

// ------------------------------------------------------------------------------------------------
// a use that mixes an imported name with a name that is NOT visible in the using file (it exists in the includer, in a sibling, in
// both or nowhere; never imported): must be diagnosed at the using statement, whichever side of whichever operator the invisible
// name stands on and whether the import is still pending or valued. Replay through `proj …` judges the model comparison only.

fn invisible_name_project(rng: &mut Rng) -> (crate::asm::Project, u32, String)
{
	let ext = *rng.pick(&["ext", "base", "late"]);
	let k = *rng.pick(&["k", "step", "size"]);
	let b = 0x100 + rng.below(0x1000) as i64;
	let kv = 1 + rng.below(30) as i64;
	let pending = rng.chance(2, 3);
	let wher = rng.below(5);   // 0: includer constant, 1: includer label, 2: sibling only, 3: includer and sibling, 4: nowhere
	let op = *rng.pick(&["+", "-", "*", "/", "%", "&", "|", "^", "<<", ">>"]);
	let left = rng.chance(1, 2);   // the imported name on the left
	let (a, c) = if left {(ext, k)} else {(k, ext)};
	let stmt = match rng.below(6)
	{
		0 => format!(".du32 {a} {op} {c};"),
		1 => format!(".du16 ({a} {op} {c}) & 0xFFFF;"),
		2 => format!("MOVS R0, ({a} {op} {c}) & 0xFF;"),
		3 => format!(".du32 ({a} + 1) {op} ({c} + 1);"),
		4 => format!(".du8 (-{a} {op} !{c}) & 0xFF;"),
		_ => format!("LDR R1, [R2 + (({a} {op} {c}) & 0x7C)];"),
	};
	let lead = rng.below(3) as usize;
	let mut inner = format!(".import {ext};\n");
	for j in 0..lead {inner.push_str(&format!(".du8 {j};\n"));}
	let line = 2 + lead as u32;
	inner.push_str(&stmt);
	inner.push_str("\n.du8 0x77;\n");
	let mut outer = format!(".addr 0x{BASE:08X};\n");
	if pending {outer.push_str(&format!(".global {ext};\n"));} else {outer.push_str(&format!(".const {ext}, {b};\n.global {ext};\n"));}
	match wher {0 | 3 => outer.push_str(&format!(".const {k}, {kv};\n")), 1 => outer.push_str(&format!("{k}:\n")), _ => ()}
	let mut files = vec![("main.asm".to_owned(), Vec::new())];
	if wher == 2 || wher == 3 {outer.push_str(".include \"sib.asm\";\n"); files.push(("sib.asm".to_owned(), format!(".const {k}, {};\n.du8 {k} & 0xFF;\n", kv + 40).into_bytes()));}
	outer.push_str(".include \"inner.asm\";\n");
	if wher == 0 && rng.chance(1, 3) {outer.push_str(&format!(".du8 {k};\n"));}
	if pending {outer.push_str(&format!(".const {ext}, {b};\n"));}
	files[0].1 = outer.into_bytes();
	files.push(("inner.asm".to_owned(), inner.into_bytes()));
	let shape = format!("import {}, `{k}` {}, imported name on the {} of `{op}`", if pending {"pending"} else {"valued"}, ["a constant of the includer", "a label of the includer", "in a sibling only", "in the includer and a sibling", "nowhere"][wher as usize],
		if left {"left"} else {"right"});
	(crate::asm::Project{files}, line, shape)
}

fn check_invisible(cx: &mut Cx, p: &crate::asm::Project, line: u32, shape: &str)
{
	let dir = cx.work.join("invisible");
	p.write(&dir);
	let input = p.to_input();
	match crate::asm::run_real(&dir)
	{
		Err(e) => cx.report.oracle_fail(input.clone(), format!("panic: {e}")),
		Ok(o) =>
		{
			cx.report.case(Some(&format!("{shape} {}", o.errors.first().map(|e| e.3.clone()).unwrap_or_default())));
			let blamed = o.errors.iter().any(|(f, l, _, _)| f.ends_with("/inner.asm") && *l == line);
			if (o.finalize && o.close_err.is_none()) || !blamed
			{
				cx.report.oracle_fail(input.clone(), format!("{shape}: the use at inner.asm:{line} names a constant that is not visible in that file and must be diagnosed; finalize {}, diagnostics {:?}, image {:?}",
					o.finalize, o.errors.iter().map(|(f, l, c, k)| format!("{}:{l}:{c}:{k}", f.rsplit('/').next().unwrap_or(""))).collect::<Vec<_>>(), o.image.values().map(|b| format!("{b:02x}")).collect::<String>()));
			}
		},
	}
	crate::asm::check_asm_model(cx, p, &dir);
}

fn invisible_names(cx: &mut Cx)
{
	let n = if cx.thorough() {30_000} else {2_500};
	for _ in 0..n
	{
		let mut rng = cx.rng.fork();
		let (p, line, shape) = invisible_name_project(&mut rng);
		let key: Vec<&str> = shape.split(", imported").next().unwrap_or("").split('`').collect();
		cx.report.hit(&format!("invisible second name: {}the name{}", key.first().unwrap_or(&""), key.get(2).unwrap_or(&"")));
		check_invisible(cx, &p, line, &shape);
	}
	cx.report.hit_n("projects mixing an import with an invisible name", n as u64);
}

// ------------------------------------------------------------------------------------------------
// the SAME file included two or three times (`repeat <project> <alias,…>`, alias = `dup>orig`): diamond (two siblings include one
// common file), twice in a row, once per sibling, nested. The project holds one copy per occurrence (the rules apply per occurrence);
// on disk every occurrence is the one original file.

fn check_repeat(cx: &mut Cx, p: &Project, alias: &[(usize, usize)], serial: u64)
{
	let input = format!("repeat {} {}", p.encode(), alias.iter().map(|(d, o)| format!("{d}>{o}")).collect::<Vec<_>>().join(","));
	let fl = flatten(p);
	let names = names_of(p);
	let mut texts: Vec<String> = (0..p.files.len()).map(|i| p.text(i)).collect();
	for t in texts.iter_mut() {for (d, o) in alias {*t = t.replace(&format!("\"f{d}.asm\""), &format!("\"f{o}.asm\""));}}
	for (d, o) in alias {if p.files[*d] != p.files[*o] {cx.report.oracle_fail(input, "harness error: an alias must have the content of its original"); return;}}
	let obs = observe_texts(p, &cx.work.join(format!("r{}", serial % 16)), &fl, &names, &[0], Some(&texts));
	cx.report.case(Some(&canon_obs(&obs)));
	cx.report.hit("project with a file included more than once");
	if let Some(msg) = &obs.panic {cx.report.oracle_fail(input, format!("the real Context panicked: {msg}")); return;}
	match reference(p, &fl)
	{
		Verdict::Clean(res) =>
		{
			if !obs.diags.is_empty() || !obs.final_ok {cx.report.oracle_fail(input.clone(), format!("every occurrence is fine by the scope rules; the assembler reports {:?} (finalize {})", obs.diags, obs.final_ok));}
			for (tag, (v, _)) in &res
			{
				if obs.values.get(tag).map(|x| *x as i64) != Some(*v) {cx.report.oracle_fail(input.clone(), format!("the use at f{}.asm:{} (occurrence copy) must hold {v}, the image holds {:?}", file_of_tag(*tag), line_of_tag(*tag), obs.values.get(tag)));}
			}
		},
		_ => cx.report.hit("repeat: not clean by the rules (not judged)"),
	}
}

fn repeated_includes(cx: &mut Cx)
{
	let templates: [(&str, &str); 8] = [
		("i:1,i:2/i:3,u:K/i:4,u:K/c:K:V7,e:K/c:K:V7,e:K", "4>3"),
		("i:1,i:2/c:t:V5,u:t/c:t:V5,u:t", "2>1"),
		("i:1,u:a,i:2,i:3/l:x,u:x,c:a:V9,e:a/l:x,u:x,c:a:V9,e:a/l:x,u:x,c:a:V9,e:a", "2>1,3>1"),
		("c:g:V5,g:g,i:1,i:2,u:g/m:g,u:g,c:t:V1,u:t/m:g,u:g,c:t:V1,u:t", "2>1"),
		("i:1/i:2,i:3,u:K/c:K:V3,u:K/c:K:V3,u:K", "3>2"),
		("i:1,i:3/i:2,u:K/c:K:V4,e:K/i:4,u:K,i:5/c:K:V4,e:K/c:K:V4,e:K", "4>2,5>2"),
		("g:late,i:1,i:2,c:late:V6/m:late,u:late/m:late,u:late", "2>1"),
		("i:1,i:2,i:3/i:4,u:K/u:z,c:z:V1/i:5,u:K/c:K:V8,g:K/c:K:V8,g:K", "5>4"),
	];
	let mut serial = 0u64;
	let n = if cx.thorough() {400} else {40};
	for (proj, al) in templates
	{
		let alias: Vec<(usize, usize)> = al.split(',').map(|x| {let (d, o) = x.split_once('>').unwrap(); (d.parse().unwrap(), o.parse().unwrap())}).collect();
		for _ in 0..n
		{
			// other values each time (the same in every copy)
			let v = 1 + cx.rng.below(200);
			let mut text = proj.to_owned();
			for k in 1..=9u64 {text = text.replace(&format!("V{k}"), &format!("{}", k + v));}
			let p = Project::decode(&text).expect("repeat template");
			check_repeat(cx, &p, &alias, serial);
			serial += 1;
		}
	}
}

pub fn run(_id: &str, cx: &mut Cx)
{
	cx.report.rule = "projects = include trees (depth <= 4, fan-out <= 3, <= 9 files) of .const/label/.global/.import/.export/.include statements and uses, a use being .du32 <name> or an instruction whose operand goes through one of the evaluator arms (SVC, UDF.N, UDF.W, RSBS / MOVS, CMP / B, BKPT / LDRB / LDR literal, LDR reg+offset) with every name confined to a value class encodable in its spellings, written to disk and assembled by the real Context; \
(1) hand-written collision scenarios, (2) every two-file project pre++[include]++post / child over one name up to the tier's lengths (exhaustive), (3) random projects guided by the scope rules with a tunable share of illegal statements. \
non-trivial = at least one used value or one diagnostic observed; distinct = distinct canonical observations".to_owned();
	let mut serial = 0u64;
	if let Some(input) = cx.replay.clone()
	{
		if let Some(rest) = input.strip_prefix("repeat ")
		{
			let w: Vec<&str> = rest.split(' ').collect();
			let alias: Option<Vec<(usize, usize)>> = w.get(1).map(|m| m.split(',').filter_map(|x| x.split_once('>').and_then(|(d, o)| Some((d.parse().ok()?, o.parse().ok()?)))).collect());
			match (w.first().and_then(|x| Project::decode(x)), alias)
			{
				(Some(p), Some(a)) if p.is_tree() && a.iter().all(|(d, o)| *d < p.files.len() && *o < p.files.len()) => check_repeat(cx, &p, &a, 0),
				_ => cx.report.oracle_fail(input, "unrecognised replay input"),
			}
			return;
		}
		if let Some(rest) = input.strip_prefix("list ")
		{
			let w: Vec<&str> = rest.split(' ').collect();
			let merges: Option<Vec<(usize, usize, usize)>> = w.get(1).map(|m| m.split(',').filter_map(|x| {let v: Vec<usize> = x.split('.').filter_map(|y| y.parse().ok()).collect(); if v.len() == 3 {Some((v[0], v[1], v[2]))} else {None}}).collect());
			match (w.first().and_then(|x| Project::decode(x)), merges)
			{
				(Some(p), Some(m)) if p.is_tree() => check_list(cx, &p, &m, 0),
				_ => cx.report.oracle_fail(input, "unrecognised replay input"),
			}
			return;
		}
		if input.starts_with("proj ")
		{
			match crate::asm::Project::from_input(&input)
			{
				Some(p) => check_multi_name(cx, &p, None, "replay"),
				None => cx.report.oracle_fail(input, "unrecognised replay input"),
			}
			return;
		}
		if let Some(rest) = input.strip_prefix("hist ")
		{
			match Project::decode(rest)
			{
				Some(p) if p.files.iter().all(|f| f.iter().all(|s| !matches!(s, St::Include(..) | St::Label(..)))) =>
				{
					let reply = cx.model.ask(&format!("scope run {}", flatten_hist(&p).ops.join(" ")));
					check_history(cx, &p, Some(&reply), 0);
				},
				_ => cx.report.oracle_fail(input, "unrecognised replay input"),
			}
			return;
		}
		if let Some(rest) = input.strip_prefix("table ")
		{
			match rest.split(' ').filter(|w| !w.is_empty()).map(TOp::parse).collect::<Option<Vec<TOp>>>()
			{
				Some(ops) => check_table(cx, &ops),
				None => cx.report.oracle_fail(input, "unrecognised replay input"),
			}
			return;
		}
		match Project::decode(&input)
		{
			Some(p) if p.is_tree() => run_batch(cx, &[p], &mut serial),
			_ => cx.report.oracle_fail(input, "unrecognised replay input"),
		}
		return;
	}
	table_api(cx);
	histories(cx);
	multi_name(cx);
	list_forms(cx);
	invisible_names(cx);
	repeated_includes(cx);
	let sc = scenarios();
	cx.report.hit_n("scenario projects", sc.len() as u64);
	for p in &sc {assert!(p.is_tree(), "scenario is not a tree: {}", p.encode());}
	run_batch(cx, &sc, &mut serial);
	for p in sc.iter().take(6)
	{
		let fl = flatten(p);
		let names = names_of(p);
		let o = observe(p, &cx.work.join("sample"), &fl, &names);
		cx.report.sample(format!("{} -> {}", p.encode(), canon_obs(&o)));
	}

	let en = if cx.thorough() {enumerate_two_files(3, 2, 2, Sp::Du32, [7, 1, 2], true)} else {enumerate_two_files(3, 1, 2, Sp::Du32, [7, 1, 2], true)};
	cx.report.hit_n("two-file projects (exhaustive)", en.len() as u64);
	run_batch(cx, &en, &mut serial);
	// the same enumeration with the use spelled as an instruction, one run per spelling, values encodable in it
	let b = BASE as i64;
	let spelled: [(Sp, [i64; 3], bool); 11] = [
		(Sp::Svc, [7, 1, 2], false), (Sp::UdfN, [255, 0, 9], false), (Sp::UdfW, [4096, 300, 65535], false), (Sp::Rsbs, [0, 0, 0], false),
		(Sp::Movs, [7, 1, 2], false), (Sp::Cmp, [255, 0, 9], false), (Sp::B, [b + 2, b + 40, b + 100], true), (Sp::Bkpt, [7, 1, 2], false),
		(Sp::Ldrb, [31, 1, 2], false), (Sp::LdrLit, [b + 604, b + 608, b + 1024], false), (Sp::LdrOff, [124, 4, 8], false)];
	for (sp, vals, labels) in spelled
	{
		let en = if cx.thorough() {enumerate_two_files(3, 1, 2, sp, vals, labels)} else {enumerate_two_files(2, 1, 2, sp, vals, labels)};
		cx.report.hit_n("two-file projects, instruction spellings (exhaustive)", en.len() as u64);
		run_batch(cx, &en, &mut serial);
	}

	let n = if cx.thorough() {150_000} else {15_000};
	let mut projects = Vec::with_capacity(n);
	for _ in 0..n
	{
		let p = gen_random(&mut cx.rng);
		debug_assert!(p.is_tree());
		projects.push(p);
	}
	let nd = n / 5;
	for _ in 0..nd
	{
		let p = gen_deferred(&mut cx.rng);
		debug_assert!(p.is_tree());
		projects.push(p);
	}
	cx.report.hit_n("deferred-import projects", nd as u64);
	cx.report.hit_n("random projects", n as u64);
	let max_depth = projects.iter().map(|p| {let par = p.parent_map(); (0..p.files.len()).map(|mut f| {let mut d = 1; while let Some(q) = par[f] {d += 1; f = q;} d}).max().unwrap_or(1)}).max().unwrap_or(0);
	cx.report.notes.push(format!("deepest include nesting generated: {max_depth}"));
	run_batch(cx, &projects, &mut serial);
}
