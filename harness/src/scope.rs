//! placeholder: this component is not built yet
use crate::common::*;

pub fn run(id: &str, cx: &mut Cx)
{
	cx.report.notes.push(format!("component for {id} not implemented"));
	cx.report.oracle_fail("-", "harness component not implemented");
}
