//! C20 — the `tridas` listing re-assembles to the code it was produced from.
//!
//! Generated binaries satisfy the property's hypothesis: a random mix of valid instructions produced with the real
//! `Instruction::encode`, forward / backward / self `B`, `B<cond>`, `BL` to instruction boundaries inside the file, every
//! instruction reachable from the first by fall-through and direct branches, a terminal instruction at the end, no
//! PC-relative data reference (no ADR, no LDR literal).  Each binary is written to disk, disassembled by the REAL
//! `tridas`, the listing assembled by the REAL `trias`, the UF2 read back by an independent reader in this module.
//!  * oracle: `trias` accepts the listing (a UF2 appears, stderr is empty), the image holds exactly the input bytes at
//!    0x20000000 plus zero padding up to the page boundary, and every in-file branch target has exactly one `l_XXXXXXXX:`
//!    line, placed immediately before the instruction at that address;
//!  * correspondence: the listing's line structure (header, blank lines, label lines with their addresses, instruction
//!    lines) equals the Lean model `Trion.Tridas.listing` run on the same decode table, and the text of every
//!    instruction line equals `instr.at(addr)` for the address the model assigns to it.
use std::collections::{BTreeMap, BTreeSet};
use std::process::Command;

use trion::arm6m::asm::{ImmReg, Instruction};
use trion::arm6m::reg::Register;

use crate::common::*;

const BASE: u32 = 0x2000_0000;

fn enc(i: &Instruction) -> Option<Vec<u8>>
{
	let mut buf = [0u8; 4];
	match i.encode(&mut buf)
	{
		Ok(n) => Some(buf[..n].to_vec()),
		Err(..) => None,
	}
}

/// decode that never panics the harness
fn dec(bytes: &[u8]) -> Option<(usize, Instruction)>
{
	match guarded(|| Instruction::decode(bytes)) {Ok(Ok(r)) => Some(r), _ => None}
}

fn pc_relative_data(i: &Instruction) -> bool
{
	matches!(i, Instruction::Adr{..} | Instruction::Ldr{addr: Register::PC, ..})
}

/// a returning, non-branching instruction in canonical encoding
fn random_regular(rng: &mut Rng) -> (Instruction, Vec<u8>)
{
	loop
	{
		let bytes: Vec<u8> = if rng.chance(1, 10)
		{
			// 32-bit encodings other than BL
			let (h0, h1): (u16, u16) = match rng.below(6)
			{
				0 => (0xF3BF, 0x8F4F),
				1 => (0xF3BF, 0x8F5F),
				2 => (0xF3BF, 0x8F6F),
				3 => (0xF3EF, 0x8000 | ((rng.below(13) as u16) << 8) | (*rng.pick(&[0u16, 1, 2, 3, 5, 6, 7, 8, 9, 16, 20]))),
				4 => (0xF380 | rng.below(13) as u16, 0x8800 | (*rng.pick(&[0u16, 1, 2, 3, 5, 6, 7, 8, 9, 16, 20]))),
				_ => (0xF000 | (rng.next() as u16 & 0x0FFF), rng.next() as u16),
			};
			let mut b = h0.to_le_bytes().to_vec();
			b.extend_from_slice(&h1.to_le_bytes());
			b
		}
		else if rng.chance(1, 12)
		{
			// valid NON-canonical encodings: ADDS/SUBS Rd, Rd, #imm3 in the three-operand form (the assembler emits the imm8 form)
			let d = rng.below(8) as u16;
			(0x1C00u16 | ((rng.below(2) as u16) << 9) | ((rng.below(8) as u16) << 6) | (d << 3) | d).to_le_bytes().to_vec()
		}
		else {(rng.next() as u16).to_le_bytes().to_vec()};
		let Some((n, i)) = dec(&bytes) else {continue};
		if n != bytes.len() {continue;}
		if pc_relative_data(&i) || matches!(i, Instruction::B{..} | Instruction::Bl{..}) || !i.get_returns() {continue;}
		match enc(&i)
		{
			// the property quantifies over every binary of valid instructions: alias encodings (same length, decode to the
			// same instruction) are valid instructions too
			Some(e) if e.len() == bytes.len() => return (i, bytes),
			_ => continue,
		}
	}
}

/// a non-returning instruction other than `B`
fn random_terminal(rng: &mut Rng) -> (Instruction, Vec<u8>)
{
	loop
	{
		let bytes: Vec<u8> = match rng.below(20)
		{
			0..=5 => (0x4700u16 | ((rng.below(15) as u16) << 3)).to_le_bytes().to_vec(),
			6..=11 => (0xBD00u16 | rng.below(256) as u16).to_le_bytes().to_vec(),
			12..=15 => (0xDE00u16 | rng.below(256) as u16).to_le_bytes().to_vec(),
			16 => (0xBE00u16 | rng.below(256) as u16).to_le_bytes().to_vec(),
			17 => {let mut b = (0xF7F0u16 | rng.below(16) as u16).to_le_bytes().to_vec(); b.extend_from_slice(&(0xA000u16 | rng.below(4096) as u16).to_le_bytes()); b},
			18 => (0x4687u16 | ((rng.below(15) as u16) << 3)).to_le_bytes().to_vec(),
			_ => (0x4487u16 | ((rng.below(13) as u16) << 3)).to_le_bytes().to_vec(),
		};
		let Some((n, i)) = dec(&bytes) else {continue};
		if n != bytes.len() || i.get_returns() || i.get_branch(BASE).is_some() {continue;}
		match enc(&i) {Some(e) if e == bytes => return (i, e), _ => continue}
	}
}

#[derive(Clone, Debug)]
enum Item
{
	Plain(Instruction, Vec<u8>),
	/// conditional branch (template carries the condition), target index
	Bcc(Instruction, usize),
	B(usize),
	Bl(usize),
}

impl Item
{
	fn size(&self) -> u32 {match self {Item::Plain(_, b) => b.len() as u32, Item::Bl(..) => 4, _ => 2}}
	fn returns(&self) -> bool {match self {Item::Plain(i, _) => i.get_returns(), Item::B(..) => false, _ => true}}
	fn target(&self) -> Option<usize> {match self {Item::Bcc(_, t) | Item::B(t) | Item::Bl(t) => Some(*t), _ => None}}
	fn set_target(&mut self, t: usize) {match self {Item::Bcc(_, x) | Item::B(x) | Item::Bl(x) => *x = t, _ => ()}}
}

fn reachable(items: &[Item]) -> Vec<bool>
{
	let mut seen = vec![false; items.len()];
	let mut work = vec![0usize];
	while let Some(k) = work.pop()
	{
		if k >= items.len() || seen[k] {continue;}
		seen[k] = true;
		if items[k].returns() {work.push(k + 1);}
		if let Some(t) = items[k].target() {work.push(t);}
	}
	seen
}

fn gen_binary(rng: &mut Rng, max_n: u64) -> Option<Vec<u8>>
{
	let n = 1 + rng.below(max_n) as usize;
	let style = rng.below(4);
	let mut items: Vec<Item> = Vec::with_capacity(n);
	for k in 0..n
	{
		let last = k + 1 == n;
		let t = rng.below(n as u64) as usize;
		let roll = rng.below(100);
		let it = if last
		{
			if rng.chance(1, 4) {Item::B(t)} else {let (i, b) = random_terminal(rng); Item::Plain(i, b)}
		}
		else
		{
			match (style, roll)
			{
				(0, 0..=84) | (1, 0..=59) | (2, 0..=39) | (3, 0..=19) => {let (i, b) = random_regular(rng); Item::Plain(i, b)},
				(_, r) if r % 4 == 0 =>
				{
					let c = rng.below(14) as u16;
					let (_, tmpl) = dec(&(0xD000u16 | (c << 8)).to_le_bytes())?;
					Item::Bcc(tmpl, t)
				},
				(_, r) if r % 4 == 1 => Item::B(t),
				(_, r) if r % 4 == 2 => Item::Bl(t),
				_ => {let (i, b) = random_terminal(rng); Item::Plain(i, b)},
			}
		};
		items.push(it);
	}
	// repair reachability: every instruction must be reachable from the first
	for _ in 0..4 * n + 8
	{
		let seen = reachable(&items);
		let Some(j) = seen.iter().position(|s| !*s) else {break};
		// j >= 1, j-1 is reachable and does not fall through
		let branches: Vec<usize> = (0..n).filter(|k| seen[*k] && items[*k].target().is_some()).collect();
		if !branches.is_empty() && rng.chance(1, 2)
		{
			let k = *rng.pick(&branches);
			items[k].set_target(j);
		}
		else
		{
			items[j - 1] = match &items[j - 1]
			{
				Item::B(t) =>
				{
					let c = rng.below(14) as u16;
					let (_, tmpl) = dec(&(0xD000u16 | (c << 8)).to_le_bytes())?;
					Item::Bcc(tmpl, *t)
				},
				Item::Plain(_, b) =>
				{
					// same size, falls through
					let want = b.len();
					let mut r = random_regular(rng);
					let mut tries = 0;
					while r.1.len() != want && tries < 200 {r = random_regular(rng); tries += 1;}
					if r.1.len() != want {return None;}
					Item::Plain(r.0, r.1)
				},
				other => other.clone(),
			};
		}
	}
	if reachable(&items).iter().any(|s| !*s) {return None;}
	// addresses and encoding
	let mut addr = Vec::with_capacity(n + 1);
	let mut a = 0u32;
	for it in &items {addr.push(a); a += it.size();}
	let mut out = Vec::new();
	for (k, it) in items.iter().enumerate()
	{
		let off = |t: usize| addr[t] as i32 - (addr[k] as i32 + 4);
		let bytes = match it
		{
			Item::Plain(_, b) => b.clone(),
			Item::Bcc(Instruction::B{cond, ..}, t) => enc(&Instruction::B{cond: *cond, off: off(*t)})?,
			Item::Bcc(..) => return None,
			Item::B(t) =>
			{
				let (_, tmpl) = dec(&0xE000u16.to_le_bytes())?;
				let Instruction::B{cond, ..} = tmpl else {return None};
				enc(&Instruction::B{cond, off: off(*t)})?
			},
			Item::Bl(t) => enc(&Instruction::Bl{off: off(*t)})?,
		};
		if bytes.len() as u32 != it.size() {return None;}
		out.extend_from_slice(&bytes);
	}
	Some(out)
}

// ---------------------------------------------------------------------------------------------------------

/// what the property's hypothesis says about a binary, computed from the bytes alone with the real decoder
struct Shape
{
	/// instruction boundaries (offsets) with the decoded instruction
	instrs: Vec<(u32, usize, Instruction)>,
	/// in-file branch targets (addresses)
	targets: BTreeSet<u32>,
	well_formed: Result<(), String>,
}

fn shape(bin: &[u8]) -> Shape
{
	let mut instrs = Vec::new();
	let mut pos = 0usize;
	let mut wf = Ok(());
	while pos < bin.len()
	{
		match dec(&bin[pos..])
		{
			Some((n, i)) =>
			{
				if pc_relative_data(&i) {wf = Err(format!("PC-relative data reference at offset {pos}"));}
				instrs.push((pos as u32, n, i));
				pos += n;
			},
			None => {wf = Err(format!("no valid instruction at offset {pos}")); break;},
		}
	}
	let bounds: BTreeSet<u32> = instrs.iter().map(|x| BASE + x.0).collect();
	let mut targets = BTreeSet::new();
	for (p, _, i) in &instrs
	{
		if let Some(d) = i.get_branch(BASE + p)
		{
			if d >= BASE && ((d - BASE) as usize) < bin.len()
			{
				targets.insert(d);
				if !bounds.contains(&d) && wf.is_ok() {wf = Err(format!("branch at offset {p} targets {d:08X}, not an instruction boundary"));}
			}
			else if wf.is_ok() {wf = Err(format!("branch at offset {p} leaves the file"));}
		}
	}
	if wf.is_ok()
	{
		let index: BTreeMap<u32, usize> = instrs.iter().enumerate().map(|(k, x)| (BASE + x.0, k)).collect();
		let mut seen = vec![false; instrs.len()];
		let mut work = vec![0usize];
		while let Some(k) = work.pop()
		{
			if k >= instrs.len() || seen[k] {continue;}
			seen[k] = true;
			if instrs[k].2.get_returns() {work.push(k + 1);}
			if let Some(d) = instrs[k].2.get_branch(BASE + instrs[k].0) {if let Some(t) = index.get(&d) {work.push(*t);}}
		}
		if let Some(k) = seen.iter().position(|s| !*s) {wf = Err(format!("instruction at offset {} is not reachable", instrs[k].0));}
		if instrs.is_empty() {wf = Err("empty file".to_owned());}
	}
	Shape{instrs, targets, well_formed: wf}
}

fn describe(i: &Instruction) -> String
{
	match i
	{
		Instruction::Add{dst, ..} => format!("add:{}", u8::from(*dst)),
		Instruction::Mov{dst, ..} => format!("mov:{}", u8::from(*dst)),
		Instruction::Sub{dst, ..} => format!("sub:{}", u8::from(*dst)),
		Instruction::Pop{registers} => format!("pop:{}", registers.get_bits()),
		Instruction::B{cond, off} => format!("b:{}:{}", u8::from(*cond), off),
		Instruction::Bl{off} => format!("bl:{off}"),
		Instruction::Bx{..} => "bx".to_owned(),
		Instruction::Bkpt{..} => "bkpt".to_owned(),
		Instruction::Udf{..} => "udf".to_owned(),
		Instruction::Udfw{..} => "udfw".to_owned(),
		_ => "o".to_owned(),
	}
}

fn model_request(bin: &[u8]) -> String
{
	let mut s = format!("tridas list {}", bin.len());
	let mut pos = 0;
	while pos < bin.len()
	{
		if let Some((n, i)) = dec(&bin[pos..]) {s.push_str(&format!(" {pos}/{n}/{}", describe(&i)));}
		pos += 2;
	}
	s
}

/// independent UF2 reader: 512-byte blocks, target address at 0x0C, payload size at 0x10, data at 0x20
fn read_uf2(data: &[u8]) -> Result<BTreeMap<u32, u8>, String>
{
	if data.is_empty() || data.len() % 512 != 0 {return Err(format!("UF2 length {} is not a positive multiple of 512", data.len()));}
	let word = |b: &[u8], o: usize| u32::from_le_bytes([b[o], b[o + 1], b[o + 2], b[o + 3]]);
	let mut image = BTreeMap::new();
	let total = data.len() / 512;
	for (k, b) in data.chunks(512).enumerate()
	{
		if word(b, 0) != 0x0A32_4655 || word(b, 4) != 0x9E5D_5157 || word(b, 508) != 0x0AB1_6F30 {return Err(format!("block {k}: bad magic"));}
		let (addr, size, no, cnt) = (word(b, 0x0C), word(b, 0x10) as usize, word(b, 0x14), word(b, 0x18));
		if size > 476 {return Err(format!("block {k}: payload size {size}"));}
		if no as usize != k || cnt as usize != total {return Err(format!("block {k}: numbered {no} of {cnt}, file has {total}"));}
		for j in 0..size
		{
			if image.insert(addr.wrapping_add(j as u32), b[0x20 + j]).is_some() {return Err(format!("block {k}: address {:08X} written twice", addr.wrapping_add(j as u32)));}
		}
	}
	Ok(image)
}

fn check_one(cx: &mut Cx, bin: &[u8], reply: &str, serial: u64)
{
	let input = hex(bin);
	let sh = shape(bin);
	let dir = cx.work.join(format!("t{}", serial % 16));
	std::fs::create_dir_all(&dir).unwrap();
	let (bin_path, asm_path, uf2_path) = (dir.join("code.bin"), dir.join("listing.asm"), dir.join("out.uf2"));
	std::fs::write(&bin_path, bin).unwrap();
	let _ = std::fs::remove_file(&uf2_path);
	let out = Command::new(repo_bin("tridas")).arg(&bin_path).output().expect("cannot run tridas (./check builds it: needs_bins)");
	let listing = String::from_utf8_lossy(&out.stdout).into_owned();
	let tridas_ok = out.status.success() && out.stderr.is_empty();
	// --- structure of the listing
	let lines: Vec<&str> = listing.lines().collect();
	let mut tokens: Vec<String> = Vec::new();
	let mut instr_text: Vec<&str> = Vec::new();
	for (k, l) in lines.iter().enumerate()
	{
		if k == 0 && *l == ".addr 0x20000000;" {tokens.push("H".to_owned());}
		else if l.is_empty() {tokens.push("B".to_owned());}
		else if let Some(rest) = l.strip_prefix("l_").and_then(|r| r.strip_suffix(':')) {tokens.push(format!("L{}", rest.to_lowercase()));}
		else if let Some(t) = l.strip_prefix('\t') {tokens.push("I".to_owned()); instr_text.push(t);}
		else {tokens.push(format!("?{}", l.replace(' ', "_")));}
	}
	let imp_struct = if tridas_ok {tokens.join(" ")} else {format!("PANIC: {}", String::from_utf8_lossy(&out.stderr).lines().next().unwrap_or("").to_owned())};
	// the model: same tokens, instruction lines carry their address
	let model_lines = reply.split('|').next().unwrap_or("").trim();
	let mut model_addrs: Vec<u32> = Vec::new();
	let model_struct = if reply.starts_with("PANIC") {format!("PANIC: {}", &reply[5..].trim())} else
	{
		model_lines.split(' ').filter(|w| !w.is_empty()).map(|w|
		{
			if let Some(a) = w.strip_prefix('I') {model_addrs.push(u32::from_str_radix(a, 16).unwrap_or(0)); "I".to_owned()} else {w.to_owned()}
		}).collect::<Vec<_>>().join(" ")
	};
	cx.report.case(Some(&imp_struct));
	let agree = if reply.starts_with("PANIC") && !tridas_ok {true} else {cx.report.compare("model.tridas.listing", &input, &model_struct, &imp_struct)};
	if !agree && reply.starts_with("PANIC") != !tridas_ok {return;}
	if agree && tridas_ok
	{
		// text of every instruction line at the address the model assigns to it
		for (k, a) in model_addrs.iter().enumerate()
		{
			let want = dec(&bin[(a - BASE) as usize..]).map(|(_, i)| format!("{}", i.at(*a))).unwrap_or_else(|| "<undecodable>".to_owned());
			if instr_text.get(k).copied() != Some(want.as_str())
			{
				cx.report.disagree("model.tridas.listing", input.clone(), format!("line {k}: {a:08X} {want}"), format!("line {k}: {:?}", instr_text.get(k)));
				break;
			}
		}
	}
	match &sh.well_formed
	{
		Err(why) =>
		{
			cx.report.hit("outside the hypothesis (model comparison only)");
			cx.report.notes.push(format!("{input}: {why}"));
			return;
		},
		Ok(()) => (),
	}
	cx.report.hit_n("instructions", sh.instrs.len() as u64);
	cx.report.hit_n("in-file branch targets", sh.targets.len() as u64);
	for (p, _, i) in &sh.instrs
	{
		if let Some(d) = i.get_branch(BASE + p)
		{
			cx.report.hit(if d < BASE + p {"branch backward"} else if d == BASE + p {"branch to itself"} else {"branch forward"});
		}
		cx.report.hit(&format!("instr {}", i.get_name()));
	}
	if !tridas_ok
	{
		cx.report.oracle_fail(input, format!("tridas failed on a well-formed binary: {}", String::from_utf8_lossy(&out.stderr)));
		return;
	}
	// --- oracle 1: labels
	if instr_text.len() != sh.instrs.len()
	{
		cx.report.oracle_fail(input.clone(), format!("the binary has {} instructions, the listing {} instruction lines", sh.instrs.len(), instr_text.len()));
	}
	else
	{
		let mut label_count: BTreeMap<u32, usize> = BTreeMap::new();
		let mut k = 0usize; // index of the next instruction line
		for (li, t) in tokens.iter().enumerate()
		{
			if t == "I" {k += 1;}
			else if let Some(a) = t.strip_prefix('L')
			{
				let a = u32::from_str_radix(a, 16).unwrap_or(0);
				*label_count.entry(a).or_insert(0) += 1;
				let next_is_instr = tokens.get(li + 1).map(String::as_str) == Some("I");
				let at = sh.instrs.get(k).map(|x| BASE + x.0);
				if !next_is_instr || at != Some(a)
				{
					cx.report.oracle_fail(input.clone(), format!("label l_{a:08X} is not immediately before the instruction at that address (next instruction is at {at:?})"));
				}
			}
		}
		for t in &sh.targets
		{
			if label_count.get(t).copied().unwrap_or(0) != 1
			{
				cx.report.oracle_fail(input.clone(), format!("branch target {t:08X} has {} label definitions", label_count.get(t).copied().unwrap_or(0)));
			}
		}
		for (a, _) in &label_count
		{
			if !sh.targets.contains(a) {cx.report.oracle_fail(input.clone(), format!("label l_{a:08X} is not a branch target"));}
		}
	}
	// --- oracle 2: the listing assembles back to the input
	std::fs::write(&asm_path, &listing).unwrap();
	let out = Command::new(repo_bin("trias")).arg(&asm_path).arg(&uf2_path).output().expect("cannot run trias");
	let stderr = String::from_utf8_lossy(&out.stderr).into_owned();
	let uf2 = std::fs::read(&uf2_path).ok();
	match uf2
	{
		None =>
		{
			cx.report.hit("trias rejected the listing");
			cx.report.oracle_fail(input, format!("trias does not accept the listing: {}", stderr.lines().take(3).collect::<Vec<_>>().join(" / ")));
		},
		Some(data) =>
		{
			if !stderr.is_empty() || !out.status.success()
			{
				cx.report.oracle_fail(input.clone(), format!("trias reported: {}", stderr.lines().next().unwrap_or("")));
			}
			match read_uf2(&data)
			{
				Err(e) => cx.report.oracle_fail(input, format!("the UF2 file is malformed: {e}")),
				Ok(image) =>
				{
					let mut bad = None;
					for (k, b) in bin.iter().enumerate()
					{
						if image.get(&(BASE + k as u32)) != Some(b) {bad = Some(format!("byte at {:08X} is {:?}, input has {b:02x}", BASE + k as u32, image.get(&(BASE + k as u32)))); break;}
					}
					let end = BASE + ((bin.len() as u32 + 255) / 256) * 256;
					for (a, b) in &image
					{
						if *a < BASE || *a >= end {bad = Some(format!("image holds a byte at {a:08X}, outside the padded code")); break;}
						if *a >= BASE + bin.len() as u32 && *b != 0 {bad = Some(format!("padding byte at {a:08X} is {b:02x}")); break;}
					}
					match bad
					{
						Some(w) =>
						{
							// is every differing byte inside an instruction given in a non-canonical (alias) encoding, re-assembled
							// to the canonical encoding of the same instruction?  (known finding K3; anything else is reported as is)
							let mut canon = Vec::new();
							let mut aliases = 0;
							for (off, len, i) in &sh.instrs
							{
								let orig = &bin[*off as usize..*off as usize + *len];
								match enc(i) {Some(e) if e.len() == *len => {if e != orig {aliases += 1;} canon.extend_from_slice(&e)}, _ => canon.extend_from_slice(orig)}
							}
							let only_alias = aliases > 0 && canon.len() == bin.len() && canon.iter().enumerate().all(|(k, b)| image.get(&(BASE + k as u32)) == Some(b))
								&& image.iter().all(|(a, b)| *a >= BASE && *a < end && (*a < BASE + bin.len() as u32 || *b == 0));
							if only_alias
							{
								cx.report.hit("round trip differs only by alias re-encoding (K3)");
								cx.report.oracle_fail(format!("alias:{}", hex(bin)), format!("{aliases} instruction(s) given in the three-operand ADDS/SUBS Rd, Rd, #imm3 encoding are re-assembled to the imm8 encoding: {w}"));
							}
							else {cx.report.oracle_fail(input, format!("re-assembled image differs: {w}"));}
						},
						None => cx.report.hit("round trip ok"),
					}
				},
			}
		},
	}
}

/// `tridas` without an argument: announces the missing argument on stderr, prints no listing, is not killed
fn cli_noargs(cx: &mut Cx)
{
	let input = "cli noargs".to_owned();
	let out = Command::new(repo_bin("tridas")).output().expect("cannot run tridas");
	cx.report.case(Some(&format!("noargs {:?}", out.status.code())));
	cx.report.hit(&format!("cli noargs: exit status {:?}", out.status.code()));
	use std::os::unix::process::ExitStatusExt;
	if let Some(sig) = out.status.signal() {cx.report.oracle_fail(input.clone(), format!("tridas without an argument was killed by signal {sig}"));}
	if out.stderr.is_empty() {cx.report.oracle_fail(input.clone(), "tridas without an argument says nothing on stderr");}
	if !out.stdout.is_empty() {cx.report.oracle_fail(input, format!("tridas without an argument prints a listing: {:?}", String::from_utf8_lossy(&out.stdout)));}
}

/// the two queries the listing is built from, on operands `tridas` itself never passes (an odd address; SUB with PC as the
/// destination, which no encoding produces): a branch at an odd address has no target, an instruction that writes the PC does not
/// fall through
fn query_corners(cx: &mut Cx)
{
	let input = "queries".to_owned();
	let r = guarded(||
	{
		let mut bad = Vec::new();
		for off in [-4i32, 0, 2, 100]
		{
			for i in [Instruction::B{cond: trion::arm6m::cond::Condition::Always, off}, Instruction::B{cond: trion::arm6m::cond::Condition::Equal, off}, Instruction::Bl{off}]
			{
				if let Some(t) = i.get_branch(BASE + 1) {bad.push(format!("{i:?} at an odd address has target {t:08X}"));}
				if i.get_branch(BASE) != Some((BASE as i64 + 4 + off as i64) as u32) {bad.push(format!("{i:?} at {BASE:08X}: target {:?}", i.get_branch(BASE)));}
			}
		}
		for (i, falls) in [
			(Instruction::Sub{flags: false, dst: Register::PC, lhs: Register::PC, rhs: ImmReg::Immediate(4)}, false),
			(Instruction::Sub{flags: false, dst: Register::SP, lhs: Register::SP, rhs: ImmReg::Immediate(4)}, true),
			(Instruction::Add{flags: false, dst: Register::PC, lhs: Register::PC, rhs: ImmReg::Register(Register::R0)}, false),
			(Instruction::Mov{flags: false, dst: Register::PC, src: ImmReg::Register(Register::R0)}, false),
			(Instruction::Nop, true)]
		{
			if i.get_returns() != falls {bad.push(format!("{i:?}: get_returns() = {}", i.get_returns()));}
		}
		bad
	});
	cx.report.case(Some("queries"));
	match r
	{
		Err(p) => cx.report.oracle_fail(input, format!("panic: {p}")),
		Ok(bad) => for b in bad {cx.report.oracle_fail(input.clone(), b);},
	}
}

// ------------------------------------------------------------------------------------------------
// far BL: the two offset bits that come from J1/J2 (4 MiB and 8 MiB) matter only for |offset| >= 4 MiB

/// BL with the given byte offset (relative to the instruction address + 4), by the architectural formula (A6.7.13)
fn bl_bytes(off: i32) -> [u8; 4]
{
	let o = off as u32;
	let (s, i1, i2) = (o >> 24 & 1, o >> 23 & 1, o >> 22 & 1);
	let (j1, j2) = ((1 - i1) ^ s, (1 - i2) ^ s);
	let h0 = 0xF000 | s << 10 | (o >> 12 & 0x3FF);
	let h1 = 0xD000 | j1 << 13 | j2 << 11 | (o >> 1 & 0x7FF);
	[h0 as u8, (h0 >> 8) as u8, h1 as u8, (h1 >> 8) as u8]
}

/// the architectural offset of a BL pattern from its raw halfwords, independent of the crate's decoder
fn bl_arch_offset(b: &[u8]) -> i64
{
	let (h0, h1) = (u16::from_le_bytes([b[0], b[1]]) as i64, u16::from_le_bytes([b[2], b[3]]) as i64);
	let (s, j1, j2) = (h0 >> 10 & 1, h1 >> 13 & 1, h1 >> 11 & 1);
	let (i1, i2) = (1 - (j1 ^ s), 1 - (j2 ^ s));
	let v = s << 24 | i1 << 23 | i2 << 22 | (h0 & 0x3FF) << 12 | (h1 & 0x7FF) << 1;
	if s == 1 {v - (1 << 25)} else {v}
}

/// small files whose BL leaves the file: the label the listing prints for the target must be the architectural target
/// computed from the raw halfwords (input `blfar <nops> <offset>`)
fn bl_target_case(cx: &mut Cx, nops: usize, off: i32)
{
	let input = format!("blfar {nops} {off}");
	let mut bin = Vec::new();
	for _ in 0..nops {bin.extend_from_slice(&[0x00, 0xBF]);}
	let at = BASE + bin.len() as u32;
	let pat = bl_bytes(off);
	bin.extend_from_slice(&pat);
	bin.extend_from_slice(&[0x70, 0x47]);
	let want = (at as i64 + 4 + bl_arch_offset(&pat)) as u32;
	if bl_arch_offset(&pat) != off as i64 {cx.report.oracle_fail(input.clone(), "harness error: BL pattern does not carry the requested offset"); return;}
	let dir = cx.work.join("blfar");
	std::fs::create_dir_all(&dir).unwrap();
	let path = dir.join("code.bin");
	std::fs::write(&path, &bin).unwrap();
	let out = Command::new(repo_bin("tridas")).arg(&path).output().expect("cannot run tridas");
	let listing = String::from_utf8_lossy(&out.stdout).into_owned();
	cx.report.case(Some(&format!("blfar {:?}", bl_arch_offset(&pat) >> 22)));
	cx.report.hit(if (off as u32 >> 22 & 1) != (off as u32 >> 23 & 1) {"BL leaving the file: J1 != J2"} else {"BL leaving the file: J1 == J2"});
	if !out.status.success() || !out.stderr.is_empty() {cx.report.oracle_fail(input, format!("tridas failed: {:?} {}", out.status.code(), String::from_utf8_lossy(&out.stderr).lines().next().unwrap_or(""))); return;}
	let instr_lines: Vec<&str> = listing.lines().filter_map(|l| l.strip_prefix('\t')).collect();
	match instr_lines.get(nops)
	{
		Some(l) if l.to_ascii_uppercase().starts_with("BL ") =>
		{
			let label = l[3..].trim().trim_end_matches(';').trim();
			let got = label.strip_prefix("l_").and_then(|h| u32::from_str_radix(h, 16).ok());
			if got != Some(want)
			{
				cx.report.oracle_fail(input, format!("BL {} at {at:08X} has the architectural target {want:08X}; the listing says `{l}`", hex(&pat)));
			}
		},
		other => cx.report.oracle_fail(input, format!("instruction line {nops} of the listing is {other:?}, expected the BL")),
	}
}

/// A binary larger than 4 MiB with a BL across more than 4 MiB of it (`far fwd` / `far back`), inside the hypothesis of C20:
/// every instruction is reachable, the branch target is inside the file. Oracle on the implementation alone (the model's line
/// protocol is not made for two million entries): one label, directly before the instruction at the target; the BL names it; the
/// listing has one line per instruction; trias accepts the listing and reproduces every input byte at 0x20000000.
fn far_case(cx: &mut Cx, which: &str)
{
	let input = format!("far {which}");
	let filler: [u8; 4] = [0xBF, 0xF3, 0x5F, 0x8F];   // DMB SY
	let n = 0x10_0001usize;                             // 4 MiB + 4 of filler
	let mut parts: Vec<Vec<u8>> = Vec::new();          // one entry per instruction
	let target_index;
	let bl_index;
	match which
	{
		"fwd" =>
		{
			// BL over the filler to the final BX LR
			parts.push(bl_bytes((4 * n) as i32).to_vec());
			bl_index = 0;
			for _ in 0..n {parts.push(filler.to_vec());}
			target_index = parts.len();
			parts.push(vec![0x70, 0x47]);
		},
		"back" =>
		{
			// B skip; target: BX LR; skip: filler…; BL target; BX LR
			parts.push(vec![0x00, 0xE0]);                  // B +0 -> address 4
			target_index = 1;
			parts.push(vec![0x70, 0x47]);
			for _ in 0..n {parts.push(filler.to_vec());}
			bl_index = parts.len();
			let at = 4 + 4 * n as i64;
			parts.push(bl_bytes((2 - (at + 4)) as i32).to_vec());
			parts.push(vec![0x70, 0x47]);
		},
		_ => {cx.report.oracle_fail(input, "unrecognised replay input"); return;},
	}
	let mut addrs = Vec::with_capacity(parts.len());
	let mut bin: Vec<u8> = Vec::new();
	for p in &parts {addrs.push(BASE + bin.len() as u32); bin.extend_from_slice(p);}
	let target = addrs[target_index];
	let mut targets: BTreeSet<u32> = BTreeSet::new();
	targets.insert(target);
	if which == "back" {targets.insert(BASE + 4);}
	let dir = cx.work.join("far");
	std::fs::create_dir_all(&dir).unwrap();
	let (bin_path, asm_path, uf2_path) = (dir.join("code.bin"), dir.join("listing.asm"), dir.join("out.uf2"));
	std::fs::write(&bin_path, &bin).unwrap();
	let _ = std::fs::remove_file(&uf2_path);
	let out = Command::new(repo_bin("tridas")).arg(&bin_path).output().expect("cannot run tridas");
	cx.report.case(Some(&input));
	cx.report.hit(&format!("binary > 4 MiB with a far BL ({which})"));
	if !out.status.success() || !out.stderr.is_empty() {cx.report.oracle_fail(input, format!("tridas failed: {:?} {}", out.status.code(), String::from_utf8_lossy(&out.stderr).lines().next().unwrap_or(""))); return;}
	let listing = String::from_utf8_lossy(&out.stdout).into_owned();
	// structure: header, then per instruction (in address order) an optional label line and the instruction line
	let mut k = 0usize;
	let mut labels_seen: BTreeSet<u32> = BTreeSet::new();
	let mut pending_label: Option<u32> = None;
	let mut problem: Option<String> = None;
	for (ln, l) in listing.lines().enumerate()
	{
		if ln == 0 {if l != ".addr 0x20000000;" {problem = Some(format!("first line {l:?}")); break;} continue;}
		if l.is_empty() {continue;}
		if let Some(h) = l.strip_prefix("l_").and_then(|r| r.strip_suffix(':'))
		{
			let a = u32::from_str_radix(h, 16).unwrap_or(0);
			if !labels_seen.insert(a) {problem = Some(format!("label l_{h} defined twice")); break;}
			if pending_label.is_some() {problem = Some("two labels in a row".to_owned()); break;}
			pending_label = Some(a);
		}
		else if let Some(t) = l.strip_prefix('\t')
		{
			if k >= parts.len() {problem = Some("more instruction lines than instructions".to_owned()); break;}
			if let Some(a) = pending_label.take() {if a != addrs[k] {problem = Some(format!("label l_{a:08X} stands before the instruction at {:08X}", addrs[k])); break;}}
			if k == bl_index && t.trim_end_matches(';').trim() != format!("BL l_{target:08X}") {problem = Some(format!("the BL to {target:08X} is listed as `{t}`")); break;}
			k += 1;
		}
		else {problem = Some(format!("line {ln}: {l:?}")); break;}
	}
	if problem.is_none() && k != parts.len() {problem = Some(format!("{k} instruction lines for {} instructions", parts.len()));}
	if problem.is_none() && labels_seen != targets {problem = Some(format!("labels defined {:?}, branch targets {:?}", labels_seen.iter().map(|a| format!("{a:08X}")).collect::<Vec<_>>(), targets.iter().map(|a| format!("{a:08X}")).collect::<Vec<_>>()));}
	if let Some(p) = problem {cx.report.oracle_fail(input, format!("listing of a {}-byte binary: {p}", bin.len())); return;}
	std::fs::write(&asm_path, listing.as_bytes()).unwrap();
	let tr = Command::new(repo_bin("trias")).arg(&asm_path).arg(&uf2_path).output().expect("cannot run trias");
	match std::fs::read(&uf2_path)
	{
		Err(_) => cx.report.oracle_fail(input, format!("trias does not accept the listing: {}", String::from_utf8_lossy(&tr.stderr).lines().take(2).collect::<Vec<_>>().join(" / "))),
		Ok(data) =>
		{
			// blocks of 256 payload bytes at ascending page addresses: compare page by page without building a byte map
			if data.len() % 512 != 0 {cx.report.oracle_fail(input, "UF2 length is not a multiple of 512"); return;}
			let mut seen = vec![false; bin.len()];
			for b in data.chunks(512)
			{
				let word = |o: usize| u32::from_le_bytes([b[o], b[o + 1], b[o + 2], b[o + 3]]);
				let (addr, size) = (word(0x0C), word(0x10) as usize);
				for j in 0..size.min(476)
				{
					let a = addr.wrapping_add(j as u32);
					if a >= BASE && ((a - BASE) as usize) < bin.len()
					{
						let i = (a - BASE) as usize;
						if seen[i] || bin[i] != b[0x20 + j] {cx.report.oracle_fail(input, format!("re-assembled byte at {a:08X} is {:02x}{}, the input has {:02x}", b[0x20 + j], if seen[i] {" (second time)"} else {""}, bin[i])); return;}
						seen[i] = true;
					}
					else if b[0x20 + j] != 0 {cx.report.oracle_fail(input, format!("re-assembled image has byte {:02x} at {a:08X}, outside the input", b[0x20 + j])); return;}
				}
			}
			if let Some(i) = seen.iter().position(|s| !s) {cx.report.oracle_fail(input, format!("input byte at {:08X} is missing from the re-assembled image", BASE + i as u32));}
		},
	}
	let _ = std::fs::remove_dir_all(&dir);
}

const BL_FAR_OFFSETS: [i32; 14] = [0x40_0000, 0x40_0002, 0x7F_FFFE, 0x80_0000, 0xBF_FFFE, 0xC0_0000, 0xFF_FFFE, 0x3F_FFFE,
	-0x40_0000, -0x40_0002, -0x80_0000, -0xC0_0000, -0xC0_0002, -0x3F_FFFE];

pub fn run(_id: &str, cx: &mut Cx)
{
	cx.report.rule = "binaries = 1..N instructions (N = 40 quick, 150 thorough; four branch densities) from the real encoder: random canonical 16/32-bit instructions, B/B<cond>/BL to random boundaries (forward, backward, self), terminals BX / POP {..,PC} / UDF / B (also BKPT, UDF.W, MOV PC, ADD PC), repaired until every instruction is reachable, terminal at the end, no ADR / LDR literal. \
Each: real tridas -> listing -> real trias -> UF2 -> independent reader. non-trivial = every case; distinct = distinct listing structures".to_owned();
	if let Some(input) = cx.replay.clone()
	{
		if input == "cli noargs" {cli_noargs(cx); return;}
		if input == "queries" {query_corners(cx); return;}
		if let Some(rest) = input.strip_prefix("far ") {far_case(cx, rest.trim()); return;}
		if let Some(rest) = input.strip_prefix("blfar ")
		{
			let w: Vec<&str> = rest.split(' ').collect();
			match (w.first().and_then(|x| x.parse::<usize>().ok()), w.get(1).and_then(|x| x.parse::<i32>().ok()))
			{
				(Some(n), Some(off)) => bl_target_case(cx, n, off),
				_ => cx.report.oracle_fail(input, "unrecognised replay input"),
			}
			return;
		}
		match unhex(input.strip_prefix("alias:").unwrap_or(&input))
		{
			Some(bin) =>
			{
				let reply = cx.model.ask(&model_request(&bin));
				let codec = cx.model.ask(&format!("tridas bin {}", hex(&bin)));
				cx.report.compare("model.tridas.codec", &hex(&bin), &codec, &reply);
				check_one(cx, &bin, &reply, 0);
			},
			None => cx.report.oracle_fail(input, "unrecognised replay input"),
		}
		return;
	}
	let n = if cx.thorough() {25_000} else {2_500};
	let max_n = if cx.thorough() {150} else {40};
	let mut bins: Vec<Vec<u8>> = Vec::new();
	// fixed small cases: single terminal, self branch, backward loop, BL forward
	for h in ["7047", "fee7", "00bf fde7", "00f001f8 7047 7047", "00d0 00bf 7047", "00bd", "401c 7047", "521e 7047"]
	{
		bins.push(unhex(&h.replace(' ', "")).unwrap());
	}
	// MOV Rd, PC only reads the PC and falls through
	bins.push(unhex("784608307047").unwrap());
	// branches that leave the file (outside the hypothesis; listed without a label definition, never a crash): before the base
	// address, past the end, exactly to the end
	for h in ["fce7", "30d0 7047", "00f000f8", "00f000f8 7047", "00bf fed0 7047 fbe7", "fff7feff 7047"]
	{
		bins.push(unhex(&h.replace(' ', "")).unwrap());
	}
	// whole 256-byte pages of `00 00` (MOVS R0, R0) between, before and behind pages of other code: every input byte is reproduced
	for (pre, zeros, post) in [(128usize, 128usize, 0usize), (0, 128, 3), (128, 256, 128), (64, 128 + 64, 5), (128, 128, 128), (1, 127 + 128, 0), (0, 384, 0)]
	{
		let mut b = Vec::new();
		for _ in 0..pre {b.extend_from_slice(&[0x00, 0xBF]);}
		for _ in 0..zeros {b.extend_from_slice(&[0x00, 0x00]);}
		for _ in 0..post {b.extend_from_slice(&[0x00, 0xBA]);}   // REV R0, R0
		b.extend_from_slice(&[0x70, 0x47]);
		bins.push(b);
	}
	cli_noargs(cx);
	query_corners(cx);
	for off in BL_FAR_OFFSETS {for nops in [0usize, 1, 2, 7] {bl_target_case(cx, nops, off);}}
	// binaries > 4 MiB with a BL across them: about a second each (tridas and trias are fast; no model request)
	for which in ["fwd", "back"] {far_case(cx, which);}
	// branches at the limits of their ranges need long files: filler NOPs around B / B<cond> at -2048, +2046, -256, +254
	{
		let nop = enc(&Instruction::Nop).unwrap();
		let bx = unhex("7047").unwrap();
		let mut mk = |pre: usize, i: Instruction, post: usize, tail: &[u8]| -> Option<Vec<u8>>
		{
			let mut b = Vec::new();
			for _ in 0..pre {b.extend_from_slice(&nop);}
			b.extend_from_slice(&enc(&i)?);
			for _ in 0..post {b.extend_from_slice(&nop);}
			b.extend_from_slice(tail);
			Some(b)
		};
		let (_, always) = dec(&0xE000u16.to_le_bytes()).unwrap();
		let (_, bne) = dec(&0xD100u16.to_le_bytes()).unwrap();
		let (Instruction::B{cond: al, ..}, Instruction::B{cond: ne, ..}) = (always, bne) else {unreachable!()};
		// backward: target = start of file, branch at offset 2*pre: off = -(2*pre + 4)
		for (c, pre) in [(al, 1022usize), (al, 1021), (ne, 126), (ne, 125)]
		{
			let tail: &[u8] = if c == al {&[]} else {&bx};
			if let Some(b) = mk(pre, Instruction::B{cond: c, off: -(2 * pre as i32 + 4)}, 0, tail) {bins.push(b);}
		}
		// forward: branch first, target = last instruction (BX LR): off = 2*post + 2 - 4... computed from the layout
		for (c, post) in [(al, 1024usize), (al, 1023), (ne, 128), (ne, 127)]
		{
			let off = 2 + 2 * post as i32 - 4;
			if let Some(b) = mk(0, Instruction::B{cond: c, off}, post, &bx) {bins.push(b);}
		}
	}
	let mut rejected = 0u64;
	while bins.len() < n
	{
		let m = if bins.len() % 10 == 0 {6} else {max_n};
		match gen_binary(&mut cx.rng, m)
		{
			Some(b) => bins.push(b),
			None => rejected += 1,
		}
	}
	cx.report.hit_n("generator rejections", rejected);
	let mut serial = 0u64;
	for chunk in bins.chunks(256)
	{
		let lines: Vec<String> = chunk.iter().map(|b| model_request(b)).collect();
		let replies = cx.model.ask_many(&lines);
		// the same traversal with the decoder MODEL (Codec.decode) in place of the decode table of the real decoder
		let lines2: Vec<String> = chunk.iter().map(|b| format!("tridas bin {}", hex(b))).collect();
		let replies2 = cx.model.ask_many(&lines2);
		for ((b, r), r2) in chunk.iter().zip(replies.iter()).zip(replies2.iter())
		{
			cx.report.compare("model.tridas.codec", &hex(b), r2, r);
			check_one(cx, b, r, serial);
			serial += 1;
		}
	}
	// a listing sample
	if let Some(b) = bins.get(7)
	{
		let p = cx.work.join("sample.bin");
		std::fs::write(&p, b).unwrap();
		if let Ok(o) = Command::new(repo_bin("tridas")).arg(&p).output()
		{
			cx.report.sample(format!("{} -> {}", hex(b), String::from_utf8_lossy(&o.stdout).replace('\n', " / ")));
		}
	}
	let _ = ImmReg::Immediate(0);
}
