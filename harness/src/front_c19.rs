//! C19 — the disassembly text of an instruction assembles back to that instruction.
use trion::arm6m::asm::{ImmReg, Instruction};
use trion::arm6m::reg::Register;
use trion::asm::arcob::Arcob;
use trion::asm::directive::DirectiveList;
use trion::text::parse::{Argument, ElementValue, Parser};
use trion::text::token::Number;

use super::*;

const ADDRS: [u32; 8] = [0x2000_0000, 0x2000_0002, 4, 2, 0xFFFF_FFF0, 0xFFFF_FFF2, 0xFFFF_FFFC, 0xFFFF_FFFE];

/// architectural target of a PC-relative instruction at `addr` (unbounded arithmetic), if it has one
fn target(i: &Instruction, addr: u32) -> Option<i64>
{
	match i
	{
		Instruction::B{off, ..} | Instruction::Bl{off} => Some(addr as i64 + 4 + *off as i64),
		Instruction::Adr{off, ..} => Some((addr & !3) as i64 + 4 + *off as i64),
		Instruction::Ldr{addr: Register::PC, off: ImmReg::Immediate(off), ..} => Some((addr & !3) as i64 + 4 + *off as i64),
		_ => None,
	}
}

/// The PC-relative offset the ARMv6-M manual assigns to a bit pattern, computed here from the raw halfwords and
/// independently of the crate's decoder (A6.7.10 B T1/T2, A6.7.13 BL, A6.7.3 ADR, A6.7.27 LDR literal).
fn arch_offset(b: &[u8]) -> Option<i64>
{
	let h0 = u16::from_le_bytes([b[0], b[1]]) as i64;
	let sext = |v: i64, bits: u32| -> i64 {if v >> (bits - 1) & 1 == 1 {v - (1i64 << bits)} else {v}};
	if h0 >> 12 == 0b1101 && (h0 >> 8 & 0xF) < 0b1110 {return Some(sext((h0 & 0xFF) << 1, 9));}
	if h0 >> 11 == 0b11100 {return Some(sext((h0 & 0x7FF) << 1, 12));}
	if h0 >> 11 == 0b10100 || h0 >> 11 == 0b01001 {return Some((h0 & 0xFF) * 4);}
	if h0 >> 11 == 0b11110 && b.len() >= 4
	{
		let h1 = u16::from_le_bytes([b[2], b[3]]) as i64;
		if h1 >> 14 == 0b11 && h1 >> 12 & 1 == 1
		{
			let (s, j1, j2) = (h0 >> 10 & 1, h1 >> 13 & 1, h1 >> 11 & 1);
			let (i1, i2) = (1 - (j1 ^ s), 1 - (j2 ^ s));
			return Some(sext(s << 24 | i1 << 23 | i2 << 22 | (h0 & 0x3FF) << 12 | (h1 & 0x7FF) << 1, 25));
		}
	}
	None
}

/// the decoded instruction's offset is the architectural one of the pattern it was decoded from
fn arch_check(cx: &mut Cx, b: &[u8], i: &Instruction)
{
	let dec = target(i, 0).map(|t| t - 4);
	let arch = arch_offset(b);
	if dec != arch
	{
		cx.report.oracle_fail(format!("raw {} @{}", hex(b), 0x2000_0000u32), format!("pattern {} has architectural PC-relative offset {arch:?}, the decoder gives {dec:?} ({})", hex(b), ser_instr(i)));
	}
}

/// the `l_XXXXXXXX` labels a text mentions
fn labels(text: &str) -> Vec<(String, u32)>
{
	let b = text.as_bytes();
	let mut out = Vec::new();
	let mut i = 0;
	while i + 10 <= b.len()
	{
		if b[i] == b'l' && b[i + 1] == b'_' && b[i + 2..i + 10].iter().all(|c| c.is_ascii_hexdigit()) && (i == 0 || !b[i - 1].is_ascii_alphanumeric())
		{
			let name = &text[i..i + 10];
			out.push((name.to_owned(), u32::from_str_radix(&text[i + 2..i + 10], 16).unwrap()));
			i += 10;
		}
		else {i += 1;}
	}
	out
}

struct Case
{
	instr: Instruction,
	addr: u32,
	/// labels defined after the statement (deferred) instead of before
	after: bool,
	/// also run the full staged prediction of the statement through `Front.assemble`
	staged: bool,
	/// the pattern the instruction was decoded from: what the assembled text must reproduce (the crate's own encoder is not the reference)
	raw: Option<Vec<u8>>,
	/// `Some(short)`: the label is a real LABEL in its own region `.addr <target>; l_X: NOP…` (before or after the statement's region as `after`
	/// says), filled with NOPs up to `short` halfwords below the statement (0 = exactly adjacent) when the target lies below the statement
	region: Option<u32>,
}

/// The bytes the printed text must assemble to: the pattern it was decoded from. One documented alias family is not reproducible from
/// the text: ADDS/SUBS Rd, Rd, #imm3 in the three-operand encoding (0001 11 op imm3 Rn Rd with Rn = Rd) is printed like, and assembles
/// to, the imm8 encoding (A6.7.2 T2 / A6.7.65 T2: 0011 op Rdn imm8).
fn canonical_of_raw(raw: &[u8]) -> Vec<u8>
{
	if raw.len() == 2
	{
		let h = u16::from_le_bytes([raw[0], raw[1]]);
		if h & 0xFC00 == 0x1C00 && (h >> 3 & 7) == (h & 7)
		{
			let (op, imm3, rd) = (h >> 9 & 1, h >> 6 & 7, h & 7);
			return (0x3000 | op << 11 | rd << 8 | imm3).to_le_bytes().to_vec();
		}
	}
	raw.to_vec()
}

fn input_of(c: &Case) -> String
{
	let flags = format!("{}{}{}", if c.after {"after"} else {"before"}, if c.staged {" staged"} else {""}, match c.region {Some(k) => format!(" region{k}"), None => String::new()});
	match &c.raw
	{
		Some(r) => format!("raw {} @{} {flags}", hex(r), c.addr),
		None => format!("{} @{} {flags}", ser_instr(&c.instr), c.addr),
	}
}

fn parse_input(s: &str) -> Option<Case>
{
	let (i, rest) = s.split_once(" @")?;
	let w: Vec<&str> = rest.split(' ').collect();
	Some(Case{instr: de_instr(i)?, addr: w.first()?.parse().ok()?, after: w.get(1) == Some(&"after"), staged: w.contains(&"staged"), raw: None,
		region: w.iter().find_map(|x| x.strip_prefix("region").and_then(|k| k.parse().ok()))})
}

fn run_batch(cx: &mut Cx, cases: &[Case], dirs: &DirectiveList)
{
	// model: text, rendering of the denoted statement, and `build` of the denoted statement
	let reqs: Vec<String> = cases.iter().map(|c| format!("front showbuild {} {}", c.addr, ser_instr(&c.instr))).collect();
	let replies = cx.model.ask_many(&reqs);
	let mut staged_progs: Vec<Program> = Vec::new();
	let mut staged_idx: Vec<(usize, String)> = Vec::new();
	let mut reals: Vec<Option<(String, Outcome)>> = Vec::new();
	for (k, (c, reply)) in cases.iter().zip(replies.iter()).enumerate()
	{
		let input = input_of(c);
		let text = match guarded(|| format!("{}", c.instr.at(c.addr)))
		{
			Ok(t) => t,
			Err(p) =>
			{
				cx.report.case(None);
				cx.report.compare("model.show.text", &input, reply, &format!("PANIC: {p}"));
				cx.report.oracle_fail(input, format!("Display panicked: {p}"));
				reals.push(None);
				continue;
			},
		};
		let th = hex(text.as_bytes());
		let parts: Vec<&str> = reply.split(" | ").collect();
		let texts: Vec<&str> = parts.first().map(|p| p.split(' ').collect()).unwrap_or_default();
		cx.report.compare("model.show.text", &input, texts.first().copied().unwrap_or(reply), &th);
		if texts.len() == 2 && texts[1] != texts[0]
		{
			cx.report.disagree("model.show.render", input.clone(), format!("render(parts) = {}", texts[1]), format!("text = {}", texts[0]));
		}
		// the instruction itself must fit below 2^32 (a 32-bit instruction cannot sit at 0xFFFFFFFE)
		if let Ok(enc) = encode(&c.instr)
		{
			if c.addr as u64 + enc.len() as u64 > 1u64 << 32
			{
				cx.report.case(None);
				cx.report.hit("skipped: the instruction does not fit below 2^32 at this address");
				reals.push(None);
				continue;
			}
		}
		// target inside the address space?
		let tgt = target(&c.instr, c.addr);
		let labs = labels(&text);
		if let Some(t) = tgt
		{
			if !(0..1i64 << 32).contains(&t)
			{
				cx.report.case(None);
				cx.report.hit("skipped: target outside the 32-bit address space");
				reals.push(None);
				continue;
			}
			if labs.len() != 1 || labs[0].1 as i64 != t
			{
				cx.report.oracle_fail(input.clone(), format!("text {text:?} does not name the architectural target {t:#x}"));
			}
		}
		else if !labs.is_empty()
		{
			cx.report.oracle_fail(input.clone(), format!("text {text:?} mentions a label but the instruction has no PC-relative target"));
		}
		let head = format!(".addr 0x{:X}; ", c.addr);
		let canon = encode(&c.instr);
		let len = canon.as_ref().map(|e| e.len() as u32).unwrap_or(2);
		// expected image: the statement's bytes (the ORIGINAL pattern when the case carries it) and the fillers of a label region
		let want_stmt: Result<Vec<u8>, String> = match &c.raw {Some(r) => Ok(canonical_of_raw(r)), None => canon.clone()};
		let mut want_img: std::collections::BTreeMap<u32, u8> = std::collections::BTreeMap::new();
		if let Ok(w) = &want_stmt {for (k, b) in w.iter().enumerate() {want_img.insert(c.addr.wrapping_add(k as u32), *b);}}
		let region_ok = c.region.is_some() && labs.len() == 1 && !(labs[0].1 as u64 > c.addr as u64 && (labs[0].1 as u64) < c.addr as u64 + len as u64) && labs[0].1 as u64 + 2 <= 1 << 32;
		let (prog, col) = if region_ok
		{
			let (name, t) = (&labs[0].0, labs[0].1);
			let short = c.region.unwrap();
			if t == c.addr {(format!("{head}{name}: {text}"), 0)}
			else
			{
				// fillers: below the statement up to `short` halfwords under it (at most 40), above it a few
				let k = if t < c.addr {((c.addr - t) / 2).saturating_sub(short).min(if (c.addr - t) / 2 <= 40 {40} else {3})} else {short.min(((1u64 << 32) - t as u64) as u32 / 2)};
				for j in 0..2 * k {want_img.insert(t + j, if j % 2 == 0 {0x00} else {0xBF});}
				let region = format!(".addr 0x{t:X}; {name}: {}", "NOP; ".repeat(k as usize));
				if c.after {(format!("{head}{text} {}", region.trim_end()), 0)} else {(format!("{region}{head}{text}"), 0)}
			}
		}
		else
		{
			let mut defs = String::new();
			for (n, v) in &labs {defs.push_str(&format!(".const {n}, 0x{v:X}; "));}
			if c.after {(format!("{head}{text} {}", defs.trim_end()), head.len() + 1)} else {(format!("{head}{defs}{text}"), head.len() + defs.len() + 1)}
		};
		let real = real_run(&prog, 1, col as u32, dirs);
		let got_img: std::collections::BTreeMap<u32, u8> = real.out.iter().flat_map(|(a, b)| b.iter().enumerate().map(move |(k, x)| (a.wrapping_add(k as u32), *x))).collect();
		let image_ok = want_stmt.is_ok() && got_img == want_img;
		// oracle on the implementation: exactly the bytes the text was decoded from, no diagnostics
		match (&want_stmt, &real.panic)
		{
			(_, Some(p)) => cx.report.oracle_fail(input.clone(), format!("the assembler panicked on {prog:?}: {p}")),
			(Err(e), _) => cx.report.oracle_fail(input.clone(), format!("a decoded instruction has no encoding: {e}")),
			(Ok(enc), None) =>
			{
				if !real.errs.is_empty() || !real.other.is_empty()
				{
					cx.report.oracle_fail(input.clone(), format!("{prog:?} is refused: {:?} {:?}", real.errs, real.other));
				}
				else if !image_ok
				{
					cx.report.oracle_fail(input.clone(), format!("{prog:?} assembles to {:?}; the pattern the text was printed for is {} at {:08X}{}", real.out, hex(enc), c.addr,
						if c.raw.as_ref().is_some_and(|r| *r != *enc) {" (imm8 form of the three-operand alias)"} else {""}));
				}
			},
		}
		if region_ok {cx.report.hit(if c.after {"label as a label in its own region, after the statement"} else {"label as a label in its own region, before the statement"});}
		// the model's build of the denoted statement gives the same instruction (what `show_assembles` proves)
		let want = format!("completed | {}", ser_instr(&c.instr));
		let got = match parts.get(1).copied()
		{
			Some("completed") => format!("completed | {}", parts.get(2).copied().unwrap_or("?")),
			Some(other) => other.to_owned(),   // `error <text>`, `deferred …`, `notfound …`, `panic`
			None => "?".to_owned(),
		};
		let imp = match (&canon, real.errs.is_empty() && real.other.is_empty() && real.panic.is_none())
		{
			(Ok(_), true) if image_ok => want.clone(),
			_ => match real.errs.first() {Some(e) => format!("error {e}"), None => format!("not assembled: {}", real.canon())},
		};
		cx.report.compare("model.front.build(show.parts)", &input, &got, &imp);
		cx.report.case(Some(&format!("{th}{}", c.addr)));
		cx.report.hit(if tgt.is_some() {if c.after {"pc-relative, label after (deferred)"} else {"pc-relative, label before"}} else {"not pc-relative"});
		if c.staged && !region_ok
		{
			match analyse(&prog)
			{
				Some(p) => {staged_progs.push(p); staged_idx.push((k, input.clone()));},
				None => cx.report.oracle_fail(input.clone(), format!("the printed text {prog:?} is not read back as one statement")),
			}
		}
		reals.push(Some((prog, real)));
	}
	if !staged_progs.is_empty()
	{
		let preds = predict_all(cx, &staged_progs, dirs);
		for ((k, input), (p, pred)) in staged_idx.iter().zip(staged_progs.iter().zip(preds.iter()))
		{
			if let Some((_, real)) = &reals[*k]
			{
				cx.report.compare("model.front.build", input, &pred.outcome(p.addr).canon(), &real.canon());
				cx.report.hit("staged prediction through Front.assemble");
			}
		}
	}
}

fn push_cases(out: &mut Vec<Case>, instr: Instruction, raw: &[u8], rng: &mut Rng, n: &mut u64, all_addrs: bool)
{
	let raw = Some(raw.to_vec());
	*n += 1;
	if target(&instr, 0).is_some()
	{
		if all_addrs
		{
			for a in ADDRS
			{
				let after = rng.chance(1, 4);
				out.push(Case{instr, addr: a, after, staged: after || rng.chance(1, 8), raw: raw.clone(), region: None});
				// the same statement with its label defined as a LABEL in a region of its own, exactly adjacent or a little short
				if rng.chance(1, 2) {out.push(Case{instr, addr: a, after: rng.chance(1, 2), staged: false, raw: raw.clone(), region: Some(*rng.pick(&[0u32, 0, 0, 1, 2, 5]))});}
			}
		}
		else
		{
			let after = rng.chance(1, 4);
			out.push(Case{instr, addr: *rng.pick(&ADDRS), after, staged: after || rng.chance(1, 8), raw: raw.clone(), region: None});
			if rng.chance(1, 3) {out.push(Case{instr, addr: *rng.pick(&ADDRS), after: rng.chance(1, 2), staged: false, raw: raw.clone(), region: Some(*rng.pick(&[0u32, 0, 1, 3]))});}
		}
	}
	else
	{
		out.push(Case{instr, addr: ADDRS[(*n % 8) as usize], after: false, staged: rng.chance(1, 16), raw, region: None});
	}
}

fn flush(cx: &mut Cx, cases: &mut Vec<Case>, dirs: &DirectiveList, force: bool)
{
	while cases.len() >= 8192 || (force && !cases.is_empty())
	{
		let n = cases.len().min(8192);
		let batch: Vec<Case> = cases.drain(..n).collect();
		run_batch(cx, &batch, dirs);
	}
}

fn wide_sample(rng: &mut Rng) -> (u16, u16)
{
	let edge10 = |rng: &mut Rng| -> u16 {match rng.below(6) {0 => 0, 1 => 1, 2 => 0x3FF, 3 => 0x200, 4 => 0x1FF, _ => rng.below(1024) as u16}};
	let edge11 = |rng: &mut Rng| -> u16 {match rng.below(6) {0 => 0, 1 => 1, 2 => 0x7FF, 3 => 0x400, 4 => 0x7FE, _ => rng.below(2048) as u16}};
	match rng.below(10)
	{
		0..=5 =>
		{
			let (s, j1, j2) = (rng.below(2) as u16, rng.below(2) as u16, rng.below(2) as u16);
			(0xF000 | s << 10 | edge10(rng), 0xD000 | j1 << 13 | j2 << 11 | edge11(rng))
		},
		6 | 7 =>
		{
			let (mut h0, mut h1) = match rng.below(4)
			{
				0 => (0xF380 | rng.below(16) as u16, 0x8800 | *rng.pick(&[0u16, 1, 2, 3, 5, 6, 7, 8, 9, 16, 20, 4, 10, 17, 255])),
				1 => (0xF3EF, 0x8000 | (rng.below(16) as u16) << 8 | *rng.pick(&[0u16, 1, 2, 3, 5, 6, 7, 8, 9, 16, 20, 4, 10, 17, 255])),
				2 => (0xF3BF, *rng.pick(&[0x8F40u16, 0x8F50, 0x8F60]) | rng.below(16) as u16),
				_ => (0xF7F0 | rng.below(16) as u16, 0xA000 | rng.below(4096) as u16),
			};
			if rng.chance(1, 4) {h0 ^= 1 << rng.below(11);}
			if rng.chance(1, 4) {h1 ^= 1 << rng.below(16);}
			(h0, h1)
		},
		_ => (0xE800 + rng.below(0x1800) as u16, rng.next() as u16),
	}
}

/// The hypotheses `EvalOK` of the theorem `show_assembles`, checked on the REAL `evaluate` over every operand
/// shape a decoded instruction can print: integer literals and register names evaluate to themselves, a label
/// defined as a constant evaluates to its value, and `[R + x]` evaluates to an address operand which `addr_off`
/// (model `Front.addrOff`) reads exactly as it reads `[R + x]` itself.
fn evalspec_audit(cx: &mut Cx, dirs: &DirectiveList)
{
	let empty = env_ctx(&Vec::new(), dirs);
	let mut reqs: Vec<String> = Vec::new();
	let mut what: Vec<String> = Vec::new();
	let names = ["R0", "R1", "R2", "R3", "R4", "R5", "R6", "R7", "R8", "R9", "R10", "R11", "R12", "SP", "LR", "PC"];
	let mut n = 0u64;
	for ad in names
	{
		let mut offs: Vec<String> = (0..=1024).map(|k| k.to_string()).collect();
		offs.extend([65535i64, 2147483647, 4294967295].iter().map(|k| k.to_string()));
		offs.extend(names.iter().map(|s| s.to_string()));
		for o in offs
		{
			let text = format!("X [{ad} + {o}];");
			let Some(Ok(el)) = Parser::new(text.as_bytes()).next() else {cx.report.oracle_fail(format!("evalspec {text}"), "does not parse"); continue;};
			let ElementValue::Instruction{args, ..} = el.value else {continue;};
			let args = Argument::vec_into_owned(args);
			let out = eval_out(&args[0], &empty);
			n += 1;
			let Some(rest) = out.strip_prefix("C a ") else
			{
				cx.report.oracle_fail(format!("evalspec {text}"), format!("evaluate does not leave a complete address operand: {out}"));
				continue;
			};
			let Argument::Address(inner) = &args[0] else {cx.report.oracle_fail(format!("evalspec {text}"), "not parsed as an address"); continue;};
			reqs.push(format!("front addroff 2 {rest}"));
			reqs.push(format!("front addroff 2 {}", arg_str(inner)));
			what.push(text);
		}
	}
	let replies = cx.model.ask_many(&reqs);
	for (k, t) in what.iter().enumerate()
	{
		cx.report.case(Some(&replies[2 * k]));
		if replies[2 * k] != replies[2 * k + 1]
		{
			cx.report.disagree("model.front.EvalOK.mem", format!("evalspec {t}"), format!("addrOff(evaluated) = {}", replies[2 * k]), format!("addrOff(written) = {}", replies[2 * k + 1]));
		}
	}
	// literals, register names, labels
	for v in [0i64, 1, 7, 255, 256, 65535, 1020, 2147483647, 4294967295]
	{
		let a = Argument::Constant(Number::Integer(v));
		let out = eval_out(&a, &empty);
		n += 1;
		if out != format!("C c {v}") {cx.report.oracle_fail(format!("evalspec const {v}"), format!("evaluate gives {out}"));}
	}
	for r in names
	{
		let a = Argument::Identifier(Arcob::Arced(std::sync::Arc::from(r)));
		let out = eval_out(&a, &empty);
		n += 1;
		if out != format!("C {}", arg_str(&a)) {cx.report.oracle_fail(format!("evalspec reg {r}"), format!("evaluate gives {out}"));}
	}
	for t in [0u32, 4, 0x2000_0000, 0xFFFF_FFFC, 0xFFFF_FFFF, 0x1234_5678]
	{
		let name = format!("l_{t:08X}");
		let ctx = env_ctx(&vec![(name.clone(), Some(t as i64))], dirs);
		let a = Argument::Identifier(Arcob::Arced(std::sync::Arc::from(name.as_str())));
		let out = eval_out(&a, &ctx);
		n += 1;
		if out != format!("C c {t}") {cx.report.oracle_fail(format!("evalspec label {name}"), format!("evaluate gives {out}"));}
	}
	cx.report.hit_n("EvalOK hypotheses on the real evaluate", n);
}

pub fn run(cx: &mut Cx)
{
	let dirs = dirs();
	cx.report.rule = "every decodable 16-bit pattern (all 65536 halfwords decoded) and a stratified sample of decodable 32-bit patterns \
(BL over sign/J1/J2 strata with boundary and random immediates, MSR/MRS/barriers/UDF.W with bit flips, uniform wide prefixes) x addresses \
{0x20000000, 0x20000002, 4, 2, 0xFFFFFFF0, 0xFFFFFFF2, 0xFFFFFFFC, 0xFFFFFFFE} (all eight for PC-relative 16-bit instructions, rotating otherwise): \
text = format!(\"{}\", instr.at(addr)); every l_XXXXXXXX it mentions is defined by `.const` before the statement (1/4: after = deferred); \
`.addr A; <text>` is assembled with the real Context; oracle: no diagnostic and the output is exactly instr.encode() at A, and the label \
names the architectural target (the offset is recomputed from the raw halfwords by the manual's formulas, independently of the crate's decoder); targets outside the address space are skipped and counted. Model: Show.text byte for byte, \
Show.render(Show.parts) = text, Front.build(Show.parts) = the instruction; a sample also through the staged Front.assemble prediction. \
non-trivial = assembled case; distinct = distinct (text, address)".to_owned();

	if let Some(input) = cx.replay.clone()
	{
		if let Some(rest) = input.strip_prefix("raw ")
		{
			let (h, a) = rest.split_once(" @").unwrap_or((rest, "536870912"));
			let w: Vec<&str> = a.split(' ').collect();
			let b = unhex(h).unwrap_or_default();
			match guarded(|| Instruction::decode(&b))
			{
				Ok(Ok((n, i))) =>
				{
					arch_check(cx, &b, &i);
					run_batch(cx, &[Case{instr: i, addr: w[0].parse().unwrap_or(0x2000_0000), after: w.contains(&"after"), staged: w.contains(&"staged"), raw: Some(b[..n].to_vec()),
						region: w.iter().find_map(|x| x.strip_prefix("region").and_then(|k| k.parse().ok()))}], dirs);
				},
				_ => cx.report.oracle_fail(input, "pattern does not decode"),
			}
			return;
		}
		match parse_input(&input)
		{
			Some(c) => run_batch(cx, &[c], dirs),
			None => cx.report.oracle_fail(input, "unrecognised replay input"),
		}
		return;
	}

	evalspec_audit(cx, dirs);

	let mut cases: Vec<Case> = Vec::new();
	let mut n16 = 0u64;
	for h in 0..=0xFFFFu32
	{
		let b = (h as u16).to_le_bytes();
		match guarded(|| Instruction::decode(&b))
		{
			Ok(Ok((2, i))) => {arch_check(cx, &b, &i); push_cases(&mut cases, i, &b, &mut cx.rng, &mut n16, true)},
			Ok(_) => (),
			Err(p) => cx.report.oracle_fail(format!("decode {h:04x}"), format!("decoder panicked: {p}")),
		}
		flush(cx, &mut cases, dirs, false);
	}
	flush(cx, &mut cases, dirs, true);
	cx.report.hit_n("decodable 16-bit patterns", n16);
	cx.report.exhaustive = true;   // over the 16-bit patterns; the 32-bit ones are sampled (see notes)
	cx.report.notes.push("exhaustive refers to the 16-bit patterns (all 65536 halfwords decoded); 32-bit patterns are a stratified sample".to_owned());

	let mut n32 = 0u64;
	let mut tried = 0u64;
	if cx.thorough()
	{
		let imm11s: [u16; 16] = [0, 1, 2, 3, 0x3FF, 0x400, 0x401, 0x7FE, 0x7FF, 0x555, 0x2AA, 0x100, 0x200, 0x600, 0x7F0, 0x00F];
		for sjj in 0..8u16
		{
			for imm10 in 0..1024u16
			{
				for imm11 in imm11s
				{
					let h0 = 0xF000 | (sjj >> 2) << 10 | imm10;
					let h1 = 0xD000 | ((sjj >> 1) & 1) << 13 | (sjj & 1) << 11 | imm11;
					let b = [h0.to_le_bytes(), h1.to_le_bytes()].concat();
					tried += 1;
					if let Ok(Ok((4, i))) = guarded(|| Instruction::decode(&b)) {arch_check(cx, &b, &i); push_cases(&mut cases, i, &b, &mut cx.rng, &mut n32, false);}
				}
				flush(cx, &mut cases, dirs, false);
			}
		}
		cx.report.hit_n("BL strata (S,J1,J2) x all imm10 x 16 imm11", 8 * 1024 * 16);
	}
	let want = if cx.thorough() {1_000_000} else {200_000};
	let mut got = 0u64;
	while got < want && tried < 40_000_000
	{
		let (h0, h1) = wide_sample(&mut cx.rng);
		let b = [h0.to_le_bytes(), h1.to_le_bytes()].concat();
		tried += 1;
		if let Ok(Ok((4, i))) = guarded(|| Instruction::decode(&b))
		{
			got += 1;
			arch_check(cx, &b, &i);
			push_cases(&mut cases, i, &b, &mut cx.rng, &mut n32, false);
			flush(cx, &mut cases, dirs, false);
		}
	}
	flush(cx, &mut cases, dirs, true);
	cx.report.hit_n("decodable 32-bit patterns (sampled)", n32);
	cx.report.sample(format!("{} -> {}", ser_instr(&Instruction::B{cond: trion::arm6m::cond::Condition::Equal, off: -4}), Instruction::B{cond: trion::arm6m::cond::Condition::Equal, off: -4}.at(0x2000_0000)));
}
