//! C05 / C06 — the whole assembly pipeline (`Context::assemble` + `close_segment` + `finalize`).
//!
//! C05: generated well-formed projects (AST → text); oracle = a two-pass reference layout computed here from the
//!      AST (pass 1: addresses and symbol values, sizes are value independent; pass 2: every expression in the
//!      final symbol table); the real image must equal it exactly and no diagnostic may be recorded. The same
//!      program is sent in abstract form (`layout run …`) to the Lean model `Trion.Layout`.
//! C06: the same projects with one ill-formed construct spliced in, byte-level mutations, and a corpus of the
//!      panics found at design time; oracle = no panic, outcome shape, invalid constructs diagnosed. The
//!      self-include stack overflow (known finding K2) is exercised in a child process.
use std::collections::{BTreeMap, HashMap};

use trion::arm6m::asm::{ImmReg, Instruction};
use trion::arm6m::cond::Condition;
use trion::arm6m::reg::Register;
use trion::arm6m::regset::RegisterSet;
use trion::arm6m::Arm6M;
use trion::asm::directive::DirectiveList;
use trion::asm::Context;

use crate::common::*;

// ---------------------------------------------------------------------------------------------------------
// expressions

#[derive(Clone, Debug)]
pub enum E
{
	Num(i64),
	Name(String),
	Bin(&'static str, Box<E>, Box<E>),
	Neg(Box<E>),
}

impl E
{
	fn render(&self, rng: &mut Rng) -> String
	{
		match self
		{
			E::Num(v) =>
			{
				if *v < 0 {format!("(0 - {})", -(*v as i128))}
				else
				{
					match rng.below(4)
					{
						0 => format!("0x{v:X}"),
						1 if *v < 256 => format!("0b{v:b}"),
						_ => format!("{v}"),
					}
				}
			},
			E::Name(n) => n.clone(),
			E::Bin(op, l, r) => format!("({} {} {})", l.render(rng), op, r.render(rng)),
			E::Neg(a) => format!("(-{})", a.render(rng)),
		}
	}

	fn eval(&self, env: &HashMap<String, i64>) -> Option<i64>
	{
		Some(match self
		{
			E::Num(v) => *v,
			E::Name(n) => *env.get(n)?,
			E::Neg(a) => a.eval(env)?.checked_neg()?,
			E::Bin(op, l, r) =>
			{
				let (l, r) = (l.eval(env)?, r.eval(env)?);
				match *op
				{
					"+" => l.checked_add(r)?,
					"-" => l.checked_sub(r)?,
					"*" => l.checked_mul(r)?,
					"/" => if r == 0 {return None} else {l.checked_div(r)?},
					"%" => if r == 0 {return None} else {l.checked_rem(r)?},
					"&" => l & r,
					"|" => l | r,
					"^" => l ^ r,
					"<<" => if !(0..64).contains(&r) || l < 0 || (l as i128) << r > i64::MAX as i128 {return None} else {l << r},
					">>" => if !(0..64).contains(&r) || l < 0 {return None} else {l >> r},
					_ => unreachable!(),
				}
			},
		})
	}

	fn names(&self, out: &mut Vec<String>)
	{
		match self
		{
			E::Num(..) => (),
			E::Name(n) => if !out.contains(n) {out.push(n.clone())},
			E::Bin(_, l, r) => {l.names(out); r.names(out);},
			E::Neg(a) => a.names(out),
		}
	}
}

// ---------------------------------------------------------------------------------------------------------
// statements

#[derive(Clone, Debug)]
pub enum Ins
{
	/// operand-free or fully literal instruction: text (without ';') and its value
	Fixed(String, Instruction),
	MovImm(u8, E),
	AddImm(u8, E),
	CmpImm(u8, E),
	LdrOff(u8, u8, E),
	Svc(E),
	Udfw(E),
	Udf(E),
	Bkpt(E),
	LslImm(u8, u8, E),
	SubImm3(u8, u8, E),
	StrbOff(u8, u8, E),
	AddSp(E),
	Branch(Option<Condition>, E),
	Bl(E),
	Adr(u8, E),
	LdrLit(u8, E),
}

#[derive(Clone, Debug)]
pub enum St
{
	Addr(u32),
	Align(u32),
	Const(String, E),
	Label(String),
	Du(u8, E),
	Dstr(String),
	Dhex(Vec<u8>),
	Dfile(String, Vec<u8>),
	Ins(Ins),
	Global(String),
	Import(String),
	Export(String),
	Include(String, Vec<St>),
	/// raw text spliced in by the C06 generator
	Raw(String),
}

fn reg(n: u8) -> Register {Register::try_from(n).unwrap()}

const COND_NAMES: [(&str, Condition); 16] = [
	("BEQ", Condition::Equal), ("BNE", Condition::NonEqual), ("BCS", Condition::CarrySet), ("BHS", Condition::CarrySet),
	("BCC", Condition::CarryClear), ("BLO", Condition::CarryClear), ("BMI", Condition::Minus), ("BPL", Condition::Plus),
	("BVS", Condition::Overflow), ("BVC", Condition::NoOverflow), ("BHI", Condition::Higher), ("BLS", Condition::LowerEqual),
	("BGE", Condition::GreaterEqual), ("BLT", Condition::Less), ("BGT", Condition::Greater), ("BLE", Condition::LessEqual),
];

impl Ins
{
	fn size(&self) -> u32 {if matches!(self, Ins::Bl(..) | Ins::Udfw(..)) {4} else if let Ins::Fixed(_, i) = self {enc(i).len() as u32} else {2}}

	fn expr(&self) -> Option<&E>
	{
		match self
		{
			Ins::Fixed(..) => None,
			Ins::MovImm(_, e) | Ins::AddImm(_, e) | Ins::CmpImm(_, e) | Ins::LdrOff(_, _, e) | Ins::Svc(e) | Ins::Branch(_, e)
				| Ins::Bl(e) | Ins::Adr(_, e) | Ins::LdrLit(_, e) | Ins::Udfw(e) | Ins::Udf(e) | Ins::Bkpt(e) | Ins::LslImm(_, _, e)
				| Ins::SubImm3(_, _, e) | Ins::StrbOff(_, _, e) | Ins::AddSp(e) => Some(e),
		}
	}

	fn render(&self, rng: &mut Rng) -> String
	{
		let r = |n: &u8, rng: &mut Rng| -> String
		{
			let s = match (*n, rng.below(3)) {(13, 0) => "SP".to_owned(), (14, 0) => "LR".to_owned(), (15, 0) => "PC".to_owned(), (n, _) => format!("R{n}")};
			if rng.chance(1, 4) {s.to_lowercase()} else {s}
		};
		let m = |s: &str, rng: &mut Rng| -> String {if rng.chance(1, 4) {s.to_lowercase()} else {s.to_owned()}};
		match self
		{
			Ins::Fixed(t, _) => t.clone(),
			Ins::MovImm(d, e) => format!("{} {}, {}", m("MOVS", rng), r(d, rng), e.render(rng)),
			Ins::AddImm(d, e) => {let d = r(d, rng); format!("{} {d}, {d}, {}", m("ADDS", rng), e.render(rng))},
			Ins::CmpImm(d, e) => format!("{} {}, {}", m("CMP", rng), r(d, rng), e.render(rng)),
			Ins::LdrOff(d, a, e) => if rng.chance(1, 2) {format!("{} {}, [{} + {}]", m("LDR", rng), r(d, rng), r(a, rng), e.render(rng))}
				else {format!("{} {}, [{} + {}]", m("LDR", rng), r(d, rng), e.render(rng), r(a, rng))},
			Ins::Svc(e) => format!("{} {}", m("SVC", rng), e.render(rng)),
			Ins::Udfw(e) => format!("{} {}", m("UDF.W", rng), e.render(rng)),
			Ins::Udf(e) => format!("{} {}", m("UDF.N", rng), e.render(rng)),
			Ins::Bkpt(e) => format!("{} {}", m("BKPT", rng), e.render(rng)),
			Ins::LslImm(d, v, e) => format!("{} {}, {}, {}", m("LSLS", rng), r(d, rng), r(v, rng), e.render(rng)),
			Ins::SubImm3(d, l, e) => format!("{} {}, {}, {}", m("SUBS", rng), r(d, rng), r(l, rng), e.render(rng)),
			Ins::StrbOff(d, a, e) => format!("{} {}, [{} + {}]", m("STRB", rng), r(d, rng), r(a, rng), e.render(rng)),
			Ins::AddSp(e) => format!("{} {sp}, {sp}, {}", m("ADD", rng), e.render(rng), sp = r(&13, rng)),
			Ins::Branch(None, e) => format!("{} {}", m("B", rng), e.render(rng)),
			Ins::Branch(Some(c), e) =>
			{
				let names: Vec<&str> = COND_NAMES.iter().filter(|(_, k)| k == c).map(|(n, _)| *n).collect();
				{let nm = *rng.pick(&names[..]); format!("{} {}", m(nm, rng), e.render(rng))}
			},
			Ins::Bl(e) => format!("{} {}", m("BL", rng), e.render(rng)),
			Ins::Adr(d, e) => format!("{} {}, {}", m("ADR", rng), r(d, rng), e.render(rng)),
			Ins::LdrLit(d, e) => format!("{} {}, {}", m("LDR", rng), r(d, rng), e.render(rng)),
		}
	}

	/// the instruction value the statement denotes at `addr` in `env`; None = not encodable (generator must avoid)
	fn value(&self, addr: u32, env: &HashMap<String, i64>) -> Option<Instruction>
	{
		let v = match self.expr() {Some(e) => e.eval(env)?, None => 0};
		Some(match self
		{
			Ins::Fixed(_, i) => *i,
			Ins::MovImm(d, _) => Instruction::Mov{flags: true, dst: reg(*d), src: ImmReg::Immediate(i32::try_from(v).ok()?)},
			Ins::AddImm(d, _) => Instruction::Add{flags: true, dst: reg(*d), lhs: reg(*d), rhs: ImmReg::Immediate(i32::try_from(v).ok()?)},
			Ins::CmpImm(d, _) => Instruction::Cmp{lhs: reg(*d), rhs: ImmReg::Immediate(i32::try_from(v).ok()?)},
			Ins::LdrOff(d, a, _) => Instruction::Ldr{dst: reg(*d), addr: reg(*a), off: ImmReg::Immediate(i32::try_from(v).ok()?)},
			Ins::Svc(_) => Instruction::Svc{info: u8::try_from(v).ok()?},
			Ins::Udfw(_) => Instruction::Udfw{info: u16::try_from(v).ok()?},
			Ins::Udf(_) => Instruction::Udf{info: u8::try_from(v).ok()?},
			Ins::Bkpt(_) => Instruction::Bkpt{info: u8::try_from(v).ok()?},
			Ins::LslImm(d, x, _) => Instruction::Lsl{dst: reg(*d), value: reg(*x), shift: ImmReg::Immediate(i32::try_from(v).ok()?)},
			Ins::SubImm3(d, l, _) => Instruction::Sub{flags: true, dst: reg(*d), lhs: reg(*l), rhs: ImmReg::Immediate(i32::try_from(v).ok()?)},
			Ins::StrbOff(d, a, _) => Instruction::Strb{src: reg(*d), addr: reg(*a), off: ImmReg::Immediate(i32::try_from(v).ok()?)},
			Ins::AddSp(_) => Instruction::Add{flags: false, dst: Register::SP, lhs: Register::SP, rhs: ImmReg::Immediate(i32::try_from(v).ok()?)},
			Ins::Branch(c, _) =>
			{
				let tgt = u32::try_from(v).ok()?;
				let off = tgt as i64 - (addr as i64 + 4); // not wrapped (fix F25)
				Instruction::B{cond: c.unwrap_or(Condition::Always), off: i32::try_from(off).ok()?}
			},
			Ins::Bl(_) =>
			{
				let tgt = u32::try_from(v).ok()?;
				Instruction::Bl{off: i32::try_from(tgt as i64 - (addr as i64 + 4)).ok()?}
			},
			Ins::Adr(d, _) =>
			{
				let tgt = u32::try_from(v).ok()?;
				let off = tgt as i64 - ((addr & !3) as i64 + 4);
				Instruction::Adr{dst: reg(*d), off: u16::try_from(off).ok()?}
			},
			Ins::LdrLit(d, _) =>
			{
				let tgt = u32::try_from(v).ok()?;
				let off = tgt as i64 - ((addr & !3) as i64 + 4);
				if off < 0 {return None;}
				Instruction::Ldr{dst: reg(*d), addr: Register::PC, off: ImmReg::Immediate(i32::try_from(off).ok()?)}
			},
		})
	}
}

fn enc(i: &Instruction) -> Vec<u8>
{
	let mut b = [0u8; 4];
	match i.encode(&mut b) {Ok(n) => b[..n].to_vec(), Err(..) => Vec::new()}
}

// ---------------------------------------------------------------------------------------------------------
// projects

#[derive(Clone, Debug)]
pub struct Project
{
	/// file name → text; "main.asm" is the entry point; binary files for .dfile too
	pub files: Vec<(String, Vec<u8>)>,
}

impl Project
{
	pub fn single(text: &[u8]) -> Self {Self{files: vec![("main.asm".to_owned(), text.to_vec())]}}

	pub fn to_input(&self) -> String
	{
		format!("proj {}", self.files.iter().map(|(n, d)| format!("{n}={}", hex(d))).collect::<Vec<_>>().join(" "))
	}

	pub fn from_input(s: &str) -> Option<Self>
	{
		let rest = s.strip_prefix("proj ")?;
		let mut files = Vec::new();
		for part in rest.split(' ').filter(|p| !p.is_empty())
		{
			let (n, d) = part.split_once('=')?;
			files.push((n.to_owned(), unhex(d)?));
		}
		Some(Self{files})
	}

	pub fn write(&self, dir: &std::path::Path)
	{
		let _ = std::fs::remove_dir_all(dir);
		std::fs::create_dir_all(dir).unwrap();
		for (n, d) in &self.files
		{
			let p = dir.join(n);
			if let Some(parent) = p.parent() {std::fs::create_dir_all(parent).unwrap();}
			std::fs::write(p, d).unwrap();
		}
	}
}

/// What the real pipeline did with a project.
#[derive(Clone, Debug)]
pub struct Outcome
{
	pub assemble_ok: bool,
	/// kind of the `SegmentError` of `close_segment` (errkind::seg_kind)
	pub close_err: Option<String>,
	pub finalize: bool,
	/// (file, line, col, KIND of the diagnostic: errkind::diag_kind — computed from the structure of the error value, never from its text)
	pub errors: Vec<(String, u32, u32, String)>,
	/// what `eprintln!("Error: {err}")` of the executable prints for each diagnostic; only its position suffix `(file:line:col)` is
	/// ever looked at (diagpos.rs), never the wording
	pub printed: Vec<String>,
	pub image: BTreeMap<u32, u8>,
	pub segments: Vec<(u32, usize)>,
}

/// `assemble` + `close_segment` + `finalize` exactly as src/bin/assembler.rs drives them; Err = panic message
pub fn run_real(dir: &std::path::Path) -> Result<Outcome, String>
{
	let path = dir.join("main.asm");
	let data = std::fs::read(&path).unwrap();
	guarded(||
	{
		let directives = DirectiveList::generate();
		let mut ctx = Context::new(&Arm6M, &directives);
		let (res, _) = ctx.assemble(&data, path.clone());
		let close_err = match ctx.close_segment() {Ok(..) => None, Err(e) => Some(crate::errkind::seg_kind(&e))};
		let fin = if close_err.is_none() {ctx.finalize()} else {false};
		let mut errors = Vec::new();
		let mut printed = Vec::new();
		for e in ctx.get_errors()
		{
			printed.push(format!("{e}"));
			errors.push((e.name.as_ref().clone(), e.line, e.col, crate::errkind::diag_kind(&e.value)));
		}
		let mut image = BTreeMap::new();
		let mut segments = Vec::new();
		for (range, seg) in ctx.output().iter()
		{
			segments.push((range.get_first(), seg.len()));
			for (i, b) in seg.iter().enumerate() {image.insert(range.get_first().wrapping_add(i as u32), *b);}
		}
		Outcome{assemble_ok: res.is_ok(), close_err, finalize: fin, errors, printed, image, segments}
	})
}

// ---------------------------------------------------------------------------------------------------------
// generator of well-formed programs

struct Gen<'a>
{
	rng: &'a mut Rng,
	next_name: usize,
	/// names with a value known at the current point of the CURRENT file (usable in .const / .addr / .align)
	known: Vec<String>,
	/// names usable in deferred positions of the current file (own labels/consts anywhere, children's globals)
	usable: Vec<String>,
	files: Vec<(String, Vec<u8>)>,
	next_file: usize,
}

const FIXED: &[(&str, fn() -> Instruction)] = &[
	("NOP", || Instruction::Nop),
	("WFI", || Instruction::Wfi),
	("SEV", || Instruction::Sev),
	("ADCS R1, R2", || Instruction::Adc{dst: Register::R1, rhs: Register::R2}),
	("MOV R8, R0", || Instruction::Mov{flags: false, dst: Register::R8, src: ImmReg::Register(Register::R0)}),
	("ADD R0, R0, R9", || Instruction::Add{flags: false, dst: Register::R0, lhs: Register::R0, rhs: ImmReg::Register(Register::R9)}),
	("PUSH {R0, R4, LR}", || Instruction::Push{registers: RegisterSet::of(0b0100_0000_0001_0001)}),
	("POP {R1, PC}", || Instruction::Pop{registers: RegisterSet::of(0b1000_0000_0000_0010)}),
	("BX LR", || Instruction::Bx{off: Register::LR}),
	("MRS R3, PRIMASK", || Instruction::Mrs{dst: Register::R3, src: trion::arm6m::sysreg::SystemReg::PRIMASK}),
	("DSB SY", || Instruction::Dsb),
	("UDF.W 4660", || Instruction::Udfw{info: 4660}),
	("STR R2, [SP + 8]", || Instruction::Str{src: Register::R2, addr: Register::SP, off: ImmReg::Immediate(8)}),
	("LDRSB R1, [R2 + R3]", || Instruction::Ldrsb{dst: Register::R1, addr: Register::R2, off: Register::R3}),
	("CPSID i", || Instruction::Cps{enable: false}),
	("RSBS R1, R2, 0", || Instruction::Rsb{dst: Register::R1, lhs: Register::R2}),
	("LSLS R1, R2, 31", || Instruction::Lsl{dst: Register::R1, value: Register::R2, shift: ImmReg::Immediate(31)}),
];

/// a statement list for one file plus bookkeeping; bases are symbolic (`St::Addr` is inserted later)
#[derive(Clone, Debug)]
struct Region {stmts: Vec<St>}

impl<'a> Gen<'a>
{
	fn fresh(&mut self, prefix: &str) -> String
	{
		self.next_name += 1;
		let styles = ["{p}{n}", "{p}_{n}", "{p}.x{n}", "_{p}{n}", "{p}${n}"];
		rng_style(*self.rng.pick(&styles[..]), prefix, self.next_name)
	}
}

fn rng_style(style: &str, p: &str, n: usize) -> String {style.replace("{p}", p).replace("{n}", &n.to_string())}

/// An expression whose value in `env_final` is `want`, built around a symbol `sym` (value `symv`) when given.
fn expr_for(rng: &mut Rng, sym: Option<(&str, i64)>, want: i64) -> E
{
	match sym
	{
		None =>
		{
			match rng.below(5)
			{
				0 if want >= 2 && want % 2 == 0 => E::Bin("*", Box::new(E::Num(want / 2)), Box::new(E::Num(2))),
				1 => E::Bin("+", Box::new(E::Num(want - 3)), Box::new(E::Num(3))),
				2 if want >= 0 => E::Bin("|", Box::new(E::Num(want & 0x55)), Box::new(E::Num(want & !0x55))),
				3 if want >= 0 && want < (1 << 40) => E::Bin(">>", Box::new(E::Num(want << 3)), Box::new(E::Num(3))),
				_ => E::Num(want),
			}
		},
		Some((name, v)) if rng.chance(1, 3) =>
		{
			// a term over the symbol using the other operators (every node kind must survive deferral), corrected additively
			let s = || Box::new(E::Name(name.to_owned()));
			let k = 1 + rng.below(60) as i64;
			let term = match rng.below(9)
			{
				0 => E::Bin("^", s(), Box::new(E::Num(k | 0x14))),
				1 => E::Bin("|", s(), Box::new(E::Num(k))),
				2 => E::Bin("&", s(), Box::new(E::Num(0xFF0F))),
				3 => E::Bin(">>", s(), Box::new(E::Num(k % 5))),
				4 => E::Bin("<<", Box::new(E::Bin("&", s(), Box::new(E::Num(0xFFFF)))), Box::new(E::Num(k % 9))),
				5 => E::Bin("%", s(), Box::new(E::Num(k + 1))),
				6 => E::Bin("/", s(), Box::new(E::Num(k))),
				7 => E::Bin("*", Box::new(E::Bin("&", s(), Box::new(E::Num(0xFFF)))), Box::new(E::Num(k % 7))),
				_ => E::Bin("^", Box::new(E::Num(k)), Box::new(E::Bin("|", s(), Box::new(E::Num(3))))),
			};
			let mut env = HashMap::new();
			env.insert(name.to_owned(), v);
			match term.eval(&env)
			{
				Some(tv) => E::Bin("+", Box::new(term), Box::new(E::Num(want - tv))),
				None => E::Bin("+", s(), Box::new(E::Num(want - v))),
			}
		},
		Some((name, v)) =>
		{
			let s = Box::new(E::Name(name.to_owned()));
			let d = want - v;
			match rng.below(6)
			{
				0 => E::Bin("+", s, Box::new(E::Num(d))),
				1 => E::Bin("-", s, Box::new(E::Num(-d))),
				2 => E::Bin("+", Box::new(E::Num(d)), s),
				3 => E::Bin("-", Box::new(E::Bin("+", s, Box::new(E::Num(d + 7)))), Box::new(E::Num(7))),
				4 => E::Bin("+", Box::new(E::Bin("+", s, Box::new(E::Num(1)))), Box::new(E::Num(d - 1))),
				_ if d == 0 => *s,
				_ => E::Bin("+", Box::new(E::Bin("*", s, Box::new(E::Num(1)))), Box::new(E::Num(d))),
			}
		},
	}
}

/// Sizes are value independent.
fn st_size(st: &St, cursor: u32) -> u32
{
	match st
	{
		St::Addr(..) | St::Const(..) | St::Label(..) | St::Global(..) | St::Import(..) | St::Export(..) | St::Raw(..) => 0,
		St::Align(n) => if *n == 0 || cursor % n == 0 {0} else {n - cursor % n},
		St::Du(k, _) => *k as u32,
		St::Dstr(s) => s.len() as u32,
		St::Dhex(b) => b.len() as u32,
		St::Dfile(_, b) => b.len() as u32,
		St::Ins(i) => i.size(),
		St::Include(_, body) =>
		{
			let mut c = cursor;
			for s in body {c = c.wrapping_add(st_size(s, c));}
			c.wrapping_sub(cursor)
		},
	}
}

/// pass 1: label/const values (flat environment: the generator makes all names unique)
fn pass1(stmts: &[St], cursor: &mut Option<u32>, env: &mut HashMap<String, i64>) -> Option<()>
{
	for st in stmts
	{
		match st
		{
			St::Addr(a) => *cursor = Some(*a),
			St::Label(n) => {env.insert(n.clone(), cursor.clone()? as i64);},
			St::Const(n, e) => {let v = e.eval(env)?; env.insert(n.clone(), v);},
			St::Include(_, body) => pass1(body, cursor, env)?,
			_ => {let c = cursor.as_mut()?; *c = c.checked_add(st_size(st, *c))?;},
		}
	}
	Some(())
}

/// pass 1 for damaged programs: keeps going, first definition of a name wins
fn pass1_lenient(stmts: &[St], cursor: &mut Option<u32>, env: &mut HashMap<String, i64>)
{
	for st in stmts
	{
		match st
		{
			St::Addr(a) => *cursor = Some(*a),
			St::Label(n) => if let Some(c) = cursor {env.entry(n.clone()).or_insert(*c as i64);},
			St::Const(n, e) => if let Some(v) = e.eval(env) {env.entry(n.clone()).or_insert(v);},
			St::Include(_, body) => pass1_lenient(body, cursor, env),
			_ => if let Some(c) = cursor.as_mut() {*c = c.saturating_add(st_size(st, *c));},
		}
	}
}

/// pass 2: bytes
fn pass2(stmts: &[St], cursor: &mut Option<u32>, env: &HashMap<String, i64>, image: &mut BTreeMap<u32, u8>) -> Option<()>
{
	pass2_in(stmts, cursor, env, image, &mut false)
}

/// as `pass2`; `overlap` is set when the reason for `None` is that two statements claim the same address
fn pass2_in(stmts: &[St], cursor: &mut Option<u32>, env: &HashMap<String, i64>, image: &mut BTreeMap<u32, u8>, overlap: &mut bool) -> Option<()>
{
	for st in stmts
	{
		let bytes: Vec<u8> = match st
		{
			St::Addr(a) => {*cursor = Some(*a); continue;},
			St::Label(..) | St::Const(..) | St::Global(..) | St::Import(..) | St::Export(..) | St::Raw(..) => continue,
			St::Include(_, body) => {pass2_in(body, cursor, env, image, overlap)?; continue;},
			St::Align(..) => vec![0xBE; st_size(st, cursor.clone()?) as usize],
			St::Du(k, e) =>
			{
				let v = e.eval(env)?;
				match k
				{
					1 => vec![u8::try_from(v).ok()?],
					2 => u16::try_from(v).ok()?.to_le_bytes().to_vec(),
					_ => u32::try_from(v).ok()?.to_le_bytes().to_vec(),
				}
			},
			St::Dstr(s) => s.as_bytes().to_vec(),
			St::Dhex(b) => b.clone(),
			St::Dfile(_, b) => b.clone(),
			St::Ins(i) =>
			{
				let b = enc(&i.value(cursor.clone()?, env)?);
				if b.is_empty() {return None;}
				b
			},
		};
		let c = cursor.as_mut()?;
		for (i, b) in bytes.iter().enumerate()
		{
			if image.insert(c.checked_add(i as u32)?, *b).is_some() {*overlap = true; return None;} // overlap
		}
		*c = c.checked_add(bytes.len() as u32).unwrap_or(u32::MAX);
	}
	Some(())
}

fn render_stmts(stmts: &[St], rng: &mut Rng, files: &mut Vec<(String, Vec<u8>)>) -> String
{
	render_stmts_in(stmts, rng, files, "")
}

/// `dir` = directory (with trailing '/', or empty) of the file being rendered, relative to the project root:
/// `.include` / `.dfile` paths in the source are relative to the file that mentions them
fn render_stmts_in(stmts: &[St], rng: &mut Rng, files: &mut Vec<(String, Vec<u8>)>, dir: &str) -> String
{
	let mut out = String::new();
	for st in stmts
	{
		let sep = match rng.below(12) {0 => "\n", 1 => "\n\t", 2 => " // c\n", 3 => " /* c /* n */ */ ", 4 => "\r\n",
			// nested comments whose inner end is directly followed by `*`, by another opening, `/*/`, `**/`; a line comment that ends in `*/`
			5 => " /* a /* b */* c */ ", 6 => " /* /* x */ /* y */ */ // z */\n", 7 => " /* /*/ */ **/ ", 8 => "/* **/ // */\n", _ => "\n"};
		let ws = |rng: &mut Rng| -> &'static str {match rng.below(6) {0 => "  ", 1 => "\t", 2 => " /*x*/ ", _ => " "}};
		let line = match st
		{
			St::Addr(a) => format!(".addr{}0x{a:X};", ws(rng)),
			St::Align(n) => format!(".align {n};"),
			St::Const(n, e) => format!(".const {n},{}{};", ws(rng), e.render(rng)),
			St::Label(n) => format!("{n}:"),
			St::Du(k, e) => format!(".du{}{}{};", *k as u32 * 8, ws(rng), e.render(rng)),
			St::Dstr(s) => format!(".dstr \"{}\";", s.replace('\\', "\\\\").replace('"', "\\\"")),
			St::Dhex(b) => format!(".dhex \"{}\";", b.iter().map(|x| if rng.chance(1, 3) {format!("{x:02X} ")} else {format!("{x:02x}")}).collect::<String>()),
			St::Dfile(n, b) =>
			{
				let full = format!("{dir}{n}");
				if !files.iter().any(|(f, _)| *f == full) {files.push((full, b.clone()));}
				format!(".dfile \"{n}\";")
			},
			St::Ins(i) => format!("{};", i.render(rng)),
			St::Global(n) => format!(".global {n};"),
			St::Import(n) => format!(".import {n};"),
			St::Export(n) => format!(".export {n};"),
			St::Include(n, body) =>
			{
				let sub = match n.rfind('/') {Some(i) => format!("{dir}{}", &n[..=i]), None => dir.to_owned()};
				let text = render_stmts_in(body, rng, files, &sub);
				files.push((format!("{dir}{n}"), text.into_bytes()));
				format!(".include \"{n}\";")
			},
			St::Raw(t) => t.clone(),
		};
		out.push_str(&line);
		out.push_str(sep);
	}
	out
}

/// One generated well-formed program: statements with concrete region bases, plus the reference image.
pub struct Generated
{
	pub stmts: Vec<St>,
	pub project: Project,
	pub image: BTreeMap<u32, u8>,
	pub env: HashMap<String, i64>,
	pub shape: Vec<&'static str>,
}

fn gen_body(g: &mut Gen, n: usize, depth: usize, shape: &mut Vec<&'static str>, labels_here: &mut Vec<String>) -> Vec<St>
{
	// first decide the labels/consts of this file so that forward references are possible
	let nlabels = 1 + g.rng.below(3) as usize;
	let mut future: Vec<String> = (0..nlabels).map(|_| g.fresh("lab")).collect();
	labels_here.extend(future.iter().cloned());
	let mut body = Vec::new();
	let mut placed = 0usize;
	for i in 0..n
	{
		// sprinkle label definitions
		if !future.is_empty() && (g.rng.chance(1, 3) || n - i <= future.len())
		{
			let l = future.remove(0);
			body.push(St::Label(l.clone()));
			g.known.push(l);
			placed += 1;
		}
		let pick = g.rng.below(20);
		let st = match pick
		{
			0 | 1 =>
			{
				let n = g.fresh("k");
				let e = if !g.known.is_empty() && g.rng.chance(1, 2)
				{
					// constants may only use names whose value is known at this point; the value is resolved later by pass 1
					let s = g.rng.pick(&g.known).clone();
					E::Bin(*g.rng.pick(&["+", "-", "|"]), Box::new(E::Name(s)), Box::new(E::Num(g.rng.below(64) as i64)))
				}
				else {E::Num(g.rng.below(300) as i64)};
				g.known.push(n.clone());
				shape.push("const");
				St::Const(n, e)
			},
			2 | 3 | 4 => {shape.push("du"); St::Du(*g.rng.pick(&[1u8, 2, 4]), E::Num(0) /* filled in later */)},
			5 => {shape.push("dstr"); St::Dstr(g.rng.pick(&["", "a", "hé\"llo", "tab\\t", "xyzw"]).to_string())},
			6 => {shape.push("dhex"); St::Dhex((0..g.rng.below(6)).map(|_| g.rng.next() as u8).collect())},
			7 =>
			{
				shape.push("dfile");
				g.next_file += 1;
				{
					let len = if g.rng.chance(1, 12) {*g.rng.pick(&[1023u64, 1024, 1025, 2049])} else {g.rng.below(40)};
					let sub = *g.rng.pick(&["", "", "", "bin/", "a.d/b/"]);
					St::Dfile(format!("{sub}blob{}.bin", g.next_file), (0..len).map(|_| g.rng.next() as u8).collect())
				}
			},
			8 => {shape.push("align"); St::Align(*g.rng.pick(&[1u32, 2, 4, 8, 16, 3, 256]))},
			9 | 10 | 11 => {shape.push("fixed-instr"); let (t, f) = g.rng.pick(FIXED); St::Ins(Ins::Fixed(t.to_string(), f()))},
			12 => {shape.push("imm-instr"); St::Ins(match g.rng.below(12)
				{
					5 => Ins::Udfw(E::Num(0)),
					6 => Ins::Udf(E::Num(0)),
					7 => Ins::Bkpt(E::Num(0)),
					8 => Ins::LslImm(g.rng.below(8) as u8, g.rng.below(8) as u8, E::Num(0)),
					9 => {let d = g.rng.below(8) as u8; Ins::SubImm3(d, (d + 1 + g.rng.below(7) as u8) % 8, E::Num(0))},
					10 => Ins::StrbOff(g.rng.below(8) as u8, g.rng.below(8) as u8, E::Num(0)),
					11 => Ins::AddSp(E::Num(0)),
					0 => Ins::MovImm(g.rng.below(8) as u8, E::Num(0)),
					1 => Ins::AddImm(g.rng.below(8) as u8, E::Num(0)),
					2 => Ins::CmpImm(g.rng.below(8) as u8, E::Num(0)),
					3 => Ins::LdrOff(g.rng.below(8) as u8, g.rng.below(8) as u8, E::Num(0)),
					_ => Ins::Svc(E::Num(0)),
				})},
			13 | 14 | 15 => {shape.push("branch"); St::Ins(match g.rng.below(3)
				{
					0 => Ins::Branch(None, E::Num(0)),
					1 => Ins::Branch(Some(COND_NAMES[g.rng.below(16) as usize].1), E::Num(0)),
					_ => Ins::Bl(E::Num(0)),
				})},
			16 => {shape.push("pc-rel"); St::Ins(if g.rng.chance(1, 2) {Ins::Adr(g.rng.below(8) as u8, E::Num(0))} else {Ins::LdrLit(g.rng.below(8) as u8, E::Num(0))})},
			17 if depth < 2 =>
			{
				shape.push("include");
				g.next_file += 1;
				let fname = format!("{}inc{}.asm", *g.rng.pick(&["", "", "sub/", "x/y/"]), g.next_file);
				// the child: own scope; exports some labels with .global; imports some parent constants
				let saved_known = std::mem::take(&mut g.known);
				let mut child_labels = Vec::new();
				let mut child = Vec::new();
				let imports: Vec<String> = saved_known.iter().filter(|_| g.rng.chance(1, 3)).cloned().collect();
				for n in &imports {child.push(St::Import(n.clone())); g.known.push(n.clone());}
				let k = 1 + g.rng.below(5) as usize;
				let inner = gen_body(g, k, depth + 1, shape, &mut child_labels);
				// .global declarations before or after the definitions
				let exported: Vec<String> = child_labels.iter().filter(|_| g.rng.chance(1, 2)).cloned().collect();
				let (pre, post): (Vec<_>, Vec<_>) = exported.iter().cloned().partition(|_| g.rng.chance(1, 2));
				for n in pre {child.push(St::Global(n));}
				child.extend(inner);
				for n in post {child.push(St::Global(n));}
				// what the child may use in deferred position: its own labels + imports; recorded in the statements themselves later
				let child_names: Vec<String> = g.known.clone();
				g.known = saved_known;
				for n in &exported {g.known.push(n.clone());}
				let _ = child_names;
				St::Include(fname, child)
			},
			_ => {shape.push("fixed-instr"); let (t, f) = g.rng.pick(FIXED); St::Ins(Ins::Fixed(t.to_string(), f()))},
		};
		body.push(st);
	}
	for l in future {body.push(St::Label(l.clone())); g.known.push(l); placed += 1;}
	let _ = placed;
	body
}

/// names a statement list defines (labels, consts) and, for includes, what the child makes visible to it
fn visible_names(stmts: &[St], own: &mut Vec<String>)
{
	for st in stmts
	{
		match st
		{
			St::Label(n) | St::Const(n, _) => own.push(n.clone()),
			St::Import(n) => own.push(n.clone()),
			St::Include(_, body) =>
			{
				// only the child's .global names
				fn globals(b: &[St], out: &mut Vec<String>) {for s in b {if let St::Global(n) = s {out.push(n.clone());}}}
				globals(body, own);
			},
			_ => (),
		}
	}
}

/// fill the placeholder expressions (`E::Num(0)` put by gen_body) with expressions over names visible in that file
fn fill_exprs(stmts: &mut Vec<St>, rng: &mut Rng, env: &HashMap<String, i64>, start: Option<u32>) -> Option<u32>
{
	let mut own = Vec::new();
	visible_names(stmts, &mut own);
	let mut cursor = start;
	for st in stmts.iter_mut()
	{
		let here = cursor;
		// advance the cursor first (sizes are value independent)
		match &mut *st
		{
			St::Addr(a) => {cursor = Some(*a);},
			St::Include(_, body) => {cursor = fill_exprs(body, rng, env, cursor);},
			other => {if let Some(c) = cursor.as_mut() {*c = c.wrapping_add(st_size(&*other, *c));}},
		}
		let sym = |rng: &mut Rng| -> Option<(String, i64)>
		{
			if own.is_empty() || rng.chance(1, 4) {None} else {let n = rng.pick(&own).clone(); env.get(&n).map(|v| (n, *v))}
		};
		match st
		{
			St::Du(k, e) =>
			{
				let max: i64 = match k {1 => 0xFF, 2 => 0xFFFF, _ => 0xFFFF_FFFF};
				let s = sym(rng);
				let want = match &s
				{
					Some((_, v)) if *v >= 0 && *v <= max && rng.chance(1, 2) => *v,
					_ => {let r = (rng.next() as i64).rem_euclid(max + 1); *rng.pick(&[0, 1, max, max - 1, max / 2, r])},
				};
				*e = expr_for(rng, s.as_ref().map(|(n, v)| (n.as_str(), *v)), want);
			},
			St::Ins(ins) =>
			{
				let addr = here?;
				let s = sym(rng);
				let sr = s.as_ref().map(|(n, v)| (n.as_str(), *v));
				match ins
				{
					Ins::MovImm(_, e) | Ins::AddImm(_, e) | Ins::CmpImm(_, e) | Ins::Svc(e) => {let r = rng.below(256) as i64; let w = *rng.pick(&[0, 1, 255, 254, 128, r]); *e = expr_for(rng, sr, w)},
					Ins::LdrOff(_, _, e) => {let r = rng.below(32) as i64; let w = 4 * *rng.pick(&[0, 1, 31, 30, r]); *e = expr_for(rng, sr, w)},
					Ins::Udfw(e) => {let r = rng.below(65536) as i64; let w = *rng.pick(&[0, 1, 65535, 4660, r]); *e = expr_for(rng, sr, w)},
					Ins::Udf(e) | Ins::Bkpt(e) => {let r = rng.below(256) as i64; let w = *rng.pick(&[0, 255, r]); *e = expr_for(rng, sr, w)},
					Ins::LslImm(_, _, e) => {let r = 1 + rng.below(31) as i64; let w = *rng.pick(&[1, 31, r]); *e = expr_for(rng, sr, w)},
					Ins::SubImm3(_, _, e) => {let w = rng.below(8) as i64; *e = expr_for(rng, sr, w)},
					Ins::StrbOff(_, _, e) => {let w = rng.below(32) as i64; *e = expr_for(rng, sr, w)},
					Ins::AddSp(e) => {let w = 4 * rng.below(128) as i64; *e = expr_for(rng, sr, w)},
					Ins::Branch(c, e) =>
					{
						// prefer a real label as the target when one is in range
						let (lo, hi) = if c.is_none() {(-2048i64, 2046i64)} else {(-256, 254)};
						let pc = addr as i64 + 4;
						let cands: Vec<(String, i64)> = own.iter().filter_map(|n| env.get(n).map(|v| (n.clone(), *v)))
							.filter(|(_, v)| (*v - pc) >= lo && (*v - pc) <= hi && (*v - pc) % 2 == 0 && *v >= 0).collect();
						if !cands.is_empty() && rng.chance(3, 4)
						{
							let (n, _) = rng.pick(&cands).clone();
							*e = E::Name(n);
						}
						else
						{
							let off = *rng.pick(&[lo, hi, 0, -2, 2, -4]);
							let tgt = pc + off;
							if tgt < 0 || tgt > 0xFFFF_FFFF {*e = E::Num(pc);} else {*e = expr_for(rng, sr, tgt);}
						}
					},
					Ins::Bl(e) =>
					{
						let pc = addr as i64 + 4;
						let cands: Vec<(String, i64)> = own.iter().filter_map(|n| env.get(n).map(|v| (n.clone(), *v)))
							.filter(|(_, v)| (*v - pc).abs() < (1 << 24) && (*v - pc) % 2 == 0 && *v >= 0).collect();
						if !cands.is_empty() && rng.chance(3, 4) {*e = E::Name(rng.pick(&cands).0.clone());}
						else
						{
							let off = *rng.pick(&[-(1i64 << 24), (1 << 24) - 2, 0, -4, 4096]);
							let tgt = pc + off;
							if tgt < 0 || tgt > 0xFFFF_FFFF {*e = E::Num(pc);} else {*e = expr_for(rng, sr, tgt);}
						}
					},
					Ins::Adr(_, e) | Ins::LdrLit(_, e) =>
					{
						let al = (addr & !3) as i64 + 4;
						let cands: Vec<(String, i64)> = own.iter().filter_map(|n| env.get(n).map(|v| (n.clone(), *v)))
							.filter(|(_, v)| (*v - al) >= 0 && (*v - al) <= 1020 && (*v - al) % 4 == 0).collect();
						if !cands.is_empty() && rng.chance(3, 4) {*e = E::Name(rng.pick(&cands).0.clone());}
						else
						{
							let tgt = al + 4 * *rng.pick(&[0i64, 255, 1, 254]);
							if tgt > 0xFFFF_FFFF {*e = E::Num(al);} else {*e = expr_for(rng, sr, tgt);}
						}
					},
					Ins::Fixed(..) => (),
				}
			},
			_ => (),
		}
	}
	cursor
}

pub fn generate(rng: &mut Rng) -> Option<Generated>
{
	let mut shape = Vec::new();
	let mut g = Gen{rng, next_name: 0, known: Vec::new(), usable: Vec::new(), files: Vec::new(), next_file: 0};
	let _ = &g.usable;
	let nregions = 1 + g.rng.below(4) as usize;
	let mut regions: Vec<Region> = Vec::new();
	let mut all_labels = Vec::new();
	for _ in 0..nregions
	{
		let n = 1 + g.rng.below(9) as usize;
		let stmts = gen_body(&mut g, n, 0, &mut shape, &mut all_labels);
		regions.push(Region{stmts});
	}
	// choose bases: far apart, adjacent after, adjacent before (only when the size does not depend on the base), near the top
	let mut placed: Vec<(u32, u32)> = Vec::new(); // (base, size)
	let mut stmts: Vec<St> = Vec::new();
	let has_align = |r: &Region| -> bool
	{
		fn any(b: &[St]) -> bool {b.iter().any(|s| matches!(s, St::Align(..)) || matches!(s, St::Include(_, x) if any(x)))}
		any(&r.stmts)
	};
	let size_at = |r: &Region, base: u32| -> Option<u32>
	{
		let mut c = base;
		for s in &r.stmts {c = c.checked_add(st_size(s, c))?;}
		Some(c - base)
	};
	for r in regions.iter()
	{
		let mut base = None;
		for _try in 0..20
		{
			let cand: u32 = match g.rng.below(10)
			{
				0 | 1 if !placed.is_empty() => {shape.push("adjacent-after"); let (b, s) = *g.rng.pick(&placed); match b.checked_add(s) {Some(x) => x, None => continue}},
				2 | 3 if !placed.is_empty() && !has_align(r) =>
				{
					let (b, _) = *g.rng.pick(&placed);
					let sz = match size_at(r, 0) {Some(s) => s, None => continue};
					if sz == 0 || b < sz {continue;}
					shape.push("adjacent-before");
					b - sz
				},
				4 => {let sz = size_at(r, 0).unwrap_or(0); if has_align(r) || sz == 0 {continue;} shape.push("top-of-space"); (0xFFFF_FFFFu32 - sz).wrapping_add(1)},
				5 => 0x1000_0000 + (g.rng.below(64) as u32) * 4,
				6 => g.rng.below(16) as u32,
				_ => 0x2000_0000 + (g.rng.below(1 << 20) as u32),
			};
			let Some(sz) = size_at(r, cand) else {continue};
			let end = cand as u64 + sz as u64;
			if end > 1 << 32 {continue;}
			// no overlap with placed regions (an empty region may not start inside another either)
			if placed.iter().any(|(b, s)| (cand as u64) < *b as u64 + *s as u64 && (*b as u64) < end.max(cand as u64 + 1)) {continue;}
			// an empty earlier region at the same base would make `.addr` a no-op/refusal ambiguity: avoid equal bases
			if placed.iter().any(|(b, _)| *b == cand) {continue;}
			base = Some((cand, sz));
			break;
		}
		let (b, sz) = base?;
		placed.push((b, sz));
		stmts.push(St::Addr(b));
		stmts.extend(r.stmts.iter().cloned());
	}
	// pass 1 with placeholder expressions (sizes are value independent, consts only use known names)
	let mut env = HashMap::new();
	let mut cursor = None;
	pass1(&stmts, &mut cursor, &mut env)?;
	let mut frng = g.rng.fork();
	fill_exprs(&mut stmts, &mut frng, &env, None);
	// reference image
	let mut image = BTreeMap::new();
	let mut cursor = None;
	pass2(&stmts, &mut cursor, &env, &mut image)?;
	let mut files = Vec::new();
	let mut rrng = g.rng.fork();
	let main = render_stmts(&stmts, &mut rrng, &mut files);
	let mut all = vec![("main.asm".to_owned(), main.into_bytes())];
	all.extend(files);
	Some(Generated{stmts, project: Project{files: all}, image, env, shape})
}

fn image_str(img: &BTreeMap<u32, u8>) -> String
{
	let mut out = String::new();
	let mut prev: Option<u32> = None;
	for (a, b) in img
	{
		if prev.map_or(true, |p| p.wrapping_add(1) != *a || *a == 0) {if !out.is_empty() {out.push(' ');} out.push_str(&format!("{a:08x}:"));}
		out.push_str(&format!("{b:02x}"));
		prev = Some(*a);
	}
	if out.is_empty() {"-".to_owned()} else {out}
}


// ---------------------------------------------------------------------------------------------------------
// abstract form for the Lean layout model (single-file programs only)

fn abstract_form(stmts: &[St], env: &HashMap<String, i64>) -> Option<String>
{
	let mut ids: HashMap<String, usize> = HashMap::new();
	let mut id = |n: &str, ids: &mut HashMap<String, usize>| -> usize {let k = ids.len() + 1; *ids.entry(n.to_owned()).or_insert(k)};
	let deps_of = |e: &E, ids: &mut HashMap<String, usize>, id: &mut dyn FnMut(&str, &mut HashMap<String, usize>) -> usize| -> String
	{
		let mut names = Vec::new();
		e.names(&mut names);
		if names.is_empty() {"-".to_owned()} else {names.iter().map(|n| id(n, ids).to_string()).collect::<Vec<_>>().join(",")}
	};
	let mut out = Vec::new();
	let mut cursor: Option<u32> = None;
	for st in stmts
	{
		let here = cursor;
		match st
		{
			St::Addr(a) => cursor = Some(*a),
			other => if let Some(c) = cursor.as_mut() {*c = c.wrapping_add(st_size(other, *c));},
		}
		out.push(match st
		{
			St::Addr(a) => format!("A:{a}"),
			St::Align(n) => format!("G:{n}"),
			St::Label(n) => format!("L:{}", id(n, &mut ids)),
			St::Const(n, e) =>
			{
				let d = deps_of(e, &mut ids, &mut id);
				format!("C:{}:{}:{}", id(n, &mut ids), d, e.eval(env).unwrap_or(0))
			},
			St::Du(k, e) =>
			{
				let d = deps_of(e, &mut ids, &mut id);
				let bytes = match (e.eval(env), k)
				{
					(Some(v), 1) => u8::try_from(v).ok().map(|x| vec![x]),
					(Some(v), 2) => u16::try_from(v).ok().map(|x| x.to_le_bytes().to_vec()),
					(Some(v), _) => u32::try_from(v).ok().map(|x| x.to_le_bytes().to_vec()),
					(None, _) => None,
				};
				// the symbols are defined but the value does not fit: outside the abstract language (a range diagnostic)
				let mut names = Vec::new();
				e.names(&mut names);
				if bytes.is_none() && names.iter().all(|n| env.contains_key(n)) {return None;}
				let bytes = bytes.unwrap_or_else(|| vec![0; *k as usize]);
				format!("E:{k}:{d}:{}", hex(&bytes))
			},
			St::Dstr(s) => format!("R:{}", hex(s.as_bytes())),
			St::Dhex(b) | St::Dfile(_, b) => format!("R:{}", hex(b)),
			St::Ins(Ins::Fixed(_, i)) => format!("R:{}", hex(&enc(i))),
			St::Ins(ins) =>
			{
				let d = deps_of(ins.expr().unwrap(), &mut ids, &mut id);
				let mut bytes = here.and_then(|a| ins.value(a, env)).map(|i| enc(&i)).unwrap_or_default();
				let mut names = Vec::new();
				ins.expr().unwrap().names(&mut names);
				if bytes.is_empty() && here.is_some() && names.iter().all(|n| env.contains_key(n)) {return None;}
				if bytes.is_empty() {bytes = vec![0; ins.size() as usize];}
				format!("E:{}:{d}:{}", ins.size(), hex(&bytes))
			},
			St::Global(..) | St::Import(..) | St::Export(..) | St::Include(..) | St::Raw(..) => return None,
		});
	}
	Some(if out.is_empty() {"-".to_owned()} else {out.join(";")})
}

fn fail_kind(o: &Outcome) -> String
{
	if let Some(c) = &o.close_err {return format!("close:{c}");}
	let Some(first) = o.errors.first() else {return "fail ?".to_owned()};
	let m = &first.3;
	let k = if m.contains("occupied.") {"occupied"}
		else if m.contains("overflow.") || m.contains(".write.") {"overflow"}
		else if m.contains("duplicate") {"duplicate"}
		else if m.contains("nosuch") || m.contains("notfound") {"undefined"}
		else if m.contains("inactive") {"inactive"}
		else if m.contains("range") {"range"}
		else {"other"};
	format!("fail {k}")
}

/// AST-level damage that keeps the program inside the layout model's language
fn damage(rng: &mut Rng, stmts: &mut Vec<St>) -> &'static str
{
	let addr_idx: Vec<usize> = stmts.iter().enumerate().filter(|(_, s)| matches!(s, St::Addr(..))).map(|(i, _)| i).collect();
	let label_idx: Vec<usize> = stmts.iter().enumerate().filter(|(_, s)| matches!(s, St::Label(..))).map(|(i, _)| i).collect();
	match rng.below(7)
	{
		0 if addr_idx.len() >= 2 =>
		{
			// make a later region start inside / at / just before an earlier one
			let i = *rng.pick(&addr_idx[1..]);
			let St::Addr(first) = stmts[addr_idx[0]] else {unreachable!()};
			stmts[i] = St::Addr(first.wrapping_add(rng.below(4) as u32).wrapping_sub(rng.below(3) as u32));
			"collide"
		},
		1 if !label_idx.is_empty() =>
		{
			let i = *rng.pick(&label_idx);
			let l = stmts[i].clone();
			let at = rng.below(stmts.len() as u64 + 1) as usize;
			stmts.insert(at, l);
			"duplicate-label"
		},
		2 if !label_idx.is_empty() => {stmts.remove(*rng.pick(&label_idx)); "remove-label"},
		3 => {stmts.remove(0); "no-first-addr"},
		4 if !addr_idx.is_empty() =>
		{
			let i = *rng.pick(&addr_idx);
			stmts[i] = St::Addr(0xFFFF_FFFF - rng.below(6) as u32);
			"top"
		},
		5 if !addr_idx.is_empty() =>
		{
			// re-select the base of the current region later on
			let i = *rng.pick(&addr_idx);
			let a = stmts[i].clone();
			let at = (i + 1 + rng.below(4) as usize).min(stmts.len());
			stmts.insert(at, a);
			"reselect"
		},
		_ =>
		{
			let at = rng.below(stmts.len() as u64 + 1) as usize;
			stmts.insert(at, St::Align(*rng.pick(&[0u32, 1, 2, 4, 64, 4096])));
			"align"
		},
	}
}

/// C05 on a damaged program: the property speaks about every program that assembles without a diagnostic, so when the
/// real pipeline accepts a damaged program its image must still be the two-pass reference layout, and a program in which
/// two statements claim the same address must not be accepted at all. One-directional: nothing is demanded when the
/// implementation reports a diagnostic or when the reference is undefined for another reason (names defined twice,
/// a region that ends exactly at 2^32, values out of range).
fn check_damaged_reference(cx: &mut Cx, stmts: &[St], project: &Project, dir: &std::path::Path)
{
	let (mut env, mut cur) = (HashMap::new(), None);
	if pass1(stmts, &mut cur, &mut env).is_none() {return;}
	let (mut lenv, mut lcur) = (HashMap::new(), None);
	pass1_lenient(stmts, &mut lcur, &mut lenv);
	if lenv != env {return;}   // some name is defined twice
	let (mut image, mut cur, mut overlap) = (BTreeMap::new(), None, false);
	let r = pass2_in(stmts, &mut cur, &env, &mut image, &mut overlap);
	if r.is_none() && !overlap {return;}
	project.write(dir);
	let Ok(o) = run_real(dir) else {return};   // panics are reported by the correspondence step
	if !(o.assemble_ok && o.close_err.is_none() && o.finalize && o.errors.is_empty()) {return;}
	cx.report.hit(if overlap {"damaged: accepted with overlap"} else {"damaged: accepted, image checked against the reference"});
	if overlap
	{
		cx.report.oracle_fail(project.to_input(), format!("assembled without a diagnostic although two statements claim the same address; image {}", image_str(&o.image)));
	}
	else if o.image != image
	{
		cx.report.oracle_fail(project.to_input(), format!("image differs from the sequential layout: expected {} | got {}", image_str(&image), image_str(&o.image)));
	}
}

/// correspondence of the real pipeline with `Trion.Layout.run` (and of the reference with `Trion.Layout.Ref.layout`)
fn check_layout_model(cx: &mut Cx, stmts: &[St], env: &HashMap<String, i64>, project: &Project, dir: &std::path::Path, reference: Option<&BTreeMap<u32, u8>>)
{
	let Some(abs) = abstract_form(stmts, env) else {return};
	project.write(dir);
	let real = match run_real(dir)
	{
		Err(p) => format!("PANIC {p}"),
		Ok(o) => if o.close_err.is_none() && o.finalize {format!("ok {}", image_str(&o.image))} else {fail_kind(&o)},
	};
	let model = cx.model.ask(&format!("layout run {abs}"));
	let model_c = if model == "fail PANIC" {"PANIC".to_owned()} else {model.clone()};
	let real_c = if real.starts_with("PANIC") {"PANIC".to_owned()} else {real.clone()};
	cx.report.hit(&format!("layout model: {}", if real_c.starts_with("ok") {"ok".to_owned()} else {real_c.clone()}));
	// kinds of failure are compared only coarsely: both fail, or both succeed with the same image
	let agree = if real_c.starts_with("ok ") || model_c.starts_with("ok ") {real_c == model_c} else {true};
	if !agree {cx.report.disagree("model.layout.run", format!("layout {abs} | {}", project.to_input()), model, real);}
	if let Some(img) = reference
	{
		let r = cx.model.ask(&format!("layout ref {abs}"));
		let want = format!("ok {}", image_str(img));
		if r != want {cx.report.disagree("model.layout.ref", format!("layout {abs} | {}", project.to_input()), r, want);}
	}
}

// ---------------------------------------------------------------------------------------------------------
// correspondence with the whole-pipeline model `Trion.Asm.run` (`asm run …`): success/failure, the three
// results of assemble/close/finalize, every diagnostic's (file, line, col, kind) in order, and the image

fn canon_real(o: &Outcome, dir: &std::path::Path) -> String
{
	let prefix = format!("{}/", dir.display());
	let success = o.close_err.is_none() && o.finalize;
	let close = o.close_err.clone().unwrap_or_else(|| "-".to_owned());
	let diags: Vec<String> = o.errors.iter().map(|(f, l, c, k)|
	{
		let rel = f.strip_prefix(&prefix).unwrap_or(f);
		format!("{}:{l}:{c}:{k}", hex(rel.as_bytes()))
	}).collect();
	format!("{} a={} c={} f={} | {} | {}", if success {"ok"} else {"fail"}, o.assemble_ok as u8, close, o.finalize as u8,
		if diags.is_empty() {"-".to_owned()} else {diags.join(",")}, image_str(&o.image))
}

/// upper bound on what is sent to the model (its byte lists make huge paddings slow)
const MODEL_MAX_IMAGE: usize = 1 << 16;

/// `model.asm.run`: the project as it is in `dir` (already written) through the real pipeline and through `Trion.Asm.run`
pub fn check_asm_model(cx: &mut Cx, project: &Project, dir: &std::path::Path)
{
	let real = match run_real(dir)
	{
		Err(_) => "panic".to_owned(),
		Ok(o) =>
		{
			if o.image.len() > MODEL_MAX_IMAGE {cx.report.hit("asm model: skipped (image > 64 KiB)"); return;}
			if o.errors.iter().any(|e| e.3.contains("include.fileread")) {cx.report.hit("asm model: skipped (unreadable file)"); return;}
			canon_real(&o, dir)
		},
	};
	let total: usize = project.files.iter().map(|f| f.1.len()).sum();
	if total > 200_000 {cx.report.hit("asm model: skipped (project > 200 kB)"); return;}
	let req = format!("asm run {}", project.files.iter().map(|(n, d)| format!("{n}={}", if d.is_empty() {"-".to_owned()} else {hex(d)})).collect::<Vec<_>>().join(" "));
	let model = cx.model.ask(&req);
	cx.report.hit(&format!("asm model: {}", model.split(' ').next().unwrap_or("")));
	if model != real {cx.report.disagree("model.asm.run", project.to_input(), model, real);}
}

// ---------------------------------------------------------------------------------------------------------
// C05

fn check_c05(cx: &mut Cx, gen: &Generated, dir: &std::path::Path)
{
	gen.project.write(dir);
	let input = gen.project.to_input();
	match run_real(dir)
	{
		Err(p) => cx.report.oracle_fail(input, format!("panic: {p}")),
		Ok(o) =>
		{
			let ok = o.assemble_ok && o.close_err.is_none() && o.finalize && o.errors.is_empty();
			let img = image_str(&o.image);
			cx.report.case(if gen.image.is_empty() {None} else {Some(&img)});
			if !ok
			{
				cx.report.oracle_fail(input, format!("a well-formed program was not assembled cleanly: assemble_ok={} close={:?} finalize={} errors={:?}",
					o.assemble_ok, o.close_err, o.finalize, o.errors.iter().take(3).collect::<Vec<_>>()));
			}
			else if o.image != gen.image
			{
				let want = image_str(&gen.image);
				let diff = gen.image.iter().find(|(a, b)| o.image.get(a) != Some(b)).map(|(a, b)| format!("at {a:08x} expected {b:02x} got {:?}", o.image.get(a)))
					.or_else(|| o.image.iter().find(|(a, _)| !gen.image.contains_key(a)).map(|(a, b)| format!("unexpected byte {b:02x} at {a:08x}")));
				cx.report.oracle_fail(input, format!("image differs from the sequential layout: {} | expected {} | got {}", diff.unwrap_or_default(), &want[..want.len().min(300)], &img[..img.len().min(300)]));
			}
			else
			{
				// segments maximal and ascending
				for w in o.segments.windows(2)
				{
					if w[0].0 as u64 + w[0].1 as u64 >= w[1].0 as u64 + 0 && w[0].0 as u64 + w[0].1 as u64 > w[1].0 as u64
					{
						cx.report.oracle_fail(gen.project.to_input(), "output segments overlap");
					}
				}
			}
		},
	}
}

// ---------------------------------------------------------------------------------------------------------
// C06

const INVALID: &[(&str, &str)] = &[
	("register-as-constant", ".const R0, 1;"),
	("register-as-constant", ".const sp, 1;"),
	("register-as-constant", ".global R7;"),
	("register-as-constant", ".global PRIMASK;"),
	("register-as-constant", "pc:"),
	("register-as-constant", ".const primask, 3;"),
	("register-as-constant", ".const CONTROL, 1;"),
	("register-as-constant", "control:"),
	("register-as-constant", "Primask:"),
	("register-as-constant", ".global control; .const control, 1;"),
	("register-as-constant", ".const iepsr, 1;"),
	("register-as-constant", ".const XPSR, 1;"),
	("register-as-constant", ".const r12, 1;"),
	("register-as-constant", "lr:"),
	("register-as-constant", ".const msp, 1;"),
	("register-as-constant", ".const apsr, 1;"),
	("arity", ".du8;"),
	("arity", ".du8 1, 2;"),
	("arity", "NOP 1;"),
	("arity", "ADCS R0;"),
	("arity", "ADCS R0, R1, R2;"),
	("arity", ".addr;"),
	("arity", ".const x9;"),
	("arity", ".include;"),
	("arity", ".global;"),
	("kind", ".du8 \"s\";"),
	("kind", ".dstr 5;"),
	("kind", ".dhex 5;"),
	("kind", ".dfile 5;"),
	("kind", "MOVS R0, \"x\";"),
	("kind", "MOVS 5, R0;"),
	("kind", ".addr \"x\";"),
	("kind", ".include 5;"),
	("kind", ".const 5, 5;"),
	("kind", ".global 5;"),
	("kind", "PUSH R0;"),
	("kind", "LDR R0, {R1};"),
	("kind", ".du8 [R0];"),
	("kind", ".du8 \"a\" + 1;"),
	("unknown", "FOO R0;"),
	("unknown", ".bar 1;"),
	("unknown", "ADC R0, R1;"),
	("unknown", "MOVS_TOO_LONG_MNEMONIC R0;"),
	("range", ".du8 256;"),
	("range", ".du8 0 - 1;"),
	("range", ".du16 65536;"),
	("range", ".du32 0x100000000;"),
	("range", "MOVS R0, 256;"),
	("range", "MOVS R8, 1;"),
	("range", "ADDS R0, R0, 0 - 1;"),
	("range", ".addr 0x100000000;"),
	("range", ".align 0;"),
	("range", "LDR R0, [R1 + 3];"),
	("range", "SVC 256;"),
	("range", "LSLS R0, R1, 32;"),
	("range", "BX PC;"),
	("range", "CMP PC, R0;"),
	("range", ".du8 1 << 64;"),
	("range", ".du8 1 / 0;"),
	("range", ".du32 0x7FFFFFFFFFFFFFFF + 1;"),
	("undefined", ".du8 nope;"),
	("undefined", "MOVS R0, nope;"),
	("undefined", "B nope;"),
	("undefined", ".const c9, nope;"),
	("undefined", ".addr nope;"),
	("undefined", ".export nope;"),
	("undefined", ".import nope;"),
	("undefined", ".global never_defined;"),
	("duplicate", ".const dup, 1; .const dup, 2;"),
	("duplicate", "dupl: dupl:"),
	("duplicate", ".global g9; .global g9;"),
	// every order of definition / .global / .export / second publication of one name
	("duplicate", "d9: .global d9; .global d9;"),
	("duplicate", ".const d9, 1; .global d9; .global d9;"),
	("duplicate", ".global d9; .const d9, 1; .global d9;"),
	("duplicate", ".global d9; .global d9; .const d9, 1;"),
	("duplicate", ".const d9, 1; .export d9; .global d9;"),
	("duplicate", ".const d9, 1; .global d9; .export d9;"),
	("duplicate", ".global d9; .const d9, 1; .export d9;"),
	("duplicate", ".const d9, 1; .export d9; .export d9;"),
	("duplicate", ".const d9, 1; .export d9; .const e9, 2; .global d9; .du8 e9;"),
	("hex", ".dhex \"0g\";"),
	("hex", ".dhex \"abc\";"),
	("hex", ".dhex \"a\";"),
	("hex", ".dhex \"abcde\";"),
	("hex", ".dhex \"a\u{e9}\";"),
	("hex", ".dhex \"0a5\u{20ac}\";"),
	("hex", ".dhex \"\u{e9}\";"),
	("hex", ".dhex \"0\u{e9}0\";"),
	("hex", ".dhex \"a\u{1F600}b\";"),
	("hex", ".dhex \"00 \u{e9}\u{e9} 11\";"),
	("hex", ".dhex \"\u{ff10}\u{ff11}\";"),
	("hex", ".dhex \"+f\";"),
	("hex", ".dhex \"-1\";"),
	("hex", ".dhex \"0f +f\";"),
	("hex", ".dhex \"0x10\";"),
	("hex", ".dhex \"f\\u{e9}\";"),
	("file", ".dfile \"missing.bin\";"),
	("file", ".include \"missing.asm\";"),
	("parse", "MOVS R0 R1;"),
	("parse", "MOVS R0, ;"),
	("parse", ".du8 (1;"),
	("parse", ".dstr \"abc;"),
	("parse", "/* unclosed"),
	("parse", ".du8 '';"),
	("parse", ".du8 0x;"),
	("parse", ".du8 99999999999999999999;"),
	("parse", "NOP"),
	("parse", "?"),
];

/// (kind, text) programs that failed at design time (DESIGN.md §5) and regressions
const CORPUS: &[(&str, &[u8])] = &[
	("F10", b".addr 0x104; .du32 1; .addr 0x100; NOP; NOP; NOP;"),
	("F11", b".addr 0x104; .du16 fwd; .addr 0x100; .du32 7; .const fwd,1;"),
	("F12", b".addr 0x100; .du8 1; .addr 0x100; .du8 2;"),
	("F14", b".const R0, 1;"),
	("F14", b".global R0;"),
	("F15", b".addr 0; MOVS R0, (R1 & 3) & 5;"),
	("F15", b".addr 0; .global x; .du8 (x|3)|4; .const x, 8;"),
	("F15", b".addr 0; .global x; .du8 (x^3)^4; .const x, 8;"),
	("F18", "/* x */ \u{e9}".as_bytes()),
	("F18", "/* \u{e9}".as_bytes()),
	("F19", b".dstr \"a\nb\";"),
	("F19", b".dstr \"a\x7Fb\";"),
	("F22", b".addr 0xFFFFFFFF; .du8 1; .du8 2;"),
	("F22", b".addr 0xFFFFFFFE; .du16 0x1234; .du8 0x55;"),
	("F22", b".addr 0xFFFFFFFE; NOP; NOP;"),
	("top", b".addr 0xFFFFFFFF; .du8 last; .const last, 0x5A;"),
	("top", b".addr 0xFFFFFFFE; .du16 fwd; .const fwd, 0x1234;"),
	("top", b".addr 0xFFFFFFFC; .du32 fwd; .const fwd, 7;"),
	("top", b".addr 0xFFFFFFFE; SVC fwd; .const fwd, 7;"),
	("top", b".addr 0xFFFFFFFC; UDF.W fwd; .const fwd, 7;"),
	("top", b".addr 0xFFFFFFFD; .du8 a; .du8 b; .du8 c; .const a, 1; .const b, 2; .const c, 3;"),
	("top", b".addr 0xFFFFFFFF; .du8 1; x: .du8 x & 1;"),
	("top", b".addr 0x100; .du8 1; .addr 0xFFFFFFFF; .du8 f; .addr 0x200; .du8 2; .const f, 9;"),
	("lex", b".addr 0; .dstr \"caf\\u"),
	("lex", b".addr 0; .dstr \"\\u{41}abc\xc3\xa9\";"),
	("lex", b".addr 0; .dstr \"\\u{}\";"),
	("lex", ".addr 0; .du32 '\u{20ac}'; .du8 1;".as_bytes()),
	("lex", ".addr 0; .du32 '\u{1F600}'; .du16 '\u{e9}'; .du8 '~';".as_bytes()),
	("lex", ".addr 0; .dstr \"\u{20ac}\u{1F600}\u{e9}a\"; .du8 1;".as_bytes()),
	("misc", b".du8 1;"),
	("misc", b"NOP;"),
	("misc", b"x:"),
	("misc", b".align 4;"),
	("misc", b".addr 0; .addr 0; .addr 4; .addr 0;"),
	("misc", b".addr 0; .du8 x; .addr 8; x: .addr 16; .du8 x;"),
	("misc", b".addr 4; .du32 1; .addr 0; .du32 2; .du8 3;"),
	("misc", b".addr 0xFFFFFF00; .align 0xFFFFFFFF;"),
	("misc", b".addr 0xFFFFFFF1; .align 0x80000000;"),
	("misc", b".addr 0xFFFFFFF0; .align 0x100;"),
	("misc", b".addr 0; BL 0x1000002;"),
	("misc", b".addr 0xFFFFFFFC; B 0;"),
	("misc", b".addr 0; .du8 -(-9223372036854775807 - 1);"),
	("misc", b".addr 0; .du8 f(1, 2);"),
	("misc", b".addr 0; .du8 {1};"),
	("misc", b".addr 0; .global a; .global b; .du8 a + b; .const a, 1; .const b, 2;"),
	("misc", b".addr 0; .global a; .du8 (a - 5) - (3 - a);"),
	("misc", b".addr 0; .global a; .du8 2 / (a / 3); .const a, 3;"),
	("misc", b".addr 0; .global a; .du8 (a / 0) / 2; .const a, 3;"),
	("misc", b".addr 0; .global a; .du8 (a % 0) % 2; .const a, 3;"),
	("misc", b".addr 0; .global a; .du8 (a * 9223372036854775807) * 2; .const a, 0;"),
	("misc", b".addr 0; .global a; .du8 -(a - 5); .const a, 0;"),
	("misc", b".addr 0; .global a; .du8 !a & 0xFF; .const a, 0;"),
	("misc", b".addr 0; .global a; .du8 (a << 1) << 2; .const a, 1;"),
	("misc", b".addr 0; .global a; .du8 1 - -a; .const a, 1;"),
	("misc", b".addr 0; .global a; .du8 (a + -9223372036854775807) + -9223372036854775807; .const a, 1;"),
	// `.align` whose padding (~4 GiB) cannot fit: the capacity check comes before any padding is built (model: from the number)
	("misc", b".addr 0xFFFFFFFD; .du8 1; .align 0xFFFFFFFB;"),
];

/// Constructs whose diagnostic path no generated program reached (found with tools/coverage.sh). Each entry is a whole
/// main file in which the offending statement starts at (line, col); the FIRST diagnostic must carry exactly that
/// position in main.asm and its KIND (errkind::diag_kind: structure of the error value, not its wording) must contain the fragment.
const POSITIONED: &[(&str, &str, u32, u32, &str)] = &[
	// Evaluation::Deferred in the strict directives: the operand is declared (.global) but has no value yet
	("deferred-operand", ".global g9;\n  .addr g9;", 2, 3, "dir.apply.addr.nosuch.local"),
	("deferred-operand", ".addr 0x100;\n.global g9;\n\t.align g9;", 3, 2, "dir.apply.align.nosuch.local"),
	("deferred-operand", ".global g9;\n.const c9, g9;", 2, 1, "dir.apply.const.nosuch.local"),
	("deferred-operand", ".addr 0x100;\n.global g9;\n.const c9, (g9 + 1) * 2;\n.const g9, 1;", 3, 1, "dir.apply.const.nosuch.local"),
	("deferred-operand", ".addr 0x100;\n.global g9; .addr g9 | 0x200;\n.const g9, 1;", 2, 13, "dir.apply.addr.nosuch.local"),
	("deferred-operand", ".addr 0x100;\n.global g9; .global h9; .align h9 + g9;\n", 2, 25, "dir.apply.align.nosuch.local"),
	// TooManyArguments of every directive
	("arity-many", ".addr 0x100; .align 1, 2;", 1, 14, "dir.toomany.align.1.2"),
	("arity-many", ".addr 0x100;\n.const a9, 1, 2;", 2, 1, "dir.toomany.const.2.3"),
	("arity-many", ".global a9, b9;", 1, 1, "dir.toomany.global.1.2"),
	("arity-many", ".import a9, b9;", 1, 1, "dir.toomany.import.1.2"),
	("arity-many", ".export a9, b9, c9;", 1, 1, "dir.toomany.export.1.3"),
	("arity-many", "\n\n .include \"a.asm\", \"b.asm\";", 3, 2, "dir.toomany.include.1.2"),
	("arity-many", ".addr 0x100; .dstr \"a\", \"b\";", 1, 14, "dir.toomany.dstr.1.2"),
	("arity-many", ".addr 0x100; .dhex \"00\", \"11\";", 1, 14, "dir.toomany.dhex.1.2"),
	("arity-many", ".addr 0x100; .dfile \"main.asm\", \"main.asm\";", 1, 14, "dir.toomany.dfile.1.2"),
	("arity-many", ".addr 0x100, 0x200;", 1, 1, "dir.toomany.addr.1.2"),
	("arity-many", ".addr 0x100; .du16 1, 2;", 1, 14, "dir.toomany.du16.1.2"),
	("arity-many", ".addr 0x100; .du32 1, 2, 3;", 1, 14, "dir.toomany.du32.1.3"),
	// wrong argument type after evaluation
	("kind-evaluated", ".addr 0x100; .align \"s\";", 1, 14, "dir.argtype.align.0.constant.string"),
	("kind-evaluated", ".addr 0x100; .align R0;", 1, 14, "dir.argtype.align.0.constant.identifier"),
	("kind-evaluated", ".addr 0x100; .align {4};", 1, 14, "dir.argtype.align.0.constant.sequence"),
	("kind-evaluated", ".addr 0x100; .align [4];", 1, 14, "dir.argtype.align.0.constant.address"),
	("kind-evaluated", ".const c9, \"s\";", 1, 1, "dir.argtype.const.1.constant.string"),
	("kind-evaluated", ".const c9, sp;", 1, 1, "dir.argtype.const.1.constant.identifier"),
	("kind-evaluated", ".const c9, f9(1);", 1, 1, "dir.argtype.const.1.constant.function_call"),
	("kind-evaluated", ".const c9, R1 + 1;", 1, 1, "dir.argtype.const.1.constant.addition"),
	// operand kinds the operators reject (simplify_raw: lhs, rhs, address, negate, not)
	("kind-operator", ".addr 0x100; .du8 [[R0]];", 1, 14, "eval.badtype"),
	("kind-operator", ".addr 0x100; .du8 [\"s\"];", 1, 14, "eval.badtype"),
	("kind-operator", ".addr 0x100; .du8 [{1}];", 1, 14, "eval.badtype"),
	("kind-operator", ".addr 0x100; .du8 1 + \"a\";", 1, 14, "eval.badtype"),
	("kind-operator", ".addr 0x100; .du8 {1} * 2;", 1, 14, "eval.badtype"),
	("kind-operator", ".addr 0x100; .du8 2 << [1];", 1, 14, "eval.badtype"),
	("kind-operator", ".addr 0x100; .du8 -\"s\";", 1, 14, "eval.badtype"),
	("kind-operator", ".addr 0x100; .du8 ![1];", 1, 14, "eval.badtype"),
	("kind-operator", ".addr 0x100; LDR R0, [R1 + [R2]];", 1, 14, "eval.badtype"),
	// register operands that are no registers, lists with non-names, address shapes
	("operand", ".addr 0x100; MOVS longname9, 1;", 1, 14, "instr.asm.asm.nosuchreg."),
	("operand", ".addr 0x100; MOVS R0, R1R1R;", 1, 14, "nosuch"),
	("operand", ".addr 0x100; ADCS R0, R1234;", 1, 14, "instr.asm.asm.nosuchreg."),
	("operand", ".addr 0x100; PUSH {R0, longname9};", 1, 14, "instr.asm.asm.nosuchreg."),
	("operand", ".addr 0x100; PUSH {1};", 1, 14, "instr.argtype.0.identifier.constant"),
	("operand", ".addr 0x100; POP {R0, \"s\"};", 1, 14, "instr.argtype.0.identifier.string"),
	("operand", ".addr 0x100; LDM R0, {R1, R2 + 0};", 1, 14, "instr.argtype.1.identifier.addition"),
	("operand", ".addr 0x100; MRS R0, 5;", 1, 14, "instr.argtype.1."),
	("operand", ".addr 0x100; MRS R0, NOSUCHSYSTEMREGISTER;", 1, 14, "instr.asm.asm.nosuchreg."),
	("operand", ".addr 0x100; MSR toolongname, R0;", 1, 14, "instr.asm.asm.nosuchreg."),
	("operand", ".addr 0x100; LDR R0, [R1 + R2 + R3];", 1, 14, "instr.asm.asm.valuerange."),
	("operand", ".addr 0x100; LDR R0, [R1 + R2 + 4];", 1, 14, "instr.asm.asm.valuerange."),
	("operand", ".addr 0x100; LDR R0, [R1 + 4 + R2];", 1, 14, "instr.asm.asm.valuerange."),
	("operand", ".addr 0x100; STR R0, [R1 - 4];", 1, 14, "instr.asm.asm.valuerange."),
	("operand", ".addr 0x100; LDRB R0, [R1 + 0x100000000];", 1, 14, "instr.asm.asm.valuerange."),
	("operand", ".addr 0x100; LDR R0, [longname9];", 1, 14, "instr.asm.nosuch.local"),
	// the region is full: immediate statements of every kind at the end of the address space and below an occupied address
	("full", ".addr 0xFFFFFFFE; .align 7;", 1, 19, "align.write.overflow.5.2"),
	("full", ".addr 0xFFFFFFFD; .du8 1; .align 0x10003;", 1, 27, "align.write.overflow."),
	("full", ".addr 0x104; .du8 1; .addr 0x100; .du8 2; .align 8;", 1, 43, "align.write.overflow.7.3"),
	("full", ".addr 0xFFFFFFFF; .du16 1;", 1, 19, "data.write.overflow.2.1"),
	("full", ".addr 0xFFFFFFFD; .du32 fwd; .const fwd, 1;", 1, 19, "data.write.overflow.4.3"),
	("full", ".addr 0xFFFFFFFF; .dstr \"ab\";", 1, 19, "data.write.overflow.2.1"),
	("full", ".addr 0xFFFFFFFF; .dhex \"0102\";", 1, 19, "data.write.overflow.2.1"),
	("full", ".addr 0xFFFFFFFF; .dfile \"main.asm\";", 1, 19, "data.write.overflow."),
	("full", ".addr 0xFFFFFFFF; NOP;", 1, 19, "asm.write.overflow.2.1"),
	("full", ".addr 0xFFFFFFFE; BL fwd; fwd:", 1, 19, "asm.write.overflow.4.2"),
	("full", ".addr 0xFFFFFFFE; UDF.W 1;", 1, 19, "asm.write.overflow.4.2"),
	("full", ".addr 0xFFFFFFFF; B fwd; fwd:", 1, 19, "asm.write.overflow.2.1"),
	("full", ".addr 0x102; NOP; .addr 0x100; NOP; SVC fwd; .const fwd, 1;", 1, 37, "asm.write.overflow.2.0"),
	("full", ".addr 0x102; NOP; .addr 0x100; NOP; .du8 fwd; .const fwd, 1;", 1, 37, "data.write.overflow.1.0"),
];

/// multi-file scenarios: (class, files, expectation) — `Some((file, line, col, fragment))` = the first diagnostic, `None` = must assemble
const SCENARIOS: &[(&str, &[(&str, &[u8])], Option<(&str, u32, u32, &str)>)] = &[
	// a Fatal error inside a task that runs at finalize (the value arrives through .import after the child was assembled): the
	// remaining global tasks are dropped, the failure is reported
	("fatal-at-finalize", &[("main.asm", b".addr 0x100;\n.global g9;\n.include \"c.asm\";\n.const g9, 0x10000001;\n"),
		("c.asm", b".import g9;\n B g9;\n.du8 g9;\nBL g9;\n")], Some(("c.asm", 2, 2, "const.range."))),
	("fatal-at-finalize", &[("main.asm", b".addr 0x100;\n.global g9;\n.include \"c.asm\";\n.const g9, 256;\n"),
		("c.asm", b".import g9;\n MOVS R0, g9;\n.du8 g9;\nADDS R1, R1, g9;\n")], Some(("c.asm", 2, 2, "asm.encode."))),
	("fatal-at-finalize", &[("main.asm", b".addr 0x100;\n.global g9;\n.include \"c.asm\";\n.include \"c.asm\";\n.const g9, 3;\n"),
		("c.asm", b".import g9;\nLDR R0, [R1 + g9];\nADD SP, SP, g9;\nLSLS R0, R1, g9 + 29;\n")], Some(("c.asm", 2, 1, "asm.encode."))),
	("fatal-at-finalize", &[("main.asm", b".addr 0x100;\n.global g9;\n.include \"c.asm\";\n.const g9, 0x40000;\n"),
		("c.asm", b".import g9;\nNOP; BEQ g9;\nBNE g9;\n")], Some(("c.asm", 2, 6, "const.range."))),
	("fatal-at-finalize", &[("main.asm", b".addr 0x100;\n.global g9;\n.include \"c.asm\";\n.const g9, 0x103;\n"),
		("c.asm", b".import g9;\nLDR R0, g9;\nADR R1, g9;\n")], Some(("c.asm", 2, 1, ""))),
	// the same values in range: the tasks at finalize complete
	("value-at-finalize", &[("main.asm", b".addr 0x100;\n.global g9;\n.include \"c.asm\";\n.const g9, 0x120;\n"),
		("c.asm", b".import g9;\nB g9;\n.du16 g9;\nBL g9;\nLDR R0, g9;\nADR R1, g9;\n")], None),
	// trivial (non-fatal) errors at finalize: every task still runs, each reports
	("trivial-at-finalize", &[("main.asm", b".addr 0x100;\n.global g9;\n.include \"c.asm\";\n.const g9, 0x1000;\n"),
		("c.asm", b".import g9;\n.du8 g9;\nSVC g9;\n.du8 g9 - 0x1000;\n")], Some(("c.asm", 2, 1, "data.range."))),
	// `.include` / `.dfile` of something that exists but is not a readable file (a directory)
	("unreadable", &[("main.asm", b".addr 0x100;\n  .include \"sub\";\n"), ("sub/x.bin", b"x")], Some(("main.asm", 2, 3, "dir.apply.include."))),
	("unreadable", &[("main.asm", b".addr 0x100;\n.include \"sub/\";\n"), ("sub/x.bin", b"x")], Some(("main.asm", 2, 1, "dir.apply.include."))),
	("unreadable", &[("main.asm", b".addr 0x100;\n.include \".\";\n")], Some(("main.asm", 2, 1, "dir.apply.include."))),
	("unreadable", &[("main.asm", b".addr 0x100;\n.du8 1; .dfile \"sub\";\n"), ("sub/x.bin", b"x")], Some(("main.asm", 2, 9, "dir.apply.dfile."))),
	("unreadable", &[("main.asm", b".addr 0x100;\n.include \"sub/x.bin/y.asm\";\n"), ("sub/x.bin", b"x")], Some(("main.asm", 2, 1, "dir.apply.include.include.nosuchfile"))),
	// relative paths are resolved against the directory of the file that mentions them, also AFTER an include from another directory
	// has returned (same-named files with other content elsewhere are decoys); these projects must assemble
	("path-after-include", &[("main.asm", b".addr 0x100;\n.dfile \"d.bin\";\n.include \"sub/b.asm\";\n.dfile \"d.bin\";\n.include \"c.asm\";\n"),
		("d.bin", b"M"), ("c.asm", b".du8 0x11;\n"), ("sub/b.asm", b".dfile \"d.bin\";\n.include \"c.asm\";\n.dfile \"d.bin\";\n"), ("sub/d.bin", b"S"), ("sub/c.asm", b".du8 0x22;\n")], None),
	("path-after-include", &[("main.asm", b".addr 0x100;\n.include \"sub/b.asm\";\n.dfile \"only_here.bin\";\n.include \"only_here.asm\";\n"),
		("only_here.bin", b"M"), ("only_here.asm", b".du8 0x11;\n"), ("sub/b.asm", b".include \"deep/e.asm\";\n.dfile \"s.bin\";\n"), ("sub/s.bin", b"S"), ("sub/deep/e.asm", b".dfile \"s.bin\";\nNOP;\n"), ("sub/deep/s.bin", b"D")], None),
	// `.addr` to an address that holds output is refused also when it is the cursor of the region being written (gap filled exactly; top)
	("occupied-cursor", &[("main.asm", b".addr 0x110;\n.du32 1;\n.addr 0x108;\n.du32 2;\n.du32 3;\n.addr 0x110;\n")], Some(("main.asm", 6, 1, "occupied.00000110"))),
	("occupied-cursor", &[("main.asm", b".addr 0x110;\nNOP;\n.addr 0x108;\n.include \"fill.asm\";\n  .addr 0x110;\nx:\n"), ("fill.asm", b".du32 2;\n.du32 3;\n")], Some(("main.asm", 5, 3, "occupied.00000110"))),
	("occupied-cursor", &[("main.asm", b".addr 0xFFFFFFFE;\n.du16 1;\n.addr 0xFFFFFFFF;\n")], Some(("main.asm", 3, 1, "occupied.ffffffff"))),
	("occupied-cursor", &[("main.asm", b".addr 0xFFFFFFFF;\n.du8 1;\n.addr 0xFFFFFFFF;\n.addr 0x100;\nNOP;\n")], Some(("main.asm", 3, 1, "occupied.ffffffff"))),
	// one file included by two siblings (diamond) and twice in a row: every occurrence is assembled
	("same-file-twice", &[("main.asm", b".addr 0x100;\n.include \"b.asm\";\n.include \"c.asm\";\n"), ("b.asm", b".include \"common.asm\";\n.du8 K9;\n"), ("c.asm", b".include \"common.asm\";\n.du8 K9 + 1;\n"),
		("common.asm", b".const K9, 7;\n.export K9;\nNOP;\n")], None),
	("same-file-twice", &[("main.asm", b".addr 0x100;\n.include \"t.asm\";\n.include \"t.asm\";\n.include \"./t.asm\";\n"), ("t.asm", b"x9:\n.du32 x9;\n")], None),
	// a name published twice across an include: the included file re-publishes a name the includer already owns
	("duplicate-across-include", &[("main.asm", b".addr 0x100;\n.const x9, 1;\n.include \"c.asm\";\n.du8 x9;\n"), ("c.asm", b".const x9, 2;\n.global x9;\n")], Some(("c.asm", 2, 1, "duplicate"))),
	("duplicate-across-include", &[("main.asm", b".addr 0x100;\n.const x9, 1;\n.include \"c.asm\";\n.du8 x9;\n"), ("c.asm", b".const x9, 2;\n.export x9;\n")], Some(("c.asm", 2, 1, "duplicate"))),
	("duplicate-across-include", &[("main.asm", b".addr 0x100;\nx9:\n.include \"c.asm\";\n.du8 x9 & 0xFF;\n"), ("c.asm", b"x9: .global x9;\n")], Some(("c.asm", 1, 5, "duplicate"))),
	("duplicate-across-include", &[("main.asm", b".addr 0x100;\n.include \"c.asm\";\n.const x9, 1;\n.du8 x9;\n"), ("c.asm", b".const x9, 2;\n.global x9;\n")], Some(("main.asm", 3, 1, "duplicate"))),
	("duplicate-across-include", &[("main.asm", b".addr 0x100;\n.global x9;\n.include \"c.asm\";\n.const x9, 1;\n"), ("c.asm", b".const x9, 2;\n.global x9;\n")], Some(("c.asm", 2, 1, "duplicate"))),
	// diagnostics of an included file carry ITS name and position; the includer reports the failed include at its own statement
	("in-child", &[("main.asm", b".addr 0x100;\n.include \"c.asm\";\n"), ("c.asm", b"NOP;\n  .align 1, 2;\n")], Some(("c.asm", 2, 3, "dir.toomany.align."))),
	("in-child", &[("main.asm", b".addr 0x100;\n.include \"c.asm\";\n"), ("c.asm", b".global g9;\n.align g9;\n")], Some(("c.asm", 2, 1, "dir.apply.align.nosuch.local"))),
	("in-child", &[("main.asm", b".addr 0xFFFFFFFE;\n.include \"c.asm\";\n"), ("c.asm", b"NOP;\n.du8 1;\n")], Some(("c.asm", 2, 1, "data.write."))),
	("in-child", &[("main.asm", b".addr 0xFFFFFFFE;\n.include \"d/c.asm\";\n"), ("d/c.asm", b".include \"e.asm\";\n"), ("d/e.asm", b"NOP;\n NOP;\n")], Some(("d/e.asm", 2, 2, "asm.write."))),
];

#[derive(Clone, Debug, PartialEq)]
enum Expect {Any, MustFail}

/// `check_c06` plus the position oracle: the first recorded diagnostic is at (file, line, col) and mentions `fragment`
fn check_c06_at(cx: &mut Cx, project: &Project, class: &str, dir: &std::path::Path, want: Option<(&str, u32, u32, &str)>)
{
	check_c06(cx, project, if want.is_some() {Expect::MustFail} else {Expect::Any}, class, dir);
	project.write(dir);
	let Ok(o) = run_real(dir) else {return};   // the panic was reported by check_c06
	let input = project.to_input();
	match want
	{
		None =>
		{
			if !(o.assemble_ok && o.close_err.is_none() && o.finalize && o.errors.is_empty())
			{
				cx.report.oracle_fail(input, format!("{class}: a valid program was not assembled cleanly: {:?}", o.errors.iter().take(3).collect::<Vec<_>>()));
			}
		},
		Some((file, line, col, fragment)) =>
		{
			let prefix = format!("{}/", dir.display());
			match o.errors.first()
			{
				None => cx.report.oracle_fail(input, format!("{class}: no diagnostic recorded (expected one at {file}:{line}:{col})")),
				Some((f, l, c, m)) =>
				{
					let rel = f.strip_prefix(&prefix).unwrap_or(f);
					if rel != file || *l != line || *c != col
					{
						cx.report.oracle_fail(input, format!("{class}: the first diagnostic is at {rel}:{l}:{c}, the offending statement at {file}:{line}:{col} ({m})"));
					}
					else if !m.contains(fragment)
					{
						cx.report.oracle_fail(input, format!("{class}: the diagnostic at {file}:{line}:{col} is {m:?}, expected one mentioning {fragment:?}"));
					}
				},
			}
			if o.finalize && o.close_err.is_none() {cx.report.oracle_fail(project.to_input(), format!("{class}: success reported"));}
		},
	}
}

/// Values that arrive between `assemble` and `finalize` (an embedding declares a global before assembling and gives it its value
/// afterwards, as `Context`'s API allows): the statements that use it are completed by the tasks `finalize` runs. A value no
/// encoding exists for is a Fatal error inside such a task: `finalize` must report failure, the diagnostic must be recorded at the
/// statement, nothing may panic, and the bytes of the other statements stay what they were.
fn finalize_with_late_values(cx: &mut Cx, dir: &std::path::Path)
{
	use trion::asm::constant::Realm;
	// (name of the case, value given after assembly, expected success, line and column of the first diagnostic if any)
	for (class, value, ok, at) in [("late-ok", 7i64, true, None), ("late-fatal", 256, false, Some((3u32, 2u32))), ("late-trivial", -1, false, Some((3, 2)))]
	{
		let text = ".addr 0x100;\n.import g9;\n MOVS R0, g9;\n.du8 5;\nMOVS R1, g9;\n.du16 g9 & 0xFF;\n";
		let input = format!("late-value {class}");
		let p = Project::single(text.as_bytes());
		p.write(dir);
		let path = dir.join("main.asm");
		let r = guarded(||
		{
			let directives = DirectiveList::generate();
			let mut ctx = Context::new(&Arm6M, &directives);
			ctx.defer_constant("g9", Realm::Global).unwrap();
			let (res, _) = ctx.assemble(text.as_bytes(), path.clone());
			let closed = ctx.close_segment().is_ok();
			let pending_errors = ctx.get_errors().len();
			let fresh = ctx.insert_constant("g9", value, Realm::Global);
			let fin = ctx.finalize();
			let errs: Vec<(u32, u32, String)> = ctx.get_errors().iter().map(|e| (e.line, e.col, crate::errkind::diag_kind(&e.value))).collect();
			let mut image = BTreeMap::new();
			for (range, seg) in ctx.output().iter() {for (i, b) in seg.iter().enumerate() {image.insert(range.get_first().wrapping_add(i as u32), *b);}}
			(res.is_ok(), closed, pending_errors, fresh.is_ok(), fin, errs, image)
		});
		cx.report.case(Some(&input));
		cx.report.hit(&format!("value given between assemble and finalize: {class}"));
		match r
		{
			Err(p) => cx.report.oracle_fail(input, format!("panic: {p}")),
			Ok((asm_ok, closed, pending, inserted, fin, errs, image)) =>
			{
				if !(asm_ok && closed && pending == 0 && inserted) {cx.report.oracle_fail(input.clone(), format!("the program with a declared global did not assemble: assemble {asm_ok}, close {closed}, {pending} diagnostics, insert {inserted}"));}
				if fin != ok {cx.report.oracle_fail(input.clone(), format!("finalize() returned {fin}, expected {ok}; diagnostics {errs:?}"));}
				if fin && !errs.is_empty() {cx.report.oracle_fail(input.clone(), format!("finalize() reports success with diagnostics recorded: {errs:?}"));}
				match (at, errs.first())
				{
					(None, None) => (),
					(Some((l, c)), Some((el, ec, _))) if l == *el && c == *ec => (),
					(want, got) => cx.report.oracle_fail(input.clone(), format!("first diagnostic {got:?}, expected at {want:?}")),
				}
				// the statement with a known value keeps its byte whatever happens to the others; on success every statement has its final bytes
				if image.get(&0x102) != Some(&5) {cx.report.oracle_fail(input.clone(), format!("the byte of `.du8 5` at 0x102 is {:?}", image.get(&0x102)));}
				if ok
				{
					let want: Vec<u8> = vec![0x07, 0x20, 0x05, 0x07, 0x21, 0x07, 0x00];
					let got: Vec<u8> = (0x100u32..0x107).filter_map(|a| image.get(&a).copied()).collect();
					if got != want {cx.report.oracle_fail(input.clone(), format!("image {} after finalize, expected {}", hex(&got), hex(&want)));}
				}
			},
		}
	}
}

/// SHADOWING (`shadow <seed>`): a file's OWN label / constant has the same name as a constant of the enclosing scope — a global the
/// embedding program defined through `Context::insert_constant(.., Realm::Global)` before assembling, or a label / constant of the
/// including file. Nothing is imported: every reference in the file, before and after the definition, in the same and in another
/// region, means the file's own definition.
fn check_shadow(cx: &mut Cx, seed: u64, dir: &std::path::Path)
{
	use trion::asm::constant::Realm;
	let mut rng = Rng::new(seed);
	let input = format!("shadow {seed}");
	let name = *rng.pick(&["loop", "start", "end", "done", "size", "k9", "_x", "a.b"]);
	let outer_value = 0x1000_0000i64 + rng.below(0x1000) as i64 * 4;
	let own_is_label = rng.chance(1, 2);
	let own_const = 0x4000_0000i64 + rng.below(0xFFFF) as i64;
	let (r1, r2) = (0x2000_0000u32 + rng.below(64) as u32 * 4, 0x2000_0400u32 + rng.below(64) as u32 * 4);
	let how = rng.below(4);   // 0: pre-seeded global, 1: includer's constant, 2: includer's label, 3: pre-seeded global AND includer's constant
	let k = rng.below(9) as i64;
	// the file under test: references before the definition (one in a first region), the definition, references after it
	let before = rng.below(3) as usize + 1;
	let mut body = String::new();
	let mut expect_words: Vec<(u32, Option<u32>)> = Vec::new();   // (address, None = the own value)
	let mut addr = r2;
	let own_in_first = rng.chance(1, 3);
	for _ in 0..before {body.push_str(&format!(".du32 {name} + {k};\n")); expect_words.push((addr, None)); addr += 4;}
	body.push_str(".du32 0xCAFEF00D;\n"); expect_words.push((addr, Some(0xCAFE_F00D))); addr += 4;
	let own_value: i64 = if own_is_label {body.push_str(&format!("{name}:\n")); addr as i64} else {body.push_str(&format!(".const {name}, {own_const};\n")); own_const};
	body.push_str(&format!(".du32 {name} + {k};\nNOP;\n")); expect_words.push((addr, None)); addr += 6;
	// a further region with one more reference
	let r3 = r2 + 0x400;
	body.push_str(&format!(".align 2;\n.addr 0x{r3:X};\n.du32 {name} + {k};\n")); expect_words.push((r3, None));
	let _ = (addr, own_in_first);
	let want_own = (own_value + k) as u32;
	let (files, seeded): (Vec<(String, Vec<u8>)>, bool) = match how
	{
		0 => (vec![("main.asm".to_owned(), format!(".addr 0x{r1:X};\nNOP;\n.addr 0x{r2:X};\n{body}").into_bytes())], true),
		1 | 3 => (vec![("main.asm".to_owned(), format!(".addr 0x{r1:X};\n.const {name}, {outer_value};\nNOP;\n.du32 {name};\n.addr 0x{r2:X};\n.include \"child.asm\";\n").into_bytes()),
			("child.asm".to_owned(), body.clone().into_bytes())], how == 3),
		_ => (vec![("main.asm".to_owned(), format!(".addr 0x{r1:X};\n{name}:\nNOP;\n.addr 0x{r2:X};\n.include \"child.asm\";\n").into_bytes()),
			("child.asm".to_owned(), body.clone().into_bytes())], false),
	};
	let p = Project{files};
	p.write(dir);
	let path = dir.join("main.asm");
	let data = std::fs::read(&path).unwrap();
	let r = guarded(||
	{
		let directives = DirectiveList::generate();
		let mut ctx = Context::new(&Arm6M, &directives);
		if seeded {ctx.insert_constant(name, outer_value + 0x100, Realm::Global).unwrap();}
		let (res, _) = ctx.assemble(&data, path.clone());
		let closed = ctx.close_segment().is_ok();
		let fin = ctx.finalize();
		let errs: Vec<String> = ctx.get_errors().iter().map(|e| format!("{}:{}:{}", e.line, e.col, crate::errkind::diag_kind(&e.value))).collect();
		let mut image = BTreeMap::new();
		for (range, seg) in ctx.output().iter() {for (i, b) in seg.iter().enumerate() {image.insert(range.get_first().wrapping_add(i as u32), *b);}}
		(res.is_ok() && closed && fin && errs.is_empty(), errs, image)
	});
	let shape = format!("{} shadowed by {}", if own_is_label {"own label"} else {"own constant"}, ["a pre-seeded global", "the includer's constant", "the includer's label", "a pre-seeded global and the includer's constant"][how as usize]);
	cx.report.case(Some(&format!("{shape} {want_own:08x}")));
	cx.report.hit(&format!("shadowing: {shape}"));
	match r
	{
		Err(e) => cx.report.oracle_fail(input, format!("panic: {e}")),
		Ok((ok, errs, image)) =>
		{
			if !ok {cx.report.oracle_fail(input.clone(), format!("{shape}: a valid program is refused: {errs:?}; files {:?}", p.files.iter().map(|(n, d)| (n.clone(), String::from_utf8_lossy(d).into_owned())).collect::<Vec<_>>()));}
			else
			{
				for (a, w) in &expect_words
				{
					let got: Vec<u8> = (0..4).filter_map(|i| image.get(&(a + i)).copied()).collect();
					let want = w.unwrap_or(want_own).to_le_bytes().to_vec();
					if got != want
					{
						cx.report.oracle_fail(input.clone(), format!("{shape}: the word at {a:08X} must be {} ({} + {k} of the file's own `{name}`), the image holds {}; files {:?}", hex(&want), own_value, hex(&got),
							p.files.iter().map(|(n, d)| (n.clone(), String::from_utf8_lossy(d).into_owned())).collect::<Vec<_>>()));
						break;
					}
				}
			}
		},
	}
	// without a pre-seeded global the whole-pipeline model can express the project
	if !seeded {p.write(dir); check_asm_model(cx, &p, dir);}
}

// ---------------------------------------------------------------------------------------------------------
// programs with a LARGE region (more than 64 KiB written into one region) next to small ones, in both source orders; two-pass
// reference layout from the AST (C05) / must assemble resp. must be diagnosed without panic (C06). Input: `large <k>`.

fn large_programs() -> Vec<(Vec<St>, Option<(u32, u32, &'static str)>)>
{
	let text: String = (0..70_000u32).map(|i| (b'a' + (i % 23) as u8) as char).collect();
	let bytes: Vec<u8> = (0..70_000u32).map(|i| (i * 13 + 5) as u8).collect();
	let n = |s: &str| E::Name(s.to_owned());
	let nop = || St::Ins(Ins::Fixed("NOP".to_owned(), Instruction::Nop));
	vec![
		// large first, then a region above, then one below with little room; labels of the later regions used in the first
		(vec![St::Addr(0x1000), St::Du(4, n("hi")), St::Du(4, n("lo")), St::Dstr(text.clone()), St::Label("end1".to_owned()), St::Addr(0x10_0000), St::Label("hi".to_owned()), St::Du(4, n("end1")), nop(),
			St::Addr(0xFF0), St::Label("lo".to_owned()), St::Du(4, n("hi")), St::Du(2, E::Num(0xA55A)), St::Addr(0x20_0000), St::Du(1, E::Num(7))], None),
		// `.align 0x20000` after one byte, then regions above and just below
		(vec![St::Addr(0x2_0001), St::Du(1, E::Num(1)), St::Align(0x2_0000), St::Label("tail".to_owned()), St::Du(1, E::Num(2)), St::Addr(0x8_0000), St::Du(4, n("tail")), St::Du(4, n("below")),
			St::Addr(0x2_0001 - 6), St::Label("below".to_owned()), St::Du(4, E::Num(0x0102_0304)), St::Du(2, E::Bin("&", Box::new(n("tail")), Box::new(E::Num(0xFFFF))))], None),
		// small first, then the large one, then small again; forward reference over the large region
		(vec![St::Addr(0x100), St::Du(4, n("big_end")), nop(), St::Addr(0x1000), St::Dhex(bytes.clone()), St::Label("big_end".to_owned()), St::Addr(0x200), St::Du(2, E::Num(1)), St::Du(4, n("big_end")),
			St::Addr(0x1000 + 70_000), St::Du(1, E::Num(9))], None),
		// two large regions one after the other, then a small one between them
		(vec![St::Addr(0x1000), St::Dhex(bytes.clone()), St::Addr(0x10_0000), St::Dstr(text.clone()), St::Addr(0x8_0000), St::Label("mid".to_owned()), St::Du(4, n("mid")), nop()], None),
		// must be diagnosed: the region below the large one has 4 bytes of room
		(vec![St::Addr(0x1000), St::Dstr(text.clone()), St::Addr(0xFFC), St::Du(4, E::Num(1)), St::Du(1, E::Num(2))], Some((5, 1, "data.write.overflow.1.0"))),
		(vec![St::Addr(0x1000), St::Dhex(bytes.clone()), St::Addr(0x2000), St::Du(1, E::Num(1))], Some((3, 1, "occupied."))),
		(vec![St::Addr(0x1001), St::Du(1, E::Num(1)), St::Align(0x2_0000), St::Addr(0xFFE), nop(), nop(), nop()], Some((6, 1, "asm.write.overflow.2.1"))),
	]
}

fn check_large(cx: &mut Cx, id: &str, k: usize, dir: &std::path::Path)
{
	let progs = large_programs();
	let Some((stmts, want_diag)) = progs.get(k) else {cx.report.oracle_fail(format!("large {k}"), "unrecognised replay input"); return;};
	let input = format!("large {k}");
	// one statement per line, so that the expected diagnostic position is (index + 1, 1)
	let mut files = Vec::new();
	let mut text = String::new();
	for st in stmts {let mut r = Rng::new(1); let line = render_stmts(std::slice::from_ref(st), &mut r, &mut files); text.push_str(line.trim_end_matches(|c| c != ';' && c != ':')); text.push('\n');}
	let project = Project::single(text.as_bytes());
	project.write(dir);
	cx.report.hit(&format!("large-region program {k}"));
	match run_real(dir)
	{
		Err(p) => {cx.report.case(Some("panic")); cx.report.oracle_fail(input, format!("panic: {p}"));},
		Ok(o) =>
		{
			let clean = o.assemble_ok && o.close_err.is_none() && o.finalize && o.errors.is_empty();
			cx.report.case(Some(&format!("large {k} {clean}")));
			match want_diag
			{
				None =>
				{
					let (mut env, mut cur) = (HashMap::new(), None);
					let mut image = BTreeMap::new();
					let ok = pass1(stmts, &mut cur, &mut env).is_some() && {let mut c2 = None; pass2(stmts, &mut c2, &env, &mut image).is_some()};
					if !ok {cx.report.oracle_fail(input, "harness error: the reference layout of a large-region program is undefined"); return;}
					if !clean {cx.report.oracle_fail(input, format!("a well-formed program with a region > 64 KiB is refused: {:?}", o.errors.iter().take(3).collect::<Vec<_>>()));}
					else if o.image != image
					{
						let diff = image.iter().find(|(a, b)| o.image.get(a) != Some(b)).map(|(a, b)| format!("at {a:08x} expected {b:02x} got {:?}", o.image.get(a)))
							.or_else(|| o.image.iter().find(|(a, _)| !image.contains_key(a)).map(|(a, b)| format!("unexpected byte {b:02x} at {a:08x}")));
						cx.report.oracle_fail(input, format!("image differs from the sequential layout ({} bytes expected, {} present): {}", image.len(), o.image.len(), diff.unwrap_or_default()));
					}
				},
				Some((line, col, kind)) =>
				{
					if o.finalize && o.close_err.is_none() {cx.report.oracle_fail(input.clone(), "an ill-formed program with a region > 64 KiB is accepted");}
					match o.errors.first()
					{
						Some((_, l, c, k2)) if l == line && c == col && k2.contains(kind) => (),
						other => cx.report.oracle_fail(input.clone(), format!("first diagnostic {other:?}, expected {kind} at {line}:{col}")),
					}
				},
			}
			let _ = id;
		},
	}
}

// ---------------------------------------------------------------------------------------------------------
// LIST forms of the data directives (`.du16 a, b, c;`, input `dulist <seed>`): today an arity diagnostic; should lists be accepted,
// the statement must emit exactly the bytes of the one-value statements in sequence — forward references in every position

fn check_du_list(cx: &mut Cx, seed: u64, dir: &std::path::Path)
{
	let mut rng = Rng::new(seed);
	let input = format!("dulist {seed}");
	let width = *rng.pick(&[1u32, 2, 4]);
	let max: i64 = match width {1 => 0xFF, 2 => 0xFFFF, _ => 0xFFFF_FFFF};
	let n = 2 + rng.below(4) as usize;
	let base = 0x2000_0000u32 + 4 * rng.below(64) as u32;
	let (mut before, mut after, mut items, mut bytes) = (String::new(), String::new(), Vec::new(), Vec::new());
	let mut kinds = Vec::new();
	for j in 0..n
	{
		let v = match rng.below(4) {0 => 0, 1 => max, _ => (rng.next() as i64).rem_euclid(max + 1)};
		let (text, kind) = match rng.below(5)
		{
			0 => (format!("{v}"), "literal"),
			1 => {before.push_str(&format!(".const b{j}, {v};\n")); (format!("b{j}"), "backward")},
			2 | 3 => {after.push_str(&format!(".const f{j}, {v};\n")); (if rng.chance(1, 2) {format!("f{j}")} else {format!("f{j} + 0")}, "forward")},
			_ => {before.push_str(&format!(".global g{j};\n")); after.push_str(&format!(".const g{j}, {v};\n")); (format!("g{j}"), "declared")},
		};
		items.push(text);
		kinds.push(kind);
		bytes.extend_from_slice(&(v as u64).to_le_bytes()[..width as usize]);
	}
	// a witness behind the list and a label that must sit behind all elements
	let text = format!(".addr 0x{base:X};\n{before}.du{} {};\nbehind:\n.du32 behind;\n{after}", width * 8, items.join(", "));
	bytes.extend_from_slice(&(base + width * n as u32).to_le_bytes());
	let line = 2 + before.matches('\n').count() as u32;
	let project = Project::single(text.as_bytes());
	project.write(dir);
	cx.report.hit(&format!("data list: {} of {n} elements not known yet", kinds.iter().filter(|k| **k != "literal" && **k != "backward").count()));
	match run_real(dir)
	{
		Err(p) => {cx.report.case(Some("panic")); cx.report.oracle_fail(input, format!("panic: {p}"));},
		Ok(o) =>
		{
			if let Some((_, l, _, k)) = o.errors.first()
			{
				cx.report.case(Some("arity"));
				if !(k.starts_with("dir.toomany.du") && *l == line && !o.finalize)
				{
					cx.report.oracle_fail(input, format!("a data directive with {n} values is neither an arity diagnostic at line {line} nor accepted: {:?}; program {text:?}", o.errors.iter().take(3).collect::<Vec<_>>()));
				}
				else {cx.report.hit("data list: arity diagnostic");}
			}
			else
			{
				cx.report.hit("data list: accepted");
				let got: Vec<u8> = o.image.iter().filter(|(a, _)| **a >= base).map(|(_, b)| *b).collect();
				cx.report.case(Some(&hex(&got)));
				if !(o.finalize && o.close_err.is_none()) || got != bytes
				{
					cx.report.oracle_fail(input, format!("the list form emits {} (finalize {}), the one-value statements in sequence emit {}; program {text:?}", hex(&got), o.finalize, hex(&bytes)));
				}
			}
		},
	}
	check_asm_model(cx, &project, dir);
}

// ---------------------------------------------------------------------------------------------------------
// `.dfile` of a file whose content is longer than its metadata length says (procfs: `/proc/version` announces 0 bytes), into a region
// with little room below a closed region (`procfile <room>`): no panic; the region never exceeds its room; the bytes of the region above
// stay; success xor diagnostic

pub fn check_procfile(cx: &mut Cx, room: u32, dir: &std::path::Path)
{
	let input = format!("procfile {room}");
	let path = "/proc/version";
	let Ok(content) = std::fs::read(path) else {cx.report.notes.push(format!("{path} is absent: `{input}` skipped")); return;};
	let upper = 0x0001_0000u32;
	let text = format!(".addr 0x{upper:X};\n.du32 0xAABBCCDD;\n.du32 0x11223344;\n.addr 0x{:X};\n.dfile \"{path}\";\nafter:\n.du8 after & 0xFF;\n", upper - room);
	let project = Project::single(text.as_bytes());
	project.write(dir);
	cx.report.hit(&format!("dfile of a procfs file ({} bytes of content, metadata length {}) with {room} bytes of room", content.len(), std::fs::metadata(path).map(|m| m.len()).unwrap_or(0)));
	match run_real(dir)
	{
		Err(p) => {cx.report.case(Some("panic")); cx.report.oracle_fail(input, format!("panic: {p}"));},
		Ok(o) =>
		{
			let success = o.close_err.is_none() && o.finalize;
			cx.report.case(Some(&format!("procfile {room} {success}")));
			if success != o.errors.is_empty() {cx.report.oracle_fail(input.clone(), format!("success = {success} with {} diagnostics", o.errors.len()));}
			let up: Vec<u8> = (0..8).filter_map(|k| o.image.get(&(upper + k)).copied()).collect();
			if up != [0xDD, 0xCC, 0xBB, 0xAA, 0x44, 0x33, 0x22, 0x11] {cx.report.oracle_fail(input.clone(), format!("the bytes of the closed region at {upper:08X} are {} after a .dfile below it", hex(&up)));}
			if o.image.keys().any(|a| *a >= upper + 8) {cx.report.oracle_fail(input.clone(), "bytes appear above the upper region");}
			let low: Vec<u8> = o.image.range(upper - room..upper).map(|(_, b)| *b).collect();
			// whatever the directive took from the file must be a prefix of its content, followed by the `.du8` byte when it assembled
			if success
			{
				let k = low.len().saturating_sub(1);
				if low.is_empty() || content[..k.min(content.len())] != low[..k] || k > content.len() || low[k] != ((upper - room + k as u32) & 0xFF) as u8
				{
					cx.report.oracle_fail(input.clone(), format!("the region below holds {} which is not a prefix of the file followed by the byte of `.du8 after`", hex(&low)));
				}
			}
		},
	}
}

/// NESTED sums over names that are only DECLARED when the statement is read (`nested <seed>`): two or three names declared `.global`
/// and defined below (constants and a label), two or three literals, nested through `+` and `-` on both sides, in `.du*` values and
/// instruction operands (immediates and `[Rn + offset]` of LDR/STR/LDRB/STRB/LDRH/STRH); the same statements once more behind the
/// definitions. Expected value from the reference evaluator; every statement has the same bytes before and after the definitions.
fn check_nested(cx: &mut Cx, seed: u64, dir: &std::path::Path)
{
	let mut rng = Rng::new(seed);
	let input = format!("nested {seed}");
	let base = 0x2000_0000u32 + 4 * rng.below(32) as u32;
	let names = ["start", "end", "tbl"];
	let nstmt = 2 + rng.below(4) as usize;
	fn gen(rng: &mut Rng, depth: u32, names: &[&str]) -> E
	{
		if depth == 0 || rng.chance(1, 4) {return if rng.chance(1, 2) {E::Name(rng.pick(names).to_string())} else {E::Num(rng.below(40) as i64)};}
		let op = if rng.chance(1, 2) {"+"} else {"-"};
		E::Bin(op, Box::new(gen(rng, depth - 1, names)), Box::new(gen(rng, depth - 1, names)))
	}
	// statement kinds: (width in bytes, range of the value, text maker)
	#[derive(Clone, Copy)]
	enum K {Du(u32), Movs, Mem(&'static str, i64, i64)}
	let kinds = [K::Du(4), K::Du(4), K::Du(2), K::Du(1), K::Movs, K::Mem("LDR", 124, 4), K::Mem("STR", 124, 4), K::Mem("LDRB", 31, 1), K::Mem("STRB", 31, 1), K::Mem("LDRH", 62, 2), K::Mem("STRH", 62, 2)];
	let mut stmts: Vec<(K, E)> = Vec::new();
	for _ in 0..nstmt
	{
		let e = loop
		{
			let depth = 2 + rng.below(3) as u32;
			let e = gen(&mut rng, depth, &names);
			let mut ns = Vec::new();
			e.names(&mut ns);
			if ns.len() >= 2 {break e;}
		};
		stmts.push((*rng.pick(&kinds), e));
	}
	// layout: the waiting statements, the definitions, the same statements again
	let size = |k: &K| match k {K::Du(w) => *w, _ => 2};
	let first_len: u32 = stmts.iter().map(|(k, _)| size(k)).sum();
	let mut env: HashMap<String, i64> = HashMap::new();
	env.insert("start".to_owned(), 0x100 + rng.below(0x400) as i64);
	env.insert("end".to_owned(), (base + first_len) as i64);        // a label behind the waiting statements
	env.insert("tbl".to_owned(), 0x80 + rng.below(0x80) as i64);
	let mut text = format!(".addr 0x{base:X};\n.global start;\n.global end;\n.global tbl;\n");
	let mut want: Vec<u8> = Vec::new();
	let mut rendered: Vec<String> = Vec::new();
	for (k, e) in &stmts
	{
		let v = e.eval(&env).expect("sums of small numbers");
		let (lo, hi, step) = match k {K::Du(w) => (0i64, (1i64 << (8 * w)) - 1, 1), K::Movs => (0, 255, 1), K::Mem(_, hi, st) => (0, *hi, *st)};
		// bring the value into the statement's range with one more literal (part of what gets merged)
		let target = if v >= lo && v <= hi && v % step == 0 && rng.chance(1, 2) {v} else {lo + step * rng.below(((hi - lo) / step + 1).min(1 << 31) as u64) as i64};
		let full = if target == v {e.clone()} else if rng.chance(1, 2) {E::Bin("+", Box::new(E::Num(target - v)), Box::new(e.clone()))} else {E::Bin("-", Box::new(e.clone()), Box::new(E::Num(v - target)))};
		let et = full.render(&mut rng);
		let (line, bytes): (String, Vec<u8>) = match k
		{
			K::Du(w) => (format!(".du{} {et};", 8 * w), (target as u64).to_le_bytes()[..*w as usize].to_vec()),
			K::Movs => (format!("MOVS R3, {et};"), vec![target as u8, 0x23]),
			K::Mem(mn, _, st) =>
			{
				let op: u16 = match *mn {"STR" => 0x6000, "LDR" => 0x6800, "STRB" => 0x7000, "LDRB" => 0x7800, "STRH" => 0x8000, _ => 0x8800};
				let h = op | ((target / st) as u16) << 6 | 1 << 3 | 2;
				(if rng.chance(1, 2) {format!("{mn} R2, [R1 + {et}];")} else {format!("{mn} R2, [{et} + R1];")}, h.to_le_bytes().to_vec())
			},
		};
		text.push_str(&line);
		text.push('\n');
		want.extend_from_slice(&bytes);
		rendered.push(line);
	}
	text.push_str(&format!("end:\n.const start, {};\n.const tbl, {};\n", env["start"], env["tbl"]));
	let once = want.clone();
	for l in &rendered {text.push_str(l); text.push('\n');}
	want.extend_from_slice(&once);
	let project = Project::single(text.as_bytes());
	project.write(dir);
	cx.report.hit("nested sums over declared names: program");
	match run_real(dir)
	{
		Err(p) => {cx.report.case(Some("panic")); cx.report.oracle_fail(input, format!("panic: {p}"));},
		Ok(o) =>
		{
			let got: Vec<u8> = o.image.iter().filter(|(a, _)| **a >= base).map(|(_, b)| *b).collect();
			cx.report.case(Some(&hex(&got)));
			if !(o.assemble_ok && o.close_err.is_none() && o.finalize && o.errors.is_empty())
			{
				cx.report.oracle_fail(input.clone(), format!("a valid program is refused: {:?}; program {text:?}", o.errors.iter().take(3).collect::<Vec<_>>()));
			}
			else if got != want
			{
				let k = got.iter().zip(want.iter()).position(|(a, b)| a != b).unwrap_or(got.len().min(want.len()));
				cx.report.oracle_fail(input.clone(), format!("byte {k}: the image holds {}, the values of the expressions give {} (the second half repeats the statements behind the definitions); program {text:?}", hex(&got), hex(&want)));
			}
		},
	}
	check_asm_model(cx, &project, dir);
}

/// `>>` with a NEGATIVE left operand (`negshift <seed>`): label differences `lo - hi`, `0 - N`, masked; the shift is arithmetic (the sign
/// is kept), before and behind the definitions of the labels
fn check_negshift(cx: &mut Cx, seed: u64, dir: &std::path::Path)
{
	let mut rng = Rng::new(seed);
	let input = format!("negshift {seed}");
	let base = 0x2000_0000u32 + 4 * rng.below(64) as u32;
	let n = 2 + rng.below(4) as usize;
	let gap = 4 * (1 + rng.below(40)) as i64;   // hi - lo, a few statements of padding
	let mut forms: Vec<(String, u32, i64)> = Vec::new();   // text, width, value before masking
	for _ in 0..n
	{
		let k = *rng.pick(&[0i64, 1, 2, 3, 7, 31, 32, 60, 62, 63]);
		let nn = 1 + rng.below(1 << 20) as i64;
		forms.push(match rng.below(5)
		{
			0 => (format!("((lo - hi) >> {k}) & 0xFF"), 1, (-gap) >> k),
			1 => (format!("((0 - {nn}) >> {k}) & 0xFFFF"), 2, (-nn) >> k),
			2 => (format!("((lo - hi - {nn}) >> {k}) & 0xFFFFFFFF"), 4, (-gap - nn) >> k),
			3 => (format!("(-{nn} >> {k}) & 0xFF"), 1, (-nn) >> k),
			_ => (format!("(((lo - hi) * {nn}) >> {k}) & 0xFFFF"), 2, (-gap * nn) >> k),
		});
	}
	let mut text = format!(".addr 0x{base:X};\n");
	let mut want: Vec<u8> = Vec::new();
	let emit = |text: &mut String, want: &mut Vec<u8>| for (e, w, v) in &forms
	{
		text.push_str(&format!(".du{} {e};\n", 8 * w));
		let mask: i64 = match w {1 => 0xFF, 2 => 0xFFFF, _ => 0xFFFF_FFFF};
		want.extend_from_slice(&((v & mask) as u64).to_le_bytes()[..*w as usize]);
	};
	emit(&mut text, &mut want);
	text.push_str("lo:\n");
	for _ in 0..gap / 4 {text.push_str(".du32 0x5A5A5A5A;\n"); want.extend_from_slice(&0x5A5A_5A5Au32.to_le_bytes());}
	text.push_str("hi:\n");
	emit(&mut text, &mut want);
	let project = Project::single(text.as_bytes());
	project.write(dir);
	cx.report.hit("right shift of a negative left operand: program");
	match run_real(dir)
	{
		Err(p) => {cx.report.case(Some("panic")); cx.report.oracle_fail(input, format!("panic: {p}"));},
		Ok(o) =>
		{
			let got: Vec<u8> = o.image.iter().filter(|(a, _)| **a >= base).map(|(_, b)| *b).collect();
			cx.report.case(Some(&hex(&got[..got.len().min(24)])));
			if !(o.assemble_ok && o.close_err.is_none() && o.finalize && o.errors.is_empty()) {cx.report.oracle_fail(input.clone(), format!("refused: {:?}; program {text:?}", o.errors.iter().take(2).collect::<Vec<_>>()));}
			else if got != want
			{
				let k = got.iter().zip(want.iter()).position(|(a, b)| a != b).unwrap_or(0);
				cx.report.oracle_fail(input.clone(), format!("byte {k}: image {}, arithmetic shift gives {}; program {:?}", hex(&got[..got.len().min(40)]), hex(&want[..want.len().min(40)]), &text[..text.len().min(400)]));
			}
		},
	}
	check_asm_model(cx, &project, dir);
}

/// `.include` applied through `DirectiveList::process` on a fresh `Context` (no current file: the path is taken as it is
/// when absolute): must behave as the same include written in a main file — same image, same success
fn include_without_current_file(cx: &mut Cx, dir: &std::path::Path)
{
	use trion::text::parse::{ElementValue, Parser};
	use trion::text::Positioned;
	let child: &[u8] = b".addr 0x200;\nx: .du32 x;\nNOP;\n";
	for (class, body, ok) in [("ok", child, true), ("failing", &b".addr 0x200;\n.du8 256;\n"[..], false), ("missing", &b""[..], false)]
	{
		let p = Project{files: if class == "missing" {vec![("main.asm".to_owned(), Vec::new())]} else {vec![("main.asm".to_owned(), Vec::new()), ("c.asm".to_owned(), body.to_vec())]}};
		p.write(dir);
		let abs = dir.join("c.asm");
		let text = format!(".include \"{}\";", abs.display());
		let input = format!("include-direct {class}");
		let r = guarded(||
		{
			let directives = DirectiveList::generate();
			let mut ctx = Context::new(&Arm6M, &directives);
			let mut results = Vec::new();
			for el in Parser::new(text.as_bytes())
			{
				let el = el.expect("harness text parses");
				let (line, col) = (el.line, el.col);
				if let ElementValue::Directive{name, args} = el.value
				{
					let list = ctx.get_directives();
					results.push(list.process(&mut ctx, Positioned{line, col, value: (name.as_ref(), args)}).is_ok());
				}
			}
			let closed = ctx.close_segment().is_ok();
			let fin = ctx.finalize();
			let mut image = BTreeMap::new();
			for (range, seg) in ctx.output().iter() {for (i, b) in seg.iter().enumerate() {image.insert(range.get_first().wrapping_add(i as u32), *b);}}
			let errs: Vec<(String, u32, u32)> = ctx.get_errors().iter().map(|e| (e.name.as_ref().clone(), e.line, e.col)).collect();
			(results, closed, fin, image, errs, ctx.has_curr_file())
		});
		cx.report.case(Some(&format!("include-direct {class}")));
		cx.report.hit(&format!("include without a current file: {class}"));
		match r
		{
			Err(p) => cx.report.oracle_fail(input, format!("panic: {p}")),
			Ok((results, closed, fin, image, errs, has_file)) =>
			{
				if has_file {cx.report.oracle_fail(input.clone(), "a current file remains after the include returned");}
				if results != vec![ok] || !closed || fin != ok
				{
					cx.report.oracle_fail(input.clone(), format!("process = {results:?}, close = {closed}, finalize = {fin}; expected process = [{ok}], finalize = {ok}"));
				}
				if ok
				{
					// the same file as a main file
					std::fs::write(dir.join("main.asm"), body).unwrap();
					match run_real(dir)
					{
						Ok(o) => if o.image != image {cx.report.oracle_fail(input.clone(), format!("image {} differs from the image of the same file assembled as main file {}", image_str(&image), image_str(&o.image)));},
						Err(p) => cx.report.oracle_fail(input.clone(), format!("panic: {p}")),
					}
				}
				else if errs.is_empty() || errs.iter().any(|(f, l, c)| f.is_empty() || *l < 1 || *c < 1)
				{
					cx.report.oracle_fail(input.clone(), format!("failure without properly positioned diagnostics: {errs:?}"));
				}
			},
		}
	}
}

fn check_c06(cx: &mut Cx, project: &Project, expect: Expect, class: &str, dir: &std::path::Path)
{
	project.write(dir);
	let input = project.to_input();
	match run_real(dir)
	{
		Err(p) =>
		{
			cx.report.case(Some("panic"));
			cx.report.hit(&format!("{class}: PANIC"));
			cx.report.oracle_fail(input, format!("panic: {p}"));
		},
		Ok(o) =>
		{
			let success = o.close_err.is_none() && o.finalize;
			let outcome = if success {"success".to_owned()} else
			{
				format!("fail:{}", o.errors.first().map(|e| e.3.chars().take(60).collect::<String>()).unwrap_or_else(|| o.close_err.clone().unwrap_or_default()))
			};
			cx.report.case(Some(&outcome));
			cx.report.hit(&format!("{class}: {}", if success {"success"} else {"diagnosed"}));
			if success
			{
				if !o.errors.is_empty() {cx.report.oracle_fail(input.clone(), "success reported although diagnostics were recorded");}
				if !o.assemble_ok {cx.report.oracle_fail(input.clone(), "assemble() returned an error but no diagnostic was recorded and finalize() reported success");}
				if expect == Expect::MustFail {cx.report.oracle_fail(input.clone(), format!("an invalid construct ({class}) was accepted without a diagnostic"));}
			}
			else
			{
				if o.close_err.is_none() && o.errors.is_empty()
				{
					cx.report.oracle_fail(input.clone(), "failure without any recorded diagnostic");
				}
				for (file, line, col, msg) in &o.errors
				{
					if file.is_empty() || *line < 1 || *col < 1
					{
						cx.report.oracle_fail(input.clone(), format!("diagnostic without a proper position: {file:?} {line}:{col} {msg}"));
						break;
					}
				}
			}
		},
	}
	check_asm_model(cx, project, dir);
}

fn mutate(rng: &mut Rng, data: &mut Vec<u8>)
{
	let n = 1 + rng.below(3);
	for _ in 0..n
	{
		if data.is_empty() {data.push(rng.next() as u8); continue;}
		let p = rng.below(data.len() as u64) as usize;
		match rng.below(7)
		{
			0 => {data.remove(p);},
			1 => {let b = data[p]; data.insert(p, b);},
			2 => data[p] ^= 1 << rng.below(8),
			3 => data[p] = *rng.pick(&[b'"', b'\'', b'\\', b'/', b'*', b';', b'(', b'[', b'{', b'\n', 0x7F, 0xC3, 0xFF, b'0', b'x', b'-']),
			4 =>
			{
				let q = rng.below(data.len() as u64) as usize;
				let (a, b) = (p.min(q), p.max(q));
				let piece: Vec<u8> = data[a..b].to_vec();
				let at = rng.below(data.len() as u64 + 1) as usize;
				for (i, x) in piece.into_iter().enumerate() {data.insert(at + i, x);}
			},
			5 => data.truncate(p),
			_ => data.insert(p, *rng.pick(&[b' ', b'\t', 0xE2, 0x82, 0xAC, b'\r'])),
		}
	}
}

/// K2: a file that includes itself — run the real `trias` in a child process and observe how it ends
fn self_include(cx: &mut Cx, dir: &std::path::Path, cycle: usize)
{
	let _ = std::fs::remove_dir_all(dir);
	std::fs::create_dir_all(dir).unwrap();
	for i in 0..cycle
	{
		let next = if i + 1 == cycle {"main.asm".to_owned()} else {format!("f{}.asm", i + 1)};
		let name = if i == 0 {"main.asm".to_owned()} else {format!("f{i}.asm")};
		std::fs::write(dir.join(name), format!(".addr 0x20000000;\n.include \"{next}\";\n")).unwrap();
	}
	let exe = repo_bin("trias");
	if !exe.exists()
	{
		cx.report.notes.push("trias executable not built; self-include case skipped".to_owned());
		return;
	}
	let out = std::process::Command::new(&exe).arg(dir.join("main.asm")).output();
	cx.report.case(Some("selfinclude"));
	match out
	{
		Ok(o) =>
		{
			use std::os::unix::process::ExitStatusExt;
			if let Some(sig) = o.status.signal()
			{
				cx.report.hit("selfinclude: killed by signal");
				cx.report.oracle_fail(format!("selfinclude {cycle}"), format!("trias on a project whose include graph has a cycle of length {cycle} was killed by signal {sig} (stack overflow) instead of reporting a diagnostic"));
			}
			else
			{
				cx.report.hit("selfinclude: exited");
				let err = String::from_utf8_lossy(&o.stderr);
				if err.trim().is_empty()
				{
					cx.report.oracle_fail(format!("selfinclude {cycle}"), format!("trias on a cyclic include ended with status {:?} without a diagnostic", o.status.code()));
				}
			}
		},
		Err(e) => cx.report.notes.push(format!("could not run trias: {e}")),
	}
}

// ---------------------------------------------------------------------------------------------------------

pub fn run(id: &str, cx: &mut Cx)
{
	let dir = cx.work.join("proj");
	if let Some(input) = cx.replay.clone()
	{
		if let Some(rest) = input.strip_prefix("selfinclude")
		{
			self_include(cx, &dir, rest.trim().parse().unwrap_or(1));
			return;
		}
		if let Some(seed) = input.strip_prefix("negshift ").and_then(|x| x.trim().parse::<u64>().ok()) {check_negshift(cx, seed, &dir); return;}
		if let Some(seed) = input.strip_prefix("nested ").and_then(|x| x.trim().parse::<u64>().ok()) {check_nested(cx, seed, &dir); return;}
		if let Some(k) = input.strip_prefix("large ").and_then(|x| x.trim().parse::<usize>().ok()) {check_large(cx, id, k, &dir); return;}
		if let Some(seed) = input.strip_prefix("dulist ").and_then(|x| x.trim().parse::<u64>().ok()) {check_du_list(cx, seed, &dir); return;}
		if let Some(room) = input.strip_prefix("procfile ").and_then(|x| x.trim().parse::<u32>().ok()) {check_procfile(cx, room, &dir); return;}
		if let Some(seed) = input.strip_prefix("shadow ").and_then(|x| x.trim().parse::<u64>().ok())
		{
			check_shadow(cx, seed, &dir);
			return;
		}
		if input.starts_with("include-direct")
		{
			include_without_current_file(cx, &dir);
			return;
		}
		if input.starts_with("late-value")
		{
			finalize_with_late_values(cx, &dir);
			return;
		}
		if let Some((abs, proj)) = input.strip_prefix("layout ").and_then(|r| r.split_once(" | "))
		{
			// a model/implementation disagreement of the layout correspondence: re-run both sides
			match Project::from_input(proj)
			{
				None => cx.report.oracle_fail(input.clone(), "unrecognised replay input"),
				Some(p) =>
				{
					p.write(&dir);
					let real = match run_real(&dir)
					{
						Err(e) => format!("PANIC {e}"),
						Ok(o) => if o.close_err.is_none() && o.finalize {format!("ok {}", image_str(&o.image))} else {fail_kind(&o)},
					};
					let model = cx.model.ask(&format!("layout run {abs}"));
					cx.report.case(Some(&real));
					let agree = if real.starts_with("ok ") || model.starts_with("ok ") {real == model} else {!(real.starts_with("PANIC") ^ (model == "fail PANIC"))};
					if !agree {cx.report.disagree("model.layout.run", input.clone(), model, real);}
				},
			}
			return;
		}
		match Project::from_input(&input)
		{
			None => cx.report.oracle_fail(input, "unrecognised replay input"),
			Some(p) =>
			{
				if id == "C05"
				{
					// without the AST the reference is unknown: re-run and report the outcome only
					p.write(&dir);
					match run_real(&dir)
					{
						Err(e) => cx.report.oracle_fail(input, format!("panic: {e}")),
						Ok(o) => cx.report.notes.push(format!("outcome: ok={} errors={:?} image={}", o.finalize, o.errors, image_str(&o.image))),
					}
					check_asm_model(cx, &p, &dir);
				}
				else {check_c06(cx, &p, Expect::Any, "replay", &dir);}
			},
		}
		return;
	}
	match id
	{
		"C05" =>
		{
			cx.report.rule = "programs generated from an AST (1-4 regions: far apart / adjacent after / adjacent before / top of the address space / flash; \
labels, constants, .du8/16/32 with expressions over forward and backward symbols, .dstr/.dhex/.dfile, .align, literal and PC-relative instructions, \
.include with .global/.import) rendered with random spacing/comments; oracle = two-pass reference layout computed from the AST (also for the damaged variants the implementation accepts); \
non-trivial = non-empty image; distinct = distinct images".to_owned();
			for _ in 0..if cx.thorough() {4000} else {400} {let seed = cx.rng.next(); check_shadow(cx, seed, &dir);}
			for k in 0..large_programs().len() {check_large(cx, id, k, &dir);}
			for _ in 0..if cx.thorough() {3000} else {300} {let seed = cx.rng.next(); check_du_list(cx, seed, &dir);}
			for _ in 0..if cx.thorough() {10_000} else {800} {let seed = cx.rng.next(); check_nested(cx, seed, &dir);}
			for _ in 0..if cx.thorough() {3000} else {300} {let seed = cx.rng.next(); check_negshift(cx, seed, &dir);}
			let n = if cx.thorough() {100_000} else {12_000};
			let mut made = 0;
			let mut tries = 0;
			while made < n && tries < n * 4
			{
				tries += 1;
				let mut rng = cx.rng.fork();
				let Some(gen) = generate(&mut rng) else {cx.report.hit("generator: rejected draft"); continue};
				made += 1;
				for s in &gen.shape {cx.report.hit(&format!("shape: {s}"));}
				if made <= 3 {cx.report.sample(String::from_utf8_lossy(&gen.project.files[0].1).chars().take(400).collect::<String>());}
				check_c05(cx, &gen, &dir);
				check_layout_model(cx, &gen.stmts, &gen.env, &gen.project, &dir, Some(&gen.image));
				gen.project.write(&dir);
				check_asm_model(cx, &gen.project, &dir);
				if made % 3 == 0
				{
					// damaged variants: only model vs implementation (success/failure and image), no reference
					let mut st = gen.stmts.clone();
					let what = damage(&mut rng, &mut st);
					// symbol values of the damaged program (first definition wins, as far as pass 1 gets)
					let mut denv = HashMap::new();
					let mut dcur = None;
					let _ = pass1_lenient(&st, &mut dcur, &mut denv);
					if abstract_form(&st, &denv).is_some()
					{
						cx.report.hit(&format!("damage: {what}"));
						let mut files = Vec::new();
						let mut rr = rng.fork();
						let main = render_stmts(&st, &mut rr, &mut files);
						let mut all = vec![("main.asm".to_owned(), main.into_bytes())];
						all.extend(files);
						let p = Project{files: all};
						check_layout_model(cx, &st, &denv, &p, &dir, None);
						check_damaged_reference(cx, &st, &p, &dir);
						check_asm_model(cx, &p, &dir);
						cx.report.cases(1);
					}
				}
				if cx.report.oracle_failures_total >= 20 || cx.report.disagreements_total >= 20 {break;}
			}
			cx.report.hit_n("programs", made as u64);
		},
		"C06" =>
		{
			cx.report.rule = "(a) corpus of design-time panics and regressions; (b) well-formed generated programs with one ill-formed construct \
(register as constant, arity, kind, unknown name, range, undefined, duplicate, bad hex, missing file, parse error) spliced in at a random statement boundary \
or placed before any .addr; (b') character and string literals over characters of every UTF-8 width and every escape form, whole and damaged; (c) byte-level mutations (delete/duplicate/flip/splice/truncate) of generated programs; (d) cyclic includes in a child process (K2). \
oracle = no panic; success xor (diagnostic with file/line/col or close error); invalid constructs diagnosed; non-trivial/distinct = distinct outcome classes (first diagnostic text)".to_owned();
			for (tag, text) in CORPUS
			{
				check_c06(cx, &Project::single(text), Expect::Any, &format!("corpus {tag}"), &dir);
			}
			// every invalid construct alone, after .addr, and before any .addr
			for (class, text) in INVALID
			{
				check_c06(cx, &Project::single(format!(".addr 0x100;\n{text}\n").as_bytes()), Expect::MustFail, class, &dir);
				check_c06(cx, &Project::single(format!("{text}\n").as_bytes()), Expect::MustFail, class, &dir);
			}
			// writes before .addr
			for text in ["NOP;", ".du8 1;", ".dstr \"a\";", ".dhex \"00\";", ".align 4;", "x:", ".dfile \"main.asm\";", "B 0;"]
			{
				check_c06(cx, &Project::single(text.as_bytes()), Expect::MustFail, "write-before-addr", &dir);
			}
			// every known mnemonic with suffix spam is an unknown mnemonic
			for (mn, ops) in [("NOP", ""), ("WFI", ""), ("SEV", ""), ("YIELD", ""), ("UDF.W", " 1"), ("UDF.N", " 1"), ("ADDS", " R0, R1, R2"), ("MOVS", " R0, 1"), ("MOV", " R8, R0"), ("B", " 0x100"), ("BL", " 0x100"),
				("BEQ", " 0x100"), ("BX", " LR"), ("LDR", " R0, [R1]"), ("STRB", " R0, [R1 + 1]"), ("PUSH", " {R0}"), ("POP", " {R1}"), ("SVC", " 1"), ("BKPT", " 1"), ("DMB", " SY"), ("MRS", " R0, PRIMASK"),
				("CPSID", " i"), ("ADCS", " R0, R1"), ("LSLS", " R0, R1, 1"), ("CMP", " R0, 1"), ("ADR", " R0, 0x104"), ("SXTB", " R0, R1")]
			{
				for suf in [".n", ".N", ".n.n", ".w", ".W", ".w.n", "..n", ".", ".n.", ".n.n.n", ".N.n"]
				{
					for lower in [false, true]
					{
						let name = if lower {format!("{}{suf}", mn.to_lowercase())} else {format!("{mn}{suf}")};
						check_c06(cx, &Project::single(format!(".addr 0x100;\n{name}{ops};\n").as_bytes()), Expect::MustFail, "mnemonic with suffix spam", &dir);
					}
				}
			}
			// constructs with a known position and message; multi-file scenarios; `.include` without a current file
			for (class, text, line, col, fragment) in POSITIONED
			{
				check_c06_at(cx, &Project::single(text.as_bytes()), class, &dir, Some(("main.asm", *line, *col, fragment)));
				// the same statement behind a preamble of other lines and characters: the position moves with it
				let shifted = format!("// \u{e9}\u{20ac}\n/* c\n */\t{text}");
				let (l2, c2) = if *line == 1 {(3, *col + 4)} else {(*line + 2, *col)};
				check_c06_at(cx, &Project::single(shifted.as_bytes()), class, &dir, Some(("main.asm", l2, c2, fragment)));
			}
			for (class, files, want) in SCENARIOS
			{
				let p = Project{files: files.iter().map(|(n, d)| (n.to_string(), d.to_vec())).collect()};
				check_c06_at(cx, &p, class, &dir, *want);
			}
			include_without_current_file(cx, &dir);
			finalize_with_late_values(cx, &dir);
			for k in 0..large_programs().len() {check_large(cx, id, k, &dir);}
			for room in [4u32, 12, 1000] {check_procfile(cx, room, &dir);}
			for _ in 0..100 {let seed = cx.rng.next(); check_du_list(cx, seed, &dir);}
			let n = if cx.thorough() {120_000} else {8_000};
			let mut made = 0;
			while made < n
			{
				let mut rng = cx.rng.fork();
				let Some(gen) = generate(&mut rng) else {continue};
				made += 1;
				if made % 2 == 0
				{
					// splice an invalid construct into main.asm at a statement boundary
					let (class, text) = rng.pick(INVALID);
					let main = String::from_utf8_lossy(&gen.project.files[0].1).into_owned();
					let cuts: Vec<usize> = main.char_indices().filter(|(_, c)| *c == ';' || *c == ':').map(|(i, _)| i + 1).collect();
					let at = if cuts.is_empty() || rng.chance(1, 8) {0} else {*rng.pick(&cuts)};
					// a `;` inside a string or comment would make the splice land inside it: only accept boundaries followed by a line end
					let ok_at = at == 0 || main[at..].starts_with('\n') || main[at..].starts_with("\r\n") || main[at..].starts_with("\n\t");
					if !ok_at {made -= 1; continue;}
					let mut m = main.clone();
					m.insert_str(at, &format!("\n{text}\n"));
					let mut p = gen.project.clone();
					p.files[0].1 = m.into_bytes();
					// a parse-class construct that lacks its terminator swallows what follows; anything is fine but it must fail
					// an unclosed block comment is closed by a `*/` that follows (the renderer writes line comments ending in `*/`): then anything is fine
					let closed_later = text.contains("/*") && main[at..].contains("*/");
					check_c06(cx, &p, if closed_later {Expect::Any} else {Expect::MustFail}, class, &dir);
					if made <= 4 {cx.report.sample(format!("{class}: {text}"));}
				}
				else
				{
					let mut p = gen.project.clone();
					let k = rng.below(p.files.len() as u64) as usize;
					if p.files[k].0.ends_with(".bin") {made -= 1; continue;}
					mutate(&mut rng, &mut p.files[k].1);
					check_c06(cx, &p, Expect::Any, "mutation", &dir);
				}
				if cx.report.oracle_failures_total >= 20 {break;}
			}
			// arithmetic corners as program text: every operator over boundary operands, literal or deferred
			let lits = ["0", "1", "2", "3", "63", "64", "65", "(0 - 1)", "-1", "(1 << 63)", "((1 << 63) + 1)", "9223372036854775807",
				"0x7FFFFFFFFFFFFFFF", "4294967296", "(0 - 4294967295)", "-(1 << 62)", "!0", "'a'", "x", "y"];
			let ops = ["+", "-", "*", "/", "%", "&", "|", "^", "<<", ">>"];
			let nexpr = if cx.thorough() {60_000} else {6_000};
			for i in 0..nexpr
			{
				let mut rng = cx.rng.fork();
				fn gen(rng: &mut Rng, lits: &[&str], ops: &[&str], depth: u32) -> String
				{
					if depth == 0 || rng.chance(1, 3) {return rng.pick(lits).to_string();}
					match rng.below(8)
					{
						0 => format!("-{}", gen(rng, lits, ops, depth - 1)),
						1 => format!("!{}", gen(rng, lits, ops, depth - 1)),
						2 => format!("({})", gen(rng, lits, ops, depth - 1)),
						_ => {let o = *rng.pick(ops); format!("({} {} {})", gen(rng, lits, ops, depth - 1), o, gen(rng, lits, ops, depth - 1))},
					}
				}
				let e = if i < (lits.len() * lits.len() * ops.len()) as u64
				{
					// exhaustive part: every operator over every ordered pair of boundary operands
					let (a, r) = ((i as usize) / (lits.len() * ops.len()), (i as usize) % (lits.len() * ops.len()));
					format!("{} {} {}", lits[a], ops[r / lits.len()], lits[r % lits.len()])
				}
				else {gen(&mut rng, &lits, &ops, 4)};
				let (xv, yv) = (*rng.pick(&["0", "1", "-1", "(1 << 63)", "9223372036854775807", "5"]), *rng.pick(&["0", "1", "-1", "3", "64"]));
				let text = match rng.below(4)
				{
					0 => format!(".addr 0x100;\n.const x, {xv};\n.const y, {yv};\n.du32 ({e}) & 0xFF;\n"),
					1 => format!(".addr 0x100;\n.du32 ({e}) & 0xFF;\n.const x, {xv};\n.const y, {yv};\n"),
					2 => format!(".addr 0x100;\n.global x;\n.global y;\nMOVS R0, ({e}) & 0xFF;\n.const x, {xv};\n.const y, {yv};\n"),
					_ => format!(".addr 0x100;\n.const y, {yv};\n.du8 (({e}) % 7) & 1;\n.const x, {xv};\n"),
				};
				check_c06(cx, &Project::single(text.as_bytes()), Expect::Any, "expression", &dir);
				if cx.report.oracle_failures_total >= 20 {break;}
			}
			// two-operator chains of one operator family around a name that is still unvalued (declared .global, defined below) or a
			// register, with boundary constants on both sides: the places where the simplifier merges two constants (`(c / x) / d`,
			// `(x * c) * d`, `c - (x - d)`, `(x << c) >> d` …) must report, never panic (`MIN / -1`, `MIN * -1`, shift totals, `% 0`)
			{
				let cs = ["0", "1", "-1", "(1 << 63)", "9223372036854775807", "2", "64", "4294967296"];
				let pairs = [("+", "+"), ("+", "-"), ("-", "+"), ("-", "-"), ("*", "*"), ("*", "/"), ("/", "*"), ("/", "/"), ("%", "%"), ("&", "&"), ("|", "|"), ("^", "^"),
					("<<", "<<"), ("<<", ">>"), (">>", "<<"), (">>", ">>"), ("/", "%"), ("%", "/")];
				let mut k = 0u64;
				for (o1, o2) in pairs
				{
					for c in cs
					{
						for d in cs
						{
							for form in 0..4
							{
								k += 1;
								let v = if k % 4 == 3 {"r0"} else {"x"};
								let e = match form
								{
									0 => format!("({c} {o1} {v}) {o2} {d}"),
									1 => format!("({v} {o1} {c}) {o2} {d}"),
									2 => format!("{c} {o1} ({v} {o2} {d})"),
									_ => format!("{c} {o1} ({d} {o2} {v})"),
								};
								let xv = ["0", "1", "-1", "(1 << 63)", "9223372036854775807", "5"][(k % 6) as usize];
								let text = match k % 3
								{
									0 => format!(".addr 0x100;\n.global x;\n.du32 {e};\n.const x, {xv};\n"),
									1 => format!(".addr 0x100;\n.global x;\nMOVS R0, ({e}) & 0xFF;\n.const x, {xv};\n"),
									_ => format!(".addr 0x100;\n.global x;\nLDR R1, [R2 + ({e})];\nx:\n"),
								};
								check_c06(cx, &Project::single(text.as_bytes()), Expect::Any, "expression", &dir);
							}
						}
					}
					if cx.report.oracle_failures_total >= 20 {break;}
				}
				cx.report.hit_n("two-operator chains around an unvalued name or register with boundary constants", k);
			}
			// literals: characters of every UTF-8 width (and escapes) in character and string literals, whole and damaged
			let chars: Vec<char> = vec!['a', '~', ' ', '\t', '\u{7f}', '\u{80}', '\u{e9}', '\u{7ff}', '\u{800}', '\u{20ac}', '\u{d7ff}', '\u{e000}', '\u{fffd}', '\u{ffff}',
				'\u{10000}', '\u{1F600}', '\u{10FFFF}', '\'', '"', '\\', '\n', '\r', '\0'];
			let escs = ["\\n", "\\t", "\\0", "\\\\", "\\'", "\\\"", "\\x41", "\\x7F", "\\x80", "\\u{20AC}", "\\u{+1F600}", "\\u{110000}", "\\u{D800}", "\\q", "\\"];
			let nlit = if cx.thorough() {20_000} else {2_500};
			for i in 0..nlit
			{
				let mut rng = cx.rng.fork();
				let mut piece = |rng: &mut Rng| -> String
				{
					if rng.chance(1, 4) {rng.pick(&escs).to_string()}
					else if rng.chance(1, 6) {char::from_u32(rng.below(0x11_0000) as u32).unwrap_or('\u{fffd}').to_string()}
					else {rng.pick(&chars).to_string()}
				};
				let text = match if i % 9 == 8 {4} else {i % 4}
				{
					4 =>
					{
						// hex strings: digits, blanks, signs, non-ASCII characters of every width, odd lengths
						let n = rng.below(9);
						let body: String = (0..n).map(|_| match rng.below(8) {0 => rng.pick(&chars).to_string(), 1 => (*rng.pick(&["+", "-", " ", "\t", "x", "g", "\u{e9}", "\u{20ac}", "\u{1F600}", "\u{ff11}"])).to_owned(),
							_ => char::from_digit(rng.below(16) as u32, 16).unwrap().to_string()}).collect();
						format!(".addr 0x100;\n.dhex \"{}\";\n.du8 3;\n", body.replace('\\', "").replace('"', ""))
					},
					0 => format!(".addr 0x100;\n.du32 '{}';\n.du8 1;\n", if (i / 4) < chars.len() as u64 {chars[(i / 4) as usize].to_string()} else {piece(&mut rng)}),
					1 => {let n = rng.below(5); let body: String = (0..n).map(|_| piece(&mut rng)).collect(); format!(".addr 0x100;\n.dstr \"{body}\";\n.du8 2;\n")},
					2 => format!(".addr 0x100;\n.du32 '{}' + '{}';\n.dstr \"{}{}\";\n", piece(&mut rng), piece(&mut rng), piece(&mut rng), piece(&mut rng)),
					_ => format!(".addr 0x100;\n.du32 '{}{}';\n/* {} */ .du8 '{}\n", piece(&mut rng), piece(&mut rng), piece(&mut rng), piece(&mut rng)),
				};
				let mut data = text.into_bytes();
				if rng.chance(1, 3) {mutate(&mut rng, &mut data);}
				check_c06(cx, &Project::single(&data), Expect::Any, "literal", &dir);
				if cx.report.oracle_failures_total >= 20 {break;}
			}
			for cycle in [1usize, 2] {self_include(cx, &dir, cycle);}
		},
		_ => unreachable!(),
	}
	let _ = std::fs::remove_dir_all(&dir);
}
