//! C01 / C02 / C03 — correspondence of `trion::arm6m::asm::Instruction::{encode, decode}` with the Lean model
//! `Trion.Codec` and the property oracles evaluated directly on the implementation.
//!
//! Bulk scheme: the same finite domains are enumerated on both sides in the same order; each side folds the
//! canonical result of every element into a 64-bit digest (`mix`, word-wise FNV-1a); digests are compared per
//! block and a mismatching block is re-run element by element through the single-request protocol
//! (`codec enc …` / `codec dec …`) comparing canonical text, which yields the first differing inputs.
//! Work is spread over up to 8 worker threads, each with its own model process.
// catch-all arms keep the harness compiling when the crate adds a variant to one of its error enums (the outcome is then `unknown:<Debug>`)
#![allow(unreachable_patterns)]
use std::collections::HashSet;
use std::sync::atomic::{AtomicUsize, Ordering};
use std::sync::Mutex;

use trion::arm6m::asm::{DecodeError, EncodeError, ImmReg, Instruction};
use trion::arm6m::cond::Condition;
use trion::arm6m::reg::Register;
use trion::arm6m::regset::RegisterSet;
use trion::arm6m::sysreg::SystemReg;

use crate::common::*;

const NAMES: [&str; 58] = ["adc", "add", "adr", "and", "asr", "b", "bic", "bkpt", "bl", "blx", "bx", "cmn", "cmp",
	"cps", "dmb", "dsb", "eor", "isb", "ldm", "ldr", "ldrb", "ldrh", "ldrsb", "ldrsh", "lsl", "lsr", "mov", "mrs",
	"msr", "mul", "mvn", "nop", "orr", "pop", "push", "rev", "rev16", "revsh", "ror", "rsb", "sbc", "sev", "stm",
	"str", "strb", "strh", "sub", "svc", "sxtb", "sxth", "tst", "udf", "udfw", "uxtb", "uxth", "wfe", "wfi", "yield"];
/// slot kinds: R register, F flag, C condition, S system register, M register set, I integer, X ImmReg
const KINDS: [&str; 58] = ["RR", "FRRX", "RI", "RR", "RRX", "CI", "RR", "I", "I", "R", "R", "RR", "RX",
	"F", "", "", "RR", "", "RM", "RRX", "RRX", "RRX", "RRR", "RRR", "RRX", "RRX", "FRX", "RS",
	"SR", "RR", "RR", "", "RR", "M", "M", "RR", "RR", "RR", "RR", "RR", "RR", "", "RM",
	"RRX", "RRX", "RRX", "FRRX", "I", "RR", "RR", "RR", "I", "I", "RR", "RR", "", "", ""];
const SYS: [i64; 11] = [0, 1, 2, 3, 5, 6, 7, 8, 9, 16, 20];
/// variants whose encodings are 32 bits wide
const WIDE_TAGS: [usize; 7] = [8, 14, 15, 17, 27, 28, 52];

fn is_wide_tag(t: usize) -> bool {WIDE_TAGS.contains(&t)}

// ---------------------------------------------------------------------------------------------------------
// instruction <-> (tag, integer fields), the same numbering as Driver/Codec.lean

fn r(x: Register) -> i64 {u8::from(x) as i64}

fn ir(x: &ImmReg, f: &mut [i64; 6], at: usize) -> usize
{
	match x
	{
		ImmReg::Immediate(v) => {f[at] = 0; f[at + 1] = *v as i64;},
		ImmReg::Register(x) => {f[at] = 1; f[at + 1] = r(*x);},
	}
	at + 2
}

fn fields_of(i: &Instruction, f: &mut [i64; 6]) -> (usize, usize)
{
	use Instruction::*;
	macro_rules! rr {($t:expr, $a:expr, $b:expr) => {{f[0] = r(*$a); f[1] = r(*$b); ($t, 2)}}}
	macro_rules! rrx {($t:expr, $a:expr, $b:expr, $x:expr) => {{f[0] = r(*$a); f[1] = r(*$b); ($t, ir($x, f, 2))}}}
	match i
	{
		Adc{dst, rhs} => rr!(0, dst, rhs),
		Add{flags, dst, lhs, rhs} => {f[0] = *flags as i64; f[1] = r(*dst); f[2] = r(*lhs); (1, ir(rhs, f, 3))},
		Adr{dst, off} => {f[0] = r(*dst); f[1] = *off as i64; (2, 2)},
		And{dst, rhs} => rr!(3, dst, rhs),
		Asr{dst, value, shift} => rrx!(4, dst, value, shift),
		B{cond, off} => {f[0] = u8::from(*cond) as i64; f[1] = *off as i64; (5, 2)},
		Bic{dst, rhs} => rr!(6, dst, rhs),
		Bkpt{info} => {f[0] = *info as i64; (7, 1)},
		Bl{off} => {f[0] = *off as i64; (8, 1)},
		Blx{off} => {f[0] = r(*off); (9, 1)},
		Bx{off} => {f[0] = r(*off); (10, 1)},
		Cmn{lhs, rhs} => rr!(11, lhs, rhs),
		Cmp{lhs, rhs} => {f[0] = r(*lhs); (12, ir(rhs, f, 1))},
		Cps{enable} => {f[0] = *enable as i64; (13, 1)},
		Dmb => (14, 0),
		Dsb => (15, 0),
		Eor{dst, rhs} => rr!(16, dst, rhs),
		Isb => (17, 0),
		Ldm{addr, registers} => {f[0] = r(*addr); f[1] = registers.get_bits() as i64; (18, 2)},
		Ldr{dst, addr, off} => rrx!(19, dst, addr, off),
		Ldrb{dst, addr, off} => rrx!(20, dst, addr, off),
		Ldrh{dst, addr, off} => rrx!(21, dst, addr, off),
		Ldrsb{dst, addr, off} => {f[0] = r(*dst); f[1] = r(*addr); f[2] = r(*off); (22, 3)},
		Ldrsh{dst, addr, off} => {f[0] = r(*dst); f[1] = r(*addr); f[2] = r(*off); (23, 3)},
		Lsl{dst, value, shift} => rrx!(24, dst, value, shift),
		Lsr{dst, value, shift} => rrx!(25, dst, value, shift),
		Mov{flags, dst, src} => {f[0] = *flags as i64; f[1] = r(*dst); (26, ir(src, f, 2))},
		Mrs{dst, src} => {f[0] = r(*dst); f[1] = sysm_of(*src) as i64; (27, 2)},
		Msr{dst, src} => {f[0] = sysm_of(*dst) as i64; f[1] = r(*src); (28, 2)},
		Mul{dst, rhs} => rr!(29, dst, rhs),
		Mvn{dst, value} => rr!(30, dst, value),
		Nop => (31, 0),
		Orr{dst, rhs} => rr!(32, dst, rhs),
		Pop{registers} => {f[0] = registers.get_bits() as i64; (33, 1)},
		Push{registers} => {f[0] = registers.get_bits() as i64; (34, 1)},
		Rev{dst, value} => rr!(35, dst, value),
		Rev16{dst, value} => rr!(36, dst, value),
		Revsh{dst, value} => rr!(37, dst, value),
		Ror{dst, rhs} => rr!(38, dst, rhs),
		Rsb{dst, lhs} => rr!(39, dst, lhs),
		Sbc{dst, rhs} => rr!(40, dst, rhs),
		Sev => (41, 0),
		Stm{addr, registers} => {f[0] = r(*addr); f[1] = registers.get_bits() as i64; (42, 2)},
		Str{src, addr, off} => rrx!(43, src, addr, off),
		Strb{src, addr, off} => rrx!(44, src, addr, off),
		Strh{src, addr, off} => rrx!(45, src, addr, off),
		Sub{flags, dst, lhs, rhs} => {f[0] = *flags as i64; f[1] = r(*dst); f[2] = r(*lhs); (46, ir(rhs, f, 3))},
		Svc{info} => {f[0] = *info as i64; (47, 1)},
		Sxtb{dst, value} => rr!(48, dst, value),
		Sxth{dst, value} => rr!(49, dst, value),
		Tst{lhs, rhs} => rr!(50, lhs, rhs),
		Udf{info} => {f[0] = *info as i64; (51, 1)},
		Udfw{info} => {f[0] = *info as i64; (52, 1)},
		Uxtb{dst, value} => rr!(53, dst, value),
		Uxth{dst, value} => rr!(54, dst, value),
		Wfe => (55, 0),
		Wfi => (56, 0),
		Yield => (57, 0),
	}
}

fn reg(v: i64) -> Option<Register> {if (0..16).contains(&v) {Register::try_from(v as u8).ok()} else {None}}
fn flag(v: i64) -> Option<bool> {match v {0 => Some(false), 1 => Some(true), _ => None}}
fn cond(v: i64) -> Option<Condition> {if (0..15).contains(&v) {Condition::try_from(v as u8).ok()} else {None}}
fn sysr(v: i64) -> Option<SystemReg> {if (0..256).contains(&v) {sysreg_of(v as u8)} else {None}}
fn rset(v: i64) -> Option<RegisterSet> {if (0..65536).contains(&v) {Some(RegisterSet::of(v as u16))} else {None}}
fn i32v(v: i64) -> Option<i32> {i32::try_from(v).ok()}
fn immreg(k: i64, v: i64) -> Option<ImmReg>
{
	match k {0 => Some(ImmReg::Immediate(i32v(v)?)), 1 => Some(ImmReg::Register(reg(v)?)), _ => None}
}

/// `None` when a field is outside its Rust type (such a value cannot exist)
fn of_fields(t: usize, f: &[i64]) -> Option<Instruction>
{
	use Instruction::*;
	macro_rules! rr {($v:ident, $a:ident, $b:ident) => {match f {[a, b] => Some($v{$a: reg(*a)?, $b: reg(*b)?}), _ => None}}}
	macro_rules! rrx {($v:ident, $a:ident, $b:ident, $x:ident) => {match f {[a, b, k, v] => Some($v{$a: reg(*a)?, $b: reg(*b)?, $x: immreg(*k, *v)?}), _ => None}}}
	macro_rules! rrr {($v:ident, $a:ident, $b:ident, $c:ident) => {match f {[a, b, c] => Some($v{$a: reg(*a)?, $b: reg(*b)?, $c: reg(*c)?}), _ => None}}}
	match t
	{
		0 => rr!(Adc, dst, rhs),
		1 => match f {[fl, a, b, k, v] => Some(Add{flags: flag(*fl)?, dst: reg(*a)?, lhs: reg(*b)?, rhs: immreg(*k, *v)?}), _ => None},
		2 => match f {[d, o] => Some(Adr{dst: reg(*d)?, off: u16::try_from(*o).ok()?}), _ => None},
		3 => rr!(And, dst, rhs),
		4 => rrx!(Asr, dst, value, shift),
		5 => match f {[c, o] => Some(B{cond: cond(*c)?, off: i32v(*o)?}), _ => None},
		6 => rr!(Bic, dst, rhs),
		7 => match f {[i] => Some(Bkpt{info: u8::try_from(*i).ok()?}), _ => None},
		8 => match f {[o] => Some(Bl{off: i32v(*o)?}), _ => None},
		9 => match f {[x] => Some(Blx{off: reg(*x)?}), _ => None},
		10 => match f {[x] => Some(Bx{off: reg(*x)?}), _ => None},
		11 => rr!(Cmn, lhs, rhs),
		12 => match f {[a, k, v] => Some(Cmp{lhs: reg(*a)?, rhs: immreg(*k, *v)?}), _ => None},
		13 => match f {[e] => Some(Cps{enable: flag(*e)?}), _ => None},
		14 => if f.is_empty() {Some(Dmb)} else {None},
		15 => if f.is_empty() {Some(Dsb)} else {None},
		16 => rr!(Eor, dst, rhs),
		17 => if f.is_empty() {Some(Isb)} else {None},
		18 => match f {[a, m] => Some(Ldm{addr: reg(*a)?, registers: rset(*m)?}), _ => None},
		19 => rrx!(Ldr, dst, addr, off),
		20 => rrx!(Ldrb, dst, addr, off),
		21 => rrx!(Ldrh, dst, addr, off),
		22 => rrr!(Ldrsb, dst, addr, off),
		23 => rrr!(Ldrsh, dst, addr, off),
		24 => rrx!(Lsl, dst, value, shift),
		25 => rrx!(Lsr, dst, value, shift),
		26 => match f {[fl, d, k, v] => Some(Mov{flags: flag(*fl)?, dst: reg(*d)?, src: immreg(*k, *v)?}), _ => None},
		27 => match f {[d, s] => Some(Mrs{dst: reg(*d)?, src: sysr(*s)?}), _ => None},
		28 => match f {[s, x] => Some(Msr{dst: sysr(*s)?, src: reg(*x)?}), _ => None},
		29 => rr!(Mul, dst, rhs),
		30 => rr!(Mvn, dst, value),
		31 => if f.is_empty() {Some(Nop)} else {None},
		32 => rr!(Orr, dst, rhs),
		33 => match f {[m] => Some(Pop{registers: rset(*m)?}), _ => None},
		34 => match f {[m] => Some(Push{registers: rset(*m)?}), _ => None},
		35 => rr!(Rev, dst, value),
		36 => rr!(Rev16, dst, value),
		37 => rr!(Revsh, dst, value),
		38 => rr!(Ror, dst, rhs),
		39 => rr!(Rsb, dst, lhs),
		40 => rr!(Sbc, dst, rhs),
		41 => if f.is_empty() {Some(Sev)} else {None},
		42 => match f {[a, m] => Some(Stm{addr: reg(*a)?, registers: rset(*m)?}), _ => None},
		43 => rrx!(Str, src, addr, off),
		44 => rrx!(Strb, src, addr, off),
		45 => rrx!(Strh, src, addr, off),
		46 => match f {[fl, a, b, k, v] => Some(Sub{flags: flag(*fl)?, dst: reg(*a)?, lhs: reg(*b)?, rhs: immreg(*k, *v)?}), _ => None},
		47 => match f {[i] => Some(Svc{info: u8::try_from(*i).ok()?}), _ => None},
		48 => rr!(Sxtb, dst, value),
		49 => rr!(Sxth, dst, value),
		50 => rr!(Tst, lhs, rhs),
		51 => match f {[i] => Some(Udf{info: u8::try_from(*i).ok()?}), _ => None},
		52 => match f {[i] => Some(Udfw{info: u16::try_from(*i).ok()?}), _ => None},
		53 => rr!(Uxtb, dst, value),
		54 => rr!(Uxth, dst, value),
		55 => if f.is_empty() {Some(Wfe)} else {None},
		56 => if f.is_empty() {Some(Wfi)} else {None},
		57 => if f.is_empty() {Some(Yield)} else {None},
		_ => None,
	}
}

fn show_fields(t: usize, f: &[i64]) -> String
{
	let mut s = NAMES[t].to_owned();
	for v in f {s.push(' '); s.push_str(&v.to_string());}
	s
}

fn show_instr(i: &Instruction) -> String
{
	let mut f = [0i64; 6];
	let (t, n) = fields_of(i, &mut f);
	show_fields(t, &f[..n])
}

fn parse_instr(s: &str) -> Option<(usize, Vec<i64>, Instruction)>
{
	let mut w = s.split(' ').filter(|x| !x.is_empty());
	let name = w.next()?;
	let t = NAMES.iter().position(|n| *n == name)?;
	let f: Option<Vec<i64>> = w.map(|x| x.parse::<i64>().ok()).collect();
	let f = f?;
	let i = of_fields(t, &f)?;
	Some((t, f, i))
}

// ---------------------------------------------------------------------------------------------------------
// the real code, guarded, with canonical results

#[derive(Clone, Debug, PartialEq)]
enum Enc {Ok(usize, [u8; 4]), Unrep, Overflow(usize, usize), Panic(String)}

fn real_enc_into(i: &Instruction, cap: usize) -> Enc
{
	let i = *i;
	match guarded(move || {let mut out = [0u8; 4]; let r = i.encode(&mut out[..cap]); (r, out)})
	{
		Ok((Ok(n), out)) => Enc::Ok(n, out),
		Ok((Err(EncodeError::Unrepresentable), _)) => Enc::Unrep,
		Ok((Err(EncodeError::Overflow{need, have}), _)) => Enc::Overflow(need, have),
		Ok((Err(e), _)) => Enc::Panic(format!("unknown:{e:?}")),
		Err(p) => Enc::Panic(p),
	}
}

fn real_enc(i: &Instruction) -> Enc {real_enc_into(i, 4)}

fn show_enc(e: &Enc) -> String
{
	match e
	{
		Enc::Ok(n, b) => format!("ok {}", hex(&b[..*n])),
		Enc::Unrep => "err unrep".to_owned(),
		Enc::Overflow(n, h) => format!("err overflow {n} {h}"),
		Enc::Panic(p) => format!("PANIC: {p}"),
	}
}

type Dec = Result<Result<(usize, Instruction), DecodeError>, String>;

fn real_dec(b: &[u8]) -> Dec {guarded(|| Instruction::decode(b))}

fn show_h1(h: &Option<u16>) -> String {match h {None => "-".to_owned(), Some(h) => format!("{h:04x}")}}

fn show_dec(d: &Dec) -> String
{
	match d
	{
		Ok(Ok((n, i))) => format!("ok {n} {}", show_instr(i)),
		Ok(Err(DecodeError::Underflow{need, have})) => format!("err underflow {need} {have}"),
		Ok(Err(DecodeError::Undefined{instr0, instr1})) => format!("err undefined {instr0:04x} {}", show_h1(instr1)),
		Ok(Err(DecodeError::Unpredictable{instr0, instr1})) => format!("err unpredictable {instr0:04x} {}", show_h1(instr1)),
		Ok(Err(DecodeError::Reserved{instr0, instr1})) => format!("err reserved {instr0:04x} {}", show_h1(instr1)),
		Ok(Err(e)) => format!("err unknown:{e:?}"),
		Err(p) => format!("PANIC: {p}"),
	}
}

// ---------------------------------------------------------------------------------------------------------
// digests, identical to Driver/Codec.lean

const FNV0: u64 = 0xcbf29ce484222325;
#[inline] fn mix(h: u64, x: u64) -> u64 {(h ^ x).wrapping_mul(0x100000001b3)}
#[inline] fn mix_i(h: u64, v: i64) -> u64 {mix(h, v as u64)}

fn mix_instr(h: u64, i: &Instruction) -> u64
{
	let mut f = [0i64; 6];
	let (t, n) = fields_of(i, &mut f);
	let mut h = mix(h, t as u64);
	for v in &f[..n] {h = mix_i(h, *v);}
	h
}

fn mix_h1(h: u64, x: &Option<u16>) -> u64 {match x {None => mix(h, 0), Some(x) => mix(h, *x as u64 + 1)}}

fn mix_dec(h: u64, d: &Result<(usize, Instruction), DecodeError>) -> u64
{
	match d
	{
		Ok((n, i)) => mix_instr(mix(mix(h, 1), *n as u64), i),
		Err(DecodeError::Underflow{need, have}) => mix(mix(mix(h, 2), *need as u64), *have as u64),
		Err(DecodeError::Undefined{instr0, instr1}) => mix_h1(mix(mix(h, 3), *instr0 as u64), instr1),
		Err(DecodeError::Unpredictable{instr0, instr1}) => mix_h1(mix(mix(h, 4), *instr0 as u64), instr1),
		Err(DecodeError::Reserved{instr0, instr1}) => mix_h1(mix(mix(h, 5), *instr0 as u64), instr1),
		Err(e) => fnv(mix(h, 6), format!("unknown:{e:?}").as_bytes()),
	}
}

fn mix_enc(h: u64, e: &Enc) -> u64
{
	match e
	{
		Enc::Ok(n, b) => {let mut h = mix(mix(h, 1), *n as u64); for x in &b[..*n] {h = mix(h, *x as u64);} h},
		Enc::Unrep => mix(h, 2),
		Enc::Overflow(n, k) => mix(mix(mix(h, 3), *n as u64), *k as u64),
		Enc::Panic(_) => mix(h, 7),
	}
}

// ---------------------------------------------------------------------------------------------------------
// worker pool: each worker owns one model process

fn workers() -> usize
{
	std::env::var("VERIF_CODEC_WORKERS").ok().and_then(|s| s.parse().ok()).unwrap_or(8).clamp(1, 8)
}

fn run_jobs<J: Sync, R: Send>(cx: &mut Cx, jobs: &[J], f: impl Fn(usize, &J, &mut Model) -> R + Sync) -> Vec<R>
{
	let n = workers().min(jobs.len().max(1));
	let next = AtomicUsize::new(0);
	let results: Mutex<Vec<Option<R>>> = Mutex::new((0..jobs.len()).map(|_| None).collect());
	let requests = AtomicUsize::new(0);
	std::thread::scope(|s|
	{
		for _ in 0..n
		{
			s.spawn(||
			{
				let mut model = Model::spawn();
				loop
				{
					let k = next.fetch_add(1, Ordering::SeqCst);
					if k >= jobs.len() {break;}
					let r = f(k, &jobs[k], &mut model);
					results.lock().unwrap()[k] = Some(r);
				}
				requests.fetch_add(model.requests as usize, Ordering::SeqCst);
			});
		}
	});
	cx.model.requests += requests.load(Ordering::SeqCst) as u64;
	results.into_inner().unwrap().into_iter().map(|r| r.expect("job finished")).collect()
}

/// what one job found; merged into the report by the main thread
#[derive(Default)]
struct Found
{
	evaluations: u64,
	hist: Vec<(String, u64)>,
	keys: Vec<u64>,
	samples: Vec<String>,
	disagreements: Vec<(String, String, String, String)>,
	disagreements_total: u64,
	failures: Vec<(String, String)>,
	failures_total: u64,
}

impl Found
{
	fn fail(&mut self, input: String, what: String)
	{
		self.failures_total += 1;
		if self.failures.len() < 8 {self.failures.push((input, what));}
	}
	fn disagree(&mut self, comp: &str, input: String, model: String, imp: String)
	{
		self.disagreements_total += 1;
		if self.disagreements.len() < 8 {self.disagreements.push((comp.to_owned(), input, model, imp));}
	}
	fn hit(&mut self, k: &str, n: u64)
	{
		if n == 0 {return;}
		if let Some(e) = self.hist.iter_mut().find(|e| e.0 == k) {e.1 += n;} else {self.hist.push((k.to_owned(), n));}
	}
	fn merge_into(self, rep: &mut Report)
	{
		rep.cases(self.evaluations);
		for (k, n) in self.hist {rep.hit_n(&k, n);}
		for k in self.keys {rep.distinct_key(k);}
		for s in self.samples {rep.sample(s);}
		for (c, i, m, r) in self.disagreements {rep.disagree(&c, i, m, r);}
		for (i, w) in self.failures {rep.oracle_fail(i, w);}
	}
}

fn merge(cx: &mut Cx, found: Vec<Found>)
{
	for f in found
	{
		// totals beyond the kept examples
		let extra_d = f.disagreements_total - f.disagreements.len() as u64;
		let extra_f = f.failures_total - f.failures.len() as u64;
		f.merge_into(&mut cx.report);
		cx.report.disagreements_total += extra_d;
		cx.report.oracle_failures_total += extra_f;
	}
}

// ---------------------------------------------------------------------------------------------------------
// the structured encoder domain

#[derive(Clone, Debug)]
enum Ranged {Range(i64, i64), RegAlt, Nothing}

#[derive(Clone, Debug)]
struct EncJob {tag: usize, rg: Ranged, /// C01: strides of the single-request table look-ups for accepted / rejected wide tuples (0 = from the block size)
	acc_every: u64, rej_every: u64}

impl EncJob
{
	fn request(&self) -> String
	{
		match self.rg
		{
			Ranged::Range(lo, hi) => format!("codec encdom {} {lo} {hi}", NAMES[self.tag]),
			Ranged::RegAlt => format!("codec encdom {} r", NAMES[self.tag]),
			Ranged::Nothing => format!("codec encdom {} -", NAMES[self.tag]),
		}
	}
}

/// slots left to right, last slot fastest — the same order as `enumSlots` in Driver/Codec.lean
fn enum_slots(kinds: &[u8], rg: &Ranged, pre: &mut Vec<i64>, f: &mut dyn FnMut(&[i64]))
{
	let Some((&c, rest)) = kinds.split_first() else {f(pre); return;};
	let mut each = |vals: &mut dyn Iterator<Item = i64>, pre: &mut Vec<i64>|
	{
		for v in vals {pre.push(v); enum_slots(rest, rg, pre, f); pre.pop();}
	};
	match c
	{
		b'R' => each(&mut (0..16), pre),
		b'F' => each(&mut (0..2), pre),
		b'C' => each(&mut (0..15), pre),
		b'S' => each(&mut SYS.iter().copied(), pre),
		_ => match rg
		{
			Ranged::Nothing => {},
			Ranged::RegAlt => if c == b'X' {pre.push(1); each(&mut (0..16), pre); pre.pop();},
			Ranged::Range(lo, hi) =>
			{
				if c == b'X' {pre.push(0); each(&mut (*lo..=*hi), pre); pre.pop();}
				else {each(&mut (*lo..=*hi), pre);}
			},
		},
	}
}

/// the ranged slot of every constructor: encodable interval widened by 3 on each side plus the extremes of
/// the Rust field type (and 0, +-1, which all lie inside the widened intervals)
fn enc_jobs(thorough: bool, rng: &mut Rng) -> Vec<EncJob>
{
	let i32x = [(i32::MIN as i64, i32::MIN as i64 + 1), (i32::MAX as i64 - 1, i32::MAX as i64)];
	let mut jobs = Vec::new();
	for t in 0..58
	{
		let k = KINDS[t];
		let ranged = k.bytes().find(|c| matches!(c, b'I' | b'X' | b'M'));
		let name = NAMES[t];
		let mut bl_strata = false;
		let mut push = |lo: i64, hi: i64, chunk: i64|
		{
			let mut a = lo;
			while a <= hi {let b = (a + chunk - 1).min(hi); jobs.push(EncJob{tag: t, rg: Ranged::Range(a, b), acc_every: 0, rej_every: 0}); a = b + 1;}
		};
		match ranged
		{
			None => jobs.push(EncJob{tag: t, rg: Ranged::Nothing, acc_every: 0, rej_every: 0}),
			Some(b'M') => push(0, 65535, if k.len() > 1 {16384} else {65536}),
			Some(b'X') =>
			{
				// union of the encodable intervals of all forms of the constructor
				let hi = match name
				{
					"add" => 1020, "sub" => 508, "asr" | "lsr" => 32, "lsl" => 31, "cmp" | "mov" => 255,
					"ldr" | "str" => 1020, "ldrb" | "strb" => 31, "ldrh" | "strh" => 62, _ => unreachable!(),
				};
				push(-3, hi + 3, 1 << 20);
				for (a, b) in i32x {push(a, b, 4);}
				jobs.push(EncJob{tag: t, rg: Ranged::RegAlt, acc_every: 0, rej_every: 0});
			},
			Some(_) => match name
			{
				"adr" => {push(0, 1023, 4096); push(65533, 65535, 4);},
				"bkpt" | "svc" | "udf" => push(0, 255, 256),
				"udfw" => push(0, 65535, 65536),
				"b" => {push(-2051, 2050, 8192); for (a, b) in i32x {push(a, b, 4);}},
				"bl" =>
				{
					let lim = 1i64 << 24;
					if thorough {push(-lim - 3, lim + 2, 1 << 20);}
					else {push(-lim - 3, -lim + 255, 512); push(-(1 << 13), 1 << 13, 1 << 20); push(lim - 256, lim + 2, 512);}
					for (a, b) in i32x {push(a, b, 4);}
					if !thorough {bl_strata = true;}
				},
				_ => unreachable!(),
			},
		}
		if bl_strata
		{
			// quick tier: every class (sign, bit 23, bit 22) of the offset x 64 imm10 values (0, 1, 0x3FF, 0x3FE, every
			// power of two and its complement, alternating patterns, seeded values) x the whole imm11 space (and the odd
			// offsets in between): the scrambled S/J1/J2 bits and both immediate fields are exercised in every combination
			let mut imm10: Vec<i64> = vec![0, 1, 0x3FF, 0x3FE, 0x155, 0x2AA, 0x0F0, 0x30F];
			for k in 1..10 {imm10.push(1 << k); imm10.push(0x3FF ^ (1 << k));}
			while imm10.len() < 64 {let v = rng.below(1024) as i64; if !imm10.contains(&v) {imm10.push(v);}}
			for class in 0..8i64
			{
				let (sgn, b23, b22) = (class >> 2, (class >> 1) & 1, class & 1);
				for m in &imm10
				{
					let base = -(sgn << 24) + (b23 << 23) + (b22 << 22) + (m << 12);
					jobs.push(EncJob{tag: t, rg: Ranged::Range(base, base + 4095), acc_every: 13, rej_every: 131});
				}
			}
		}
	}
	jobs
}

/// 16-bit half of the specification table as served by the model (`codec spectab16`)
struct SpecTab
{
	/// `Arm.decode [h]` as instruction text
	by_hw: Vec<Option<String>>,
	/// all instructions that have a 16-bit encoding
	image: HashSet<String>,
}

fn load_spec_tab(model: &mut Model) -> SpecTab
{
	let mut by_hw = Vec::with_capacity(65536);
	for blk in 0..16
	{
		let reply = model.ask(&format!("codec spectab16 {:x} {:x}", blk * 4096, blk * 4096 + 4095));
		let parts: Vec<&str> = reply.split('|').collect();
		assert_eq!(parts.len(), 4096, "spectab16 reply malformed: {}", &reply[..reply.len().min(80)]);
		for p in parts {by_hw.push(if p == "-" {None} else {Some(p.to_owned())});}
	}
	let image = by_hw.iter().flatten().cloned().collect();
	SpecTab{by_hw, image}
}

/// C02 oracle on one tuple: decode(encode(i)) == Ok((len, i)), also with trailing bytes
fn c02_oracle(i: &Instruction, e: &Enc, text: &dyn Fn() -> String, found: &mut Found)
{
	let text = || text();
	match e
	{
		Enc::Ok(n, b) =>
		{
			let d = real_dec(&b[..*n]);
			if d != Ok(Ok((*n, *i)))
			{
				found.fail(format!("enc {}", text()), format!("encode gives {} but decoding those bytes gives `{}` instead of the original instruction with length {n}", hex(&b[..*n]), show_dec(&d)));
			}
			else if *n == 2
			{
				// decoding must not depend on what follows
				let mut with_tail = [b[0], b[1], 0xFF, 0xFF];
				let d = real_dec(&with_tail);
				with_tail[2] = 0;
				if d != Ok(Ok((2, *i))) || real_dec(&with_tail[..3]) != Ok(Ok((2, *i)))
				{
					found.fail(format!("enc {}", text()), format!("decoding {} followed by trailing bytes gives `{}`", hex(&b[..2]), show_dec(&d)));
				}
			}
		},
		Enc::Unrep => {},
		other => found.fail(format!("enc {}", text()), format!("encode into a 4-byte buffer returned `{}`", show_enc(other))),
	}
}

/// the wide accepted / rejected tuples of a block whose specification side must be asked from the model
#[derive(Default)]
struct SpecAsk {accepted: Vec<(String, [u8; 4])>, rejected: Vec<String>, stride_acc: u64, stride_rej: u64}

/// C01 oracle on one tuple against the specification table
fn c01_oracle(t: usize, e: &Enc, text: &str, spec: &SpecTab, ask: &mut SpecAsk, acc_every: u64, rej_every: u64, found: &mut Found)
{
	match e
	{
		Enc::Ok(2, b) =>
		{
			let h = b[0] as usize | (b[1] as usize) << 8;
			if spec.by_hw[h].as_deref() != Some(text)
			{
				found.fail(format!("enc {text}"), format!("emitted {} which the ARMv6-M table decodes as `{}`", hex(&b[..2]), spec.by_hw[h].as_deref().unwrap_or("no instruction (undefined/unpredictable)")));
			}
		},
		Enc::Ok(4, b) =>
		{
			ask.stride_acc += 1;
			if ask.stride_acc % acc_every == 0 {ask.accepted.push((text.to_owned(), *b));}
		},
		Enc::Unrep =>
		{
			if spec.image.contains(text)
			{
				found.fail(format!("enc {text}"), "rejected as unrepresentable although the ARMv6-M table has a 16-bit encoding for exactly these operands".to_owned());
			}
			if is_wide_tag(t)
			{
				ask.stride_rej += 1;
				if ask.stride_rej % rej_every == 0 {ask.rejected.push(text.to_owned());}
			}
		},
		other => found.fail(format!("enc {text}"), format!("encode into a 4-byte buffer returned `{}`", show_enc(other))),
	}
}

fn c01_flush(ask: &mut SpecAsk, model: &mut Model, found: &mut Found)
{
	if !ask.accepted.is_empty()
	{
		let lines: Vec<String> = ask.accepted.iter().map(|(_, b)| format!("codec spec {}", hex(b))).collect();
		let replies = model.ask_many(&lines);
		for ((text, b), reply) in ask.accepted.iter().zip(replies)
		{
			if reply != format!("some {text}")
			{
				found.fail(format!("enc {text}"), format!("emitted {} which the ARMv6-M table decodes as `{reply}`", hex(b)));
			}
		}
		found.hit("C01 wide encodings looked up in the table", ask.accepted.len() as u64);
		ask.accepted.clear();
	}
	if !ask.rejected.is_empty()
	{
		let lines: Vec<String> = ask.rejected.iter().map(|t| format!("codec specenc {t}")).collect();
		let replies = model.ask_many(&lines);
		for (text, reply) in ask.rejected.iter().zip(replies)
		{
			if reply != "none"
			{
				found.fail(format!("enc {text}"), format!("rejected as unrepresentable although the ARMv6-M table encodes exactly these operands as {reply}"));
			}
		}
		found.hit("C01 rejected wide tuples searched in the table", ask.rejected.len() as u64);
		ask.rejected.clear();
	}
}

fn enc_block(id: &str, job: &EncJob, model: &mut Model, spec: Option<&SpecTab>) -> Found
{
	let mut found = Found::default();
	let kinds = KINDS[job.tag].as_bytes();
	let model_reply = model.ask(&job.request());
	let mut digest = FNV0;
	let (mut n_ok, mut n_all) = (0u64, 0u64);
	let mut ask = SpecAsk::default();
	// number of tuples of the block, to bound the single-request traffic of the C01 oracle
	let size: u64 = {let mut c = 0u64; enum_slots(kinds, &job.rg, &mut Vec::new(), &mut |_| c += 1); c};
	let every = (size / 40_000).max(1);
	let (acc_every, rej_every) = (if job.acc_every > 0 {job.acc_every} else {every}, if job.rej_every > 0 {job.rej_every} else {every});
	let mut pre = Vec::new();
	enum_slots(kinds, &job.rg, &mut pre, &mut |f|
	{
		n_all += 1;
		let Some(i) = of_fields(job.tag, f) else {digest = mix(digest, 9); return;};
		let e = real_enc(&i);
		digest = mix_enc(digest, &e);
		if let Enc::Ok(n, b) = &e
		{
			n_ok += 1;
			if n_ok <= 1500 {found.keys.push(fnv(FNV_INIT, &b[..*n]));}
			// the output window: exactly as long as the encoding is enough; one byte less is an overflow that writes nothing
			if let Some(what) = exact_fit(&i, *n, b) {found.fail(format!("enc {}", show_fields(job.tag, f)), what);}
		}
		if id == "C01"
		{
			let text = show_fields(job.tag, f);
			c01_oracle(job.tag, &e, &text, spec.unwrap(), &mut ask, acc_every, rej_every, &mut found);
		}
		else {c02_oracle(&i, &e, &|| show_fields(job.tag, f), &mut found);}
	});
	if id == "C01" {c01_flush(&mut ask, model, &mut found);}
	found.evaluations = n_all;
	found.hit(&format!("{} accepted", NAMES[job.tag]), n_ok);
	found.hit(&format!("{} rejected", NAMES[job.tag]), n_all - n_ok);
	let mine = format!("{digest:016x} {n_ok}");
	if mine != model_reply
	{
		// element by element
		let mut tuples: Vec<Vec<i64>> = Vec::new();
		enum_slots(kinds, &job.rg, &mut Vec::new(), &mut |f| tuples.push(f.to_vec()));
		let mut located = false;
		for chunk in tuples.chunks(32768)
		{
			let lines: Vec<String> = chunk.iter().map(|f| format!("codec enc {}", show_fields(job.tag, f))).collect();
			let replies = model.ask_many(&lines);
			for (f, reply) in chunk.iter().zip(replies)
			{
				let imp = match of_fields(job.tag, f) {Some(i) => show_enc(&real_enc(&i)), None => "bad-op".to_owned()};
				if imp != reply
				{
					located = true;
					found.disagree("model.codec.encode", format!("enc {}", show_fields(job.tag, f)), reply, imp);
				}
			}
			if found.disagreements_total >= 8 {break;}
		}
		if !located
		{
			found.disagree("model.codec.encode", job.request(), model_reply, mine + " (block digest differs, no single element differs: enumeration order or digest definition)");
		}
	}
	found
}

fn single_enc(id: &str, cx: &mut Cx, input: &str)
{
	let Some((t, f, i)) = parse_instr(input) else {cx.report.oracle_fail(format!("enc {input}"), "unrecognised instruction text"); return;};
	let text = show_fields(t, &f);
	let e = real_enc(&i);
	let imp = show_enc(&e);
	let reply = cx.model.ask(&format!("codec enc {text}"));
	cx.report.case(if matches!(e, Enc::Ok(..)) {Some(&imp)} else {None});
	cx.report.compare("model.codec.encode", &format!("enc {text}"), &reply, &imp);
	// overflow behaviour of the output buffer
	for cap in 0..4
	{
		let imp = show_enc(&real_enc_into(&i, cap));
		let reply = cx.model.ask(&format!("codec encinto {cap} {text}"));
		cx.report.compare("model.codec.encodeInto", &format!("enc {text}"), &reply, &imp);
	}
	let mut found = Found::default();
	if id == "C01"
	{
		match &e
		{
			Enc::Ok(n, b) =>
			{
				let reply = cx.model.ask(&format!("codec spec {}", hex(&b[..*n])));
				if reply != format!("some {text}")
				{
					found.fail(format!("enc {text}"), format!("emitted {} which the ARMv6-M table decodes as `{reply}`", hex(&b[..*n])));
				}
			},
			Enc::Unrep =>
			{
				let reply = cx.model.ask(&format!("codec specenc {text}"));
				if reply != "none"
				{
					found.fail(format!("enc {text}"), format!("rejected as unrepresentable although the ARMv6-M table encodes exactly these operands as {reply}"));
				}
			},
			other => found.fail(format!("enc {text}"), format!("encode into a 4-byte buffer returned `{}`", show_enc(other))),
		}
	}
	else {c02_oracle(&i, &e, &|| text.clone(), &mut found);}
	merge(cx, vec![found]);
}

// ---------------------------------------------------------------------------------------------------------
// decoder domain

fn rule_len(h0: u16) -> usize {if (h0 >> 11) >= 0b11101 {4} else {2}}

/// C03 oracle on one byte string
fn c03_oracle(b: &[u8], d: &Dec, found: &mut Found)
{
	let input = || format!("dec {}", hex(b));
	let want = if b.len() < 2 {2} else {rule_len(u16::from_le_bytes([b[0], b[1]]))};
	match d
	{
		Err(p) => found.fail(input(), format!("decode panicked: {p}")),
		Ok(Ok((n, i))) =>
		{
			if *n != want || *n > b.len()
			{
				found.fail(input(), format!("consumed length {n}, the first halfword demands {want} and {} bytes were supplied", b.len()));
				return;
			}
			match real_enc(i)
			{
				Enc::Ok(m, out) =>
				{
					if m != *n
					{
						found.fail(input(), format!("decoded `{}` re-encodes to {m} bytes ({}), not {n}", show_instr(i), hex(&out[..m])));
					}
					else
					{
						let d2 = real_dec(&out[..m]);
						if d2 != Ok(Ok((*n, *i)))
						{
							found.fail(input(), format!("decoded `{}` re-encodes to {} which decodes to `{}`", show_instr(i), hex(&out[..m]), show_dec(&d2)));
						}
						// re-encoding needs no more room than the instruction occupied
						else if let Some(what) = exact_fit(i, m, &out) {found.fail(input(), format!("decoded `{}`: {what}", show_instr(i)));}
					}
				},
				other => found.fail(input(), format!("decoded `{}` cannot be re-encoded: `{}`", show_instr(i), show_enc(&other))),
			}
		},
		Ok(Err(DecodeError::Underflow{need, have})) =>
		{
			if !(b.len() < want && *need == want && *have == b.len())
			{
				found.fail(input(), format!("underflow (need {need}, have {have}) reported for {} bytes whose first halfword demands {want}", b.len()));
			}
		},
		Ok(Err(DecodeError::Undefined{instr0, instr1})) | Ok(Err(DecodeError::Unpredictable{instr0, instr1})) | Ok(Err(DecodeError::Reserved{instr0, instr1})) =>
		{
			let h0 = u16::from_le_bytes([b[0], b[1]]);
			let h1 = if want == 4 && b.len() >= 4 {Some(u16::from_le_bytes([b[2], b[3]]))} else {None};
			if b.len() < want || *instr0 != h0 || *instr1 != h1
			{
				found.fail(input(), format!("classified error `{}` does not name the supplied halfwords / was returned although bytes are missing", show_dec(d)));
			}
		},
		Ok(Err(e)) => found.fail(input(), format!("decode returned an error of a kind the property does not name: unknown:{e:?}")),
	}
}

fn kind_of(d: &Dec) -> &'static str
{
	match d
	{
		Ok(Ok(_)) => "dec ok", Ok(Err(DecodeError::Underflow{..})) => "dec underflow", Ok(Err(DecodeError::Undefined{..})) => "dec undefined",
		Ok(Err(DecodeError::Unpredictable{..})) => "dec unpredictable", Ok(Err(DecodeError::Reserved{..})) => "dec reserved", Ok(Err(_)) => "dec unknown", Err(_) => "dec PANIC",
	}
}

/// element-by-element comparison of a list of byte strings through `codec dec`
fn dec_lines(model: &mut Model, inputs: &[Vec<u8>], oracle: bool, found: &mut Found)
{
	for chunk in inputs.chunks(32768)
	{
		let lines: Vec<String> = chunk.iter().map(|b| format!("codec dec {}", hex(b))).collect();
		let replies = model.ask_many(&lines);
		for (b, reply) in chunk.iter().zip(replies)
		{
			let d = real_dec(b);
			let imp = show_dec(&d);
			if imp != reply {found.disagree("model.codec.decode", format!("dec {}", hex(b)), reply, imp);}
			if oracle
			{
				found.evaluations += 1;
				found.hit(kind_of(&d), 1);
				c03_oracle(b, &d, found);
			}
		}
	}
}

#[derive(Clone, Copy)]
struct DecJob {lo: u32, hi: u32, wide: bool}

/// one block of first halfwords: digest on the real code + C03 oracle, compared with `dec16` / `dec32`
fn dec_block(job: &DecJob, model: &mut Model) -> Found
{
	let mut found = Found::default();
	let request = if job.wide {format!("codec dec32 {:x} {:x}", job.lo, job.hi)} else {format!("codec dec16 {:x} {:x}", job.lo, job.hi)};
	let reply = model.ask(&request);
	let mut digest = FNV0;
	let mut n_ok = 0u64;
	let mut counts = [0u64; 6];
	let mut per_h0: Vec<u64> = Vec::new();
	for h0 in job.lo..=job.hi
	{
		let h0b = (h0 as u16).to_le_bytes();
		let start = digest;
		// a whole row under one guard; redone element by element only if something panicked
		let row = guarded(||
		{
			let mut dg = start;
			let mut ok = 0u64;
			let mut cnt = [0u64; 6];
			let mut fails = Found::default();
			let mut keys = Vec::new();
			let inner = if job.wide {65536u32} else {1};
			for h1 in 0..inner
			{
				let h1b = (h1 as u16).to_le_bytes();
				let bytes = [h0b[0], h0b[1], h1b[0], h1b[1]];
				let b = if job.wide {&bytes[..]} else {&bytes[..2]};
				let d = Instruction::decode(b);
				dg = mix_dec(dg, &d);
				let dd: Dec = Ok(d);
				cnt[match &dd {Ok(Ok(_)) => 0, Ok(Err(DecodeError::Underflow{..})) => 1, Ok(Err(DecodeError::Undefined{..})) => 2,
					Ok(Err(DecodeError::Unpredictable{..})) => 3, Ok(Err(DecodeError::Reserved{..})) => 4, Ok(Err(_)) => 5, Err(_) => 5}] += 1;
				if let Ok(Ok((_, i))) = &dd
				{
					ok += 1;
					if ok <= 24 {keys.push(mix_instr(FNV0, i));}
				}
				c03_oracle(b, &dd, &mut fails);
			}
			(dg, ok, cnt, fails, keys)
		});
		match row
		{
			Ok((dg, ok, cnt, fails, keys)) =>
			{
				digest = dg;
				n_ok += ok;
				for k in 0..6 {counts[k] += cnt[k];}
				found.keys.extend(keys);
				found.failures_total += fails.failures_total;
				for f in fails.failures {if found.failures.len() < 8 {found.failures.push(f);}}
			},
			Err(_) =>
			{
				let inner = if job.wide {65536u32} else {1};
				for h1 in 0..inner
				{
					let h1b = (h1 as u16).to_le_bytes();
					let bytes = [h0b[0], h0b[1], h1b[0], h1b[1]];
					let b = if job.wide {&bytes[..]} else {&bytes[..2]};
					let d = real_dec(b);
					match &d {Ok(r) => digest = mix_dec(digest, r), Err(_) => digest = mix(digest, 6)}
					if matches!(d, Ok(Ok(_))) {n_ok += 1;}
					c03_oracle(b, &d, &mut found);
				}
			},
		}
		per_h0.push(digest);
		found.evaluations += if job.wide {65536} else {1};
	}
	for (k, name) in ["dec ok", "dec underflow", "dec undefined", "dec unpredictable", "dec reserved", "dec PANIC"].iter().enumerate() {found.hit(name, counts[k]);}
	let mine = format!("{digest:016x} {n_ok}");
	if mine != reply
	{
		// locate: all elements of the block through single requests (16-bit) / first differing row (32-bit)
		let before = found.disagreements_total;
		if !job.wide
		{
			let inputs: Vec<Vec<u8>> = (job.lo..=job.hi).map(|h| (h as u16).to_le_bytes().to_vec()).collect();
			dec_lines(model, &inputs, false, &mut found);
		}
		else
		{
			for h0 in job.lo..=job.hi
			{
				// per-row digests: ask the model row by row and compare with a fresh real digest of that row
				let r = model.ask(&format!("codec dec32 {h0:x} {h0:x}"));
				let mut dg = FNV0;
				let mut ok = 0;
				for h1 in 0..65536u32
				{
					let b = [(h0 & 255) as u8, (h0 >> 8) as u8, (h1 & 255) as u8, (h1 >> 8) as u8];
					match real_dec(&b) {Ok(d) => {if d.is_ok() {ok += 1;} dg = mix_dec(dg, &d)}, Err(_) => dg = mix(dg, 6)}
				}
				if r != format!("{dg:016x} {ok}")
				{
					let inputs: Vec<Vec<u8>> = (0..65536u32).map(|h1| vec![(h0 & 255) as u8, (h0 >> 8) as u8, (h1 & 255) as u8, (h1 >> 8) as u8]).collect();
					dec_lines(model, &inputs, false, &mut found);
					if found.disagreements_total > before {break;}
				}
			}
		}
		if found.disagreements_total == before
		{
			found.disagree("model.codec.decode", request, reply, mine + " (block digest differs, no single element differs)");
		}
	}
	found
}

fn single_dec(cx: &mut Cx, input: &str)
{
	let Some(b) = unhex(input) else {cx.report.oracle_fail(format!("dec {input}"), "unrecognised hex bytes"); return;};
	let mut found = Found::default();
	dec_lines(&mut cx.model, &[b], true, &mut found);
	merge(cx, vec![found]);
}

// ---------------------------------------------------------------------------------------------------------
// C01: specification versus the implementation over all bit patterns

/// `Arm.decode [h0, h1]` versus the real decoder for a block of first halfwords; and every instruction the
/// table yields must be accepted by the real encoder with bytes the table maps back to it (enc_complete)
fn spec32_block(job: &DecJob, model: &mut Model) -> Found
{
	let mut found = Found::default();
	let request = format!("codec spec32 {:x} {:x}", job.lo, job.hi);
	let reply = model.ask(&request);
	let mut digest = FNV0;
	let mut n_some = 0u64;
	for h0 in job.lo..=job.hi
	{
		for h1 in 0..65536u32
		{
			let b = [(h0 & 255) as u8, (h0 >> 8) as u8, (h1 & 255) as u8, (h1 >> 8) as u8];
			match real_dec(&b)
			{
				Ok(Ok((_, i))) =>
				{
					n_some += 1;
					digest = mix_instr(mix(digest, 1), &i);
					if !matches!(real_enc(&i), Enc::Ok(4, _))
					{
						found.fail(format!("enc {}", show_instr(&i)), format!("the pattern {} is an encoding of exactly these operands but the encoder does not emit a 4-byte encoding for them", hex(&b)));
					}
				},
				_ => digest = mix(digest, 0),
			}
		}
		found.evaluations += 65536;
	}
	found.hit("C01 32-bit patterns: table vs decoder", (job.hi - job.lo + 1) as u64 * 65536);
	let mine = format!("{digest:016x} {n_some}");
	if mine != reply
	{
		// locate through single requests
		'outer: for h0 in job.lo..=job.hi
		{
			let inputs: Vec<[u8; 4]> = (0..65536u32).map(|h1| [(h0 & 255) as u8, (h0 >> 8) as u8, (h1 & 255) as u8, (h1 >> 8) as u8]).collect();
			let lines: Vec<String> = inputs.iter().map(|b| format!("codec spec {}", hex(b))).collect();
			let replies = model.ask_many(&lines);
			for (b, r) in inputs.iter().zip(replies)
			{
				let imp = match real_dec(b) {Ok(Ok((_, i))) => format!("some {}", show_instr(&i)), _ => "none".to_owned()};
				if imp != r
				{
					found.fail(format!("spec {}", hex(b)), format!("the ARMv6-M table reads these bytes as `{r}`, the implementation's decoder as `{imp}`"));
					if found.failures_total >= 8 {break 'outer;}
				}
			}
		}
		if found.failures_total == 0
		{
			found.disagree("model.codec.spec32", request, reply, mine + " (block digest differs, no single element differs)");
		}
	}
	found
}

fn single_spec(cx: &mut Cx, input: &str)
{
	let Some(b) = unhex(input) else {cx.report.oracle_fail(format!("spec {input}"), "unrecognised hex bytes"); return;};
	let r = cx.model.ask(&format!("codec spec {}", hex(&b)));
	let d = real_dec(&b);
	let imp = match &d {Ok(Ok((n, i))) if *n == b.len() => format!("some {}", show_instr(i)), _ => "none".to_owned()};
	cx.report.case(Some(&imp));
	if imp != r
	{
		cx.report.oracle_fail(format!("spec {}", hex(&b)), format!("the ARMv6-M table reads these bytes as `{r}`, the implementation's decoder as `{imp}`"));
	}
	if let Some(text) = r.strip_prefix("some ")
	{
		if let Some((_, _, i)) = parse_instr(text)
		{
			let e = real_enc(&i);
			let ok = match &e {Enc::Ok(n, out) => cx.model.ask(&format!("codec spec {}", hex(&out[..*n]))) == r, _ => false};
			if !ok
			{
				cx.report.oracle_fail(format!("enc {text}"), format!("{} is an ARMv6-M encoding of exactly these operands but the encoder answers `{}`", hex(&b), show_enc(&e)));
			}
		}
	}
}

// ---------------------------------------------------------------------------------------------------------

pub fn run(id: &str, cx: &mut Cx)
{
	if let Some(input) = cx.replay.clone()
	{
		match input.split_once(' ')
		{
			Some(("enc", rest)) => single_enc(id, cx, rest),
			Some(("dec", rest)) => single_dec(cx, rest),
			Some(("spec", rest)) => single_spec(cx, rest),
			Some(("values", rest)) => public_values(cx, Some(rest.trim())),
			Some(("image", rest)) =>
			{
				let w: Vec<&str> = rest.split(' ').collect();
				match (w.first().and_then(|x| x.parse::<u64>().ok()), w.get(1).and_then(|x| x.parse::<usize>().ok()))
				{
					(Some(seed), Some(n)) => {let mut found = Found::default(); image_case(seed, n, &mut found); merge(cx, vec![found]);},
					_ => cx.report.oracle_fail(input.clone(), "unrecognised replay input"),
				}
			},
			Some(("rset", rest)) =>
			{
				let w: Vec<&str> = rest.split(' ').collect();
				match (w.first().and_then(|x| x.parse::<u16>().ok()), w.get(1).and_then(|x| x.parse::<u64>().ok()))
				{
					(Some(bits), Some(seed)) => {let mut found = Found::default(); rset_case(bits, seed, &mut found); merge(cx, vec![found]);},
					_ => cx.report.oracle_fail(input.clone(), "unrecognised replay input"),
				}
			},
			_ => cx.report.oracle_fail(input.clone(), "unrecognised replay input (expected `enc <instr>`, `dec <hex>` or `spec <hex>`)"),
		}
		return;
	}
	match id
	{
		"C03" => run_c03(cx),
		_ => run_enc(id, cx),
	}
}

/// `encode` into a window of exactly `n` bytes (the length it produces) and into `n - 1` bytes
fn exact_fit(i: &Instruction, n: usize, b: &[u8; 4]) -> Option<String>
{
	let i = *i;
	let r = guarded(move ||
	{
		let mut a = [0xA5u8; 4];
		let ra = i.encode(&mut a[..n]);
		let mut s = [0xA5u8; 4];
		let rs = i.encode(&mut s[..n - 1]);
		(ra, a, rs, s)
	});
	match r
	{
		Err(p) => Some(format!("encode into an exactly sized window panicked: {p}")),
		Ok((ra, a, rs, s)) =>
		{
			if !matches!(ra, Ok(m) if m == n) || a[..n] != b[..n] || a[n..].iter().any(|x| *x != 0xA5)
			{
				Some(format!("encode into a window of exactly {n} bytes gives {ra:?} / {} (a 4-byte window gives {})", hex(&a), hex(&b[..n])))
			}
			else if !matches!(rs, Err(EncodeError::Overflow{need, have}) if need == n && have == n - 1) || s.iter().any(|x| *x != 0xA5)
			{
				Some(format!("encode into a window of {} bytes gives {rs:?} and leaves {} (expected Overflow {{need: {n}, have: {}}} and nothing written)", n - 1, hex(&s), n - 1))
			}
			else {None}
		},
	}
}

// ---------------------------------------------------------------------------------------------------------
// every value the PUBLIC conversions hand out (`try_from(0..=255)`), not a fixed list of the architectural ones: a value the
// crate accepts beyond the architecture's must be rejected by the encoder (it has no encoding) — never emitted as something else

fn arch_check(found: &mut Found, input: String, i: &Instruction, want: Option<Vec<u8>>)
{
	let e = real_enc(i);
	match (&e, &want)
	{
		(Enc::Ok(n, b), Some(w)) if b[..*n] == w[..] =>
		{
			let d = real_dec(&b[..*n]);
			if d != Ok(Ok((*n, *i))) {found.fail(input, format!("{} decodes to `{}`, not to the original {i:?}", hex(w), show_dec(&d)));}
		},
		(Enc::Unrep, None) => (),
		_ => found.fail(input, format!("{i:?}: the ARMv6-M encoding is {}, encode gives `{}`", want.map(|w| hex(&w)).unwrap_or_else(|| "none (must be rejected)".to_owned()), show_enc(&e))),
	}
}

fn public_values(cx: &mut Cx, only: Option<&str>)
{
	let mut found = Found::default();
	let h = |x: u32| -> Vec<u8> {(x as u16).to_le_bytes().to_vec()};
	for v in 0..=255u8
	{
		if only.is_some_and(|o| o != format!("{v}")) {continue;}
		// conditions: 0..=13 -> B<c> (T1), 14 -> B (T2), anything else has no encoding
		if let Ok(c) = Condition::try_from(v)
		{
			found.hit("values: condition accepted by try_from", 1);
			if u8::from(c) != v {found.fail(format!("values {v}"), format!("Condition::try_from({v}) converts back to {}", u8::from(c)));}
			for off in [-2048i32, -258, -256, -4, -2, 0, 2, 254, 256, 2046, 2048, 1, -1]
			{
				let want = match v
				{
					0..=13 if off % 2 == 0 && (-256..=254).contains(&off) => Some(h(0xD000 | (v as u32) << 8 | ((off >> 1) as u32 & 0xFF))),
					14 if off % 2 == 0 && (-2048..=2046).contains(&off) => Some(h(0xE000 | ((off >> 1) as u32 & 0x7FF))),
					_ => None,
				};
				found.evaluations += 1;
				arch_check(&mut found, format!("values {v}"), &Instruction::B{cond: c, off}, want);
			}
		}
		// registers: 0..=15
		if let Ok(r) = Register::try_from(v)
		{
			found.hit("values: register accepted by try_from", 1);
			if u8::from(r) != v {found.fail(format!("values {v}"), format!("Register::try_from({v}) converts back to {}", u8::from(r)));}
			let v32 = v as u32;
			let cases: [(Instruction, Option<Vec<u8>>); 5] = [
				(Instruction::Bx{off: r}, if v < 15 {Some(h(0x4700 | v32 << 3))} else {None}),
				(Instruction::Mov{flags: false, dst: r, src: ImmReg::Register(Register::R1)}, if v < 16 {Some(h(0x4600 | (v32 & 8) << 4 | 1 << 3 | (v32 & 7)))} else {None}),
				(Instruction::Mvn{dst: r, value: Register::R2}, if v < 8 {Some(h(0x43C0 | 2 << 3 | v32))} else {None}),
				(Instruction::Push{registers: {let mut s = RegisterSet::new(); s.add(r); s}}, if v < 8 || v == 14 {Some(h(0xB400 | if v == 14 {0x100} else {1 << v32}))} else {None}),
				(Instruction::Mrs{dst: r, src: SystemReg::PRIMASK}, if v < 16 && v != 13 && v != 15 {let mut b = h(0xF3EF); b.extend(h(0x8000 | v32 << 8 | 16)); Some(b)} else {None}),
			];
			for (i, want) in cases {found.evaluations += 1; arch_check(&mut found, format!("values {v}"), &i, want);}
		}
		// special registers: the architectural SYSm table (B5.2.2/B5.2.3), by number
		if let Ok(s) = SystemReg::try_from(v)
		{
			found.hit("values: special register accepted by try_from", 1);
			if u8::from(s) != v {found.fail(format!("values {v}"), format!("SystemReg::try_from({v}) converts back to {}", u8::from(s)));}
			let arch = SYS.contains(&(v as i64));
			if arch && sysreg_of(v) != Some(s) {found.fail(format!("values {v}"), format!("SystemReg::try_from({v}) is {s:?}, the architecture names SYSm {v} {:?}", sysreg_of(v)));}
			let mrs = if arch {let mut b = h(0xF3EF); b.extend(h(0x8000 | 3 << 8 | v as u32)); Some(b)} else {None};
			let msr = if arch {let mut b = h(0xF380 | 4); b.extend(h(0x8800 | v as u32)); Some(b)} else {None};
			found.evaluations += 2;
			arch_check(&mut found, format!("values {v}"), &Instruction::Mrs{dst: Register::R3, src: s}, mrs);
			arch_check(&mut found, format!("values {v}"), &Instruction::Msr{dst: s, src: Register::R4}, msr);
		}
		else if SYS.contains(&(v as i64)) {found.fail(format!("values {v}"), format!("the architectural special register SYSm {v} is not accepted by SystemReg::try_from"));}
	}
	merge(cx, vec![found]);
}

// ---------------------------------------------------------------------------------------------------------
// register lists built through EVERY public route of `RegisterSet` (of / add one by one, in any order, with repeats / set_bits in
// overlapping chunks / detours through remove, unset_bits, clear): the same set, hence equal instructions, equal encodings, and
// decode(encode) == the instruction whichever way its list was built. Input `rset <bits> <seed>`.

fn rset_routes(bits: u16, rng: &mut Rng) -> Vec<(String, RegisterSet)>
{
	let regs: Vec<Register> = (0..16u8).filter(|k| bits >> k & 1 == 1).map(|k| Register::try_from(k).unwrap()).collect();
	let mut out = vec![("of".to_owned(), RegisterSet::of(bits))];
	// add one by one, shuffled, with repeats
	let mut order = regs.clone();
	for k in (1..order.len()).rev() {let j = rng.below(k as u64 + 1) as usize; order.swap(k, j);}
	let mut s = RegisterSet::new();
	for r in &order {s.add(*r); if rng.chance(1, 3) {s.add(*rng.pick(&order));}}
	for r in &order {if rng.chance(1, 4) {s.add(*r);}}
	out.push(("add (shuffled, repeats)".to_owned(), s));
	// set_bits in overlapping chunks
	let mut s = RegisterSet::new();
	let m1 = bits & (rng.next() as u16 | 0x00FF);
	let m2 = bits & (rng.next() as u16 | 0xFF00);
	s.set_bits(m1); s.set_bits(m2); s.set_bits(bits); s.set_bits(bits & m1);
	out.push(("set_bits (overlapping)".to_owned(), s));
	// of + set_bits of the same bits
	let mut s = RegisterSet::of(bits);
	s.set_bits(bits);
	out.push(("of + set_bits".to_owned(), s));
	// too many, then trimmed by remove / unset_bits
	let extra = rng.next() as u16;
	let mut s = RegisterSet::of(bits | extra);
	let over = (bits | extra) & !bits;
	s.unset_bits(over & 0x0F0F);
	for k in 0..16u8 {if over >> k & 1 == 1 {s.remove(Register::try_from(k).unwrap());}}
	s.unset_bits(0);
	out.push(("of(more) + unset_bits + remove".to_owned(), s));
	// cleared and rebuilt; Default / From where they exist are covered by `new`
	let mut s = RegisterSet::of(extra);
	s.clear();
	s.set_bits(bits & 0xFF);
	for r in &regs {s.add(*r);}
	out.push(("clear + set_bits + add".to_owned(), s));
	// collected from the set's own iterator
	let mut s = RegisterSet::new();
	for r in RegisterSet::of(bits) {s.add(r);}
	out.push(("iter + add".to_owned(), s));
	out
}

fn rset_case(bits: u16, seed: u64, found: &mut Found)
{
	let mut rng = Rng::new(seed);
	let routes = rset_routes(bits, &mut rng);
	let input = format!("rset {bits} {seed}");
	let (n0, s0) = (&routes[0].0, routes[0].1);
	for (name, s) in &routes
	{
		found.evaluations += 1;
		if s.get_bits() != bits || s.count() != bits.count_ones() as usize || s.is_empty() != (bits == 0) || s.iter().count() != bits.count_ones() as usize
		{
			found.fail(input.clone(), format!("the set built by `{name}` reports bits {:04x}, count {}, {} iterated; it holds {:04x}", s.get_bits(), s.count(), s.iter().count(), bits));
		}
		if *s != s0 {found.fail(input.clone(), format!("the same register list built by `{name}` and by `{n0}` compares unequal: {s:?} vs {s0:?}"));}
		for mk in [|s: RegisterSet| Instruction::Push{registers: s}, |s: RegisterSet| Instruction::Pop{registers: s},
			|s: RegisterSet| Instruction::Ldm{addr: Register::R1, registers: s}, |s: RegisterSet| Instruction::Stm{addr: Register::R2, registers: s}]
		{
			let (i, i0) = (mk(*s), mk(s0));
			if i != i0 {found.fail(input.clone(), format!("{i:?} (list built by `{name}`) != {i0:?} (built by `{n0}`)"));}
			let (e, e0) = (real_enc(&i), real_enc(&i0));
			if show_enc(&e) != show_enc(&e0) {found.fail(input.clone(), format!("{i:?} built by `{name}` encodes to `{}`, built by `{n0}` to `{}`", show_enc(&e), show_enc(&e0)));}
			if let Enc::Ok(n, b) = &e
			{
				let d = real_dec(&b[..*n]);
				if d != Ok(Ok((*n, i))) {found.fail(input.clone(), format!("{i:?} (list built by `{name}`) encodes to {} which decodes to `{}`: not equal to the original", hex(&b[..*n]), show_dec(&d)));}
			}
		}
	}
}

fn rset_section(cx: &mut Cx)
{
	let mut found = Found::default();
	let n = if cx.thorough() {65536} else {6000};
	for k in 0..n
	{
		let bits = if cx.thorough() {k as u16} else if k < 512 {k as u16} else if k < 1024 {(k as u16 - 512) << 7} else {cx.rng.next() as u16};
		let seed = cx.rng.next();
		rset_case(bits, seed, &mut found);
	}
	found.hit("register lists built through every public route", n as u64);
	merge(cx, vec![found]);
}

/// accepted immediates moved by a power of two far outside the field (`2^16, 2^17, 2^20, 2^24, 2^31` up and down, as far as the Rust
/// type of the field holds them): judged exactly like every other tuple (model, ARMv6-M table / round trip) — a width confusion in
/// front of a range check makes the encoder accept such a value and emit another instruction's pattern
fn shifted_immediates(id: &str, cx: &mut Cx)
{
	// (tag, fields with `V` = position of the immediate, immediate candidates)
	let regs_lo = [0i64, 3, 7];
	let mut n = 0u64;
	let shifts: [i64; 10] = [1 << 16, 1 << 17, 1 << 20, 1 << 24, 1 << 31, -(1 << 16), -(1 << 17), -(1 << 20), -(1 << 24), -(1 << 31)];
	let mut tuples: Vec<(usize, Vec<i64>, usize)> = Vec::new();   // tag, fields, index of the immediate
	let mut texts: Vec<String> = Vec::new();
	for (t, name) in NAMES.iter().enumerate()
	{
		match KINDS[t]
		{
			// register, register, ImmReg
			"RRX" => for d in regs_lo {for a in [1i64, 13] {tuples.push((t, vec![d, a, 0, 0], 3));}},
			"FRRX" => for fl in [0i64, 1] {for d in [0i64, 2, 13] {for a in [d, 13, 15] {tuples.push((t, vec![fl, d, a, 0, 0], 4));}}},
			"RX" => for d in regs_lo {tuples.push((t, vec![d, 0, 0], 2));},
			"FRX" => for fl in [0i64, 1] {for d in regs_lo {tuples.push((t, vec![fl, d, 0, 0], 3));}},
			"CI" => for c in [0i64, 13, 14] {tuples.push((t, vec![c, 0], 1));},
			"RI" => for d in regs_lo {tuples.push((t, vec![d, 0], 1));},
			"I" => tuples.push((t, vec![0], 0)),
			_ => {let _ = name;},
		}
	}
	for (t, base, at) in tuples
	{
		// accepted immediates of this tuple among a few hundred candidates
		let mut accepted: Vec<i64> = Vec::new();
		for v in (0..=1100i64).chain([-2048, -256, -4, -2, 2046, 4094, 65534, 65535, (1 << 24) - 2, -(1 << 24)])
		{
			let mut f = base.clone();
			f[at] = v;
			if let Some(i) = of_fields(t, &f) {if matches!(real_enc(&i), Enc::Ok(..)) {accepted.push(v);}}
		}
		// a spread of them: smallest, largest, a few in between
		let picks: Vec<i64> = if accepted.len() <= 6 {accepted.clone()} else {vec![accepted[0], accepted[1], accepted[accepted.len() / 2], accepted[accepted.len() - 2], accepted[accepted.len() - 1]]};
		for v in picks
		{
			for sh in shifts
			{
				let mut f = base.clone();
				f[at] = v + sh;
				if of_fields(t, &f).is_none() {continue;}   // outside the Rust type of the field
				texts.push(show_fields(t, &f));
				n += 1;
			}
		}
	}
	cx.report.hit_n("accepted immediates shifted by a power of two", n);
	// in bulk: the model's encoder, then the table side (C01) or the round trip (C02)
	let encs: Vec<(String, Instruction, Enc)> = texts.iter().map(|t| {let (_, _, i) = parse_instr(t).expect("own text"); (t.clone(), i, real_enc(&i))}).collect();
	let replies = cx.model.ask_many(&encs.iter().map(|(t, _, _)| format!("codec enc {t}")).collect::<Vec<_>>());
	let mut found = Found::default();
	for ((t, _, e), r) in encs.iter().zip(replies.iter()) {if show_enc(e) != *r {found.disagree("model.codec.encode", format!("enc {t}"), r.clone(), show_enc(e));}}
	if id == "C01"
	{
		// the table's own encoding of a REJECTED tuple is an expensive request: every eighth one; every accepted tuple is decoded by the table
		let judged: Vec<&(String, Instruction, Enc)> = encs.iter().enumerate().filter(|(k, (_, _, e))| matches!(e, Enc::Ok(..)) || k % 8 == 0).map(|(_, x)| x).collect();
		let asks: Vec<String> = judged.iter().map(|(t, _, e)| match e {Enc::Ok(n, b) => format!("codec spec {}", hex(&b[..*n])), _ => format!("codec specenc {t}")}).collect();
		let answers = cx.model.ask_many(&asks);
		for ((t, _, e), a) in judged.iter().map(|x| (&x.0, &x.1, &x.2)).zip(answers.iter())
		{
			match e
			{
				Enc::Ok(n, b) => if *a != format!("some {t}") {found.fail(format!("enc {t}"), format!("emitted {} which the ARMv6-M table decodes as `{a}`", hex(&b[..*n])));},
				Enc::Unrep => if a != "none" {found.fail(format!("enc {t}"), format!("rejected as unrepresentable although the ARMv6-M table encodes exactly these operands as {a}"));},
				other => found.fail(format!("enc {t}"), format!("encode into a 4-byte buffer returned `{}`", show_enc(other))),
			}
		}
	}
	else {for (t, i, e) in &encs {let t = t.clone(); c02_oracle(i, e, &move || t.clone(), &mut found);}}
	found.evaluations = n;
	merge(cx, vec![found]);
}

fn run_enc(id: &str, cx: &mut Cx)
{
	let thorough = cx.thorough();
	cx.report.rule = format!("every constructor x every register 0..15 in every register slot x both flags x 15 conditions x 11 system registers x \
all 2^16 register sets x every immediate in [lo-3, hi+3] of the union of the encodable intervals plus i32::MIN, MIN+1, MAX-1, MAX (u16/u8 fields: whole type or \
interval plus the type maximum); B: all offsets -2051..2050 for all 15 conditions; BL: {}. Enumerated completely on the real encoder and by the model \
(block digests); non-trivial = accepted by the encoder, distinct = distinct emitted byte strings (first 1500 per block). {}",
		if thorough {"all offsets -2^24-3 .. 2^24+2"} else {"|off| <= 2^13, the 256 offsets nearest each limit, and for every class (sign, bit 23, bit 22) of the offset 64 imm10 values (0, 1, 0x3FF, 0x3FE, all powers of two and their complements, alternating patterns, seeded values) x all 4096 consecutive offsets (the whole imm11 space and the odd offsets between) = 2.1e6 BL tuples"},
		if id == "C01" {"Oracle: the ARMv6-M table (Lean spec, served by the model) decodes the emitted bytes to exactly the tuple; every rejected tuple has no encoding in the table; every pattern the table defines is accepted (16-bit: all; 32-bit: all patterns in the thorough tier; in the quick tier all non-BL first halfwords and one BL first halfword (11110 S imm10) out of every 16 consecutive ones, i.e. 64 imm10 values for each S, each with all 65536 second halfwords, hence every S x J1 x J2 class with every imm11)."}
		else {"Oracle: decode(encode(i)) == Ok((len, i)) on the real functions for every accepted tuple, also with trailing bytes."});

	let spec = if id == "C01" {Some(load_spec_tab(&mut cx.model))} else {None};
	let jobs = enc_jobs(thorough, &mut cx.rng);
	let spec_ref = spec.as_ref();
	let found = run_jobs(cx, &jobs, |_, job, model| enc_block(id, job, model, spec_ref));
	merge(cx, found);
	cx.report.exhaustive = true;
	public_values(cx, None);
	rset_section(cx);
	shifted_immediates(id, cx);

	// a few single requests: samples, and the output-buffer overflow behaviour
	for text in ["adc 0 1", "add 0 8 8 1 0", "add 0 13 13 0 508", "bl -4", "b 14 -2048", "msr 16 3", "udfw 4660", "pop 32769", "cps 1", "ldm 0 0", "adc 8 0", "cmp 15 1 0"]
	{
		let (_, _, i) = parse_instr(text).unwrap();
		cx.report.sample(format!("enc {text} -> {}", show_enc(&real_enc(&i))));
		single_enc(id, cx, text);
	}

	if let Some(spec) = &spec
	{
		// 16-bit: table versus the implementation on every halfword
		let mut found = Found::default();
		for h in 0..65536u32
		{
			let b = (h as u16).to_le_bytes();
			found.evaluations += 1;
			if rule_len(h as u16) == 4
			{
				if spec.by_hw[h as usize].is_some() {found.fail(format!("spec {}", hex(&b)), "table defines a 16-bit instruction in the 32-bit space".to_owned());}
				continue;
			}
			match &spec.by_hw[h as usize]
			{
				Some(text) =>
				{
					// enc_complete on the implementation: the operands the table reads off are accepted and map back
					match parse_instr(text)
					{
						Some((_, _, i)) => match real_enc(&i)
						{
							Enc::Ok(2, out) =>
							{
								let h2 = out[0] as usize | (out[1] as usize) << 8;
								if spec.by_hw[h2].as_deref() != Some(text.as_str())
								{
									found.fail(format!("enc {text}"), format!("emitted {} which the ARMv6-M table decodes as `{}`", hex(&out[..2]), spec.by_hw[h2].as_deref().unwrap_or("no instruction")));
								}
							},
							other => found.fail(format!("enc {text}"), format!("{} is an ARMv6-M encoding of exactly these operands but the encoder answers `{}`", hex(&b), show_enc(&other))),
						},
						None => found.fail(format!("spec {}", hex(&b)), format!("table yields `{text}` which is not a value of the Rust types")),
					}
				},
				None => {},
			}
			// and the decoder reads the pattern as the table does (alias check, reported under C01)
			let imp = match real_dec(&b) {Ok(Ok((_, i))) => Some(show_instr(&i)), _ => None};
			if imp != spec.by_hw[h as usize]
			{
				found.fail(format!("spec {}", hex(&b)), format!("the ARMv6-M table reads these bytes as `{}`, the implementation's decoder as `{}`",
					spec.by_hw[h as usize].as_deref().unwrap_or("none"), imp.as_deref().unwrap_or("none")));
			}
		}
		found.hit("C01 16-bit patterns: table vs encoder/decoder", 65536);
		merge(cx, vec![found]);

		// 32-bit: table versus the implementation
		let mut jobs = Vec::new();
		for h0 in (0xE800u32..0x10000).step_by(16)
		{
			let bl = (0xF000..0xF800).contains(&h0);
			if thorough || !bl {jobs.push(DecJob{lo: h0, hi: h0 + 15, wide: true});}
			else
			{
				// quick tier: one first halfword out of 16 in the BL space, position chosen from the seed
				let pick = h0 + cx.rng.below(16) as u32;
				jobs.push(DecJob{lo: pick, hi: pick, wide: true});
			}
		}
		let found = run_jobs(cx, &jobs, |_, job, model| spec32_block(job, model));
		merge(cx, found);
		cx.report.sample(format!("spec 62b6 -> {}", cx.model.ask("codec spec 62b6")));
	}
}

/// an image of decoded instructions re-encoded IN PLACE, one after the other, each into the rest of the image (`image <seed> <n>`): the
/// last instruction has exactly its own length left
fn image_case(seed: u64, n: usize, found: &mut Found)
{
	let mut rng = Rng::new(seed);
	let input = format!("image {seed} {n}");
	let mut image: Vec<u8> = Vec::new();
	let mut instrs: Vec<(usize, Instruction, usize)> = Vec::new();
	while instrs.len() < n
	{
		let h0 = if rng.chance(1, 6) {0xF000 | rng.below(0x800) as u16} else {rng.next() as u16};
		let h1 = if rng.chance(1, 2) {0xD000 | rng.next() as u16} else {0x8000 | rng.next() as u16};
		let b = [h0 as u8, (h0 >> 8) as u8, h1 as u8, (h1 >> 8) as u8];
		if let Ok(Ok((len, i))) = real_dec(&b)
		{
			// only canonical encodings can be reproduced in place
			if let Enc::Ok(m, out) = real_enc(&i) {if m == len && out[..m] == b[..len] {instrs.push((image.len(), i, len)); image.extend_from_slice(&b[..len]);}}
		}
	}
	let original = image.clone();
	let r = guarded(||
	{
		let mut img = image.clone();
		let mut res = Vec::new();
		for (pos, i, _) in &instrs {res.push(i.encode(&mut img[*pos..]).map_err(|e| format!("{e:?}")));}
		(img, res)
	});
	found.evaluations += n as u64;
	match r
	{
		Err(p) => found.fail(input, format!("re-encoding an image in place panicked: {p}")),
		Ok((img, res)) =>
		{
			for (k, ((pos, i, len), r)) in instrs.iter().zip(res.iter()).enumerate()
			{
				if *r != Ok(*len)
				{
					found.fail(input.clone(), format!("instruction {k} of {n} (`{}`, {len} bytes at offset {pos} of a {}-byte image, {} bytes of room) re-encodes to {r:?}", show_instr(i), original.len(), original.len() - pos));
					return;
				}
			}
			if img != original {found.fail(input, "re-encoding the image in place changed it".to_owned());}
		},
	}
}

fn run_c03(cx: &mut Cx)
{
	cx.report.rule = "all 2^16 halfwords; all 6144 x 65536 pairs with first halfword 0xE800..0xFFFF (block digests on both sides, C03 oracle on every pattern); \
every truncation to 0..3 bytes of every first halfword (third byte 00, ff and one seeded value); every 16-bit pattern and 200000 seeded 32-bit patterns followed by \
1..3 trailing bytes. Oracle on the implementation: no panic; consumed length 4 iff top five bits of the first halfword are 11101/11110/11111; underflow only when \
fewer bytes than that were supplied; classified errors name the supplied halfwords; every decoded instruction re-encodes to the same length and re-decodes to itself. \
non-trivial = decodes to an instruction; distinct = distinct decoded instructions (first 24 per first halfword).".to_owned();

	// 16-bit and 32-bit exhaustive
	let mut jobs = Vec::new();
	for lo in (0..0x10000u32).step_by(4096) {jobs.push(DecJob{lo, hi: lo + 4095, wide: false});}
	for lo in (0xE800u32..0x10000).step_by(8) {jobs.push(DecJob{lo, hi: lo + 7, wide: true});}
	let found = run_jobs(cx, &jobs, |_, job, model| dec_block(job, model));
	merge(cx, found);
	cx.report.exhaustive = true;

	// images re-encoded in place (the last instruction has exactly its own length left; both 2- and 4-byte last instructions occur)
	{
		let mut found = Found::default();
		let k = if cx.thorough() {20_000} else {2_000};
		for _ in 0..k {let seed = cx.rng.next(); image_case(seed, 1 + (seed % 12) as usize, &mut found);}
		found.hit("images re-encoded in place", k);
		merge(cx, vec![found]);
	}

	// truncations and trailing bytes, element by element
	let mut inputs: Vec<Vec<u8>> = vec![Vec::new()];
	for b0 in 0..256u32 {inputs.push(vec![b0 as u8]);}
	for h0 in 0..65536u32
	{
		let b = (h0 as u16).to_le_bytes();
		let x = cx.rng.next() as u8;
		inputs.push(vec![b[0], b[1]]);
		for b2 in [0u8, 0xFF, x] {inputs.push(vec![b[0], b[1], b2]);}
		if rule_len(h0 as u16) == 2
		{
			let t = cx.rng.next();
			inputs.push(vec![b[0], b[1], t as u8, (t >> 8) as u8]);
			inputs.push(vec![b[0], b[1], (t >> 16) as u8, (t >> 24) as u8, (t >> 32) as u8]);
		}
	}
	for _ in 0..200_000
	{
		let h0 = 0xE800 + cx.rng.below(0x1800) as u16;
		// bias towards the populated second halfwords
		let h1 = match cx.rng.below(4) {0 => 0x8000 | cx.rng.next() as u16, 1 => 0xD000 | cx.rng.next() as u16, _ => cx.rng.next() as u16};
		let h0 = if cx.rng.chance(1, 2) {0xF000 | (h0 & 0x7FF)} else {h0};
		let mut b = vec![h0 as u8, (h0 >> 8) as u8, h1 as u8, (h1 >> 8) as u8];
		for _ in 0..1 + cx.rng.below(3) {b.push(cx.rng.next() as u8);}
		inputs.push(b);
	}
	cx.report.hit_n("truncated / trailing-byte inputs", inputs.len() as u64);
	let chunks: Vec<&[Vec<u8>]> = inputs.chunks(65536).collect();
	let found = run_jobs(cx, &chunks, |_, chunk, model|
	{
		let mut found = Found::default();
		dec_lines(model, chunk, true, &mut found);
		// a trailing byte never changes the result
		for b in chunk.iter()
		{
			if b.len() >= 2
			{
				let want = rule_len(u16::from_le_bytes([b[0], b[1]]));
				if b.len() > want && real_dec(b) != real_dec(&b[..want])
				{
					found.fail(format!("dec {}", hex(b)), format!("result differs from decoding the first {want} bytes alone"));
				}
			}
		}
		found
	});
	merge(cx, found);
	for text in ["0844", "fff7feff", "72b6", "00f0", "80f30088", "ffde"]
	{
		let b = unhex(text).unwrap();
		cx.report.sample(format!("dec {text} -> {}", show_dec(&real_dec(&b))));
	}
}
