//! C10, C11, C12 — correspondence of `trion::text::token::Tokenizer` with the Lean model `Trion.Lex`
//! and the property oracles evaluated on the implementation.
//!
//! canonical text of one input (identical to `Trion.Driver.Lex.showOut`):
//!   `id 1 1 6d6f76 | num 1 5 10 | str 1 8 6162 | E 1 12 badstring | end 1 13`
//! replay inputs:
//!   `tok <hex>`                       C10: shape oracle + model comparison on one input
//!   `lit <hex> <expectation>`         C11: `num:<n>` | `str:<hex>` | `reject`
//!   `pos <hex> <o1,o2,..>`            C12: tokens were placed at these byte offsets
// catch-all arms keep the harness compiling when the crate adds a variant to one of its error enums (the outcome is then `unknown:<Debug>`)
#![allow(unreachable_patterns)]
use trion::text::parse::Parser;
use trion::text::token::{Number, Token, TokenErrorKind, TokenValue, Tokenizer};

use crate::common::*;

// ---------------------------------------------------------------------------------------------
// running the real code

#[derive(Clone, Debug, PartialEq, Eq)]
pub struct Item
{
	pub kind: &'static str,
	pub line: u32,
	pub col: u32,
	/// decimal for numbers, hex for identifier / string bytes, empty otherwise
	pub payload: String,
}

#[derive(Clone, Debug)]
pub struct Lexed
{
	pub canon: String,
	pub toks: Vec<Item>,
	/// (line, col, kind)
	pub err: Option<(u32, u32, String)>,
	pub end: (u32, u32),
	pub panic: Option<String>,
	/// violation of "at most the last item is an error, nothing after an error or the end"
	pub shape: Option<String>,
}

fn tok_name(v: &TokenValue) -> &'static str
{
	match v
	{
		TokenValue::Separator => "sep", TokenValue::Terminator => "term",
		TokenValue::LabelMark => "labelmark", TokenValue::DirectiveMark => "dirmark",
		TokenValue::Plus => "plus", TokenValue::Minus => "minus", TokenValue::Multiply => "mul",
		TokenValue::Divide => "div", TokenValue::Modulo => "mod", TokenValue::Not => "not",
		TokenValue::BitAnd => "band", TokenValue::BitOr => "bor", TokenValue::BitXor => "bxor",
		TokenValue::LeftShift => "shl", TokenValue::RightShift => "shr",
		TokenValue::Number(..) => "num", TokenValue::Identifier(..) => "id", TokenValue::String(..) => "str",
		TokenValue::BeginGroup => "lparen", TokenValue::EndGroup => "rparen",
		TokenValue::BeginAddr => "lbrack", TokenValue::EndAddr => "rbrack",
		TokenValue::BeginSeq => "lbrace", TokenValue::EndSeq => "rbrace",
	}
}

fn item_of(t: &Token) -> Item
{
	let payload = match &t.value
	{
		TokenValue::Number(Number::Integer(v)) => v.to_string(),
		TokenValue::Identifier(s) => hex(s.as_bytes()),
		TokenValue::String(s) => {let s: &str = s.as_ref(); hex(s.as_bytes())},
		_ => String::new(),
	};
	Item{kind: tok_name(&t.value), line: t.line, col: t.col, payload}
}

fn kind_name(k: &TokenErrorKind) -> String
{
	match k
	{
		TokenErrorKind::BadUnicode => "badunicode".to_owned(),
		TokenErrorKind::Invalid => "invalid".to_owned(),
		TokenErrorKind::BlockComment => "blockcomment".to_owned(),
		TokenErrorKind::BadNumber => "badnumber".to_owned(),
		TokenErrorKind::BadCharacter => "badcharacter".to_owned(),
		TokenErrorKind::BadString => "badstring".to_owned(),
		TokenErrorKind::Unexpected(c) => format!("unexpected:{}", *c as u32),
		k => format!("unknown:{k:?}"),
	}
}

const EXTRA_NEXT: usize = 3;

/// iterate the real tokenizer to exhaustion (and a few calls beyond), under `guarded`
pub fn real_lex(bytes: &[u8]) -> Lexed
{
	let r = guarded(||
	{
		let mut tk = Tokenizer::new(bytes);
		let mut toks = Vec::new();
		let mut err = None;
		let mut shape = None;
		let cap = bytes.len() + 2;
		let mut n = 0usize;
		loop
		{
			n += 1;
			if n > cap {shape = Some(format!("more than {cap} items from {} bytes", bytes.len())); break;}
			match tk.next()
			{
				None => break,
				Some(Ok(t)) => toks.push(item_of(&t)),
				Some(Err(e)) => {err = Some((e.line, e.col, kind_name(&e.value))); break;},
			}
		}
		let end = (tk.get_line(), tk.get_column());
		for i in 0..EXTRA_NEXT
		{
			if let Some(x) = tk.next()
			{
				if shape.is_none()
				{
					shape = Some(format!("call {} after {} yields another item: {}", i + 1, if err.is_some() {"an error"} else {"the end"},
						match x {Ok(t) => format!("token {}", tok_name(&t.value)), Err(e) => format!("error {}", kind_name(&e.value))}));
				}
			}
		}
		if shape.is_none() && (tk.get_line(), tk.get_column()) != end {shape = Some("position moves after the end".to_owned());}
		(toks, err, end, shape)
	});
	match r
	{
		Err(msg) => Lexed{canon: "PANIC".to_owned(), toks: Vec::new(), err: None, end: (0, 0), panic: Some(msg), shape: None},
		Ok((toks, err, end, shape)) =>
		{
			let mut parts: Vec<String> = toks.iter().map(|t| if t.payload.is_empty() && !matches!(t.kind, "id" | "str" | "num")
				{format!("{} {} {}", t.kind, t.line, t.col)} else {format!("{} {} {} {}", t.kind, t.line, t.col, t.payload)}).collect();
			if let Some((l, c, k)) = &err {parts.push(format!("E {l} {c} {k}"));}
			parts.push(format!("end {} {}", end.0, end.1));
			Lexed{canon: parts.join(" | "), toks, err, end, panic: None, shape}
		},
	}
}

pub struct Parsed
{
	pub elements: usize,
	pub err: bool,
	pub panic: Option<String>,
	pub shape: Option<String>,
}

/// iterate the real parser to exhaustion (and a few calls beyond), under `guarded`
pub fn real_parse(bytes: &[u8]) -> Parsed
{
	let r = guarded(||
	{
		let mut p = Parser::new(bytes);
		let mut elements = 0usize;
		let mut err = false;
		let mut shape = None;
		let cap = bytes.len() + 2;
		let mut n = 0usize;
		loop
		{
			n += 1;
			if n > cap {shape = Some(format!("parser: more than {cap} items from {} bytes", bytes.len())); break;}
			match p.next()
			{
				None => break,
				Some(Ok(_)) => elements += 1,
				Some(Err(_)) => {err = true; break;},
			}
		}
		for i in 0..EXTRA_NEXT
		{
			if p.next().is_some() && shape.is_none()
			{
				shape = Some(format!("parser: call {} after {} yields another item", i + 1, if err {"an error"} else {"the end"}));
			}
		}
		(elements, err, shape)
	});
	match r
	{
		Err(msg) => Parsed{elements: 0, err: false, panic: Some(msg), shape: None},
		Ok((elements, err, shape)) => Parsed{elements, err, panic: None, shape},
	}
}

/// the C10 oracle on one input; returns the tokenizer result for the comparison with the model
fn c10_oracle(cx: &mut Cx, bytes: &[u8]) -> Lexed
{
	let lx = real_lex(bytes);
	let input = || format!("tok {}", hex(bytes));
	if let Some(m) = &lx.panic {cx.report.oracle_fail(input(), format!("tokenizer panics: {m}"));}
	if let Some(m) = &lx.shape {cx.report.oracle_fail(input(), format!("tokenizer: {m}"));}
	let ps = real_parse(bytes);
	if let Some(m) = &ps.panic {cx.report.oracle_fail(input(), format!("parser panics: {m}"));}
	if let Some(m) = &ps.shape {cx.report.oracle_fail(input(), m.clone());}
	if lx.panic.is_none() && ps.panic.is_none() && lx.err.is_some() && !ps.err
	{
		cx.report.oracle_fail(input(), format!("tokenizer rejects the text ({}) but the parser reports success ({} elements, no error)", lx.canon, ps.elements));
	}
	lx
}

// ---------------------------------------------------------------------------------------------
// C10

/// `/ * " ' \ u { } 0 x a ; : . , ( LF TAB 0x7F 0xC3 0xA9 0xFF`
const ALPHABET: [u8; 22] = [b'/', b'*', b'"', b'\'', b'\\', b'u', b'{', b'}', b'0', b'x', b'a', b';', b':', b'.', b',', b'(', b'\n', b'\t', 0x7F, 0xC3, 0xA9, 0xFF];

fn alphabet_arg() -> String
{
	ALPHABET.iter().map(|b| format!("{b:02x}")).collect::<Vec<_>>().join(",")
}

fn prefix_arg(p: &[usize]) -> String
{
	if p.is_empty() {"-".to_owned()} else {p.iter().map(|i| i.to_string()).collect::<Vec<_>>().join(",")}
}

/// digest (and oracle) over all strings `cur ++ w`, `w` of `k` symbols — same order as `Driver.Lex.enum`
fn enum_real(cx: &mut Cx, k: usize, cur: &mut Vec<u8>, h: &mut u64, oracle: bool)
{
	if k == 0
	{
		let lx = if oracle {c10_oracle(cx, cur)} else {real_lex(cur)};
		if oracle
		{
			cx.report.evaluations += 1;
			if !lx.toks.is_empty() {cx.report.distinct_key(fnv(FNV_INIT, lx.canon.as_bytes()));}
			let bucket = match (&lx.panic, &lx.err) {(Some(_), _) => "enum: panic".to_owned(), (_, Some((_, _, k))) => format!("enum: ends in {}", k.split(':').next().unwrap()), _ => "enum: ends normally".to_owned()};
			cx.report.hit(&bucket);
		}
		*h = fnv(*h, lx.canon.as_bytes());
		*h = fnv(*h, b"\n");
		return;
	}
	for &b in ALPHABET.iter()
	{
		cur.push(b);
		enum_real(cx, k - 1, cur, h, oracle);
		cur.pop();
	}
}

/// compare the digests of all strings of `len` symbols that extend `prefix`; descend on mismatch
fn compare_block(cx: &mut Cx, len: usize, prefix: &mut Vec<usize>, oracle: bool)
{
	let mut cur: Vec<u8> = prefix.iter().map(|&i| ALPHABET[i]).collect();
	if prefix.len() == len
	{
		let mut h = FNV_INIT;
		enum_real(cx, 0, &mut cur, &mut h, oracle);
		let reply = cx.model.ask(&format!("lex bulk {len} {} {}", alphabet_arg(), prefix_arg(prefix)));
		if reply != format!("{h:016x}")
		{
			let m = cx.model.ask(&format!("lex tok {}", hex(&cur)));
			let lx = real_lex(&cur);
			cx.report.disagree("model.lex.tokens", format!("tok {}", hex(&cur)), m, lx.canon);
		}
		return;
	}
	let reply = cx.model.ask(&format!("lex bulk {len} {} {}", alphabet_arg(), prefix_arg(prefix)));
	let digests: Vec<&str> = reply.split(' ').collect();
	if digests.len() != ALPHABET.len()
	{
		cx.report.disagree("model.lex.tokens", format!("bulk {len} {}", prefix_arg(prefix)), reply.clone(), "22 digests expected");
		return;
	}
	for j in 0..ALPHABET.len()
	{
		let mut h = FNV_INIT;
		cur.push(ALPHABET[j]);
		enum_real(cx, len - prefix.len() - 1, &mut cur, &mut h, oracle);
		cur.pop();
		if digests[j] != format!("{h:016x}")
		{
			if cx.report.disagreements_total >= 5 {continue;}
			prefix.push(j);
			if prefix.len() == len
			{
				let s: Vec<u8> = prefix.iter().map(|&i| ALPHABET[i]).collect();
				let m = cx.model.ask(&format!("lex tok {}", hex(&s)));
				let lx = real_lex(&s);
				cx.report.disagree("model.lex.tokens", format!("tok {}", hex(&s)), m, lx.canon);
			}
			else {compare_block(cx, len, prefix, false);}
			prefix.pop();
		}
	}
}

const SEEDS: [&str; 16] = [
	"/* a /* b */* c */ x: NOP; /* /* x */ /* y */ */ // z */\n.du8 1; /* /*/ */ **/ y:\n",
	"NOP; /* **/ // */\nNOP; /* q /* r */*/ NOP; /*/**/*/ z:",
	"start: MOVS R0, 0x1F; // comment\n\tLDR R1, [SP, 4 * (2 + 1)];\n",
	".du8 \"text\\n\\u{41}\", 'a', '\\n', 0b101, 0o17, -9223372036854775807;\n",
	"/* outer /* inner */ still */ loop: B loop;\n",
	".dstr \"h\u{e9}llo \u{1F600} w\u{F6}rld\"; /* \u{e9} */ ADDS R0, R1, R2;\n",
	"PUSH {R0, R1, LR};\r\n\tPOP {R0, R1, PC};\r\n",
	".const x, (1 << 4) | 3 & ~0 ^ 7 % 2 / 1;\n",
	"a.b$c@d_e: .global a.b$c@d_e;",
	"'\u{e9}' '\\'' '\"' ''' '\\\\' \"\\\\\" \"\\\"\" \"\\0\"",
	"LDR R0, [R1, R2]; STR R0, [R1, 124]; ADD SP, SP, 8;",
	".addr 0x20000000; .align 4; .du32 0xFFFFFFFF, 4294967295, 0o37777777777;",
	"x >> 2 << 3 >> 1",
	"// only a comment",
	"/* unterminated",
	"\"unterminated",
];

const FRAGMENTS: [&[u8]; 40] = [
	b"/*", b"*/", b"//", b"/", b"*", b"\"", b"'", b"\\", b"\\u{", b"}", b"{", b"\\u{41}", b"\\u{D800}", b"\\u{110000}", b"\\n", b"\\q",
	b"0x", b"0b", b"0o", b"0", b"9223372036854775807", b"9223372036854775808", b"\n", b"\r\n", b"\t", b" ", b"\x7f", b"\x00", b"\x1b",
	b"\xc3\xa9", b"\xc3", b"\xa9", b"\xff", b"\xf0\x9f\x98\x80", b"\xed\xa0\x80", b"\xe2\x82", b"<<", b">", b"abc", b";",
];

fn random_input(rng: &mut Rng) -> Vec<u8>
{
	let mode = rng.below(10);
	if mode < 6
	{
		// mutate a seed
		let mut v: Vec<u8> = rng.pick(&SEEDS[..]).as_bytes().to_vec();
		if rng.chance(1, 3) {v.extend_from_slice(rng.pick(&SEEDS[..]).as_bytes());}
		let muts = 1 + rng.below(6);
		for _ in 0..muts
		{
			let at = rng.below(v.len() as u64 + 1) as usize;
			match rng.below(6)
			{
				0 => {let f: &[u8] = *rng.pick(&FRAGMENTS[..]); v.splice(at..at, f.iter().copied());},
				1 => if at < v.len() {v[at] = rng.next() as u8;},
				2 => if at < v.len() {v.remove(at);},
				3 => v.truncate(at),
				4 => if at < v.len() {v[at] ^= 1 << rng.below(8);},
				_ => {let f = ALPHABET[rng.below(22) as usize]; v.insert(at, f);},
			}
		}
		v
	}
	else if mode < 9
	{
		// concatenation of fragments
		let n = 1 + rng.below(40);
		let mut v: Vec<u8> = Vec::new();
		for _ in 0..n {let f: &[u8] = *rng.pick(&FRAGMENTS[..]); v.extend_from_slice(f);}
		v
	}
	else
	{
		let n = rng.below(200) as usize;
		(0..n).map(|_| if rng.chance(1, 4) {rng.next() as u8} else {ALPHABET[rng.below(22) as usize]}).collect()
	}
}

fn c10_single(cx: &mut Cx, bytes: &[u8], reply: &str)
{
	let lx = c10_oracle(cx, bytes);
	cx.report.case(if lx.toks.is_empty() {None} else {Some(&lx.canon)});
	cx.report.compare("model.lex.tokens", &format!("tok {}", hex(bytes)), reply, &lx.canon);
}

// ---------------------------------------------------------------------------------------------
// look-ahead: `peek` / `peek_nth` interleaved with `next` (input `peek <hex> <script>`, script = `n` (next), `p` (peek),
// `0`..`9` (peek_nth) characters)

/// The full look-ahead contract — `peek_nth(i)` is the i-th following item (token, or the stream's error) whenever that item
/// exists — is violated by the implementation (it buffers `idx` instead of `idx + 1` items: on a fresh tokenizer over `a b c`
/// `peek_nth(0)` is `None`). No property speaks about `peek_nth` and nothing in the crate calls it, so violations of the FULL
/// contract are counted in the histogram and noted with their replay input; set this to `true` to make them oracle failures.
const PEEK_NTH_CONTRACT_IS_ORACLE: bool = false;

fn show_item(x: Option<Result<&Token, &trion::text::token::TokenError>>) -> String
{
	match x
	{
		None => "none".to_owned(),
		Some(Ok(t)) => {let i = item_of(t); format!("{} {} {} {}", i.kind, i.line, i.col, i.payload)},
		Some(Err(e)) => format!("E {} {} {}", e.line, e.col, kind_name(&e.value)),
	}
}

fn check_peek(cx: &mut Cx, bytes: &[u8], script: &str)
{
	let input = format!("peek {} {script}", hex(bytes));
	let plain = real_lex(bytes);
	if plain.panic.is_some() {return;}   // reported by the C10 oracle
	// the items of the plain run, in the notation of `show_item`
	let mut items: Vec<String> = plain.toks.iter().map(|i| format!("{} {} {} {}", i.kind, i.line, i.col, i.payload)).collect();
	if let Some((l, c, k)) = &plain.err {items.push(format!("E {l} {c} {k}"));}
	let r = guarded(||
	{
		let mut tk = Tokenizer::new(bytes);
		let mut consumed = 0usize;
		let mut produced: Vec<String> = Vec::new();
		let mut hard: Option<String> = None;
		let mut soft: Option<String> = None;
		let mut looked = 0u64;
		let mut ended = false;
		for c in script.chars()
		{
			match c
			{
				'n' =>
				{
					match tk.next()
					{
						None => ended = true,
						Some(x) =>
						{
							let is_err = x.is_err();
							produced.push(show_item(Some(x.as_ref())));
							consumed += 1;
							if is_err {ended = true;}
						},
					}
				},
				_ =>
				{
					let idx = if c == 'p' {0} else {c.to_digit(10).unwrap() as usize};
					let got = if c == 'p' {show_item(tk.peek())} else {show_item(tk.peek_nth(idx))};
					looked += 1;
					// after the error item has been handed out the stream is over
					let want = if ended {"none".to_owned()} else {items.get(consumed + idx).cloned().unwrap_or_else(|| "none".to_owned())};
					if got != want
					{
						let what = format!("after {consumed} next() calls {} = {got}, item {} of the stream is {want}", if c == 'p' {"peek()".to_owned()} else {format!("peek_nth({idx})")}, consumed + idx);
						// `peek` is what the parser relies on; a wrong item from `peek_nth` is a wrong answer, a missing one is the known off-by-one
						if c == 'p' || got != "none" {hard.get_or_insert(what);} else {soft.get_or_insert(what);}
					}
				},
			}
		}
		// drain: whatever was looked at, the sequence handed out by next() is the plain one
		loop
		{
			match tk.next()
			{
				None => break,
				Some(x) => {produced.push(show_item(Some(x.as_ref()))); if produced.len() > bytes.len() + 2 {break;}},
			}
		}
		(produced, hard, soft, looked)
	});
	match r
	{
		Err(p) => cx.report.oracle_fail(input, format!("look-ahead panics: {p}")),
		Ok((produced, hard, soft, looked)) =>
		{
			cx.report.case(Some(&format!("{} {script}", plain.canon)));
			cx.report.hit_n("look-ahead calls (peek / peek_nth)", looked);
			if produced != items
			{
				cx.report.oracle_fail(input.clone(), format!("look-ahead changes what next() hands out: {produced:?} instead of {items:?}"));
			}
			if let Some(w) = hard {cx.report.oracle_fail(input.clone(), format!("look-ahead returns a wrong item: {w}"));}
			if let Some(w) = soft
			{
				cx.report.hit("FINDING peek_nth: returns nothing although the item exists (off by one)");
				if PEEK_NTH_CONTRACT_IS_ORACLE {cx.report.oracle_fail(input, format!("peek_nth misses an existing item: {w}"));}
				else if cx.report.notes.iter().filter(|n| n.starts_with("FINDING peek_nth")).count() < 3
				{
					cx.report.notes.push(format!("FINDING peek_nth (public API no property speaks about; not an oracle failure): replay `{input}`: {w}"));
				}
			}
		},
	}
}

fn peek_section(cx: &mut Cx)
{
	let fixed: [(&[u8], &str); 8] = [(b"a b c", "0"), (b"a b c", "p01"), (b"a b c", "210n10n0n0p"), (b"a ?", "1122"), (b"a ?", "pn p0n0".trim()),
		(b"", "p0 1".trim()), (b"MOVS R0, 1; x: .du8 \"s\";", "9876543210nnp0n1"), (b"1 2 \"", "0p2n1n0np0")];
	for (b, s) in fixed {let s: String = s.chars().filter(|c| !c.is_whitespace()).collect(); check_peek(cx, b, &s);}
	let n = if cx.thorough() {60_000} else {12_000};
	let mut rng = cx.rng.fork();
	for _ in 0..n
	{
		let bytes = random_input(&mut rng);
		let bytes = if bytes.len() > 60 {bytes[..60].to_vec()} else {bytes};
		let len = 1 + rng.below(14);
		let script: String = (0..len).map(|_| match rng.below(8) {0 | 1 | 2 => 'n', 3 => 'p', _ => char::from_digit(rng.below(5) as u32 + if rng.chance(1, 10) {5} else {0}, 10).unwrap()}).collect();
		check_peek(cx, &bytes, &script);
	}
	cx.report.hit_n("look-ahead scripts", n as u64 + 8);
}

// very long runs of consecutive comments (`deep line|block <n>`): tokenizer and parser on a thread with a 1 MiB stack. A build in
// which skipping a comment costs a stack frame dies of stack overflow, which no catch_unwind sees: the case runs in a CHILD process
// (this executable in replay mode) and its way of ending is observed.
fn deep_text(kind: &str, n: usize) -> Vec<u8>
{
	let mut t = Vec::with_capacity(n * 8 + 16);
	for _ in 0..n {t.extend_from_slice(if kind == "line" {b"// c\n"} else {b"/* c */"});}
	t.extend_from_slice(b" x: NOP;");
	t
}

fn deep_direct(cx: &mut Cx, kind: &str, n: usize)
{
	let input = format!("deep {kind} {n}");
	let text = deep_text(kind, n);
	let h = std::thread::Builder::new().stack_size(1 << 20).spawn(move ||
	{
		guarded(||
		{
			let toks: Vec<_> = Tokenizer::new(&text).collect();
			let els = trion::text::parse::Parser::new(&text).filter(|e| e.is_ok()).count();
			(toks.len(), toks.iter().all(|t| t.is_ok()), toks.first().map(|t| t.as_ref().map(|t| (t.line, t.col)).unwrap_or((0, 0))), els)
		})
	}).unwrap();
	cx.report.case(Some(&input));
	match h.join()
	{
		Ok(Ok((ntok, all_ok, first, els))) =>
		{
			let want_first = if kind == "line" {(n as u32 + 1, 2)} else {(1, 7 * n as u32 + 2)};
			if ntok != 4 || !all_ok || els != 2 || first != Some(want_first)
			{
				cx.report.oracle_fail(input, format!("{n} consecutive comments followed by `x: NOP;`: {ntok} tokens (all ok: {all_ok}), first at {first:?} (expected {want_first:?}), {els} statements"));
			}
		},
		Ok(Err(p)) => cx.report.oracle_fail(input, format!("panic: {p}")),
		Err(_) => cx.report.oracle_fail(input, "the thread died"),
	}
}

fn deep_case(cx: &mut Cx, kind: &str, n: usize)
{
	if std::env::var("TRION_DEEP_CHILD").is_ok() {deep_direct(cx, kind, n); return;}
	let input = format!("deep {kind} {n}");
	let exe = std::env::current_exe().expect("own executable");
	let rep = cx.work.join(format!("deep-{kind}.json"));
	let out = std::process::Command::new(exe).args(["replay", "C10", &input]).arg(&rep).arg(cx.work.join("deep-child")).env("TRION_DEEP_CHILD", "1").output();
	cx.report.case(Some(&input));
	cx.report.hit(&format!("{n} consecutive {kind} comments on a 1 MiB stack"));
	match out
	{
		Err(e) => cx.report.notes.push(format!("could not start the child for `{input}`: {e}")),
		Ok(o) =>
		{
			use std::os::unix::process::ExitStatusExt;
			if let Some(sig) = o.status.signal()
			{
				cx.report.oracle_fail(input, format!("tokenizing / parsing {n} consecutive {kind} comments on a thread with a 1 MiB stack was killed by signal {sig} (stack overflow: comment skipping recurses)"));
			}
			else if !o.status.success()
			{
				let what = std::fs::read_to_string(&rep).ok().and_then(|t| t.split("\"what\": ").nth(1).map(|w| w.chars().take(300).collect::<String>())).unwrap_or_default();
				cx.report.oracle_fail(input, format!("child run failed (status {:?}): {what}", o.status.code()));
			}
		},
	}
}

fn run_c10(cx: &mut Cx)
{
	cx.report.rule = "exhaustive: every string of up to 4 (quick) / 5 (thorough) symbols over the 22-symbol alphabet \
/ * \" ' \\ u { } 0 x a ; : . , ( LF TAB 7F C3 A9 FF, model digests compared per block and bisected; plus random inputs \
(mutated assembly snippets, fragment concatenations, random bytes; up to ~300 bytes). On every input: real Tokenizer and real Parser \
under catch_unwind; oracle: no panic, at most the last item an error, three further next() calls yield nothing, \
tokenizer error implies parser error; every 8th random input and every byte-order-mark program also through the parser call by call: \
the real iterator called (items + 3) times against the call-by-call model Parse.next on the real token stream (model.parse.next). non-trivial = at least one token produced; distinct = distinct canonical token streams".to_owned();
	if let Some(input) = cx.replay.clone()
	{
		match input.split(' ').collect::<Vec<_>>().as_slice()
		{
			["tok", h] if unhex(h).is_some() =>
			{
				let bytes = unhex(h).unwrap();
				let reply = cx.model.ask(&format!("lex tok {}", hex(&bytes)));
				c10_single(cx, &bytes, &reply);
			},
			["calls", h] if unhex(h).is_some() =>
			{
				let bytes = unhex(h).unwrap();
				crate::parse::check_calls(cx, &[&bytes[..]]);
			},
			["deep", kind @ ("line" | "block"), n] if n.parse::<usize>().is_ok() => deep_case(cx, kind, n.parse().unwrap()),
			["peek", h, script] if unhex(h).is_some() && script.chars().all(|c| c == 'n' || c == 'p' || c.is_ascii_digit()) =>
			{
				check_peek(cx, &unhex(h).unwrap(), script);
			},
			_ => cx.report.oracle_fail(input.clone(), "unrecognised replay input"),
		}
		return;
	}
	peek_section(cx);
	for kind in ["line", "block"] {deep_case(cx, kind, 200_000);}
	let max_len = if cx.thorough() {5} else {4};
	for len in 0..=max_len
	{
		let before = cx.report.evaluations;
		compare_block(cx, len, &mut Vec::new(), true);
		cx.report.hit_n(&format!("exhaustive length {len}"), cx.report.evaluations - before);
	}
	cx.report.exhaustive = true;
	cx.report.notes.push(format!("exhaustive over all strings of length <= {max_len} over the 22-symbol alphabet; the random part is not exhaustive"));

	let nrand = if cx.thorough() {400_000} else {100_000};
	let mut rng = cx.rng.fork();
	let mut done = 0;
	while done < nrand
	{
		let n = 8192.min(nrand - done);
		let inputs: Vec<Vec<u8>> = (0..n).map(|_| random_input(&mut rng)).collect();
		let lines: Vec<String> = inputs.iter().map(|b| format!("lex tok {}", hex(b))).collect();
		let replies = cx.model.ask_many(&lines);
		for (b, r) in inputs.iter().zip(replies.iter()) {c10_single(cx, b, r);}
		// the parser half, call by call: the real iterator for (items + 3) calls against `Parse.next` (every 8th input)
		let sample: Vec<&[u8]> = inputs.iter().step_by(8).map(|b| &b[..]).collect();
		crate::parse::check_calls(cx, &sample);
		done += n;
	}
	cx.report.hit_n("random / mutated inputs", nrand as u64);
	// well-formed programs behind (and in front of) bytes that editors and tools add: byte order marks, NUL, form feed,
	// U+FEFF / U+200B / U+00A0 inside the text, CR-only line ends — whatever the tokenizer rejects the parser must reject too
	{
		let marks: [&[u8]; 12] = [b"\xEF\xBB\xBF", b"\xFE\xFF", b"\xFF\xFE", b"\xEF\xBB", b"\x00", b"\x0C", b"\xE2\x80\x8B", b"\xC2\xA0", b"\x1A", b"\xEF\xBB\xBF\xEF\xBB\xBF", b"\r", b"\xE2\x80\xA8"];
		let bodies: [&[u8]; 6] = [b"nop;", b"", b"x: movs r0, 1;\n.du8 'a';\n", b".dstr \"s\";", b"// c\nnop;", b"/* c */ b x;"];
		let mut inputs: Vec<Vec<u8>> = Vec::new();
		for m in marks
		{
			for b in bodies
			{
				inputs.push([m, b].concat());
				inputs.push([b, m].concat());
				inputs.push([b, m, b].concat());
			}
		}
		let lines: Vec<String> = inputs.iter().map(|b| format!("lex tok {}", hex(b))).collect();
		let replies = cx.model.ask_many(&lines);
		for (b, r) in inputs.iter().zip(replies.iter()) {c10_single(cx, b, r);}
		let sample: Vec<&[u8]> = inputs.iter().map(|b| &b[..]).collect();
		crate::parse::check_calls(cx, &sample);
		cx.report.hit_n("programs with byte order marks / stray control and space characters", inputs.len() as u64);
	}
	// escape-shaped text inside character and string literals followed by multi-byte characters at every offset: a backslash, any
	// printable ASCII character (an escape letter of today or of a future extension: \x, \u, \0 …), 0-3 digit / brace characters, then
	// a 2-, 3- or 4-byte character or a damaged one — byte-offset arithmetic on escapes must not split a character (no panic),
	// and the model must agree on what is accepted
	{
		let fillers: [&[u8]; 9] = [b"", b"4", b"41", b"{", b"{4", b"{41", b"4{", b"0", b"00"];
		let wide: [&[u8]; 5] = ["\u{e9}".as_bytes(), "\u{20ac}".as_bytes(), "\u{1f600}".as_bytes(), b"\xC3", b"\xE2\x82"];
		let mut inputs: Vec<Vec<u8>> = Vec::new();
		for q in [b'\'', b'"']
		{
			for letter in 0x21u8..=0x7E
			{
				for f in fillers
				{
					for w in wide
					{
						for tail in [&b""[..], &b"}"[..]]
						{
							let mut t = vec![q, b'\\', letter];
							t.extend_from_slice(f);
							t.extend_from_slice(w);
							t.extend_from_slice(tail);
							t.push(q);
							inputs.push(t);
						}
					}
				}
			}
		}
		let lines: Vec<String> = inputs.iter().map(|b| format!("lex tok {}", hex(b))).collect();
		let replies = cx.model.ask_many(&lines);
		for (b, r) in inputs.iter().zip(replies.iter()) {c10_single(cx, b, r);}
		cx.report.hit_n("escape-shaped literals followed by multi-byte characters", inputs.len() as u64);
	}
	for s in ["/* x */ \u{e9}", "\"a\nb\"", "mov r0, 10 \"ab\" \"x"]
	{
		let lx = real_lex(s.as_bytes());
		cx.report.sample(format!("{s:?} -> {}", lx.canon));
	}
}

// ---------------------------------------------------------------------------------------------
// C11

#[derive(Clone, Debug, PartialEq, Eq)]
enum Expect
{
	Num(u64),
	Str(Vec<u8>),
	Reject,
}

impl Expect
{
	fn show(&self) -> String
	{
		match self {Expect::Num(n) => format!("num:{n}"), Expect::Str(s) => format!("str:{}", hex(s)), Expect::Reject => "reject".to_owned()}
	}
	fn parse(s: &str) -> Option<Expect>
	{
		if s == "reject" {return Some(Expect::Reject);}
		if let Some(n) = s.strip_prefix("num:") {return n.parse().ok().map(Expect::Num);}
		if let Some(h) = s.strip_prefix("str:") {return unhex(h).map(Expect::Str);}
		None
	}
}

/// the C11 oracle: the text is one literal written so as to denote `want`
fn c11_check(cx: &mut Cx, class: &str, bytes: &[u8], want: &Expect, reply: &str)
{
	let input = format!("lit {} {}", hex(bytes), want.show());
	let lx = real_lex(bytes);
	cx.report.case(match want {Expect::Reject => None, _ => Some(&lx.canon)});
	cx.report.hit(class);
	cx.report.compare("model.lex.tokens", &input, reply, &lx.canon);
	if let Some(m) = &lx.panic {cx.report.oracle_fail(input, format!("tokenizer panics: {m}")); return;}
	let ok = match want
	{
		Expect::Num(n) => lx.err.is_none() && lx.toks.len() == 1 && lx.toks[0].kind == "num" && lx.toks[0].payload == n.to_string(),
		Expect::Str(s) => lx.err.is_none() && lx.toks.len() == 1 && lx.toks[0].kind == "str" && lx.toks[0].payload == hex(s),
		Expect::Reject => lx.err.is_some() && lx.toks.is_empty(),
	};
	if !ok
	{
		cx.report.oracle_fail(input, format!("literal must yield {}, tokenizer yields: {}", match want
		{
			Expect::Num(n) => format!("the single number {n}"), Expect::Str(s) => format!("the single string {}", hex(s)), Expect::Reject => "an error and no token".to_owned(),
		}, lx.canon));
	}
}

fn to_radix(mut n: u128, radix: u32, upper: u8, rng: &mut Rng) -> String
{
	if n == 0 {return "0".to_owned();}
	let mut ds = Vec::new();
	while n > 0
	{
		let d = (n % radix as u128) as u32;
		let c = char::from_digit(d, radix).unwrap();
		let up = match upper {0 => false, 1 => true, _ => rng.chance(1, 2)};
		ds.push(if up {c.to_ascii_uppercase()} else {c});
		n /= radix as u128;
	}
	ds.iter().rev().collect()
}

fn int_literal(n: u128, radix: u32, case: u8, zeros: usize, rng: &mut Rng) -> Vec<u8>
{
	let prefix = match radix {2 => "0b", 8 => "0o", 16 => "0x", _ => ""};
	format!("{prefix}{}{}", "0".repeat(zeros), to_radix(n, radix, case, rng)).into_bytes()
}

struct Batch
{
	class: &'static str,
	cases: Vec<(Vec<u8>, Expect)>,
}

fn flush(cx: &mut Cx, b: &mut Batch)
{
	if b.cases.is_empty() {return;}
	let lines: Vec<String> = b.cases.iter().map(|(t, _)| format!("lex tok {}", hex(t))).collect();
	let replies = cx.model.ask_many(&lines);
	let cases = std::mem::take(&mut b.cases);
	for ((t, w), r) in cases.iter().zip(replies.iter()) {c11_check(cx, b.class, t, w, r);}
}

fn push(cx: &mut Cx, b: &mut Batch, text: Vec<u8>, want: Expect)
{
	b.cases.push((text, want));
	if b.cases.len() >= 32768 {flush(cx, b);}
}

fn utf8(c: char) -> Vec<u8>
{
	let mut buf = [0u8; 4];
	c.encode_utf8(&mut buf).as_bytes().to_vec()
}

/// one element of a generated string literal: (source text, bytes it denotes)
fn string_piece(rng: &mut Rng) -> (Vec<u8>, Vec<u8>)
{
	match rng.below(10)
	{
		0..=3 =>
		{
			// printable ASCII other than `"` and `\`, or TAB
			loop
			{
				let c = if rng.chance(1, 12) {b'\t'} else {rng.range(32, 126) as u8};
				if c != b'"' && c != b'\\' {return (vec![c], vec![c]);}
			}
		},
		4 | 5 =>
		{
			let c = random_scalar(rng, 0x80);
			(utf8(c), utf8(c))
		},
		6 | 7 =>
		{
			let (src, c): (&[u8], u8) = *rng.pick(&[(&b"\\0"[..], 0u8), (b"\\t", 9), (b"\\n", 10), (b"\\r", 13), (b"\\\"", b'"'), (b"\\'", b'\''), (b"\\\\", b'\\')]);
			(src.to_vec(), vec![c])
		},
		_ =>
		{
			let c = random_scalar(rng, 0);
			let digits = format!("{:x}", c as u32);
			let zeros = rng.below((6 - digits.len()) as u64 + 1) as usize;
			let mut h = "0".repeat(zeros) + &digits;
			if rng.chance(1, 2) {h = h.chars().map(|ch| if rng.chance(1, 2) {ch.to_ascii_uppercase()} else {ch}).collect();}
			(format!("\\u{{{h}}}").into_bytes(), utf8(c))
		},
	}
}

fn random_scalar(rng: &mut Rng, min: u32) -> char
{
	loop
	{
		let v = match rng.below(4)
		{
			0 => rng.range(min as i64, 0x7FF) as u32,
			1 => rng.range(0x800.max(min) as i64, 0xFFFF) as u32,
			2 => rng.range(0x10000, 0x10FFFF) as u32,
			_ => *rng.pick(&[0x80u32, 0x7FF, 0x800, 0xD7FF, 0xE000, 0xFFFF, 0x10000, 0x10FFFF, 0xE9, 0x1F600]),
		};
		if v >= min {if let Some(c) = char::from_u32(v) {return c;}}
	}
}

// sequences of literals in ONE input (`seq <hex> <expected,…>`, expected = `s<hex contents>` | `n<value>`): each literal yields exactly
// its own contents, whatever came before it (escaped after plain, plain after escaped, empty strings in between)
fn seq_check(cx: &mut Cx, bytes: &[u8], want: &[String], reply: &str)
{
	let input = format!("seq {} {}", hex(bytes), want.join(","));
	let lx = real_lex(bytes);
	cx.report.case(Some(&lx.canon));
	cx.report.hit("literal sequence");
	cx.report.compare("model.lex.tokens", &input, reply, &lx.canon);
	if let Some(m) = &lx.panic {cx.report.oracle_fail(input, format!("tokenizer panics: {m}")); return;}
	let got: Vec<String> = lx.toks.iter().map(|t| match t.kind {"str" => format!("s{}", t.payload), "num" => format!("n{}", t.payload), k => format!("?{k}")}).collect();
	if lx.err.is_some() || got != want
	{
		let k = got.iter().zip(want.iter()).position(|(a, b)| a != b).unwrap_or(got.len().min(want.len()));
		cx.report.oracle_fail(input, format!("literal {} of the sequence must yield {:?}, the tokenizer yields {:?} (error: {:?})", k + 1, want.get(k), got.get(k), lx.err));
	}
}

fn char_literal(rng: &mut Rng) -> (Vec<u8>, u32)
{
	match rng.below(3)
	{
		0 => {let (src, c): (&[u8], u32) = *rng.pick(&[(&b"'\\n'"[..], 10u32), (b"'\\t'", 9), (b"'\\r'", 13), (b"'\\\\'", 92), (b"'\\''", 39), (b"'\\\"'", 34)]); (src.to_vec(), c)},
		_ => loop
		{
			let c = if rng.chance(1, 2) {rng.range(32, 126) as u8 as char} else {random_scalar(rng, 0x80)};
			if c != '\'' && c != '\\' {let mut v = vec![b'\'']; v.extend_from_slice(&utf8(c)); v.push(b'\''); return (v, c as u32);}
		},
	}
}

fn literal_sequences(cx: &mut Cx, rng: &mut Rng)
{
	let n = if cx.thorough() {200_000} else {6_000};
	let mut cases: Vec<(Vec<u8>, Vec<String>)> = Vec::new();
	// escaped / plain / empty in every order of two and three
	let kinds: [(&[u8], &str); 5] = [(b"\"a\\n\"", "s610a"), (b"\"b\"", "s62"), (b"\"\"", "s-"), (b"\"\\u{41}\\\\\"", "s415c"), (b"'\\n'", "n10")];
	for a in kinds {for b in kinds {cases.push(([a.0, b" ", b.0].concat(), vec![a.1.to_owned(), b.1.to_owned()]));
		for c in kinds {cases.push(([a.0, b",", b.0, b"\n", c.0].concat(), vec![a.1.to_owned(), "?sep".to_owned(), b.1.to_owned(), c.1.to_owned()]));}}}
	for _ in 0..n
	{
		let k = 2 + rng.below(4);
		let (mut text, mut want) = (Vec::new(), Vec::new());
		for j in 0..k
		{
			if j > 0 {text.extend_from_slice(*rng.pick(&[&b" "[..], b"\n", b"\t", b" /* \"x\\n\" */ ", b" // 'q'\n", b"  "]));}
			if rng.chance(1, 4) {let (t, v) = char_literal(rng); text.extend_from_slice(&t); want.push(format!("n{v}"));}
			else
			{
				// escape-free, escaped-only, mixed, empty
				let pieces = match rng.below(5) {0 => 0, 1 => 1, _ => 1 + rng.below(6)};
				let plain_only = rng.chance(1, 3);
				let mut contents = Vec::new();
				text.push(b'"');
				for _ in 0..pieces
				{
					let (t, c) = loop {let p = string_piece(rng); if !plain_only || p.0 == p.1 {break p;}};
					text.extend_from_slice(&t);
					contents.extend_from_slice(&c);
				}
				text.push(b'"');
				want.push(format!("s{}", hex(&contents)));
			}
		}
		cases.push((text, want));
	}
	for chunk in cases.chunks(8192)
	{
		let lines: Vec<String> = chunk.iter().map(|(t, _)| format!("lex tok {}", hex(t))).collect();
		let replies = cx.model.ask_many(&lines);
		for ((t, w), r) in chunk.iter().zip(replies.iter())
		{
			// the fixed triples hold a `,` token between the first two literals
			if w.iter().any(|x| x == "?sep") {let w2: Vec<String> = w.iter().map(|x| if x == "?sep" {"?sep".to_owned()} else {x.clone()}).collect(); seq_check(cx, t, &w2, r);}
			else {seq_check(cx, t, w, r);}
		}
	}
}

/// the magnitude 2^63 is no literal, whatever stands before it (`ctx <hex> <tokens before the literal>`): the tokens before it are
/// produced, then the error; nothing — in particular no number — is produced for it
fn ctx_check(cx: &mut Cx, bytes: &[u8], before: usize, reply: &str)
{
	let input = format!("ctx {} {before}", hex(bytes));
	let lx = real_lex(bytes);
	cx.report.case(None);
	cx.report.hit("2^63 in context");
	cx.report.compare("model.lex.tokens", &input, reply, &lx.canon);
	if let Some(m) = &lx.panic {cx.report.oracle_fail(input, format!("tokenizer panics: {m}")); return;}
	if lx.err.is_none() || lx.toks.len() != before
	{
		cx.report.oracle_fail(input, format!("the literal 2^63 behind {before} other token(s) must be rejected (it does not fit a signed 64-bit integer); tokenizer yields: {}", lx.canon));
	}
}

fn two_pow_63_contexts(cx: &mut Cx, rng: &mut Rng)
{
	let mut cases: Vec<(Vec<u8>, usize)> = Vec::new();
	let prefixes: [(&str, usize); 22] = [("", 0), ("-", 1), ("- ", 1), ("-\t/* c */", 1), ("--", 2), ("- -", 2), ("x -", 2), ("x - ", 2), ("1 -", 2), ("0 -", 2), ("-1 -", 3), ("-1 - ", 3),
		("-5-", 3), ("(", 1), ("(-", 2), (",", 1), (", -", 2), ("+", 1), ("*", 1), ("!", 1), ("<<", 1), ("-9223372036854775807 -", 3)];
	for (pre, before) in prefixes
	{
		for radix in [2u32, 8, 10, 16]
		{
			for zeros in [0usize, 1, 3]
			{
				for case in 0..2u8
				{
					let lit = int_literal(1u128 << 63, radix, case, zeros, rng);
					let mut t = pre.as_bytes().to_vec();
					t.extend_from_slice(&lit);
					cases.push((t.clone(), before));
					t.extend_from_slice(b" % 10;");
					cases.push((t, before));
				}
			}
		}
	}
	let lines: Vec<String> = cases.iter().map(|(t, _)| format!("lex tok {}", hex(t))).collect();
	let replies = cx.model.ask_many(&lines);
	for ((t, b), r) in cases.iter().zip(replies.iter()) {ctx_check(cx, t, *b, r);}
}

/// an integer literal directly followed (no blank) by punctuation (`fol <hex> <value>`): the first token is the number with exactly
/// that value, whatever stands behind it
fn follow_check(cx: &mut Cx, bytes: &[u8], value: u64, reply: &str)
{
	let input = format!("fol {} {value}", hex(bytes));
	let lx = real_lex(bytes);
	cx.report.case(Some(&lx.canon));
	cx.report.hit("literal directly followed by punctuation");
	cx.report.compare("model.lex.tokens", &input, reply, &lx.canon);
	if let Some(m) = &lx.panic {cx.report.oracle_fail(input, format!("tokenizer panics: {m}")); return;}
	match lx.toks.first()
	{
		Some(t) if t.kind == "num" && t.payload == value.to_string() && (t.line, t.col) == (1, 1) => (),
		other => cx.report.oracle_fail(input, format!("the text starts with the literal {value}; the first token is {:?} (error: {:?})", other.map(|t| format!("{} {}", t.kind, t.payload)), lx.err)),
	}
}

fn literal_followers(cx: &mut Cx, rng: &mut Rng)
{
	let mut cases: Vec<(Vec<u8>, u64)> = Vec::new();
	let followers: [&[u8]; 14] = [b":", b";", b"<<1", b"=", b">>1", b"?", b"<", b">", b";;;;;;;;", b":x", b"<<", b">>", b"; // c", b";\n"];
	for radix in [10u32, 16, 2, 8]
	{
		for len in 1..=20usize
		{
			for _ in 0..3
			{
				// `len` digits (leading zeros allowed beyond the first), value within i64
				let maxdigits = match radix {10 => 18, 16 => 15, 8 => 20, _ => 62};
				let sig = len.min(maxdigits);
				let mut v: u64 = 0;
				let mut digits = String::new();
				for k in 0..len
				{
					let d = if k < len - sig {0} else {rng.below(radix as u64)};
					v = v.wrapping_mul(radix as u64).wrapping_add(d);
					digits.push(char::from_digit(d as u32, radix).unwrap());
				}
				if radix == 16 && rng.chance(1, 2) {digits = digits.to_uppercase();}
				let prefix = match radix {10 => "", 16 => "0x", 2 => "0b", _ => "0o"};
				for f in followers
				{
					let mut t = format!("{prefix}{digits}").into_bytes();
					t.extend_from_slice(f);
					cases.push((t, v));
				}
			}
		}
	}
	for chunk in cases.chunks(8192)
	{
		let lines: Vec<String> = chunk.iter().map(|(t, _)| format!("lex tok {}", hex(t))).collect();
		let replies = cx.model.ask_many(&lines);
		for ((t, v), r) in chunk.iter().zip(replies.iter()) {follow_check(cx, t, *v, r);}
	}
}

fn run_c11(cx: &mut Cx)
{
	cx.report.rule = "integers: every n within 2^12 of 0, 2^31, 2^32, 2^63 (below and above) in radix 2, 8, 10, 16, lower / upper / mixed digit case, \
0-3 leading zeros; every Unicode scalar value as a raw character literal, raw inside a string and as \\u{hex} inside a string; every escape; \
random strings over printable, TAB, multi-byte, escaped and \\u{..} pieces; malformed literals. Oracle from the way each literal was generated. \
non-trivial = accepted literal; distinct = distinct canonical token streams".to_owned();
	if let Some(input) = cx.replay.clone()
	{
		match input.split(' ').collect::<Vec<_>>().as_slice()
		{
			["lit", h, w] if unhex(h).is_some() && Expect::parse(w).is_some() =>
			{
				let bytes = unhex(h).unwrap();
				let reply = cx.model.ask(&format!("lex tok {}", hex(&bytes)));
				c11_check(cx, "replay", &bytes, &Expect::parse(w).unwrap(), &reply);
			},
			["seq", h, w] if unhex(h).is_some() =>
			{
				let bytes = unhex(h).unwrap();
				let reply = cx.model.ask(&format!("lex tok {}", hex(&bytes)));
				seq_check(cx, &bytes, &w.split(',').map(str::to_owned).collect::<Vec<_>>(), &reply);
			},
			["fol", h, v] if unhex(h).is_some() && v.parse::<u64>().is_ok() =>
			{
				let bytes = unhex(h).unwrap();
				let reply = cx.model.ask(&format!("lex tok {}", hex(&bytes)));
				follow_check(cx, &bytes, v.parse().unwrap(), &reply);
			},
			["ctx", h, n] if unhex(h).is_some() && n.parse::<usize>().is_ok() =>
			{
				let bytes = unhex(h).unwrap();
				let reply = cx.model.ask(&format!("lex tok {}", hex(&bytes)));
				ctx_check(cx, &bytes, n.parse().unwrap(), &reply);
			},
			_ => cx.report.oracle_fail(input.clone(), "unrecognised replay input"),
		}
		return;
	}
	let mut rng = cx.rng.fork();
	literal_sequences(cx, &mut rng);
	two_pow_63_contexts(cx, &mut rng);
	literal_followers(cx, &mut rng);

	// integers around the boundaries
	let mut b = Batch{class: "integer literal", cases: Vec::new()};
	let centres: [u128; 4] = [0, 1 << 31, 1 << 32, 1 << 63];
	for &centre in centres.iter()
	{
		let lo = centre.saturating_sub(4096);
		for n in lo..=centre + 4096
		{
			for radix in [2u32, 8, 10, 16]
			{
				for case in 0..3u8
				{
					if case > 0 && radix != 16 {continue;}
					let zeros = match case {0 => 0, 1 => 1, _ => rng.below(4) as usize};
					let text = int_literal(n, radix, case, zeros, &mut rng);
					let want = if n < (1u128 << 63) {Expect::Num(n as u64)} else {Expect::Reject};
					push(cx, &mut b, text, want);
				}
				if radix != 16
				{
					let text = int_literal(n, radix, 0, 1 + rng.below(3) as usize, &mut rng);
					let want = if n < (1u128 << 63) {Expect::Num(n as u64)} else {Expect::Reject};
					push(cx, &mut b, text, want);
				}
			}
		}
	}
	// much too large
	for radix in [2u32, 8, 10, 16]
	{
		for k in [64u32, 65, 100, 127]
		{
			let n = (1u128 << k) - if k == 127 {1} else {0};
			push(cx, &mut b, int_literal(n, radix, 0, 0, &mut rng), Expect::Reject);
		}
		push(cx, &mut b, int_literal(u64::MAX as u128, radix, 0, 0, &mut rng), Expect::Reject);
		push(cx, &mut b, int_literal(i64::MAX as u128, radix, 1, 2, &mut rng), Expect::Num(i64::MAX as u64));
	}
	flush(cx, &mut b);

	// every scalar value
	let thorough = cx.thorough();
	let sweep_off = (cx.seed % 2) as u32;
	let mut bc = Batch{class: "character literal (every scalar)", cases: Vec::new()};
	let mut bs = Batch{class: "string with one raw character (every scalar)", cases: Vec::new()};
	let mut bu = Batch{class: "string with one \\u{hex} (every scalar)", cases: Vec::new()};
	for v in 0..=0x10FFFFu32
	{
		let Some(c) = char::from_u32(v) else {continue;};
		let raw = utf8(c);
		let printable = v == 9 || (v >= 32 && v != 127);
		let mut t = vec![b'\''];
		t.extend_from_slice(&raw);
		t.push(b'\'');
		push(cx, &mut bc, t, if printable && c != '\\' {Expect::Num(v as u64)} else {Expect::Reject});
		// quick tier: every second scalar (offset rotating with the seed) in the raw-in-a-string sweep; complete in the thorough tier
		if c != '"' && c != '\\' && (thorough || v < 0x800 || (v + sweep_off) % 2 == 0)
		{
			let mut t = vec![b'"'];
			t.extend_from_slice(&raw);
			t.push(b'"');
			push(cx, &mut bs, t, if printable {Expect::Str(raw.clone())} else {Expect::Reject});
		}
		let h = if v % 3 == 0 {format!("{v:X}")} else if v % 3 == 1 {format!("{v:x}")} else {format!("{v:06x}")};
		push(cx, &mut bu, format!("\"\\u{{{h}}}\"").into_bytes(), Expect::Str(raw));
	}
	flush(cx, &mut bc);
	flush(cx, &mut bs);
	flush(cx, &mut bu);

	// escapes
	let mut be = Batch{class: "escape", cases: Vec::new()};
	for (e, v) in [(b't', 9u8), (b'n', 10), (b'r', 13), (b'"', b'"'), (b'\'', b'\''), (b'\\', b'\\')]
	{
		push(cx, &mut be, vec![b'\'', b'\\', e, b'\''], Expect::Num(v as u64));
		push(cx, &mut be, vec![b'"', b'\\', e, b'"'], Expect::Str(vec![v]));
		push(cx, &mut be, vec![b'"', b'a', b'\\', e, b'b', b'"'], Expect::Str(vec![b'a', v, b'b']));
	}
	push(cx, &mut be, b"\"\\0\"".to_vec(), Expect::Str(vec![0]));
	push(cx, &mut be, b"\"\"".to_vec(), Expect::Str(vec![]));
	push(cx, &mut be, b"'''".to_vec(), Expect::Num(39));
	push(cx, &mut be, b"'\"'".to_vec(), Expect::Num(34));
	// a backslash followed by a NON-ASCII scalar is never an escape: every scalar whose low byte is one of the escape letters (or 0, u, x),
	// and random other scalars, in character and in string literals
	{
		let mut bn = Batch{class: "backslash + non-ASCII scalar", cases: Vec::new()};
		let mut scalars: Vec<u32> = Vec::new();
		for low in [b't', b'n', b'r', b'"', b'\'', b'\\', b'0', b'u', b'x'] {for hi in 1..0x1100u32 {scalars.push(hi << 8 | low as u32);}}
		for _ in 0..if thorough {40_000} else {4_000} {scalars.push(random_scalar(&mut rng, 0x80) as u32);}
		for v in scalars
		{
			let Some(c) = char::from_u32(v) else {continue;};
			let raw = utf8(c);
			push(cx, &mut bn, [&b"'\\"[..], &raw, b"'"].concat(), Expect::Reject);
			push(cx, &mut bn, [&b"\"\\"[..], &raw, b"\""].concat(), Expect::Reject);
			if v % 16 == 3 {push(cx, &mut bn, [&b"\"a\\"[..], &raw, b"{41}b\""].concat(), Expect::Reject);}
		}
		flush(cx, &mut bn);
	}
	// every other escape letter is unknown
	for e in 0u8..=127
	{
		if !matches!(e, b't' | b'n' | b'r' | b'"' | b'\'' | b'\\')
		{
			push(cx, &mut be, vec![b'\'', b'\\', e, b'\''], Expect::Reject);
		}
		if !matches!(e, b'0' | b't' | b'n' | b'r' | b'"' | b'\'' | b'\\' | b'u')
		{
			push(cx, &mut be, vec![b'"', b'\\', e, b'"'], Expect::Reject);
			push(cx, &mut be, vec![b'"', b'\\', e, b'x', b'"'], Expect::Reject);
		}
	}
	flush(cx, &mut be);

	// random strings
	let mut br = Batch{class: "random string", cases: Vec::new()};
	let nstr = if cx.thorough() {400_000} else {60_000};
	for _ in 0..nstr
	{
		let n = rng.below(14);
		let (mut src, mut val) = (vec![b'"'], Vec::new());
		for _ in 0..n
		{
			let (s, v) = string_piece(&mut rng);
			src.extend_from_slice(&s);
			val.extend_from_slice(&v);
		}
		src.push(b'"');
		push(cx, &mut br, src, Expect::Str(val));
	}
	flush(cx, &mut br);

	// malformed literals
	let mut bm = Batch{class: "malformed literal", cases: Vec::new()};
	let fixed: &[&[u8]] = &[
		b"\"abc", b"\"", b"\"abc\\", b"\"abc\\\"", b"\"\\", b"\"\\u", b"\"\\u{", b"\"\\u{41", b"\"\\u{41}", b"\"\\u41\"", b"\"\\u\"", b"\"\\ux\"",
		b"'a", b"'", b"'\\", b"'\\n", b"'ab'", b"''", b"'\\u{41}'", b"'\\0'", b"'\\x'", b"'\n'", b"'\r'", b"'\x7f'", b"'\x00'", b"'\\", b"'a\"",
		b"\"a\nb\"", b"\"a\rb\"", b"\"a\x7fb\"", b"\"a\x00b\"", b"\"a\x1bb\"", b"\"\x0b\"", b"\"\x1f\"",
		b"\"\\q\"", b"\"\\x41\"", b"\"\\N\"", b"\"\\U{41}\"", b"\"\\ \"",
		b"\"\\u{D800}\"", b"\"\\u{DFFF}\"", b"\"\\u{dabc}\"", b"\"\\u{110000}\"", b"\"\\u{FFFFFF}\"", b"\"\\u{1000000}\"", b"\"\\u{0000041}\"",
		b"\"\\u{}\"", b"\"\\u{g}\"", b"\"\\u{4G}\"", b"\"\\u{+41}\"", b"\"\\u{-41}\"", b"\"\\u{+}\"", b"\"\\u{ 41}\"", b"\"\\u{41 }\"", b"\"\\u{\xc3\xa9}\"",
		b"0x", b"0b",
	];
	for t in fixed.iter() {push(cx, &mut bm, t.to_vec(), Expect::Reject);}
	for t in [&b"0o"[..], b"0x;", b"0b2", b"0o8", b"0xg", b"0b ", b"0x\n", b"0o\"\"", b"99999999999999999999", b"0xFFFFFFFFFFFFFFFFF", b"0o1000000000000000000000", b"9223372036854775808", b"0x8000000000000000"]
	{
		push(cx, &mut bm, t.to_vec(), Expect::Reject);
	}
	// surrogates and out-of-range values, every one of them for the surrogates
	for v in 0xD800u32..=0xDFFF {push(cx, &mut bm, format!("\"\\u{{{v:x}}}\"").into_bytes(), Expect::Reject);}
	for v in (0x110000u32..=0xFFFFFF).step_by(4099) {push(cx, &mut bm, format!("\"\\u{{{v:x}}}\"").into_bytes(), Expect::Reject);}
	// signed \u for a sample of scalars
	for _ in 0..2000
	{
		let c = random_scalar(&mut rng, 0) as u32;
		if c <= 0xFFFFF {push(cx, &mut bm, format!("\"\\u{{+{c:x}}}\"").into_bytes(), Expect::Reject);}
		push(cx, &mut bm, format!("\"\\u{{-{:x}}}\"", c & 0xFFFFF).into_bytes(), Expect::Reject);
	}
	// raw control characters inside longer strings, missing closing quotes after random content
	for _ in 0..20_000
	{
		let n = 1 + rng.below(8);
		let mut src = vec![b'"'];
		for _ in 0..n {src.extend_from_slice(&string_piece(&mut rng).0);}
		match rng.below(3)
		{
			0 => {},                                               // missing quote
			1 => {let c = loop {let c = rng.below(32) as u8; if c != 9 {break c;}}; src.push(c); src.push(b'"');},
			_ => {src.push(0x7F); src.push(b'"');},
		}
		push(cx, &mut bm, src, Expect::Reject);
	}
	flush(cx, &mut bm);

	for s in [&b"0x7FFFFFFFFFFFFFFF"[..], b"'\xc3\xa9'", b"\"a\\u{1F600}\\n\"", b"\"\\u{+41}\"", b"0x"]
	{
		let lx = real_lex(s);
		cx.report.sample(format!("{} -> {}", String::from_utf8_lossy(s), lx.canon));
	}
}

// ---------------------------------------------------------------------------------------------
// C12

/// (1 + number of LF before `offset`, 1 + number of Unicode scalar values since the last LF); the text
/// up to `offset` is valid UTF-8 by construction and is decoded with `str::chars`
fn position_of(text: &[u8], offset: usize) -> Option<(u32, u32)>
{
	let pre = &text[..offset];
	let line = 1 + pre.iter().filter(|&&b| b == b'\n').count();
	let start = pre.iter().rposition(|&b| b == b'\n').map_or(0, |p| p + 1);
	let s = std::str::from_utf8(&pre[start..]).ok()?;
	Some((line as u32, 1 + s.chars().count() as u32))
}

/// token classes: (source text, kind) — every punctuation token, numbers in four radices, character
/// literals (ASCII, escape, multi-byte), identifiers, strings (plain, escapes, multi-byte, both)
fn token_classes() -> Vec<(Vec<u8>, &'static str)>
{
	let mut v: Vec<(Vec<u8>, &'static str)> = Vec::new();
	for (t, k) in [(",", "sep"), (";", "term"), (":", "labelmark"), (".", "dirmark"), ("+", "plus"), ("-", "minus"), ("*", "mul"), ("/", "div"),
		("%", "mod"), ("!", "not"), ("&", "band"), ("|", "bor"), ("^", "bxor"), ("<<", "shl"), (">>", "shr"), ("(", "lparen"), (")", "rparen"),
		("[", "lbrack"), ("]", "rbrack"), ("{", "lbrace"), ("}", "rbrace"),
		("12345", "num"), ("0", "num"), ("0b1011", "num"), ("0o777", "num"), ("0xDeadBeef", "num"),
		("'a'", "num"), ("'\\n'", "num"), ("'\\''", "num"), ("'\u{e9}'", "num"), ("'\u{1F600}'", "num"), ("'\t'", "num"),
		("x", "id"), ("MOVS", "id"), ("_a.b$c@9", "id"),
		("\"\"", "str"), ("\"plain text\"", "str"), ("\"a\\tb\\\"c\\u{e9}\"", "str"), ("\"h\u{e9}llo \u{1F600}\"", "str"), ("\"\u{20AC}\\n\u{e9}\\u{1F600}\"", "str"), ("\"tab\there\"", "str"),
		// characters whose UTF-8 encodings hit the extremes of the lead and continuation byte ranges (0x80 / 0xBF)
		("'\u{80}'", "num"), ("'\u{BF}'", "num"), ("'\u{FF}'", "num"), ("'\u{7FF}'", "num"), ("'\u{800}'", "num"), ("'\u{FFFD}'", "num"),
		("'\u{FFFF}'", "num"), ("'\u{10000}'", "num"), ("'\u{10FFFF}'", "num"),
		("\"\u{BF}\u{FF}\u{17F}\u{FEFF}\u{FFFD}\u{80}\u{7FF}\u{800}\u{3FFFF}\u{10FFFF}\"", "str")]
	{
		v.push((t.as_bytes().to_vec(), k));
	}
	v
}

/// separator atoms; `true` = starts with `/` (must not directly follow a `/` token)
fn separator_atoms() -> Vec<(Vec<u8>, bool)>
{
	[(" ", false), ("   ", false), ("\t", false), ("\t \t", false), ("\n", false), ("\r\n", false), ("\n\n\n", false), (" \r\n\t", false), ("\r", false), ("\n\r", false), (" \r ", false), ("\r\r\n\r", false),
		("// line comment\n", true), ("//\n", true), ("// h\u{e9}llo \u{1F600} /* not a block\n", true), ("//\t\"'\\\r\n", true),
		("/**/", true), ("/* block */", true), ("/* \u{e9}\u{20AC}\u{1F600} */", true), ("/* line1\nline2 \u{e9}\n\tline3 */", true),
		("/* a /* nested \u{e9} */ b */", true), ("/* /* /* */ */\n */", true), ("/* a /* b */* c */", true), ("/* /* x */ /* y */ */", true), ("/* /*/ */ **/", true), ("/* **/ // z */\n", true), ("/*/ */", true), ("/*\r\n*/", true), ("/* // */", true),
		("/* \" ' */", true), ("/* \u{BF}\u{FF}\u{17F} */", true), ("// \u{FFFD}\u{FEFF}\u{80}\u{7FF}\n", true), ("/* \u{800}\u{FFFF}\n\u{10000}\u{3FFFF}\u{10FFFF} */", true)]
		.iter().map(|(s, b)| (s.as_bytes().to_vec(), *b)).collect()
}

/// the C12 oracle for the tokens: `placed[i]` = (byte offset, kind) of the i-th token of `text`.
/// Element positions (parser) and diagnostic positions (assembler) are checked by other components;
/// they hook in here with the same `text` / `placed` pair.
fn c12_check(cx: &mut Cx, class: &str, text: &[u8], placed: &[(usize, &str)], reply: &str)
{
	let input = format!("pos {} {}", hex(text), placed.iter().map(|(o, _)| o.to_string()).collect::<Vec<_>>().join(","));
	let lx = real_lex(text);
	cx.report.case(Some(&lx.canon));
	cx.report.hit(class);
	cx.report.compare("model.lex.tokens", &input, reply, &lx.canon);
	if let Some(m) = &lx.panic {cx.report.oracle_fail(input, format!("tokenizer panics: {m}")); return;}
	if lx.err.is_some() || lx.toks.len() != placed.len()
	{
		cx.report.oracle_fail(input, format!("{} tokens were written, tokenizer yields: {}", placed.len(), lx.canon));
		return;
	}
	for (i, (t, (o, k))) in lx.toks.iter().zip(placed.iter()).enumerate()
	{
		let want = position_of(text, *o).expect("generated text is valid UTF-8");
		if (t.line, t.col) != want || (!k.is_empty() && t.kind != *k)
		{
			cx.report.oracle_fail(input, format!("token {i} ({k}) was written at byte offset {o} = line {} column {}, tokenizer reports {} at {}:{}", want.0, want.1, t.kind, t.line, t.col));
			return;
		}
	}
	// the end position is the position after the whole text
	let want = position_of(text, text.len()).expect("generated text is valid UTF-8");
	if lx.end != want
	{
		cx.report.oracle_fail(input, format!("end of text is line {} column {}, tokenizer reports {}:{}", want.0, want.1, lx.end.0, lx.end.1));
	}
}

struct PosBatch
{
	class: &'static str,
	cases: Vec<(Vec<u8>, Vec<(usize, &'static str)>)>,
}

fn pos_flush(cx: &mut Cx, b: &mut PosBatch)
{
	if b.cases.is_empty() {return;}
	let lines: Vec<String> = b.cases.iter().map(|(t, _)| format!("lex tok {}", hex(t))).collect();
	let replies = cx.model.ask_many(&lines);
	let cases = std::mem::take(&mut b.cases);
	for ((t, p), r) in cases.iter().zip(replies.iter()) {c12_check(cx, b.class, t, p, r);}
}

/// append separator `sep` after a token of kind `prev`; a separator starting with `/` directly after a `/`
/// token would form `//`, so a space is put between
fn push_sep(text: &mut Vec<u8>, prev: &str, sep: &(Vec<u8>, bool))
{
	if prev == "div" && sep.1 {text.push(b' ');}
	text.extend_from_slice(&sep.0);
}

// clones (`clone <hex> <k> <p>`): a `Tokenizer` / `Parser` cloned after `k` items (and `p` tokens of look-ahead) reports, from
// there on, exactly the items the original reports — positions included
fn parser_items(p: &mut trion::text::parse::Parser, cap: usize) -> Vec<String>
{
	use trion::text::parse::ElementValue;
	let mut out = Vec::new();
	for el in p.by_ref().take(cap)
	{
		match el
		{
			Ok(e) => out.push(format!("{} {} {}", e.line, e.col, match &e.value
			{
				ElementValue::Label(n) => format!("L {}", hex(n.as_bytes())),
				ElementValue::Directive{name, args} => format!("D {} {}", hex(name.as_bytes()), args.len()),
				ElementValue::Instruction{name, args} => format!("I {} {}", hex(name.as_bytes()), args.len()),
			})),
			Err(e) => {out.push(format!("E {} {}", e.line, e.col)); break;},
		}
	}
	out
}

fn check_clone(cx: &mut Cx, bytes: &[u8], k: usize, p: usize)
{
	let input = format!("clone {} {k} {p}", hex(bytes));
	let r = guarded(||
	{
		let cap = bytes.len() + 2;
		// tokenizer
		let mut tk = Tokenizer::new(bytes);
		for _ in 0..k {if tk.next().is_none() {break;}}
		if p == 1 {let _ = tk.peek();}
		if p > 1 {let _ = tk.peek_nth(p); let _ = tk.peek();}
		let mut copy = tk.clone();
		let pos_same = (copy.get_line(), copy.get_column()) == (tk.get_line(), tk.get_column());
		let drain = |t: &mut Tokenizer| -> Vec<String>
		{
			let mut v = Vec::new();
			for x in t.by_ref().take(cap) {let e = x.is_err(); v.push(show_item(Some(x.as_ref()))); if e {break;}}
			v.push(format!("end {} {}", t.get_line(), t.get_column()));
			v
		};
		let (a, b) = (drain(&mut tk), drain(&mut copy));
		// parser
		let mut pa = trion::text::parse::Parser::new(bytes);
		let _ = parser_items(&mut pa, k);
		let mut pc = pa.clone();
		let (c, d) = (parser_items(&mut pa, cap), parser_items(&mut pc, cap));
		(pos_same, a, b, c, d)
	});
	cx.report.case(Some(&input));
	cx.report.hit("clone of tokenizer and parser");
	match r
	{
		Err(m) => cx.report.oracle_fail(input, format!("panic: {m}")),
		Ok((pos_same, a, b, c, d)) =>
		{
			if !pos_same {cx.report.oracle_fail(input.clone(), "the clone of the tokenizer reports another current line/column than the original");}
			if a != b
			{
				let i = a.iter().zip(b.iter()).position(|(x, y)| x != y).unwrap_or(a.len().min(b.len()));
				cx.report.oracle_fail(input.clone(), format!("after {k} tokens the original continues with {:?}, its clone with {:?} (item {i} after the clone)", a.get(i), b.get(i)));
			}
			if c != d
			{
				let i = c.iter().zip(d.iter()).position(|(x, y)| x != y).unwrap_or(c.len().min(d.len()));
				cx.report.oracle_fail(input, format!("after {k} statements the original parser continues with {:?}, its clone with {:?}", c.get(i), d.get(i)));
			}
		},
	}
}

fn clone_section(cx: &mut Cx, rng: &mut Rng)
{
	let fixed: [&[u8]; 5] = [b"start:\n\tMOVS R0, 1; // c\nloop: .du8 \"s;\\n\", 2;\n  B loop;\n",
		"a: /* \u{e9}\u{20ac}\n \u{1F600} */ NOP; b:\r\n\tNOP;".as_bytes(), b".dstr \"multi\nline\"; x: .du32 'q' + 1;\n\n\nend:",
		b"x: y: z:\nNOP;NOP;\n\tNOP", b"MOVS R0, (1 +\n 2) * 3;\n?"];
	let cr: [&[u8]; 2] = [b"a:\rNOP; \r b:\n\r.du8 1;\r\r\nc:", b"\r\rx: \r MOVS R0,\r1;\n\r\ty:"];
	for f in cr {for k in 0..7 {for p in 0..3 {check_clone(cx, f, k, p);}}}
	for f in fixed {for k in 0..9 {for p in 0..3 {check_clone(cx, f, k, p);}}}
	let n = if cx.thorough() {40_000} else {6_000};
	for _ in 0..n
	{
		let bytes = random_input(rng);
		let bytes = if bytes.len() > 120 {bytes[..120].to_vec()} else {bytes};
		check_clone(cx, &bytes, rng.below(10) as usize, rng.below(4) as usize);
	}
}

// element positions (`elems <hex> <offset,…>`): every statement the parser yields carries the position of its FIRST character — for a
// directive that is the mark `.`, whatever separator text stands between the mark and the directive name
fn check_elements(cx: &mut Cx, text: &[u8], offsets: &[usize])
{
	let input = format!("elems {} {}", hex(text), offsets.iter().map(|o| o.to_string()).collect::<Vec<_>>().join(","));
	let want: Vec<(u32, u32)> = offsets.iter().filter_map(|o| position_of(text, *o)).collect();
	let r = guarded(||
	{
		let mut v = Vec::new();
		for el in trion::text::parse::Parser::new(text).take(text.len() + 2)
		{
			match el {Ok(e) => v.push(Ok((e.line, e.col))), Err(e) => {v.push(Err((e.line, e.col))); break;}}
		}
		v
	});
	cx.report.case(Some(&input));
	cx.report.hit("element positions");
	match r
	{
		Err(p) => cx.report.oracle_fail(input, format!("parser panics: {p}")),
		Ok(got) =>
		{
			let got_ok: Vec<(u32, u32)> = got.iter().filter_map(|x| x.ok()).collect();
			if got.iter().any(|x| x.is_err()) || got_ok != want
			{
				let k = got_ok.iter().zip(want.iter()).position(|(a, b)| a != b).unwrap_or(got_ok.len().min(want.len()));
				cx.report.oracle_fail(input, format!("statement {} starts at {:?} (line, column), the parser reports {:?} (all: {got:?})", k + 1, want.get(k), got.get(k)));
			}
		},
	}
}

fn element_positions(cx: &mut Cx, rng: &mut Rng)
{
	let seps: [&str; 12] = [" ", "\n", "\t", "\r\n", "  ", " // c\n", " /* \u{e9}\u{20ac} */ ", "/* a\n b */", "\n\n", "/**/", " /* /* n */ */ ", "\n\t// \u{1F600}\n"];
	let seps: Vec<&str> = seps.iter().copied().chain(["\r", "\n\r", " \r ", "/* \r */\r"]).collect();
	let inner: [&str; 9] = ["", "", " ", "\t", "/* c */", "\r\n", "\n", " /* \u{e9} */ ", "/*\n*/"];
	let n = if cx.thorough() {60_000} else {6_000};
	for _ in 0..n
	{
		let mut text = String::new();
		let mut offs = Vec::new();
		for _ in 0..rng.below(3) {text.push_str(*rng.pick(&seps));}
		for k in 0..1 + rng.below(6)
		{
			offs.push(text.len());
			match rng.below(6)
			{
				0 => text.push_str(&format!("lab{k}:")),
				1 | 2 | 3 =>
				{
					// directive: mark, separator text, name, arguments
					text.push('.');
					text.push_str(*rng.pick(&inner));
					text.push_str(*rng.pick(&["du8", "addr", "const", "dstr", "x9", "align"]));
					text.push_str(*rng.pick(&[" 1", " x + 2", " \"s;\"", "", " a, 5", "\n0x10", " [R0 + 4]"]));
					text.push_str(*rng.pick(&[";", " ;", "\n;"]));
				},
				_ =>
				{
					text.push_str(*rng.pick(&["NOP", "MOVS R0, 1", "B lab0", "LDR R1, [R2 + 4]", "PUSH {R0, LR}"]));
					text.push_str(*rng.pick(&[";", " ;"]));
				},
			}
			for _ in 0..1 + rng.below(2) {text.push_str(*rng.pick(&seps));}
		}
		check_elements(cx, text.as_bytes(), &offs);
	}
}

fn run_c12(cx: &mut Cx)
{
	cx.report.rule = "every ordered pair of token classes (41 x 41: all punctuation, four radices, character literals incl. multi-byte, identifiers, \
strings with escapes and multi-byte characters) separated by every separator atom (spaces, tabs, LF, CRLF, line comments, nested / multi-line / multi-byte \
block comments), once at the start of the text and once after a leading separator; plus random token sequences (2-12 tokens, 1-3 separator atoms between). \
Oracle: (line, col) of each token = (1 + LF count, 1 + chars().count() since the last LF) of the byte offset at which it was written; the same for the \
end position; the spec Pos.of is compared with that oracle too. non-trivial = every case".to_owned();
	if let Some(input) = cx.replay.clone()
	{
		match input.split(' ').collect::<Vec<_>>().as_slice()
		{
			["pos", h, offs] if unhex(h).is_some() =>
			{
				let bytes = unhex(h).unwrap();
				let placed: Vec<(usize, &str)> = offs.split(',').filter(|s| !s.is_empty()).filter_map(|s| s.parse().ok()).filter(|&o: &usize| o <= bytes.len()).map(|o| (o, "")).collect();
				let reply = cx.model.ask(&format!("lex tok {}", hex(&bytes)));
				c12_check(cx, "replay", &bytes, &placed, &reply);
			},
			["elems", h, offs] if unhex(h).is_some() =>
			{
				check_elements(cx, &unhex(h).unwrap(), &offs.split(',').filter_map(|o| o.parse().ok()).collect::<Vec<usize>>());
			},
			["clone", h, k, p] if unhex(h).is_some() && k.parse::<usize>().is_ok() && p.parse::<usize>().is_ok() =>
			{
				check_clone(cx, &unhex(h).unwrap(), k.parse().unwrap(), p.parse().unwrap());
			},
			_ => cx.report.oracle_fail(input.clone(), "unrecognised replay input"),
		}
		return;
	}
	let classes = token_classes();
	let atoms = separator_atoms();
	let mut rng = cx.rng.fork();
	clone_section(cx, &mut rng);
	element_positions(cx, &mut rng);

	let mut b = PosBatch{class: "token pair x separator", cases: Vec::new()};
	for (ta, ka) in classes.iter()
	{
		for (tb, kb) in classes.iter()
		{
			for (si, sep) in atoms.iter().enumerate()
			{
				for lead in 0..2
				{
					let mut text = Vec::new();
					if lead == 1 {text.extend_from_slice(&atoms[(si * 7 + 3) % atoms.len()].0);}
					let oa = text.len();
					text.extend_from_slice(ta);
					push_sep(&mut text, ka, sep);
					let ob = text.len();
					text.extend_from_slice(tb);
					if rng.chance(1, 3) {let s = rng.pick(&atoms).clone(); push_sep(&mut text, kb, &s);}
					b.cases.push((text, vec![(oa, *ka), (ob, *kb)]));
				}
			}
			if b.cases.len() >= 16384 {pos_flush(cx, &mut b);}
		}
	}
	pos_flush(cx, &mut b);
	cx.report.notes.push(format!("all {} x {} ordered token-class pairs x {} separator atoms x 2 leading contexts enumerated", classes.len(), classes.len(), atoms.len()));

	let mut b = PosBatch{class: "random token sequence", cases: Vec::new()};
	let nseq = if cx.thorough() {300_000} else {40_000};
	let mut spec_checks: Vec<(Vec<u8>, usize)> = Vec::new();
	for i in 0..nseq
	{
		let n = 2 + rng.below(11);
		let mut text = Vec::new();
		let mut placed = Vec::new();
		let mut prev = "";
		if rng.chance(1, 2) {for _ in 0..1 + rng.below(3) {let s = rng.pick(&atoms).clone(); push_sep(&mut text, prev, &s); prev = "";}}
		for _ in 0..n
		{
			let (t, k) = rng.pick(&classes).clone();
			placed.push((text.len(), k));
			text.extend_from_slice(&t);
			prev = k;
			for _ in 0..1 + rng.below(3) {let s = rng.pick(&atoms).clone(); push_sep(&mut text, prev, &s); prev = "";}
		}
		if i % 16 == 0 {let o = placed[rng.below(placed.len() as u64) as usize].0; spec_checks.push((text.clone(), o));}
		b.cases.push((text, placed));
		if b.cases.len() >= 8192 {pos_flush(cx, &mut b);}
	}
	pos_flush(cx, &mut b);

	// the Lean specification Pos.of against the harness oracle
	let lines: Vec<String> = spec_checks.iter().map(|(t, o)| format!("lex pos {}", hex(&t[..*o]))).collect();
	let replies = cx.model.ask_many(&lines);
	for ((t, o), r) in spec_checks.iter().zip(replies.iter())
	{
		let want = position_of(t, *o).unwrap();
		cx.report.cases(1);
		cx.report.compare("model.lex.Pos.of", &format!("pos {} {o}", hex(t)), r, &format!("{} {}", want.0, want.1));
	}
	cx.report.hit_n("Pos.of spec vs oracle", spec_checks.len() as u64);

	for s in ["a /* \u{e9}\n\u{e9} */ 'x'", "\"h\u{e9}\" ;\r\n\t// c\n  MOVS"]
	{
		let lx = real_lex(s.as_bytes());
		cx.report.sample(format!("{s:?} -> {}", lx.canon));
	}
}

pub fn run(id: &str, cx: &mut Cx)
{
	match id
	{
		"C10" => run_c10(cx),
		"C11" => run_c11(cx),
		"C12" => run_c12(cx),
		_ => cx.report.oracle_fail("-", format!("lex component does not know property {id}")),
	}
}
