//! Shared infrastructure of the correspondence harness: PRNG, model process, report, JSON, panic capture.
use std::collections::{BTreeMap, HashSet};
use std::io::{BufRead, BufReader, Write};
use std::panic::{self, AssertUnwindSafe};
use std::process::{Child, ChildStdin, ChildStdout, Command, Stdio};
use std::time::Instant;

/// the compiled driver; `./check` passes its own location through TRION_MODEL_EXE
pub fn model_exe() -> String
{
	std::env::var("TRION_MODEL_EXE").unwrap_or_else(|_| "/verif/lean/.lake/build/bin/trion-model".to_owned())
}

/// SplitMix64: every random choice of a run derives from one state seeded by VERIF_SEED.
#[derive(Clone)]
pub struct Rng(pub u64);

impl Rng
{
	pub fn new(seed: u64) -> Self {Self(seed ^ 0x9E3779B97F4A7C15)}
	pub fn next(&mut self) -> u64
	{
		self.0 = self.0.wrapping_add(0x9E3779B97F4A7C15);
		let mut z = self.0;
		z = (z ^ (z >> 30)).wrapping_mul(0xBF58476D1CE4E5B9);
		z = (z ^ (z >> 27)).wrapping_mul(0x94D049BB133111EB);
		z ^ (z >> 31)
	}
	pub fn below(&mut self, n: u64) -> u64 {if n == 0 {0} else {self.next() % n}}
	pub fn range(&mut self, lo: i64, hi: i64) -> i64 {lo + self.below((hi - lo + 1) as u64) as i64}
	pub fn chance(&mut self, num: u64, den: u64) -> bool {self.below(den) < num}
	pub fn pick<'a, T>(&mut self, xs: &'a [T]) -> &'a T {&xs[self.below(xs.len() as u64) as usize]}
	pub fn fork(&mut self) -> Rng {Rng(self.next())}
}

/// The compiled Lean model behind its line protocol.
pub struct Model
{
	child: Child,
	stdin: Option<ChildStdin>,
	stdout: BufReader<ChildStdout>,
	pub requests: u64,
	/// (request, reply) pairs kept for the interpreter cross-check of the compiled driver (`./check`, step 3c)
	kept: Vec<(String, String)>,
}

/// requests cheap enough (for the compiled driver) to be repeated under the Lean interpreter
const KEEP_MAX_MICROS: u128 = 400;
const KEEP_MAX_LEN: usize = 3000;
const KEEP_CAP: usize = 600;

impl Model
{
	pub fn spawn() -> Self
	{
		let exe = model_exe();
		let mut child = Command::new(&exe).stdin(Stdio::piped()).stdout(Stdio::piped()).spawn()
			.unwrap_or_else(|e| panic!("cannot start the Lean model driver {exe}: {e} (run ./check --setup)"));
		let stdin = child.stdin.take();
		let stdout = BufReader::new(child.stdout.take().unwrap());
		Self{child, stdin, stdout, requests: 0, kept: Vec::new()}
	}

	/// one request, one reply
	pub fn ask(&mut self, line: &str) -> String
	{
		debug_assert!(!line.contains('\n'));
		let w = self.stdin.as_mut().unwrap();
		w.write_all(line.as_bytes()).unwrap();
		w.write_all(b"\n").unwrap();
		w.flush().unwrap();
		self.requests += 1;
		let t0 = Instant::now();
		let mut out = String::new();
		let n = self.stdout.read_line(&mut out).unwrap();
		if n == 0 {panic!("Lean model driver died on request: {line}");}
		while out.ends_with('\n') || out.ends_with('\r') {out.pop();}
		if t0.elapsed().as_micros() < KEEP_MAX_MICROS {self.keep(line, &out);}
		out
	}

	/// deterministic thinning: the first 60 cheap requests of a process, then those whose hash selects them
	fn keep(&mut self, line: &str, reply: &str)
	{
		if line.len() > KEEP_MAX_LEN || reply.len() > KEEP_MAX_LEN || self.kept.len() >= KEEP_CAP {return;}
		if self.kept.len() < 60 || fnv(0xcbf29ce484222325, line.as_bytes()) % 211 == 0
		{
			self.kept.push((line.to_owned(), reply.to_owned()));
		}
	}

	/// many requests; written from a helper thread so that neither pipe can fill up
	pub fn ask_many(&mut self, lines: &[String]) -> Vec<String>
	{
		let mut out = Vec::with_capacity(lines.len());
		let t0 = Instant::now();
		let stdin = self.stdin.take().unwrap();
		let stdout = &mut self.stdout;
		let stdin = std::thread::scope(|s|
		{
			let h = s.spawn(move ||
			{
				let mut w = std::io::BufWriter::with_capacity(1 << 16, stdin);
				for l in lines
				{
					w.write_all(l.as_bytes()).unwrap();
					w.write_all(b"\n").unwrap();
				}
				w.flush().unwrap();
				w.into_inner().unwrap()
			});
			for l in lines
			{
				let mut buf = String::new();
				let n = stdout.read_line(&mut buf).unwrap();
				if n == 0 {panic!("Lean model driver died on request: {l}");}
				while buf.ends_with('\n') || buf.ends_with('\r') {buf.pop();}
				out.push(buf);
			}
			h.join().unwrap()
		});
		self.stdin = Some(stdin);
		self.requests += lines.len() as u64;
		if !lines.is_empty() && t0.elapsed().as_micros() / (lines.len() as u128) < KEEP_MAX_MICROS / 4
		{
			for (l, r) in lines.iter().zip(out.iter())
			{
				if fnv(0xcbf29ce484222325, l.as_bytes()) % 211 == 0 {self.keep(l, r);}
			}
		}
		out
	}
}

impl Model
{
	/// append the kept (request, reply) pairs to $TRION_MODEL_SAMPLES (once)
	pub fn flush_samples(&mut self)
	{
		if let Ok(path) = std::env::var("TRION_MODEL_SAMPLES")
		{
			if let Ok(mut f) = std::fs::OpenOptions::new().create(true).append(true).open(path)
			{
				let mut buf = String::new();
				for (l, r) in &self.kept {buf.push_str(l); buf.push('\t'); buf.push_str(r); buf.push('\n');}
				let _ = f.write_all(buf.as_bytes());
			}
		}
		self.kept.clear();
	}
}

impl Drop for Model
{
	fn drop(&mut self)
	{
		drop(self.stdin.take());
		let _ = self.child.wait();
		self.flush_samples();
	}
}

/// Run `f`, turning a panic of the real code into `Err(message)`.
thread_local! {static QUIET: std::cell::Cell<u32> = std::cell::Cell::new(0);}

pub fn guarded<T>(f: impl FnOnce() -> T) -> Result<T, String>
{
	QUIET.with(|q| q.set(q.get() + 1));
	let r = panic::catch_unwind(AssertUnwindSafe(f));
	QUIET.with(|q| q.set(q.get() - 1));
	match r
	{
		Ok(v) => Ok(v),
		Err(e) =>
		{
			let msg = if let Some(s) = e.downcast_ref::<&str>() {(*s).to_owned()}
			else if let Some(s) = e.downcast_ref::<String>() {s.clone()}
			else {"<non-string panic>".to_owned()};
			Err(msg)
		},
	}
}

/// panics of the code under test (inside `guarded`) are values, not noise; the harness's own panics are printed
pub fn silence_panics()
{
	let default = panic::take_hook();
	panic::set_hook(Box::new(move |info| {if QUIET.with(|q| q.get()) == 0 {default(info);}}));
}

pub fn hex(bytes: &[u8]) -> String
{
	if bytes.is_empty() {return "-".to_owned();}
	let mut s = String::with_capacity(bytes.len() * 2);
	for b in bytes {s.push_str(&format!("{b:02x}"));}
	s
}

pub fn unhex(s: &str) -> Option<Vec<u8>>
{
	if s == "-" || s.is_empty() {return Some(Vec::new());}
	if s.len() % 2 != 0 {return None;}
	(0..s.len() / 2).map(|i| u8::from_str_radix(&s[2 * i..2 * i + 2], 16).ok()).collect()
}

/// 64-bit FNV-1a, identical to `Trion.Driver.fnvStr`
pub const FNV_INIT: u64 = 0xcbf29ce484222325;
pub fn fnv(mut h: u64, data: &[u8]) -> u64
{
	for &b in data {h = (h ^ b as u64).wrapping_mul(0x100000001b3);}
	h
}

pub fn json_str(s: &str) -> String
{
	let mut o = String::with_capacity(s.len() + 2);
	o.push('"');
	for c in s.chars()
	{
		match c
		{
			'"' => o.push_str("\\\""),
			'\\' => o.push_str("\\\\"),
			'\n' => o.push_str("\\n"),
			'\r' => o.push_str("\\r"),
			'\t' => o.push_str("\\t"),
			c if (c as u32) < 0x20 => o.push_str(&format!("\\u{:04x}", c as u32)),
			c => o.push(c),
		}
	}
	o.push('"');
	o
}

#[derive(Clone, Debug)]
pub struct Disagreement
{
	/// which correspondence (model component) this input belongs to, e.g. "model.crc.update"
	pub component: String,
	/// replayable input string (the argument of `harness replay <ID> <input>`)
	pub input: String,
	pub model: String,
	pub implementation: String,
}

#[derive(Clone, Debug)]
pub struct OracleFailure
{
	/// replayable input string
	pub input: String,
	/// what the property demands and what the implementation did
	pub what: String,
}

/// What one harness run covered and found; serialised for `./check`.
pub struct Report
{
	pub property: String,
	pub tier: String,
	pub seed: u64,
	pub rule: String,
	pub evaluations: u64,
	distinct: HashSet<u64>,
	pub samples: Vec<String>,
	pub exhaustive: bool,
	pub histogram: BTreeMap<String, u64>,
	pub disagreements: Vec<Disagreement>,
	pub disagreements_total: u64,
	pub oracle_failures: Vec<OracleFailure>,
	pub oracle_failures_total: u64,
	pub model_requests: u64,
	pub notes: Vec<String>,
	pub start: Instant,
}

pub const MAX_KEPT: usize = 25;

impl Report
{
	pub fn new(property: &str, tier: &str, seed: u64) -> Self
	{
		Self
		{
			property: property.to_owned(), tier: tier.to_owned(), seed, rule: String::new(), evaluations: 0,
			distinct: HashSet::new(), samples: Vec::new(), exhaustive: false, histogram: BTreeMap::new(),
			disagreements: Vec::new(), disagreements_total: 0, oracle_failures: Vec::new(), oracle_failures_total: 0,
			model_requests: 0, notes: Vec::new(), start: Instant::now(),
		}
	}

	/// count one evaluated case; `nontrivial` = Some(canonical outcome) when the case is non-trivial by the rule
	pub fn case(&mut self, nontrivial: Option<&str>)
	{
		self.evaluations += 1;
		if let Some(s) = nontrivial {self.distinct.insert(fnv(FNV_INIT, s.as_bytes()));}
	}

	/// count `n` evaluated cases at once (bulk / digest comparisons)
	pub fn cases(&mut self, n: u64) {self.evaluations += n;}
	pub fn distinct_key(&mut self, key: u64) {self.distinct.insert(key);}

	pub fn hit(&mut self, bucket: &str) {*self.histogram.entry(bucket.to_owned()).or_insert(0) += 1;}
	pub fn hit_n(&mut self, bucket: &str, n: u64) {*self.histogram.entry(bucket.to_owned()).or_insert(0) += n;}

	pub fn sample(&mut self, s: impl Into<String>)
	{
		if self.samples.len() < 12 {self.samples.push(s.into());}
	}

	pub fn disagree(&mut self, component: &str, input: impl Into<String>, model: impl Into<String>, implementation: impl Into<String>)
	{
		self.disagreements_total += 1;
		if self.disagreements.len() < MAX_KEPT
		{
			self.disagreements.push(Disagreement{component: component.to_owned(), input: input.into(), model: model.into(), implementation: implementation.into()});
		}
	}

	pub fn oracle_fail(&mut self, input: impl Into<String>, what: impl Into<String>)
	{
		self.oracle_failures_total += 1;
		// keep the first MAX_KEPT failures PER INPUT CLASS (the leading word of the input, e.g. `alias`, `getgap`, `proj`):
		// the failures of a known finding, which can be many, must never crowd out a failure of another class — `./check`
		// decides known / unknown per kept failure
		let input: String = input.into();
		// class = leading word, plus the trailing word when it is a tag such as `panic` / `panic-inside`
		fn class_of(input: &str) -> String
		{
			let head: String = input.chars().take_while(|c| c.is_ascii_alphanumeric() || *c == '_' || *c == '-').collect();
			let tail = input.rsplit(' ').next().unwrap_or("");
			if tail.len() < 24 && !tail.is_empty() && tail != head && tail.chars().all(|c| c.is_ascii_alphabetic() || c == '-') {format!("{head}|{tail}")} else {head}
		}
		let class = class_of(&input);
		let kept_in_class = self.oracle_failures.iter().filter(|f| class_of(&f.input) == class).count();
		if kept_in_class < MAX_KEPT && self.oracle_failures.len() < 16 * MAX_KEPT
		{
			self.oracle_failures.push(OracleFailure{input, what: what.into()});
		}
	}

	/// compare one model reply with the implementation's canonical output
	pub fn compare(&mut self, component: &str, input: &str, model: &str, implementation: &str) -> bool
	{
		if model != implementation
		{
			self.disagree(component, input, model, implementation);
			false
		}
		else {true}
	}

	pub fn to_json(&self) -> String
	{
		let mut o = String::new();
		o.push_str("{\n");
		o.push_str(&format!(" \"property\": {},\n", json_str(&self.property)));
		o.push_str(&format!(" \"tier\": {},\n", json_str(&self.tier)));
		o.push_str(&format!(" \"seed\": {},\n", self.seed));
		o.push_str(&format!(" \"rule\": {},\n", json_str(&self.rule)));
		o.push_str(&format!(" \"evaluations\": {},\n", self.evaluations));
		o.push_str(&format!(" \"distinct_nontrivial\": {},\n", self.distinct.len()));
		o.push_str(&format!(" \"exhaustive\": {},\n", self.exhaustive));
		o.push_str(&format!(" \"model_requests\": {},\n", self.model_requests));
		o.push_str(&format!(" \"wall_s\": {:.3},\n", self.start.elapsed().as_secs_f64()));
		o.push_str(" \"samples\": [");
		o.push_str(&self.samples.iter().map(|s| json_str(s)).collect::<Vec<_>>().join(", "));
		o.push_str("],\n \"histogram\": {");
		o.push_str(&self.histogram.iter().map(|(k, v)| format!("{}: {}", json_str(k), v)).collect::<Vec<_>>().join(", "));
		o.push_str("},\n \"notes\": [");
		o.push_str(&self.notes.iter().map(|s| json_str(s)).collect::<Vec<_>>().join(", "));
		o.push_str(&format!("],\n \"disagreements_total\": {},\n \"disagreements\": [", self.disagreements_total));
		o.push_str(&self.disagreements.iter().map(|d| format!("{{\"component\": {}, \"input\": {}, \"model\": {}, \"implementation\": {}}}",
			json_str(&d.component), json_str(&d.input), json_str(&d.model), json_str(&d.implementation))).collect::<Vec<_>>().join(", "));
		o.push_str(&format!("],\n \"oracle_failures_total\": {},\n \"oracle_failures\": [", self.oracle_failures_total));
		o.push_str(&self.oracle_failures.iter().map(|d| format!("{{\"input\": {}, \"what\": {}}}", json_str(&d.input), json_str(&d.what))).collect::<Vec<_>>().join(", "));
		o.push_str("]\n}\n");
		o
	}
}

/// Context handed to every component.
pub struct Cx
{
	pub tier: String,
	pub seed: u64,
	pub rng: Rng,
	pub model: Model,
	pub report: Report,
	/// replay mode: run only this input
	pub replay: Option<String>,
	/// scratch directory (under /verif/work), removed by ./check afterwards
	pub work: std::path::PathBuf,
}

impl Cx
{
	pub fn thorough(&self) -> bool {self.tier == "thorough"}
}

/// location of the trias / tridas executables built by `./check` from /repo's working tree
pub fn repo_bin(name: &str) -> std::path::PathBuf
{
	// `./check` hands every run private copies of the executables (see build_harness)
	if let Ok(dir) = std::env::var("TRION_BIN_DIR")
	{
		let p = std::path::PathBuf::from(dir).join(name);
		if p.exists() {return p;}
	}
	let root = std::env::var("VERIF_ROOT").unwrap_or_else(|_| "/verif".to_owned());
	std::path::PathBuf::from(root).join("harness/target/repo-bins/release").join(name)
}

/// SYSm numbers of the special registers as the ARMv6-M manual assigns them (B5.2.2/B5.2.3), by variant NAME:
/// the harness never relies on the crate's own numeric conversion of `SystemReg`.
pub const SYSM: [(u8, trion::arm6m::sysreg::SystemReg); 11] = {
	use trion::arm6m::sysreg::SystemReg::*;
	[(0, APSR), (1, IAPSR), (2, EAPSR), (3, XPSR), (5, IPSR), (6, EPSR), (7, IEPSR), (8, MSP), (9, PSP), (16, PRIMASK), (20, CONTROL)]
};

pub fn sysm_of(s: trion::arm6m::sysreg::SystemReg) -> u8
{
	SYSM.iter().find(|(_, v)| *v == s).map(|(n, _)| *n).expect("SystemReg variant not in the architectural table")
}

pub fn sysreg_of(n: u8) -> Option<trion::arm6m::sysreg::SystemReg>
{
	SYSM.iter().find(|(m, _)| *m == n).map(|(_, v)| *v)
}
