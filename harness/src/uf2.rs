//! C16 — correspondence of `trion::uf2::write::Uf2Write` with the Lean model `Trion.Uf2` and the property
//! oracle: an independent UF2 reader written here, checking exactly the statement of C16 on the bytes the
//! real writer leaves in its destination after it has been dropped.
// catch-all arms keep the harness compiling when the crate adds a variant to one of its error enums (the outcome is then `unknown:<Debug>`)
#![allow(unreachable_patterns)]
use std::cell::RefCell;

use trion::uf2::write::{NewError, Uf2Write, WriteError};

use crate::common::*;

#[derive(Clone, Debug)]
pub enum Dst
{
	/// fixed buffer of this length, pre-filled with garbage
	Slice(usize),
	/// vector with this many bytes already in it
	Vector(usize),
}

#[derive(Clone, Debug)]
pub struct Op
{
	pub all: bool,
	pub addr: u32,
	/// the textual form sent to the model (hex / `-` / `#len,a,b`)
	pub text: String,
	pub data: Vec<u8>,
	pub no_flash: bool,
}

#[derive(Clone, Debug)]
pub struct Case
{
	pub fam: Option<u32>,
	pub ps: usize,
	pub al: usize,
	pub dst: Dst,
	pub ops: Vec<Op>,
}

pub fn data_of_text(s: &str) -> Option<Vec<u8>>
{
	if let Some(r) = s.strip_prefix('#')
	{
		let p: Vec<u64> = r.split(',').map(|x| x.parse::<u64>().ok()).collect::<Option<Vec<_>>>()?;
		if p.len() != 3 {return None;}
		Some((0..p[0]).map(|i| ((p[1] + p[2] * i) % 256) as u8).collect())
	}
	else {unhex(s)}
}

impl Case
{
	pub fn text(&self) -> String
	{
		let mut s = String::new();
		match self.fam {None => s.push('-'), Some(f) => s.push_str(&format!("{f:08x}"))}
		s.push_str(&format!(" {} {} ", self.ps, self.al));
		match self.dst {Dst::Slice(c) => s.push_str(&format!("s{c}")), Dst::Vector(p) => s.push_str(&format!("v{p}"))}
		for op in &self.ops
		{
			s.push_str(&format!(" {}:{:08x}:{}:{}", if op.all {'a'} else {'w'}, op.addr, op.text, op.no_flash as u8));
		}
		s
	}

	pub fn parse(s: &str) -> Option<Case>
	{
		let w: Vec<&str> = s.split(' ').filter(|x| !x.is_empty()).collect();
		if w.len() < 4 {return None;}
		let fam = if w[0] == "-" {None} else {Some(u32::from_str_radix(w[0], 16).ok()?)};
		let ps = w[1].parse().ok()?;
		let al = w[2].parse().ok()?;
		let dst = if let Some(c) = w[3].strip_prefix('s') {Dst::Slice(c.parse().ok()?)}
			else if let Some(c) = w[3].strip_prefix('v') {Dst::Vector(c.parse().ok()?)} else {return None;};
		let mut ops = Vec::new();
		for o in &w[4..]
		{
			let p: Vec<&str> = o.split(':').collect();
			if p.len() != 4 {return None;}
			ops.push(Op{all: p[0] == "a", addr: u32::from_str_radix(p[1], 16).ok()?, text: p[2].to_owned(), data: data_of_text(p[2])?, no_flash: p[3] == "1"});
		}
		Some(Case{fam, ps, al, dst, ops})
	}
}

fn garbage(i: usize) -> u8 {(0xA5 ^ (i as u8)).wrapping_add((i >> 8) as u8)}
fn prefill(i: usize) -> u8 {(0x5A ^ (i as u8)).wrapping_mul(3)}

fn show_werr(e: &WriteError) -> String
{
	match e
	{
		WriteError::Overflow{need, have} => format!("err:ovf:{need}:{have}"),
		WriteError::Alignment{len, align} => format!("err:aln:{len}:{align}"),
		WriteError::Address{need, have} => format!("err:adr:{need}:{have}"),
		WriteError::BlockCount{need, have} => format!("err:cnt:{need}:{have}"),
		e => format!("err:unknown:{e:?}"),
	}
}

/// What the real code did: constructor result, per-operation results (a panic ends the list with `PANIC`),
/// and the destination after the writer was dropped.
pub struct Real
{
	pub new: String,
	pub results: Vec<String>,
	pub panicked: bool,
	pub dst: Vec<u8>,
}

pub fn run_real(c: &Case) -> Real
{
	let results = RefCell::new(Vec::new());
	let new = RefCell::new(String::new());
	let mut buf: Vec<u8> = match c.dst
	{
		Dst::Slice(cap) => (0..cap).map(garbage).collect(),
		Dst::Vector(pre) => (0..pre).map(prefill).collect(),
	};
	let r = guarded(||
	{
		let made = match c.dst
		{
			Dst::Slice(..) => Uf2Write::new(c.fam, c.ps, c.al, buf.as_mut_slice()),
			Dst::Vector(..) => Uf2Write::new_vec(c.fam, c.ps, c.al, &mut buf),
		};
		match made
		{
			Err(NewError::BlockSize(b)) => *new.borrow_mut() = format!("new=err:bs:{b}"),
			Err(NewError::Alignment{align, block_size}) => *new.borrow_mut() = format!("new=err:al:{align}:{block_size}"),
			Err(e) => *new.borrow_mut() = format!("new=err:unknown:{e:?}"),
			Ok(mut w) =>
			{
				*new.borrow_mut() = "new=ok".to_owned();
				for op in &c.ops
				{
					let r = if op.all
					{
						match w.write_all(op.addr, &op.data, op.no_flash) {Ok(n) => format!("ok:{n}"), Err(e) => show_werr(&e)}
					}
					else
					{
						match w.write(op.addr, &op.data, op.no_flash) {Ok(()) => "ok:0".to_owned(), Err(e) => show_werr(&e)}
					};
					results.borrow_mut().push(r);
				}
				drop(w);
			},
		}
	});
	let panicked = r.is_err();
	let mut results = results.into_inner();
	if panicked {results.push("PANIC".to_owned());}
	let mut new = new.into_inner();
	if new.is_empty() {new = "new=PANIC".to_owned();}
	Real{new, results, panicked, dst: buf}
}

// ---------------------------------------------------------------------------------------------------------
// the independent reader (oracle side; shares nothing with the crate under test)

#[derive(Clone, Debug)]
pub struct RBlock
{
	pub flags: u32,
	pub addr: u32,
	pub psize: u32,
	pub no: u32,
	pub total: u32,
	pub fam: u32,
	pub data: Vec<u8>,
}

fn le(b: &[u8], o: usize) -> u32 {(b[o] as u32) | (b[o + 1] as u32) << 8 | (b[o + 2] as u32) << 16 | (b[o + 3] as u32) << 24}

/// decode a UF2 byte string; `Err(reason)` if it is not a whole number of well-formed blocks
pub fn read_uf2(bytes: &[u8]) -> Result<Vec<RBlock>, String>
{
	if bytes.len() % 512 != 0 {return Err(format!("length {} is not a multiple of 512", bytes.len()));}
	let mut out = Vec::new();
	for (k, b) in bytes.chunks(512).enumerate()
	{
		if le(b, 0) != 0x0A32_4655 {return Err(format!("block {k}: first magic is {:08x}", le(b, 0)));}
		if le(b, 4) != 0x9E5D_5157 {return Err(format!("block {k}: second magic is {:08x}", le(b, 4)));}
		if le(b, 508) != 0x0AB1_6F30 {return Err(format!("block {k}: final magic is {:08x}", le(b, 508)));}
		if le(b, 16) > 476 {return Err(format!("block {k}: payload size {}", le(b, 16)));}
		out.push(RBlock{flags: le(b, 8), addr: le(b, 12), psize: le(b, 16), no: le(b, 20), total: le(b, 24), fam: le(b, 28), data: b[32..508].to_vec()});
	}
	Ok(out)
}

fn round_up(n: u128, al: u128) -> u128 {if n % al == 0 {n} else {n - n % al + al}}

/// the statement of C16 evaluated on what the implementation produced; returns the first violation
pub fn oracle(c: &Case, real: &Real) -> Result<(), String>
{
	let valid = 1 <= c.ps && c.ps <= 476 && c.al >= 1 && c.ps % c.al == 0;
	if real.new == "new=PANIC" {return Err("constructor panicked".to_owned());}
	if valid != (real.new == "new=ok")
	{
		return Err(format!("configuration (payload {}, alignment {}) is {} but the constructor answered {}", c.ps, c.al, if valid {"valid"} else {"invalid"}, real.new));
	}
	let (start, written) = match c.dst
	{
		Dst::Slice(..) => (0usize, None),
		Dst::Vector(pre) => (pre, Some(real.dst.len())),
	};
	// prefix of a pre-filled vector untouched
	if let Dst::Vector(pre) = c.dst
	{
		if real.dst.len() < pre || (0..pre).any(|i| real.dst[i] != prefill(i)) {return Err("the vector's existing content was modified".to_owned());}
	}
	if !valid
	{
		// a rejected configuration appends nothing
		let untouched = match c.dst
		{
			Dst::Slice(cap) => real.dst.len() == cap && (0..cap).all(|i| real.dst[i] == garbage(i)),
			Dst::Vector(pre) => real.dst.len() == pre,
		};
		return if untouched {Ok(())} else {Err("rejected configuration but the destination changed".to_owned())};
	}
	if real.panicked {return Err(format!("the writer panicked at operation {}", real.results.len() - 1));}
	if real.results.len() != c.ops.len() {return Err("result count".to_owned());}

	// how many blocks each operation claims to have appended
	let mut claimed: Vec<usize> = Vec::new();
	for (op, r) in c.ops.iter().zip(real.results.iter())
	{
		let n = if let Some(n) = r.strip_prefix("ok:")
		{
			if op.all {n.parse::<usize>().unwrap()} else if op.data.is_empty() {0} else {1}
		} else {0};
		claimed.push(n);
	}
	let total: usize = claimed.iter().sum();
	let end = start + 512 * total;
	match written
	{
		Some(len) => if len != end {return Err(format!("vector holds {} bytes after the prefix, accepted writes account for {} blocks", len - start.min(len), total));},
		None =>
		{
			if real.dst.len() < end {return Err("more blocks claimed than the buffer holds".to_owned());}
			// everything beyond the accepted blocks is untouched: a rejected write appended nothing
			if let Some(i) = (end..real.dst.len()).find(|&i| real.dst[i] != garbage(i)) {return Err(format!("byte {i} beyond the {total} accepted blocks was modified"));}
		},
	}
	let blocks = read_uf2(&real.dst[start..end])?;
	for (k, b) in blocks.iter().enumerate()
	{
		if b.no as usize != k {return Err(format!("block {k} carries block number {}", b.no));}
		if b.total as usize != total {return Err(format!("block {k} carries total {} but {} blocks were written", b.total, total));}
		match c.fam
		{
			Some(f) => if b.fam != f || b.flags & 0x2000 == 0 {return Err(format!("block {k}: family flag/id {:08x}/{:08x}, configured {:08x}", b.flags, b.fam, f));},
			None => if b.flags & 0x2000 != 0 || b.fam != 0 {return Err(format!("block {k}: family flag/id present ({:08x}/{:08x}) but none configured", b.flags, b.fam));},
		}
	}
	// per operation
	let mut k = 0usize;
	for (i, op) in c.ops.iter().enumerate()
	{
		let mine = &blocks[k..k + claimed[i]];
		k += claimed[i];
		let ok = real.results[i].starts_with("ok:");
		let len = op.data.len() as u128;
		// rejections demanded by the property
		if !op.all && op.data.len() > c.ps && ok {return Err(format!("op {i}: single block of {} bytes accepted with payload size {}", op.data.len(), c.ps));}
		if !op.all && op.data.len() % c.al != 0 && ok {return Err(format!("op {i}: block length {} not a multiple of the alignment {} accepted", op.data.len(), c.al));}
		if op.all && len > 0 && op.addr as u128 + round_up(len, c.al as u128) > 1u128 << 32 && ok {return Err(format!("op {i}: write past the end of the address space accepted"));}
		if !ok {continue;}
		if op.data.is_empty()
		{
			if !mine.is_empty() {return Err(format!("op {i}: empty write appended a block"));}
			continue;
		}
		let padded = if op.all {round_up(len, c.al as u128)} else {c.ps as u128};
		// image of this write: psize bytes of every block at its target address
		let mut img: std::collections::BTreeMap<u64, u8> = std::collections::BTreeMap::new();
		for b in mine
		{
			let want_flags = (op.no_flash as u32) | if c.fam.is_some() {0x2000} else {0};
			if b.flags != want_flags {return Err(format!("op {i}: flags {:08x}, expected {:08x}", b.flags, want_flags));}
			if b.psize as usize > c.ps {return Err(format!("op {i}: payload size {} exceeds the configured {}", b.psize, c.ps));}
			for j in 0..b.psize as usize
			{
				if img.insert(b.addr as u64 + j as u64, b.data[j]).is_some() {return Err(format!("op {i}: address {:#x} emitted twice", b.addr as u64 + j as u64));}
			}
			if b.data[b.psize as usize..].iter().any(|&x| x != 0) {return Err(format!("op {i}: data area beyond the payload size is not zero"));}
		}
		if img.len() as u128 != padded {return Err(format!("op {i}: {} bytes emitted, expected {} (data {} + padding)", img.len(), padded, len));}
		for j in 0..padded as u64
		{
			let want = if (j as usize) < op.data.len() {op.data[j as usize]} else {0};
			match img.get(&(op.addr as u64 + j))
			{
				Some(&v) if v == want => (),
				other => return Err(format!("op {i}: address {:#x} reads {:?}, expected {:02x}", op.addr as u64 + j, other, want)),
			}
		}
	}
	Ok(())
}

// ---------------------------------------------------------------------------------------------------------

fn check_case(cx: &mut Cx, c: &Case, reply: &str)
{
	let input = c.text();
	let real = run_real(c);
	let mut imp = real.new.clone();
	for r in &real.results {imp.push(' '); imp.push_str(r);}
	let nontrivial = real.new == "new=ok" && real.results.iter().any(|r| r.starts_with("ok:") && r != "ok:0");
	if real.new == "new=ok" && !real.panicked
	{
		// written part of the destination, as the model defines it: from the start position, all accepted blocks
		let start = match c.dst {Dst::Slice(..) => 0, Dst::Vector(pre) => pre};
		let mut blocks = 0usize;
		for (op, r) in c.ops.iter().zip(real.results.iter())
		{
			if let Some(n) = r.strip_prefix("ok:") {blocks += if op.all {n.parse::<usize>().unwrap()} else if op.data.is_empty() {0} else {1};}
		}
		let end = (start + 512 * blocks).min(real.dst.len());
		let out = &real.dst[start.min(end)..end];
		imp.push_str(&format!(" fin=ok len={} fnv={:016x}", out.len(), fnv(FNV_INIT, out)));
	}
	cx.report.case(if nontrivial {Some(&imp)} else {None});
	for r in &real.results {cx.report.hit(&r[..r.len().min(7)]);}
	cx.report.hit(if real.new == "new=ok" {"new ok"} else {"new rejected"});
	if !cx.report.compare("model.uf2.run", &input, reply, &imp) && real.new == "new=ok" && !real.panicked && cx.report.disagreements.len() <= 3
	{
		// locate the first differing byte for the log
		let dump = cx.model.ask(&format!("uf2 dump {input}"));
		if let Some(h) = dump.split(" hex=").nth(1)
		{
			let m = unhex(h).unwrap_or_default();
			let start = match c.dst {Dst::Slice(..) => 0, Dst::Vector(pre) => pre};
			if let Some(i) = (0..m.len()).find(|&i| real.dst.get(start + i) != Some(&m[i]))
			{
				cx.report.notes.push(format!("{input}: first differing output byte at offset {i} (block {}, offset {:#x}): model {:02x}, implementation {:?}", i / 512, i % 512, m[i], real.dst.get(start + i)));
			}
		}
	}
	if let Err(what) = oracle(c, &real) {cx.report.oracle_fail(input, what);}
}

fn gen_data(rng: &mut Rng, len: usize) -> (String, Vec<u8>)
{
	if len == 0 {return ("-".to_owned(), Vec::new());}
	if len <= 48 && rng.chance(1, 2)
	{
		let d: Vec<u8> = (0..len).map(|_| match rng.below(4) {0 => 0, 1 => 0xFF, _ => rng.next() as u8}).collect();
		(hex(&d), d)
	}
	else
	{
		let (a, b) = (rng.below(256), rng.below(256));
		let t = format!("#{len},{a},{b}");
		let d = data_of_text(&t).unwrap();
		(t, d)
	}
}

fn gen_len(rng: &mut Rng, ps: usize, al: usize) -> usize
{
	let ps = ps.min(600).max(1);
	let al = al.min(600).max(1);
	let k = 2 + rng.below(3) as usize;
	let v = match rng.below(16)
	{
		0 => 0,
		1 => 1,
		2 => al,
		3 => al + 1,
		4 => al.saturating_sub(1),
		5 => ps - 1,
		6 => ps,
		7 => ps + 1,
		8 => k * ps - 1,
		9 => k * ps,
		10 => k * ps + 1,
		11 => k * ps + al,
		12 => ps + al,
		13 => (rng.below(4) as usize + 1) * al,
		14 => ps.saturating_sub(al),
		_ => rng.below(3 * ps as u64 + 2) as usize,
	};
	v.min(2000)
}

fn gen_addr(rng: &mut Rng, len: usize, al: usize) -> u32
{
	let al = al.max(1).min(1 << 20);
	let aligned = if len % al == 0 {len} else {len - len % al + al} as u64;
	let top = 1u64 << 32;
	let v: u64 = match rng.below(12)
	{
		0 => 0,
		1 => 1,
		2 => 0x100,
		3 => 0x1000_0000,
		4 => top.saturating_sub(len as u64),
		5 => top.saturating_sub(aligned),
		6 => top.saturating_sub(aligned) + 1,
		7 => top.saturating_sub(aligned).saturating_sub(1),
		8 => top - 1,
		9 => top - 1 - rng.below(1024),
		10 => 0x2000_0000 + rng.below(0x1000) * 4,
		_ => rng.next() & 0xFFFF_FFFF,
	};
	v.min(top - 1) as u32
}

fn gen_ops(rng: &mut Rng, ps: usize, al: usize, n: usize) -> Vec<Op>
{
	(0..n).map(|_|
	{
		let all = rng.chance(3, 5);
		let len = gen_len(rng, ps, al);
		let (text, data) = gen_data(rng, len);
		Op{all, addr: gen_addr(rng, len, al), text, data, no_flash: rng.chance(1, 5)}
	}).collect()
}

/// number of blocks a sequence will need if everything is accepted (only used to aim the capacity)
fn blocks_needed(ps: usize, al: usize, ops: &[Op]) -> usize
{
	if ps == 0 || al == 0 {return 0;}
	ops.iter().map(|op| if op.data.is_empty() {0} else if op.all {let a = round_up(op.data.len() as u128, al as u128) as usize; (a + ps - 1) / ps} else {1}).sum()
}

fn gen_dst(rng: &mut Rng, need: usize) -> Dst
{
	match rng.below(10)
	{
		0 => Dst::Vector(0),
		1 => Dst::Vector(1 + rng.below(40) as usize),
		2 => Dst::Vector(512),
		3 => Dst::Vector(0),
		4 => Dst::Slice(512 * need),
		5 => Dst::Slice((512 * need).saturating_sub(1)),
		6 => Dst::Slice(512 * need + 1 + rng.below(700) as usize),
		7 => Dst::Slice(512 * (rng.below(need as u64 + 1) as usize)),
		8 => Dst::Slice(512 * (rng.below(need as u64 + 1) as usize) + 511),
		_ => Dst::Slice(rng.below(512 * need as u64 + 600) as usize),
	}
}

fn gen_fam(rng: &mut Rng) -> Option<u32>
{
	match rng.below(5)
	{
		0 => None,
		1 => Some(0xE48B_FF56),
		2 => Some(0),
		3 => Some(0xFFFF_FFFF),
		_ => Some(rng.next() as u32),
	}
}

pub fn run(_id: &str, cx: &mut Cx)
{
	cx.report.rule = "configurations: every valid (payload size 1..=476, alignment dividing it) pair, each with generated write sequences, plus all invalid shapes \
(payload 0 / 477.. / usize::MAX, alignment 0 / non-divisor / larger / usize::MAX); operations: write and write_all with lengths {0,1,al-1,al,al+1,ps-1,ps,ps+1,k*ps-1,k*ps,k*ps+1,k*ps+al,random} \
and addresses {0,1,0x100,flash base,2^32-len,2^32-aligned(+-1),2^32-1,random}; destinations: slice (exact / one byte short / larger / partial / arbitrary capacity, pre-filled with garbage) and vector (empty or pre-filled); \
the destination is inspected after the writer is dropped. non-trivial = at least one block appended; distinct = distinct (results, output digest)".to_owned();

	if let Some(input) = cx.replay.clone()
	{
		if let Some(h) = input.strip_prefix("read ")
		{
			let bytes = unhex(h).unwrap_or_default();
			let reply = cx.model.ask(&format!("uf2 read {}", hex(&bytes)));
			let mine = match read_uf2(&bytes) {Ok(bl) => show_blocks(&bl), Err(..) => "none".to_owned()};
			cx.report.case(None);
			cx.report.compare("model.uf2.read", &input, &reply, &mine);
			return;
		}
		match Case::parse(&input)
		{
			Some(c) =>
			{
				let reply = cx.model.ask(&format!("uf2 run {}", c.text()));
				check_case(cx, &c, &reply);
			},
			None => cx.report.oracle_fail(input, "unrecognised replay input"),
		}
		return;
	}

	let mut cases: Vec<Case> = Vec::new();

	// fixed boundary cases
	for text in [
		"e48bff56 256 256 v0 a:10000000:#256,0,1:0 a:10000100:#1,7,0:0",
		"- 16 16 s1024 w:00000000:#32,1,1:0",                       // F20: a block longer than the payload size
		"- 476 4 s1024 w:00000000:#480,1,1:0",                      // F20: used to panic
		"- 476 476 s512 w:ffffffff:#476,1,1:1 w:0:#476,1,1:0",     // single block at the top; second does not fit
		"- 1 1 v0 a:ffffffff:aa:0 a:ffffffff:aabb:0 a:fffffffe:aabb:0",
		"00000000 8 4 v5 a:fffffff8:#5,1,1:0 a:fffffff8:#8,1,1:0 a:fffffff9:#5,1,1:0 a:fffffffc:#5,1,1:0",
		"- 8 4 s0 a:0:01:0 w:0:01020304:0",
		"- 8 4 s511 a:0:01:0 w:0:01020304:0",
		"- 8 4 s512 a:0:#9,0,1:0 a:0:#8,0,1:0 a:0:01:0",
	]
	{
		cases.push(Case::parse(text).expect("fixed case"));
	}

	// all invalid configuration shapes
	let big = [0usize, 477, 478, 512, 1 << 32, usize::MAX / 2 + 1, usize::MAX];
	for &ps in &big
	{
		for &al in &[0usize, 1, 2, ps, usize::MAX]
		{
			for dst in [Dst::Slice(1024), Dst::Vector(3)]
			{
				cases.push(Case{fam: None, ps, al, dst, ops: Vec::new()});
			}
		}
	}
	// payload sizes whose LOW 32 bits look valid (k * 2^32 + s): still invalid, with and without writes that would then be truncated
	for ps in [(1usize << 32) + 1, (1 << 32) + 4, (1 << 32) + 256, (1 << 32) + 476, (1 << 33) + 476, (1 << 33) + 256, (3 << 32) + 64, (1 << 63) + 256, usize::MAX - 0xFFFF_FEFF]
	{
		for al in [1usize, 4, ps, 1 << 32, (1 << 32) + 4]
		{
			for dst in [Dst::Slice(2048), Dst::Vector(5)]
			{
				cases.push(Case{fam: Some(0xE48BFF56), ps, al, dst: dst.clone(), ops: Vec::new()});
				let mk = |all: bool, n: u64| Op{all, addr: 0x1000_0000, text: format!("#{n},7,3"), data: data_of_text(&format!("#{n},7,3")).unwrap(), no_flash: false};
				cases.push(Case{fam: None, ps, al, dst, ops: vec![mk(false, 300), mk(false, 256), mk(true, 100), mk(true, 600)]});
			}
		}
	}
	for ps in [1usize, 2, 6, 255, 256, 475, 476]
	{
		for al in [0usize, ps + 1, 2 * ps, 477, 512, usize::MAX, usize::MAX - 1, 1 << 63, (1 << 32) + ps, 1 << 32]
		{
			cases.push(Case{fam: Some(1), ps, al, dst: Dst::Slice(512), ops: Vec::new()});
			cases.push(Case{fam: None, ps, al, dst: Dst::Vector(0), ops: Vec::new()});
		}
		for al in 2..=ps.min(40)
		{
			if ps % al != 0 {cases.push(Case{fam: None, ps, al, dst: Dst::Slice(512), ops: Vec::new()});}
		}
	}
	let n_invalid = cases.len() as u64;
	cx.report.hit_n("fixed + invalid-configuration cases", n_invalid);

	// every valid configuration
	let reps = if cx.thorough() {12} else {2};
	let mut n_cfg = 0u64;
	for ps in 1..=476usize
	{
		for al in 1..=ps
		{
			if ps % al != 0 {continue;}
			n_cfg += 1;
			for _ in 0..reps
			{
				let nops = 1 + cx.rng.below(4) as usize;
				let ops = gen_ops(&mut cx.rng, ps, al, nops);
				let need = blocks_needed(ps, al, &ops);
				let dst = gen_dst(&mut cx.rng, need);
				cases.push(Case{fam: gen_fam(&mut cx.rng), ps, al, dst, ops});
			}
		}
	}
	cx.report.hit_n("valid configurations (all)", n_cfg);
	// the RP2040 configuration and small payloads get longer histories
	let extra = if cx.thorough() {6000} else {600};
	for i in 0..extra
	{
		let (ps, al) = match i % 4
		{
			0 => (256, 256),
			1 => {let ps = 1 + cx.rng.below(16) as usize; let ds: Vec<usize> = (1..=ps).filter(|d| ps % d == 0).collect(); (ps, *cx.rng.pick(&ds))},
			2 => (476, *cx.rng.pick(&[1usize, 2, 4, 7, 14, 17, 28, 34, 68, 119, 238, 476])),
			_ => {let ps = 1 + cx.rng.below(476) as usize; let ds: Vec<usize> = (1..=ps).filter(|d| ps % d == 0).collect(); (ps, *cx.rng.pick(&ds))},
		};
		let nops = 1 + cx.rng.below(9) as usize;
		let ops = gen_ops(&mut cx.rng, ps, al, nops);
		let need = blocks_needed(ps, al, &ops);
		let dst = gen_dst(&mut cx.rng, need);
		cases.push(Case{fam: gen_fam(&mut cx.rng), ps, al, dst, ops});
	}
	cx.report.exhaustive = false;

	for chunk in cases.chunks(2048)
	{
		let lines: Vec<String> = chunk.iter().map(|c| format!("uf2 run {}", c.text())).collect();
		let replies = cx.model.ask_many(&lines);
		for (c, r) in chunk.iter().zip(replies.iter()) {check_case(cx, c, r);}
	}

	// the Lean reader and the reader of this harness agree on real output (and on damaged copies)
	reader_cross_check(cx);

	cx.report.sample(format!("{} -> {}", cases[0].text(), {let r = run_real(&cases[0]); format!("{} {}", r.new, r.results.join(" "))}));
	cx.report.sample(format!("{} -> {}", cases[1].text(), {let r = run_real(&cases[1]); format!("{} {}", r.new, r.results.join(" "))}));
}

fn show_blocks(bl: &[RBlock]) -> String
{
	let mut s = format!("n={}", bl.len());
	for b in bl
	{
		s.push_str(&format!(" | {:08x} {:08x} {} {} {} {:08x} {}", b.flags, b.addr, b.psize, b.no, b.total, b.fam, hex(&b.data)));
	}
	s
}

fn reader_cross_check(cx: &mut Cx)
{
	let n = if cx.thorough() {400} else {60};
	for i in 0..n
	{
		let ps = 1 + cx.rng.below(476) as usize;
		let ds: Vec<usize> = (1..=ps).filter(|d| ps % d == 0).collect();
		let al = *cx.rng.pick(&ds);
		let ops = gen_ops(&mut cx.rng, ps, al, 2);
		let c = Case{fam: gen_fam(&mut cx.rng), ps, al, dst: Dst::Vector(0), ops};
		let real = run_real(&c);
		let mut bytes = real.dst.clone();
		if bytes.len() > 2048 {bytes.truncate(2048);}
		if i % 3 == 1 && !bytes.is_empty()
		{
			// damage one byte somewhere (magic, size field, or anywhere)
			let at = match cx.rng.below(4) {0 => 0, 1 => 4 + cx.rng.below(4) as usize, 2 => 508 + cx.rng.below(4) as usize, _ => cx.rng.below(bytes.len() as u64) as usize};
			let at = at.min(bytes.len() - 1);
			bytes[at] ^= 1 << cx.rng.below(8);
		}
		if i % 7 == 2 {bytes.pop();}
		let input = format!("read {}", hex(&bytes));
		let reply = cx.model.ask(&format!("uf2 read {}", hex(&bytes)));
		let mine = match read_uf2(&bytes) {Ok(bl) => show_blocks(&bl), Err(..) => "none".to_owned()};
		cx.report.case(None);
		cx.report.hit("reader cross-check");
		cx.report.compare("model.uf2.read", &input, &reply, &mine);
	}
}
