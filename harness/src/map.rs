//! C15 — correspondence of `trion::asm::memory::map::MemoryMap` with the Lean model `Trion.Map` and the
//! property oracle: a `BTreeMap<u32, u8>` shadow dictionary evaluated directly on the implementation.
//!
//! Inputs (replayable): `run <op>;<op>;…` (a whole history on an empty map, see Driver/Map.lean) and
//! `enum <base> <depth> <qdepth> <prefix>` (all histories of length ≤ depth over the 58-op alphabet of the
//! 6-address window at `base` that start with `prefix`).
//!
//! The Lean side has TWO forms of `put` / `remove_range`: the recursive one (`put:` / `rr:` / `map enum`) and the
//! operational, statement-by-statement one with explicit panic sites (`xput:` / `xrr:` / `map enumx`,
//! Model/MapOps.lean). Every exhaustive subtree digest of the real code is compared with BOTH model digests and
//! every random history is sent in both spellings; on the real map `xput` = `put`, `xrr` = `rr`.
// catch-all arms keep the harness compiling when the crate adds a variant to one of its error enums (the outcome is then `unknown:<Debug>`)
#![allow(unreachable_patterns)]
use std::collections::BTreeMap;
use std::sync::atomic::{AtomicUsize, Ordering};
use std::sync::Mutex;

use trion::asm::memory::map::{MemoryMap, PutError, Search};
use trion::asm::memory::MemoryRange;

use crate::common::*;

type Shadow = BTreeMap<u32, u8>;

// ------------------------------------------------------------------------------------------------
// shadow dictionary helpers (the oracle's side)

/// maximal runs of occupied addresses: (first, bytes)
fn runs(sh: &Shadow) -> Vec<(u32, Vec<u8>)>
{
	let mut out: Vec<(u32, Vec<u8>)> = Vec::new();
	for (&a, &b) in sh
	{
		match out.last_mut()
		{
			Some((f, d)) if (*f as u64) + d.len() as u64 == a as u64 => d.push(b),
			_ => out.push((a, vec![b])),
		}
	}
	out
}

fn run_last(r: &(u32, Vec<u8>)) -> u32 {r.0 + (r.1.len() - 1) as u32}

fn fmt_run(r: &(u32, Vec<u8>)) -> String {format!("{:08x} {:08x} {}", r.0, run_last(r), hex(&r.1))}

fn shadow_find(rs: &[(u32, Vec<u8>)], a: u32, mode: Search) -> Option<usize>
{
	if let Some(i) = rs.iter().position(|r| r.0 <= a && a <= run_last(r)) {return Some(i);}
	match mode
	{
		Search::Exact => None,
		Search::Below => rs.iter().rposition(|r| run_last(r) < a),
		Search::Above => rs.iter().position(|r| r.0 > a),
	}
}

// ------------------------------------------------------------------------------------------------
// the real map: canonical text of every operation

fn dump(map: &MemoryMap) -> String
{
	let mut s = String::from("[");
	for (i, (r, d)) in map.iter().enumerate()
	{
		if i > 0 {s.push(',');}
		s.push_str(&format!("{:08x}:{}", r.get_first(), hex(d)));
	}
	s.push(']');
	s
}

fn mode_of(s: &str) -> Option<Search>
{
	match s {"e" => Some(Search::Exact), "b" => Some(Search::Below), "a" => Some(Search::Above), _ => None}
}

fn fmt_range(r: MemoryRange) -> String {format!("{:08x} {:08x}", r.get_first(), r.get_last())}

/// Apply one text op to the real map (under `guarded`) and to the shadow; returns the canonical return
/// text of the implementation and the oracle's complaint, if any.
fn real_op(map: &mut MemoryMap, sh: &mut Shadow, op: &str) -> Result<(String, Option<String>), String>
{
	let w: Vec<&str> = op.split(':').collect();
	let num = |s: &str| s.parse::<u32>().map_err(|_| format!("bad number {s}"));
	match w.as_slice()
	{
		["put" | "xput", a, d] =>
		{
			let (a, d) = (num(a)?, unhex(d).ok_or("bad hex")?);
			let before = dump(map);
			let r = guarded(|| map.put(a, &d));
			let overflow = !d.is_empty() && a as u64 + d.len() as u64 > 1 << 32;
			let mut bad = None;
			let text = match r
			{
				Err(p) => format!("PANIC: {p}"),
				Ok(Ok(n)) =>
				{
					if overflow {bad = Some(format!("put of {} bytes at {a:08x} runs past 0xFFFFFFFF but was accepted", d.len()));}
					else
					{
						let fresh = (0..d.len()).filter(|&k| !sh.contains_key(&(a + k as u32))).count();
						if fresh != n {bad = Some(format!("put returned {n}, but {fresh} previously unoccupied addresses were filled"));}
						for (k, &b) in d.iter().enumerate() {sh.insert(a + k as u32, b);}
					}
					format!("ok {n}")
				},
				Ok(Err(PutError::Overflow{need, have})) =>
				{
					if !overflow {bad = Some(format!("put of {} bytes at {a:08x} fits but was rejected", d.len()));}
					else if dump(map) != before {bad = Some("rejected put changed the map".to_owned());}
					format!("err {need} {have}")
				},
				Ok(Err(e)) => {bad = Some(format!("put refused with an error of a kind the property does not name: {e:?}")); format!("err unknown:{e:?}")},
			};
			Ok((text, bad))
		},
		["rm", a] =>
		{
			let a = num(a)?;
			let rs = runs(sh);
			let want = shadow_find(&rs, a, Search::Exact).map(|i| rs[i].clone());
			let r = guarded(|| map.remove(a));
			let mut bad = None;
			let text = match r
			{
				Err(p) => format!("PANIC: {p}"),
				Ok(None) =>
				{
					if let Some(w) = &want {bad = Some(format!("remove({a:08x}) returned None, dictionary has the run {}", fmt_run(w)));}
					"none".to_owned()
				},
				Ok(Some((r, d))) =>
				{
					let got = format!("{} {}", fmt_range(r), hex(&d));
					match &want
					{
						None => bad = Some(format!("remove({a:08x}) returned {got}, dictionary has nothing there")),
						Some(w) => if fmt_run(w) != got {bad = Some(format!("remove({a:08x}) returned {got}, the run is {}", fmt_run(w)));},
					}
					format!("some {got}")
				},
			};
			if let Some(w) = want {for k in 0..w.1.len() {sh.remove(&(w.0 + k as u32));}}
			Ok((text, bad))
		},
		["rr" | "xrr", lo, hi] =>
		{
			let (lo, hi) = (num(lo)?, num(hi)?);
			let r = guarded(|| map.remove_range(MemoryRange::new(lo, hi)));
			if lo <= hi
			{
				let keys: Vec<u32> = sh.range(lo..=hi).map(|(k, _)| *k).collect();
				for k in keys {sh.remove(&k);}
			}
			let text = match r {Err(p) => if lo > hi {"panic".to_owned()} else {format!("PANIC: {p}")}, Ok(()) => "ok".to_owned()};
			Ok((text, None))
		},
		["clr"] =>
		{
			let r = guarded(|| map.clear());
			sh.clear();
			Ok((match r {Err(p) => format!("PANIC: {p}"), Ok(()) => "ok".to_owned()}, None))
		},
		["find", a, m] =>
		{
			let (a, m) = (num(a)?, mode_of(m).ok_or("bad mode")?);
			let rs = runs(sh);
			let want = shadow_find(&rs, a, m).map(|i| format!("{:08x} {:08x}", rs[i].0, run_last(&rs[i]))).unwrap_or("none".to_owned());
			let text = match guarded(|| map.find(a, m)) {Err(p) => format!("PANIC: {p}"), Ok(None) => "none".to_owned(), Ok(Some(r)) => fmt_range(r)};
			let bad = if text != want {Some(format!("find({a:08x}, {m:?}) = {text}, dictionary says {want}"))} else {None};
			Ok((text, bad))
		},
		["get", a, m] =>
		{
			let (a, m) = (num(a)?, mode_of(m).ok_or("bad mode")?);
			let text = match guarded(|| map.get(a, m).map(|(r, d)| (r, d.to_vec())))
			{
				Err(_) => "panic".to_owned(),
				Ok(None) => "none".to_owned(),
				Ok(Some((r, d))) => format!("{} {}", fmt_range(r), hex(&d)),
			};
			let mut bad = None;
			if m == Search::Exact
			{
				let rs = runs(sh);
				let want = match shadow_find(&rs, a, m)
				{
					None => "none".to_owned(),
					Some(i) => format!("{:08x} {:08x} {}", rs[i].0, run_last(&rs[i]), hex(&rs[i].1[(a - rs[i].0) as usize..])),
				};
				if text != want {bad = Some(format!("get({a:08x}, Exact) = {text}, dictionary says {want}"));}
			}
			Ok((text, bad))
		},
		["cnt"] =>
		{
			let rs = runs(sh);
			let want = format!("{} {}", sh.len().min(u32::MAX as usize), rs.len());
			let text = match guarded(|| map.count()) {Err(p) => format!("PANIC: {p}"), Ok((n, s)) => format!("{n} {s}")};
			let bad = if text != want {Some(format!("count() = {text}, dictionary says {want}"))} else {None};
			Ok((text, bad))
		},
		["cr", lo, hi] =>
		{
			let (lo, hi) = (num(lo)?, num(hi)?);
			if lo > hi
			{
				let r = guarded(|| {MemoryRange::new(lo, hi);});
				return Ok((if r.is_err() {"panic".to_owned()} else {"no-panic".to_owned()}, None));
			}
			let rs = runs(sh);
			let n = sh.range(lo..=hi).count().min(u32::MAX as usize);
			let s = rs.iter().filter(|r| r.0 <= hi && run_last(r) >= lo).count();
			let want = format!("{n} {s}");
			let text = match guarded(|| map.count_range(MemoryRange::new(lo, hi))) {Err(p) => format!("PANIC: {p}"), Ok((n, s)) => format!("{n} {s}")};
			let bad = if text != want {Some(format!("count_range({lo:08x}..={hi:08x}) = {text}, dictionary says {want}"))} else {None};
			Ok((text, bad))
		},
		["ir", lo, hi] =>
		{
			let (lo, hi) = (num(lo)?, num(hi)?);
			if lo > hi
			{
				let r = guarded(|| {MemoryRange::new(lo, hi);});
				return Ok((if r.is_err() {"panic".to_owned()} else {"no-panic".to_owned()}, None));
			}
			let rs = runs(sh);
			let mut items = Vec::new();
			for r in rs.iter().filter(|r| r.0 <= hi && run_last(r) >= lo)
			{
				let f = r.0.max(lo);
				let l = run_last(r).min(hi);
				items.push(format!("{f:08x} {l:08x} {}", hex(&r.1[(f - r.0) as usize..=(l - r.0) as usize])));
			}
			let want = if items.is_empty() {"-".to_owned()} else {items.join(",")};
			let text = match guarded(|| map.iter_range(MemoryRange::new(lo, hi)).map(|(r, d)| format!("{} {}", fmt_range(r), hex(d))).collect::<Vec<_>>())
			{
				Err(p) => format!("PANIC: {p}"),
				Ok(v) => if v.is_empty() {"-".to_owned()} else {v.join(",")},
			};
			let bad = if text != want {Some(format!("iter_range({lo:08x}..={hi:08x}) = {text}, dictionary says {want}"))} else {None};
			Ok((text, bad))
		},
		["len"] => Ok((format!("{}", map.len()), if map.len() != runs(sh).len() {Some("len() differs from the number of runs".to_owned())} else {None})),
		_ => Err(format!("unrecognised op {op}")),
	}
}

/// the state oracle: contents equal the shadow; segments ascending, non-empty, non-overlapping, maximally merged
fn state_oracle(map: &MemoryMap, sh: &Shadow) -> Option<String>
{
	let mut prev_last: Option<u32> = None;
	let mut n = 0usize;
	let mut it = sh.iter();
	for (r, d) in map.iter()
	{
		let (f, l) = (r.get_first(), r.get_last());
		if d.is_empty() {return Some(format!("empty segment at {f:08x}"));}
		if l < f || (l - f) as usize + 1 != d.len() {return Some(format!("segment {f:08x}..{l:08x} holds {} bytes", d.len()));}
		if let Some(p) = prev_last
		{
			if f <= p {return Some(format!("segments not ascending / overlapping at {f:08x}"));}
			if f == p + 1 {return Some(format!("segments {p:08x} and {f:08x} touch but are not merged"));}
		}
		prev_last = Some(l);
		for (k, &b) in d.iter().enumerate()
		{
			match it.next()
			{
				Some((&a, &v)) if a == f + k as u32 && v == b => (),
				other => return Some(format!("map holds {b:02x} at {:08x}, dictionary continues with {other:?}", f + k as u32)),
			}
		}
		n += d.len();
	}
	if n != sh.len() {return Some(format!("map holds {n} bytes, dictionary {}", sh.len()));}
	None
}

// ------------------------------------------------------------------------------------------------
// text histories

fn check_run(cx: &mut Cx, ops: &str, reply: &str)
{
	let input = format!("run {ops}");
	let mut map = MemoryMap::new();
	let mut sh = Shadow::new();
	let mut parts = Vec::new();
	let mut oracle: Option<String> = None;
	for (i, op) in ops.split(';').filter(|s| !s.is_empty()).enumerate()
	{
		match real_op(&mut map, &mut sh, op)
		{
			Err(e) => {cx.report.oracle_fail(input.clone(), format!("malformed op {i}: {e}")); return;},
			Ok((text, bad)) =>
			{
				cx.report.hit(op.split(':').next().unwrap_or("?"));
				let bad = bad.or_else(|| state_oracle(&map, &sh));
				if let (None, Some(b)) = (&oracle, bad) {oracle = Some(format!("after op {i} ({op}): {b}"));}
				parts.push(format!("{text} {}", dump(&map)));
			},
		}
	}
	let imp = parts.join(" | ");
	cx.report.case(Some(&imp));
	if reply != imp
	{
		// name the first differing op
		let (m, r): (Vec<&str>, Vec<&str>) = (reply.split(" | ").collect(), imp.split(" | ").collect());
		let k = (0..m.len().max(r.len())).find(|&k| m.get(k) != r.get(k)).unwrap_or(0);
		let comp = if ops.split(';').any(|o| o.starts_with("xput:") || o.starts_with("xrr:")) {"model.map.run_ops"} else {"model.map.run"};
		cx.report.disagree(comp, input.clone(), format!("op {k}: {}", m.get(k).unwrap_or(&"<missing>")), format!("op {k}: {}", r.get(k).unwrap_or(&"<missing>")));
	}
	if let Some(o) = oracle {cx.report.oracle_fail(input, o);}
}

fn gen_history(rng: &mut Rng, nops: usize) -> String
{
	// a few centres: both ends of the address space and random places
	let mut centres: Vec<u64> = vec![0, 0xFFFF_FFFF];
	for _ in 0..2 {centres.push(rng.below(1 << 32));}
	let kind = rng.below(4);
	let centres: Vec<u64> = match kind {0 => vec![0], 1 => vec![0xFFFF_FFFF], 2 => vec![rng.below(1 << 32)], _ => centres};
	let spread = *rng.pick(&[8u64, 24, 64]);
	let addr = |rng: &mut Rng| -> u32
	{
		if rng.chance(1, 40) {return *rng.pick(&[0u32, 1, 0xFFFF_FFFF, 0xFFFF_FFFE]);}
		let c = *rng.pick(&centres) as i64;
		(c + rng.range(-(spread as i64), spread as i64)).clamp(0, 0xFFFF_FFFF) as u32
	};
	let mut ops = Vec::with_capacity(nops);
	for _ in 0..nops
	{
		let a = addr(rng);
		let b = addr(rng);
		let (lo, hi) = (a.min(b), a.max(b));
		let op = match rng.below(100)
		{
			0..=39 =>
			{
				let n = match rng.below(10) {0 => 0, 1..=6 => rng.below(5), _ => rng.below(20)} as usize;
				let d: Vec<u8> = (0..n).map(|_| rng.next() as u8).collect();
				format!("put:{a}:{}", hex(&d))
			},
			40..=49 => format!("rm:{a}"),
			50..=64 => format!("rr:{lo}:{hi}"),
			65 => "clr".to_owned(),
			66..=77 => format!("find:{a}:{}", rng.pick(&["e", "b", "a"])),
			78..=82 => format!("get:{a}:e"),
			83..=86 => "cnt".to_owned(),
			87..=92 => format!("cr:{lo}:{hi}"),
			93..=98 => format!("ir:{lo}:{hi}"),
			_ => "len".to_owned(),
		};
		ops.push(op);
	}
	ops.join(";")
}

// ------------------------------------------------------------------------------------------------
// exhaustive enumeration (mirrors Driver/Map.lean: applyIdx, hashQueries, enumGo)

#[inline]
fn mix(h: u64, n: u64) -> u64 {(h ^ n).wrapping_mul(0x100000001b3)}

fn mix_bytes(mut h: u64, d: &[u8]) -> u64
{
	h = mix(h, d.len() as u64);
	for &b in d {h = mix(h, b as u64);}
	h
}

fn mix_state(mut h: u64, map: &MemoryMap) -> u64
{
	h = mix(h, map.len() as u64);
	for (r, d) in map.iter() {h = mix_bytes(mix(mix(h, r.get_first() as u64), r.get_last() as u64), d);}
	h
}

fn pairs6() -> Vec<(u32, u32)>
{
	let mut v = Vec::new();
	for lo in 0..6 {for hi in lo..6 {v.push((lo, hi));}}
	v
}

fn data_at(t: usize, n: usize) -> Vec<u8> {(0..n).map(|j| ((16 * (t + 1) + j) % 256) as u8).collect()}

/// text form of alphabet entry `i` at history position `t`
fn op_text(x: bool, base: u32, t: usize, i: usize) -> String
{
	let pfx = if x {"x"} else {""};
	if i < 30 {format!("{pfx}put:{}:{}", base + (i / 5) as u32, hex(&data_at(t, i % 5)))}
	else if i < 36 {format!("rm:{}", base + (i - 30) as u32)}
	else if i < 57 {let p = pairs6()[i - 36]; format!("{pfx}rr:{}:{}", base + p.0, base + p.1)}
	else {"clr".to_owned()}
}

/// the same history with every put / remove_range routed to the operational model
fn to_ops_form(h: &str) -> String
{
	h.split(';').map(|o| if o.starts_with("put:") || o.starts_with("rr:") {format!("x{o}")} else {o.to_owned()}).collect::<Vec<_>>().join(";")
}

fn probes(base: u32) -> Vec<u32>
{
	let mut v = vec![0u32];
	if base > 0 {v.push(base - 1);}
	for k in 0..6 {v.push(base + k);}
	if base as u64 + 6 <= u32::MAX as u64 {v.push(base + 6);}
	v.push(u32::MAX);
	v
}

fn query_ops(base: u32) -> Vec<String>
{
	let pr = probes(base);
	let mut v = Vec::new();
	for &a in &pr
	{
		for m in ["e", "b", "a"] {v.push(format!("find:{a}:{m}"));}
		v.push(format!("get:{a}:e"));
	}
	v.push("cnt".to_owned());
	for &lo in &pr {for &hi in &pr {if lo <= hi {v.push(format!("cr:{lo}:{hi}")); v.push(format!("ir:{lo}:{hi}"));}}}
	v
}

struct Enum<'a>
{
	base: u32,
	depth: usize,
	qd: usize,
	pairs: Vec<(u32, u32)>,
	probes: Vec<u32>,
	nodes: u64,
	queries: u64,
	/// first oracle failure: (path of op indices, message)
	failure: Option<(Vec<usize>, String)>,
	path: Vec<usize>,
	hist: &'a mut [u64; 8],
}

impl<'a> Enum<'a>
{
	fn fail(&mut self, msg: String)
	{
		if self.failure.is_none() {self.failure = Some((self.path.clone(), msg));}
	}

	/// apply alphabet entry `i` at position `t` to the real map and the shadow; hash exactly as the model does; run the oracle
	fn apply(&mut self, t: usize, i: usize, map: &mut MemoryMap, sh: &mut Shadow, mut h: u64) -> u64
	{
		self.nodes += 1;
		let base = self.base;
		if i < 30
		{
			let a = base + (i / 5) as u32;
			let d = data_at(t, i % 5);
			let overflow = !d.is_empty() && a as u64 + d.len() as u64 > 1 << 32;
			let before = if overflow {Some(map.clone())} else {None};
			match guarded(|| map.put(a, &d))
			{
				Err(p) => {h = mix(h, 98); self.fail(format!("put panicked: {p}"));},
				Ok(Ok(n)) =>
				{
					h = mix(mix(h, 1), n as u64);
					if overflow {self.fail("put past 0xFFFFFFFF accepted".to_owned());}
					else
					{
						let fresh = (0..d.len()).filter(|&k| !sh.contains_key(&(a + k as u32))).count();
						if fresh != n {self.fail(format!("put returned {n}, {fresh} addresses were previously unoccupied"));}
						for (k, &b) in d.iter().enumerate() {sh.insert(a + k as u32, b);}
						self.hist[if n == d.len() {0} else if n == 0 {1} else {2}] += 1;
					}
				},
				Ok(Err(PutError::Overflow{need, have})) =>
				{
					h = mix(mix(mix(h, 2), need as u64), have as u64);
					self.hist[3] += 1;
					if !overflow {self.fail("fitting put rejected".to_owned());}
					else if before.map(|b| dump(&b)) != Some(dump(map)) {self.fail("rejected put changed the map".to_owned());}
				},
				Ok(Err(e)) => {h = fnv(mix(h, 97), format!("unknown:{e:?}").as_bytes()); self.fail(format!("put refused with an unknown kind of error: {e:?}"));},
			}
		}
		else if i < 36
		{
			let a = base + (i - 30) as u32;
			let rs = runs(sh);
			let want = shadow_find(&rs, a, Search::Exact).map(|k| rs[k].clone());
			match guarded(|| map.remove(a))
			{
				Err(p) => {h = mix(h, 98); self.fail(format!("remove panicked: {p}"));},
				Ok(None) =>
				{
					h = mix(h, 3);
					if want.is_some() {self.fail(format!("remove({a:08x}) = None but the address is occupied"));}
					self.hist[4] += 1;
				},
				Ok(Some((r, d))) =>
				{
					h = mix_bytes(mix(mix(mix(h, 4), r.get_first() as u64), r.get_last() as u64), &d);
					match &want
					{
						Some(w) if w.0 == r.get_first() && run_last(w) == r.get_last() && w.1 == d => (),
						_ => self.fail(format!("remove({a:08x}) returned {} {}, dictionary run {:?}", fmt_range(r), hex(&d), want)),
					}
					self.hist[5] += 1;
				},
			}
			if let Some(w) = want {for k in 0..w.1.len() {sh.remove(&(w.0 + k as u32));}}
		}
		else if i < 57
		{
			let p = self.pairs[i - 36];
			let (lo, hi) = (base + p.0, base + p.1);
			match guarded(|| map.remove_range(MemoryRange::new(lo, hi)))
			{
				Err(p) => {h = mix(h, 98); self.fail(format!("remove_range panicked: {p}"));},
				Ok(()) => h = mix(h, 5),
			}
			let keys: Vec<u32> = sh.range(lo..=hi).map(|(k, _)| *k).collect();
			for k in keys {sh.remove(&k);}
			self.hist[6] += 1;
		}
		else
		{
			match guarded(|| map.clear())
			{
				Err(p) => {h = mix(h, 98); self.fail(format!("clear panicked: {p}"));},
				Ok(()) => h = mix(h, 6),
			}
			sh.clear();
			self.hist[7] += 1;
		}
		h = mix_state(h, map);
		if let Some(b) = state_oracle(map, sh) {self.fail(b);}
		if t + 1 <= self.qd {h = self.queries(map, sh, h);}
		h
	}

	fn queries(&mut self, map: &MemoryMap, sh: &Shadow, mut h: u64) -> u64
	{
		let rs = runs(sh);
		let pr = self.probes.clone();
		for &a in &pr
		{
			for m in [Search::Exact, Search::Below, Search::Above]
			{
				self.queries += 1;
				let want = shadow_find(&rs, a, m).map(|k| (rs[k].0, run_last(&rs[k])));
				match guarded(|| map.find(a, m))
				{
					Err(p) => {h = mix(h, 98); self.fail(format!("find panicked: {p}"));},
					Ok(None) => {h = mix(h, 10); if want.is_some() {self.fail(format!("find({a:08x},{m:?}) = None, dictionary {want:?}"));}},
					Ok(Some(r)) =>
					{
						h = mix(mix(mix(h, 11), r.get_first() as u64), r.get_last() as u64);
						if want != Some((r.get_first(), r.get_last())) {self.fail(format!("find({a:08x},{m:?}) = {}, dictionary {want:?}", fmt_range(r)));}
					},
				}
			}
			self.queries += 1;
			let want = shadow_find(&rs, a, Search::Exact).map(|k| (rs[k].0, run_last(&rs[k]), rs[k].1[(a - rs[k].0) as usize..].to_vec()));
			match guarded(|| map.get(a, Search::Exact).map(|(r, d)| (r, d.to_vec())))
			{
				Err(p) => {h = mix(h, 98); self.fail(format!("get panicked: {p}"));},
				Ok(None) => {h = mix(h, 12); if want.is_some() {self.fail(format!("get({a:08x},Exact) = None but occupied"));}},
				Ok(Some((r, d))) =>
				{
					h = mix_bytes(mix(mix(mix(h, 13), r.get_first() as u64), r.get_last() as u64), &d);
					if want != Some((r.get_first(), r.get_last(), d.clone())) {self.fail(format!("get({a:08x},Exact) = {} {}, dictionary {want:?}", fmt_range(r), hex(&d)));}
				},
			}
		}
		self.queries += 1;
		match guarded(|| map.count())
		{
			Err(p) => {h = mix(h, 98); self.fail(format!("count panicked: {p}"));},
			Ok((n, s)) =>
			{
				h = mix(mix(mix(h, 14), n as u64), s as u64);
				if n as usize != sh.len() || s != rs.len() {self.fail(format!("count() = ({n},{s}), dictionary ({},{})", sh.len(), rs.len()));}
			},
		}
		for &lo in &pr
		{
			for &hi in &pr
			{
				if lo > hi {continue;}
				self.queries += 2;
				let wn = sh.range(lo..=hi).count();
				let inter: Vec<&(u32, Vec<u8>)> = rs.iter().filter(|r| r.0 <= hi && run_last(r) >= lo).collect();
				match guarded(|| map.count_range(MemoryRange::new(lo, hi)))
				{
					Err(p) => {h = mix(h, 98); self.fail(format!("count_range panicked: {p}"));},
					Ok((n, s)) =>
					{
						h = mix(mix(mix(h, 15), n as u64), s as u64);
						if n as usize != wn || s != inter.len() {self.fail(format!("count_range({lo:08x}..={hi:08x}) = ({n},{s}), dictionary ({wn},{})", inter.len()));}
					},
				}
				match guarded(|| map.iter_range(MemoryRange::new(lo, hi)).map(|(r, d)| (r.get_first(), r.get_last(), d.to_vec())).collect::<Vec<_>>())
				{
					Err(p) => {h = mix(h, 98); self.fail(format!("iter_range panicked: {p}"));},
					Ok(v) =>
					{
						h = mix(mix(h, 16), v.len() as u64);
						for (f, l, d) in &v {h = mix_bytes(mix(mix(h, *f as u64), *l as u64), d);}
						let want: Vec<(u32, u32, Vec<u8>)> = inter.iter().map(|r|
						{
							let (f, l) = (r.0.max(lo), run_last(r).min(hi));
							(f, l, r.1[(f - r.0) as usize..=(l - r.0) as usize].to_vec())
						}).collect();
						if v != want {self.fail(format!("iter_range({lo:08x}..={hi:08x}) = {v:?}, dictionary {want:?}"));}
					},
				}
			}
		}
		h
	}

	fn go(&mut self, t: usize, map: &MemoryMap, sh: &Shadow, mut h: u64) -> u64
	{
		if t >= self.depth {return h;}
		for i in 0..58
		{
			let mut m2 = map.clone();
			let mut s2 = sh.clone();
			self.path.push(i);
			h = self.apply(t, i, &mut m2, &mut s2, h);
			h = self.go(t + 1, &m2, &s2, h);
			self.path.pop();
		}
		h
	}

	fn prefix(&mut self, pre: &[usize]) -> u64
	{
		let mut map = MemoryMap::new();
		let mut sh = Shadow::new();
		let mut h = FNV_INIT;
		for (t, &i) in pre.iter().enumerate()
		{
			self.path.push(i);
			h = self.apply(t, i, &mut map, &mut sh, h);
		}
		self.go(pre.len(), &map, &sh, h)
	}
}

struct EnumOut
{
	digest: u64,
	nodes: u64,
	queries: u64,
	failure: Option<(Vec<usize>, String)>,
	hist: [u64; 8],
}

fn real_enum(base: u32, depth: usize, qd: usize, pre: &[usize]) -> EnumOut
{
	let mut hist = [0u64; 8];
	let mut e = Enum{base, depth, qd, pairs: pairs6(), probes: probes(base), nodes: 0, queries: 0, failure: None, path: Vec::new(), hist: &mut hist};
	let digest = e.prefix(pre);
	let (nodes, queries, failure) = (e.nodes, e.queries, e.failure.take());
	EnumOut{digest, nodes, queries, failure, hist}
}

fn pre_text(pre: &[usize]) -> String
{
	if pre.is_empty() {"-".to_owned()} else {pre.iter().map(|i| i.to_string()).collect::<Vec<_>>().join(",")}
}

/// the history along a path as text ops, with every query after every op of depth ≤ qd
fn path_ops(x: bool, base: u32, qd: usize, path: &[usize]) -> String
{
	let mut v = Vec::new();
	for (t, &i) in path.iter().enumerate()
	{
		v.push(op_text(x, base, t, i));
		if t + 1 <= qd {v.extend(query_ops(base));}
	}
	v.join(";")
}

/// digest mismatch below `pre`: walk down to the first differing node and report it as a text history
fn bisect(cx: &mut Cx, x: bool, base: u32, depth: usize, qd: usize, pre: Vec<usize>)
{
	let mut pre = pre;
	let req = if x {"enumx"} else {"enum"};
	loop
	{
		// does the path itself differ?
		let ops = path_ops(x, base, qd, &pre);
		let reply = cx.model.ask(&format!("map run {ops}"));
		let before = cx.report.disagreements_total;
		check_run(cx, &ops, &reply);
		if cx.report.disagreements_total > before || pre.len() >= depth {break;}
		let mut next = None;
		for i in 0..58
		{
			let mut p = pre.clone();
			p.push(i);
			let m = cx.model.ask(&format!("map {req} {base} {depth} {qd} {}", pre_text(&p)));
			let r = real_enum(base, depth, qd, &p);
			if m != format!("{:016x}", r.digest) {next = Some(p); break;}
		}
		match next {Some(p) => pre = p, None => break}
	}
	if cx.report.disagreements_total == 0
	{
		cx.report.disagree(if x {"model.map.enum_ops"} else {"model.map.enum"}, format!("{req} {base} {depth} {qd} {}", pre_text(&pre)), "digest differs", "no differing text history found");
	}
}

/// `model_digest`: recursive form (`map enum`), `ops_digest`: operational form (`map enumx`)
fn check_enum(cx: &mut Cx, base: u32, depth: usize, qd: usize, pre: &[usize], model_digest: &str, ops_digest: &str, out: EnumOut)
{
	let input = format!("enum {base} {depth} {qd} {}", pre_text(pre));
	cx.report.cases(out.nodes + out.queries);
	cx.report.distinct_key(out.digest);
	for (k, name) in ["put: all new", "put: all overwritten", "put: mixed", "put: overflow rejected", "remove: none", "remove: some", "remove_range", "clear"].iter().enumerate()
	{
		cx.report.hit_n(name, out.hist[k]);
	}
	cx.report.hit_n("enumerated histories (one per node)", out.nodes);
	cx.report.hit_n("enumerated queries", out.queries);
	if let Some((path, msg)) = out.failure
	{
		let ops = path_ops(false, base, qd, &path);
		cx.report.oracle_fail(format!("run {ops}"), format!("window {base:08x}, history {path:?}: {msg}"));
	}
	if model_digest != format!("{:016x}", out.digest)
	{
		let before = cx.report.disagreements_total;
		bisect(cx, false, base, depth, qd, pre.to_vec());
		if cx.report.disagreements_total == before
		{
			cx.report.disagree("model.map.enum", input.clone(), model_digest, format!("{:016x}", out.digest));
		}
	}
	cx.report.hit_n("subtree digests compared with the operational model (putOps / removeRangeOps)", 1);
	if ops_digest != format!("{:016x}", out.digest)
	{
		let before = cx.report.disagreements_total;
		bisect(cx, true, base, depth, qd, pre.to_vec());
		if cx.report.disagreements_total == before
		{
			cx.report.disagree("model.map.enum_ops", format!("enumx {base} {depth} {qd} {}", pre_text(pre)), ops_digest, format!("{:016x}", out.digest));
		}
	}
}

fn exhaustive(cx: &mut Cx, depth: usize, qd: usize)
{
	let bases = [0u32, 0xFFFF_FFFA];
	let tasks: Vec<(u32, usize)> = bases.iter().flat_map(|&b| (0..58).map(move |i| (b, i))).collect();
	let next = AtomicUsize::new(0);
	let results: Mutex<Vec<(u32, usize, String, String, EnumOut)>> = Mutex::new(Vec::new());
	let workers = if depth >= 5 {4} else {2};
	std::thread::scope(|s|
	{
		for _ in 0..workers
		{
			s.spawn(||
			{
				let mut model = Model::spawn();
				loop
				{
					let k = next.fetch_add(1, Ordering::SeqCst);
					if k >= tasks.len() {break;}
					let (base, i) = tasks[k];
					let m = model.ask(&format!("map enum {base} {depth} {qd} {i}"));
					let mx = model.ask(&format!("map enumx {base} {depth} {qd} {i}"));
					let out = real_enum(base, depth, qd, &[i]);
					results.lock().unwrap().push((base, i, m, mx, out));
				}
			});
		}
	});
	let mut results = results.into_inner().unwrap();
	results.sort_by_key(|r| (r.0, r.1));
	cx.model.requests += 2 * results.len() as u64;
	for (base, i, m, mx, out) in results {check_enum(cx, base, depth, qd, &[i], &m, &mx, out);}
}

/// `get` / `get_mut` with Below / Above: for an address INSIDE the located segment the slice starts at that address; for an
/// address in a gap (the located segment lies wholly below / above it) the dictionary still has an answer (that run), so
/// whatever the map returns it must be that run's range with a suffix of its bytes — and it must not panic.
fn getgap(cx: &mut Cx, puts: &[(u32, Vec<u8>)], addr: u32, below: bool, mutable: bool)
{
	let input = format!("getgap {} ; {addr} {} {}", puts.iter().map(|(a, d)| format!("{a}:{}", hex(d))).collect::<Vec<_>>().join(","), if below {"b"} else {"a"}, if mutable {"mut"} else {"ref"});
	let mut map = MemoryMap::new();
	let mut sh: std::collections::BTreeMap<u32, u8> = std::collections::BTreeMap::new();
	for (a, d) in puts
	{
		let _ = map.put(*a, d);
		for (i, b) in d.iter().enumerate() {sh.insert(a + i as u32, *b);}
	}
	// the run of the dictionary at or below / at or above `addr`
	let key = if below {sh.range(..=addr).next_back().map(|(k, _)| *k)} else {sh.range(addr..).next().map(|(k, _)| *k)};
	let run = key.map(|k|
	{
		let mut lo = k;
		while lo > 0 && sh.contains_key(&(lo - 1)) {lo -= 1;}
		let mut hi = k;
		while hi < u32::MAX && sh.contains_key(&(hi + 1)) {hi += 1;}
		(lo, hi, (lo..=hi).map(|a| sh[&a]).collect::<Vec<u8>>())
	});
	let mode = if below {Search::Below} else {Search::Above};
	let got = guarded(|| if mutable {map.get_mut(addr, mode).map(|(r, d)| (r.get_first(), r.get_last(), d.to_vec()))} else {map.get(addr, mode).map(|(r, d)| (r.get_first(), r.get_last(), d.to_vec()))});
	cx.report.cases(1);
	let inside = run.as_ref().is_some_and(|(lo, hi, _)| *lo <= addr && addr <= *hi);
	cx.report.hit(if inside {"get below/above: address inside the located segment"} else if run.is_some() {"get below/above: address in a gap"} else {"get below/above: nothing there"});
	match (got, run)
	{
		(Err(p), _) => cx.report.oracle_fail(format!("{input} panic{}", if inside {"-inside"} else {""}), format!("get{}({addr:#x}, {mode:?}) panicked: {}", if mutable {"_mut"} else {""}, &p[..p.len().min(160)])),
		(Ok(None), None) => (),
		(Ok(None), Some(r)) => cx.report.oracle_fail(input, format!("get({addr:#x}, {mode:?}) = None, the dictionary has the run {:08x}..={:08x}", r.0, r.1)),
		(Ok(Some(g)), None) => cx.report.oracle_fail(input, format!("get({addr:#x}, {mode:?}) = {:08x}..={:08x}, the dictionary has nothing there", g.0, g.1)),
		(Ok(Some((lo, hi, d))), Some((rlo, rhi, rd))) =>
		{
			let want_from = if inside {(addr - rlo) as usize} else {usize::MAX};
			let ok_range = lo == rlo && hi == rhi;
			let ok_data = if inside {d == rd[want_from..]} else {rd.ends_with(&d)};
			if !ok_range || !ok_data
			{
				cx.report.oracle_fail(input, format!("get({addr:#x}, {mode:?}) = {lo:08x}..={hi:08x} {}, the dictionary's run is {rlo:08x}..={rhi:08x} {}", hex(&d), hex(&rd)));
			}
		},
	}
}

/// a `put` whose data runs past 0xFFFFFFFF by a long way: rejected, map unchanged
fn bigput(cx: &mut Cx, addr: u32, len: usize)
{
	let big = vec![0u8; len];
	let input = format!("bigput {addr} {len}");
	let mut map = MemoryMap::new();
	let _ = map.put(0x100, &[1, 2, 3]);
	let before: Vec<(u32, Vec<u8>)> = map.iter().map(|(r, d)| (r.get_first(), d.to_vec())).collect();
	let r = guarded(|| {let r = map.put(addr, &big); (r.is_err(), map.iter().map(|(r, d)| (r.get_first(), d.to_vec())).collect::<Vec<_>>())});
	cx.report.cases(1);
	cx.report.hit("put longer than the remaining address space (>= 2^31 bytes)");
	match r
	{
		Err(p) => cx.report.oracle_fail(input, format!("put panicked: {p}")),
		Ok((rejected, after)) =>
		{
			if !rejected {cx.report.oracle_fail(input, format!("put of {len} bytes at {addr:#x} runs past 0xFFFFFFFF but was accepted"));}
			else if after != before {cx.report.oracle_fail(input, "a rejected put changed the map");}
		},
	}
}

/// a history judged by the dictionary oracle alone (`quiet <ops>`): for histories whose maps are too large to be dumped after every
/// operation — many segments, segments of several KiB
fn check_quiet(cx: &mut Cx, ops: &str)
{
	let input = format!("quiet {ops}");
	let mut map = MemoryMap::new();
	let mut sh = Shadow::new();
	let r = guarded(||
	{
		for (i, op) in ops.split(';').filter(|s| !s.is_empty()).enumerate()
		{
			match real_op(&mut map, &mut sh, op)
			{
				Err(e) => return Some(format!("malformed op {i}: {e}")),
				Ok((_, bad)) => if let Some(b) = bad.or_else(|| state_oracle(&map, &sh)) {return Some(format!("after op {i} ({}): {b}", &op[..op.len().min(60)]));},
			}
		}
		None
	});
	cx.report.cases(ops.split(';').count() as u64);
	match r
	{
		Err(p) => cx.report.oracle_fail(input, format!("panic: {p}")),
		Ok(Some(what)) => cx.report.oracle_fail(input, what),
		Ok(None) => (),
	}
}

/// 20–60 separate segments, then every query and update around every one of them
fn gen_many_segments(rng: &mut Rng) -> String
{
	let n = 20 + rng.below(41) as u32;
	let base: u32 = *rng.pick(&[0u32, 0x1000, 0xFFFF_F000, 0x8000_0000 - 512]);
	let pitch = 12 + rng.below(8) as u32;
	let mut order: Vec<u32> = (0..n).collect();
	for k in (1..order.len()).rev() {let j = rng.below(k as u64 + 1) as usize; order.swap(k, j);}
	let mut ops: Vec<String> = Vec::new();
	for i in &order {let len = 1 + rng.below(8) as usize; ops.push(format!("put:{}:{}", base + i * pitch, hex(&(0..len).map(|_| rng.next() as u8).collect::<Vec<_>>())));}
	ops.push("len".to_owned());
	ops.push("cnt".to_owned());
	let top = base + n * pitch;
	for _ in 0..120
	{
		let a = base.saturating_sub(3) + rng.below((top - base) as u64 + 8) as u32;
		let b = a.saturating_add(rng.below(4 * pitch as u64) as u32);
		ops.push(match rng.below(14)
		{
			0..=4 => format!("find:{a}:{}", rng.pick(&["e", "b", "a"])),
			5 => format!("get:{a}:e"),
			6 | 7 => format!("cr:{a}:{b}"),
			8 | 9 => format!("ir:{a}:{b}"),
			10 => format!("put:{a}:{}", hex(&(0..rng.below(6)).map(|_| rng.next() as u8).collect::<Vec<_>>())),
			11 => format!("rr:{a}:{b}"),
			12 => format!("rm:{a}"),
			_ => "len".to_owned(),
		});
	}
	// all three searches at the edges of every segment position and far outside
	for i in (0..n).step_by(3) {for d in [-1i64, 0, 9] {let a = (base as i64 + (i * pitch) as i64 + d).clamp(0, 0xFFFF_FFFF); for m in ["e", "b", "a"] {ops.push(format!("find:{a}:{m}"));}}}
	for a in [0u32, u32::MAX, base.saturating_sub(1), top.saturating_add(100)] {for m in ["e", "b", "a"] {ops.push(format!("find:{a}:{m}"));}}
	ops.push(format!("cr:0:{}", u32::MAX));
	ops.push(format!("ir:0:{}", u32::MAX));
	ops.join(";")
}

/// segments of 1–5 KiB of non-constant data, cut from the front, the back and the middle (also leaving only a small part)
fn gen_large_segments(rng: &mut Rng) -> String
{
	let mut ops: Vec<String> = Vec::new();
	let base: u32 = *rng.pick(&[0u32, 0x2000_0000, 0xFFFF_0000]);
	for s in 0..1 + rng.below(3) as u32
	{
		let first = base + s * 0x2000;
		let len = 1024 + rng.below(4096) as u32;
		let seed = rng.next();
		ops.push(format!("put:{first}:{}", hex(&(0..len).map(|i| (seed.wrapping_mul(i as u64 + 1) >> 13) as u8 ^ i as u8).collect::<Vec<_>>())));
		let last = first + len - 1;
		for _ in 0..1 + rng.below(3)
		{
			let keep = 1 + rng.below(200) as u32;
			let (lo, hi) = match rng.below(6)
			{
				0 => (first, last - keep),                                   // front cut, a small part kept at the back
				1 => (first.saturating_sub(5), first + 1024 + rng.below(64) as u32),   // front cut of at least 1024 bytes, starting in the gap below
				2 => (first + keep, last),                                    // back cut, a small part kept at the front
				3 => (first + keep, last - keep),                             // middle
				4 => (first + 1024, first + 1024 + rng.below(512) as u32),   // hole
				_ => (first + rng.below(len as u64) as u32, last.saturating_add(rng.below(9) as u32)),
			};
			if lo <= hi {ops.push(format!("rr:{lo}:{hi}"));}
			ops.push(format!("find:{}:e", first + rng.below(len as u64) as u32));
			ops.push(format!("cr:{first}:{last}"));
		}
		if rng.chance(1, 2) {ops.push(format!("put:{}:{}", first + rng.below(len as u64) as u32, hex(&(0..rng.below(1500)).map(|_| rng.next() as u8).collect::<Vec<_>>())));}
	}
	ops.push(format!("ir:0:{}", u32::MAX));
	ops.join(";")
}

pub fn run(_id: &str, cx: &mut Cx)
{
	cx.report.rule = "exhaustive: every history (one per tree node) of put/remove/remove_range/clear of length <= depth over the 58-op alphabet \
(6 put addresses x data lengths 0-4, 6 remove addresses, 21 ranges, clear) of the 6-address windows at 0 and at 2^32-6; after every op return value + \
full iter() dump hashed and compared with the model, state oracle against a BTreeMap shadow; at nodes of depth <= qdepth every find(Exact/Below/Above), \
get(Exact), count, count_range, iter_range over the probe set {0, window-1 .. window+6, 0xFFFFFFFF}. random: 200-op text histories at both ends and random places. \
every subtree digest and every random history is compared with BOTH Lean forms of put / remove_range: the recursive one and the operational statement-by-statement one (putOps / removeRangeOps, explicit panic sites). \
evaluations = ops + queries executed on the real map; non-trivial = every history (return values and dump after every op); distinct = distinct per-subtree digests / distinct history transcripts".to_owned();

	if let Some(input) = cx.replay.clone()
	{
		let w: Vec<&str> = input.splitn(2, ' ').collect();
		match w.as_slice()
		{
			["quiet", ops] => check_quiet(cx, ops),
			["run", ops] =>
			{
				let reply = cx.model.ask(&format!("map run {ops}"));
				check_run(cx, ops, &reply);
			},
			["enum", rest] =>
			{
				let f: Vec<&str> = rest.split(' ').collect();
				if f.len() != 4 {cx.report.oracle_fail(input.clone(), "unrecognised replay input"); return;}
				let (base, depth, qd) = (f[0].parse::<u32>().unwrap(), f[1].parse::<usize>().unwrap(), f[2].parse::<usize>().unwrap());
				let pre: Vec<usize> = if f[3] == "-" {Vec::new()} else {f[3].split(',').map(|s| s.parse().unwrap()).collect()};
				let m = cx.model.ask(&format!("map enum {base} {depth} {qd} {}", f[3]));
				let mx = cx.model.ask(&format!("map enumx {base} {depth} {qd} {}", f[3]));
				let out = real_enum(base, depth, qd, &pre);
				check_enum(cx, base, depth, qd, &pre, &m, &mx, out);
			},
			["enumx", rest] =>
			{
				// replay of an operational-model digest mismatch: same enumeration, both digests are compared again
				let f: Vec<&str> = rest.split(' ').collect();
				if f.len() != 4 {cx.report.oracle_fail(input.clone(), "unrecognised replay input"); return;}
				let (base, depth, qd) = (f[0].parse::<u32>().unwrap(), f[1].parse::<usize>().unwrap(), f[2].parse::<usize>().unwrap());
				let pre: Vec<usize> = if f[3] == "-" {Vec::new()} else {f[3].split(',').map(|s| s.parse().unwrap()).collect()};
				let m = cx.model.ask(&format!("map enum {base} {depth} {qd} {}", f[3]));
				let mx = cx.model.ask(&format!("map enumx {base} {depth} {qd} {}", f[3]));
				let out = real_enum(base, depth, qd, &pre);
				check_enum(cx, base, depth, qd, &pre, &m, &mx, out);
			},
			["getgap", rest] =>
			{
				let parsed = (||
				{
					let (ps, q) = rest.split_once(" ; ")?;
					let puts: Vec<(u32, Vec<u8>)> = ps.split(',').filter(|x| !x.is_empty()).map(|x| {let (a, h) = x.split_once(':')?; Some((a.parse().ok()?, unhex(h)?))}).collect::<Option<_>>()?;
					let f: Vec<&str> = q.split(' ').collect();
					Some((puts, f.first()?.parse::<u32>().ok()?, *f.get(1)? == "b", *f.get(2)? == "mut"))
				})();
				match parsed
				{
					Some((puts, a, below, mutable)) => getgap(cx, &puts, a, below, mutable),
					None => cx.report.oracle_fail(input.clone(), "unrecognised replay input"),
				}
			},
			["bigput", rest] =>
			{
				let f: Vec<&str> = rest.split(' ').collect();
				match (f.first().and_then(|a| a.parse::<u32>().ok()), f.get(1).and_then(|l| l.parse::<usize>().ok()))
				{
					(Some(a), Some(l)) => bigput(cx, a, l),
					_ => cx.report.oracle_fail(input.clone(), "unrecognised replay input"),
				}
			},
			_ => cx.report.oracle_fail(input.clone(), "unrecognised replay input"),
		}
		return;
	}

	// fixed histories: the design-time examples and the boundary cases
	let fixed = [
		"put:4294967295:01;rr:0:5;find:3:a;find:4294967295:e;find:0:b;cnt;get:4294967295:e",
		"put:4294967294:0102;put:4294967294:010203;put:4294967295:0102;cnt;ir:0:4294967295;cr:0:4294967295",
		"put:0:01;put:2:02;put:1:03;find:0:e;rm:1;put:0:;cnt",
		"put:10:0102030405;rr:11:12;put:12:ff;put:11:ee;rm:10;len",
		"put:5:01;put:7:02;put:9:03;put:6:aabbcc;find:4:a;find:4:b;find:10:a;find:10:b;ir:6:8;cr:0:6",
		"rr:5:3;cr:5:3;ir:5:3",
	];
	let fixed: Vec<String> = fixed.iter().map(|f| f.to_string()).chain(fixed.iter().map(|f| to_ops_form(f))).collect();
	let lines: Vec<String> = fixed.iter().map(|f| format!("map run {f}")).collect();
	let replies = cx.model.ask_many(&lines);
	for (f, r) in fixed.iter().zip(replies.iter()) {check_run(cx, f, r);}
	cx.report.sample(format!("run {} -> {}", fixed[0], replies[0]));

	// histories with many segments / with large segments (dictionary oracle only); early, so that their failures are among the ones the report keeps
	{
		let k = if cx.thorough() {2000} else {200};
		for _ in 0..k {let mut r = cx.rng.fork(); let h = gen_many_segments(&mut r); check_quiet(cx, &h);}
		for _ in 0..k {let mut r = cx.rng.fork(); let h = gen_large_segments(&mut r); check_quiet(cx, &h);}
		cx.report.hit_n("histories with 20-60 segments", k);
		cx.report.hit_n("histories with segments of 1-5 KiB cut from the front / back / middle", k);
	}

	// data longer than the whole address space: must be rejected, map unchanged (the zeroed buffer is never touched by a
	// correct `put`, so this costs nothing; lengths of 2^32 and more are only reachable on a 64-bit target)
	// get / get_mut with Below / Above, inside segments and in gaps, at both ends of the address space
	{
		let maps: [Vec<(u32, Vec<u8>)>; 4] = [vec![(10, vec![1, 2, 3])], vec![(0, vec![9]), (5, vec![1, 2]), (9, vec![7, 7, 7])],
			vec![(0xFFFF_FFFD, vec![1, 2, 3]), (0xFFFF_FFF0, vec![5])], vec![]];
		for puts in maps.iter()
		{
			let mut probes: Vec<u32> = vec![0, 1, u32::MAX, u32::MAX - 1];
			for (a, d) in puts {for k in [-2i64, -1, 0, 1, d.len() as i64 - 1, d.len() as i64, d.len() as i64 + 1] {if let Ok(p) = u32::try_from(*a as i64 + k) {probes.push(p);}}}
			probes.sort(); probes.dedup();
			for &p in &probes {for below in [true, false] {for mutable in [false, true] {getgap(cx, puts, p, below, mutable);}}}
		}
	}

	if usize::BITS >= 64
	{
		for (addr, len) in [(0u32, (1usize << 32) + 1), (0x2000_0000, (1 << 32) + 1), (1, 1 << 32), (0xFFFF_FFFF, 1 << 32), (0x8000_0000, (1 << 31) + 1), (0xFFFF_FFFF, 2)]
		{
			bigput(cx, addr, len);
		}
	}

	// exhaustive tier
	let (depth, qd) = if cx.thorough() {(5, 3)} else {(4, 2)};
	exhaustive(cx, depth, qd);
	cx.report.exhaustive = true;
	cx.report.notes.push(format!("exhaustive: all histories of length <= {depth} (queries after every op of depth <= {qd}) in the windows at 0x00000000 and 0xFFFFFFFA"));

	// random long histories
	let nhist = if cx.thorough() {4000} else {400};
	let hs: Vec<String> = (0..nhist).map(|_| {let mut r = cx.rng.fork(); gen_history(&mut r, 200)}).collect();
	cx.report.hit_n("random 200-op histories", nhist);
	// every history a second time with put / remove_range routed to the operational model (xput / xrr)
	let hs: Vec<String> = hs.iter().flat_map(|h| [h.clone(), to_ops_form(h)]).collect();
	cx.report.hit_n("random 200-op histories replayed through the operational model", nhist);
	for chunk in hs.chunks(256)
	{
		let lines: Vec<String> = chunk.iter().map(|h| format!("map run {h}")).collect();
		let replies = cx.model.ask_many(&lines);
		for (h, r) in chunk.iter().zip(replies.iter()) {check_run(cx, h, r);}
	}
	if let Some(h) = hs.first() {cx.report.sample(format!("run {} …", &h[..h.len().min(160)]));}
}
