// every `match` on one of the crate's enums ends in a catch-all arm, so that a NEW variant added to the crate (a harmless
// extension of its API) does not stop the harness from compiling; today those arms are unreachable
#![allow(unreachable_patterns)]
//! Canonical KIND of a diagnostic of the real pipeline, computed from the STRUCTURE of the error value: the recorded
//! `dyn Error` is downcast to the crate's public error enums and the chain of boxed / `source()` errors is walked
//! the same way. No `Display` text is looked at anywhere, so rewording a message (no property speaks about wording)
//! cannot change a kind. The kind strings are those `lean/TrionModel/Driver/Asm.lean` prints (`dir.notenough.du8.1.0`,
//! `dir.apply.addr.addr.segment.occupied.00000100`, …). A value of a type this table does not know is rendered by its
//! derived `Debug` text (variant names and fields — also independent of the wording).
use std::error::Error;

use trion::arm6m::asm::EncodeError;
use trion::arm6m::AsmError;
use trion::asm::constant::Realm;
use trion::asm::directive::addr::AddrError;
use trion::asm::directive::align::AlignError;
use trion::asm::directive::constant::ConstError;
use trion::asm::directive::data::DataError;
use trion::asm::directive::global::GlobalError;
use trion::asm::directive::include::IncludeError;
use trion::asm::directive::DirectiveErrorKind;
use trion::asm::instr::InstrErrorKind;
use trion::asm::memory::map::PutError;
use trion::asm::simplify::{EvalError, OverflowError, SimplifyError};
use trion::asm::{AsmErrorKind, ConstantError, SegmentError};
use trion::text::parse::choice::ArgChoice;
use trion::text::parse::{ArgumentType, ParseErrorKind};
use trion::text::token::TokenErrorKind;
use trion::text::{PosNamed, Positioned};

use crate::common::hex;

type Dyn = dyn Error + 'static;

pub fn ty_name(t: ArgumentType) -> &'static str
{
	match t
	{
		ArgumentType::Constant => "constant", ArgumentType::Identifier => "identifier", ArgumentType::String => "string",
		ArgumentType::Add => "addition", ArgumentType::Negate => "negation", ArgumentType::Subtract => "subtraction",
		ArgumentType::Multiply => "multiplication", ArgumentType::Divide => "division", ArgumentType::Modulo => "modulo",
		ArgumentType::Not => "binary_not", ArgumentType::BitAnd => "binary_and", ArgumentType::BitOr => "binary_or", ArgumentType::BitXor => "binary_xor",
		ArgumentType::LeftShift => "left_shift", ArgumentType::RightShift => "right_shift",
		ArgumentType::Address => "address", ArgumentType::Sequence => "sequence", ArgumentType::Function => "function_call",
		_ => "unknown_type",
	}
}

fn choice_names(c: &ArgChoice) -> String {c.iter().map(ty_name).collect::<Vec<_>>().join("+")}

pub fn realm_name(r: Realm) -> &'static str {match r {Realm::Global => "global", Realm::Local => "local", _ => "unknown_realm"}}

pub fn lex_kind(k: &TokenErrorKind) -> String
{
	match k
	{
		TokenErrorKind::BadUnicode => "bu".to_owned(),
		TokenErrorKind::BlockComment => "bc".to_owned(),
		TokenErrorKind::BadNumber => "bn".to_owned(),
		TokenErrorKind::BadCharacter => "bh".to_owned(),
		TokenErrorKind::BadString => "bs".to_owned(),
		TokenErrorKind::Invalid => "invalid".to_owned(),
		TokenErrorKind::Unexpected(c) => format!("ux{}", *c as u32),
		other => format!("unknown.{other:?}"),
	}
}

pub fn parse_kind(k: &ParseErrorKind) -> String
{
	match k
	{
		ParseErrorKind::Token(t) => format!("parse.tok.{}", lex_kind(&t.value)),
		ParseErrorKind::Expected{expect, have} => format!("parse.exp.{}.{}", hex(expect.as_bytes()), hex(have.as_bytes())),
		other => format!("parse.unknown.{other:?}"),
	}
}

pub fn overflow_kind(o: &OverflowError) -> &'static str
{
	match o
	{
		OverflowError::Negate => "negate", OverflowError::DivideByZero(..) => "divZero", OverflowError::ModuloByZero(..) => "modZero",
		OverflowError::Add{..} => "add", OverflowError::Subtract{..} => "sub", OverflowError::Multiply{..} => "mul", OverflowError::Divide{..} => "div",
		OverflowError::Modulo{..} => "mod", OverflowError::LeftShift{..} => "shl", OverflowError::RightShift{..} => "shr",
		_ => "unknown",
	}
}

pub fn put_kind(e: &PutError) -> String {match e {PutError::Overflow{need, have} => format!("write.{need}.{have}"), other => format!("write.unknown.{other:?}")}}

pub fn seg_kind(e: &SegmentError) -> String
{
	match e
	{
		SegmentError::Write(p) => put_kind(p),
		SegmentError::Occupied(a) => format!("occupied.{a:08x}"),
		SegmentError::Overflow{need, have} => format!("overflow.{need}.{have}"),
		other => format!("unknown.{other:?}"),
	}
}

/// through the wrappers the crate may put around an error value (`Positioned`, `PosNamed`, `Box`)
fn peel<'a>(e: &'a Dyn) -> &'a Dyn
{
	macro_rules! wrapped {($($t:ty),*) => {$(
		if let Some(p) = e.downcast_ref::<Positioned<$t>>() {return &p.value;}
		if let Some(p) = e.downcast_ref::<PosNamed<$t>>() {return &p.value;}
	)*}}
	wrapped!(TokenErrorKind, ParseErrorKind, AsmErrorKind, DirectiveErrorKind, InstrErrorKind, ConstantError);
	e
}

/// the boxed source of `Apply` / `Assemble`, or a label's `ConstantError`
pub fn inner_kind(e: &Dyn) -> String
{
	let e = peel(e);
	if let Some(c) = e.downcast_ref::<ConstantError>()
	{
		return match c
		{
			ConstantError::Reserved(..) => "const.reserved".to_owned(),
			ConstantError::NotFound{realm, ..} => format!("nosuch.{}", realm_name(*realm)),
			ConstantError::Duplicate{realm, ..} => format!("duplicate.{}", realm_name(*realm)),
			ConstantError::Range{min, max, have} => format!("const.range.{min}.{max}.{have}"),
			ConstantError::Alignment{align, have} => format!("const.alignment.{align}.{have}"),
			other => format!("unknown.{other:?}"),
		};
	}
	if let Some(v) = e.downcast_ref::<EvalError>()
	{
		return match v
		{
			EvalError::NoSuchVariable{realm, ..} => format!("nosuch.{}", realm_name(*realm)),
			EvalError::BadType{..} => "eval.badtype".to_owned(),
			EvalError::Overflow(o) => format!("eval.overflow.{}", overflow_kind(o)),
			other => format!("unknown.{other:?}"),
		};
	}
	if let Some(v) = e.downcast_ref::<SimplifyError>()
	{
		return match v
		{
			SimplifyError::BadType{..} => "eval.badtype".to_owned(),
			SimplifyError::Overflow(o) => format!("eval.overflow.{}", overflow_kind(o)),
			other => format!("unknown.{other:?}"),
		};
	}
	if let Some(v) = e.downcast_ref::<AddrError>()
	{
		return match v {AddrError::Range(..) => "addr.range".to_owned(), AddrError::Segment(s) => format!("addr.segment.{}", seg_kind(s)), other => format!("addr.unknown.{other:?}")};
	}
	if let Some(v) = e.downcast_ref::<AlignError>()
	{
		return match v
		{
			AlignError::Inactive => "align.inactive".to_owned(),
			AlignError::Range(v) => format!("align.range.{v}"),
			AlignError::Overflow{need, have} => format!("align.overflow.{need}.{have}"),
			AlignError::Write(s) => format!("align.write.{}", seg_kind(s)),
			other => format!("unknown.{other:?}"),
		};
	}
	if let Some(v) = e.downcast_ref::<ConstError>() {return match v {ConstError::Duplicate(..) => "constdir.duplicate".to_owned(), other => format!("constdir.unknown.{other:?}")};}
	if let Some(v) = e.downcast_ref::<DataError>()
	{
		return match v
		{
			DataError::Inactive => "data.inactive".to_owned(),
			DataError::Range{max, have, ..} => format!("data.range.{max}.{have}"),
			DataError::HexChar{pos, ..} => format!("data.hexchar.{pos}"),
			DataError::HexEof => "data.hexeof".to_owned(),
			DataError::File(..) => "data.file".to_owned(),
			DataError::Write(s) => format!("data.write.{}", seg_kind(s)),
			other => format!("unknown.{other:?}"),
		};
	}
	if let Some(v) = e.downcast_ref::<GlobalError>()
	{
		return match v
		{
			GlobalError::NotFound{realm, ..} => format!("nosuch.{}", realm_name(*realm)),
			GlobalError::Deferred{realm, ..} => format!("global.deferred.{}", realm_name(*realm)),
			GlobalError::Duplicate{realm, ..} => format!("duplicate.{}", realm_name(*realm)),
			other => format!("unknown.{other:?}"),
		};
	}
	if let Some(v) = e.downcast_ref::<IncludeError>()
	{
		return match v
		{
			IncludeError::NoSuchFile{..} => "include.nosuchfile".to_owned(),
			IncludeError::FileRead{..} => "include.fileread".to_owned(),
			IncludeError::AssemblyFailed{..} => "include.failed".to_owned(),
			other => format!("unknown.{other:?}"),
		};
	}
	if let Some(v) = e.downcast_ref::<AsmError>()
	{
		return match v
		{
			AsmError::ValueRange{idx, ..} => format!("asm.valuerange.{idx}"),
			AsmError::NoSuchRegister{idx, ..} => format!("asm.nosuchreg.{idx}"),
			AsmError::Encode(EncodeError::Unrepresentable) => "asm.encode.unrep".to_owned(),
			AsmError::Encode(EncodeError::Overflow{..}) => "asm.encode.overflow".to_owned(),
			AsmError::Write(s) => format!("asm.write.{}", seg_kind(s)),
			other => format!("unknown.{other:?}"),
		};
	}
	if let Some(s) = e.downcast_ref::<SegmentError>() {return format!("segment.{}", seg_kind(s));}
	if let Some(p) = e.downcast_ref::<PutError>() {return format!("put.{}", put_kind(p));}
	format!("?{}", format!("{e:?}").replace(' ', "_"))
}

/// the kind of one recorded diagnostic (`Context::get_errors()[i].value`)
pub fn diag_kind(e: &Dyn) -> String
{
	let e = peel(e);
	if let Some(a) = e.downcast_ref::<AsmErrorKind>()
	{
		return match a {AsmErrorKind::Parse(p) => parse_kind(p), AsmErrorKind::Inactive => "inactive".to_owned(), other => format!("unknown.{other:?}")};
	}
	if let Some(p) = e.downcast_ref::<ParseErrorKind>() {return parse_kind(p);}
	if let Some(d) = e.downcast_ref::<DirectiveErrorKind>()
	{
		return match d
		{
			DirectiveErrorKind::NotFound(..) => "dir.notfound".to_owned(),
			DirectiveErrorKind::TooManyArguments{dir, max, have} => format!("dir.toomany.{dir}.{max}.{have}"),
			DirectiveErrorKind::NotEnoughArguments{dir, need, have} => format!("dir.notenough.{dir}.{need}.{have}"),
			DirectiveErrorKind::ArgumentType{dir, idx, expect, have} => format!("dir.argtype.{dir}.{idx}.{}.{}", choice_names(expect), ty_name(*have)),
			DirectiveErrorKind::Apply{dir, source} => format!("dir.apply.{dir}.{}", inner_kind(source.as_ref())),
			other => format!("unknown.{other:?}"),
		};
	}
	if let Some(i) = e.downcast_ref::<InstrErrorKind>()
	{
		return match i
		{
			InstrErrorKind::NotFound(..) => "instr.notfound".to_owned(),
			InstrErrorKind::TooManyArguments{max, have, ..} => format!("instr.toomany.{max}.{have}"),
			InstrErrorKind::NotEnoughArguments{need, have, ..} => format!("instr.notenough.{need}.{have}"),
			InstrErrorKind::ArgumentType{idx, expect, have, ..} => format!("instr.argtype.{idx}.{}.{}", choice_names(expect), ty_name(*have)),
			InstrErrorKind::Assemble(source) => format!("instr.asm.{}", inner_kind(source.as_ref())),
			other => format!("unknown.{other:?}"),
		};
	}
	format!("label.{}", inner_kind(e))
}

/// the innermost error of a chain (`source()` as far as it goes)
pub fn innermost<'a>(e: &'a Dyn) -> &'a Dyn
{
	let mut cur = e;
	while let Some(s) = cur.source() {cur = s;}
	cur
}

/// structural rendering for failure reports shown to a human: Debug of the value and of its sources
pub fn debug_chain(e: &Dyn) -> String
{
	let mut s = format!("{e:?}");
	let mut cur = e.source();
	while let Some(x) = cur
	{
		s.push_str(" <- ");
		s.push_str(&format!("{x:?}"));
		cur = x.source();
	}
	s
}

// ---------------------------------------------------------------------------------------------------------
// canonical TEXT of an instruction diagnostic for the front-end correspondence (C04 / C19): the strings the Lean driver
// `Driver/Front.lean: diagText` prints. They are rendered HERE from the structure of the error value (variant + fields), so
// the crate's own `Display` wording is not involved; everything outside the instruction errors falls back to `diag_kind`.

fn ty_words(t: ArgumentType) -> String {ty_name(t).replace('_', " ")}

pub fn encode_text(e: &EncodeError) -> String
{
	match e {EncodeError::Unrepresentable => "unrepresentable".to_owned(), EncodeError::Overflow{need, have} => format!("overflow {need} {have}"), other => format!("unknown {other:?}")}
}

fn front_inner(e: &Dyn) -> String
{
	let e = peel(e);
	if let Some(v) = e.downcast_ref::<AsmError>()
	{
		return match v
		{
			AsmError::ValueRange{instr, idx} => format!("argument #{} for {instr} is out of range", idx + 1),
			AsmError::NoSuchRegister{instr, idx, what} => format!("argument #{} for {instr} has invalid register {what:?}", idx + 1),
			AsmError::Encode(x) => format!("could not encode instruction <- {}", encode_text(x)),
			AsmError::Write(SegmentError::Overflow{need, have}) => format!("could not write instruction to segment <- segment overflow (need {need}, capacity {have})"),
			AsmError::Write(s) => format!("could not write instruction to segment <- {}", seg_kind(s)),
			other => format!("unknown.{other:?}"),
		};
	}
	if let Some(c) = e.downcast_ref::<ConstantError>()
	{
		return match c
		{
			ConstantError::Range{min, max, have} => format!("label out of range ({min} to {max}, got {have})"),
			ConstantError::Alignment{align, have} => format!("misaligned label (expect {align}, got {have})"),
			ConstantError::NotFound{name, realm} => format!("no such {} constant {name:?}", realm_name(*realm)),
			other => inner_kind(other),
		};
	}
	if let Some(v) = e.downcast_ref::<EvalError>()
	{
		return match v
		{
			EvalError::NoSuchVariable{name, realm} => format!("no such {} constant {:?}", realm_name(*realm), name.as_ref()),
			EvalError::BadType{kind, op} => format!("{} not supported for {}", ty_words(*op), ty_words(*kind)),
			EvalError::Overflow(o) => format!("arithmetic overflow <- {o:?}"),
			other => format!("unknown.{other:?}"),
		};
	}
	inner_kind(e)
}

pub fn front_text(e: &Dyn) -> String
{
	let e = peel(e);
	if let Some(i) = e.downcast_ref::<InstrErrorKind>()
	{
		return match i
		{
			InstrErrorKind::NotFound(name) => format!("no such instruction {name:?}"),
			InstrErrorKind::TooManyArguments{instr, max, have} => format!("too many arguments for {instr} (max {max}, have {have})"),
			InstrErrorKind::NotEnoughArguments{instr, need, have} => format!("not enough arguments for {instr} (need {need}, have {have})"),
			InstrErrorKind::ArgumentType{instr, idx, expect, have} =>
			{
				let names: Vec<String> = expect.iter().map(ty_words).collect();
				match names.len()
				{
					0 => format!("invalid argument #{} for {instr} (got {})", idx + 1, ty_words(*have)),
					1 => format!("invalid argument #{} for {instr} (expect {}, got {})", idx + 1, names[0], ty_words(*have)),
					_ => format!("invalid argument #{} for {instr} (expect one of {{{}}}; got {})", idx + 1, names.join(", "), ty_words(*have)),
				}
			},
			InstrErrorKind::Assemble(source) => format!("instruction assembly failed <- {}", front_inner(source.as_ref())),
			other => format!("unknown.{other:?}"),
		};
	}
	diag_kind(e)
}
